package main

import (
	"bytes"
	"fmt"
	"go/ast"
	"go/parser"
	"go/printer"
	"go/token"
	"go/types"
	"path/filepath"
	"strings"
)

// ---------------------------------------------------------------------------
// G2: kmpDeduplicate (snap.go) and mapslicehelp.RemoveSequences -> gen/KmpDedupGen.v
//
// Same machinery as kmp.go (error monad, a Fixpoint on fuel per `for` loop), plus
//   for init; cond; post {}, continue, var x int, `for _, x := range s {}` with break and state (range_loop)
//   make([][2]float64, n), [][2]float64{a, b}, [2]int{a, b}, v = append(v, x) / append(v, s...) on points
// and, kept as calls of the model's function of the same meaning after checking the AST for the expected library call:
//   sortedmap.New[string, [2]int](n, func(a, b [2]int) bool { return a[xAx] < b[xAx] })  ->  []  : seqmap
//   X.Insert(fmt.Sprint(seg), [2]int{a, b})                                              ->  seq_insert X seg (a, b)
//   mmap := X.Map(); for _, key := range X.Keys() { .. mmap[key] .. }                     ->  the entries of X in order
//   slices.Contains(seg, v)                                                               ->  mem_pt v seg
//   copy(dst, src), slices.Reverse(x) on a local created by make                          ->  go_copy dst src, rev x
// ---------------------------------------------------------------------------

func sgPrint(fset *token.FileSet, n ast.Node) string {
	var b bytes.Buffer
	printer.Fprint(&b, fset, n)
	return strings.Join(strings.Fields(b.String()), " ")
}

// dedupCall: the library calls of kmpDeduplicate / RemoveSequences that occur in expressions.
func (g *sg) dedupCall(env *sgEnv, x *ast.CallExpr, binds *[]string) (sgVal, bool, error) {
	fun := types.ExprString(x.Fun)
	shadowed := func(pkg string) bool { _, s := env.vars[pkg]; return s }
	switch fun {
	case "sortedmap.New[string, [2]int]":
		if g.pkgs["sortedmap"] != "github.com/tobshub/go-sortedmap" || shadowed("sortedmap") {
			return sgVal{}, true, fmt.Errorf("sortedmap is not github.com/tobshub/go-sortedmap")
		}
		if len(x.Args) != 2 {
			return sgVal{}, true, fmt.Errorf("sortedmap.New: unexpected arguments")
		}
		var hb []string // the size hint has no meaning for the contents, but it is evaluated
		if h, err := g.expr(env, x.Args[0], &hb); err != nil || h.ty != stInt || len(hb) != 0 {
			return sgVal{}, true, fmt.Errorf("sortedmap.New: unsupported size hint")
		}
		want := "func(a, b [2]int) bool { return a[xAx] < b[xAx] }"
		if got := sgPrint(g.fset, x.Args[1]); got != want || !g.xAxIsZero {
			return sgVal{}, true, fmt.Errorf("sortedmap.New: the ordering is %q, the micro-model (seq_place) assumes %q with xAx = 0", got, want)
		}
		return sgVal{code: "(@nil (list pt * (Z * Z)))", ty: stSeqmap}, true, nil
	case "slices.Contains":
		if g.pkgs["slices"] != "slices" || shadowed("slices") || len(x.Args) != 2 {
			return sgVal{}, true, fmt.Errorf("unsupported slices.Contains")
		}
		s, err := g.expr(env, x.Args[0], binds)
		if err != nil {
			return sgVal{}, true, err
		}
		v, err := g.expr(env, x.Args[1], binds)
		if err != nil {
			return sgVal{}, true, err
		}
		if s.ty != stPts || v.ty != stPt {
			return sgVal{}, true, fmt.Errorf("slices.Contains on %s, %s", s.ty, v.ty)
		}
		return sgVal{code: "(mem_pt " + v.code + " " + s.code + ")", ty: stBool}, true, nil
	case "mapslicehelp.RemoveSequences":
		sig, ok := g.sigs["RemoveSequences"]
		if !g.imports["mapslicehelp"] || shadowed("mapslicehelp") || !ok || !g.emitted["RemoveSequences"] {
			return sgVal{}, true, fmt.Errorf("mapslicehelp.RemoveSequences is not translated")
		}
		as, err := g.args(env, x.Args, sig, binds)
		if err != nil {
			return sgVal{}, true, err
		}
		t := g.fresh("t")
		*binds = append(*binds, fmt.Sprintf("do %s <- gen_RemoveSequences %s;", t, strings.Join(as, " ")))
		return sgVal{code: t, ty: sig.result}, true, nil
	}
	return sgVal{}, false, nil
}

// dedupStmt: the library calls used as statements; returns the line that rebinds the changed variable.
func (g *sg) dedupStmt(env *sgEnv, c *ast.CallExpr) (string, bool, error) {
	fun := types.ExprString(c.Fun)
	madeLocal := func(a ast.Expr) (string, bool) {
		id, ok := a.(*ast.Ident)
		if !ok || env.vars[id.Name] != stPts || !env.made[id.Name] {
			return "", false
		}
		return id.Name, true
	}
	switch {
	case fun == "sort.Ints" && g.splitTail:
		k, ok := c.Args[0].(*ast.Ident)
		if _, s := env.vars["sort"]; s || g.pkgs["sort"] != "sort" || len(c.Args) != 1 || !ok || env.vars[k.Name] != stCKeys {
			return "", true, fmt.Errorf("unsupported sort.Ints")
		}
		g.sortedKeys[k.Name] = true
		return "(* " + k.Name + " sorted *)", true, nil
	case fun == "slices.Reverse" && g.splitTail:
		// slices.Reverse(x) on the variable of the enclosing range loop ("in place, not used elsewhere"): the
		// element is reversed for the rest of the iteration; what else shares its backing array is not modelled
		x, ok := c.Args[0].(*ast.Ident)
		if _, s := env.vars["slices"]; s || g.pkgs["slices"] != "slices" || len(c.Args) != 1 || !ok || env.vars[x.Name] != stPts || !env.rangeVar[x.Name] {
			return "", true, fmt.Errorf("unsupported slices.Reverse")
		}
		return fmt.Sprintf("let v_%s := (rev v_%s) in", x.Name, x.Name), true, nil
	case fun == "copy":
		if _, s := env.vars["copy"]; s || len(c.Args) != 2 {
			return "", true, fmt.Errorf("unsupported copy")
		}
		dst, ok := madeLocal(c.Args[0])
		if !ok {
			return "", true, fmt.Errorf("copy into something that is not a local created by make (aliasing)")
		}
		var binds []string
		src, err := g.expr(env, c.Args[1], &binds)
		if err != nil || src.ty != stPts || len(binds) != 0 {
			return "", true, fmt.Errorf("unsupported source of copy")
		}
		return fmt.Sprintf("let v_%s := (go_copy v_%s %s) in", dst, dst, src.code), true, nil
	case fun == "slices.Reverse":
		if _, s := env.vars["slices"]; s || g.pkgs["slices"] != "slices" || len(c.Args) != 1 {
			return "", true, fmt.Errorf("unsupported slices.Reverse")
		}
		x, ok := madeLocal(c.Args[0])
		if !ok {
			return "", true, fmt.Errorf("slices.Reverse of something that is not a local created by make (aliasing)")
		}
		return fmt.Sprintf("let v_%s := (rev v_%s) in", x, x), true, nil
	}
	if sel, ok := c.Fun.(*ast.SelectorExpr); ok && sel.Sel.Name == "Insert" {
		x, ok := sel.X.(*ast.Ident)
		if !ok || env.vars[x.Name] != stSeqmap {
			return "", false, nil
		}
		if len(c.Args) != 2 {
			return "", true, fmt.Errorf("unsupported Insert")
		}
		// the key: fmt.Sprint(segment), modelled by the segment itself (the printed form of a list of float pairs
		// determines the list)
		kc, ok := c.Args[0].(*ast.CallExpr)
		if !ok || types.ExprString(kc.Fun) != "fmt.Sprint" || g.pkgs["fmt"] != "fmt" || len(kc.Args) != 1 {
			return "", true, fmt.Errorf("Insert: the key is not fmt.Sprint(<points>)")
		}
		if _, s := env.vars["fmt"]; s {
			return "", true, fmt.Errorf("fmt is shadowed")
		}
		var binds []string
		key, err := g.expr(env, kc.Args[0], &binds)
		if err != nil || key.ty != stPts || len(binds) != 0 {
			return "", true, fmt.Errorf("Insert: unsupported key")
		}
		val, err := g.expr(env, c.Args[1], &binds)
		if err != nil || val.ty != stIPair || len(binds) != 0 {
			return "", true, fmt.Errorf("Insert: unsupported value")
		}
		return fmt.Sprintf("let v_%s := (seq_insert v_%s %s %s) in", x.Name, x.Name, key.code, val.code), true, nil
	}
	return "", false, nil
}

// rangeLoop: for _, x := range s { body } over the variables the body assigns.
func (g *sg) rangeLoop(env *sgEnv, s *ast.RangeStmt, after lcont, ctx *sgCtx) (string, error) {
	if !g.dedup {
		return "", fmt.Errorf("unsupported statement *ast.RangeStmt")
	}
	if s.Tok != token.DEFINE {
		return "", fmt.Errorf("unsupported range loop (no :=)")
	}
	indexOnly := false // for i := range s {}  (ring helpers)
	if s.Key != nil {
		if id, ok := s.Key.(*ast.Ident); !ok || id.Name != "_" {
			if !ok || !g.rh || s.Value != nil {
				return "", fmt.Errorf("unsupported range loop (index variable)")
			}
			indexOnly = true
		}
	}
	val, ok := s.Value.(*ast.Ident)
	if indexOnly {
		val, ok = s.Key.(*ast.Ident)
	}
	if !ok || val.Name == "_" {
		return "", fmt.Errorf("unsupported range loop (no element variable)")
	}
	bodyEnv := env.clone()
	var binds []string
	var list, elTy string
	if g.rh {
		list, elTy = g.rhRangeSource(env, s.X)
	}
	if indexOnly {
		v, err := g.expr(env, s.X, &binds)
		if err != nil {
			return "", err
		}
		if _, ok := sgElem(v.ty); !ok {
			return "", fmt.Errorf("range over %s", v.ty)
		}
		list, elTy = "(zseq (length "+v.code+"))", stInt
	}
	if c, ok := s.X.(*ast.CallExpr); ok && len(c.Args) == 0 {
		if sel, ok := c.Fun.(*ast.SelectorExpr); ok && sel.Sel.Name == "Keys" {
			if x, ok := sel.X.(*ast.Ident); ok && env.vars[x.Name] == stSeqmap {
				// the keys of the sorted map in order; a key is read together with its value (mmap[key])
				list, elTy = "v_"+x.Name, stEntry
				bodyEnv.keyOf[val.Name] = x.Name
			}
		}
	}
	if id, ok := s.X.(*ast.Ident); ok && env.vars[id.Name] == stCKeys {
		if !g.sortedKeys[id.Name] {
			return "", fmt.Errorf("range over the keys of a map that have not been sorted: the order is not defined")
		}
		list, elTy = "v_"+env.mapOf[id.Name], stCEntry
		bodyEnv.keyOf[val.Name] = env.mapOf[id.Name]
	}
	if list == "" {
		v, err := g.expr(env, s.X, &binds)
		if err != nil {
			return "", err
		}
		el, ok := sgElem(v.ty)
		if !ok {
			return "", fmt.Errorf("range over %s", v.ty)
		}
		list, elTy = v.code, el
	}
	asg := map[string]bool{}
	sgAssigned(s.Body.List, asg)
	if g.splitTail {
		delete(asg, val.Name) // slices.Reverse(x) on the range variable rebinds it inside the iteration only
	}
	if asg["?"] || asg[val.Name] {
		return "", fmt.Errorf("range loop: unsupported assignment target")
	}
	var state, sty []string
	for _, v := range env.order {
		if asg[v] {
			if v == val.Name {
				return "", fmt.Errorf("range variable %s shadows a variable the loop assigns", v)
			}
			state = append(state, "v_"+v)
			sty = append(sty, sgCoq[env.vars[v]])
		} else if asg["call:"+v] && env.vars[v] == stInts {
			return "", fmt.Errorf("range loop: call statements that write through %s are not supported", v)
		}
	}
	if len(state) == 0 {
		return "", fmt.Errorf("range loop that assigns nothing")
	}
	tuple, pattern := state[0], fmt.Sprintf("(%s : %s)", state[0], sty[0])
	if len(state) > 1 {
		tuple = "(" + strings.Join(state, ", ") + ")"
		pattern = fmt.Sprintf("'(%s : (%s)%%type)", tuple, strings.Join(sty, " * "))
	}
	if _, exists := bodyEnv.vars[val.Name]; exists {
		delete(bodyEnv.mapOf, val.Name)
		bodyEnv.made[val.Name] = false
		bodyEnv.vars[val.Name] = elTy // shadows the outer variable inside the body only
	} else {
		bodyEnv.declare(val.Name, elTy)
	}
	bodyEnv.rangeVar = map[string]bool{val.Name: true}
	inner := &sgCtx{
		ret:  func(v string) string { return "Ok (RRet " + v + ")" },
		brk:  func() (string, error) { return "Ok (Brk " + tuple + ")", nil },
		cont: func() (string, error) { return "Ok (Cont " + tuple + ")", nil },
	}
	k := lcont{gen: func() (string, error) { return "Ok (Cont " + tuple + ")", nil }, cheap: true}
	body, err := g.stmts(bodyEnv, s.Body.List, k, inner)
	if err != nil {
		return "", err
	}
	rest, err := after.gen()
	if err != nil {
		return "", err
	}
	out, r := g.fresh("out"), g.fresh("r")
	binds = append(binds, fmt.Sprintf("do %s <- range_loop (R := %s) (fun (v_%s : %s) %s =>\n    %s) %s %s;",
		out, sgCoq[g.cur.retTy], val.Name, sgCoq[elTy], pattern, body, list, tuple))
	return sgJoin(binds, fmt.Sprintf("match %s with\n  | Ret %s => %s\n  | Next %s => %s\n  end", out, r, ctx.ret(r), tuple, rest)), nil
}

func genKmpDedup(repo string) (string, error) {
	g, err := sgLoad(repo)
	if err != nil {
		return "", err
	}
	g.dedup = true
	// mapslicehelp.RemoveSequences
	mf, err := parser.ParseFile(g.fset, filepath.Join(repo, "mapslicehelp/mapslicehelp.go"), nil, 0)
	if err != nil {
		return "", err
	}
	for _, im := range mf.Imports {
		path := strings.Trim(im.Path.Value, `"`)
		name := path[strings.LastIndex(path, "/")+1:]
		if im.Name != nil {
			name = im.Name.Name
		}
		if name == "go-sortedmap" {
			name = "sortedmap"
		}
		if old, ok := g.pkgs[name]; ok && old != path {
			return "", fmt.Errorf("import %s differs between snap.go and mapslicehelp.go", name)
		}
		g.pkgs[name] = path
	}
	for _, d := range mf.Decls {
		if fd, ok := d.(*ast.FuncDecl); ok && fd.Recv == nil && fd.Name.Name == "RemoveSequences" {
			if _, clash := g.funcs["RemoveSequences"]; clash {
				return "", fmt.Errorf("package snap declares its own RemoveSequences")
			}
			got := ""
			if fd.Type.TypeParams != nil {
				for _, f := range fd.Type.TypeParams.List {
					for _, n := range f.Names {
						got += n.Name + " " + types.ExprString(f.Type) + ";"
					}
				}
			}
			if got != "V any;K comparable;" {
				return "", fmt.Errorf("RemoveSequences: type parameters %s", got)
			}
			g.funcs["RemoveSequences"] = fd
		}
	}
	// kmpSearchAll is translated into KmpGen.v
	ksa, ok := g.funcs["kmpSearchAll"]
	if !ok {
		return "", fmt.Errorf("kmpSearchAll not found")
	}
	sig, err := g.signature(ksa)
	if err != nil || len(sig.params) != 2 || sig.params[0].ty != stPts || sig.params[1].ty != stPts || sig.result != stInts {
		return "", fmt.Errorf("kmpSearchAll does not have the signature KmpGen.v gives it")
	}
	g.sigs["kmpSearchAll"], g.emitted["kmpSearchAll"] = sig, true

	g.out.WriteString("(* GENERATED by /verif/translator (G2, loops in the error monad) from snap/snap.go and mapslicehelp/mapslicehelp.go on every run -- do not edit. *)\n")
	g.out.WriteString("From Coq Require Import ZArith List Bool.\nFrom Texel Require Import Prelude.Base Prelude.GoLoop Index.Model Snap.Model.\nFrom Texel.Gen Require Import KmpGen.\nImport ListNotations.\nOpen Scope Z_scope.\n\n")
	g.generic = map[string]string{"V": stPt}
	if err := g.function("RemoveSequences"); err != nil {
		return "", err
	}
	g.generic = map[string]string{}
	if err := g.function("kmpDeduplicate"); err != nil {
		return "", err
	}
	return g.out.String(), nil
}

// genCleanupRing: cleanupNewRing of snap.go -> gen/CleanupRingGen.v.  kmpDeduplicate, asPointOrLine and splitRing are
// the regenerated ones (KmpDedupGen.v, SnapSmallGen.v, SplitWalkGen.v); the arguments (hitMultiple, ringIdx) of
// splitRing are the predicate isMulti.
func genCleanupRing(repo string) (string, error) {
	g, err := sgLoad(repo)
	if err != nil {
		return "", err
	}
	g.dedup, g.cleanup = true, true
	fd, ok := g.funcs["cleanupNewRing"]
	if !ok {
		return "", fmt.Errorf("cleanupNewRing not found")
	}
	var flat []lfield
	for _, f := range fd.Type.Params.List {
		for _, n := range f.Names {
			flat = append(flat, lfield{n.Name, types.ExprString(f.Type)})
		}
	}
	for i := 0; i+1 < len(flat); i++ {
		if flat[i].ty == "map[intgeom.Point][]int" && flat[i+1].ty == "int" {
			g.multiParams = [2]string{flat[i].name, flat[i+1].name}
		}
	}
	if g.multiParams[0] == "" {
		return "", fmt.Errorf("cleanupNewRing: the parameters (hitMultiple map[intgeom.Point][]int, ringIdx int) were not found")
	}
	for name, want := range map[string][2]string{"kmpDeduplicate": {stPts, stPts}, "asPointOrLine": {stPts, stRings}} {
		f, ok := g.funcs[name]
		if !ok {
			return "", fmt.Errorf("%s not found", name)
		}
		g.cleanup = false
		sig, err := g.signature(f)
		g.cleanup = true
		if err != nil || len(sig.params) != 1 || sig.params[0].ty != want[0] || sig.result != want[1] {
			return "", fmt.Errorf("%s does not have the signature its generated file gives it", name)
		}
		g.sigs[name], g.emitted[name] = sig, true
	}
	g.out.WriteString("(* GENERATED by /verif/translator (G2, loops in the error monad) from snap/snap.go on every run -- do not edit. *)\n")
	g.out.WriteString("From Coq Require Import ZArith List Bool.\nFrom Texel Require Import Prelude.Base Prelude.GoLoop Index.Model Snap.Model.\nFrom Texel.Gen Require Import KmpDedupGen SnapSmallGen SplitWalkGen.\nImport ListNotations.\nOpen Scope Z_scope.\n\n")
	if err := g.function("cleanupNewRing"); err != nil {
		return "", err
	}
	return g.out.String(), nil
}

// genSplitTail: the last part of splitRing (from `completeRingKeys := maps.Keys(completeRings)` on): the complete rings,
// in increasing key order, are classified by size and winding order, and swapped when everything landed on the
// wrong side -> gen/SplitTailGen.v.  The part before it (the ordered-map stack walk) is NOT translated.
func genSplitTail(repo string) (string, error) {
	g, err := sgLoad(repo)
	if err != nil {
		return "", err
	}
	g.dedup, g.splitTail, g.useExternals, g.sortedKeys = true, true, true, map[string]bool{}
	fd, ok := g.funcs["splitRing"]
	if !ok {
		return "", fmt.Errorf("splitRing not found")
	}
	want := "func(ring [][2]float64, isOuter bool, hitMultiple map[intgeom.Point][]int, ringIdx int) (outerRings, innerRings, pointsAndLines [][][2]float64)"
	if got := types.ExprString(fd.Type); got != want {
		return "", fmt.Errorf("splitRing has the signature %s", got)
	}
	cut, mapName := -1, ""
	for i, st := range fd.Body.List {
		if as, ok := st.(*ast.AssignStmt); ok && as.Tok == token.DEFINE && len(as.Rhs) == 1 {
			if c, ok := as.Rhs[0].(*ast.CallExpr); ok && types.ExprString(c.Fun) == "maps.Keys" && len(c.Args) == 1 {
				if m, ok := c.Args[0].(*ast.Ident); ok && cut < 0 {
					cut, mapName = i, m.Name
				}
			}
		}
	}
	if cut < 0 {
		return "", fmt.Errorf("splitRing: the statement `keys := maps.Keys(completeRings)` was not found")
	}
	// completeRings must be the map[int][][2]float64 made in the first part, and the three results must not be
	// touched before the cut (they are nil there)
	madeMap := false
	var bad error
	for _, st := range fd.Body.List[:cut] {
		ast.Inspect(st, func(n ast.Node) bool {
			switch n := n.(type) {
			case *ast.AssignStmt:
				if len(n.Lhs) == 1 && len(n.Rhs) == 1 {
					if id, ok := n.Lhs[0].(*ast.Ident); ok && id.Name == mapName && n.Tok == token.DEFINE &&
						types.ExprString(n.Rhs[0]) == "make(map[int][][2]float64)" {
						madeMap = true
					}
				}
			case *ast.Ident:
				if n.Name == "outerRings" || n.Name == "innerRings" || n.Name == "pointsAndLines" {
					bad = fmt.Errorf("splitRing: %s is used before the classification part", n.Name)
				}
			}
			return true
		})
	}
	if bad != nil {
		return "", bad
	}
	if !madeMap {
		return "", fmt.Errorf("splitRing: %s is not `make(map[int][][2]float64)`", mapName)
	}
	sig := &sgSig{name: "splitRing_tail", mutated: -1, result: stSets, retTy: stSets}
	g.sigs["splitRing_tail"], g.cur, g.n, g.loopN, g.pre = sig, sig, 0, 0, nil
	env := &sgEnv{vars: map[string]string{}, made: map[string]bool{}, deref: map[string]string{}, mapOf: map[string]string{}, keyOf: map[string]string{}}
	env.declare("isOuter", stBool)
	env.vars[mapName] = stCMap
	lets := ""
	for _, r := range []string{"outerRings", "innerRings", "pointsAndLines"} {
		env.declare(r, stRings)
		lets += "let v_" + r + " := (@nil (list pt)) in\n  "
	}
	fall := lcont{gen: func() (string, error) {
		return "", fmt.Errorf("control reaches the end of the function without a return")
	}, cheap: true}
	body, err := g.stmts(env, fd.Body.List[cut:], fall, &sgCtx{ret: func(v string) string { return "Ok " + v }})
	if err != nil {
		return "", fmt.Errorf("splitRing (classification part): %v", err)
	}
	if g.loopN != 0 {
		return "", fmt.Errorf("splitRing (classification part): unexpected for loop")
	}
	g.out.WriteString("(* GENERATED by /verif/translator (G2, error monad) from snap/snap.go on every run -- do not edit. *)\n")
	g.out.WriteString("From Coq Require Import ZArith List Bool.\nFrom Texel Require Import Prelude.Base Prelude.GoLoop Index.Model Snap.Model.\nImport ListNotations.\nOpen Scope Z_scope.\n\n")
	pos := g.fset.Position(fd.Body.List[cut].Pos())
	fmt.Fprintf(&g.out, "(* %s:%d func splitRing, from this line on; v_%s = the entries of the map %s in increasing key order *)\nDefinition gen_splitRing_tail (v_isOuter : bool) (v_%s : complete) : res ringSets :=\n  %s%s.\n",
		filepath.Base(pos.Filename), pos.Line, mapName, mapName, mapName, lets, body)
	return g.out.String(), nil
}
