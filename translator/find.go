package main

import (
	"fmt"
	"go/ast"
	"go/parser"
	"go/token"
	"go/types"
	"math/big"
	"path/filepath"
	"strings"
)

// ---------------------------------------------------------------------------
// G2 (pointindex.go, whole function bodies in the error monad):
//   findIntersectingQuadrants -> gen/FindGen.v      (genFind, this file)
//   checkPointHits            -> gen/HitsGen.v      (genHits, hits.go)
//   snapClosestPoints, insertCoord -> gen/DescentGen.v (genDescent, descent.go)
//
// A typed, statement-by-statement translation into the monad `res` of
// Prelude/Base.v (so that a panic of the Go code is an `Err` value):
//
//	types        int (exact Z: quadrant numbers, ring ids; no arithmetic on it is translated),
//	             uint / morton.Z / Level (N, arithmetic modulo 2^64), int64 (Z, comparisons only), bool,
//	             intgeom.Point / Line / Extent (pairs / 4-tuple), the structs declared in
//	             pointindex.go (a Coq record generated from the declaration), []T (list),
//	             [n]T (list of length n), map[K]V (gomap of Prelude/GoAssoc.v)
//	expressions  constants, ! && || == != < <= > >=, constant indexing of arrays, field selection,
//	             T{..} and []T{{..}, ..} literals, make, append(s, x), len,
//	             m[k] (zero value when missing), slices.Contains on []int,
//	             calls of functions regenerated in other generated files (checked signature)
//	statements   x := e, x = e, var x T, v, ok := m[k], m[k] = v, if / else, tagless switch, return,
//	             for _, x := range s { } with loop-carried variables and continue / break
//	             (range_loop of Prelude/GoLoop.v)
//
// The code that follows a branching statement is bound as a local function of
// the variables the branches assign, as in lineintersects.go.  Anything outside
// the subset is an error = a generated file that does not compile.
// ---------------------------------------------------------------------------

type pgVal struct {
	code string
	ty   string
	c    *big.Int // value of an integer constant expression
}

type pgEnv struct {
	order  []string
	vars   map[string]string
	refs   map[string]bool // map variables that stand for a map of the receiver (written through, returned)
	nonNil map[string]bool // inner maps m[k] (printed expression) known to have been made: `if m[k] == nil { m[k] = make(..) }`
}

func (e *pgEnv) clone() *pgEnv {
	c := &pgEnv{order: append([]string{}, e.order...), vars: map[string]string{}, refs: e.refs, nonNil: map[string]bool{}}
	for k, v := range e.vars {
		c.vars[k] = v
	}
	for k, v := range e.nonNil {
		c.nonNil[k] = v
	}
	return c
}

// forget drops the facts about inner maps whose expression mentions the identifier name
func (e *pgEnv) forget(name string) {
	for k := range e.nonNil {
		for _, w := range strings.FieldsFunc(k, func(r rune) bool { return r == '.' || r == '[' || r == ']' }) {
			if w == name {
				delete(e.nonNil, k)
			}
		}
	}
}

func (e *pgEnv) declare(n, ty string) {
	if _, ok := e.vars[n]; !ok {
		e.order = append(e.order, n)
	}
	e.vars[n] = ty
}

type pgCtx struct {
	ret      func(string) string
	brk      func() (string, error)
	cont     func() (string, error)
	inSwitch bool
}

// a function regenerated in another generated file (pure and total there): only its signature is needed here
type pgExternal struct {
	params []string
	result string
	coq    string
	monad  string // "" pure; "option" = option-valued (None = panic, mapped to errOnNone)
	err    string
}

type pgSig struct {
	name    string
	coqName string
	params  []lfield
	result  string // "" = no result
	retCoq  string
	refs    []string // reference maps returned by a function without result
}

type pg struct {
	fset       *token.FileSet
	file       *ast.File
	funcs      map[string]*ast.FuncDecl
	structs    map[string][]lfield
	structPos  map[string]token.Pos
	aliases    map[string]string
	consts     map[string]*big.Int
	geomName   string
	mortonName string
	slicesName string
	mathName   string
	externals  map[string]pgExternal
	sigs       map[string]*pgSig // functions translated by this generator (monadic)
	cur        *pgSig
	okAppend   map[*ast.CallExpr]bool // append(x, e) calls whose result is assigned back to x
	mapParams  map[string]bool        // map-typed parameters of the function being translated (read only)
	recv       string                 // name of the receiver of the method being translated
	stateVar   map[string]string      // fields of the receiver the method assigns -> the variable that holds their value
	n          int
	fuel       map[string][]string
	loopN      int
	pre        []string // top-level Fixpoints of the loops of the function being translated
	out        strings.Builder
	top        bool    // genIndexTop (indextop.go): the hooks top* below are active
	topState   *topCtx // state of those hooks
}

func (g *pg) fresh(p string) string {
	g.n++
	return fmt.Sprintf("%s_%d", p, g.n)
}

// ---- types -----------------------------------------------------------------

func pgSlice(t string) (string, bool) {
	if strings.HasPrefix(t, "slice:") {
		return t[6:], true
	}
	return "", false
}

// "map:<key>|<value>" (the key is one of int, uint, Pt: no '|' inside)
func pgMap(t string) (string, string, bool) {
	if !strings.HasPrefix(t, "map:") {
		return "", "", false
	}
	rest := t[4:]
	i := strings.Index(rest, "|")
	return rest[:i], rest[i+1:], true
}

func (g *pg) goType(x ast.Expr) (string, error) {
	if g.top {
		if t, handled, err := g.topGoType(x); handled {
			return t, err
		}
	}
	switch t := x.(type) {
	case *ast.Ident:
		switch t.Name {
		case "int", "bool", "uint", "int64":
			return t.Name, nil
		case "any":
			return "any", nil
		}
		if a, ok := g.aliases[t.Name]; ok {
			return a, nil
		}
		if _, ok := g.structs[t.Name]; ok {
			return "struct:" + t.Name, nil
		}
	case *ast.SelectorExpr:
		if id, ok := t.X.(*ast.Ident); ok && id.Name == g.geomName && g.geomName != "" {
			switch t.Sel.Name {
			case "Line":
				return ltLine, nil
			case "Point":
				return ltPt, nil
			case "Extent":
				return ltExtent, nil
			case "M":
				return ltInt64, nil
			}
		}
		if id, ok := t.X.(*ast.Ident); ok && id.Name == g.mortonName && g.mortonName != "" && t.Sel.Name == "Z" {
			return ltUint, nil // type Z = uint (lgCheckMorton)
		}
	case *ast.ArrayType:
		el, err := g.goType(t.Elt)
		if err != nil {
			return "", err
		}
		if t.Len == nil {
			return "slice:" + el, nil
		}
		if bl, ok := t.Len.(*ast.BasicLit); ok && bl.Kind == token.INT {
			n, err := parseIntLit(bl.Value)
			if err != nil || !n.IsInt64() || n.Int64() < 1 || n.Int64() > 64 {
				return "", fmt.Errorf("unsupported array length %s", bl.Value)
			}
			return fmt.Sprintf("arr:%d:%s", n.Int64(), el), nil
		}
	case *ast.MapType:
		k, err := g.goType(t.Key)
		if err != nil {
			return "", err
		}
		if k != ltInt && k != ltUint && k != ltPt {
			return "", fmt.Errorf("unsupported map key type %s", k)
		}
		v, err := g.goType(t.Value)
		if err != nil {
			return "", err
		}
		return "map:" + k + "|" + v, nil
	case *ast.StarExpr:
		if id, ok := t.X.(*ast.Ident); ok {
			if _, isStruct := g.structs[id.Name]; isStruct {
				return "ptr:" + id.Name, nil
			}
		}
	}
	return "", fmt.Errorf("unsupported type %s", types.ExprString(x))
}

func (g *pg) coqType(t string) (string, error) {
	if g.top {
		if ct, handled := g.topCoqType(t); handled {
			return ct, nil
		}
	}
	if el, ok := pgSlice(t); ok {
		ct, err := g.coqType(el)
		if err != nil {
			return "", err
		}
		return "(list " + ct + ")", nil
	}
	if _, el, ok := lgArr(t); ok {
		ct, err := g.coqType(el)
		if err != nil {
			return "", err
		}
		return "(list " + ct + ")", nil
	}
	if k, v, ok := pgMap(t); ok {
		ck, err := g.coqType(k)
		if err != nil {
			return "", err
		}
		cv, err := g.coqType(v)
		if err != nil {
			return "", err
		}
		return "(gomap " + ck + " " + cv + ")", nil
	}
	switch {
	case t == ltUint:
		return "N", nil
	case t == ltInt || t == ltInt64:
		return "Z", nil
	case t == ltBool:
		return "bool", nil
	case t == "any":
		return "unit", nil
	case t == ltLine:
		return "((Z * Z) * (Z * Z))%type", nil
	case t == ltPt:
		return "(Z * Z)%type", nil
	case t == ltExtent:
		return "gen_extent", nil
	case strings.HasPrefix(t, "struct:"):
		return "gen_" + t[7:], nil
	case strings.HasPrefix(t, "ptr:"):
		return "gen_" + t[4:], nil
	}
	return "", fmt.Errorf("no Coq type for %s", t)
}

// zero value of a type
func (g *pg) zero(t string) (string, error) {
	if g.top {
		if z, handled := g.topZero(t); handled {
			return z, nil
		}
	}
	if _, ok := pgSlice(t); ok {
		ct, err := g.coqType(t)
		if err != nil {
			return "", err
		}
		return "(@nil " + ct[6:len(ct)-1] + ")", nil
	}
	if n, el, ok := lgArr(t); ok {
		z, err := g.zero(el)
		if err != nil {
			return "", err
		}
		items := make([]string, n)
		for i := range items {
			items[i] = z
		}
		return "[" + strings.Join(items, "; ") + "]", nil
	}
	if k, v, ok := pgMap(t); ok { // the nil map, for reading
		ck, err := g.coqType(k)
		if err != nil {
			return "", err
		}
		cv, err := g.coqType(v)
		if err != nil {
			return "", err
		}
		return "(@nil (" + ck + " * " + cv + "))", nil
	}
	switch {
	case t == ltUint:
		return "0%N", nil
	case t == ltInt || t == ltInt64:
		return "0", nil
	case t == ltBool:
		return "false", nil
	case t == ltPt:
		return "(0, 0)", nil
	case t == ltLine:
		return "((0, 0), (0, 0))", nil
	case t == ltExtent:
		return "(0, 0, 0, 0)", nil
	case strings.HasPrefix(t, "struct:"):
		sn := t[7:]
		var parts []string
		for _, f := range g.structs[sn] {
			z, err := g.zero(f.ty)
			if err != nil {
				return "", err
			}
			parts = append(parts, z)
		}
		return "(mk_gen_" + sn + " " + strings.Join(parts, " ") + ")", nil
	}
	return "", fmt.Errorf("no zero value for %s", t)
}

func pgKeyEqb(k string) (string, error) {
	switch k {
	case ltInt:
		return "Z.eqb", nil
	case ltUint:
		return "N.eqb", nil
	case ltPt:
		return "pt_eqb", nil
	}
	return "", fmt.Errorf("no key equality for %s", k)
}

func pgIsInt(t string) bool { return t == ltInt || t == ltUint || t == ltInt64 }

func pgLit(z *big.Int, ty string) string {
	if ty == ltUint {
		return z.String() + "%N"
	}
	return lgLit(z)
}

func (g *pg) conv(v pgVal, ty string) (pgVal, error) {
	if v.ty == ty {
		return v, nil
	}
	if g.top {
		if r, handled := g.topConv(v, ty); handled {
			return r, nil
		}
	}
	if v.ty == ltUntyped && pgIsInt(ty) {
		lo, hi := lgRange(ty)
		if v.c.Cmp(lo) < 0 || v.c.Cmp(hi) > 0 {
			return pgVal{}, fmt.Errorf("constant %s overflows %s", v.c, ty)
		}
		return pgVal{code: pgLit(v.c, ty), ty: ty, c: v.c}, nil
	}
	if v.ty == "nil" {
		if _, ok := pgSlice(ty); ok {
			z, err := g.zero(ty)
			return pgVal{code: z, ty: ty}, err
		}
	}
	return pgVal{}, fmt.Errorf("type mismatch: %s used as %s", v.ty, ty)
}

// ---- expressions -------------------------------------------------------------

// expr translates an expression; operations that can panic are appended to binds, in evaluation order.
func (g *pg) expr(env *pgEnv, x ast.Expr, binds *[]string) (pgVal, error) {
	if g.top {
		if v, handled, err := g.topExpr(env, x, binds); handled {
			return v, err
		}
	}
	switch x := x.(type) {
	case *ast.ParenExpr:
		return g.expr(env, x.X, binds)
	case *ast.BasicLit:
		if x.Kind != token.INT {
			return pgVal{}, fmt.Errorf("unsupported literal %s", x.Value)
		}
		z, err := parseIntLit(x.Value)
		if err != nil {
			return pgVal{}, err
		}
		return pgVal{code: lgLit(z), ty: ltUntyped, c: z}, nil
	case *ast.Ident:
		if t, ok := env.vars[x.Name]; ok {
			return pgVal{code: "v_" + x.Name, ty: t}, nil
		}
		switch x.Name {
		case "true", "false":
			return pgVal{code: x.Name, ty: ltBool}, nil
		case "nil":
			return pgVal{code: "nil", ty: "nil"}, nil
		}
		if z, ok := g.consts[x.Name]; ok {
			return pgVal{code: lgLit(z), ty: ltUntyped, c: z}, nil
		}
		return pgVal{}, fmt.Errorf("unknown identifier %s", x.Name)
	case *ast.UnaryExpr:
		v, err := g.expr(env, x.X, binds)
		if err != nil {
			return pgVal{}, err
		}
		switch x.Op {
		case token.NOT:
			if v.ty != ltBool {
				return pgVal{}, fmt.Errorf("! on %s", v.ty)
			}
			return pgVal{code: "(negb " + v.code + ")", ty: ltBool}, nil
		case token.SUB:
			if v.c != nil && v.ty == ltUntyped {
				z := new(big.Int).Neg(v.c)
				return pgVal{code: lgLit(z), ty: ltUntyped, c: z}, nil
			}
		}
		return pgVal{}, fmt.Errorf("unsupported unary %s on %s", x.Op, v.ty)
	case *ast.BinaryExpr:
		return g.binary(env, x, binds)
	case *ast.IndexExpr:
		return g.index(env, x, binds)
	case *ast.SelectorExpr:
		if sv := g.stateOf(env, x); sv != "" { // a field of the receiver that the method assigns: its current value
			return pgVal{code: "v_" + sv, ty: env.vars[sv]}, nil
		}
		v, err := g.expr(env, x.X, binds)
		if err != nil {
			return pgVal{}, err
		}
		return g.field(v, x.Sel.Name)
	case *ast.CallExpr:
		return g.call(env, x, binds)
	case *ast.CompositeLit:
		ty, err := g.goType(x.Type)
		if err != nil {
			return pgVal{}, err
		}
		return g.composite(env, x, ty, binds)
	}
	return pgVal{}, fmt.Errorf("unsupported expression %T", x)
}

// stateOf: recv.f for a field f the method assigns -> the name of the variable that holds it, else ""
func (g *pg) stateOf(env *pgEnv, x ast.Expr) string {
	sel, ok := x.(*ast.SelectorExpr)
	if !ok || g.recv == "" {
		return ""
	}
	id, ok := sel.X.(*ast.Ident)
	if !ok || id.Name != g.recv || !strings.HasPrefix(env.vars[g.recv], "ptr:") {
		return ""
	}
	return g.stateVar[sel.Sel.Name]
}

// baseVar: the variable an assignment target x, x[i], x[i][j] (x a variable or a state field) writes
func (g *pg) baseVar(x ast.Expr) string {
	switch t := x.(type) {
	case *ast.Ident:
		return t.Name
	case *ast.IndexExpr:
		return g.baseVar(t.X)
	case *ast.SelectorExpr:
		if id, ok := t.X.(*ast.Ident); ok && id.Name == g.recv && g.recv != "" {
			if sv, ok := g.stateVar[t.Sel.Name]; ok {
				return sv
			}
		}
	}
	return "?"
}

// field selection on a struct value or on the receiver pointer (fields of an embedded struct are promoted)
func (g *pg) field(v pgVal, name string) (pgVal, error) {
	var sn string
	switch {
	case strings.HasPrefix(v.ty, "struct:"):
		sn = v.ty[7:]
	case strings.HasPrefix(v.ty, "ptr:"):
		sn = v.ty[4:]
	default:
		return pgVal{}, fmt.Errorf("unsupported selector .%s on %s", name, v.ty)
	}
	for _, f := range g.structs[sn] {
		if f.name == name {
			return pgVal{code: "(" + sn + "_" + f.name + " " + v.code + ")", ty: f.ty}, nil
		}
	}
	// promoted field of an embedded struct (the embedded field carries the name of its type)
	for _, f := range g.structs[sn] {
		if strings.HasPrefix(f.ty, "struct:") && f.name == f.ty[7:] {
			for _, f2 := range g.structs[f.name] {
				if f2.name == name {
					return pgVal{code: "(" + f.name + "_" + f2.name + " (" + sn + "_" + f.name + " " + v.code + "))", ty: f2.ty}, nil
				}
			}
		}
	}
	return pgVal{}, fmt.Errorf("unknown field %s.%s", sn, name)
}

func (g *pg) index(env *pgEnv, x *ast.IndexExpr, binds *[]string) (pgVal, error) {
	v, err := g.expr(env, x.X, binds)
	if err != nil {
		return pgVal{}, err
	}
	iv, err := g.expr(env, x.Index, binds)
	if err != nil {
		return pgVal{}, err
	}
	if g.top {
		if r, handled, err := g.topIndex(v, iv); handled {
			return r, err
		}
	}
	if k, el, ok := pgMap(v.ty); ok { // m[k] in a value context: the zero value when there is no entry
		if iv, err = g.conv(iv, k); err != nil {
			return pgVal{}, fmt.Errorf("map key: %v", err)
		}
		eqb, err := pgKeyEqb(k)
		if err != nil {
			return pgVal{}, err
		}
		z, err := g.zero(el)
		if err != nil {
			return pgVal{}, err
		}
		return pgVal{code: fmt.Sprintf("(gm_get_or %s %s %s %s)", eqb, z, v.code, iv.code), ty: el}, nil
	}
	if iv.c == nil || !(iv.ty == ltUntyped || iv.ty == ltInt) || !iv.c.IsInt64() {
		return pgVal{}, fmt.Errorf("index %s is not an integer constant", types.ExprString(x.Index))
	}
	i := iv.c.Int64()
	switch {
	case v.ty == ltLine && (i == 0 || i == 1):
		return pgVal{code: "(" + []string{"fst", "snd"}[i] + " " + v.code + ")", ty: ltPt}, nil
	case v.ty == ltPt && (i == 0 || i == 1):
		return pgVal{code: "(" + []string{"fst", "snd"}[i] + " " + v.code + ")", ty: ltInt64}, nil
	case v.ty == ltExtent && 0 <= i && i < 4:
		return pgVal{code: "(" + []string{"gx_minx", "gx_miny", "gx_maxx", "gx_maxy"}[i] + " " + v.code + ")", ty: ltInt64}, nil
	}
	return pgVal{}, fmt.Errorf("unsupported index [%d] on %s", i, v.ty)
}

// isNil: the predeclared nil
func pgIsNil(env *pgEnv, x ast.Expr) bool {
	id, ok := x.(*ast.Ident)
	if !ok || id.Name != "nil" {
		return false
	}
	_, shadow := env.vars["nil"]
	return !shadow
}

// m[k] == nil for a map m of maps: there is no entry for k.  (An entry of a map of maps is never a nil map: the
// translated code stores only the results of make, and so do FromTileMatrixSet / InsertPolygon.)
func (g *pg) nilTest(env *pgEnv, x *ast.BinaryExpr, binds *[]string) (pgVal, bool, error) {
	if x.Op != token.EQL && x.Op != token.NEQ {
		return pgVal{}, false, nil
	}
	if g.top {
		if v, handled, err := g.topNilTest(env, x, binds); handled {
			return v, true, err
		}
	}
	var other ast.Expr
	switch {
	case pgIsNil(env, x.Y):
		other = x.X
	case pgIsNil(env, x.X):
		other = x.Y
	default:
		return pgVal{}, false, nil
	}
	ix, ok := other.(*ast.IndexExpr)
	if !ok {
		return pgVal{}, true, fmt.Errorf("comparison with nil is only supported for an entry m[k] of a map of maps")
	}
	m, err := g.expr(env, ix.X, binds)
	if err != nil {
		return pgVal{}, true, err
	}
	kt, el, isMap := pgMap(m.ty)
	if !isMap {
		return pgVal{}, true, fmt.Errorf("comparison of an element of %s with nil", m.ty)
	}
	if _, _, inner := pgMap(el); !inner {
		return pgVal{}, true, fmt.Errorf("comparison of an element of %s with nil", m.ty)
	}
	key, err := g.expr(env, ix.Index, binds)
	if err != nil {
		return pgVal{}, true, err
	}
	if key, err = g.conv(key, kt); err != nil {
		return pgVal{}, true, err
	}
	eqb, err := pgKeyEqb(kt)
	if err != nil {
		return pgVal{}, true, err
	}
	code := fmt.Sprintf("(gm_has %s %s %s)", eqb, m.code, key.code)
	if x.Op == token.EQL {
		code = "(negb " + code + ")"
	}
	return pgVal{code: code, ty: ltBool}, true, nil
}

func (g *pg) binary(env *pgEnv, x *ast.BinaryExpr, binds *[]string) (pgVal, error) {
	if v, handled, err := g.nilTest(env, x, binds); handled {
		return v, err
	}
	a, err := g.expr(env, x.X, binds)
	if err != nil {
		return pgVal{}, err
	}
	var rb []string
	b, err := g.expr(env, x.Y, &rb)
	if err != nil {
		return pgVal{}, err
	}
	switch x.Op {
	case token.LAND, token.LOR:
		if a.ty != ltBool || b.ty != ltBool {
			return pgVal{}, fmt.Errorf("%s on %s, %s", x.Op, a.ty, b.ty)
		}
		if len(rb) != 0 {
			return pgVal{}, fmt.Errorf("right operand of %s can panic: short-circuit evaluation of it is not supported", x.Op)
		}
		// the right operand is a pure, total term: Gallina's && and || give the value Go's short-circuit gives
		op := "&&"
		if x.Op == token.LOR {
			op = "||"
		}
		return pgVal{code: "(" + a.code + " " + op + " " + b.code + ")", ty: ltBool}, nil
	}
	*binds = append(*binds, rb...)
	switch {
	case a.ty == ltUntyped && b.ty != ltUntyped:
		if a, err = g.conv(a, b.ty); err != nil {
			return pgVal{}, err
		}
	case b.ty == ltUntyped && a.ty != ltUntyped:
		if b, err = g.conv(b, a.ty); err != nil {
			return pgVal{}, err
		}
	}
	if a.ty != b.ty {
		return pgVal{}, fmt.Errorf("mismatched operand types %s %s %s", a.ty, x.Op, b.ty)
	}
	ty := a.ty
	scope := ""
	if ty == ltUint {
		scope = "%N"
	}
	switch x.Op {
	case token.EQL, token.NEQ:
		var eq string
		switch {
		case ty == ltBool:
			eq = "(Bool.eqb " + a.code + " " + b.code + ")"
		case pgIsInt(ty) || ty == ltUntyped:
			eq = "(" + a.code + " =? " + b.code + ")" + scope
		default:
			return pgVal{}, fmt.Errorf("%s on %s", x.Op, ty)
		}
		if x.Op == token.NEQ {
			eq = "(negb " + eq + ")"
		}
		return pgVal{code: eq, ty: ltBool}, nil
	case token.LSS, token.LEQ, token.GTR, token.GEQ:
		if !(pgIsInt(ty) || ty == ltUntyped) {
			return pgVal{}, fmt.Errorf("%s on %s", x.Op, ty)
		}
		var s string
		switch x.Op {
		case token.LSS:
			s = "(" + a.code + " <? " + b.code + ")"
		case token.LEQ:
			s = "(" + a.code + " <=? " + b.code + ")"
		case token.GTR:
			s = "(" + b.code + " <? " + a.code + ")"
		case token.GEQ:
			s = "(" + b.code + " <=? " + a.code + ")"
		}
		return pgVal{code: s + scope, ty: ltBool}, nil
	}
	return g.arith(x.Op, a, b, binds)
}

// arith: integer arithmetic.  Only uint (modulo 2^64, values are N) is translated; int / int64 arithmetic is refused.
func (g *pg) arith(op token.Token, a, b pgVal, binds *[]string) (pgVal, error) {
	if g.top {
		if v, handled, err := g.topArith(op, a, b, binds); handled {
			return v, err
		}
	}
	if a.ty == ltUntyped && a.c != nil && b.c != nil {
		z := new(big.Int)
		switch op {
		case token.ADD:
			z.Add(a.c, b.c)
		case token.SUB:
			z.Sub(a.c, b.c)
		case token.MUL:
			z.Mul(a.c, b.c)
		default:
			return pgVal{}, fmt.Errorf("unsupported constant operator %s", op)
		}
		return pgVal{code: lgLit(z), ty: ltUntyped, c: z}, nil
	}
	if a.ty != ltUint {
		return pgVal{}, fmt.Errorf("operator %s on %s is not supported", op, a.ty)
	}
	switch op {
	case token.ADD, token.MUL:
		return pgVal{code: "(w64 (" + a.code + " " + op.String() + " " + b.code + ")%N)", ty: ltUint}, nil
	case token.SUB: // a - b modulo 2^64
		return pgVal{code: "(usubN " + a.code + " " + b.code + ")", ty: ltUint}, nil
	case token.QUO: // integer division by zero panics
		t := g.fresh("t")
		*binds = append(*binds, fmt.Sprintf("do %s <- udivN %s %s;", t, a.code, b.code))
		return pgVal{code: t, ty: ltUint}, nil
	}
	return pgVal{}, fmt.Errorf("operator %s on uint is not supported", op)
}

// composite literal of type ty; elided element types of slice literals are filled in
func (g *pg) composite(env *pgEnv, x *ast.CompositeLit, ty string, binds *[]string) (pgVal, error) {
	if g.top {
		if v, handled, err := g.topComposite(env, x, ty, binds); handled {
			return v, err
		}
	}
	if el, ok := pgSlice(ty); ok {
		var items []string
		for _, e := range x.Elts {
			if _, keyed := e.(*ast.KeyValueExpr); keyed {
				return pgVal{}, fmt.Errorf("keyed slice literal")
			}
			var v pgVal
			var err error
			if cl, isLit := e.(*ast.CompositeLit); isLit && cl.Type == nil {
				v, err = g.composite(env, cl, el, binds)
			} else {
				v, err = g.expr(env, e, binds)
			}
			if err != nil {
				return pgVal{}, err
			}
			if v, err = g.conv(v, el); err != nil {
				return pgVal{}, err
			}
			items = append(items, v.code)
		}
		if len(items) == 0 {
			z, err := g.zero(ty)
			return pgVal{code: z, ty: ty}, err
		}
		return pgVal{code: "[" + strings.Join(items, "; ") + "]", ty: ty}, nil
	}
	if n, el, ok := lgArr(ty); ok {
		if len(x.Elts) != 0 {
			if len(x.Elts) != n {
				return pgVal{}, fmt.Errorf("array literal with %d of %d elements", len(x.Elts), n)
			}
			return pgVal{}, fmt.Errorf("non-empty array literal of %s is not supported", el)
		}
		z, err := g.zero(ty)
		return pgVal{code: z, ty: ty}, err
	}
	if !strings.HasPrefix(ty, "struct:") {
		return pgVal{}, fmt.Errorf("unsupported composite literal of %s", ty)
	}
	sn := ty[7:]
	fields := g.structs[sn]
	vals := make([]string, len(fields))
	set := make([]bool, len(fields))
	for i, e := range x.Elts {
		idx := i
		ve := e
		if kv, ok := e.(*ast.KeyValueExpr); ok {
			id, ok := kv.Key.(*ast.Ident)
			if !ok {
				return pgVal{}, fmt.Errorf("unsupported literal key")
			}
			idx = -1
			for j, f := range fields {
				if f.name == id.Name {
					idx = j
				}
			}
			ve = kv.Value
		} else if len(x.Elts) != len(fields) {
			return pgVal{}, fmt.Errorf("positional literal of %s with %d of %d fields", sn, len(x.Elts), len(fields))
		}
		if idx < 0 || idx >= len(fields) || set[idx] {
			return pgVal{}, fmt.Errorf("bad field in literal of %s", sn)
		}
		v, err := g.expr(env, ve, binds)
		if err != nil {
			return pgVal{}, err
		}
		if v, err = g.conv(v, fields[idx].ty); err != nil {
			return pgVal{}, fmt.Errorf("field %s.%s: %v", sn, fields[idx].name, err)
		}
		vals[idx], set[idx] = v.code, true
	}
	for i, f := range fields {
		if !set[i] {
			z, err := g.zero(f.ty)
			if err != nil {
				return pgVal{}, fmt.Errorf("field %s.%s: %v", sn, f.name, err)
			}
			vals[i] = z
		}
	}
	return pgVal{code: "(mk_gen_" + sn + " " + strings.Join(vals, " ") + ")", ty: ty}, nil
}

func (g *pg) args(env *pgEnv, xs []ast.Expr, params []string, what string, binds *[]string) ([]string, error) {
	if len(xs) != len(params) {
		return nil, fmt.Errorf("%s: %d arguments for %d parameters", what, len(xs), len(params))
	}
	var out []string
	for i, a := range xs {
		v, err := g.expr(env, a, binds)
		if err != nil {
			return nil, err
		}
		if v, err = g.conv(v, params[i]); err != nil {
			return nil, fmt.Errorf("%s: argument %d: %v", what, i+1, err)
		}
		out = append(out, v.code)
	}
	return out, nil
}

func (g *pg) call(env *pgEnv, x *ast.CallExpr, binds *[]string) (pgVal, error) {
	if x.Ellipsis != token.NoPos {
		return pgVal{}, fmt.Errorf("unsupported call with ...")
	}
	if g.top {
		if v, handled, err := g.topCall(env, x, binds); handled {
			return v, err
		}
	}
	switch f := x.Fun.(type) {
	case *ast.Ident:
		if _, shadow := env.vars[f.Name]; shadow {
			return pgVal{}, fmt.Errorf("call of a variable %s", f.Name)
		}
		switch f.Name {
		case "len":
			if len(x.Args) != 1 {
				return pgVal{}, fmt.Errorf("bad len")
			}
			v, err := g.expr(env, x.Args[0], binds)
			if err != nil {
				return pgVal{}, err
			}
			if _, ok := pgSlice(v.ty); ok {
				return pgVal{code: "(zlen " + v.code + ")", ty: ltInt}, nil
			}
			if _, _, ok := pgMap(v.ty); ok {
				return pgVal{code: "(gm_len " + v.code + ")", ty: ltInt}, nil
			}
			return pgVal{}, fmt.Errorf("len of %s", v.ty)
		case "append":
			if len(x.Args) != 2 {
				return pgVal{}, fmt.Errorf("append with %d arguments is not supported", len(x.Args))
			}
			if !g.okAppend[x] {
				// slices are translated as values; that is exact when no two live slices share elements beyond the length of
				// one of them, which `x = append(x, e)` (the only form accepted) preserves
				return pgVal{}, fmt.Errorf("append is only supported as x = append(x, e) / m[k] = append(m[k], e)")
			}
			s, err := g.expr(env, x.Args[0], binds)
			if err != nil {
				return pgVal{}, err
			}
			el, ok := pgSlice(s.ty)
			if !ok {
				return pgVal{}, fmt.Errorf("append to %s", s.ty)
			}
			e, err := g.expr(env, x.Args[1], binds)
			if err != nil {
				return pgVal{}, err
			}
			if e, err = g.conv(e, el); err != nil {
				return pgVal{}, err
			}
			return pgVal{code: "(" + s.code + " ++ [" + e.code + "])", ty: s.ty}, nil
		case "make":
			if len(x.Args) < 1 || len(x.Args) > 3 {
				return pgVal{}, fmt.Errorf("unsupported make")
			}
			ty, err := g.goType(x.Args[0])
			if err != nil {
				return pgVal{}, err
			}
			var sizes []pgVal
			for _, a := range x.Args[1:] { // sizes must be translatable integer expressions; they do not influence the contents
				sv, err := g.expr(env, a, binds)
				if err != nil {
					return pgVal{}, err
				}
				if !(pgIsInt(sv.ty) || sv.ty == ltUntyped) {
					return pgVal{}, fmt.Errorf("make with a size of type %s", sv.ty)
				}
				sizes = append(sizes, sv)
			}
			if _, ok := pgSlice(ty); ok {
				if len(sizes) < 1 {
					return pgVal{}, fmt.Errorf("make of a slice without length")
				}
				n := sizes[0]
				if n.c == nil || n.c.Sign() != 0 {
					return pgVal{}, fmt.Errorf("make of a slice with a length other than the constant 0")
				}
				z, err := g.zero(ty)
				return pgVal{code: z, ty: ty}, err
			}
			if _, _, ok := pgMap(ty); ok {
				if len(x.Args) > 2 {
					return pgVal{}, fmt.Errorf("unsupported make of a map")
				}
				z, err := g.zero(ty)
				return pgVal{code: z, ty: ty}, err
			}
			return pgVal{}, fmt.Errorf("make of %s", ty)
		case "uint":
			if len(x.Args) != 1 {
				return pgVal{}, fmt.Errorf("bad conversion")
			}
			v, err := g.expr(env, x.Args[0], binds)
			if err != nil {
				return pgVal{}, err
			}
			if v.c != nil && v.ty == ltUntyped {
				return g.conv(v, ltUint)
			}
			switch v.ty {
			case ltUint:
				return v, nil
			case ltInt, ltInt64: // two's complement: uint(x) = x mod 2^64
				return pgVal{code: "(Z.to_N (u64 (" + v.code + ")%Z))", ty: ltUint}, nil
			}
			return pgVal{}, fmt.Errorf("unsupported conversion uint(%s)", v.ty)
		}
		if ext, ok := g.externals[f.Name]; ok {
			as, err := g.args(env, x.Args, ext.params, f.Name, binds)
			if err != nil {
				return pgVal{}, err
			}
			code := "(" + ext.coq + " " + strings.Join(as, " ") + ")"
			if ext.monad == "option" {
				t := g.fresh("t")
				*binds = append(*binds, fmt.Sprintf("do %s <- match %s with Some r => Ok r | None => Err %s end;", t, code, ext.err))
				return pgVal{code: t, ty: ext.result}, nil
			}
			return pgVal{code: code, ty: ext.result}, nil
		}
		if sig, ok := g.sigs[f.Name]; ok && sig.result != "" {
			var ps []string
			for _, p := range sig.params {
				ps = append(ps, p.ty)
			}
			as, err := g.args(env, x.Args, ps, f.Name, binds)
			if err != nil {
				return pgVal{}, err
			}
			t := g.fresh("t")
			*binds = append(*binds, fmt.Sprintf("do %s <- %s %s;", t, sig.coqName, strings.Join(as, " ")))
			return pgVal{code: t, ty: sig.result}, nil
		}
		return pgVal{}, fmt.Errorf("unsupported call %s", f.Name)
	case *ast.SelectorExpr:
		if pkg, ok := f.X.(*ast.Ident); ok {
			if _, shadow := env.vars[pkg.Name]; !shadow {
				key := pkg.Name + "." + f.Sel.Name
				switch {
				case pkg.Name == g.slicesName && g.slicesName != "" && f.Sel.Name == "Contains":
					// slices.Contains(s, x) on []int: some element equals x
					if len(x.Args) != 2 {
						return pgVal{}, fmt.Errorf("bad slices.Contains")
					}
					s, err := g.expr(env, x.Args[0], binds)
					if err != nil {
						return pgVal{}, err
					}
					if s.ty != "slice:"+ltInt {
						return pgVal{}, fmt.Errorf("slices.Contains on %s is not supported", s.ty)
					}
					e, err := g.expr(env, x.Args[1], binds)
					if err != nil {
						return pgVal{}, err
					}
					if e, err = g.conv(e, ltInt); err != nil {
						return pgVal{}, err
					}
					return pgVal{code: "(existsb (Z.eqb " + e.code + ") " + s.code + ")", ty: ltBool}, nil
				}
				if ext, ok := g.externals[key]; ok {
					as, err := g.args(env, x.Args, ext.params, key, binds)
					if err != nil {
						return pgVal{}, err
					}
					code := "(" + ext.coq + " " + strings.Join(as, " ") + ")"
					if ext.monad == "option" {
						t := g.fresh("t")
						*binds = append(*binds, fmt.Sprintf("do %s <- match %s with Some r => Ok r | None => Err %s end;", t, code, ext.err))
						return pgVal{code: t, ty: ext.result}, nil
					}
					return pgVal{code: code, ty: ext.result}, nil
				}
				if pkg.Name == g.slicesName || pkg.Name == g.mortonName || pkg.Name == g.geomName || pkg.Name == g.mathName {
					return pgVal{}, fmt.Errorf("unsupported call %s", key)
				}
			}
		}
		return g.methodCall(env, f, x, binds)
	}
	return pgVal{}, fmt.Errorf("unsupported call %s", types.ExprString(x.Fun))
}

// methodCall: recv.m(args) for the externals registered as "T.m"
func (g *pg) methodCall(env *pgEnv, f *ast.SelectorExpr, x *ast.CallExpr, binds *[]string) (pgVal, error) {
	recv, err := g.expr(env, f.X, binds)
	if err != nil {
		return pgVal{}, err
	}
	tn := recv.ty
	if i := strings.Index(tn, ":"); i >= 0 {
		tn = tn[i+1:]
	}
	key := tn + "." + f.Sel.Name
	ext, ok := g.externals[key]
	if !ok {
		return pgVal{}, fmt.Errorf("unsupported method call .%s on %s", f.Sel.Name, recv.ty)
	}
	as, err := g.args(env, x.Args, ext.params[1:], key, binds)
	if err != nil {
		return pgVal{}, err
	}
	return pgVal{code: "(" + ext.coq + " " + recv.code + " " + strings.Join(as, " ") + ")", ty: ext.result}, nil
}

// ---- statements --------------------------------------------------------------

func pgJoin(binds []string, tail string) string {
	if len(binds) == 0 {
		return tail
	}
	return strings.Join(binds, "\n  ") + "\n  " + tail
}

// assigned collects the names assigned (not declared) anywhere in a statement list; m[k] = v assigns m.
func (g *pg) assigned(stmts []ast.Stmt, acc map[string]bool) {
	for _, s := range stmts {
		ast.Inspect(s, func(n ast.Node) bool {
			switch n := n.(type) {
			case *ast.AssignStmt:
				for _, l := range n.Lhs {
					if _, isIx := l.(*ast.IndexExpr); isIx {
						acc[g.baseVar(l)] = true
						continue
					}
					if n.Tok == token.DEFINE {
						continue
					}
					if _, ok := l.(*ast.Ident); ok {
						acc[g.baseVar(l)] = true
					} else {
						acc["?"] = true
					}
				}
			case *ast.IncDecStmt:
				if id, ok := n.X.(*ast.Ident); ok {
					acc[id.Name] = true
				} else {
					acc["?"] = true
				}
			case *ast.RangeStmt:
				if n.Tok == token.ASSIGN {
					acc["?"] = true
				}
			case *ast.FuncLit, *ast.GoStmt, *ast.DeferStmt:
				acc["?"] = true
			case *ast.CallExpr:
				if g.top {
					g.topAssignedCall(n, acc)
				}
			}
			return true
		})
	}
}

// pgTerminates: every path through the list ends in a return, continue or break.
func pgTerminates(stmts []ast.Stmt) bool {
	if len(stmts) == 0 {
		return false
	}
	switch s := stmts[len(stmts)-1].(type) {
	case *ast.ReturnStmt, *ast.BranchStmt:
		return true
	case *ast.BlockStmt:
		return pgTerminates(s.List)
	case *ast.IfStmt:
		if s.Else == nil {
			return false
		}
		eb, err := lgElse(s)
		return err == nil && pgTerminates(s.Body.List) && pgTerminates(eb)
	}
	return false
}

func (g *pg) bind(env *pgEnv, names map[string]bool, k lcont) (string, lcont, error) {
	if k.cheap {
		return "", k, nil
	}
	var params, actuals string
	n := 0
	for _, v := range env.order {
		if names[v] {
			ct, err := g.coqType(env.vars[v])
			if err != nil {
				return "", lcont{}, err
			}
			params += fmt.Sprintf(" (v_%s : %s)", v, ct)
			actuals += " v_" + v
			n++
		}
	}
	if n == 0 {
		params, actuals = " (_ : unit)", " tt"
	}
	body, err := k.gen()
	if err != nil {
		return "", lcont{}, err
	}
	name := g.fresh("k")
	call := "(" + name + actuals + ")"
	return fmt.Sprintf("let %s := fun%s =>\n    (%s) in\n  ", name, params, body),
		lcont{gen: func() (string, error) { return call, nil }, cheap: true}, nil
}

func (g *pg) stmts(env *pgEnv, list []ast.Stmt, k lcont, ctx *pgCtx) (string, error) {
	if len(list) == 0 {
		return k.gen()
	}
	s, rest := list[0], list[1:]
	after := func(e *pgEnv) lcont {
		if len(rest) == 0 {
			return k
		}
		return lcont{gen: func() (string, error) { return g.stmts(e, rest, k, ctx) }}
	}
	switch s := s.(type) {
	case *ast.ReturnStmt:
		return g.ret(env, s, ctx)
	case *ast.DeclStmt:
		gd, ok := s.Decl.(*ast.GenDecl)
		if !ok || gd.Tok != token.VAR {
			return "", fmt.Errorf("unsupported declaration")
		}
		env2 := env.clone()
		var lines []string
		for _, sp := range gd.Specs {
			vs := sp.(*ast.ValueSpec)
			if vs.Type == nil || len(vs.Values) != 0 {
				return "", fmt.Errorf("only `var x T` is supported")
			}
			t, err := g.goType(vs.Type)
			if err != nil {
				return "", err
			}
			if _, _, isMap := pgMap(t); isMap {
				return "", fmt.Errorf("var of a map type (a nil map) is not supported")
			}
			z, err := g.zero(t)
			if err != nil {
				return "", err
			}
			for _, n := range vs.Names {
				if _, exists := env2.vars[n.Name]; exists || n.Name == "_" {
					return "", fmt.Errorf("var %s redeclares a variable", n.Name)
				}
				env2.declare(n.Name, t)
				lines = append(lines, fmt.Sprintf("let v_%s := %s in", n.Name, z))
			}
		}
		body, err := g.stmts(env2, rest, k, ctx)
		if err != nil {
			return "", err
		}
		return pgJoin(lines, body), nil
	case *ast.BranchStmt:
		if s.Label != nil {
			return "", fmt.Errorf("unsupported labelled %s", s.Tok)
		}
		switch s.Tok {
		case token.CONTINUE:
			if ctx.cont == nil {
				return "", fmt.Errorf("continue outside a loop")
			}
			return ctx.cont()
		case token.BREAK:
			if ctx.brk == nil || ctx.inSwitch {
				return "", fmt.Errorf("break outside a loop, or inside a switch, is not supported")
			}
			return ctx.brk()
		}
		return "", fmt.Errorf("unsupported %s", s.Tok)
	case *ast.BlockStmt:
		inner := after(env)
		return g.stmts(env.clone(), s.List, inner, ctx)
	case *ast.AssignStmt:
		return g.assign(env, s, rest, k, ctx)
	case *ast.IncDecStmt:
		return g.incdec(env, s, rest, k, ctx)
	case *ast.IfStmt:
		if e := pgMakeGuard(env, s); e != "" { // after it, the inner map e exists
			e2 := env.clone()
			e2.nonNil[e] = true
			return g.ifStmt(env, s, after(e2), ctx)
		}
		return g.ifStmt(env, s, after(env), ctx)
	case *ast.SwitchStmt:
		if s.Init != nil || s.Tag != nil {
			return "", fmt.Errorf("only the tagless switch is supported")
		}
		var conds []ast.Expr
		var bodies [][]ast.Stmt
		var def []ast.Stmt
		seen := false
		for _, c := range s.Body.List {
			cc := c.(*ast.CaseClause)
			if cc.List == nil {
				if seen {
					return "", fmt.Errorf("two default clauses")
				}
				seen, def = true, cc.Body
				continue
			}
			if len(cc.List) != 1 {
				return "", fmt.Errorf("unsupported case list")
			}
			conds = append(conds, cc.List[0])
			bodies = append(bodies, cc.Body)
		}
		for _, b := range append(append([][]ast.Stmt{}, bodies...), def) {
			bad := false
			for _, st := range b {
				ast.Inspect(st, func(n ast.Node) bool {
					if br, ok := n.(*ast.BranchStmt); ok && br.Tok == token.FALLTHROUGH {
						bad = true
					}
					return true
				})
			}
			if bad {
				return "", fmt.Errorf("fallthrough is not supported")
			}
		}
		c2 := *ctx
		c2.inSwitch = true
		// cases are tried top to bottom, the default clause (wherever it is written) last
		return g.branch(env, conds, bodies, def, after(env), &c2)
	case *ast.RangeStmt:
		e2 := env.clone()
		e2.nonNil = map[string]bool{} // a loop may assign the variables the facts mention
		if g.top {
			e2.nonNil = g.topKeepFacts(env, s.Body.List)
		}
		return g.rangeLoop(e2, s, after(e2), ctx)
	case *ast.ForStmt:
		e2 := env.clone()
		e2.nonNil = map[string]bool{}
		return g.forLoop(e2, s, after(e2), ctx)
	}
	if es, ok := s.(*ast.ExprStmt); ok && g.top {
		return g.topExprStmt(env, es, rest, k, ctx)
	}
	return "", fmt.Errorf("unsupported statement %T at %s", s, g.fset.Position(s.Pos()))
}

func (g *pg) ret(env *pgEnv, s *ast.ReturnStmt, ctx *pgCtx) (string, error) {
	if g.top {
		return g.topRet(env, s, ctx)
	}
	if g.cur.result == "" {
		if len(s.Results) != 0 {
			return "", fmt.Errorf("return of a value from a function without result")
		}
		return ctx.ret(g.refTuple()), nil
	}
	if len(s.Results) != 1 {
		return "", fmt.Errorf("unsupported return of %d values", len(s.Results))
	}
	var binds []string
	v, err := g.expr(env, s.Results[0], &binds)
	if err != nil {
		return "", err
	}
	if v.ty == "nil" {
		if _, _, isMap := pgMap(g.cur.result); isMap { // a nil map is returned: no entry, for every reader
			z, err := g.zero(g.cur.result)
			if err != nil {
				return "", err
			}
			v = pgVal{code: z, ty: g.cur.result}
		}
	}
	if v, err = g.conv(v, g.cur.result); err != nil {
		return "", fmt.Errorf("return: %v", err)
	}
	return pgJoin(binds, ctx.ret(v.code)), nil
}

// the final contents of the maps the function writes through
func (g *pg) refTuple() string {
	var vs []string
	for _, r := range g.cur.refs {
		vs = append(vs, "v_"+r)
	}
	if len(vs) == 1 {
		return vs[0]
	}
	return "(" + strings.Join(vs, ", ") + ")"
}

func (g *pg) incdec(env *pgEnv, s *ast.IncDecStmt, rest []ast.Stmt, k lcont, ctx *pgCtx) (string, error) {
	if g.top {
		if out, handled, err := g.topIncDec(env, s, rest, k, ctx); handled {
			return out, err
		}
	}
	id, ok := s.X.(*ast.Ident)
	if !ok || env.vars[id.Name] != ltUint || s.Tok != token.INC {
		return "", fmt.Errorf("unsupported %s", s.Tok)
	}
	env2 := env.clone()
	env2.forget(id.Name)
	body, err := g.stmts(env2, rest, k, ctx)
	if err != nil {
		return "", err
	}
	return fmt.Sprintf("let v_%s := (w64 (v_%s + 1)%%N) in\n  %s", id.Name, id.Name, body), nil
}

func (g *pg) ifStmt(env *pgEnv, s *ast.IfStmt, after lcont, ctx *pgCtx) (string, error) {
	eb, err := lgElse(s)
	if err != nil {
		return "", err
	}
	if s.Init != nil {
		// if v, ok := m[k]; cond { } : the variables of the init statement are local to the if statement
		as, ok := s.Init.(*ast.AssignStmt)
		if !ok || as.Tok != token.DEFINE {
			return "", fmt.Errorf("unsupported if with init")
		}
		bare := *s
		bare.Init = nil
		return g.stmts(env.clone(), []ast.Stmt{as, &bare}, after, ctx)
	}
	return g.branch(env, []ast.Expr{s.Cond}, [][]ast.Stmt{s.Body.List}, eb, after, ctx)
}

// branch: if c1 {b1} else if c2 {b2} ... else {def}, followed by `after`.
func (g *pg) branch(env *pgEnv, conds []ast.Expr, bodies [][]ast.Stmt, def []ast.Stmt, after lcont, ctx *pgCtx) (string, error) {
	falls := 0
	all := append(append([][]ast.Stmt{}, bodies...), def)
	asg := map[string]bool{}
	for _, b := range all {
		if !pgTerminates(b) {
			falls++
		}
		g.assigned(b, asg)
	}
	if asg["?"] {
		return "", fmt.Errorf("unsupported assignment target inside a branch")
	}
	prefix := ""
	k := after
	if falls >= 2 {
		p, kb, err := g.bind(env, asg, after)
		if err != nil {
			return "", err
		}
		prefix, k = p, kb
	}
	var sb strings.Builder
	sb.WriteString(prefix)
	for i, c := range conds {
		var binds []string
		cv, err := g.expr(env, c, &binds)
		if err != nil {
			return "", err
		}
		if cv.ty != ltBool {
			return "", fmt.Errorf("condition of type %s", cv.ty)
		}
		if len(binds) != 0 && i > 0 {
			return "", fmt.Errorf("a condition that can panic is only supported as the first condition")
		}
		be, err := g.stmts(env.clone(), bodies[i], k, ctx)
		if err != nil {
			return "", err
		}
		sb.WriteString(pgJoin(binds, fmt.Sprintf("if %s then (%s)\n  else ", cv.code, be)))
	}
	de, err := g.stmts(env.clone(), def, k, ctx)
	if err != nil {
		return "", err
	}
	fmt.Fprintf(&sb, "(%s)", de)
	return sb.String(), nil
}

// markAppend accepts  lhs = append(lhs, e)
func (g *pg) markAppend(env *pgEnv, s *ast.AssignStmt) {
	if s.Tok != token.ASSIGN || len(s.Lhs) != 1 || len(s.Rhs) != 1 {
		return
	}
	c, ok := s.Rhs[0].(*ast.CallExpr)
	if !ok || len(c.Args) != 2 {
		return
	}
	if id, ok := c.Fun.(*ast.Ident); !ok || id.Name != "append" {
		return
	}
	if _, shadow := env.vars["append"]; shadow {
		return
	}
	if types.ExprString(c.Args[0]) == types.ExprString(s.Lhs[0]) {
		g.okAppend[c] = true
	}
}

func (g *pg) assign(env *pgEnv, s *ast.AssignStmt, rest []ast.Stmt, k lcont, ctx *pgCtx) (string, error) {
	if g.top {
		if out, handled, err := g.topAssign(env, s, rest, k, ctx); handled {
			return out, err
		}
	}
	if s.Tok != token.DEFINE && s.Tok != token.ASSIGN {
		return "", fmt.Errorf("unsupported assignment operator %s", s.Tok)
	}
	g.markAppend(env, s)
	// v, ok := m[k]
	if len(s.Lhs) == 2 && len(s.Rhs) == 1 {
		if ix, ok := s.Rhs[0].(*ast.IndexExpr); ok {
			return g.commaOk(env, s, ix, rest, k, ctx)
		}
		return g.assignPair(env, s, rest, k, ctx)
	}
	if len(s.Lhs) != 1 || len(s.Rhs) != 1 {
		return "", fmt.Errorf("unsupported multi-assignment")
	}
	// m[k] = v
	if ix, ok := s.Lhs[0].(*ast.IndexExpr); ok {
		return g.assignIndex(env, s, ix, rest, k, ctx)
	}
	id, ok := s.Lhs[0].(*ast.Ident)
	if !ok {
		return "", fmt.Errorf("unsupported assignment target %s", types.ExprString(s.Lhs[0]))
	}
	var binds []string
	v, err := g.expr(env, s.Rhs[0], &binds)
	if err != nil {
		return "", err
	}
	env2 := env.clone()
	pat := "_"
	if id.Name != "_" {
		old, exists := env.vars[id.Name]
		if env.refs[id.Name] {
			return "", fmt.Errorf("assignment to %s, which stands for a map of the receiver", id.Name)
		}
		if s.Tok == token.DEFINE {
			if exists {
				return "", fmt.Errorf(":= of the existing variable %s is not supported", id.Name)
			}
			if _, isConst := g.consts[id.Name]; isConst {
				return "", fmt.Errorf(":= shadows the constant %s", id.Name)
			}
			if v.ty == ltUntyped {
				if v, err = g.conv(v, ltInt); err != nil {
					return "", err
				}
			}
			if v.ty == "nil" {
				return "", fmt.Errorf("use of untyped nil")
			}
			env2.declare(id.Name, v.ty)
		} else {
			if !exists {
				return "", fmt.Errorf("assignment to unknown variable %s", id.Name)
			}
			if v, err = g.conv(v, old); err != nil {
				return "", fmt.Errorf("assignment to %s: %v", id.Name, err)
			}
		}
		pat = "v_" + id.Name
		env2.forget(id.Name)
	}
	body, err := g.stmts(env2, rest, k, ctx)
	if err != nil {
		return "", err
	}
	return pgJoin(binds, fmt.Sprintf("let %s := %s in\n  %s", pat, v.code, body)), nil
}

// a, b := f(..) for an external with a pair result
func (g *pg) assignPair(env *pgEnv, s *ast.AssignStmt, rest []ast.Stmt, k lcont, ctx *pgCtx) (string, error) {
	if s.Tok != token.DEFINE {
		return "", fmt.Errorf("unsupported tuple assignment")
	}
	var binds []string
	v, err := g.expr(env, s.Rhs[0], &binds)
	if err != nil {
		return "", err
	}
	if !strings.HasPrefix(v.ty, "tuple:") {
		return "", fmt.Errorf("assignment mismatch")
	}
	tys := strings.Split(v.ty[6:], ",")
	if len(tys) != 2 {
		return "", fmt.Errorf("assignment mismatch")
	}
	env2 := env.clone()
	var pats []string
	for i, l := range s.Lhs {
		id, ok := l.(*ast.Ident)
		if !ok {
			return "", fmt.Errorf("unsupported assignment target")
		}
		if id.Name == "_" {
			pats = append(pats, "_")
			continue
		}
		if _, exists := env.vars[id.Name]; exists {
			return "", fmt.Errorf(":= of the existing variable %s is not supported", id.Name)
		}
		env2.declare(id.Name, tys[i])
		pats = append(pats, "v_"+id.Name)
	}
	body, err := g.stmts(env2, rest, k, ctx)
	if err != nil {
		return "", err
	}
	return pgJoin(binds, fmt.Sprintf("let '(%s) := %s in\n  %s", strings.Join(pats, ", "), v.code, body)), nil
}

// v, ok := m[k]
func (g *pg) commaOk(env *pgEnv, s *ast.AssignStmt, ix *ast.IndexExpr, rest []ast.Stmt, k lcont, ctx *pgCtx) (string, error) {
	if s.Tok != token.DEFINE {
		return "", fmt.Errorf("v, ok = m[k] (without :=) is not supported")
	}
	var binds []string
	m, err := g.expr(env, ix.X, &binds)
	if err != nil {
		return "", err
	}
	kt, el, isMap := pgMap(m.ty)
	if !isMap {
		return "", fmt.Errorf("v, ok := x[k] on %s", m.ty)
	}
	key, err := g.expr(env, ix.Index, &binds)
	if err != nil {
		return "", err
	}
	if key, err = g.conv(key, kt); err != nil {
		return "", fmt.Errorf("map key: %v", err)
	}
	eqb, err := pgKeyEqb(kt)
	if err != nil {
		return "", err
	}
	env2 := env.clone()
	var pats []string
	for i, l := range s.Lhs {
		id, ok := l.(*ast.Ident)
		if !ok {
			return "", fmt.Errorf("unsupported assignment target")
		}
		if id.Name == "_" {
			pats = append(pats, "_")
			continue
		}
		if _, exists := env.vars[id.Name]; exists {
			return "", fmt.Errorf(":= of the existing variable %s is not supported", id.Name)
		}
		if _, isConst := g.consts[id.Name]; isConst {
			return "", fmt.Errorf(":= shadows the constant %s", id.Name)
		}
		env2.declare(id.Name, []string{el, ltBool}[i])
		pats = append(pats, "v_"+id.Name)
	}
	if pats[0] != "_" && pats[0] == pats[1] {
		return "", fmt.Errorf("the same variable twice in v, ok := m[k]")
	}
	var z string
	if el == "any" {
		if pats[0] != "_" {
			return "", fmt.Errorf("the value of a map of `any` is not supported")
		}
		z = "tt"
	} else if z, err = g.zero(el); err != nil {
		return "", err
	}
	body, err := g.stmts(env2, rest, k, ctx)
	if err != nil {
		return "", err
	}
	return pgJoin(binds, fmt.Sprintf("let '(%s, %s) := (gm_get_ok %s %s %s %s) in\n  %s", pats[0], pats[1], eqb, z, m.code, key.code, body)), nil
}

// m[k] = v for a map variable m
func (g *pg) assignIndex(env *pgEnv, s *ast.AssignStmt, ix *ast.IndexExpr, rest []ast.Stmt, k lcont, ctx *pgCtx) (string, error) {
	if s.Tok != token.ASSIGN {
		return "", fmt.Errorf("unsupported indexed assignment %s", s.Tok)
	}
	if _, nested := ix.X.(*ast.IndexExpr); nested {
		return g.assignNested(env, s, ix, rest, k, ctx)
	}
	name := g.baseVar(ix.X)
	if sel, isSel := ix.X.(*ast.SelectorExpr); isSel && g.stateOf(env, sel) == "" {
		name = "?"
	}
	mt, ok := env.vars[name]
	if !ok {
		return "", fmt.Errorf("assignment to an entry of %s, which is not a variable", types.ExprString(ix.X))
	}
	if g.mapParams[name] && !env.refs[name] {
		return "", fmt.Errorf("assignment to an entry of the map parameter %s (an effect on the caller's map) is not supported", name)
	}
	id := &ast.Ident{Name: name}
	kt, el, isMap := pgMap(mt)
	if !isMap {
		return "", fmt.Errorf("indexed assignment to %s", mt)
	}
	// Go evaluates the operands of the index expression on the left and the right-hand side in the usual order; all
	// of them are pure or panic independently of each other, the assignment itself happens last
	var binds []string
	key, err := g.expr(env, ix.Index, &binds)
	if err != nil {
		return "", err
	}
	if key, err = g.conv(key, kt); err != nil {
		return "", fmt.Errorf("map key: %v", err)
	}
	v, err := g.expr(env, s.Rhs[0], &binds)
	if err != nil {
		return "", err
	}
	if v, err = g.conv(v, el); err != nil {
		return "", fmt.Errorf("map element: %v", err)
	}
	eqb, err := pgKeyEqb(kt)
	if err != nil {
		return "", err
	}
	body, err := g.stmts(env, rest, k, ctx)
	if err != nil {
		return "", err
	}
	return pgJoin(binds, fmt.Sprintf("let v_%s := (gm_set %s v_%s %s %s) in\n  %s", id.Name, eqb, id.Name, key.code, v.code, body)), nil
}

// m[a][b] = v for a map m of maps: allowed only after `if m[a] == nil { m[a] = make(..) }` in the same statement list
// (and no assignment to the variables of a since), so that the inner map exists and the assignment cannot panic
func (g *pg) assignNested(env *pgEnv, s *ast.AssignStmt, ix *ast.IndexExpr, rest []ast.Stmt, k lcont, ctx *pgCtx) (string, error) {
	inner := ix.X.(*ast.IndexExpr)
	if _, deeper := inner.X.(*ast.IndexExpr); deeper {
		return "", fmt.Errorf("unsupported assignment target %s", types.ExprString(ix))
	}
	name := g.baseVar(inner.X)
	if sel, isSel := inner.X.(*ast.SelectorExpr); isSel && g.stateOf(env, sel) == "" {
		name = "?"
	}
	mt, ok := env.vars[name]
	if !ok {
		return "", fmt.Errorf("assignment to an entry of %s, which is not a variable", types.ExprString(inner.X))
	}
	if g.mapParams[name] && !env.refs[name] {
		return "", fmt.Errorf("assignment to an entry of the map parameter %s (an effect on the caller's map) is not supported", name)
	}
	kt1, mid, isMap := pgMap(mt)
	if !isMap {
		return "", fmt.Errorf("indexed assignment to %s", mt)
	}
	kt2, el, isMap := pgMap(mid)
	if !isMap {
		return "", fmt.Errorf("nested indexed assignment to %s", mt)
	}
	if !env.nonNil[types.ExprString(inner)] {
		return "", fmt.Errorf("assignment to %s: the inner map is not known to exist (expected `if %s == nil { %s = make(..) }` before it)",
			types.ExprString(ix), types.ExprString(inner), types.ExprString(inner))
	}
	var binds []string
	k1, err := g.expr(env, inner.Index, &binds)
	if err != nil {
		return "", err
	}
	if k1, err = g.conv(k1, kt1); err != nil {
		return "", fmt.Errorf("map key: %v", err)
	}
	k2, err := g.expr(env, ix.Index, &binds)
	if err != nil {
		return "", err
	}
	if k2, err = g.conv(k2, kt2); err != nil {
		return "", fmt.Errorf("map key: %v", err)
	}
	v, err := g.expr(env, s.Rhs[0], &binds)
	if err != nil {
		return "", err
	}
	if v, err = g.conv(v, el); err != nil {
		return "", fmt.Errorf("map element: %v", err)
	}
	eqb1, err := pgKeyEqb(kt1)
	if err != nil {
		return "", err
	}
	eqb2, err := pgKeyEqb(kt2)
	if err != nil {
		return "", err
	}
	z, err := g.zero(mid)
	if err != nil {
		return "", err
	}
	body, err := g.stmts(env, rest, k, ctx)
	if err != nil {
		return "", err
	}
	return pgJoin(binds, fmt.Sprintf("let v_%s := (gm_set %s v_%s %s (gm_set %s (gm_get_or %s %s v_%s %s) %s %s)) in\n  %s",
		name, eqb1, name, k1.code, eqb2, eqb1, z, name, k1.code, k2.code, v.code, body)), nil
}

// isMakeGuard: if E == nil { E = make(map..) } for an entry E = m[k] of a map of maps; returns the printed E
func pgMakeGuard(env *pgEnv, s *ast.IfStmt) string {
	if s.Init != nil || s.Else != nil || len(s.Body.List) != 1 {
		return ""
	}
	c, ok := s.Cond.(*ast.BinaryExpr)
	if !ok || c.Op != token.EQL || !pgIsNil(env, c.Y) {
		return ""
	}
	if _, isIx := c.X.(*ast.IndexExpr); !isIx {
		return ""
	}
	as, ok := s.Body.List[0].(*ast.AssignStmt)
	if !ok || as.Tok != token.ASSIGN || len(as.Lhs) != 1 || len(as.Rhs) != 1 {
		return ""
	}
	e := types.ExprString(c.X)
	if types.ExprString(as.Lhs[0]) != e {
		return ""
	}
	mk, ok := as.Rhs[0].(*ast.CallExpr)
	if !ok || len(mk.Args) < 1 {
		return ""
	}
	if id, ok := mk.Fun.(*ast.Ident); !ok || id.Name != "make" {
		return ""
	}
	if _, shadow := env.vars["make"]; shadow {
		return ""
	}
	if _, isMap := mk.Args[0].(*ast.MapType); !isMap {
		return ""
	}
	return e
}

// forLoop: for init; cond; post { body } as a top-level Fixpoint on explicit fuel over exactly the variables the loop
// assigns (the other variables in scope are parameters): `Next state` when the condition fails or on break, `Ret v`
// when the body returns from the function; the post statement runs before every next iteration (also after continue).
func (g *pg) forLoop(env *pgEnv, s *ast.ForStmt, after lcont, ctx *pgCtx) (string, error) {
	if s.Init != nil { // for init; cond; post {}  =  init; for ; cond; post {}
		as, ok := s.Init.(*ast.AssignStmt)
		if !ok || len(as.Lhs) != 1 {
			return "", fmt.Errorf("unsupported loop initialisation")
		}
		if as.Tok == token.DEFINE { // the loop variable is local to the loop: fine, the code after the loop cannot name it
			if id, ok := as.Lhs[0].(*ast.Ident); !ok || id.Name == "_" {
				return "", fmt.Errorf("unsupported loop initialisation")
			}
		}
		bare := *s
		bare.Init = nil
		return g.stmts(env, []ast.Stmt{as, &bare}, after, ctx)
	}
	if s.Cond == nil {
		return "", fmt.Errorf("a loop without condition is not supported")
	}
	fuels := g.fuel[g.cur.name]
	if g.loopN >= len(fuels) {
		return "", fmt.Errorf("no fuel configured for loop %d of %s", g.loopN+1, g.cur.name)
	}
	fuel := fuels[g.loopN]
	g.loopN++
	loopIdx := g.loopN
	name := fmt.Sprintf("%s_loop%d", g.cur.coqName, loopIdx)
	asg := map[string]bool{}
	g.assigned(s.Body.List, asg)
	var postList []ast.Stmt
	if s.Post != nil {
		postList = []ast.Stmt{s.Post}
		g.assigned(postList, asg)
	}
	if asg["?"] {
		return "", fmt.Errorf("loop body with an unsupported assignment target")
	}
	var fp, fa, sp, sa, sty []string
	for _, v := range env.order {
		ct, err := g.coqType(env.vars[v])
		if err != nil {
			return "", err
		}
		if asg[v] {
			if env.refs[v] {
				return "", fmt.Errorf("a loop that writes through %s is not supported", v)
			}
			sp = append(sp, fmt.Sprintf("(v_%s : %s)", v, ct))
			sa = append(sa, "v_"+v)
			sty = append(sty, ct)
		} else {
			fp = append(fp, fmt.Sprintf("(v_%s : %s)", v, ct))
			fa = append(fa, "v_"+v)
		}
	}
	if len(sa) == 0 {
		return "", fmt.Errorf("loop that assigns nothing")
	}
	tuple := sa[0]
	if len(sa) > 1 {
		tuple = "(" + strings.Join(sa, ", ") + ")"
	}
	stateTy := "(" + strings.Join(sty, " * ") + ")%type"
	recur := "(" + name + " " + strings.Join(append(append(append([]string{}, fa...), "fuel'"), sa...), " ") + ")"
	// the post statement followed by the next iteration, in the environment at the end of the body
	next := func(e *pgEnv) (string, error) {
		return g.stmts(e, postList, lcont{gen: func() (string, error) { return recur, nil }, cheap: true}, &pgCtx{ret: ctx.ret})
	}
	inner := &pgCtx{
		ret:  func(v string) string { return "Ok (Ret " + v + ")" },
		brk:  func() (string, error) { return "Ok (Next " + tuple + ")", nil },
		cont: func() (string, error) { return next(env) },
	}
	kLoop := lcont{gen: func() (string, error) { return next(env) }, cheap: s.Post == nil}
	body, err := g.stmts(env.clone(), s.Body.List, kLoop, inner)
	if err != nil {
		return "", err
	}
	var binds []string
	c, err := g.expr(env, s.Cond, &binds)
	if err != nil {
		return "", err
	}
	if c.ty != ltBool {
		return "", fmt.Errorf("loop condition of type %s", c.ty)
	}
	step := pgJoin(binds, fmt.Sprintf("if %s then (%s)\n  else Ok (Next %s)", c.code, body, tuple))
	pos := g.fset.Position(s.Pos())
	g.pre = append(g.pre, fmt.Sprintf("(* %s:%d loop %d of %s; state = %s *)\nFixpoint %s %s (fuel : nat) %s {struct fuel} : res (ctl %s %s) :=\n  match fuel with\n  | O => Err OutOfFuel\n  | S fuel' =>\n  %s\n  end.\n\n",
		filepath.Base(pos.Filename), pos.Line, loopIdx, g.cur.name, tuple, name, strings.Join(fp, " "), strings.Join(sp, " "), stateTy, g.cur.retCoq, step))
	rest, err := after.gen()
	if err != nil {
		return "", err
	}
	out, r := g.fresh("out"), g.fresh("r")
	return fmt.Sprintf("do %s <- %s %s %s %s;\n  match %s with\n  | Ret %s => %s\n  | Next %s => %s\n  end",
		out, name, strings.Join(fa, " "), fuel, strings.Join(sa, " "), out, r, ctx.ret(r), tuple, rest), nil
}

// rangeLoop: for _, x := range s { body } over the variables the body assigns (range_loop of Prelude/GoLoop.v).
// The ranged-over expression is evaluated once, before the loop, as in Go.
func (g *pg) rangeLoop(env *pgEnv, s *ast.RangeStmt, after lcont, ctx *pgCtx) (string, error) {
	if s.Tok != token.DEFINE {
		return "", fmt.Errorf("unsupported range loop (no :=)")
	}
	keyName := "_"
	if s.Key != nil {
		id, ok := s.Key.(*ast.Ident)
		if !ok {
			return "", fmt.Errorf("unsupported range loop (index variable)")
		}
		keyName = id.Name
	}
	val, ok := s.Value.(*ast.Ident)
	if !ok || val.Name == "_" {
		return "", fmt.Errorf("unsupported range loop (no element variable)")
	}
	if keyName == val.Name {
		return "", fmt.Errorf("range loop: the same variable twice")
	}
	var binds []string
	xs, err := g.expr(env, s.X, &binds)
	if err != nil {
		return "", err
	}
	elTy, isSlice := pgSlice(xs.ty)
	if !isSlice {
		if _, _, isMap := pgMap(xs.ty); isMap {
			if g.top {
				return g.topRangeMap(env, s, xs, binds, after, ctx)
			}
			return "", fmt.Errorf("range over a map: the iteration order is not defined")
		}
		var isArr bool
		if _, elTy, isArr = lgArr(xs.ty); !isArr { // an array is ranged over by value: its elements in order
			return "", fmt.Errorf("range over %s", xs.ty)
		}
	}
	for _, n := range []string{val.Name, keyName} {
		if _, exists := env.vars[n]; exists && n != "_" {
			return "", fmt.Errorf("range variable %s shadows a variable", n)
		}
		if _, isConst := g.consts[n]; isConst {
			return "", fmt.Errorf("range variable %s shadows a constant", n)
		}
	}
	asg := map[string]bool{}
	g.assigned(s.Body.List, asg)
	if asg["?"] || asg[val.Name] || (keyName != "_" && asg[keyName]) {
		return "", fmt.Errorf("range loop: unsupported assignment target")
	}
	var state, sty []string
	for _, v := range env.order {
		if asg[v] {
			ct, err := g.coqType(env.vars[v])
			if err != nil {
				return "", err
			}
			state = append(state, "v_"+v)
			sty = append(sty, ct)
		}
	}
	if len(state) == 0 {
		return "", fmt.Errorf("range loop that assigns nothing")
	}
	tuple, pattern := state[0], fmt.Sprintf("(%s : %s)", state[0], sty[0])
	if len(state) > 1 {
		tuple = "(" + strings.Join(state, ", ") + ")"
		pattern = fmt.Sprintf("'(%s : (%s)%%type)", tuple, strings.Join(sty, " * "))
	}
	bodyEnv := env.clone()
	if keyName != "_" {
		bodyEnv.declare(keyName, ltInt)
	}
	bodyEnv.declare(val.Name, elTy)
	inner := &pgCtx{
		ret:  func(v string) string { return "Ok (RRet " + v + ")" },
		brk:  func() (string, error) { return "Ok (Brk " + tuple + ")", nil },
		cont: func() (string, error) { return "Ok (Cont " + tuple + ")", nil },
	}
	k := lcont{gen: func() (string, error) { return "Ok (Cont " + tuple + ")", nil }, cheap: true}
	body, err := g.stmts(bodyEnv, s.Body.List, k, inner)
	if err != nil {
		return "", err
	}
	rest, err := after.gen()
	if err != nil {
		return "", err
	}
	ect, err := g.coqType(elTy)
	if err != nil {
		return "", err
	}
	out, r := g.fresh("out"), g.fresh("r")
	elemPat, list := fmt.Sprintf("(v_%s : %s)", val.Name, ect), xs.code
	if keyName != "_" { // for i, x := range s: the elements with their indices 0, 1, .. (indexed_from of Prelude/GoAssoc.v)
		elemPat, list = fmt.Sprintf("'((v_%s, v_%s) : (Z * %s)%%type)", keyName, val.Name, ect), "(indexed_from 0 "+xs.code+")"
	}
	binds = append(binds, fmt.Sprintf("do %s <- range_loop (R := %s) (fun %s %s =>\n    %s) %s %s;",
		out, g.cur.retCoq, elemPat, pattern, body, list, tuple))
	return pgJoin(binds, fmt.Sprintf("match %s with\n  | Ret %s => %s\n  | Next %s => %s\n  end", out, r, ctx.ret(r), tuple, rest)), nil
}

// ---- functions -----------------------------------------------------------------

type pgSpec struct {
	name    string
	coqName string
	// number of leading statements of the form  x := recv.field[param]  (a map of maps of the receiver read at a
	// parameter): x then stands for that inner map, is a parameter of the generated function, and its final contents
	// are the result; recv and param are not available to the rest of the body
	refPrefix int
	// fields of the receiver the method assigns (maps): the method is translated over a variable that holds the value of
	// the field (initially the field of the receiver) and, having no result, returns its final value
	state []string
}

func (g *pg) function(spec pgSpec) error {
	fd, ok := g.funcs[spec.name]
	if !ok {
		return fmt.Errorf("function %s not found", spec.name)
	}
	if fd.Type.TypeParams != nil {
		return fmt.Errorf("%s: generic functions are not supported", spec.name)
	}
	if fd.Body == nil {
		return fmt.Errorf("%s has no body", spec.name)
	}
	sig := &pgSig{name: spec.name, coqName: spec.coqName}
	env := &pgEnv{vars: map[string]string{}, refs: map[string]bool{}, nonNil: map[string]bool{}}
	g.recv, g.stateVar = "", map[string]string{}
	g.okAppend, g.mapParams = map[*ast.CallExpr]bool{}, map[string]bool{}
	if fd.Recv != nil {
		if len(fd.Recv.List) != 1 || len(fd.Recv.List[0].Names) != 1 || fd.Recv.List[0].Names[0].Name == "_" {
			return fmt.Errorf("%s: unsupported receiver", spec.name)
		}
		t, err := g.goType(fd.Recv.List[0].Type)
		if err != nil || !strings.HasPrefix(t, "ptr:") {
			return fmt.Errorf("%s: unsupported receiver type", spec.name)
		}
		g.recv = fd.Recv.List[0].Names[0].Name
		env.declare(g.recv, t)
		sig.params = append(sig.params, lfield{g.recv, t})
	} else if len(spec.state) != 0 {
		return fmt.Errorf("%s: state fields without a receiver", spec.name)
	}
	for _, f := range fd.Type.Params.List {
		t, err := g.goType(f.Type)
		if err != nil {
			return fmt.Errorf("%s: parameter: %v", spec.name, err)
		}
		if len(f.Names) == 0 {
			return fmt.Errorf("%s: unnamed parameter", spec.name)
		}
		for _, n := range f.Names {
			if _, dup := env.vars[n.Name]; dup || n.Name == "_" {
				return fmt.Errorf("%s: unsupported parameter name %s", spec.name, n.Name)
			}
			env.declare(n.Name, t)
			sig.params = append(sig.params, lfield{n.Name, t})
			if _, _, isMap := pgMap(t); isMap {
				g.mapParams[n.Name] = true
			}
		}
	}
	switch {
	case fd.Type.Results == nil || len(fd.Type.Results.List) == 0:
	case len(fd.Type.Results.List) == 1 && len(fd.Type.Results.List[0].Names) == 0:
		t, err := g.goType(fd.Type.Results.List[0].Type)
		if err != nil {
			return fmt.Errorf("%s: result: %v", spec.name, err)
		}
		sig.result = t
	default:
		return fmt.Errorf("%s: unsupported result list", spec.name)
	}
	body := fd.Body.List
	// reference maps
	if spec.refPrefix > 0 {
		if sig.result != "" {
			return fmt.Errorf("%s: reference maps in a function with a result are not supported", spec.name)
		}
		if len(body) < spec.refPrefix {
			return fmt.Errorf("%s: the statements that read the maps of the receiver are missing", spec.name)
		}
		drop := map[string]bool{}
		usedField := map[string]bool{}
		var newParams []lfield
		for _, st := range body[:spec.refPrefix] {
			name, recv, field, param, ty, err := g.refStmt(env, st)
			if err != nil {
				return fmt.Errorf("%s: %v", spec.name, err)
			}
			if usedField[field] {
				return fmt.Errorf("%s: two variables for the map %s.%s", spec.name, recv, field)
			}
			usedField[field] = true
			if _, exists := env.vars[name]; exists {
				return fmt.Errorf("%s: %s redeclared", spec.name, name)
			}
			drop[recv], drop[param] = true, true
			newParams = append(newParams, lfield{name, ty})
			sig.refs = append(sig.refs, name)
		}
		env2 := &pgEnv{vars: map[string]string{}, refs: map[string]bool{}, nonNil: map[string]bool{}}
		var ps []lfield
		for _, p := range newParams {
			env2.declare(p.name, p.ty)
			env2.refs[p.name] = true
			ps = append(ps, p)
		}
		for _, p := range sig.params {
			if !drop[p.name] {
				env2.declare(p.name, p.ty)
				ps = append(ps, p)
			}
		}
		env, sig.params, body = env2, ps, body[spec.refPrefix:]
	}
	var params []string
	for _, p := range sig.params {
		ct, err := g.coqType(p.ty)
		if err != nil {
			return fmt.Errorf("%s: %v", spec.name, err)
		}
		params = append(params, fmt.Sprintf("(v_%s : %s)", p.name, ct))
	}
	if sig.result != "" {
		ct, err := g.coqType(sig.result)
		if err != nil {
			return fmt.Errorf("%s: %v", spec.name, err)
		}
		sig.retCoq = ct
	} else {
		var rtys []string
		for _, r := range sig.refs {
			rtys = append(rtys, env.vars[r])
		}
		for _, f := range spec.state {
			fv, err := g.field(pgVal{code: "v_" + g.recv, ty: env.vars[g.recv]}, f)
			if err != nil {
				return fmt.Errorf("%s: %v", spec.name, err)
			}
			sig.refs = append(sig.refs, g.recv+"_"+f)
			rtys = append(rtys, fv.ty)
		}
		if len(sig.refs) == 0 {
			return fmt.Errorf("%s: a function without result and without effect", spec.name)
		}
		var cts []string
		for _, rt := range rtys {
			ct, err := g.coqType(rt)
			if err != nil {
				return err
			}
			cts = append(cts, ct)
		}
		sig.retCoq = "(" + strings.Join(cts, " * ") + ")%type"
	}
	g.cur, g.n, g.loopN, g.pre = sig, 0, 0, nil
	var stateLets []string
	for _, f := range spec.state {
		fv, err := g.field(pgVal{code: "v_" + g.recv, ty: env.vars[g.recv]}, f)
		if err != nil {
			return fmt.Errorf("%s: %v", spec.name, err)
		}
		if _, _, isMap := pgMap(fv.ty); !isMap {
			return fmt.Errorf("%s: the state field %s is not a map", spec.name, f)
		}
		name := g.recv + "_" + f
		if _, exists := env.vars[name]; exists {
			return fmt.Errorf("%s: the name %s is taken", spec.name, name)
		}
		env.declare(name, fv.ty)
		g.stateVar[f] = name
		stateLets = append(stateLets, fmt.Sprintf("let v_%s := %s in", name, fv.code))
	}
	top := &pgCtx{ret: func(v string) string { return "Ok " + v }}
	fall := lcont{gen: func() (string, error) {
		if sig.result == "" {
			return top.ret(g.refTuple()), nil
		}
		return "", fmt.Errorf("control reaches the end of the function without a return")
	}, cheap: true}
	code, err := g.stmts(env, body, fall, top)
	if err != nil {
		return fmt.Errorf("%s: %v", spec.name, err)
	}
	code = pgJoin(stateLets, code)
	pos := g.fset.Position(fd.Pos())
	for _, p := range g.pre {
		g.out.WriteString(p)
	}
	fmt.Fprintf(&g.out, "(* %s:%d func %s *)\nDefinition %s %s : res %s :=\n  %s.\n\n",
		filepath.Base(pos.Filename), pos.Line, spec.name, spec.coqName, strings.Join(params, " "), sig.retCoq, code)
	g.sigs[spec.name] = sig
	return nil
}

// refStmt recognises  x := recv.field[param]
func (g *pg) refStmt(env *pgEnv, st ast.Stmt) (name, recv, field, param, ty string, err error) {
	bad := fmt.Errorf("expected `x := recv.field[param]` reading a map of maps of the receiver at %s", g.fset.Position(st.Pos()))
	as, ok := st.(*ast.AssignStmt)
	if !ok || as.Tok != token.DEFINE || len(as.Lhs) != 1 || len(as.Rhs) != 1 {
		return "", "", "", "", "", bad
	}
	id, ok := as.Lhs[0].(*ast.Ident)
	if !ok || id.Name == "_" {
		return "", "", "", "", "", bad
	}
	ix, ok := as.Rhs[0].(*ast.IndexExpr)
	if !ok {
		return "", "", "", "", "", bad
	}
	sel, ok := ix.X.(*ast.SelectorExpr)
	if !ok {
		return "", "", "", "", "", bad
	}
	r, ok := sel.X.(*ast.Ident)
	if !ok || !strings.HasPrefix(env.vars[r.Name], "ptr:") {
		return "", "", "", "", "", bad
	}
	p, ok := ix.Index.(*ast.Ident)
	if !ok {
		return "", "", "", "", "", bad
	}
	fv, ferr := g.field(pgVal{code: "v_" + r.Name, ty: env.vars[r.Name]}, sel.Sel.Name)
	if ferr != nil {
		return "", "", "", "", "", ferr
	}
	kt, inner, isMap := pgMap(fv.ty)
	if !isMap || kt != env.vars[p.Name] {
		return "", "", "", "", "", bad
	}
	if _, _, innerMap := pgMap(inner); !innerMap {
		return "", "", "", "", "", bad
	}
	return id.Name, r.Name, sel.Sel.Name, p.Name, inner, nil
}

// ---- loading -------------------------------------------------------------------

func pgLoad(repo string) (*pg, error) {
	if err := lgCheckGeom(repo); err != nil {
		return nil, err
	}
	if err := lgCheckMorton(repo); err != nil {
		return nil, err
	}
	g := &pg{fset: token.NewFileSet(), funcs: map[string]*ast.FuncDecl{}, structs: map[string][]lfield{},
		structPos: map[string]token.Pos{}, aliases: map[string]string{}, consts: map[string]*big.Int{},
		externals: map[string]pgExternal{}, sigs: map[string]*pgSig{}}
	f, err := parser.ParseFile(g.fset, filepath.Join(repo, "pointindex/pointindex.go"), nil, 0)
	if err != nil {
		return nil, err
	}
	g.file = f
	for _, im := range f.Imports {
		path := strings.Trim(im.Path.Value, `"`)
		name := path[strings.LastIndex(path, "/")+1:]
		if im.Name != nil {
			name = im.Name.Name
		}
		switch {
		case path == "slices":
			g.slicesName = name
		case strings.HasSuffix(path, "/texel/intgeom"):
			g.geomName = name
		case strings.HasSuffix(path, "/texel/morton"):
			g.mortonName = name
		case strings.HasSuffix(path, "/texel/mathhelp"):
			g.mathName = name
		}
	}
	if g.geomName == "" {
		return nil, fmt.Errorf("import of intgeom not found")
	}
	var typeDecls []*ast.TypeSpec
	for _, d := range f.Decls {
		switch d := d.(type) {
		case *ast.FuncDecl:
			key := d.Name.Name
			if d.Recv != nil && len(d.Recv.List) == 1 {
				rt := d.Recv.List[0].Type
				if st, ok := rt.(*ast.StarExpr); ok {
					rt = st.X
				}
				if id, ok := rt.(*ast.Ident); ok {
					key = id.Name + "." + key
				}
			}
			g.funcs[key] = d
		case *ast.GenDecl:
			switch d.Tok {
			case token.CONST:
				for _, sp := range d.Specs {
					vs := sp.(*ast.ValueSpec)
					if vs.Type != nil {
						continue
					}
					for i, n := range vs.Names {
						if i < len(vs.Values) {
							if bl, ok := vs.Values[i].(*ast.BasicLit); ok && bl.Kind == token.INT {
								if z, err := parseIntLit(bl.Value); err == nil {
									g.consts[n.Name] = z
								}
							}
						}
					}
				}
			case token.TYPE:
				for _, sp := range d.Specs {
					typeDecls = append(typeDecls, sp.(*ast.TypeSpec))
				}
			}
		}
	}
	// aliases of int / uint first, then the structs (in dependency order: a struct may embed an earlier one)
	for _, ts := range typeDecls {
		if id, ok := ts.Type.(*ast.Ident); ok && ts.Assign != token.NoPos && ts.TypeParams == nil && (id.Name == "int" || id.Name == "uint") {
			g.aliases[ts.Name.Name] = id.Name
		}
	}
	return g, nil
}

// loadStruct registers the struct type `name` (all field types must be translatable)
func (g *pg) loadStruct(name string, only map[string]bool) error {
	for _, d := range g.file.Decls {
		gd, ok := d.(*ast.GenDecl)
		if !ok || gd.Tok != token.TYPE {
			continue
		}
		for _, sp := range gd.Specs {
			ts := sp.(*ast.TypeSpec)
			if ts.Name.Name != name {
				continue
			}
			st, ok := ts.Type.(*ast.StructType)
			if !ok || ts.Assign != token.NoPos || ts.TypeParams != nil {
				return fmt.Errorf("%s is not a plain struct", name)
			}
			var fields []lfield
			for _, fl := range st.Fields.List {
				names := fl.Names
				if len(names) == 0 { // embedded struct: the field has the name of the type
					id, ok := fl.Type.(*ast.Ident)
					if !ok {
						return fmt.Errorf("%s: unsupported embedded field", name)
					}
					names = []*ast.Ident{id}
				}
				for _, n := range names {
					if only != nil && !only[n.Name] {
						continue
					}
					t, err := g.goType(fl.Type)
					if err != nil {
						return fmt.Errorf("%s.%s: %v", name, n.Name, err)
					}
					fields = append(fields, lfield{n.Name, t})
				}
			}
			if only != nil && len(fields) != len(only) {
				return fmt.Errorf("%s: not all of the expected fields are declared", name)
			}
			g.structs[name] = fields
			g.structPos[name] = ts.Pos()
			return nil
		}
	}
	return fmt.Errorf("type %s not found", name)
}

func (g *pg) emitStruct(name string) error {
	pos := g.fset.Position(g.structPos[name])
	fmt.Fprintf(&g.out, "(* %s:%d type %s *)\nRecord gen_%s := mk_gen_%s {", filepath.Base(pos.Filename), pos.Line, name, name, name)
	for i, fl := range g.structs[name] {
		ct, err := g.coqType(fl.ty)
		if err != nil {
			return err
		}
		if i > 0 {
			g.out.WriteString(";")
		}
		fmt.Fprintf(&g.out, " %s_%s : %s", name, fl.name, ct)
	}
	g.out.WriteString(" }.\n\n")
	return nil
}

// external registers a function that another generated file contains, after checking its declared signature
func (g *pg) external(key string, params []string, result string, coq string) error {
	if err := g.checkSig(key, params, result); err != nil {
		return err
	}
	g.externals[key] = pgExternal{params: params, result: result, coq: coq}
	return nil
}

// monadic registers a function translated into the monad `res` in another generated file, after checking its signature
func (g *pg) monadic(key string, names []string, params []string, result string, coq string) error {
	if err := g.checkSig(key, params, result); err != nil {
		return err
	}
	sig := &pgSig{name: key, coqName: coq, result: result}
	for i, p := range params {
		sig.params = append(sig.params, lfield{names[i], p})
	}
	g.sigs[key] = sig
	return nil
}

func (g *pg) checkSig(key string, params []string, result string) error {
	fd, ok := g.funcs[key]
	if !ok {
		return fmt.Errorf("function %s not found", key)
	}
	if fd.Type.TypeParams != nil {
		return fmt.Errorf("%s is generic", key)
	}
	var got []string
	if fd.Recv != nil {
		t, err := g.goType(fd.Recv.List[0].Type)
		if err != nil {
			return fmt.Errorf("%s: %v", key, err)
		}
		got = append(got, t)
	}
	for _, f := range fd.Type.Params.List {
		t, err := g.goType(f.Type)
		if err != nil {
			return fmt.Errorf("%s: %v", key, err)
		}
		n := len(f.Names)
		if n == 0 {
			n = 1
		}
		for i := 0; i < n; i++ {
			got = append(got, t)
		}
	}
	var res []string
	if fd.Type.Results != nil {
		for _, f := range fd.Type.Results.List {
			t, err := g.goType(f.Type)
			if err != nil {
				return fmt.Errorf("%s: %v", key, err)
			}
			n := len(f.Names)
			if n == 0 {
				n = 1
			}
			for i := 0; i < n; i++ {
				res = append(res, t)
			}
		}
	}
	r := strings.Join(res, ",")
	if len(res) > 1 {
		r = "tuple:" + r
	}
	if strings.Join(got, ";") != strings.Join(params, ";") || r != result {
		return fmt.Errorf("%s has signature (%s) %s, the translation assumes (%s) %s", key, strings.Join(got, ", "), r, strings.Join(params, ", "), result)
	}
	return nil
}

const pgHeader = "From Coq Require Import ZArith NArith List Bool.\n" +
	"From Texel Require Import Prelude.Base Prelude.GoLoop Prelude.GoAssoc Bits.Bexpr Index.MachineInt.\n"

// the leaf functions of pointindex.go that PointIndexGen.v and LineGen.v contain (pure and total there)
func (g *pg) leafExternals() error {
	for _, e := range []struct {
		key    string
		params []string
		result string
	}{
		{"getInfiniteQuadrant", []string{ltPt, ltPt}, ltInt},
		{"containsPoint", []string{ltPt, ltExtent}, ltBool},
		{"quadrantsAreAdjacent", []string{ltInt, ltInt}, ltBool},
		{"adjacentQuadrantX", []string{ltInt}, ltInt},
		{"adjacentQuadrantY", []string{ltInt}, ltInt},
		{"lineIntersects", []string{ltLine, ltExtent}, ltBool},
	} {
		if err := g.external(e.key, e.params, e.result, "gen_"+e.key); err != nil {
			return err
		}
	}
	return nil
}

func genFind(repo string) (string, error) {
	g, err := pgLoad(repo)
	if err != nil {
		return "", err
	}
	if g.aliases["Q"] != ltInt {
		return "", fmt.Errorf("type Q = int not found")
	}
	for _, s := range []string{"Quadrant", "quadrantToCheck"} {
		if err := g.loadStruct(s, nil); err != nil {
			return "", err
		}
	}
	if err := g.leafExternals(); err != nil {
		return "", err
	}
	g.out.WriteString("(* GENERATED by /verif/translator (G2, whole bodies in the error monad) from pointindex/pointindex.go on every run -- do not edit.\n")
	g.out.WriteString("   Not translated here, but called as regenerated elsewhere (signatures checked): getInfiniteQuadrant, containsPoint,\n")
	g.out.WriteString("   quadrantsAreAdjacent, adjacentQuadrantX, adjacentQuadrantY (PointIndexGen.v), lineIntersects (LineGen.v).\n")
	g.out.WriteString("   Mapped to hand-written support: map[Q]Quadrant read with `v, ok := m[k]` = gm_get_ok of Prelude/GoAssoc.v (association\n")
	g.out.WriteString("   list); `for _, x := range s` with continue = range_loop of Prelude/GoLoop.v; int (quadrant numbers) = exact Z. *)\n")
	g.out.WriteString(pgHeader)
	g.out.WriteString("From Texel.Gen Require Import PointIndexGen LineGen.\nImport ListNotations.\nOpen Scope Z_scope.\n\n")
	for _, s := range []string{"Quadrant", "quadrantToCheck"} {
		if err := g.emitStruct(s); err != nil {
			return "", err
		}
	}
	if err := g.function(pgSpec{name: "findIntersectingQuadrants", coqName: "gen_findIntersectingQuadrants_full"}); err != nil {
		return "", err
	}
	return g.out.String(), nil
}
