package main

// ---------------------------------------------------------------------------
// G2 (tile matrix sets, the LOADERS): tms20.LoadEmbeddedTileMatrixSet with its package-level cache and
// tms20.LoadJSONTileMatrixSet -> gen/TmsLoadGen.v, statement by statement, as functions of an abstract file system and of
// the STATE (the cache), with the vocabulary of Tms/GoLoad.v.  This is how a built-in tile matrix set reaches the rest of
// the code (C14 / C15 / C16 speak about "every built-in tile matrix set").
//
//   func F(p string) (TileMatrixSet, error)     Definition gen_F (fs : fsys) (st : S) (v_p : string) : loadres S gen_TileMatrixSet
//                                               S = cache gen_TileMatrixSet when F mentions the cache variable, unit otherwise
//   var x TileMatrixSet                         let v_x := gen_TileMatrixSet_zero in
//   p, ok := CACHE[k]                           let '(v_p, v_ok) := cache_get st k in          (p : option _, nil when absent)
//   data, err := FS.ReadFile(e)                 let '(v_data, v_err) := read_file fs e in      FS the embed.FS variable
//   data, err := os.ReadFile(e)                 the same (one file system per function)
//   err = json.Unmarshal(data, &x)              ld_bind (json_unmarshal gen_TileMatrixSet_UnmarshalJSON v_data v_x) st (fun '(v_x, v_err) => ..)
//   if ok { .. return }   if err != nil { .. return }      if .. then ( .. ) else <rest>
//   CACHE[k] = &x                               let st := cache_set st k v_x in   (only directly before the final `return x, nil`)
//   return *p, nil                              ld_bind (deref v_p) st (fun t => ld_return st t (Some k))      p read from CACHE[k]
//   return x, nil                               ld_return st v_x (Some k) when &x was stored at CACHE[k], ld_return st v_x None otherwise
//   return x, err   (under err != nil)          ld_fail st
//   path.Join(a, b), s + t, "literal", a string constant of the package (its value READ from the declaration)
//
// Checked before translating (each a translation failure otherwise, with the position):
//   - the cache variable is declared `= make(map[string]*TileMatrixSet)` and is mentioned NOWHERE in the package's
//     non-test files except in LoadEmbeddedTileMatrixSet (so the generated function is the only writer and reader);
//   - the embed.FS variable carries exactly one `//go:embed` pattern; the pattern is evaluated on the directory: the
//     generated gen_embedded_fs lists every regular file it matches (a document added to the directory is picked up),
//     each as the term gen_doc_<name> of gen/TmsData.v; a matched directory or a file that is not *.json is refused;
//   - *TileMatrixSet has a method UnmarshalJSON(data []byte) error (json.Unmarshal dispatches to it: the regenerated
//     gen_TileMatrixSet_UnmarshalJSON of gen/TmsJsonGen.v); "path", "os", "encoding/json", "embed" are imported unrenamed;
//   - parameters are never assigned; a variable whose address was stored in the cache is only returned afterwards.
// Also regenerated: the list of the fields of TileMatrixSet of reference type (slices, maps, pointers, interfaces), which
// a shallow copy shares with the original (gen_TileMatrixSet_reference_fields).
// Anything else is a translation failure.
// ---------------------------------------------------------------------------

import (
	"bytes"
	"fmt"
	"go/ast"
	"go/parser"
	"go/printer"
	"go/token"
	"os"
	"path"
	"path/filepath"
	"sort"
	"strconv"
	"strings"
)

const (
	tlCacheVar   = "embeddedTileMatrixSetsCache"
	tlFSVar      = "embeddedTileMatrixSetsJSONFS"
	tlStructName = "TileMatrixSet"
)

type tlVarKind int

const (
	tlStr   tlVarKind = iota // string
	tlTms                    // a TileMatrixSet value
	tlPtr                    // *TileMatrixSet read from the cache
	tlBool                   // the ok of a comma-ok lookup
	tlErr                    // error
	tlBytes                  // []byte
)

type tlVar struct {
	kind   tlVarKind
	param  bool
	key    string // tlPtr: the Coq term of the key it was read at; tlTms: the key its address was stored at ("" = not stored)
	stored bool
}

type tl struct {
	fset      *token.FileSet
	file      *ast.File
	consts    map[string]string // string constants of the package: name -> value
	fsKind    string            // per function: "", "embed", "os"
	usesCache bool
	nfresh    int
	dirLit    string // the literal directory of path.Join in the embedded loader
}

func (g *tl) errf(n ast.Node, format string, a ...interface{}) error {
	return fmt.Errorf("%s: %s", g.fset.Position(n.Pos()), fmt.Sprintf(format, a...))
}

func (g *tl) print(n interface{}) string {
	var b bytes.Buffer
	_ = printer.Fprint(&b, g.fset, n)
	return b.String()
}

func (g *tl) fresh() string {
	g.nfresh++
	return fmt.Sprintf("t_%d", g.nfresh)
}

type tlEnv map[string]*tlVar

func (e tlEnv) clone() tlEnv {
	c := tlEnv{}
	for k, v := range e {
		w := *v
		c[k] = &w
	}
	return c
}

func isIdent(x ast.Expr, name string) bool {
	id, ok := x.(*ast.Ident)
	return ok && id.Name == name
}

// pkgSel: x is `pkg.name` with pkg an imported package that no local variable shadows
func (g *tl) pkgSel(x ast.Expr, env tlEnv, pkg, name string) bool {
	s, ok := x.(*ast.SelectorExpr)
	if !ok || s.Sel.Name != name || !isIdent(s.X, pkg) {
		return false
	}
	_, shadowed := env[pkg]
	return !shadowed
}

// strExpr: an expression of type string
func (g *tl) strExpr(x ast.Expr, env tlEnv) (string, error) {
	switch e := x.(type) {
	case *ast.BasicLit:
		if e.Kind != token.STRING {
			return "", g.errf(x, "literal %s is not a string", e.Value)
		}
		s, err := strconv.Unquote(e.Value)
		if err != nil {
			return "", g.errf(x, "string literal: %v", err)
		}
		return coqString(s) + "%string", nil
	case *ast.Ident:
		if v, ok := env[e.Name]; ok {
			if v.kind != tlStr {
				return "", g.errf(x, "%s is not a string variable", e.Name)
			}
			return "v_" + e.Name, nil
		}
		if _, ok := g.consts[e.Name]; ok {
			return "gen_" + e.Name, nil
		}
		return "", g.errf(x, "unknown identifier %s in a string expression", e.Name)
	case *ast.ParenExpr:
		return g.strExpr(e.X, env)
	case *ast.BinaryExpr:
		if e.Op != token.ADD {
			return "", g.errf(x, "operator %s on strings is not translated", e.Op)
		}
		a, err := g.strExpr(e.X, env)
		if err != nil {
			return "", err
		}
		b, err := g.strExpr(e.Y, env)
		if err != nil {
			return "", err
		}
		return "(" + a + " ++ " + b + ")%string", nil
	case *ast.CallExpr:
		if g.pkgSel(e.Fun, env, "path", "Join") {
			if len(e.Args) != 2 || e.Ellipsis.IsValid() {
				return "", g.errf(x, "path.Join is translated for exactly two arguments")
			}
			if bl, ok := e.Args[0].(*ast.BasicLit); ok && bl.Kind == token.STRING {
				if s, err := strconv.Unquote(bl.Value); err == nil {
					g.dirLit = s
				}
			}
			a, err := g.strExpr(e.Args[0], env)
			if err != nil {
				return "", err
			}
			b, err := g.strExpr(e.Args[1], env)
			if err != nil {
				return "", err
			}
			return "(go_path_join2 " + a + " " + b + ")", nil
		}
		return "", g.errf(x, "call %s is not translated", g.print(e.Fun))
	}
	return "", g.errf(x, "expression %s is not translated", g.print(x))
}

// cond: `ok` (a comma-ok flag) or `err != nil`
func (g *tl) cond(x ast.Expr, env tlEnv) (string, error) {
	switch e := x.(type) {
	case *ast.Ident:
		if v, ok := env[e.Name]; ok && v.kind == tlBool {
			return "v_" + e.Name, nil
		}
	case *ast.BinaryExpr:
		if id, ok := e.X.(*ast.Ident); ok && e.Op == token.NEQ && isIdent(e.Y, "nil") {
			if v, ok := env[id.Name]; ok && v.kind == tlErr {
				return "v_" + id.Name, nil
			}
		}
	}
	return "", g.errf(x, "condition %s is not translated (accepted: a comma-ok flag, err != nil)", g.print(x))
}

func (g *tl) declare(n ast.Node, env tlEnv, name string, v *tlVar, define bool) error {
	if name == "_" {
		return g.errf(n, "the blank identifier is not translated here")
	}
	old, exists := env[name]
	if define {
		if exists {
			// := may re-use a variable of the same scope; only err is re-declared in the translated code
			if old.kind != v.kind || old.param {
				return g.errf(n, "%s is declared again with another meaning", name)
			}
		}
		env[name] = v
		return nil
	}
	if !exists {
		return g.errf(n, "assignment to undeclared %s", name)
	}
	if old.param {
		return g.errf(n, "assignment to the parameter %s", name)
	}
	if old.kind != v.kind {
		return g.errf(n, "%s is assigned a value of another type", name)
	}
	if old.kind == tlTms && old.stored {
		return g.errf(n, "%s is assigned after its address was stored in the cache", name)
	}
	return nil
}

// the statement after `.., err := f()` / `err = f()` must be `if err != nil { .. return }`
func (g *tl) guarded(n ast.Node, list []ast.Stmt, i int, errName string) error {
	if i+1 < len(list) {
		if is, ok := list[i+1].(*ast.IfStmt); ok && is.Init == nil && is.Else == nil {
			if be, ok := is.Cond.(*ast.BinaryExpr); ok && be.Op == token.NEQ && isIdent(be.X, errName) && isIdent(be.Y, "nil") {
				if len(is.Body.List) > 0 {
					if _, ok := is.Body.List[len(is.Body.List)-1].(*ast.ReturnStmt); ok {
						return nil
					}
				}
			}
		}
	}
	return g.errf(n, "the statement after this one must be `if %s != nil { .. return .. }` (the other results are not modelled beside an error)", errName)
}

func (g *tl) stmts(list []ast.Stmt, i int, env tlEnv) (string, error) {
	if i >= len(list) {
		return "", fmt.Errorf("%s: the function can end without a return", g.fset.Position(g.file.Pos()))
	}
	s := list[i]
	rest := func() (string, error) {
		if i+1 >= len(list) {
			return "", g.errf(s, "control falls off the end of the block after this statement")
		}
		return g.stmts(list, i+1, env)
	}
	switch st := s.(type) {
	case *ast.DeclStmt:
		gd, ok := st.Decl.(*ast.GenDecl)
		if !ok || gd.Tok != token.VAR || len(gd.Specs) != 1 {
			return "", g.errf(s, "declaration not translated")
		}
		vs := gd.Specs[0].(*ast.ValueSpec)
		if len(vs.Names) != 1 || len(vs.Values) != 0 || !isIdent(vs.Type, tlStructName) {
			return "", g.errf(s, "only `var x %s` is translated", tlStructName)
		}
		name := vs.Names[0].Name
		if _, exists := env[name]; exists {
			return "", g.errf(s, "%s is declared twice", name)
		}
		env[name] = &tlVar{kind: tlTms}
		r, err := rest()
		if err != nil {
			return "", err
		}
		return fmt.Sprintf("let v_%s := gen_%s_zero in\n%s", name, tlStructName, r), nil

	case *ast.AssignStmt:
		return g.assign(st, list, i, env, rest)

	case *ast.IfStmt:
		if st.Init != nil || st.Else != nil {
			return "", g.errf(s, "only `if c { .. return }` without init and else is translated")
		}
		c, err := g.cond(st.Cond, env)
		if err != nil {
			return "", err
		}
		if len(st.Body.List) == 0 {
			return "", g.errf(s, "empty branch")
		}
		if _, ok := st.Body.List[len(st.Body.List)-1].(*ast.ReturnStmt); !ok {
			return "", g.errf(s, "the branch must end with a return")
		}
		envT := env.clone()
		if be, ok := st.Cond.(*ast.BinaryExpr); ok {
			envT["\x00inErr"] = &tlVar{kind: tlErr, key: be.X.(*ast.Ident).Name}
		}
		t, err := g.stmts(st.Body.List, 0, envT)
		if err != nil {
			return "", err
		}
		delete(env, "\x00inErr")
		r, err := rest()
		if err != nil {
			return "", err
		}
		return fmt.Sprintf("if %s then (\n%s\n) else\n%s", c, t, r), nil

	case *ast.ReturnStmt:
		if i != len(list)-1 {
			return "", g.errf(s, "statements after a return")
		}
		return g.ret(st, env)
	}
	return "", g.errf(s, "statement not translated: %s", g.print(s))
}

func (g *tl) ret(st *ast.ReturnStmt, env tlEnv) (string, error) {
	if len(st.Results) != 2 {
		return "", g.errf(st, "return with %d results", len(st.Results))
	}
	v, e := st.Results[0], st.Results[1]
	if isIdent(e, "nil") {
		if _, shadow := env["nil"]; shadow {
			return "", g.errf(st, "nil is shadowed")
		}
		if _, inErr := env["\x00inErr"]; inErr {
			return "", g.errf(st, "`return .., nil` under err != nil (an error swallowed) is not translated")
		}
		switch x := v.(type) {
		case *ast.StarExpr:
			id, ok := x.X.(*ast.Ident)
			if !ok {
				break
			}
			p, ok := env[id.Name]
			if !ok || p.kind != tlPtr {
				break
			}
			t := g.fresh()
			return fmt.Sprintf("ld_bind (deref v_%s) st (fun %s => ld_return st %s (Some %s))", id.Name, t, t, p.key), nil
		case *ast.Ident:
			t, ok := env[x.Name]
			if !ok || t.kind != tlTms {
				break
			}
			sh := "None"
			if t.stored {
				sh = "(Some " + t.key + ")"
			}
			return fmt.Sprintf("ld_return st v_%s %s", x.Name, sh), nil
		}
		return "", g.errf(st, "returned value %s is not translated (accepted: a %s variable, *p for p read from the cache)", g.print(v), tlStructName)
	}
	// return x, err under `err != nil`
	id, ok := e.(*ast.Ident)
	if !ok {
		return "", g.errf(st, "returned error %s is not translated (accepted: nil, the error variable under its test)", g.print(e))
	}
	in, inErr := env["\x00inErr"]
	if ev, ok := env[id.Name]; !ok || ev.kind != tlErr || !inErr || in.key != id.Name {
		return "", g.errf(st, "`return .., %s` is translated only inside `if %s != nil { .. }`", id.Name, id.Name)
	}
	vid, ok := v.(*ast.Ident)
	if !ok {
		return "", g.errf(st, "value returned beside an error must be a variable")
	}
	if t, ok := env[vid.Name]; !ok || t.kind != tlTms {
		return "", g.errf(st, "value returned beside an error must be a %s variable", tlStructName)
	}
	return "ld_fail st", nil
}

func (g *tl) useFS(n ast.Node, kind string) error {
	if g.fsKind != "" && g.fsKind != kind {
		return g.errf(n, "the function reads two different file systems (%s and %s)", g.fsKind, kind)
	}
	g.fsKind = kind
	return nil
}

func (g *tl) assign(st *ast.AssignStmt, list []ast.Stmt, i int, env tlEnv, rest func() (string, error)) (string, error) {
	define := st.Tok == token.DEFINE
	if st.Tok != token.DEFINE && st.Tok != token.ASSIGN {
		return "", g.errf(st, "assignment operator %s not translated", st.Tok)
	}
	if len(st.Rhs) != 1 {
		return "", g.errf(st, "tuple assignment not translated")
	}
	rhs := st.Rhs[0]

	// CACHE[k] = &x
	if ix, ok := st.Lhs[0].(*ast.IndexExpr); ok && len(st.Lhs) == 1 {
		if !isIdent(ix.X, tlCacheVar) || define {
			return "", g.errf(st, "indexed assignment is translated only for the cache %s", tlCacheVar)
		}
		if _, sh := env[tlCacheVar]; sh {
			return "", g.errf(st, "%s is shadowed", tlCacheVar)
		}
		ue, ok := rhs.(*ast.UnaryExpr)
		if !ok || ue.Op != token.AND {
			return "", g.errf(st, "only the address of a local %s is stored in the cache", tlStructName)
		}
		id, ok := ue.X.(*ast.Ident)
		if !ok {
			return "", g.errf(st, "only the address of a local %s is stored in the cache", tlStructName)
		}
		x, ok := env[id.Name]
		if !ok || x.kind != tlTms || x.param {
			return "", g.errf(st, "%s is not a local %s", id.Name, tlStructName)
		}
		k, err := g.strExpr(ix.Index, env)
		if err != nil {
			return "", err
		}
		// the pointee must be constant from here on: only `return x, nil` may follow
		if i+2 != len(list) {
			return "", g.errf(st, "after its address is stored, %s may only be returned (`return %s, nil` must follow at once)", id.Name, id.Name)
		}
		r, ok := list[i+1].(*ast.ReturnStmt)
		if !ok || len(r.Results) != 2 || !isIdent(r.Results[0], id.Name) || !isIdent(r.Results[1], "nil") {
			return "", g.errf(st, "after its address is stored, %s may only be returned (`return %s, nil` must follow at once)", id.Name, id.Name)
		}
		x.stored, x.key = true, k
		g.usesCache = true
		rr, err := rest()
		if err != nil {
			return "", err
		}
		return fmt.Sprintf("let st := cache_set st %s v_%s in\n%s", k, id.Name, rr), nil
	}

	names := make([]string, len(st.Lhs))
	for j, l := range st.Lhs {
		id, ok := l.(*ast.Ident)
		if !ok {
			return "", g.errf(st, "assignment target %s not translated", g.print(l))
		}
		names[j] = id.Name
	}

	// p, ok := CACHE[k]
	if ix, ok := rhs.(*ast.IndexExpr); ok {
		if !isIdent(ix.X, tlCacheVar) || len(names) != 2 || !define {
			return "", g.errf(st, "an index expression is translated only as `p, ok := %s[k]`", tlCacheVar)
		}
		if _, sh := env[tlCacheVar]; sh {
			return "", g.errf(st, "%s is shadowed", tlCacheVar)
		}
		k, err := g.strExpr(ix.Index, env)
		if err != nil {
			return "", err
		}
		if _, e0 := env[names[0]]; e0 {
			return "", g.errf(st, "%s is declared twice", names[0])
		}
		if _, e1 := env[names[1]]; e1 {
			return "", g.errf(st, "%s is declared twice", names[1])
		}
		if err := g.declare(st, env, names[0], &tlVar{kind: tlPtr, key: k}, true); err != nil {
			return "", err
		}
		if err := g.declare(st, env, names[1], &tlVar{kind: tlBool}, true); err != nil {
			return "", err
		}
		g.usesCache = true
		r, err := rest()
		if err != nil {
			return "", err
		}
		return fmt.Sprintf("let '(v_%s, v_%s) := cache_get st %s in\n%s", names[0], names[1], k, r), nil
	}

	call, ok := rhs.(*ast.CallExpr)
	if !ok {
		return "", g.errf(st, "assignment of %s not translated", g.print(rhs))
	}

	// data, err := FS.ReadFile(e)  /  os.ReadFile(e)
	isEmbedRead := false
	if s, ok := call.Fun.(*ast.SelectorExpr); ok && s.Sel.Name == "ReadFile" && isIdent(s.X, tlFSVar) {
		if _, sh := env[tlFSVar]; !sh {
			isEmbedRead = true
		}
	}
	if isEmbedRead || g.pkgSel(call.Fun, env, "os", "ReadFile") {
		if len(names) != 2 || !define || len(call.Args) != 1 {
			return "", g.errf(st, "ReadFile is translated as `data, err := ..ReadFile(name)`")
		}
		kind := "os"
		if isEmbedRead {
			kind = "embed"
		}
		if err := g.useFS(st, kind); err != nil {
			return "", err
		}
		e, err := g.strExpr(call.Args[0], env)
		if err != nil {
			return "", err
		}
		if _, e0 := env[names[0]]; e0 {
			return "", g.errf(st, "%s is declared twice", names[0])
		}
		if err := g.declare(st, env, names[0], &tlVar{kind: tlBytes}, true); err != nil {
			return "", err
		}
		if err := g.declare(st, env, names[1], &tlVar{kind: tlErr}, true); err != nil {
			return "", err
		}
		if err := g.guarded(st, list, i, names[1]); err != nil {
			return "", err
		}
		r, err := rest()
		if err != nil {
			return "", err
		}
		return fmt.Sprintf("let '(v_%s, v_%s) := read_file fs %s in\n%s", names[0], names[1], e, r), nil
	}

	// err = json.Unmarshal(data, &x)
	if g.pkgSel(call.Fun, env, "json", "Unmarshal") {
		if len(names) != 1 || len(call.Args) != 2 {
			return "", g.errf(st, "json.Unmarshal is translated as `err = json.Unmarshal(data, &x)`")
		}
		did, ok := call.Args[0].(*ast.Ident)
		if !ok {
			return "", g.errf(st, "json.Unmarshal: the data must be a variable")
		}
		if d, ok := env[did.Name]; !ok || d.kind != tlBytes {
			return "", g.errf(st, "json.Unmarshal: %s is not a []byte read from a file", did.Name)
		}
		ue, ok := call.Args[1].(*ast.UnaryExpr)
		if !ok || ue.Op != token.AND {
			return "", g.errf(st, "json.Unmarshal: the target must be &x")
		}
		xid, ok := ue.X.(*ast.Ident)
		if !ok {
			return "", g.errf(st, "json.Unmarshal: the target must be &x")
		}
		x, ok := env[xid.Name]
		if !ok || x.kind != tlTms || x.param {
			return "", g.errf(st, "json.Unmarshal: %s is not a local %s", xid.Name, tlStructName)
		}
		if x.stored {
			return "", g.errf(st, "%s is written after its address was stored in the cache", xid.Name)
		}
		if err := g.declare(st, env, names[0], &tlVar{kind: tlErr}, define); err != nil {
			return "", err
		}
		if err := g.guarded(st, list, i, names[0]); err != nil {
			return "", err
		}
		r, err := rest()
		if err != nil {
			return "", err
		}
		return fmt.Sprintf("ld_bind (json_unmarshal gen_%s_UnmarshalJSON v_%s v_%s) st (fun '(v_%s, v_%s) =>\n%s)",
			tlStructName, did.Name, xid.Name, xid.Name, names[0], r), nil
	}
	return "", g.errf(st, "call %s is not translated", g.print(call.Fun))
}

// genFunc translates one loader: func F(p string) (TileMatrixSet, error)
func (g *tl) genFunc(fd *ast.FuncDecl) (string, error) {
	g.fsKind, g.usesCache, g.nfresh = "", false, 0
	ft := fd.Type
	if fd.Recv != nil || ft.TypeParams != nil {
		return "", g.errf(fd, "%s: methods / generic functions are not translated", fd.Name.Name)
	}
	if len(ft.Params.List) != 1 || len(ft.Params.List[0].Names) != 1 || !isIdent(ft.Params.List[0].Type, "string") {
		return "", g.errf(fd, "%s: expected one string parameter", fd.Name.Name)
	}
	if ft.Results == nil || len(ft.Results.List) != 2 || len(ft.Results.List[0].Names) != 0 ||
		!isIdent(ft.Results.List[0].Type, tlStructName) || !isIdent(ft.Results.List[1].Type, "error") {
		return "", g.errf(fd, "%s: expected the unnamed results (%s, error)", fd.Name.Name, tlStructName)
	}
	var bad error
	ast.Inspect(fd.Body, func(n ast.Node) bool {
		switch x := n.(type) {
		case *ast.FuncLit, *ast.GoStmt, *ast.DeferStmt, *ast.LabeledStmt, *ast.BranchStmt, *ast.ForStmt, *ast.RangeStmt,
			*ast.SwitchStmt, *ast.TypeSwitchStmt, *ast.SelectStmt, *ast.SendStmt, *ast.IncDecStmt:
			if bad == nil {
				bad = g.errf(x, "%s: construct not translated: %s", fd.Name.Name, g.print(x))
			}
		}
		return true
	})
	if bad != nil {
		return "", bad
	}
	p := ft.Params.List[0].Names[0].Name
	env := tlEnv{p: &tlVar{kind: tlStr, param: true}}
	body, err := g.stmts(fd.Body.List, 0, env)
	if err != nil {
		return "", err
	}
	state := "unit"
	if g.usesCache {
		state = "(cache gen_" + tlStructName + ")"
	}
	if g.fsKind == "" {
		return "", g.errf(fd, "%s reads no file", fd.Name.Name)
	}
	fsDoc := map[string]string{"embed": "the embed.FS " + tlFSVar, "os": "the operating system's files (os.ReadFile)"}[g.fsKind]
	stDoc := "no package-level state is touched (st : unit)"
	if g.usesCache {
		stDoc = "st = the package-level map " + tlCacheVar
	}
	return fmt.Sprintf("(* tms20/tms20.go: func %s(%s string) (%s, error);  fs = %s;  %s *)\nDefinition gen_%s (fs : fsys) (st : %s) (v_%s : string) : loadres %s gen_%s :=\n%s.\n\n",
		fd.Name.Name, p, tlStructName, fsDoc, stDoc, fd.Name.Name, state, p, state, tlStructName, body), nil
}

// ---- declarations ----------------------------------------------------------------------------------------------------

func tlImports(f *ast.File) map[string]string {
	m := map[string]string{}
	for _, im := range f.Imports {
		p, _ := strconv.Unquote(im.Path.Value)
		name := path.Base(p)
		if im.Name != nil {
			name = im.Name.Name
		}
		m[name] = p
	}
	return m
}

// valueSpecOf finds the package-level `var name ..` and its doc comment lines (raw, directives included)
func (g *tl) valueSpecOf(name string) (*ast.ValueSpec, int, []string) {
	for _, d := range g.file.Decls {
		gd, ok := d.(*ast.GenDecl)
		if !ok || gd.Tok != token.VAR {
			continue
		}
		for _, sp := range gd.Specs {
			vs := sp.(*ast.ValueSpec)
			for i, n := range vs.Names {
				if n.Name == name {
					var lines []string
					cg := vs.Doc
					if cg == nil && len(gd.Specs) == 1 {
						cg = gd.Doc
					}
					if cg != nil {
						for _, c := range cg.List {
							lines = append(lines, c.Text)
						}
					}
					return vs, i, lines
				}
			}
		}
	}
	return nil, 0, nil
}

// embedded: the files the //go:embed pattern of the FS variable matches, as slash-separated names relative to the package
func (g *tl) embedded(pkgDir string) ([]string, string, error) {
	vs, _, doc := g.valueSpecOf(tlFSVar)
	if vs == nil {
		return nil, "", fmt.Errorf("package variable %s not found", tlFSVar)
	}
	if len(vs.Names) != 1 || len(vs.Values) != 0 {
		return nil, "", g.errf(vs, "%s: expected `var %s embed.FS` on its own", tlFSVar, tlFSVar)
	}
	if s, ok := vs.Type.(*ast.SelectorExpr); !ok || !isIdent(s.X, "embed") || s.Sel.Name != "FS" {
		return nil, "", g.errf(vs, "%s is not an embed.FS", tlFSVar)
	}
	var pats []string
	for _, l := range doc {
		if strings.HasPrefix(l, "//go:embed") {
			f := strings.Fields(strings.TrimPrefix(l, "//go:embed"))
			pats = append(pats, f...)
		}
	}
	if len(pats) != 1 {
		return nil, "", g.errf(vs, "%s: expected exactly one //go:embed pattern, found %d", tlFSVar, len(pats))
	}
	pat := pats[0]
	if strings.ContainsAny(pat, "\"`\\") || strings.HasPrefix(pat, "all:") {
		return nil, "", g.errf(vs, "//go:embed pattern %s: quoting and the all: prefix are not translated", pat)
	}
	dir, base := path.Dir(pat), path.Base(pat)
	if strings.ContainsAny(dir, "*?[") || dir == "." || strings.HasPrefix(dir, "/") || strings.Contains(dir, "..") {
		return nil, "", g.errf(vs, "//go:embed pattern %s: expected <literal directory>/<file pattern>", pat)
	}
	if !strings.ContainsAny(base, "*?[") {
		return nil, "", g.errf(vs, "//go:embed pattern %s: expected a file pattern with a wildcard", pat)
	}
	ents, err := os.ReadDir(filepath.Join(pkgDir, filepath.FromSlash(dir)))
	if err != nil {
		return nil, "", err
	}
	var files []string
	for _, e := range ents {
		ok, err := path.Match(base, e.Name())
		if err != nil {
			return nil, "", g.errf(vs, "//go:embed pattern %s: %v", pat, err)
		}
		if !ok {
			continue
		}
		if !e.Type().IsRegular() {
			return nil, "", fmt.Errorf("//go:embed %s matches %s, which is not a regular file: not translated", pat, e.Name())
		}
		files = append(files, dir+"/"+e.Name())
	}
	sort.Strings(files)
	if len(files) == 0 {
		return nil, "", fmt.Errorf("//go:embed %s matches no file", pat)
	}
	return files, pat, nil
}

func (g *tl) checkCacheDecl(pkgDir string) error {
	vs, i, _ := g.valueSpecOf(tlCacheVar)
	if vs == nil {
		return fmt.Errorf("package variable %s not found", tlCacheVar)
	}
	if vs.Type != nil || i >= len(vs.Values) || len(vs.Names) != len(vs.Values) {
		return g.errf(vs, "%s: expected `%s = make(map[string]*%s)`", tlCacheVar, tlCacheVar, tlStructName)
	}
	if got, want := g.print(vs.Values[i]), "make(map[string]*"+tlStructName+")"; got != want {
		return g.errf(vs, "%s is initialised with %s, expected %s", tlCacheVar, got, want)
	}
	// every mention of the cache in the package's non-test files: the declaration, and inside LoadEmbeddedTileMatrixSet
	files, err := filepath.Glob(filepath.Join(pkgDir, "*.go"))
	if err != nil {
		return err
	}
	for _, f := range files {
		if strings.HasSuffix(f, "_test.go") {
			continue
		}
		fset := token.NewFileSet()
		af, err := parser.ParseFile(fset, f, nil, 0)
		if err != nil {
			return err
		}
		for _, d := range af.Decls {
			inLoader := false
			if fd, ok := d.(*ast.FuncDecl); ok && fd.Recv == nil && fd.Name.Name == "LoadEmbeddedTileMatrixSet" && filepath.Base(f) == "tms20.go" {
				inLoader = true
			}
			var bad error
			ast.Inspect(d, func(n ast.Node) bool {
				if vs, ok := n.(*ast.ValueSpec); ok && !inLoader {
					for _, nm := range vs.Names {
						if nm.Name == tlCacheVar {
							// the declaration itself: its values were checked above
							return false
						}
					}
				}
				if id, ok := n.(*ast.Ident); ok && id.Name == tlCacheVar && !inLoader && bad == nil {
					bad = fmt.Errorf("%s: %s is used outside LoadEmbeddedTileMatrixSet: the cache is no longer private to the loader", fset.Position(id.Pos()), tlCacheVar)
				}
				return true
			})
			if bad != nil {
				return bad
			}
		}
	}
	return nil
}

func (g *tl) checkUnmarshaler() error {
	for _, d := range g.file.Decls {
		fd, ok := d.(*ast.FuncDecl)
		if !ok || fd.Recv == nil || fd.Name.Name != "UnmarshalJSON" || len(fd.Recv.List) != 1 {
			continue
		}
		st, ok := fd.Recv.List[0].Type.(*ast.StarExpr)
		if !ok || !isIdent(st.X, tlStructName) {
			continue
		}
		if got := g.print(fd.Type); got != "func(data []byte) error" {
			return g.errf(fd, "(*%s).UnmarshalJSON has the signature %s, expected func(data []byte) error", tlStructName, got)
		}
		return nil
	}
	return fmt.Errorf("(*%s).UnmarshalJSON not found: json.Unmarshal would not dispatch to the regenerated decoder", tlStructName)
}

// referenceFields: the fields of a struct type that a shallow copy shares with the original (slices, maps, pointers,
// interfaces, channels, functions), with the fields of nested struct values by their path
func (g *tl) referenceFields(name, prefix string, depth int) ([]string, error) {
	if depth > 8 {
		return nil, fmt.Errorf("type %s: struct nesting too deep", name)
	}
	ts := g.typeSpec(name)
	if ts == nil {
		return nil, fmt.Errorf("type %s not found", name)
	}
	st, ok := ts.Type.(*ast.StructType)
	if !ok {
		return nil, g.errf(ts, "type %s is not a struct", name)
	}
	var out []string
	for _, f := range st.Fields.List {
		if len(f.Names) == 0 {
			return nil, g.errf(f, "type %s: embedded fields are not translated", name)
		}
		for _, n := range f.Names {
			ref, nested, err := g.isReference(f.Type)
			if err != nil {
				return nil, g.errf(f, "type %s, field %s: %v", name, n.Name, err)
			}
			if ref {
				out = append(out, prefix+n.Name)
			} else if nested != "" {
				sub, err := g.referenceFields(nested, prefix+n.Name+".", depth+1)
				if err != nil {
					return nil, err
				}
				out = append(out, sub...)
			}
		}
	}
	return out, nil
}

func (g *tl) typeSpec(name string) *ast.TypeSpec {
	for _, d := range g.file.Decls {
		gd, ok := d.(*ast.GenDecl)
		if !ok || gd.Tok != token.TYPE {
			continue
		}
		for _, sp := range gd.Specs {
			if ts := sp.(*ast.TypeSpec); ts.Name.Name == name {
				return ts
			}
		}
	}
	return nil
}

func (g *tl) isReference(t ast.Expr) (ref bool, nestedStruct string, err error) {
	switch x := t.(type) {
	case *ast.ArrayType:
		if x.Len == nil {
			return true, "", nil
		}
		return g.isReference(x.Elt)
	case *ast.MapType, *ast.StarExpr, *ast.InterfaceType, *ast.ChanType, *ast.FuncType:
		return true, "", nil
	case *ast.Ident:
		switch x.Name {
		case "string", "bool", "int", "int8", "int16", "int32", "int64", "uint", "uint8", "uint16", "uint32", "uint64",
			"float32", "float64", "byte", "rune":
			return false, "", nil
		case "error", "any":
			return true, "", nil
		}
		ts := g.typeSpec(x.Name)
		if ts == nil {
			return false, "", fmt.Errorf("unknown type %s", x.Name)
		}
		if _, ok := ts.Type.(*ast.StructType); ok {
			return false, x.Name, nil
		}
		return g.isReference(ts.Type)
	}
	return false, "", fmt.Errorf("type %s not classified", g.print(t))
}

func genTmsLoad(repo string) (string, error) {
	pkgDir := filepath.Join(repo, "tms20")
	src := filepath.Join(pkgDir, "tms20.go")
	g := &tl{fset: token.NewFileSet(), consts: map[string]string{}}
	f, err := parser.ParseFile(g.fset, src, nil, parser.ParseComments)
	if err != nil {
		return "", err
	}
	g.file = f
	imps := tlImports(f)
	for name, p := range map[string]string{"path": "path", "os": "os", "json": "encoding/json", "embed": "embed"} {
		if imps[name] != p {
			return "", fmt.Errorf("%s: the package name %s does not denote %q", src, name, p)
		}
	}
	// string constants of the package, by name
	for _, d := range f.Decls {
		gd, ok := d.(*ast.GenDecl)
		if !ok || gd.Tok != token.CONST {
			continue
		}
		for _, sp := range gd.Specs {
			vs := sp.(*ast.ValueSpec)
			for i, n := range vs.Names {
				if i < len(vs.Values) && vs.Type == nil {
					if bl, ok := vs.Values[i].(*ast.BasicLit); ok && bl.Kind == token.STRING {
						if s, err := strconv.Unquote(bl.Value); err == nil {
							g.consts[n.Name] = s
						}
					}
				}
			}
		}
	}
	if err := g.checkCacheDecl(pkgDir); err != nil {
		return "", err
	}
	if err := g.checkUnmarshaler(); err != nil {
		return "", err
	}
	files, pat, err := g.embedded(pkgDir)
	if err != nil {
		return "", err
	}
	refs, err := g.referenceFields(tlStructName, "", 0)
	if err != nil {
		return "", err
	}

	var fns strings.Builder
	usedConsts := map[string]bool{}
	for _, name := range []string{"LoadEmbeddedTileMatrixSet", "LoadJSONTileMatrixSet"} {
		var fd *ast.FuncDecl
		for _, d := range f.Decls {
			if x, ok := d.(*ast.FuncDecl); ok && x.Recv == nil && x.Name.Name == name && x.Body != nil {
				fd = x
			}
		}
		if fd == nil {
			return "", fmt.Errorf("func %s not found in %s", name, src)
		}
		code, err := g.genFunc(fd)
		if err != nil {
			return "", err
		}
		if name == "LoadEmbeddedTileMatrixSet" && (g.fsKind != "embed" || !g.usesCache) {
			return "", g.errf(fd, "%s is expected to read the embedded files through the cache", name)
		}
		if name == "LoadJSONTileMatrixSet" && (g.fsKind != "os" || g.usesCache) {
			return "", g.errf(fd, "%s is expected to read an operating system file and to leave the cache alone", name)
		}
		for c := range g.consts {
			if strings.Contains(code, "gen_"+c) {
				usedConsts[c] = true
			}
		}
		fns.WriteString(code)
	}

	var b strings.Builder
	b.WriteString("(* GENERATED by /verif/translator (tmsload.go) on every run from tms20/tms20.go and the listing of the directory its\n" +
		"   //go:embed pattern names -- do not edit.\n\n" +
		"   The two loaders of tile matrix sets, statement by statement, as functions of an abstract file system [fs] and of the\n" +
		"   STATE [st] (the package-level cache), with the vocabulary of Tms/GoLoad.v; the decoding itself is the regenerated\n" +
		"   gen_TileMatrixSet_UnmarshalJSON of gen/TmsJsonGen.v.\n\n" +
		"   MAPPED (trusted, each after checking the exact shape in the AST):\n" +
		"     FS.ReadFile(name) on the embed.FS / os.ReadFile(name) = read_file fs name  (a finite map from names to contents; an unknown name is an error)\n" +
		"     path.Join(a, b) = go_path_join2 a b  (path_join2 of Cli/Model.v: path.Clean included)\n" +
		"     json.Unmarshal(data, &x), x a " + tlStructName + " = json_unmarshal gen_" + tlStructName + "_UnmarshalJSON data x  (syntax check and text -> tree\n" +
		"       by encoding/json: trusted, the contents are already parsed trees; the method UnmarshalJSON(data []byte) error on a pointer to " + tlStructName + " is declared)\n" +
		"     " + tlCacheVar + " (declared = make(map[string]*" + tlStructName + "), mentioned only in LoadEmbeddedTileMatrixSet) = the state st:\n" +
		"       p, ok := m[k] = cache_get; m[k] = &x = cache_set (x is only returned afterwards); *p = deref\n" +
		"     return *p, nil / return x, nil after m[k] = &x: a SHALLOW copy, ld_shares = Some k (see Tms/GoLoad.v) *)\n")
	b.WriteString("From Coq Require Import ZArith String List Bool.\nFrom Texel Require Import Tms.Json Tms.Model Tms.GoJson Tms.GoLoad.\nFrom Texel.Gen Require Import TmsData TmsJsonGen.\nImport ListNotations.\nOpen Scope Z_scope.\n\n")

	var cs []string
	for c := range usedConsts {
		cs = append(cs, c)
	}
	sort.Strings(cs)
	for _, c := range cs {
		fmt.Fprintf(&b, "(* tms20/tms20.go: const %s *)\nDefinition gen_%s : string := %s%%string.\n\n", c, c, coqString(g.consts[c]))
	}
	b.WriteString(fns.String())

	// the embedded file system
	fmt.Fprintf(&b, "(* tms20/tms20.go: //go:embed %s on %s, evaluated on the directory: every file the pattern matches, by its name\n   inside the embed.FS, with the document of gen/TmsData.v *)\nDefinition gen_embedded_fs : fsys :=\n [", strings.ReplaceAll(strings.ReplaceAll(pat, "(*", "( *"), "*)", "* )"), tlFSVar)
	var ids []string
	for i, fl := range files {
		if path.Ext(fl) != ".json" {
			return "", fmt.Errorf("embedded file %s is not a *.json document (gen/TmsData.v regenerates the *.json documents only)", fl)
		}
		name := strings.TrimSuffix(path.Base(fl), ".json")
		if i > 0 {
			b.WriteString(";\n  ")
		}
		fmt.Fprintf(&b, "(%s%%string, Doc gen_doc_%s)", coqString(fl), coqIdent(name))
		// an id that reaches this file through path.Join(dirLit, id+ext)
		if ext, ok := g.consts["extJSON"]; ok && g.dirLit != "" && path.Dir(fl) == g.dirLit && strings.HasSuffix(path.Base(fl), ext) {
			ids = append(ids, strings.TrimSuffix(path.Base(fl), ext))
		}
	}
	b.WriteString("].\n\n")
	b.WriteString("(* the ids whose file exists: the embedded files with the directory and the extension of the loader taken off *)\nDefinition gen_embedded_ids : list string :=\n [")
	for i, id := range ids {
		if i > 0 {
			b.WriteString("; ")
		}
		b.WriteString(coqString(id) + "%string")
	}
	b.WriteString("].\n\n")

	fmt.Fprintf(&b, "(* tms20/tms20.go: the fields of %s of reference type (slice, map, pointer, interface): a struct copy shares them *)\nDefinition gen_%s_reference_fields : list string :=\n [", tlStructName, tlStructName)
	for i, r := range refs {
		if i > 0 {
			b.WriteString("; ")
		}
		b.WriteString(coqString(r) + "%string")
	}
	b.WriteString("].\n")
	return b.String(), nil
}
