package main

import (
	"fmt"
	"go/ast"
	"go/parser"
	"go/token"
	"go/types"
	"path/filepath"
	"strings"
)

// ---------------------------------------------------------------------------
// G2: dedupeInnersOuters (snap.go), mapslicehelp.CountVals and mapslicehelp.DeleteFromSliceByIndex
// -> gen/DedupeGen.v
//
// Same machinery as kmp.go (error monad, one Fixpoint on fuel per `for` loop over the variables it assigns,
// 3-clause for, continue, branches that assign as local continuations), plus
//   var x [][2]float64                         the nil slice
//   return a, b                                a pair (two results [][][2]float64)
//   if _, ok := M[k]; cond { } else { }        ok bound to the membership test, in scope of the if only
//   for i := range s { }                       range_loop over 0 .. len(s)-1 (s is not assigned in the body)
//   r = append(r, x) on [][][2]float64, make([]V, 0, n) = the empty slice (n is a capacity)
//   generic functions at ONE instantiation (checked at every call by the argument types):
//   CountVals[K=int, V=bool], DeleteFromSliceByIndex[V=[][2]float64, X=bool]
// and, as calls of the micro-models of Prelude/GoMap.v / the model, after checking the AST for the exact shape:
//   make(map[int]IsOuter)                                   -> the empty imap         (type IsOuter = bool is checked)
//   M[k] = v   /  _, ok := M[k]  /  len(M)   on such a map  -> imap_set / imap_has / imap_len
//   orderedmap.New[int, IsOuter](orderedmap.WithInitialData(orderedmap.Pair[int, IsOuter]{Key: k, Value: v}, ..))
//                                                           -> omap_set (.. (omap_set [] k v) ..)
//   X.Set(k, v) as a statement  /  X.Len()                  -> omap_set / omap_len
//   for p := X.Oldest(); p != nil; p = p.Next() { }         -> range_loop over the entries of X, p.Key = fst, p.Value = snd
//   int(math.Abs(float64(a) - float64(b))) on ints          -> Z.abs (a - b)   (exact below 2^53)
//   ringsAreEqual(a, b, c, d) with the signature checked    -> the MODEL's ringsAreEqual (Snap/Model.v)
// Maps are reference values in Go: a map variable may not be copied (`m2 := m1`), and `M[k] = v` / `X.Set` are only
// accepted on locals, never on parameters, so that value semantics in Coq is the same thing.
// ---------------------------------------------------------------------------

const (
	stIMap  = "imap"      // map[int]bool (builtin)
	stOMap  = "omap"      // *orderedmap.OrderedMap[int, bool]
	stOPair = "opair"     // *orderedmap.Pair[int, bool] while iterating
	stRPair = "ringspair" // the two results ([][][2]float64, [][][2]float64)
)

const dioOrderedmapPath = "github.com/wk8/go-ordered-map/v2"

func init() {
	sgCoq[stIMap] = "imap"
	sgCoq[stOMap] = "omap"
	sgCoq[stOPair] = "(Z * bool)%type"
	sgCoq[stRPair] = "(list (list pt) * list (list pt))%type"
	// the loop over i and the loop over j both advance by one up to lenAll
	sgFuel["dedupeInnersOuters"] = []string{"(S (Z.to_nat v_lenAll))", "(S (Z.to_nat v_lenAll))"}
}

// the generic helpers and the one instantiation each is translated at
var dioGenerics = map[string]struct {
	typeParams string
	inst       map[string]string
}{
	"CountVals":              {"K comparable;V comparable;", map[string]string{"K": stInt, "V": stBool}},
	"DeleteFromSliceByIndex": {"V any;X any;", map[string]string{"V": stPts, "X": stBool}},
}

func (g *sg) dioGeneric(name string) bool {
	_, ok := dioGenerics[name]
	return g.dio && ok
}

// dioBase: int, bool, IsOuter (= bool, checked) or a type parameter of the function being translated
func (g *sg) dioBase(x ast.Expr) string {
	id, ok := x.(*ast.Ident)
	if !ok {
		return ""
	}
	if t, ok := g.generic[id.Name]; ok {
		return t
	}
	switch id.Name {
	case "int":
		return stInt
	case "bool":
		return stBool
	case "IsOuter":
		if g.dioAlias {
			return stBool
		}
	}
	return ""
}

func (g *sg) dioType(x ast.Expr) (string, bool) {
	switch t := x.(type) {
	case *ast.Ident:
		if b := g.dioBase(t); b != "" {
			return b, true
		}
	case *ast.ArrayType:
		if t.Len == nil && g.dioBase(t.Elt) == stPts {
			return stRings, true
		}
	case *ast.MapType:
		if g.dioBase(t.Key) == stInt && g.dioBase(t.Value) == stBool {
			return stIMap, true
		}
	case *ast.StarExpr:
		if il, ok := t.X.(*ast.IndexListExpr); ok && types.ExprString(il.X) == "orderedmap.OrderedMap" && len(il.Indices) == 2 &&
			g.pkgs["orderedmap"] == dioOrderedmapPath && g.dioBase(il.Indices[0]) == stInt && g.dioBase(il.Indices[1]) == stBool {
			return stOMap, true
		}
	}
	return "", false
}

func (g *sg) dioIsMap(env *sgEnv, x ast.Expr) (string, string, bool) {
	id, ok := x.(*ast.Ident)
	if !ok {
		return "", "", false
	}
	t := env.vars[id.Name]
	return id.Name, t, t == stIMap || t == stOMap
}

func (g *sg) dioIsParam(name string) bool {
	for _, p := range g.cur.params {
		if p.name == name {
			return true
		}
	}
	return false
}

// dioExpr: p.Key / p.Value of the pair of an ordered-map iteration; == and != on booleans
func (g *sg) dioExpr(env *sgEnv, x ast.Expr, binds *[]string) (sgVal, bool, error) {
	switch x := x.(type) {
	case *ast.SelectorExpr:
		id, ok := x.X.(*ast.Ident)
		if !ok || env.vars[id.Name] != stOPair {
			return sgVal{}, false, nil
		}
		switch x.Sel.Name {
		case "Key":
			return sgVal{code: "(fst v_" + id.Name + ")", ty: stInt}, true, nil
		case "Value":
			return sgVal{code: "(snd v_" + id.Name + ")", ty: stBool}, true, nil
		}
		return sgVal{}, true, fmt.Errorf("unsupported field %s of an ordered-map pair", x.Sel.Name)
	case *ast.BinaryExpr:
		if x.Op != token.EQL && x.Op != token.NEQ {
			return sgVal{}, false, nil
		}
		var lb []string
		a, err := g.expr(env, x.X, &lb)
		if err != nil || a.ty != stBool {
			return sgVal{}, false, nil
		}
		b, err := g.expr(env, x.Y, &lb)
		if err != nil || b.ty != stBool {
			return sgVal{}, false, nil
		}
		*binds = append(*binds, lb...)
		code := "(Bool.eqb " + a.code + " " + b.code + ")"
		if x.Op == token.NEQ {
			code = "(negb " + code + ")"
		}
		return sgVal{code: code, ty: stBool}, true, nil
	}
	return sgVal{}, false, nil
}

func (g *sg) dioCall(env *sgEnv, x *ast.CallExpr, binds *[]string) (sgVal, bool, error) {
	fun := types.ExprString(x.Fun)
	shadowed := func(n string) bool { _, s := env.vars[n]; return s }
	fail := func(f string, a ...any) (sgVal, bool, error) { return sgVal{}, true, fmt.Errorf(f, a...) }
	switch fun {
	case "make":
		if shadowed("make") || x.Ellipsis != token.NoPos {
			return fail("unsupported make")
		}
		if len(x.Args) == 1 {
			if _, isMap := x.Args[0].(*ast.MapType); isMap {
				if t, ok := g.dioType(x.Args[0]); ok && t == stIMap {
					return sgVal{code: "(@nil (Z * bool))", ty: stIMap}, true, nil
				}
				return fail("make of the map type %s", types.ExprString(x.Args[0]))
			}
		}
		if len(x.Args) == 3 { // make([]V, 0, capacity): the empty slice
			t, err := g.goType(x.Args[0])
			if err != nil {
				return sgVal{}, true, err
			}
			if lit, ok := x.Args[1].(*ast.BasicLit); !ok || lit.Value != "0" || t != stRings {
				return fail("make(T, n, c) is only supported as make([][][2]float64, 0, c)")
			}
			var cb []string
			if c, err := g.expr(env, x.Args[2], &cb); err != nil || c.ty != stInt || len(cb) != 0 || !sgStaticallyNonNeg(x.Args[2]) {
				return fail("make: unsupported capacity")
			}
			return sgVal{code: "(@nil (list pt))", ty: stRings}, true, nil
		}
		return sgVal{}, false, nil
	case "len":
		if len(x.Args) == 1 && !shadowed("len") {
			if name, t, isMap := g.dioIsMap(env, x.Args[0]); isMap && t == stIMap {
				return sgVal{code: "(imap_len v_" + name + ")", ty: stInt}, true, nil
			}
		}
		return sgVal{}, false, nil
	case "int":
		// int(math.Abs(float64(a) - float64(b))): |a - b|, exact as long as a, b are below 2^53 (they are counts)
		bad := "int(..) is only supported as int(math.Abs(float64(a) - float64(b)))"
		if shadowed("int") || shadowed("float64") || shadowed("math") || g.pkgs["math"] != "math" || len(x.Args) != 1 {
			return fail(bad)
		}
		abs, ok := x.Args[0].(*ast.CallExpr)
		if !ok || types.ExprString(abs.Fun) != "math.Abs" || len(abs.Args) != 1 {
			return fail(bad)
		}
		sub, ok := abs.Args[0].(*ast.BinaryExpr)
		if !ok || sub.Op != token.SUB {
			return fail(bad)
		}
		var ops []string
		for _, o := range []ast.Expr{sub.X, sub.Y} {
			c, ok := o.(*ast.CallExpr)
			if !ok || types.ExprString(c.Fun) != "float64" || len(c.Args) != 1 {
				return fail(bad)
			}
			v, err := g.expr(env, c.Args[0], binds)
			if err != nil {
				return sgVal{}, true, err
			}
			if v.ty != stInt {
				return fail(bad)
			}
			ops = append(ops, v.code)
		}
		return sgVal{code: "(Z.abs (" + ops[0] + " - " + ops[1] + "))", ty: stInt}, true, nil
	case "orderedmap.New[int, IsOuter]", "orderedmap.New[int, bool]":
		if g.pkgs["orderedmap"] != dioOrderedmapPath || shadowed("orderedmap") || x.Ellipsis != token.NoPos {
			return fail("orderedmap is not %s", dioOrderedmapPath)
		}
		il := x.Fun.(*ast.IndexListExpr)
		if g.dioBase(il.Indices[0]) != stInt || g.dioBase(il.Indices[1]) != stBool {
			return fail("orderedmap.New: unsupported type arguments")
		}
		code := "(@nil (Z * bool))"
		if len(x.Args) > 1 {
			return fail("orderedmap.New: only no option or one WithInitialData option is supported")
		}
		if len(x.Args) == 1 {
			opt, ok := x.Args[0].(*ast.CallExpr)
			if !ok || types.ExprString(opt.Fun) != "orderedmap.WithInitialData" || opt.Ellipsis != token.NoPos {
				return fail("orderedmap.New: only the option orderedmap.WithInitialData(pairs..) is supported")
			}
			for _, pa := range opt.Args { // New calls AddPairs = Set of each pair in turn
				lit, ok := pa.(*ast.CompositeLit)
				if !ok || len(lit.Elts) != 2 {
					return fail("WithInitialData: the pair is not orderedmap.Pair[int, IsOuter]{Key: k, Value: v}")
				}
				pt, ok := lit.Type.(*ast.IndexListExpr)
				if !ok || types.ExprString(pt.X) != "orderedmap.Pair" || len(pt.Indices) != 2 ||
					g.dioBase(pt.Indices[0]) != stInt || g.dioBase(pt.Indices[1]) != stBool {
					return fail("WithInitialData: the pair is not orderedmap.Pair[int, IsOuter]{..}")
				}
				parts := map[string]string{}
				for _, e := range lit.Elts { // fields are evaluated in source order
					kv, ok := e.(*ast.KeyValueExpr)
					if !ok {
						return fail("WithInitialData: the pair must be written with field names")
					}
					f, ok := kv.Key.(*ast.Ident)
					if !ok || (f.Name != "Key" && f.Name != "Value") || parts[f.Name] != "" {
						return fail("WithInitialData: unsupported field of the pair")
					}
					v, err := g.expr(env, kv.Value, binds)
					if err != nil {
						return sgVal{}, true, err
					}
					if want := map[string]string{"Key": stInt, "Value": stBool}[f.Name]; v.ty != want {
						return fail("WithInitialData: field %s of type %s", f.Name, v.ty)
					}
					parts[f.Name] = v.code
				}
				code = "(omap_set " + code + " " + parts["Key"] + " " + parts["Value"] + ")"
			}
		}
		return sgVal{code: code, ty: stOMap}, true, nil
	case "mapslicehelp.CountVals", "mapslicehelp.DeleteFromSliceByIndex":
		name := strings.TrimPrefix(fun, "mapslicehelp.")
		sig, ok := g.sigs[name]
		if !g.imports["mapslicehelp"] || shadowed("mapslicehelp") || !ok || !g.emitted[name] || x.Ellipsis != token.NoPos {
			return fail("%s is not translated", fun)
		}
		as, err := g.args(env, x.Args, sig, binds)
		if err != nil {
			return sgVal{}, true, err
		}
		t := g.fresh("t")
		*binds = append(*binds, fmt.Sprintf("do %s <- gen_%s %s;", t, name, strings.Join(as, " ")))
		return sgVal{code: t, ty: sig.result}, true, nil
	case "ringsAreEqual":
		fd := g.funcs["ringsAreEqual"]
		want := "func(ringI, ringJ [][2]float64, iIsOuter, jIsOuter bool) bool"
		if shadowed("ringsAreEqual") || fd == nil || fd.Recv != nil || types.ExprString(fd.Type) != want || x.Ellipsis != token.NoPos {
			return fail("ringsAreEqual does not have the signature %s", want)
		}
		if len(x.Args) != 4 {
			return fail("ringsAreEqual: wrong number of arguments")
		}
		var as []string
		for i, a := range x.Args {
			v, err := g.expr(env, a, binds)
			if err != nil {
				return sgVal{}, true, err
			}
			if v, err = g.conv(v, []string{stPts, stPts, stBool, stBool}[i]); err != nil {
				return sgVal{}, true, fmt.Errorf("ringsAreEqual: argument %d: %v", i+1, err)
			}
			as = append(as, v.code)
		}
		t := g.fresh("t")
		*binds = append(*binds, fmt.Sprintf("do %s <- ringsAreEqual %s;", t, strings.Join(as, " ")))
		return sgVal{code: t, ty: stBool}, true, nil
	}
	// X.Len()
	if sel, ok := x.Fun.(*ast.SelectorExpr); ok && sel.Sel.Name == "Len" && len(x.Args) == 0 {
		if name, t, isMap := g.dioIsMap(env, sel.X); isMap && t == stOMap {
			return sgVal{code: "(omap_len v_" + name + ")", ty: stInt}, true, nil
		}
	}
	return sgVal{}, false, nil
}

// dioRange: a loop over the elements of a list value, with the variables the body assigns as state (range_loop)
func (g *sg) dioRange(env *sgEnv, val, elTy, list string, body []ast.Stmt, frozen []string, after lcont, ctx *sgCtx) (string, error) {
	asg := map[string]bool{}
	sgAssigned(body, asg)
	if asg["?"] || asg[val] {
		return "", fmt.Errorf("loop over a list: unsupported assignment target")
	}
	for _, f := range frozen {
		if asg[f] || asg["call:"+f] {
			return "", fmt.Errorf("the loop body changes %s, which the loop ranges over", f)
		}
	}
	if _, exists := env.vars[val]; exists || val == "_" {
		return "", fmt.Errorf("the loop variable %s shadows a variable", val)
	}
	var state, sty []string
	for _, v := range env.order {
		if asg[v] {
			state = append(state, "v_"+v)
			sty = append(sty, sgCoq[env.vars[v]])
		} else if asg["call:"+v] && env.vars[v] == stInts {
			return "", fmt.Errorf("loop over a list: call statements that write through %s are not supported", v)
		}
	}
	if len(state) == 0 {
		return "", fmt.Errorf("loop over a list that assigns nothing")
	}
	tuple, pattern := state[0], fmt.Sprintf("(%s : %s)", state[0], sty[0])
	if len(state) > 1 {
		tuple = "(" + strings.Join(state, ", ") + ")"
		pattern = fmt.Sprintf("'(%s : (%s)%%type)", tuple, strings.Join(sty, " * "))
	}
	bodyEnv := env.clone()
	bodyEnv.declare(val, elTy)
	bodyEnv.rangeVar = map[string]bool{val: true}
	inner := &sgCtx{
		ret:  func(v string) string { return "Ok (RRet " + v + ")" },
		brk:  func() (string, error) { return "Ok (Brk " + tuple + ")", nil },
		cont: func() (string, error) { return "Ok (Cont " + tuple + ")", nil },
	}
	k := lcont{gen: func() (string, error) { return "Ok (Cont " + tuple + ")", nil }, cheap: true}
	b, err := g.stmts(bodyEnv, body, k, inner)
	if err != nil {
		return "", err
	}
	rest, err := after.gen()
	if err != nil {
		return "", err
	}
	out, r := g.fresh("out"), g.fresh("r")
	return fmt.Sprintf("do %s <- range_loop (R := %s) (fun (v_%s : %s) %s =>\n    %s) %s %s;\n  match %s with\n  | Ret %s => %s\n  | Next %s => %s\n  end",
		out, sgCoq[g.cur.retTy], val, sgCoq[elTy], pattern, b, list, tuple, out, r, ctx.ret(r), tuple, rest), nil
}

func (g *sg) dioStmt(env *sgEnv, s ast.Stmt, rest []ast.Stmt, k lcont, ctx *sgCtx, after func(*sgEnv) lcont) (string, bool, error) {
	fail := func(f string, a ...any) (string, bool, error) { return "", true, fmt.Errorf(f, a...) }
	cont := func(env2 *sgEnv, lines []string) (string, bool, error) {
		body, err := g.stmts(env2, rest, k, ctx)
		if err != nil {
			return "", true, err
		}
		return sgJoin(lines, body), true, nil
	}
	switch s := s.(type) {
	case *ast.ReturnStmt:
		if len(s.Results) != 2 || g.cur.result != stRPair {
			return "", false, nil
		}
		var binds, parts []string
		for _, r := range s.Results {
			v, err := g.expr(env, r, &binds)
			if err != nil {
				return "", true, err
			}
			if v, err = g.conv(v, stRings); err != nil {
				return fail("return: %v", err)
			}
			parts = append(parts, v.code)
		}
		return sgJoin(binds, ctx.ret("("+parts[0]+", "+parts[1]+")")), true, nil
	case *ast.DeclStmt: // var x [][2]float64: the nil slice
		gd, ok := s.Decl.(*ast.GenDecl)
		if !ok || gd.Tok != token.VAR || len(gd.Specs) != 1 {
			return "", false, nil
		}
		vs := gd.Specs[0].(*ast.ValueSpec)
		if vs.Type == nil || len(vs.Values) != 0 {
			return "", false, nil
		}
		if t, err := g.goType(vs.Type); err != nil || t != stPts {
			return "", false, nil
		}
		env2 := env.clone()
		var lines []string
		for _, n := range vs.Names {
			if _, exists := env2.vars[n.Name]; exists || n.Name == "_" {
				return fail("var %s redeclares a variable", n.Name)
			}
			env2.declare(n.Name, stPts)
			lines = append(lines, fmt.Sprintf("let v_%s := (@nil pt) in", n.Name))
		}
		return cont(env2, lines)
	case *ast.IfStmt: // if _, ok := M[k]; cond { .. } else { .. }
		if s.Init == nil {
			return "", false, nil
		}
		as, ok := s.Init.(*ast.AssignStmt)
		if !ok || as.Tok != token.DEFINE || len(as.Lhs) != 2 || len(as.Rhs) != 1 {
			return fail("unsupported if with init")
		}
		blank, ok1 := as.Lhs[0].(*ast.Ident)
		okv, ok2 := as.Lhs[1].(*ast.Ident)
		ix, ok3 := as.Rhs[0].(*ast.IndexExpr)
		if !ok1 || !ok2 || !ok3 || blank.Name != "_" || okv.Name == "_" {
			return fail("if with init is only supported as `if _, ok := M[k]; ..`")
		}
		name, t, isMap := g.dioIsMap(env, ix.X)
		if !isMap || t != stIMap {
			return fail("`_, ok := M[k]`: M is not a map[int]bool")
		}
		if _, exists := env.vars[okv.Name]; exists {
			return fail(":= of the existing variable %s is not supported", okv.Name)
		}
		var binds []string
		kv, err := g.expr(env, ix.Index, &binds)
		if err != nil {
			return "", true, err
		}
		if kv.ty != stInt {
			return fail("map key of type %s", kv.ty)
		}
		eb, err := lgElse(s)
		if err != nil {
			return "", true, err
		}
		env2 := env.clone()
		env2.declare(okv.Name, stBool)
		out, err := g.branch(env2, []ast.Expr{s.Cond}, [][]ast.Stmt{s.Body.List}, eb, after(env), ctx)
		if err != nil {
			return "", true, err
		}
		binds = append(binds, fmt.Sprintf("let v_%s := (imap_has v_%s %s) in", okv.Name, name, kv.code))
		return sgJoin(binds, out), true, nil
	case *ast.ForStmt: // for p := X.Oldest(); p != nil; p = p.Next() { .. }
		if s.Init == nil {
			return "", false, nil
		}
		as, ok := s.Init.(*ast.AssignStmt)
		if !ok || as.Tok != token.DEFINE || len(as.Lhs) != 1 || len(as.Rhs) != 1 {
			return "", false, nil
		}
		c, ok := as.Rhs[0].(*ast.CallExpr)
		if !ok {
			return "", false, nil
		}
		sel, ok := c.Fun.(*ast.SelectorExpr)
		if !ok || sel.Sel.Name != "Oldest" {
			return "", false, nil
		}
		name, t, isMap := g.dioIsMap(env, sel.X)
		p, okp := as.Lhs[0].(*ast.Ident)
		if !isMap || t != stOMap || len(c.Args) != 0 || !okp || s.Cond == nil || s.Post == nil {
			return fail("unsupported iteration from Oldest()")
		}
		if types.ExprString(s.Cond) != p.Name+" != nil" {
			return fail("iteration from Oldest(): the condition is not %s != nil", p.Name)
		}
		if _, shadow := env.vars["nil"]; shadow {
			return fail("nil is shadowed")
		}
		post, ok := s.Post.(*ast.AssignStmt)
		if !ok || post.Tok != token.ASSIGN || len(post.Lhs) != 1 || len(post.Rhs) != 1 ||
			types.ExprString(post.Lhs[0]) != p.Name || types.ExprString(post.Rhs[0]) != p.Name+".Next()" {
			return fail("iteration from Oldest(): the post statement is not %s = %s.Next()", p.Name, p.Name)
		}
		out, err := g.dioRange(env, p.Name, stOPair, "v_"+name, s.Body.List, []string{name}, after(env), ctx)
		return out, true, err
	case *ast.RangeStmt: // for i := range s { .. }
		if s.Value != nil || s.Key == nil || s.Tok != token.DEFINE {
			return "", false, nil
		}
		key, ok := s.Key.(*ast.Ident)
		x, ok2 := s.X.(*ast.Ident)
		if !ok || !ok2 {
			return fail("unsupported range loop")
		}
		if _, isSlice := sgElem(env.vars[x.Name]); !isSlice {
			return fail("range over %s", env.vars[x.Name])
		}
		list := "(map Z.of_nat (seq 0 (length v_" + x.Name + ")))"
		out, err := g.dioRange(env, key.Name, stInt, list, s.Body.List, []string{x.Name}, after(env), ctx)
		return out, true, err
	case *ast.ExprStmt: // X.Set(k, v)
		c, ok := s.X.(*ast.CallExpr)
		if !ok {
			return "", false, nil
		}
		sel, ok := c.Fun.(*ast.SelectorExpr)
		if !ok || sel.Sel.Name != "Set" {
			return "", false, nil
		}
		name, t, isMap := g.dioIsMap(env, sel.X)
		if !isMap || t != stOMap {
			return "", false, nil
		}
		if len(c.Args) != 2 || c.Ellipsis != token.NoPos || g.dioIsParam(name) {
			return fail("unsupported Set (on a parameter, or not two arguments)")
		}
		var lines []string
		kv, err := g.expr(env, c.Args[0], &lines)
		if err != nil {
			return "", true, err
		}
		vv, err := g.expr(env, c.Args[1], &lines)
		if err != nil {
			return "", true, err
		}
		if kv.ty != stInt || vv.ty != stBool {
			return fail("Set(%s, %s)", kv.ty, vv.ty)
		}
		lines = append(lines, fmt.Sprintf("let v_%s := (omap_set v_%s %s %s) in", name, name, kv.code, vv.code))
		return cont(env, lines)
	case *ast.AssignStmt:
		for _, r := range s.Rhs { // a map is a reference: copying the variable would alias it
			if _, _, isMap := g.dioIsMap(env, r); isMap {
				return fail("copying the map variable %s is not supported (aliasing)", types.ExprString(r))
			}
		}
		if len(s.Lhs) != 1 || len(s.Rhs) != 1 || s.Tok != token.ASSIGN {
			return "", false, nil
		}
		// M[k] = v
		if ix, ok := s.Lhs[0].(*ast.IndexExpr); ok {
			name, t, isMap := g.dioIsMap(env, ix.X)
			if !isMap {
				return "", false, nil
			}
			if t != stIMap || g.dioIsParam(name) {
				return fail("unsupported assignment to an element of %s", name)
			}
			var lines []string
			kv, err := g.expr(env, ix.Index, &lines) // Go: index operands first, then the right-hand side
			if err != nil {
				return "", true, err
			}
			vv, err := g.expr(env, s.Rhs[0], &lines)
			if err != nil {
				return "", true, err
			}
			if kv.ty != stInt || vv.ty != stBool {
				return fail("map[int]bool assignment with %s, %s", kv.ty, vv.ty)
			}
			lines = append(lines, fmt.Sprintf("let v_%s := (imap_set v_%s %s %s) in", name, name, kv.code, vv.code))
			return cont(env, lines)
		}
		// r = append(r, x) on [][][2]float64
		if c, ok := s.Rhs[0].(*ast.CallExpr); ok && types.ExprString(c.Fun) == "append" {
			t, ok := s.Lhs[0].(*ast.Ident)
			if !ok || env.vars[t.Name] != stRings {
				return "", false, nil
			}
			if _, shadow := env.vars["append"]; shadow || len(c.Args) != 2 || c.Ellipsis != token.NoPos || types.ExprString(c.Args[0]) != t.Name {
				return fail("append is only supported as v = append(v, x)")
			}
			var lines []string
			v, err := g.expr(env, c.Args[1], &lines)
			if err != nil {
				return "", true, err
			}
			if v, err = g.conv(v, stPts); err != nil {
				return fail("append: %v", err)
			}
			lines = append(lines, fmt.Sprintf("let v_%s := (v_%s ++ [%s]) in", t.Name, t.Name, v.code))
			env2 := env.clone()
			env2.made[t.Name] = false
			return cont(env2, lines)
		}
	}
	return "", false, nil
}

// dioResults: the result list ([][][2]float64, [][][2]float64)
func (g *sg) dioResults(fd *ast.FuncDecl, sig *sgSig) bool {
	if !g.dio || fd.Type.Results == nil || len(fd.Type.Results.List) != 2 {
		return false
	}
	for _, f := range fd.Type.Results.List {
		if len(f.Names) != 0 || types.ExprString(f.Type) != "[][][2]float64" {
			return false
		}
	}
	sig.result, sig.retTy = stRPair, stRPair
	return true
}

func genDedupe(repo string) (string, error) {
	g, err := sgLoad(repo)
	if err != nil {
		return "", err
	}
	g.dio = true
	// type IsOuter = bool
	sf, err := parser.ParseFile(g.fset, filepath.Join(repo, "snap/snap.go"), nil, 0)
	if err != nil {
		return "", err
	}
	for _, d := range sf.Decls {
		if gd, ok := d.(*ast.GenDecl); ok && gd.Tok == token.TYPE {
			for _, sp := range gd.Specs {
				ts := sp.(*ast.TypeSpec)
				switch ts.Name.Name {
				case "IsOuter":
					g.dioAlias = ts.Assign != token.NoPos && ts.TypeParams == nil && types.ExprString(ts.Type) == "bool"
				case "int", "bool", "float64":
					return "", fmt.Errorf("package snap declares its own %s", ts.Name.Name)
				}
			}
		}
	}
	if !g.dioAlias {
		return "", fmt.Errorf("`type IsOuter = bool` was not found in snap.go")
	}
	for _, name := range []string{"int", "bool", "float64"} {
		if _, ok := g.funcs[name]; ok {
			return "", fmt.Errorf("package snap declares its own %s", name)
		}
	}
	// the two generic helpers of mapslicehelp
	mf, err := parser.ParseFile(g.fset, filepath.Join(repo, "mapslicehelp/mapslicehelp.go"), nil, 0)
	if err != nil {
		return "", err
	}
	for _, im := range mf.Imports {
		path := strings.Trim(im.Path.Value, `"`)
		name := path[strings.LastIndex(path, "/")+1:]
		if im.Name != nil {
			name = im.Name.Name
		}
		if name == "orderedmap" && g.pkgs[name] != path {
			return "", fmt.Errorf("import orderedmap differs between snap.go and mapslicehelp.go")
		}
	}
	for _, d := range mf.Decls {
		fd, ok := d.(*ast.FuncDecl)
		if !ok || fd.Recv != nil {
			continue
		}
		if _, isType := map[string]bool{"int": true, "bool": true}[fd.Name.Name]; isType {
			return "", fmt.Errorf("package mapslicehelp declares its own %s", fd.Name.Name)
		}
		want, ok := dioGenerics[fd.Name.Name]
		if !ok {
			continue
		}
		if _, clash := g.funcs[fd.Name.Name]; clash {
			return "", fmt.Errorf("package snap declares its own %s", fd.Name.Name)
		}
		got := ""
		if fd.Type.TypeParams != nil {
			for _, f := range fd.Type.TypeParams.List {
				for _, n := range f.Names {
					got += n.Name + " " + types.ExprString(f.Type) + ";"
				}
			}
		}
		if got != want.typeParams {
			return "", fmt.Errorf("%s: type parameters %s", fd.Name.Name, got)
		}
		g.funcs[fd.Name.Name] = fd
	}
	g.out.WriteString("(* GENERATED by /verif/translator (G2, loops in the error monad) from snap/snap.go and mapslicehelp/mapslicehelp.go on every run -- do not edit.\n")
	g.out.WriteString("   Library calls kept as calls of a micro-model after the AST was checked for the exact shape (trusted base):\n")
	g.out.WriteString("     make(map[int]IsOuter), M[k] = v, _, ok := M[k], len(M)  -> [] / imap_set / imap_has / imap_len   (Prelude/GoMap.v; type IsOuter = bool checked)\n")
	g.out.WriteString("     orderedmap.New[int, IsOuter](orderedmap.WithInitialData(Pair{Key: k, Value: v})), X.Set(k, v), X.Len()  -> omap_set [] k v / omap_set / omap_len   (go-ordered-map v2)\n")
	g.out.WriteString("     for p := X.Oldest(); p != nil; p = p.Next()  -> range_loop over the entries of X in order, p.Key = fst p, p.Value = snd p\n")
	g.out.WriteString("     int(math.Abs(float64(a) - float64(b)))  -> Z.abs (a - b)\n")
	g.out.WriteString("     ringsAreEqual(a, b, c, d)  -> the model's ringsAreEqual (Snap/Model.v), signature checked\n")
	g.out.WriteString("   CountVals is translated at K = int, V = bool; DeleteFromSliceByIndex at V = [][2]float64, X = bool. *)\n")
	g.out.WriteString("From Coq Require Import ZArith List Bool.\nFrom Texel Require Import Prelude.Base Prelude.GoLoop Prelude.GoMap Index.Model Snap.Model.\nImport ListNotations.\nOpen Scope Z_scope.\n\n")
	for _, name := range []string{"CountVals", "DeleteFromSliceByIndex"} {
		if _, ok := g.funcs[name]; !ok {
			return "", fmt.Errorf("mapslicehelp.%s not found", name)
		}
		g.generic = dioGenerics[name].inst
		if err := g.function(name); err != nil {
			return "", err
		}
	}
	g.generic = map[string]string{}
	if err := g.function("dedupeInnersOuters"); err != nil {
		return "", err
	}
	return g.out.String(), nil
}
