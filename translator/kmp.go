package main

import (
	"fmt"
	"go/ast"
	"go/parser"
	"go/token"
	"go/types"
	"path/filepath"
	"strings"
)

// ---------------------------------------------------------------------------
// G2 (loops in the error monad): kmpTable, kmpSearch, kmpSearchAll of snap.go
// -> gen/KmpGen.v
//
// Every function is translated into the error monad `res` of Prelude/Base.v:
//   a[i]            do t <- idx a i            (Err IndexOutOfRange as in Go's panic)
//   a[i] = v        do a <- setidx a i v
//   a[lo:]          do t <- slice a lo (zlen a)   (Err SliceBounds)
//   f(args)         do t <- gen_f args
// A `for cond { }` / `for { }` loop becomes a top-level Fixpoint on explicit
// fuel over exactly the variables the loop assigns (the other variables in
// scope are parameters); it returns `Next state` on exit/break and `Ret v` when
// the body returns from the function.  The fuel of each loop is configuration
// (sgFuel, below), equal to the fuel of the hand-written model so that the two
// are equal on ALL inputs, [Err OutOfFuel] included.
// `int` is translated to exact Z (indices and lengths of slices, far below
// 2^63); `[2]float64` values are the model's points `pt`, `==` on them is
// `pt_eqb` (DESIGN 4.2: floats stay outside the theorems).
// A function without result that writes through a slice parameter returns the
// final contents of that slice; its callers must pass a local created by make.
// Anything else is an error = a generated file that does not compile.
// ---------------------------------------------------------------------------

// fuel per function and loop (in order of appearance), over the variables in scope at the loop
var sgFuel = map[string][]string{
	"kmpTable":     {"(2 * length v_find + 2)%nat"},
	"kmpSearch":    {"((length v_corpus + 2) * (length v_find + 2))%nat"},
	"kmpSearchAll": {"(length v_corpus + 2)%nat"},
	// kmpDeduplicate: the scan over the ring (the model's fuel + 1: the model reports a negative restart index one
	// iteration before the Go code indexes with it), the reverse scan, the corpus expansion
	"kmpDeduplicate": {"(S (kmpFuel v_ring))", "(length v_visitedPoints)", "(length v_ring + 2)%nat"},
	// cleanupNewRing: the loop that drops the closing vertices left by spike removal shortens the ring every time
	"cleanupNewRing": {"(S (length v_newRing))"},
}

const (
	stInt    = "int"
	stBool   = "bool"
	stPt     = "pt"     // [2]float64
	stPts    = "pts"    // [][2]float64
	stInts   = "ints"   // []int
	stRings  = "rings"  // [][][2]float64
	stPtPtr  = "ptptr"  // *[2]float64: nil or a point
	stNil    = "nil"    // the untyped nil
	stOpaque = "opaque" // a parameter that is only handed on to a panic helper
	stIPair  = "ipair"  // [2]int
	stSeqmap = "seqmap" // *sortedmap.SortedMap[string, [2]int]: the micro-model of Snap/Model.v
	stEntry  = "entry"  // a key of that map, read together with its value
	stView   = "view"   // the result of X.Map(), only usable as mmap[key]
	stSets   = "sets"   // the three results (outerRings, innerRings, pointsAndLines [][][2]float64) = ringSets
	stCMap   = "cmap"   // map[int][][2]float64 read through its sorted keys: the entries in increasing key order
	stCKeys  = "ckeys"  // maps.Keys of such a map (usable for ranging once sort.Ints has been applied)
	stCEntry = "centry" // a key of such a map, read together with its value
)

var sgCoq = map[string]string{stInt: "Z", stBool: "bool", stPt: "pt", stPts: "(list pt)", stInts: "(list Z)",
	stRings: "(list (list pt))", stPtPtr: "(option pt)", stIPair: "(Z * Z)%type", stSeqmap: "seqmap",
	stEntry: "(list pt * (Z * Z))%type", stSets: "ringSets", stCMap: "complete", stCEntry: "(Z * list pt)%type"}

// helpers of snap.go whose whole body is a panic: the error value of the model
var sgPanics = map[string]string{"panicNoPointsFoundForVertices": "NoPointsFound"}

// functions that are MODELLED, not translated (float predicates of go-spatial/geom, a generic helper)
type sgExternal struct {
	params []string
	result string
	coq    string
}

var sgExternals = map[string]sgExternal{
	"windingOrderIsCorrect":     {[]string{stPts, stBool}, stBool, "windingOrderIsCorrect"}, // Snap/Model.v (winding.Order of the geom library)
	"mapslicehelp.ReverseClone": {[]string{stPts}, stPts, "@rev pt"},                        // a reversed copy
}

type sgVal struct {
	code string
	ty   string
	lit  bool // untyped integer constant
}

type sgEnv struct {
	order    []string
	vars     map[string]string
	made     map[string]bool   // locals created by make and not aliased since
	deref    map[string]string // pointer variables known to be non-nil here -> the name of the value they point to
	mapOf    map[string]string // mmap := X.Map()  ->  X
	keyOf    map[string]string // for _, key := range X.Keys()  ->  X
	rangeVar map[string]bool   // the variable of the innermost enclosing range loop
}

func (e *sgEnv) clone() *sgEnv {
	c := &sgEnv{order: append([]string{}, e.order...), vars: map[string]string{}, made: map[string]bool{}, deref: map[string]string{}}
	for k, v := range e.vars {
		c.vars[k] = v
	}
	for k, v := range e.deref {
		c.deref[k] = v
	}
	c.mapOf, c.keyOf, c.rangeVar = map[string]string{}, map[string]string{}, e.rangeVar
	for k, v := range e.mapOf {
		c.mapOf[k] = v
	}
	for k, v := range e.keyOf {
		c.keyOf[k] = v
	}
	for k, v := range e.made {
		c.made[k] = v
	}
	return c
}

func (e *sgEnv) declare(n, ty string) {
	if _, ok := e.vars[n]; !ok {
		e.order = append(e.order, n)
	}
	e.vars[n] = ty
}

type sgSig struct {
	name       string
	params     []lfield
	result     string // "" = no result
	mutated    int    // index of the slice parameter written through, -1 if none
	retTy      string
	resultName string
	results    []lfield // ring helpers: the named results that are used as variables
}

type sgCtx struct {
	ret      func(string) string    // the monadic value of `return v`
	brk      func() (string, error) // the monadic value of `break`, nil outside loops
	cont     func() (string, error) // the monadic value of `continue`
	inSwitch bool
}

type sg struct {
	fset          *token.FileSet
	funcs         map[string]*ast.FuncDecl
	sigs          map[string]*sgSig
	emitted       map[string]bool
	imports       map[string]bool // package names imported by snap.go that externals may refer to
	useExternals  bool
	panicsChecked map[string]bool
	xAxIsZero     bool
	generic       map[string]string // type parameters of the function being translated -> the type they stand for
	pkgs          map[string]string // import name -> path (slices, fmt, sortedmap, mapslicehelp)
	dedup         bool              // the constructs of kmpDeduplicate / RemoveSequences are enabled
	cleanup       bool              // cleanupNewRing: splitRing as the model's, (hitMultiple, ringIdx) as isMulti
	multiParams   [2]string         // the names of the two parameters that together are isMulti
	splitTail     bool              // the classification part of splitRing
	sortedKeys    map[string]bool   // key slices on which sort.Ints has been called
	rh            bool              // the constructs of the ring helpers (ringhelpers.go, hooks rh*) are enabled
	rhConfigOK    bool              // snap.Config has been checked against the model's record
	rhExtSigs     map[string]string // the signatures of package geomhelp
	dio, dioAlias bool              // dedupeInnersOuters (dedupe.go): maps, ordered maps, two results; type IsOuter = bool seen
	splitWalk     bool              // the first part of splitRing (splitwalk.go)
	walkN         int               // range-loop bodies emitted as definitions (splitwalk.go)
	cur           *sgSig
	n             int
	loopN         int
	pre           []string
	out           strings.Builder
}

func (g *sg) fresh(p string) string {
	g.n++
	return fmt.Sprintf("%s_%d", p, g.n)
}

func (g *sg) goType(x ast.Expr) (string, error) {
	if g.rh {
		if t, ok := g.rhType(x); ok {
			return t, nil
		}
	}
	if g.dio {
		if t, ok := g.dioType(x); ok {
			return t, nil
		}
	}
	switch types.ExprString(x) {
	case "int":
		return stInt, nil
	case "bool":
		return stBool, nil
	case "[2]float64":
		return stPt, nil
	case "[][2]float64":
		return stPts, nil
	case "[]int":
		return stInts, nil
	case "[][][2]float64":
		return stRings, nil
	case "*[2]float64":
		return stPtPtr, nil
	case "[2]int":
		return stIPair, nil
	case "*sortedmap.SortedMap[K, [2]int]", "*sortedmap.SortedMap[string, [2]int]":
		if g.dedup && g.pkgs["sortedmap"] == "github.com/tobshub/go-sortedmap" {
			return stSeqmap, nil
		}
	}
	if ar, ok := x.(*ast.ArrayType); ok && ar.Len == nil {
		if id, ok := ar.Elt.(*ast.Ident); ok && g.generic[id.Name] == stPt {
			return stPts, nil
		}
	}
	return "", fmt.Errorf("unsupported type %s", types.ExprString(x))
}

func sgElem(ty string) (string, bool) {
	switch ty {
	case stPts:
		return stPt, true
	case stInts:
		return stInt, true
	case stRings:
		return stPts, true
	case stPolys:
		return stRings, true
	}
	return "", false
}

func (g *sg) conv(v sgVal, ty string) (sgVal, error) {
	if v.ty == ty {
		return sgVal{code: v.code, ty: ty}, nil
	}
	if v.ty == stNil {
		switch ty {
		case stPts, stInts, stRings: // a nil slice is an empty slice for len, range, append and ==nil is not used
			return sgVal{code: "[]", ty: ty}, nil
		case stPtPtr:
			return sgVal{code: "None", ty: ty}, nil
		}
	}
	return sgVal{}, fmt.Errorf("type mismatch: %s used as %s", v.ty, ty)
}

// expr translates an expression; the reads that can fail are appended to binds, in evaluation order.
func (g *sg) expr(env *sgEnv, x ast.Expr, binds *[]string) (sgVal, error) {
	if g.dio {
		if v, handled, err := g.dioExpr(env, x, binds); handled {
			return v, err
		}
	}
	switch x := x.(type) {
	case *ast.ParenExpr:
		return g.expr(env, x.X, binds)
	case *ast.BasicLit:
		if x.Kind != token.INT {
			return sgVal{}, fmt.Errorf("unsupported literal %s", x.Value)
		}
		z, err := parseIntLit(x.Value)
		if err != nil {
			return sgVal{}, err
		}
		return sgVal{code: lgLit(z), ty: stInt, lit: true}, nil
	case *ast.Ident:
		switch x.Name {
		case "true", "false":
			return sgVal{code: x.Name, ty: stBool}, nil
		}
		if t, ok := env.vars[x.Name]; ok {
			if t == stOpaque {
				return sgVal{}, fmt.Errorf("the parameter %s may only be passed to a panic helper", x.Name)
			}
			if t == stView || t == stCMap || t == stCKeys || t == stWMap || t == stWPair || t == stMultiSet {
				return sgVal{}, fmt.Errorf("%s may only be indexed / ranged over", x.Name)
			}
			return sgVal{code: "v_" + x.Name, ty: t}, nil
		}
		if x.Name == "nil" {
			return sgVal{code: "nil", ty: stNil}, nil
		}
		return sgVal{}, fmt.Errorf("unknown identifier %s", x.Name)
	case *ast.UnaryExpr:
		v, err := g.expr(env, x.X, binds)
		if err != nil {
			return sgVal{}, err
		}
		switch {
		case x.Op == token.NOT && v.ty == stBool:
			return sgVal{code: "(negb " + v.code + ")", ty: stBool}, nil
		case x.Op == token.SUB && v.ty == stInt:
			if v.lit && !strings.HasPrefix(v.code, "(") {
				return sgVal{code: "(-" + v.code + ")", ty: stInt, lit: true}, nil
			}
			return sgVal{code: "(- " + v.code + ")", ty: stInt}, nil
		case x.Op == token.AND && g.rh && v.ty == stPt: // &s[i], only read through: the element
			if _, ok := x.X.(*ast.IndexExpr); ok {
				return sgVal{code: "(Some " + v.code + ")", ty: stPtPtr}, nil
			}
		}
		return sgVal{}, fmt.Errorf("unsupported unary %s on %s", x.Op, v.ty)
	case *ast.StarExpr:
		if id, ok := x.X.(*ast.Ident); ok && env.vars[id.Name] == stPtPtr {
			if n, ok := env.deref[id.Name]; ok {
				return sgVal{code: n, ty: stPt}, nil
			}
			return sgVal{}, fmt.Errorf("*%s is not guarded by %s != nil", id.Name, id.Name)
		}
		return sgVal{}, fmt.Errorf("unsupported dereference")
	case *ast.BinaryExpr:
		// p != nil / p == nil
		if x.Op == token.NEQ || x.Op == token.EQL {
			if id, ok := x.X.(*ast.Ident); ok && env.vars[id.Name] == stPtPtr {
				if n, ok := x.Y.(*ast.Ident); ok && n.Name == "nil" {
					if _, shadow := env.vars["nil"]; !shadow {
						some, none := "true", "false"
						if x.Op == token.EQL {
							some, none = "false", "true"
						}
						return sgVal{code: fmt.Sprintf("(match v_%s with Some _ => %s | None => %s end)", id.Name, some, none), ty: stBool}, nil
					}
				}
			}
		}
		if x.Op == token.LAND || x.Op == token.LOR {
			return g.shortCircuit(env, x, binds)
		}
		if g.rh {
			if v, handled, err := g.rhBinary(env, x, binds); handled {
				return v, err
			}
		}
		a, err := g.expr(env, x.X, binds)
		if err != nil {
			return sgVal{}, err
		}
		b, err := g.expr(env, x.Y, binds)
		if err != nil {
			return sgVal{}, err
		}
		if a.ty != b.ty {
			return sgVal{}, fmt.Errorf("mismatched operand types %s %s %s", a.ty, x.Op, b.ty)
		}
		in := func(op string, ty string) (sgVal, error) {
			return sgVal{code: "(" + a.code + " " + op + " " + b.code + ")", ty: ty}, nil
		}
		switch {
		case a.ty == stInt:
			switch x.Op {
			case token.ADD:
				return in("+", stInt)
			case token.SUB:
				return in("-", stInt)
			case token.MUL:
				return in("*", stInt)
			case token.EQL:
				return in("=?", stBool)
			case token.NEQ:
				return sgVal{code: "(negb (" + a.code + " =? " + b.code + "))", ty: stBool}, nil
			case token.LSS:
				return in("<?", stBool)
			case token.LEQ:
				return in("<=?", stBool)
			case token.GTR:
				return sgVal{code: "(" + b.code + " <? " + a.code + ")", ty: stBool}, nil
			case token.GEQ:
				return sgVal{code: "(" + b.code + " <=? " + a.code + ")", ty: stBool}, nil
			}
		case a.ty == stPt && x.Op == token.EQL:
			return sgVal{code: "(pt_eqb " + a.code + " " + b.code + ")", ty: stBool}, nil
		case a.ty == stPt && x.Op == token.NEQ:
			return sgVal{code: "(negb (pt_eqb " + a.code + " " + b.code + "))", ty: stBool}, nil
		}
		return sgVal{}, fmt.Errorf("unsupported operator %s on %s", x.Op, a.ty)
	case *ast.IndexExpr:
		if id, ok := x.X.(*ast.Ident); ok && env.vars[id.Name] == stView {
			// mmap[key] with mmap := X.Map() and key ranging over X.Keys(): the value stored under that key
			k, ok := x.Index.(*ast.Ident)
			if !ok || env.vars[k.Name] != stEntry || env.keyOf[k.Name] != env.mapOf[id.Name] || env.mapOf[id.Name] == "" {
				return sgVal{}, fmt.Errorf("%s[..] is only supported with a key ranging over the Keys() of the same sorted map", id.Name)
			}
			return sgVal{code: "(snd v_" + k.Name + ")", ty: stIPair}, nil
		}
		if id, ok := x.X.(*ast.Ident); ok && env.vars[id.Name] == stCMap {
			k, ok := x.Index.(*ast.Ident)
			if !ok || env.vars[k.Name] != stCEntry || env.keyOf[k.Name] != id.Name {
				return sgVal{}, fmt.Errorf("%s[..] is only supported with a key ranging over its sorted keys", id.Name)
			}
			return sgVal{code: "(snd v_" + k.Name + ")", ty: stPts}, nil
		}
		a, err := g.expr(env, x.X, binds)
		if err != nil {
			return sgVal{}, err
		}
		if a.ty == stIPair {
			var ib []string
			i, err := g.expr(env, x.Index, &ib)
			if err != nil {
				return sgVal{}, err
			}
			switch {
			case i.lit && i.code == "0":
				return sgVal{code: "(fst " + a.code + ")", ty: stInt}, nil
			case i.lit && i.code == "1":
				return sgVal{code: "(snd " + a.code + ")", ty: stInt}, nil
			}
			return sgVal{}, fmt.Errorf("index into [2]int that is not the literal 0 or 1")
		}
		el, ok := sgElem(a.ty)
		if !ok {
			return sgVal{}, fmt.Errorf("index on %s", a.ty)
		}
		i, err := g.expr(env, x.Index, binds)
		if err != nil {
			return sgVal{}, err
		}
		if i.ty != stInt {
			return sgVal{}, fmt.Errorf("index of type %s", i.ty)
		}
		t := g.fresh("t")
		*binds = append(*binds, fmt.Sprintf("do %s <- idx %s %s;", t, a.code, i.code))
		return sgVal{code: t, ty: el}, nil
	case *ast.SliceExpr:
		if x.Slice3 {
			return sgVal{}, fmt.Errorf("the 3-index slice is not supported")
		}
		a, err := g.expr(env, x.X, binds)
		if err != nil {
			return sgVal{}, err
		}
		if _, ok := sgElem(a.ty); !ok {
			return sgVal{}, fmt.Errorf("slice of %s", a.ty)
		}
		// a[lo:hi] is checked against len(a): Go checks hi against cap(a), so where Go would re-extend a slice
		// into its backing array the translation says Err SliceBounds (the tie lemmas show it does not happen)
		lo, hi := sgVal{code: "0", ty: stInt}, sgVal{code: "(zlen " + a.code + ")", ty: stInt}
		if x.Low != nil {
			if lo, err = g.expr(env, x.Low, binds); err != nil {
				return sgVal{}, err
			}
		}
		if x.High != nil {
			if hi, err = g.expr(env, x.High, binds); err != nil {
				return sgVal{}, err
			}
		}
		if lo.ty != stInt || hi.ty != stInt {
			return sgVal{}, fmt.Errorf("slice bound of type %s, %s", lo.ty, hi.ty)
		}
		t := g.fresh("t")
		*binds = append(*binds, fmt.Sprintf("do %s <- slice %s %s %s;", t, a.code, lo.code, hi.code))
		return sgVal{code: t, ty: a.ty}, nil
	case *ast.CompositeLit:
		ty, err := g.goType(x.Type)
		if err != nil {
			return sgVal{}, err
		}
		if ty == stIPair {
			if len(x.Elts) != 2 {
				return sgVal{}, fmt.Errorf("[2]int literal with %d elements", len(x.Elts))
			}
			var items []string
			for _, e := range x.Elts {
				if _, keyed := e.(*ast.KeyValueExpr); keyed {
					return sgVal{}, fmt.Errorf("keyed array literal")
				}
				v, err := g.expr(env, e, binds)
				if err != nil {
					return sgVal{}, err
				}
				if v.ty != stInt {
					return sgVal{}, fmt.Errorf("[2]int literal with %s", v.ty)
				}
				items = append(items, v.code)
			}
			return sgVal{code: "(" + items[0] + ", " + items[1] + ")", ty: stIPair}, nil
		}
		if ty == stPts {
			var items []string
			for _, e := range x.Elts {
				if _, keyed := e.(*ast.KeyValueExpr); keyed {
					return sgVal{}, fmt.Errorf("keyed slice literal")
				}
				v, err := g.expr(env, e, binds)
				if err != nil {
					return sgVal{}, err
				}
				if v.ty != stPt {
					return sgVal{}, fmt.Errorf("[][2]float64 literal with %s", v.ty)
				}
				items = append(items, v.code)
			}
			if len(items) == 0 {
				return sgVal{code: "(@nil pt)", ty: stPts}, nil
			}
			return sgVal{code: "[" + strings.Join(items, "; ") + "]", ty: stPts}, nil
		}
		if ty == stRings {
			var items []string
			for _, e := range x.Elts {
				if _, keyed := e.(*ast.KeyValueExpr); keyed {
					return sgVal{}, fmt.Errorf("keyed slice literal")
				}
				v, err := g.expr(env, e, binds)
				if err != nil {
					return sgVal{}, err
				}
				if v, err = g.conv(v, stPts); err != nil {
					return sgVal{}, err
				}
				items = append(items, v.code)
			}
			return sgVal{code: "[" + strings.Join(items, "; ") + "]", ty: stRings}, nil
		}
		if ty == stInts && len(x.Elts) != 0 && g.splitWalk {
			return g.walkIntsLit(env, x, binds)
		}
		if ty != stInts || len(x.Elts) != 0 {
			return sgVal{}, fmt.Errorf("unsupported composite literal")
		}
		return sgVal{code: "(@nil Z)", ty: stInts}, nil
	case *ast.CallExpr:
		return g.call(env, x, binds)
	case *ast.SelectorExpr:
		if g.splitWalk {
			return g.walkSelector(env, x)
		}
	}
	if g.rh {
		return g.rhExpr(env, x, binds)
	}
	return sgVal{}, fmt.Errorf("unsupported expression %T", x)
}

// a && b, a || b: b is evaluated (and can panic) only when a does not decide; `p != nil && b` makes *p available in b
func (g *sg) shortCircuit(env *sgEnv, x *ast.BinaryExpr, binds *[]string) (sgVal, error) {
	a, err := g.expr(env, x.X, binds)
	if err != nil {
		return sgVal{}, err
	}
	if a.ty != stBool {
		return sgVal{}, fmt.Errorf("%s on %s", x.Op, a.ty)
	}
	envB := env
	guard := ""
	if x.Op == token.LAND {
		if c, ok := x.X.(*ast.BinaryExpr); ok && c.Op == token.NEQ {
			if id, ok := c.X.(*ast.Ident); ok && env.vars[id.Name] == stPtPtr {
				if n, ok := c.Y.(*ast.Ident); ok && n.Name == "nil" {
					envB = env.clone()
					guard = g.fresh("p")
					envB.deref[id.Name] = guard
					a.code = "v_" + id.Name
				}
			}
		}
	}
	var rb []string
	b, err := g.expr(envB, x.Y, &rb)
	if err != nil {
		return sgVal{}, err
	}
	if b.ty != stBool {
		return sgVal{}, fmt.Errorf("%s on %s", x.Op, b.ty)
	}
	if len(rb) == 0 && guard == "" {
		op := "&&"
		if x.Op == token.LOR {
			op = "||"
		}
		return sgVal{code: "(" + a.code + " " + op + " " + b.code + ")", ty: stBool}, nil
	}
	c := g.fresh("c")
	inner := sgJoin(rb, "Ok "+b.code)
	switch {
	case guard != "":
		*binds = append(*binds, fmt.Sprintf("do %s <- match %s with\n    | Some %s => (%s)\n    | None => Ok false\n    end;", c, a.code, guard, inner))
	case x.Op == token.LAND:
		*binds = append(*binds, fmt.Sprintf("do %s <- (if %s then (%s) else Ok false);", c, a.code, inner))
	default:
		*binds = append(*binds, fmt.Sprintf("do %s <- (if %s then Ok true else (%s));", c, a.code, inner))
	}
	return sgVal{code: c, ty: stBool}, nil
}

func (g *sg) external(env *sgEnv, key string, x *ast.CallExpr, binds *[]string) (sgVal, error) {
	ext := sgExternals[key]
	if len(x.Args) != len(ext.params) || x.Ellipsis != token.NoPos {
		return sgVal{}, fmt.Errorf("%s: wrong number of arguments", key)
	}
	var as []string
	for i, a := range x.Args {
		v, err := g.expr(env, a, binds)
		if err != nil {
			return sgVal{}, err
		}
		if v, err = g.conv(v, ext.params[i]); err != nil {
			return sgVal{}, fmt.Errorf("%s: argument %d: %v", key, i+1, err)
		}
		as = append(as, v.code)
	}
	return sgVal{code: "(" + ext.coq + " " + strings.Join(as, " ") + ")", ty: ext.result}, nil
}

func sgStaticallyNonNeg(x ast.Expr) bool {
	switch x := x.(type) {
	case *ast.ParenExpr:
		return sgStaticallyNonNeg(x.X)
	case *ast.BasicLit:
		return x.Kind == token.INT
	case *ast.CallExpr:
		if id, ok := x.Fun.(*ast.Ident); ok {
			switch id.Name {
			case "len":
				return true
			case "max":
				for _, a := range x.Args {
					if sgStaticallyNonNeg(a) {
						return true
					}
				}
			}
		}
	}
	return false
}

func (g *sg) call(env *sgEnv, x *ast.CallExpr, binds *[]string) (sgVal, error) {
	if g.rh {
		if v, handled, err := g.rhCall(env, x, binds); handled {
			return v, err
		}
	}
	if g.splitWalk {
		if v, handled, err := g.walkCall(env, x, binds); handled {
			return v, err
		}
	}
	if g.dedup {
		if v, handled, err := g.dedupCall(env, x, binds); handled {
			return v, err
		}
	}
	if g.dio {
		if v, handled, err := g.dioCall(env, x, binds); handled {
			return v, err
		}
	}
	if g.cleanup {
		if id, ok := x.Fun.(*ast.Ident); ok && id.Name == "splitRing" {
			// splitRing(ring, isOuter, hitMultiple, ringIdx): the regenerated gen_splitRing of SplitWalkGen.v (splitwalk.go);
			// (hitMultiple, ringIdx) only decide which vertices count as hit by several rings = the predicate isMulti
			if _, shadow := env.vars[id.Name]; shadow || g.funcs["splitRing"] == nil || len(x.Args) != 4 {
				return sgVal{}, fmt.Errorf("unsupported call of splitRing")
			}
			want := "func(ring [][2]float64, isOuter bool, hitMultiple map[intgeom.Point][]int, ringIdx int) (outerRings, innerRings, pointsAndLines [][][2]float64)"
			if got := types.ExprString(g.funcs["splitRing"].Type); got != want {
				return sgVal{}, fmt.Errorf("splitRing has the signature %s", got)
			}
			r, err := g.expr(env, x.Args[0], binds)
			if err != nil {
				return sgVal{}, err
			}
			o, err := g.expr(env, x.Args[1], binds)
			if err != nil {
				return sgVal{}, err
			}
			h, ok1 := x.Args[2].(*ast.Ident)
			i, ok2 := x.Args[3].(*ast.Ident)
			if r.ty != stPts || o.ty != stBool || !ok1 || !ok2 || h.Name != g.multiParams[0] || i.Name != g.multiParams[1] {
				return sgVal{}, fmt.Errorf("splitRing: unsupported arguments")
			}
			t := g.fresh("t")
			*binds = append(*binds, fmt.Sprintf("do %s <- gen_splitRing %s %s isMulti;", t, r.code, o.code))
			return sgVal{code: t, ty: stSets}, nil
		}
	}
	if sel, ok := x.Fun.(*ast.SelectorExpr); ok {
		if pkg, ok := sel.X.(*ast.Ident); ok {
			key := pkg.Name + "." + sel.Sel.Name
			if _, isExt := sgExternals[key]; isExt && g.imports[pkg.Name] {
				if _, shadow := env.vars[pkg.Name]; !shadow {
					return g.external(env, key, x, binds)
				}
			}
		}
	}
	id, ok := x.Fun.(*ast.Ident)
	if !ok || x.Ellipsis != token.NoPos {
		return sgVal{}, fmt.Errorf("unsupported call %s", types.ExprString(x.Fun))
	}
	if _, shadow := env.vars[id.Name]; shadow {
		return sgVal{}, fmt.Errorf("call of a variable %s", id.Name)
	}
	if _, isExt := sgExternals[id.Name]; isExt && g.useExternals {
		if _, ok := g.funcs[id.Name]; ok {
			return g.external(env, id.Name, x, binds)
		}
	}
	switch id.Name {
	case "len":
		if len(x.Args) != 1 {
			return sgVal{}, fmt.Errorf("bad len")
		}
		a, err := g.expr(env, x.Args[0], binds)
		if err != nil {
			return sgVal{}, err
		}
		if _, ok := sgElem(a.ty); !ok {
			return sgVal{}, fmt.Errorf("len of %s", a.ty)
		}
		return sgVal{code: "(zlen " + a.code + ")", ty: stInt}, nil
	case "max", "min":
		if len(x.Args) != 2 {
			return sgVal{}, fmt.Errorf("%s with %d arguments is not supported", id.Name, len(x.Args))
		}
		a, err := g.expr(env, x.Args[0], binds)
		if err != nil {
			return sgVal{}, err
		}
		b, err := g.expr(env, x.Args[1], binds)
		if err != nil {
			return sgVal{}, err
		}
		if a.ty != stInt || b.ty != stInt {
			return sgVal{}, fmt.Errorf("%s on %s, %s", id.Name, a.ty, b.ty)
		}
		return sgVal{code: "(Z." + id.Name + " " + a.code + " " + b.code + ")", ty: stInt}, nil
	case "make":
		if len(x.Args) != 2 {
			return sgVal{}, fmt.Errorf("unsupported make")
		}
		ty, err := g.goType(x.Args[0])
		if err != nil {
			return sgVal{}, err
		}
		if ty == stRings && g.splitTail {
			if lit, ok := x.Args[1].(*ast.BasicLit); !ok || lit.Value != "0" {
				return sgVal{}, fmt.Errorf("make([][][2]float64, n) with n other than 0")
			}
			return sgVal{code: "(@nil (list pt))", ty: stRings}, nil
		}
		if ty != stInts && !(ty == stPts && g.dedup) {
			return sgVal{}, fmt.Errorf("make of %s", ty)
		}
		if !sgStaticallyNonNeg(x.Args[1]) {
			return sgVal{}, fmt.Errorf("make with a length that is not evidently non-negative")
		}
		n, err := g.expr(env, x.Args[1], binds)
		if err != nil {
			return sgVal{}, err
		}
		if n.ty != stInt {
			return sgVal{}, fmt.Errorf("make with a length of type %s", n.ty)
		}
		if ty == stPts { // the zero value of [2]float64 is the point (0, 0)
			return sgVal{code: "(repeat ((0, 0) : pt) (Z.to_nat " + n.code + "))", ty: stPts}, nil
		}
		return sgVal{code: "(repeat 0 (Z.to_nat " + n.code + "))", ty: stInts}, nil
	case "append":
		return sgVal{}, fmt.Errorf("append is only supported as v = append(v, x)")
	}
	sig, ok := g.sigs[id.Name]
	if !ok || !g.emitted[id.Name] {
		return sgVal{}, fmt.Errorf("unsupported call %s", id.Name)
	}
	if sig.result == "" {
		return sgVal{}, fmt.Errorf("%s used as a value", id.Name)
	}
	as, err := g.args(env, x.Args, sig, binds)
	if err != nil {
		return sgVal{}, err
	}
	t := g.fresh("t")
	*binds = append(*binds, fmt.Sprintf("do %s <- gen_%s %s;", t, id.Name, strings.Join(as, " ")))
	return sgVal{code: t, ty: sig.result}, nil
}

func (g *sg) args(env *sgEnv, xs []ast.Expr, sig *sgSig, binds *[]string) ([]string, error) {
	if len(xs) != len(sig.params) {
		return nil, fmt.Errorf("%s: %d arguments for %d parameters", sig.name, len(xs), len(sig.params))
	}
	var out []string
	for i, a := range xs {
		v, err := g.expr(env, a, binds)
		if err != nil {
			return nil, err
		}
		if v, err = g.conv(v, sig.params[i].ty); err != nil {
			return nil, fmt.Errorf("%s: argument %d: %v", sig.name, i+1, err)
		}
		out = append(out, v.code)
	}
	return out, nil
}

// sgAssigned: the variables a statement list assigns (a[i] = v counts as an assignment to a).
func sgAssigned(stmts []ast.Stmt, acc map[string]bool) {
	target := func(l ast.Expr) {
		if ix, ok := l.(*ast.IndexExpr); ok {
			l = ix.X
			if ix2, ok := l.(*ast.IndexExpr); ok { // a[i][j]
				l = ix2.X
			}
		}
		if id, ok := l.(*ast.Ident); ok {
			acc[id.Name] = true
		} else {
			acc["?"] = true
		}
	}
	for _, s := range stmts {
		ast.Inspect(s, func(n ast.Node) bool {
			switch n := n.(type) {
			case *ast.AssignStmt:
				if n.Tok != token.DEFINE {
					for _, l := range n.Lhs {
						target(l)
					}
				}
			case *ast.IncDecStmt:
				target(n.X)
			case *ast.RangeStmt:
				if n.Tok != token.DEFINE {
					acc["?"] = true
				}
			case *ast.FuncLit, *ast.GoStmt, *ast.DeferStmt:
				acc["?"] = true
			case *ast.ExprStmt: // a call of a function that writes through a slice argument
				if c, ok := n.X.(*ast.CallExpr); ok {
					switch types.ExprString(c.Fun) {
					case "copy", "slices.Reverse": // write through the first argument
						if len(c.Args) > 0 {
							target(c.Args[0])
						}
						return true
					}
					if sel, ok := c.Fun.(*ast.SelectorExpr); ok && (sel.Sel.Name == "Insert" || sel.Sel.Name == "Set") { // X.Insert(k, v), X.Set(k, v) change X
						target(sel.X)
						return true
					}
					if sel, ok := c.Fun.(*ast.SelectorExpr); ok && (sel.Sel.Name == "Insert" || sgWalkMutators[sel.Sel.Name]) { // X.Insert(k, v) changes X
						target(sel.X)
						return true
					}
					for _, a := range c.Args {
						if id, ok := a.(*ast.Ident); ok {
							acc["call:"+id.Name] = true
						}
					}
				}
			}
			return true
		})
	}
}

// sgTerminates: no path falls off the end of the list (return or break on every path).
func sgTerminates(stmts []ast.Stmt) bool {
	if len(stmts) == 0 {
		return false
	}
	switch s := stmts[len(stmts)-1].(type) {
	case *ast.ReturnStmt:
		return true
	case *ast.BranchStmt:
		return (s.Tok == token.BREAK || s.Tok == token.CONTINUE) && s.Label == nil
	case *ast.ExprStmt:
		return sgPanicCall(s) != ""
	case *ast.IfStmt:
		if s.Else == nil {
			return false
		}
		eb, err := lgElse(s)
		return err == nil && sgTerminates(s.Body.List) && sgTerminates(eb)
	}
	return false
}

// sgPanicCall: the error value if the statement is a call of one of the panic helpers
func sgPanicCall(s *ast.ExprStmt) string {
	if c, ok := s.X.(*ast.CallExpr); ok {
		if id, ok := c.Fun.(*ast.Ident); ok {
			return sgPanics[id.Name]
		}
	}
	return ""
}

func sgJoin(binds []string, tail string) string {
	if len(binds) == 0 {
		return tail
	}
	return strings.Join(binds, "\n  ") + "\n  " + tail
}

func (g *sg) bind(env *sgEnv, names map[string]bool, k lcont) (string, lcont, error) {
	if k.cheap {
		return "", k, nil
	}
	var params, actuals string
	n := 0
	for _, v := range env.order {
		if names[v] || names["call:"+v] {
			params += fmt.Sprintf(" (v_%s : %s)", v, sgCoq[env.vars[v]])
			actuals += " v_" + v
			n++
		}
	}
	if n == 0 {
		params, actuals = " (_ : unit)", " tt"
	}
	body, err := k.gen()
	if err != nil {
		return "", lcont{}, err
	}
	name := g.fresh("k")
	call := "(" + name + actuals + ")"
	return fmt.Sprintf("let %s := fun%s =>\n    (%s) in\n  ", name, params, body),
		lcont{gen: func() (string, error) { return call, nil }, cheap: true}, nil
}

func (g *sg) stmts(env *sgEnv, list []ast.Stmt, k lcont, ctx *sgCtx) (string, error) {
	if len(list) == 0 {
		return k.gen()
	}
	s, rest := list[0], list[1:]
	after := func(e *sgEnv) lcont {
		if len(rest) == 0 {
			return k
		}
		return lcont{gen: func() (string, error) { return g.stmts(e, rest, k, ctx) }}
	}
	if g.dio {
		if out, handled, err := g.dioStmt(env, s, rest, k, ctx, after); handled {
			return out, err
		}
	}
	switch s := s.(type) {
	case *ast.ReturnStmt:
		if g.rh {
			if out, handled, err := g.rhReturn(env, s, ctx); handled {
				return out, err
			}
		}
		switch {
		case len(s.Results) == 0 && g.cur.result == "":
			return ctx.ret("v_" + g.cur.params[g.cur.mutated].name), nil
		case len(s.Results) == 3 && g.cur.result == stSets:
			var binds []string
			var parts []string
			for _, r := range s.Results {
				v, err := g.expr(env, r, &binds)
				if err != nil {
					return "", err
				}
				if v, err = g.conv(v, stRings); err != nil {
					return "", fmt.Errorf("return: %v", err)
				}
				parts = append(parts, v.code)
			}
			return sgJoin(binds, ctx.ret("(mkSets "+strings.Join(parts, " ")+")")), nil
		case len(s.Results) == 1 && g.cur.result != "":
			var binds []string
			v, err := g.expr(env, s.Results[0], &binds)
			if err != nil {
				return "", err
			}
			if v, err = g.conv(v, g.cur.result); err != nil {
				return "", fmt.Errorf("return: %v", err)
			}
			return sgJoin(binds, ctx.ret(v.code)), nil
		}
		return "", fmt.Errorf("unsupported return")
	case *ast.DeclStmt:
		gd, ok := s.Decl.(*ast.GenDecl)
		if !ok || gd.Tok != token.VAR {
			return "", fmt.Errorf("unsupported declaration")
		}
		env2 := env.clone()
		var lines []string
		for _, sp := range gd.Specs {
			vs := sp.(*ast.ValueSpec)
			if vs.Type == nil || len(vs.Values) != 0 {
				return "", fmt.Errorf("only `var x T` is supported")
			}
			t, err := g.goType(vs.Type)
			if err != nil {
				return "", err
			}
			if t != stInt {
				return "", fmt.Errorf("var of type %s", t)
			}
			for _, n := range vs.Names {
				if _, exists := env2.vars[n.Name]; exists || n.Name == "_" {
					return "", fmt.Errorf("var %s redeclares a variable", n.Name)
				}
				env2.declare(n.Name, t)
				lines = append(lines, fmt.Sprintf("let v_%s := 0 in", n.Name))
			}
		}
		body, err := g.stmts(env2, rest, k, ctx)
		if err != nil {
			return "", err
		}
		return sgJoin(lines, body), nil
	case *ast.RangeStmt:
		if g.splitWalk && walkHasIndexVar(s) {
			return g.walkIndexRange(env, s, after(env), ctx)
		}
		return g.rangeLoop(env, s, after(env), ctx)
	case *ast.BranchStmt:
		if s.Tok == token.CONTINUE && s.Label == nil {
			if ctx.cont == nil {
				return "", fmt.Errorf("continue outside a loop")
			}
			return ctx.cont()
		}
		if s.Tok != token.BREAK || s.Label != nil {
			return "", fmt.Errorf("unsupported %s", s.Tok)
		}
		if ctx.brk == nil || ctx.inSwitch {
			return "", fmt.Errorf("break outside a loop, or inside a switch, is not supported")
		}
		return ctx.brk()
	case *ast.AssignStmt:
		return g.assign(env, s, rest, k, ctx)
	case *ast.IncDecStmt:
		id, ok := s.X.(*ast.Ident)
		if !ok || env.vars[id.Name] != stInt {
			return "", fmt.Errorf("unsupported %s", s.Tok)
		}
		op := "+"
		if s.Tok == token.DEC {
			op = "-"
		}
		body, err := g.stmts(env, rest, k, ctx)
		if err != nil {
			return "", err
		}
		return fmt.Sprintf("let v_%s := (v_%s %s 1) in\n  %s", id.Name, id.Name, op, body), nil
	case *ast.ExprStmt:
		return g.callStmt(env, s, rest, k, ctx)
	case *ast.IfStmt:
		if s.Init != nil && g.splitWalk {
			return g.walkIfInit(env, s, after(env), ctx)
		}
		if s.Init != nil {
			if g.rh {
				return g.rhIfInit(env, s, rest, k, ctx)
			}
			return "", fmt.Errorf("unsupported if with init")
		}
		eb, err := lgElse(s)
		if err != nil {
			return "", err
		}
		return g.branch(env, []ast.Expr{s.Cond}, [][]ast.Stmt{s.Body.List}, eb, after(env), ctx)
	case *ast.SwitchStmt:
		if s.Init != nil || s.Tag != nil {
			return "", fmt.Errorf("only the tagless switch is supported")
		}
		var conds []ast.Expr
		var bodies [][]ast.Stmt
		var def []ast.Stmt
		seen := false
		for _, c := range s.Body.List {
			cc := c.(*ast.CaseClause)
			if cc.List == nil {
				if seen {
					return "", fmt.Errorf("two default clauses")
				}
				seen, def = true, cc.Body
				continue
			}
			if len(cc.List) != 1 {
				return "", fmt.Errorf("unsupported case list")
			}
			conds = append(conds, cc.List[0])
			bodies = append(bodies, cc.Body)
		}
		c2 := *ctx
		c2.inSwitch = true
		return g.branch(env, conds, bodies, def, after(env), &c2)
	case *ast.ForStmt:
		if g.rh {
			if out, handled, err := g.rhOMapLoop(env, s, after(env), ctx); handled {
				return out, err
			}
		}
		if s.Init != nil && g.splitWalk {
			if out, handled, err := g.walkPairLoop(env, s, after(env), ctx); handled {
				return out, err
			}
		}
		if s.Init != nil { // for init; cond; post {}  =  init; for ; cond; post {}  (the loop variable stays declared)
			as, ok := s.Init.(*ast.AssignStmt)
			if !ok || as.Tok != token.DEFINE {
				return "", fmt.Errorf("unsupported loop initialisation")
			}
			bare := *s
			bare.Init = nil
			return g.stmts(env, append([]ast.Stmt{as, &bare}, rest...), k, ctx)
		}
		return g.loop(env, s, after(env), ctx)
	}
	return "", fmt.Errorf("unsupported statement %T at %s", s, g.fset.Position(s.Pos()))
}

// f(a, t) for a function without result that writes through its slice parameter: t is rebound to the result
func (g *sg) callStmt(env *sgEnv, s *ast.ExprStmt, rest []ast.Stmt, k lcont, ctx *sgCtx) (string, error) {
	c, ok := s.X.(*ast.CallExpr)
	if !ok {
		return "", fmt.Errorf("unsupported expression statement")
	}
	if g.rh {
		if line, handled, err := g.rhStmt(env, c); handled {
			if err != nil {
				return "", err
			}
			body, err := g.stmts(env, rest, k, ctx)
			if err != nil {
				return "", err
			}
			return line + "\n  " + body, nil
		}
	}
	if g.splitWalk {
		if line, handled, err := g.walkCallStmt(env, c); handled {
			if err != nil {
				return "", err
			}
			body, err := g.stmts(env, rest, k, ctx)
			if err != nil {
				return "", err
			}
			return line + "\n  " + body, nil
		}
	}
	if g.dedup {
		if line, handled, err := g.dedupStmt(env, c); handled {
			if err != nil {
				return "", err
			}
			body, err := g.stmts(env, rest, k, ctx)
			if err != nil {
				return "", err
			}
			return line + "\n  " + body, nil
		}
	}
	id, ok := c.Fun.(*ast.Ident)
	if !ok {
		return "", fmt.Errorf("unsupported call statement")
	}
	if e := sgPanicCall(s); e != "" {
		if _, shadow := env.vars[id.Name]; shadow || !g.panicsChecked[id.Name] {
			return "", fmt.Errorf("%s is not a checked panic helper", id.Name)
		}
		for _, a := range c.Args { // the arguments only feed the message; they must be plain variables (no effects)
			if aid, ok := a.(*ast.Ident); !ok || env.vars[aid.Name] == "" {
				return "", fmt.Errorf("%s: unsupported argument", id.Name)
			}
		}
		return "Err " + e, nil // the statements that follow are not reached
	}
	sig, ok := g.sigs[id.Name]
	if !ok || !g.emitted[id.Name] || sig.result != "" || sig.mutated < 0 {
		return "", fmt.Errorf("unsupported call statement %s", id.Name)
	}
	if len(c.Args) != len(sig.params) {
		return "", fmt.Errorf("%s: wrong number of arguments", id.Name)
	}
	target, ok := c.Args[sig.mutated].(*ast.Ident)
	if !ok || !env.made[target.Name] {
		return "", fmt.Errorf("%s writes through its argument %d, which must be a local created by make (no aliasing)", id.Name, sig.mutated+1)
	}
	var binds []string
	as, err := g.args(env, c.Args, sig, &binds)
	if err != nil {
		return "", err
	}
	body, err := g.stmts(env, rest, k, ctx)
	if err != nil {
		return "", err
	}
	binds = append(binds, fmt.Sprintf("do v_%s <- gen_%s %s;", target.Name, id.Name, strings.Join(as, " ")))
	return sgJoin(binds, body), nil
}

func (g *sg) assign(env *sgEnv, s *ast.AssignStmt, rest []ast.Stmt, k lcont, ctx *sgCtx) (string, error) {
	if g.rh {
		if out, handled, err := g.rhAssign(env, s, rest, k, ctx); handled {
			return out, err
		}
	}
	env2 := env.clone()
	var lines []string
	// x op= e
	if s.Tok == token.ADD_ASSIGN || s.Tok == token.SUB_ASSIGN {
		id, ok := s.Lhs[0].(*ast.Ident)
		if !ok || len(s.Lhs) != 1 || len(s.Rhs) != 1 || env.vars[id.Name] != stInt {
			return "", fmt.Errorf("unsupported %s", s.Tok)
		}
		v, err := g.expr(env, s.Rhs[0], &lines)
		if err != nil {
			return "", err
		}
		if v.ty != stInt {
			return "", fmt.Errorf("%s with %s", s.Tok, v.ty)
		}
		op := map[token.Token]string{token.ADD_ASSIGN: "+", token.SUB_ASSIGN: "-"}[s.Tok]
		lines = append(lines, fmt.Sprintf("let v_%s := (v_%s %s %s) in", id.Name, id.Name, op, v.code))
		body, err := g.stmts(env2, rest, k, ctx)
		if err != nil {
			return "", err
		}
		return sgJoin(lines, body), nil
	}
	if s.Tok != token.DEFINE && s.Tok != token.ASSIGN {
		return "", fmt.Errorf("unsupported assignment operator %s", s.Tok)
	}
	if g.splitWalk {
		if lines, env3, handled, err := g.walkDefine(env, s); handled {
			if err != nil {
				return "", err
			}
			body, err := g.stmts(env3, rest, k, ctx)
			if err != nil {
				return "", err
			}
			return sgJoin(lines, body), nil
		}
	}
	if len(s.Lhs) != len(s.Rhs) {
		return "", fmt.Errorf("unsupported assignment of a multi-valued expression")
	}
	// v = append(v, x)
	if c, ok := s.Rhs[0].(*ast.CallExpr); ok && len(s.Rhs) == 1 {
		if f, ok := c.Fun.(*ast.Ident); ok && f.Name == "append" && !g.splitWalk { // splitWalk: append is an expression (walkCall)
			if _, shadow := env.vars["append"]; !shadow {
				t, ok1 := s.Lhs[0].(*ast.Ident)
				var a0 *ast.Ident
				if len(c.Args) == 2 {
					a0, _ = c.Args[0].(*ast.Ident)
				}
				if !ok1 || a0 == nil || a0.Name != t.Name || s.Tok != token.ASSIGN {
					return "", fmt.Errorf("append is only supported as v = append(v, x) or v = append(v, s...)")
				}
				sty := env.vars[t.Name]
				el, isSlice := sgElem(sty)
				if !isSlice || (sty != stInts && !g.dedup) || (sty == stRings && !g.splitTail && !g.rh) {
					return "", fmt.Errorf("append to %s", sty)
				}
				v, err := g.expr(env, c.Args[1], &lines)
				if err != nil {
					return "", err
				}
				if c.Ellipsis != token.NoPos {
					// v = append(v, s...): slices are values here; when v shares its backing array with another slice the
					// elements written are the ones read (kmpDeduplicate: corpus is a window on ring), see DESIGN 7
					if v.ty != sty || !g.dedup {
						return "", fmt.Errorf("append of %s... to %s", v.ty, sty)
					}
					lines = append(lines, fmt.Sprintf("let v_%s := (v_%s ++ %s) in", t.Name, t.Name, v.code))
				} else {
					if v.ty != el {
						return "", fmt.Errorf("append of %s to %s", v.ty, sty)
					}
					lines = append(lines, fmt.Sprintf("let v_%s := (v_%s ++ [%s]) in", t.Name, t.Name, v.code))
				}
				env2.made[t.Name] = false
				body, err := g.stmts(env2, rest, k, ctx)
				if err != nil {
					return "", err
				}
				return sgJoin(lines, body), nil
			}
		}
	}
	// keys := maps.Keys(M)
	if g.splitTail && len(s.Rhs) == 1 && s.Tok == token.DEFINE {
		if c, ok := s.Rhs[0].(*ast.CallExpr); ok && types.ExprString(c.Fun) == "maps.Keys" && len(c.Args) == 1 {
			m, ok1 := c.Args[0].(*ast.Ident)
			t, ok2 := s.Lhs[0].(*ast.Ident)
			_, shadow := env.vars["maps"]
			if !ok1 || !ok2 || env.vars[m.Name] != stCMap || shadow || g.pkgs["maps"] != "golang.org/x/exp/maps" {
				return "", fmt.Errorf("unsupported maps.Keys")
			}
			if _, exists := env.vars[t.Name]; exists || t.Name == "_" {
				return "", fmt.Errorf(":= of the existing variable %s is not supported", t.Name)
			}
			env2.vars[t.Name] = stCKeys // in no particular order until sort.Ints
			env2.mapOf[t.Name] = m.Name
			return g.stmts(env2, rest, k, ctx)
		}
	}
	// mmap := X.Map()
	if g.dedup && len(s.Rhs) == 1 && s.Tok == token.DEFINE {
		if c, ok := s.Rhs[0].(*ast.CallExpr); ok && len(c.Args) == 0 {
			if sel, ok := c.Fun.(*ast.SelectorExpr); ok && sel.Sel.Name == "Map" {
				if x, ok := sel.X.(*ast.Ident); ok && env.vars[x.Name] == stSeqmap {
					t, ok := s.Lhs[0].(*ast.Ident)
					if !ok || t.Name == "_" {
						return "", fmt.Errorf("unsupported target of Map()")
					}
					if _, exists := env.vars[t.Name]; exists {
						return "", fmt.Errorf(":= of the existing variable %s is not supported", t.Name)
					}
					env2.vars[t.Name] = stView // no value: only mmap[key] is supported
					env2.mapOf[t.Name] = x.Name
					return g.stmts(env2, rest, k, ctx)
				}
			}
		}
	}
	// phase 1: index operands on the left, then the right-hand sides, in order
	type target struct {
		name string
		idx  string // "" for a plain variable
		el   string // the element type of an indexed target
	}
	var ts []target
	seen := map[string]bool{}
	for _, l := range s.Lhs {
		switch l := l.(type) {
		case *ast.Ident:
			if l.Name != "_" && seen[l.Name] {
				return "", fmt.Errorf("%s assigned twice in one statement", l.Name)
			}
			seen[l.Name] = true
			ts = append(ts, target{name: l.Name})
		case *ast.IndexExpr:
			id, ok := l.X.(*ast.Ident)
			if !ok || s.Tok != token.ASSIGN {
				return "", fmt.Errorf("unsupported assignment target %s", types.ExprString(l))
			}
			aty, ok := env.vars[id.Name]
			if !ok || (aty != stInts && !(g.rh && (aty == stPts || aty == stPolys))) {
				return "", fmt.Errorf("indexed assignment to %s", id.Name)
			}
			isParam := g.cur.mutated >= 0 && g.cur.params[g.cur.mutated].name == id.Name
			if !isParam && !env.made[id.Name] {
				return "", fmt.Errorf("write through %s, which is neither the written slice parameter nor a local created by make", id.Name)
			}
			i, err := g.expr(env, l.Index, &lines)
			if err != nil {
				return "", err
			}
			if i.ty != stInt {
				return "", fmt.Errorf("index of type %s", i.ty)
			}
			el, _ := sgElem(aty)
			ts = append(ts, target{name: id.Name, idx: i.code, el: el})
		default:
			return "", fmt.Errorf("unsupported assignment target %s", types.ExprString(l))
		}
	}
	var vals []sgVal
	for i, r := range s.Rhs {
		var v sgVal
		var err error
		isMake := false
		if c, ok := r.(*ast.CallExpr); ok {
			if f, ok := c.Fun.(*ast.Ident); ok && f.Name == "make" {
				isMake = true
			}
		}
		v, err = g.expr(env, r, &lines)
		if err != nil {
			return "", err
		}
		t := ts[i]
		switch {
		case t.idx != "":
			if v.ty != t.el {
				return "", fmt.Errorf("assignment of %s to an element of a slice of %s", v.ty, t.el)
			}
		case t.name == "_":
		case s.Tok == token.DEFINE:
			if _, exists := env.vars[t.name]; exists {
				return "", fmt.Errorf(":= of the existing variable %s is not supported", t.name)
			}
			env2.declare(t.name, v.ty)
			env2.made[t.name] = isMake
		default:
			old, exists := env.vars[t.name]
			if !exists || old != v.ty {
				return "", fmt.Errorf("assignment to %s: unknown variable or type mismatch", t.name)
			}
			env2.made[t.name] = isMake // otherwise it may now share its backing array
		}
		vals = append(vals, v)
	}
	// freeze the values when several assignments follow
	if len(ts) > 1 {
		for i := range vals {
			a := g.fresh("a")
			lines = append(lines, fmt.Sprintf("let %s := %s in", a, vals[i].code))
			vals[i].code = a
		}
	}
	// phase 2: the assignments, left to right
	for i, t := range ts {
		switch {
		case t.idx != "":
			lines = append(lines, fmt.Sprintf("do v_%s <- setidx v_%s %s %s;", t.name, t.name, t.idx, vals[i].code))
		case t.name == "_":
		default:
			lines = append(lines, fmt.Sprintf("let v_%s := %s in", t.name, vals[i].code))
		}
	}
	body, err := g.stmts(env2, rest, k, ctx)
	if err != nil {
		return "", err
	}
	return sgJoin(lines, body), nil
}

func (g *sg) branch(env *sgEnv, conds []ast.Expr, bodies [][]ast.Stmt, def []ast.Stmt, after lcont, ctx *sgCtx) (string, error) {
	falls := 0
	asg := map[string]bool{}
	for _, b := range append(append([][]ast.Stmt{}, bodies...), def) {
		if !sgTerminates(b) {
			falls++
		}
		sgAssigned(b, asg)
	}
	if asg["?"] {
		return "", fmt.Errorf("unsupported assignment target inside a branch")
	}
	prefix := ""
	k := after
	if falls >= 2 {
		p, kb, err := g.bind(env, asg, after)
		if err != nil {
			return "", err
		}
		prefix, k = p, kb
	}
	var rec func(i int) (string, error)
	rec = func(i int) (string, error) {
		if i == len(conds) {
			return g.stmts(env.clone(), def, k, ctx)
		}
		var binds []string
		c, err := g.expr(env, conds[i], &binds)
		if err != nil {
			return "", err
		}
		if c.ty != stBool {
			return "", fmt.Errorf("condition of type %s", c.ty)
		}
		b, err := g.stmts(env.clone(), bodies[i], k, ctx)
		if err != nil {
			return "", err
		}
		e, err := rec(i + 1)
		if err != nil {
			return "", err
		}
		return sgJoin(binds, fmt.Sprintf("if %s then (%s)\n  else (%s)", c.code, b, e)), nil
	}
	body, err := rec(0)
	if err != nil {
		return "", err
	}
	return prefix + body, nil
}

// loop: for cond { body } / for { body } -> a Fixpoint on fuel over the variables the body assigns.
func (g *sg) loop(env *sgEnv, s *ast.ForStmt, after lcont, ctx *sgCtx) (string, error) {
	if s.Init != nil {
		return "", fmt.Errorf("loop initialisation not split off")
	}
	post := ""
	if s.Post != nil {
		pd, ok := s.Post.(*ast.IncDecStmt)
		var id *ast.Ident
		if ok {
			id, ok = pd.X.(*ast.Ident)
		}
		if !ok || env.vars[id.Name] != stInt {
			return "", fmt.Errorf("unsupported loop post statement")
		}
		op := "+"
		if pd.Tok == token.DEC {
			op = "-"
		}
		post = fmt.Sprintf("let v_%s := (v_%s %s 1) in\n  ", id.Name, id.Name, op)
	}
	fuels := sgFuel[g.cur.name]
	if g.loopN >= len(fuels) {
		return "", fmt.Errorf("no fuel configured for loop %d of %s", g.loopN+1, g.cur.name)
	}
	fuel := fuels[g.loopN]
	g.loopN++
	loopIdx := g.loopN
	name := fmt.Sprintf("gen_%s_loop%d", g.cur.name, loopIdx)
	asg := map[string]bool{}
	sgAssigned(s.Body.List, asg)
	if s.Post != nil {
		sgAssigned([]ast.Stmt{s.Post}, asg)
	}
	if asg["?"] {
		return "", fmt.Errorf("loop body with an unsupported assignment target")
	}
	var state, free []string
	for _, v := range env.order {
		if env.vars[v] == stView {
			return "", fmt.Errorf("a Map() view across a loop is not supported")
		}
		if asg[v] || asg["call:"+v] && (env.vars[v] == stInts) {
			state = append(state, v)
		} else {
			free = append(free, v)
		}
	}
	if len(state) == 0 {
		return "", fmt.Errorf("loop that assigns nothing")
	}
	var fp, fa, sp, sa, sty []string
	for _, v := range free {
		fp = append(fp, fmt.Sprintf("(v_%s : %s)", v, sgCoq[env.vars[v]]))
		fa = append(fa, "v_"+v)
	}
	for _, v := range state {
		sp = append(sp, fmt.Sprintf("(v_%s : %s)", v, sgCoq[env.vars[v]]))
		sa = append(sa, "v_"+v)
		sty = append(sty, sgCoq[env.vars[v]])
	}
	tuple := sa[0]
	if len(sa) > 1 {
		tuple = "(" + strings.Join(sa, ", ") + ")"
	}
	stateTy := "(" + strings.Join(sty, " * ") + ")%type"
	retTy := sgCoq[g.cur.retTy]
	recur := "(" + name + " " + strings.Join(append(append(append([]string{}, fa...), "fuel'"), sa...), " ") + ")"
	inner := &sgCtx{
		ret:  func(v string) string { return "Ok (Ret " + v + ")" },
		brk:  func() (string, error) { return "Ok (Next " + tuple + ")", nil },
		cont: func() (string, error) { return post + recur, nil },
	}
	kLoop := lcont{gen: func() (string, error) { return post + recur, nil }, cheap: true}
	bodyEnv := env.clone()
	body, err := g.stmts(bodyEnv, s.Body.List, kLoop, inner)
	if err != nil {
		return "", err
	}
	step := body
	if s.Cond != nil {
		var binds []string
		c, err := g.expr(env, s.Cond, &binds)
		if err != nil {
			return "", err
		}
		if c.ty != stBool {
			return "", fmt.Errorf("loop condition of type %s", c.ty)
		}
		step = sgJoin(binds, fmt.Sprintf("if %s then (%s)\n  else Ok (Next %s)", c.code, body, tuple))
	}
	pos := g.fset.Position(s.Pos())
	g.pre = append(g.pre, fmt.Sprintf("(* %s:%d loop %d of %s; state = %s *)\nFixpoint %s %s (fuel : nat) %s {struct fuel} : res (ctl %s %s) :=\n  match fuel with\n  | O => Err OutOfFuel\n  | S fuel' =>\n  %s\n  end.\n\n",
		filepath.Base(pos.Filename), pos.Line, loopIdx, g.cur.name, tuple, name, strings.Join(fp, " "), strings.Join(sp, " "), stateTy, retTy, step))
	rest, err := after.gen()
	if err != nil {
		return "", err
	}
	out := g.fresh("out")
	r := g.fresh("r")
	return fmt.Sprintf("do %s <- %s %s %s %s;\n  match %s with\n  | Ret %s => %s\n  | Next %s => %s\n  end",
		out, name, strings.Join(fa, " "), fuel, strings.Join(sa, " "), out, r, ctx.ret(r), tuple, rest), nil
}

func (g *sg) signature(fd *ast.FuncDecl) (*sgSig, error) {
	if g.rh {
		return g.rhSignature(fd)
	}
	sig := &sgSig{name: fd.Name.Name, mutated: -1}
	if fd.Recv != nil || (fd.Type.TypeParams != nil && !(g.dedup && fd.Name.Name == "RemoveSequences") && !g.dioGeneric(fd.Name.Name)) {
		return nil, fmt.Errorf("methods and generic functions are not supported")
	}
	for _, f := range fd.Type.Params.List {
		t, err := g.goType(f.Type)
		if err != nil {
			switch types.ExprString(f.Type) {
			case "[2][2]float64", "pointindex.Level":
				t = stOpaque
			case "map[intgeom.Point][]int": // only handed on to splitRing, together with ringIdx
				if !g.cleanup {
					return nil, err
				}
				t = stOpaque
			default:
				return nil, err
			}
		}
		if len(f.Names) == 0 {
			return nil, fmt.Errorf("unnamed parameter")
		}
		for _, n := range f.Names {
			if g.cleanup && n.Name == g.multiParams[1] && t == stInt {
				sig.params = append(sig.params, lfield{n.Name, stOpaque})
				continue
			}
			sig.params = append(sig.params, lfield{n.Name, t})
		}
	}
	switch {
	case fd.Type.Results == nil || len(fd.Type.Results.List) == 0:
		asg := map[string]bool{}
		sgAssigned(fd.Body.List, asg)
		for i, p := range sig.params {
			if (p.ty == stInts || p.ty == stPts) && asg[p.name] {
				// re-assigning the parameter itself would not be visible to the caller; only writes through it are
				plain := false
				ast.Inspect(fd.Body, func(n ast.Node) bool {
					if as, ok := n.(*ast.AssignStmt); ok {
						for _, l := range as.Lhs {
							if id, ok := l.(*ast.Ident); ok && id.Name == p.name {
								plain = true
							}
						}
					}
					return true
				})
				if plain || sig.mutated >= 0 || p.ty != stInts {
					return nil, fmt.Errorf("unsupported use of the slice parameter %s", p.name)
				}
				sig.mutated = i
			}
		}
		if sig.mutated < 0 {
			return nil, fmt.Errorf("function without result and without a written slice parameter")
		}
		sig.retTy = sig.params[sig.mutated].ty
	case len(fd.Type.Results.List) == 1 && len(fd.Type.Results.List[0].Names) <= 1:
		t, err := g.goType(fd.Type.Results.List[0].Type)
		if err != nil {
			return nil, err
		}
		sig.result, sig.retTy = t, t
		if len(fd.Type.Results.List[0].Names) == 1 { // a named result starts as the zero value
			if t != stPts || !g.dedup {
				return nil, fmt.Errorf("unsupported named result")
			}
			sig.resultName = fd.Type.Results.List[0].Names[0].Name
		}
	case g.cleanup && len(fd.Type.Results.List) == 1 && len(fd.Type.Results.List[0].Names) == 3 &&
		types.ExprString(fd.Type.Results.List[0].Type) == "[][][2]float64":
		// (outerRings, innerRings, pointsAndLines [][][2]float64): supported when the names are never used
		names := map[string]bool{}
		for _, n := range fd.Type.Results.List[0].Names {
			names[n.Name] = true
		}
		used := false
		ast.Inspect(fd.Body, func(n ast.Node) bool {
			if id, ok := n.(*ast.Ident); ok && names[id.Name] {
				used = true
			}
			return true
		})
		if used {
			return nil, fmt.Errorf("named results that are used are not supported")
		}
		sig.result, sig.retTy = stSets, stSets
	case g.dioResults(fd, sig):
	default:
		return nil, fmt.Errorf("unsupported result list")
	}
	return sig, nil
}

func (g *sg) function(name string) error {
	fd, ok := g.funcs[name]
	if !ok {
		return fmt.Errorf("function %s not found", name)
	}
	sig, err := g.signature(fd)
	if err != nil {
		return fmt.Errorf("%s: %v", name, err)
	}
	g.sigs[name] = sig
	g.cur, g.n, g.loopN, g.pre = sig, 0, 0, nil
	env := &sgEnv{vars: map[string]string{}, made: map[string]bool{}, deref: map[string]string{}, mapOf: map[string]string{}, keyOf: map[string]string{}}
	var params []string
	for _, p := range sig.params {
		if _, dup := env.vars[p.name]; dup || p.name == "_" {
			return fmt.Errorf("%s: unsupported parameter name %s", name, p.name)
		}
		if p.ty == stOpaque { // not a parameter of the generated function
			env.vars[p.name] = stOpaque
			if g.cleanup && p.name == g.multiParams[0] {
				params = append(params, "(isMulti : pt -> bool)")
			}
			continue
		}
		env.declare(p.name, p.ty)
		params = append(params, fmt.Sprintf("(v_%s : %s)", p.name, sgCoq[p.ty]))
	}
	if sig.result != "" {
		// a function with a result must not write through its slice parameters (the caller would not see it here)
		asg := map[string]bool{}
		sgAssigned(fd.Body.List, asg)
		for _, p := range sig.params {
			if asg["call:"+p.name] && p.ty == stInts {
				return fmt.Errorf("%s: passes its parameter %s to a call statement", name, p.name)
			}
		}
		var bad error
		ast.Inspect(fd.Body, func(n ast.Node) bool {
			if as, ok := n.(*ast.AssignStmt); ok {
				for _, l := range as.Lhs {
					if ix, ok := l.(*ast.IndexExpr); ok {
						if id, ok := ix.X.(*ast.Ident); ok {
							for _, p := range sig.params {
								if p.name == id.Name {
									bad = fmt.Errorf("%s: writes through its parameter %s", name, p.name)
								}
							}
						}
					}
				}
			}
			return true
		})
		if bad != nil {
			return bad
		}
	}
	fall := lcont{gen: func() (string, error) {
		if sig.result == "" {
			return "Ok v_" + sig.params[sig.mutated].name, nil
		}
		return "", fmt.Errorf("control reaches the end of the function without a return")
	}, cheap: true}
	ctx := &sgCtx{ret: func(v string) string { return "Ok " + v }}
	prefix := ""
	if sig.resultName != "" {
		if _, dup := env.vars[sig.resultName]; dup {
			return fmt.Errorf("%s: the named result shadows a parameter", name)
		}
		env.declare(sig.resultName, sig.result)
		prefix = "let v_" + sig.resultName + " := (@nil pt) in\n  "
	}
	if g.rh {
		p, err := g.rhDeclareResults(env, sig)
		if err != nil {
			return err
		}
		prefix += p
	}
	body, err := g.stmts(env, fd.Body.List, fall, ctx)
	if err != nil {
		return fmt.Errorf("%s: %v", name, err)
	}
	body = prefix + body
	if g.loopN != len(sgFuel[name]) {
		return fmt.Errorf("%s: %d loops translated, fuel configured for %d", name, g.loopN, len(sgFuel[name]))
	}
	for _, p := range g.pre {
		g.out.WriteString(p)
	}
	pos := g.fset.Position(fd.Pos())
	fmt.Fprintf(&g.out, "(* %s:%d func %s *)\nDefinition gen_%s %s : res %s :=\n  %s.\n\n",
		filepath.Base(pos.Filename), pos.Line, name, name, strings.Join(params, " "), sgCoq[sig.retTy], body)
	g.emitted[name] = true
	return nil
}

func sgLoad(repo string) (*sg, error) {
	g := &sg{fset: token.NewFileSet(), funcs: map[string]*ast.FuncDecl{}, sigs: map[string]*sgSig{}, emitted: map[string]bool{},
		imports: map[string]bool{}, panicsChecked: map[string]bool{}, generic: map[string]string{}, pkgs: map[string]string{}}
	f, err := parser.ParseFile(g.fset, filepath.Join(repo, "snap/snap.go"), nil, 0)
	if err != nil {
		return nil, err
	}
	for _, im := range f.Imports {
		path := strings.Trim(im.Path.Value, `"`)
		name := path[strings.LastIndex(path, "/")+1:]
		if im.Name != nil {
			name = im.Name.Name
		}
		if strings.HasSuffix(path, "/texel/mapslicehelp") {
			g.imports[name] = true
		}
		g.pkgs[name] = path
	}
	for _, d := range f.Decls {
		if fd, ok := d.(*ast.FuncDecl); ok && fd.Recv == nil {
			g.funcs[fd.Name.Name] = fd
		}
		if gd, ok := d.(*ast.GenDecl); ok && gd.Tok == token.CONST {
			for _, sp := range gd.Specs {
				vs := sp.(*ast.ValueSpec)
				for i, n := range vs.Names {
					if n.Name == "xAx" && vs.Type == nil && i < len(vs.Values) {
						if bl, ok := vs.Values[i].(*ast.BasicLit); ok && bl.Value == "0" {
							g.xAxIsZero = true
						}
					}
				}
			}
		}
	}
	for _, shadowed := range []string{"len", "max", "min", "make", "append", "nil", "panic"} { // the builtins must be the builtins
		if _, ok := g.funcs[shadowed]; ok {
			return nil, fmt.Errorf("package snap declares its own %s", shadowed)
		}
	}
	// a panic helper is a function whose whole body is one call of panic
	for name := range sgPanics {
		fd, ok := g.funcs[name]
		if !ok || fd.Body == nil || len(fd.Body.List) != 1 || (fd.Type.Results != nil && len(fd.Type.Results.List) > 0) {
			continue
		}
		if es, ok := fd.Body.List[0].(*ast.ExprStmt); ok {
			if c, ok := es.X.(*ast.CallExpr); ok {
				if id, ok := c.Fun.(*ast.Ident); ok && id.Name == "panic" {
					g.panicsChecked[name] = true
				}
			}
		}
	}
	return g, nil
}

func genKmp(repo string) (string, error) {
	g, err := sgLoad(repo)
	if err != nil {
		return "", err
	}
	g.out.WriteString("(* GENERATED by /verif/translator (G2, loops in the error monad) from snap/snap.go on every run -- do not edit. *)\n")
	g.out.WriteString("From Coq Require Import ZArith List Bool.\nFrom Texel Require Import Prelude.Base Prelude.GoLoop.\nImport ListNotations.\nOpen Scope Z_scope.\n\n")
	for _, name := range []string{"kmpTable", "kmpSearch", "kmpSearchAll"} {
		if err := g.function(name); err != nil {
			return "", err
		}
	}
	return g.out.String(), nil
}

// genSnapSmall: cleanupNewVertices, asPointOrLine, ensureCorrectWindingOrder of snap.go -> gen/SnapSmallGen.v.
// windingOrderIsCorrect (float predicate of the geom library) and mapslicehelp.ReverseClone are the model's.
func genSnapSmall(repo string) (string, error) {
	g, err := sgLoad(repo)
	if err != nil {
		return "", err
	}
	g.useExternals = true
	g.out.WriteString("(* GENERATED by /verif/translator (G2, error monad) from snap/snap.go on every run -- do not edit. *)\n")
	g.out.WriteString("From Coq Require Import ZArith List Bool.\nFrom Texel Require Import Prelude.Base Prelude.GoLoop Index.Model Snap.Model.\nImport ListNotations.\nOpen Scope Z_scope.\n\n")
	for _, name := range []string{"cleanupNewVertices", "asPointOrLine", "ensureCorrectWindingOrder"} {
		if err := g.function(name); err != nil {
			return "", err
		}
	}
	return g.out.String(), nil
}
