package main

import (
	"fmt"
	"go/ast"
	"go/token"
	"go/types"
	"path/filepath"
	"strings"
)

// ---------------------------------------------------------------------------
// G2: splitRing (snap.go), the WHOLE function -> gen/SplitWalkGen.v
//
// The first part of splitRing (the walk over the ring with the ordered map `stack` and the Go map `completeRings`)
// is translated here with the machinery of kmp.go / kmpdedup.go; from the statement `keys := maps.Keys(completeRings)`
// on the function is the regenerated gen_splitRing_tail of gen/SplitTailGen.v (genSplitTail), called with the
// variables that part reads (isOuter, completeRings).
//
// Translated from the AST: every statement, all control flow (range loop with index and `continue`, the inner
// `for r := ..; r != nil; r = r.Prev()` loop with its two `break`s, the nested range loop), which key is set / deleted /
// assigned when and with what, all index and slice expressions (idx / slice: Go's run-time panics), the closing
// tests, the counters.  Each range-loop body is emitted as a definition gen_splitRing_range<N> over the variables
// in scope (parameters) and the variables it assigns (state).
//
// NOT translated, kept as the model's function of the same meaning after checking the AST for the exact call shape
// (TRUSTED micro-models, listed in the generated file and in Snap/ProofsGenSplitWalk.v):
//   S := orderedmap.New[int, [][2]float64]()  (github.com/wk8/go-ordered-map/v2)   ->  []  : stack (oldest first)
//   S.Set(k, v) / S.Delete(k) as statements                                         ->  st_set S k v / st_del S k
//   S.Value(k) / S.Len()                                                            ->  st_value S k / zlen S
//   a, ok := S.Get(k)                                  ->  st_get S k : Some a (ok) | None (the zero value nil = [], !ok)
//   for r := S.Newest().Prev(); r != nil; r = r.Prev() { .. r.Key .. r.Value .. }
//        ->  the entries of S older than the newest one, newer first (tl (rev S)), as a range_loop; Newest() of an empty
//            map is nil and .Prev() on it a nil dereference: Err IndexOutOfRange stands for that run-time panic.
//            The body may change S (Set / Delete) only on a path that ends in `break` (checked), so that the entries
//            read are those of S at loop entry.
//   C := make(map[int][][2]float64); C[k] = v          ->  [] ; insert_sorted k v C   (the entries of the Go map in
//            increasing key order, a later assignment to a key replaces the earlier one; that is how the last part
//            reads it: maps.Keys + sort.Ints)
//   M := verticesHitMultiple(hitMultiple, ringIdx); _, ok := M[v]   ->  ok = isMulti v  (the predicate parameter of the
//            model, as in gen_cleanupNewRing; M must not be used otherwise)
//   panicPartialRingsRemainingOnStack(S)               ->  Err PartialRingsOnStack (checked: no result, no return /
//            recover / defer, the last statement is a call of panic)
//   append(a, x) / append(a, s...) as VALUES (a ++ [x] / a ++ s); make([][2]float64, 0, n) = [].  Slices are values
//            here: that append writes into spare capacity shared between stack values (aliasing) is outside the
//            translation; it is held by the run-time correspondence.
//   for i, x := range l                                ->  range_loop over gen_enumerate 0 l (defined in the file)
// Anything else is a translation error = a generated file that does not compile.
// ---------------------------------------------------------------------------

const (
	stWMap     = "wmap"     // *orderedmap.OrderedMap[int, [][2]float64]: the model's stack
	stWPair    = "wpair"    // *orderedmap.Pair[int, [][2]float64] inside the Newest().Prev() loop: an entry
	stMultiSet = "multiset" // the result of verticesHitMultiple: only usable as _, ok := M[v]
)

var sgWalkMutators = map[string]bool{"Set": true, "Delete": true}

const (
	walkOrderedMapPath = "github.com/wk8/go-ordered-map/v2"
	walkSplitRingSig   = "func(ring [][2]float64, isOuter bool, hitMultiple map[intgeom.Point][]int, ringIdx int) (outerRings, innerRings, pointsAndLines [][][2]float64)"
	walkMultiSig       = "func(hitMultiple map[intgeom.Point][]int, ringIdx int) map[[2]float64]struct{}"
	walkPanicHelper    = "panicPartialRingsRemainingOnStack"
)

func init() {
	sgCoq[stWMap] = "stack"
	sgCoq[stWPair] = "(Z * list pt)%type"
	sgPanics[walkPanicHelper] = "PartialRingsOnStack"
}

// the receiver of a method call `S.m(..)` when S is a variable holding the ordered map
func (g *sg) walkOMapRecv(env *sgEnv, fun ast.Expr) (recv, method string, ok bool) {
	sel, isSel := fun.(*ast.SelectorExpr)
	if !isSel {
		return "", "", false
	}
	id, isId := sel.X.(*ast.Ident)
	if !isId || env.vars[id.Name] != stWMap {
		return "", "", false
	}
	return id.Name, sel.Sel.Name, true
}

func (g *sg) walkIntArg(env *sgEnv, x ast.Expr, binds *[]string, what string) (string, error) {
	v, err := g.expr(env, x, binds)
	if err != nil {
		return "", err
	}
	if v.ty != stInt {
		return "", fmt.Errorf("%s: key of type %s", what, v.ty)
	}
	return v.code, nil
}

// walkSelector: r.Key / r.Value of the pair the Newest().Prev() loop is at
func (g *sg) walkSelector(env *sgEnv, x *ast.SelectorExpr) (sgVal, error) {
	id, ok := x.X.(*ast.Ident)
	if !ok || env.vars[id.Name] != stWPair {
		return sgVal{}, fmt.Errorf("unsupported selector %s", types.ExprString(x))
	}
	switch x.Sel.Name {
	case "Key":
		return sgVal{code: "(fst v_" + id.Name + ")", ty: stInt}, nil
	case "Value":
		return sgVal{code: "(snd v_" + id.Name + ")", ty: stPts}, nil
	}
	return sgVal{}, fmt.Errorf("unsupported field %s of an ordered-map pair", x.Sel.Name)
}

// walkIntsLit: []int{a, b, ..}
func (g *sg) walkIntsLit(env *sgEnv, x *ast.CompositeLit, binds *[]string) (sgVal, error) {
	var items []string
	for _, e := range x.Elts {
		if _, keyed := e.(*ast.KeyValueExpr); keyed {
			return sgVal{}, fmt.Errorf("keyed slice literal")
		}
		v, err := g.expr(env, e, binds)
		if err != nil {
			return sgVal{}, err
		}
		if v.ty != stInt {
			return sgVal{}, fmt.Errorf("[]int literal with %s", v.ty)
		}
		items = append(items, v.code)
	}
	return sgVal{code: "[" + strings.Join(items, "; ") + "]", ty: stInts}, nil
}

// walkCall: the calls of the first part of splitRing that occur in expressions
func (g *sg) walkCall(env *sgEnv, x *ast.CallExpr, binds *[]string) (sgVal, bool, error) {
	if id, ok := x.Fun.(*ast.Ident); ok {
		if _, shadow := env.vars[id.Name]; shadow {
			return sgVal{}, false, nil
		}
		switch {
		case id.Name == "append":
			// append(a, x) / append(a, s...) as a value (aliasing through spare capacity is outside the translation)
			if len(x.Args) != 2 {
				return sgVal{}, true, fmt.Errorf("append with %d arguments is not supported", len(x.Args))
			}
			a, err := g.expr(env, x.Args[0], binds)
			if err != nil {
				return sgVal{}, true, err
			}
			el, isSlice := sgElem(a.ty)
			if !isSlice || (a.ty != stPts && a.ty != stInts) {
				return sgVal{}, true, fmt.Errorf("append to %s", a.ty)
			}
			v, err := g.expr(env, x.Args[1], binds)
			if err != nil {
				return sgVal{}, true, err
			}
			if x.Ellipsis != token.NoPos {
				if v.ty != a.ty {
					return sgVal{}, true, fmt.Errorf("append of %s... to %s", v.ty, a.ty)
				}
				return sgVal{code: "(" + a.code + " ++ " + v.code + ")", ty: a.ty}, true, nil
			}
			if v.ty != el {
				return sgVal{}, true, fmt.Errorf("append of %s to %s", v.ty, a.ty)
			}
			return sgVal{code: "(" + a.code + " ++ [" + v.code + "])", ty: a.ty}, true, nil
		case id.Name == "make" && len(x.Args) == 3:
			// make([][2]float64, 0, n): the empty slice; n (the capacity) has no meaning for the contents
			ty, err := g.goType(x.Args[0])
			if err != nil {
				return sgVal{}, true, err
			}
			lit, isLit := x.Args[1].(*ast.BasicLit)
			if ty != stPts || !isLit || lit.Kind != token.INT || lit.Value != "0" {
				return sgVal{}, true, fmt.Errorf("make with a capacity is only supported as make([][2]float64, 0, n)")
			}
			if !sgStaticallyNonNeg(x.Args[2]) {
				return sgVal{}, true, fmt.Errorf("make with a capacity that is not evidently non-negative")
			}
			var cb []string
			n, err := g.expr(env, x.Args[2], &cb)
			if err != nil || n.ty != stInt || len(cb) != 0 {
				return sgVal{}, true, fmt.Errorf("make: unsupported capacity")
			}
			return sgVal{code: "(@nil pt)", ty: stPts}, true, nil
		}
		return sgVal{}, false, nil
	}
	recv, method, ok := g.walkOMapRecv(env, x.Fun)
	if !ok {
		return sgVal{}, false, nil
	}
	if x.Ellipsis != token.NoPos {
		return sgVal{}, true, fmt.Errorf("unsupported call of %s.%s", recv, method)
	}
	switch method {
	case "Value":
		if len(x.Args) != 1 {
			return sgVal{}, true, fmt.Errorf("%s.Value: wrong number of arguments", recv)
		}
		k, err := g.walkIntArg(env, x.Args[0], binds, recv+".Value")
		if err != nil {
			return sgVal{}, true, err
		}
		return sgVal{code: "(st_value v_" + recv + " " + k + ")", ty: stPts}, true, nil
	case "Len":
		if len(x.Args) != 0 {
			return sgVal{}, true, fmt.Errorf("%s.Len: wrong number of arguments", recv)
		}
		return sgVal{code: "(zlen v_" + recv + ")", ty: stInt}, true, nil
	}
	return sgVal{}, true, fmt.Errorf("%s.%s is not supported as a value (ordered map)", recv, method)
}

// walkCallStmt: S.Set(k, v) / S.Delete(k) as statements (their results are dropped)
func (g *sg) walkCallStmt(env *sgEnv, c *ast.CallExpr) (string, bool, error) {
	recv, method, ok := g.walkOMapRecv(env, c.Fun)
	if !ok {
		return "", false, nil
	}
	if c.Ellipsis != token.NoPos {
		return "", true, fmt.Errorf("unsupported call of %s.%s", recv, method)
	}
	var binds []string
	switch method {
	case "Set":
		if len(c.Args) != 2 {
			return "", true, fmt.Errorf("%s.Set: wrong number of arguments", recv)
		}
		k, err := g.walkIntArg(env, c.Args[0], &binds, recv+".Set")
		if err != nil {
			return "", true, err
		}
		v, err := g.expr(env, c.Args[1], &binds)
		if err != nil {
			return "", true, err
		}
		if v, err = g.conv(v, stPts); err != nil {
			return "", true, fmt.Errorf("%s.Set: %v", recv, err)
		}
		return sgJoin(binds, fmt.Sprintf("let v_%s := (st_set v_%s %s %s) in", recv, recv, k, v.code)), true, nil
	case "Delete":
		if len(c.Args) != 1 {
			return "", true, fmt.Errorf("%s.Delete: wrong number of arguments", recv)
		}
		k, err := g.walkIntArg(env, c.Args[0], &binds, recv+".Delete")
		if err != nil {
			return "", true, err
		}
		return sgJoin(binds, fmt.Sprintf("let v_%s := (st_del v_%s %s) in", recv, recv, k)), true, nil
	}
	return "", true, fmt.Errorf("%s.%s is not supported as a statement (ordered map)", recv, method)
}

func (g *sg) walkFreshName(env *sgEnv, x ast.Expr, allowBlank bool) (string, error) {
	id, ok := x.(*ast.Ident)
	if !ok {
		return "", fmt.Errorf("unsupported assignment target %s", types.ExprString(x))
	}
	if id.Name == "_" {
		if allowBlank {
			return "_", nil
		}
		return "", fmt.Errorf("unsupported assignment to _")
	}
	if _, exists := env.vars[id.Name]; exists {
		return "", fmt.Errorf(":= of the existing variable %s is not supported", id.Name)
	}
	return id.Name, nil
}

// walkDefine: the assignments of the first part of splitRing that are not plain `x := value` / `x = value`.
func (g *sg) walkDefine(env *sgEnv, s *ast.AssignStmt) ([]string, *sgEnv, bool, error) {
	env2 := env.clone()
	var lines []string
	shadowed := func(n string) bool { _, s := env.vars[n]; return s }
	// C[k] = v on the Go map of complete rings
	if s.Tok == token.ASSIGN && len(s.Lhs) == 1 && len(s.Rhs) == 1 {
		if ix, ok := s.Lhs[0].(*ast.IndexExpr); ok {
			if m, ok := ix.X.(*ast.Ident); ok && env.vars[m.Name] == stCMap {
				k, err := g.walkIntArg(env, ix.Index, &lines, m.Name+"[..]")
				if err != nil {
					return nil, nil, true, err
				}
				v, err := g.expr(env, s.Rhs[0], &lines)
				if err != nil {
					return nil, nil, true, err
				}
				if v, err = g.conv(v, stPts); err != nil {
					return nil, nil, true, fmt.Errorf("%s[..] = ..: %v", m.Name, err)
				}
				lines = append(lines, fmt.Sprintf("let v_%s := (insert_sorted %s %s v_%s) in", m.Name, k, v.code, m.Name))
				return lines, env2, true, nil
			}
		}
	}
	if s.Tok != token.DEFINE || len(s.Rhs) != 1 {
		return nil, nil, false, nil
	}
	// a, ok := S.Get(k)   |   _, ok := M[v]
	if len(s.Lhs) == 2 {
		a, err := g.walkFreshName(env, s.Lhs[0], true)
		if err != nil {
			return nil, nil, true, err
		}
		okName, err := g.walkFreshName(env, s.Lhs[1], true)
		if err != nil {
			return nil, nil, true, err
		}
		if a == okName && a != "_" {
			return nil, nil, true, fmt.Errorf("%s assigned twice in one statement", a)
		}
		coq := func(n string) string {
			if n == "_" {
				return "_"
			}
			return "v_" + n
		}
		switch r := s.Rhs[0].(type) {
		case *ast.CallExpr:
			recv, method, ok := g.walkOMapRecv(env, r.Fun)
			if !ok || method != "Get" || len(r.Args) != 1 || r.Ellipsis != token.NoPos {
				return nil, nil, true, fmt.Errorf("unsupported two-valued call %s", types.ExprString(r.Fun))
			}
			k, err := g.walkIntArg(env, r.Args[0], &lines, recv+".Get")
			if err != nil {
				return nil, nil, true, err
			}
			p := g.fresh("p")
			lines = append(lines, fmt.Sprintf("let '(%s, %s) := (match st_get v_%s %s with Some %s => (%s, true) | None => ((@nil pt), false) end) in",
				coq(a), coq(okName), recv, k, p, p))
			if a != "_" {
				env2.declare(a, stPts)
			}
			if okName != "_" {
				env2.declare(okName, stBool)
			}
			return lines, env2, true, nil
		case *ast.IndexExpr:
			m, ok := r.X.(*ast.Ident)
			if !ok || env.vars[m.Name] != stMultiSet {
				return nil, nil, true, fmt.Errorf("unsupported two-valued index expression %s", types.ExprString(r))
			}
			if a != "_" {
				return nil, nil, true, fmt.Errorf("the elements of %s carry no value (struct{}): only `_, ok := %s[v]` is supported", m.Name, m.Name)
			}
			v, err := g.expr(env, r.Index, &lines)
			if err != nil {
				return nil, nil, true, err
			}
			if v.ty != stPt {
				return nil, nil, true, fmt.Errorf("%s[..] with a key of type %s", m.Name, v.ty)
			}
			if okName != "_" {
				lines = append(lines, fmt.Sprintf("let v_%s := (isMulti %s) in", okName, v.code))
				env2.declare(okName, stBool)
			}
			return lines, env2, true, nil
		}
		return nil, nil, true, fmt.Errorf("unsupported assignment of a multi-valued expression")
	}
	if len(s.Lhs) != 1 {
		return nil, nil, false, nil
	}
	c, ok := s.Rhs[0].(*ast.CallExpr)
	if !ok {
		return nil, nil, false, nil
	}
	switch fun := types.ExprString(c.Fun); {
	case fun == "orderedmap.New[int, [][2]float64]":
		// S := orderedmap.New[int, [][2]float64]()
		if g.pkgs["orderedmap"] != walkOrderedMapPath || shadowed("orderedmap") || len(c.Args) != 0 {
			return nil, nil, true, fmt.Errorf("orderedmap.New: not %s, or called with options", walkOrderedMapPath)
		}
		name, err := g.walkFreshName(env, s.Lhs[0], false)
		if err != nil {
			return nil, nil, true, err
		}
		env2.declare(name, stWMap)
		return []string{fmt.Sprintf("let v_%s := (@nil (Z * list pt)%%type) in", name)}, env2, true, nil
	case strings.HasPrefix(fun, "orderedmap."):
		return nil, nil, true, fmt.Errorf("unsupported %s", fun)
	case fun == "verticesHitMultiple":
		// M := verticesHitMultiple(hitMultiple, ringIdx): membership in M is the model's isMulti
		fd := g.funcs["verticesHitMultiple"]
		if fd == nil || shadowed("verticesHitMultiple") || types.ExprString(fd.Type) != walkMultiSig {
			return nil, nil, true, fmt.Errorf("verticesHitMultiple is not %s", walkMultiSig)
		}
		if len(c.Args) != 2 {
			return nil, nil, true, fmt.Errorf("verticesHitMultiple: wrong number of arguments")
		}
		h, ok1 := c.Args[0].(*ast.Ident)
		i, ok2 := c.Args[1].(*ast.Ident)
		if !ok1 || !ok2 || h.Name != g.multiParams[0] || i.Name != g.multiParams[1] ||
			env.vars[h.Name] != stOpaque || env.vars[i.Name] != stOpaque || c.Ellipsis != token.NoPos {
			return nil, nil, true, fmt.Errorf("verticesHitMultiple: the arguments are not the parameters (%s, %s)", g.multiParams[0], g.multiParams[1])
		}
		name, err := g.walkFreshName(env, s.Lhs[0], false)
		if err != nil {
			return nil, nil, true, err
		}
		env2.vars[name] = stMultiSet // no value: only `_, ok := M[v]`
		return []string{fmt.Sprintf("(* %s[v] = isMulti v *)", name)}, env2, true, nil
	case fun == "make" && !shadowed("make") && len(c.Args) == 1 && types.ExprString(c.Args[0]) == "map[int][][2]float64":
		// C := make(map[int][][2]float64)
		name, err := g.walkFreshName(env, s.Lhs[0], false)
		if err != nil {
			return nil, nil, true, err
		}
		env2.declare(name, stCMap)
		return []string{fmt.Sprintf("let v_%s := (@nil (Z * list pt)%%type) in", name)}, env2, true, nil
	}
	return nil, nil, false, nil
}

// walkIfInit: if <init>; cond { } else { } with one of the two-valued definitions of walkDefine as init;
// the variables it declares are in scope in the condition and both branches only.
func (g *sg) walkIfInit(env *sgEnv, s *ast.IfStmt, after lcont, ctx *sgCtx) (string, error) {
	as, ok := s.Init.(*ast.AssignStmt)
	if !ok || as.Tok != token.DEFINE || len(as.Lhs) != 2 {
		return "", fmt.Errorf("unsupported if with init")
	}
	lines, env2, handled, err := g.walkDefine(env, as)
	if err != nil {
		return "", err
	}
	if !handled {
		return "", fmt.Errorf("unsupported if with init")
	}
	eb, err := lgElse(s)
	if err != nil {
		return "", err
	}
	body, err := g.branch(env2, []ast.Expr{s.Cond}, [][]ast.Stmt{s.Body.List}, eb, after, ctx)
	if err != nil {
		return "", err
	}
	return sgJoin(lines, body), nil
}

func walkHasIndexVar(s *ast.RangeStmt) bool {
	id, ok := s.Key.(*ast.Ident)
	return s.Key != nil && (!ok || id.Name != "_")
}

// walkRange: a loop over the elements of a list, its body emitted as the definition gen_<func>_range<N> over the
// variables in scope (parameters), the element and the variables the body assigns (state).
func (g *sg) walkRange(env *sgEnv, pos token.Pos, what string, elem, elemTy string, declare func(*sgEnv) ([]string, error),
	body []ast.Stmt, list string, after lcont, ctx *sgCtx) (string, error) {
	asg := map[string]bool{}
	sgAssigned(body, asg)
	if asg["?"] {
		return "", fmt.Errorf("%s: unsupported assignment target", what)
	}
	g.walkN++
	n := g.walkN
	name := fmt.Sprintf("gen_%s_range%d", g.cur.name, n)
	var state, sty, fp, fa []string
	for _, v := range env.order {
		switch {
		case asg[v]:
			state = append(state, "v_"+v)
			sty = append(sty, sgCoq[env.vars[v]])
		case asg["call:"+v] && env.vars[v] == stInts:
			return "", fmt.Errorf("%s: call statements that write through %s are not supported", what, v)
		default:
			if _, ok := sgCoq[env.vars[v]]; !ok {
				return "", fmt.Errorf("%s: the variable %s (%s) cannot cross a loop", what, v, env.vars[v])
			}
			fp = append(fp, fmt.Sprintf("(v_%s : %s)", v, sgCoq[env.vars[v]]))
			fa = append(fa, "v_"+v)
		}
	}
	if len(state) == 0 {
		return "", fmt.Errorf("%s: a loop that assigns nothing", what)
	}
	tuple, pattern, stateTy := state[0], fmt.Sprintf("(%s : %s)", state[0], sty[0]), sty[0]
	if len(state) > 1 {
		tuple = "(" + strings.Join(state, ", ") + ")"
		stateTy = "(" + strings.Join(sty, " * ") + ")%type"
		pattern = fmt.Sprintf("'(%s : %s)", tuple, stateTy)
	}
	bodyEnv := env.clone()
	lets, err := declare(bodyEnv)
	if err != nil {
		return "", err
	}
	for v := range bodyEnv.vars {
		if _, outer := env.vars[v]; !outer && asg[v] {
			return "", fmt.Errorf("%s: the loop variable %s is assigned in the body", what, v)
		}
	}
	bodyEnv.rangeVar = map[string]bool{}
	inner := &sgCtx{
		ret:  func(v string) string { return "Ok (RRet " + v + ")" },
		brk:  func() (string, error) { return "Ok (Brk " + tuple + ")", nil },
		cont: func() (string, error) { return "Ok (Cont " + tuple + ")", nil },
	}
	k := lcont{gen: func() (string, error) { return "Ok (Cont " + tuple + ")", nil }, cheap: true}
	code, err := g.stmts(bodyEnv, body, k, inner)
	if err != nil {
		return "", err
	}
	p := g.fset.Position(pos)
	retTy := sgCoq[g.cur.retTy]
	g.pre = append(g.pre, fmt.Sprintf("(* %s:%d %s = range loop %d of %s; state = %s *)\nDefinition %s (isMulti : pt -> bool) %s (%s : %s) %s : res (rctl %s %s) :=\n  %s.\n\n",
		filepath.Base(p.Filename), p.Line, what, n, g.cur.name, tuple, name, strings.Join(fp, " "), elem, elemTy, pattern, stateTy, retTy,
		sgJoin(lets, code)))
	rest, err := after.gen()
	if err != nil {
		return "", err
	}
	out, r := g.fresh("out"), g.fresh("r")
	return fmt.Sprintf("do %s <- range_loop (R := %s) (%s isMulti %s) %s %s;\n  match %s with\n  | Ret %s => %s\n  | Next %s => %s\n  end",
		out, retTy, name, strings.Join(fa, " "), list, tuple, out, r, ctx.ret(r), tuple, rest), nil
}

// walkIndexRange: for i, x := range l { body }  (also `for i := range l`)
func (g *sg) walkIndexRange(env *sgEnv, s *ast.RangeStmt, after lcont, ctx *sgCtx) (string, error) {
	if s.Tok != token.DEFINE {
		return "", fmt.Errorf("unsupported range loop (no :=)")
	}
	key, ok := s.Key.(*ast.Ident)
	if !ok {
		return "", fmt.Errorf("unsupported range loop (index expression)")
	}
	valName := "_"
	if s.Value != nil {
		val, ok := s.Value.(*ast.Ident)
		if !ok {
			return "", fmt.Errorf("unsupported range loop (element expression)")
		}
		valName = val.Name
	}
	for _, n := range []string{key.Name, valName} {
		if _, exists := env.vars[n]; exists {
			return "", fmt.Errorf("range variable %s shadows a variable in scope", n)
		}
	}
	if key.Name == valName {
		return "", fmt.Errorf("range loop with the same variable twice")
	}
	var binds []string
	l, err := g.expr(env, s.X, &binds)
	if err != nil {
		return "", err
	}
	el, isSlice := sgElem(l.ty)
	if !isSlice {
		return "", fmt.Errorf("range over %s", l.ty)
	}
	ix := g.fresh("ix")
	declare := func(e *sgEnv) ([]string, error) {
		e.declare(key.Name, stInt)
		lets := []string{fmt.Sprintf("let v_%s := (fst %s) in", key.Name, ix)}
		if valName != "_" {
			e.declare(valName, el)
			lets = append(lets, fmt.Sprintf("let v_%s := (snd %s) in", valName, ix))
		}
		return lets, nil
	}
	out, err := g.walkRange(env, s.Pos(), "for "+key.Name+", "+valName+" := range "+types.ExprString(s.X), ix,
		"(Z * "+sgCoq[el]+")%type", declare, s.Body.List, "(gen_enumerate 0 "+l.code+")", after, ctx)
	if err != nil {
		return "", err
	}
	return sgJoin(binds, out), nil
}

// walkMutates: does the node contain a Set / Delete on the ordered map S (or an assignment that involves S)?
func walkMutates(n ast.Node, s string) bool {
	found := false
	ast.Inspect(n, func(n ast.Node) bool {
		if c, ok := n.(*ast.CallExpr); ok {
			if sel, ok := c.Fun.(*ast.SelectorExpr); ok {
				if id, ok := sel.X.(*ast.Ident); ok && id.Name == s && sel.Sel.Name != "Value" && sel.Sel.Name != "Len" && sel.Sel.Name != "Get" && sel.Sel.Name != "Newest" {
					found = true
				}
			}
		}
		return true
	})
	return found
}

// walkMutationEndsLoop: inside the Newest().Prev() loop a statement that changes the map must be followed, in its
// own statement list, by a `break` of that loop: the next pair is never taken from a changed map.
func walkMutationEndsLoop(list []ast.Stmt, s string) error {
	for i, st := range list {
		switch st := st.(type) {
		case *ast.IfStmt:
			if st.Init != nil && walkMutates(st.Init, s) || walkMutates(st.Cond, s) {
				return fmt.Errorf("the ordered map %s is changed in an if header inside the loop over its pairs", s)
			}
			if err := walkMutationEndsLoop(st.Body.List, s); err != nil {
				return err
			}
			if st.Else != nil {
				eb, err := lgElse(st)
				if err != nil {
					return err
				}
				if err := walkMutationEndsLoop(eb, s); err != nil {
					return err
				}
			}
		case *ast.BlockStmt:
			if err := walkMutationEndsLoop(st.List, s); err != nil {
				return err
			}
		default:
			if !walkMutates(st, s) {
				continue
			}
			ok := false
			for _, later := range list[i+1:] {
				if b, isB := later.(*ast.BranchStmt); isB && b.Tok == token.BREAK && b.Label == nil {
					ok = true
					break
				}
				if _, isRet := later.(*ast.ReturnStmt); isRet {
					ok = true
					break
				}
				switch later.(type) {
				case *ast.ExprStmt, *ast.AssignStmt, *ast.IncDecStmt, *ast.RangeStmt: // straight-line (a nested range loop has its own break)
				default:
					return fmt.Errorf("the ordered map %s is changed inside the loop over its pairs, followed by %T", s, later)
				}
			}
			if !ok {
				return fmt.Errorf("the ordered map %s is changed inside the loop over its pairs on a path that does not end in break", s)
			}
		}
	}
	return nil
}

// walkPairLoop: for r := S.Newest().Prev(); r != nil; r = r.Prev() { body }
func (g *sg) walkPairLoop(env *sgEnv, s *ast.ForStmt, after lcont, ctx *sgCtx) (string, bool, error) {
	as, ok := s.Init.(*ast.AssignStmt)
	if !ok || as.Tok != token.DEFINE || len(as.Lhs) != 1 || len(as.Rhs) != 1 {
		return "", false, nil
	}
	// r := S.Newest().Prev()
	prev, ok := as.Rhs[0].(*ast.CallExpr)
	if !ok {
		return "", false, nil
	}
	psel, ok := prev.Fun.(*ast.SelectorExpr)
	if !ok {
		return "", false, nil
	}
	newest, ok := psel.X.(*ast.CallExpr)
	if !ok {
		return "", false, nil
	}
	recv, method, ok := g.walkOMapRecv(env, newest.Fun)
	if !ok {
		return "", false, nil
	}
	fail := func(f string, a ...any) (string, bool, error) { return "", true, fmt.Errorf(f, a...) }
	if method != "Newest" || len(newest.Args) != 0 || psel.Sel.Name != "Prev" || len(prev.Args) != 0 {
		return fail("unsupported loop over the ordered map %s: only `for r := %s.Newest().Prev(); r != nil; r = r.Prev()`", recv, recv)
	}
	r, err := g.walkFreshName(env, as.Lhs[0], false)
	if err != nil {
		return "", true, err
	}
	// r != nil
	cond, ok := s.Cond.(*ast.BinaryExpr)
	if !ok || cond.Op != token.NEQ || types.ExprString(cond.X) != r || types.ExprString(cond.Y) != "nil" {
		return fail("loop over the ordered map %s: the condition is not `%s != nil`", recv, r)
	}
	if _, shadow := env.vars["nil"]; shadow || r == "nil" {
		return fail("nil is shadowed")
	}
	// r = r.Prev()
	post, ok := s.Post.(*ast.AssignStmt)
	if !ok || post.Tok != token.ASSIGN || len(post.Lhs) != 1 || len(post.Rhs) != 1 ||
		types.ExprString(post.Lhs[0]) != r || types.ExprString(post.Rhs[0]) != r+".Prev()" {
		return fail("loop over the ordered map %s: the post statement is not `%s = %s.Prev()`", recv, r, r)
	}
	if err := walkMutationEndsLoop(s.Body.List, recv); err != nil {
		return "", true, err
	}
	// `continue` would run the post statement: fine (Cont); a labelled branch is rejected by stmts
	declare := func(e *sgEnv) ([]string, error) {
		e.declare(r, stWPair)
		return nil, nil
	}
	older := g.fresh("older")
	loop, err := g.walkRange(env, s.Pos(), fmt.Sprintf("for %s := %s.Newest().Prev(); %s != nil; %s = %s.Prev()", r, recv, r, r, r),
		"v_"+r, sgCoq[stWPair], declare, s.Body.List, older, after, ctx)
	if err != nil {
		return "", true, err
	}
	return fmt.Sprintf("match rev v_%s with\n  | [] => Err IndexOutOfRange (* %s.Newest() = nil: nil dereference *)\n  | _ :: %s => (%s)\n  end", recv, recv, older, loop), true, nil
}

// walkAlwaysPanics: a helper without result whose last statement is a call of panic and that cannot leave otherwise
func walkAlwaysPanics(fd *ast.FuncDecl) bool {
	if fd == nil || fd.Body == nil || len(fd.Body.List) == 0 || (fd.Type.Results != nil && len(fd.Type.Results.List) > 0) {
		return false
	}
	es, ok := fd.Body.List[len(fd.Body.List)-1].(*ast.ExprStmt)
	if !ok {
		return false
	}
	c, ok := es.X.(*ast.CallExpr)
	if !ok {
		return false
	}
	if id, ok := c.Fun.(*ast.Ident); !ok || id.Name != "panic" {
		return false
	}
	clean := true
	ast.Inspect(fd.Body, func(n ast.Node) bool {
		switch n := n.(type) {
		case *ast.ReturnStmt, *ast.DeferStmt, *ast.GoStmt, *ast.FuncLit:
			clean = false
		case *ast.BranchStmt:
			if n.Tok == token.GOTO || n.Label != nil {
				clean = false
			}
		case *ast.Ident:
			if n.Name == "recover" {
				clean = false
			}
		}
		return true
	})
	return clean
}

// genSplitWalk: the whole of splitRing -> gen/SplitWalkGen.v
func genSplitWalk(repo string) (string, error) {
	g, err := sgLoad(repo)
	if err != nil {
		return "", err
	}
	g.dedup, g.splitWalk = true, true
	fd, ok := g.funcs["splitRing"]
	if !ok {
		return "", fmt.Errorf("splitRing not found")
	}
	if got := types.ExprString(fd.Type); got != walkSplitRingSig {
		return "", fmt.Errorf("splitRing has the signature %s", got)
	}
	if _, own := g.funcs["panic"]; own || !walkAlwaysPanics(g.funcs[walkPanicHelper]) {
		return "", fmt.Errorf("%s is not a helper that always panics", walkPanicHelper)
	}
	g.panicsChecked[walkPanicHelper] = true
	g.multiParams = [2]string{"hitMultiple", "ringIdx"}
	// the cut: the statement `keys := maps.Keys(C)` from which on the function is gen_splitRing_tail (genSplitTail)
	cut, mapName := -1, ""
	for i, st := range fd.Body.List {
		if as, ok := st.(*ast.AssignStmt); ok && as.Tok == token.DEFINE && len(as.Rhs) == 1 {
			if c, ok := as.Rhs[0].(*ast.CallExpr); ok && types.ExprString(c.Fun) == "maps.Keys" && len(c.Args) == 1 {
				if m, ok := c.Args[0].(*ast.Ident); ok && cut < 0 {
					cut, mapName = i, m.Name
				}
			}
		}
	}
	if cut < 0 {
		return "", fmt.Errorf("splitRing: the statement `keys := maps.Keys(completeRings)` was not found")
	}
	// the named results are nil until the cut (genSplitTail starts from that); they must not occur before it
	var bad error
	for _, st := range fd.Body.List[:cut] {
		ast.Inspect(st, func(n ast.Node) bool {
			if id, ok := n.(*ast.Ident); ok && (id.Name == "outerRings" || id.Name == "innerRings" || id.Name == "pointsAndLines") {
				bad = fmt.Errorf("splitRing: %s is used before the classification part", id.Name)
			}
			return true
		})
	}
	if bad != nil {
		return "", bad
	}
	sig := &sgSig{name: "splitRing", mutated: -1, result: stSets, retTy: stSets}
	g.sigs["splitRing"], g.cur, g.n, g.loopN, g.pre = sig, sig, 0, 0, nil
	env := &sgEnv{vars: map[string]string{}, made: map[string]bool{}, deref: map[string]string{}, mapOf: map[string]string{}, keyOf: map[string]string{}}
	env.declare("ring", stPts)
	env.declare("isOuter", stBool)
	env.vars["hitMultiple"], env.vars["ringIdx"] = stOpaque, stOpaque
	fall := lcont{gen: func() (string, error) {
		return fmt.Sprintf("(gen_splitRing_tail v_isOuter v_%s)", mapName), nil
	}, cheap: true}
	// the first part may not leave the function: a return there would skip the classification
	for _, st := range fd.Body.List[:cut] {
		ast.Inspect(st, func(n ast.Node) bool {
			if _, ok := n.(*ast.ReturnStmt); ok {
				bad = fmt.Errorf("splitRing: return before the classification part")
			}
			return true
		})
	}
	if bad != nil {
		return "", bad
	}
	// completeRings must be declared (by make) at the top level of the first part, so that it is in scope at the cut
	declared := false
	for _, st := range fd.Body.List[:cut] {
		if as, ok := st.(*ast.AssignStmt); ok && as.Tok == token.DEFINE && len(as.Lhs) == 1 && len(as.Rhs) == 1 {
			if id, ok := as.Lhs[0].(*ast.Ident); ok && id.Name == mapName && types.ExprString(as.Rhs[0]) == "make(map[int][][2]float64)" {
				declared = true
			}
		}
	}
	if !declared {
		return "", fmt.Errorf("splitRing: %s is not `make(map[int][][2]float64)`", mapName)
	}
	body, err := g.stmts(env, fd.Body.List[:cut], fall, &sgCtx{ret: func(v string) string { return "Ok " + v }})
	if err != nil {
		return "", fmt.Errorf("splitRing (first part): %v", err)
	}
	if g.loopN != 0 {
		return "", fmt.Errorf("splitRing (first part): unexpected for loop")
	}
	g.out.WriteString("(* GENERATED by /verif/translator (G2, error monad) from snap/snap.go on every run -- do not edit.\n")
	g.out.WriteString(walkTrusted)
	g.out.WriteString("*)\n")
	g.out.WriteString("From Coq Require Import ZArith List Bool.\nFrom Texel Require Import Prelude.Base Prelude.GoLoop Index.Model Snap.Model.\nFrom Texel.Gen Require Import SplitTailGen.\nImport ListNotations.\nOpen Scope Z_scope.\n\n")
	g.out.WriteString("(* for i, x := range l: the elements of l with their indices i, i+1, .. *)\nFixpoint gen_enumerate {A : Type} (i : Z) (l : list A) : list (Z * A) :=\n  match l with\n  | [] => []\n  | x :: l' => (i, x) :: gen_enumerate (i + 1) l'\n  end.\n\n")
	for _, p := range g.pre {
		g.out.WriteString(p)
	}
	pos := g.fset.Position(fd.Pos())
	cpos := g.fset.Position(fd.Body.List[cut].Pos())
	fmt.Fprintf(&g.out, "(* %s:%d func splitRing; from line %d on it is gen_splitRing_tail (SplitTailGen.v) *)\nDefinition gen_splitRing (v_ring : (list pt)) (v_isOuter : bool) (isMulti : pt -> bool) : res ringSets :=\n  %s.\n",
		filepath.Base(pos.Filename), pos.Line, cpos.Line, body)
	return g.out.String(), nil
}

const walkTrusted = `   The whole of splitRing.  Every statement, the control flow, the index / slice expressions and which key is
   set / deleted / assigned when are derived from the AST.  Kept as the model's function of the same meaning after
   an AST check of the exact call shape (TRUSTED micro-models):
     S := orderedmap.New[int, [][2]float64]() = [] : stack;  S.Set(k, v) = st_set;  S.Delete(k) = st_del;
     S.Value(k) = st_value;  S.Len() = zlen;  a, ok := S.Get(k) = st_get (None: a = nil = [], ok = false);
     for r := S.Newest().Prev(); r != nil; r = r.Prev() = range_loop over the entries older than the newest one,
       newer first (tl (rev S)); Newest() = nil (empty map) is a nil dereference, written Err IndexOutOfRange;
       the body changes S only on a path that ends in break (checked);
     C := make(map[int][][2]float64) = [];  C[k] = v is insert_sorted k v C (entries in increasing key order, a later
       assignment to a key replaces the earlier one);
     M := verticesHitMultiple(hitMultiple, ringIdx);  _, ok := M[v]  is  ok := isMulti v;
     panicPartialRingsRemainingOnStack(S) = Err PartialRingsOnStack;
     append(a, x) = a ++ [x], append(a, s...) = a ++ s, make([][2]float64, 0, n) = []: slices are VALUES; that append
       writes into spare capacity shared between stack values (aliasing) is outside the translation and is held by
       the run-time correspondence;  for i, x := range l = range_loop over gen_enumerate 0 l.
`
