package main

import (
	"fmt"
	"go/ast"
	"go/parser"
	"go/token"
	"go/types"
	"math/big"
	"path/filepath"
	"strconv"
	"strings"
)

// ---------------------------------------------------------------------------
// G2 (float predicates): geomhelp.Shoelace, geomhelp.RayIntersect (geomhelp/geomhelp.go) and windingOrderIsCorrect
// (snap/snap.go) -> gen/GeomHelpGen.v, statement by statement, in the monad `res` of Prelude/Base.v with the
// vocabulary of Snap/GoGeomHelp.v (the float vocabulary of Tms/GoAddr.v: float64 read as EXACT Q).
//
//   float64                 exact Q: + - * = Qplus Qminus Qmult; == != < <= > >= = Qeq_bool, Qltb, Qle_bool (operands
//                           exchanged for > and >=); literals = the exact rational (n # d)
//   x / y  (float64)        do t <- fdiv x y   (a zero divisor is Err DivZero: Go yields +-Inf / NaN, which has no
//                           rational reading; NOT Coq's x / 0 = 0);  x / c for a non-zero literal c: the plain (x / c)%Q
//   math.Abs(x)             Qabs x
//   math.Nextafter(x, math.Inf(1))      go_nextafter_up eps x = x + eps, eps : Q a PARAMETER of the generated function
//   [2]float64              qpt = Q * Q (an array: copied by assignment); p[0] / p[1] = fst / snd; p[0] = v -> let p := set0 p v
//   [][2]float64            list qpt; len(s) = zlen s (exact Z, only len(s), len(s) + c, len(s) - c and comparisons);
//                           s[i] = do t <- idx s i  (Err IndexOutOfRange = the run-time panic)
//   x := e, x = e, x += e   let v_x := .. in       a, b = c, d  ->  let '(v_a, v_b) := (c, d) in   (parallel)
//   return a, b             Ok (a, b)
//   if c {A} else {B}; rest without return inside: let '(assigned) := if c then A; (assigned) else B; (assigned) in rest
//                           with a return inside:  let k_n (assigned) := rest in if c then A[k_n assigned] else B[k_n assigned]
//                           (k_n is called where a branch falls through; nothing is bound when rest is empty)
//   for _, x := range s {B} let '(state) := fold_left (gen_<f>_range<n> ..) s (state) in   (B: assignments and
//                           return-free ifs only; state = the variables B assigns; no break / continue / return)
//
// MAPPED to a micro-model of Snap/GoGeomHelp.v, not translated (TRUSTED; import path and call shape checked):
//   winding.Order{}.OfPoints(ring...)                           winding_OfPoints ring  (go-spatial/geom/winding)
//   w.IsClockwise() / .IsCounterClockwise() / .IsColinear()      winding_IsClockwise w / ..
// A second generator (genGeomHelpFloat -> gen/GeomHelpFloatGen.v) runs the same walker over Shoelace and RayIntersect
// with every float operation printed as a field of the record fops of Snap/GoFloatOps.v (float64 = fT fo): the rational
// instance is the definition above (reflexivity), the binary64 instance (Coq.Floats.SpecFloat) is executable and is
// used to replay float defects bit for bit (C04_regression_F23, C05_ray_intersect_nudge_witness).
//
// Anything else (other statements, calls, types, shadowing or redeclaration of a name, a division inside the right
// operand of && / ||, named results that are used, generics, receivers ..) is a translation failure naming the position.
// ---------------------------------------------------------------------------

const (
	ghFloat   = "float"
	ghInt     = "int"
	ghBool    = "bool"
	ghPoint   = "point"
	ghPoints  = "points"
	ghWinding = "winding"
)

var ghCoqTy = map[string]string{ghFloat: "Q", ghInt: "Z", ghBool: "bool", ghPoint: "qpt", ghPoints: "(list qpt)", ghWinding: "winding"}

var ghGoTy = map[string]string{"float64": ghFloat, "bool": ghBool, "[2]float64": ghPoint, "[][2]float64": ghPoints}

const ghWindingPath = "github.com/go-spatial/geom/winding"

type ghVar struct{ name, ty string }

type ghGen struct {
	fset    *token.FileSet
	rel     string
	imports map[string]string // local name -> import path
	fn      string
	vars    []ghVar         // variables in scope, in declaration order
	ever    map[string]bool // every name declared so far in this function (a second declaration is refused)
	results []string
	tmp     int
	kn      int
	rn      int
	usesEps bool
	generic bool // emit the version over an abstract float type (record fops of Snap/GoFloatOps.v)
	nudges  int
	aux     []string
}

func (g *ghGen) errf(n ast.Node, format string, a ...interface{}) error {
	p := g.fset.Position(n.Pos())
	return fmt.Errorf("%s:%d:%d: func %s: %s", g.rel, p.Line, p.Column, g.fn, fmt.Sprintf(format, a...))
}

func (g *ghGen) lookup(name string) (string, bool) {
	for i := len(g.vars) - 1; i >= 0; i-- {
		if g.vars[i].name == name {
			return g.vars[i].ty, true
		}
	}
	return "", false
}

func (g *ghGen) declare(n ast.Node, name, ty string) error {
	if name == "_" {
		return g.errf(n, "declaration of _")
	}
	if g.ever[name] {
		return g.errf(n, "%s is declared a second time in this function (shadowing / redeclaration is outside the subset)", name)
	}
	if _, isPkg := g.imports[name]; isPkg || name == "len" || name == "true" || name == "false" || name == "eps" {
		return g.errf(n, "the name %s would shadow a package / builtin the translation relies on", name)
	}
	g.ever[name] = true
	g.vars = append(g.vars, ghVar{name, ty})
	return nil
}

var ghGenericTy = map[string]string{ghFloat: "(fT fo)", ghInt: "Z", ghBool: "bool", ghPoint: "(fT fo * fT fo)%type", ghPoints: "(list (fT fo * fT fo))"}

func (g *ghGen) coqTy(ty string) string {
	if g.generic {
		return ghGenericTy[ty]
	}
	return ghCoqTy[ty]
}

// the float operations: over Q (Snap/GoGeomHelp.v) or, in the generic version, fields of the record fops
var ghQOps = map[string]string{"add": "(%s + %s)%%Q", "sub": "(%s - %s)%%Q", "mul": "(%s * %s)%%Q", "quo": "(%s / %s)%%Q",
	"opp": "(- %s)%%Q", "abs": "(Qabs %s)", "eqb": "(Qeq_bool %s %s)", "ltb": "(Qltb %s %s)", "leb": "(Qle_bool %s %s)",
	"nextup": "(go_nextafter_up eps %s)", "div": "fdiv %s %s", "set0": "(set0 %s %s)", "set1": "(set1 %s %s)"}

func (g *ghGen) op(name string, args ...string) string {
	if g.generic {
		if name == "div" {
			return "f_div fo " + strings.Join(args, " ")
		}
		if name == "set0" || name == "set1" {
			return "(p" + name + " " + strings.Join(args, " ") + ")"
		}
		return "(f_" + name + " fo " + strings.Join(args, " ") + ")"
	}
	a := make([]interface{}, len(args))
	for i := range args {
		a[i] = args[i]
	}
	return fmt.Sprintf(ghQOps[name], a...)
}

// a float literal: an exact rational; in the generic version only integer-valued literals have a meaning
func (g *ghGen) floatLit(n ast.Node, lit string) (string, error) {
	s, _, err := ghRatLit(lit)
	if err != nil {
		return "", g.errf(n, "%v", err)
	}
	if !g.generic {
		return s, nil
	}
	r, _ := new(big.Rat).SetString(strings.ReplaceAll(lit, "_", ""))
	if !r.IsInt() {
		return "", g.errf(n, "the literal %s is not an integer (the generic float version gives a meaning to integer-valued literals only)", lit)
	}
	return "(f_int fo " + r.Num().String() + ")", nil
}

func (g *ghGen) resTy() string {
	if len(g.results) == 1 {
		return g.coqTy(g.results[0])
	}
	var p []string
	for _, r := range g.results {
		p = append(p, g.coqTy(r))
	}
	return "(" + strings.Join(p, " * ") + ")"
}

func ghTuple(names []string) string {
	if len(names) == 1 {
		return "v_" + names[0]
	}
	var p []string
	for _, n := range names {
		p = append(p, "v_"+n)
	}
	return "(" + strings.Join(p, ", ") + ")"
}

func ghBindTuple(names []string) string {
	if len(names) == 1 {
		return "let v_" + names[0] + " :="
	}
	return "let '" + ghTuple(names) + " :="
}

func (g *ghGen) tupleTy(names []string) string {
	var p []string
	for _, n := range names {
		t, _ := g.lookup(n)
		p = append(p, g.coqTy(t))
	}
	if len(p) == 1 {
		return p[0]
	}
	return "(" + strings.Join(p, " * ") + ")%type"
}

// a literal as an exact rational
func ghRatLit(lit string) (string, bool, error) {
	r, ok := new(big.Rat).SetString(strings.ReplaceAll(lit, "_", ""))
	if !ok {
		return "", false, fmt.Errorf("literal %s is not a decimal number", lit)
	}
	return fmt.Sprintf("(%s # %s)", r.Num().String(), r.Denom().String()), r.Sign() == 0, nil
}

func ghIsLit(e ast.Expr) (*ast.BasicLit, bool) {
	for {
		p, ok := e.(*ast.ParenExpr)
		if !ok {
			break
		}
		e = p.X
	}
	b, ok := e.(*ast.BasicLit)
	if ok && (b.Kind == token.INT || b.Kind == token.FLOAT) {
		return b, true
	}
	return nil, false
}

// expr translates an expression.  want is the type a literal has to take ("" = unknown); pre collects the
// monadic bindings (divisions, slice indexing) that have to run before the statement; pre == nil: none allowed here.
func (g *ghGen) expr(e ast.Expr, want string, pre *[]string) (string, string, error) {
	switch v := e.(type) {
	case *ast.ParenExpr:
		return g.expr(v.X, want, pre)
	case *ast.BasicLit:
		switch v.Kind {
		case token.INT:
			if want == ghFloat {
				s, err := g.floatLit(v, v.Value)
				if err != nil {
					return "", "", err
				}
				return s, ghFloat, nil
			}
			if want == ghInt {
				n, ok := new(big.Int).SetString(strings.ReplaceAll(v.Value, "_", ""), 0)
				if !ok {
					return "", "", g.errf(v, "integer literal %s", v.Value)
				}
				return n.String(), ghInt, nil
			}
			return "", "", g.errf(v, "integer literal %s where the type is not known to be float64 or int", v.Value)
		case token.FLOAT:
			if want != ghFloat && want != "" {
				return "", "", g.errf(v, "float literal %s where a %s is expected", v.Value, want)
			}
			s, err := g.floatLit(v, v.Value)
			if err != nil {
				return "", "", err
			}
			return s, ghFloat, nil
		}
		return "", "", g.errf(v, "literal %s", v.Value)
	case *ast.Ident:
		if ty, ok := g.lookup(v.Name); ok {
			return "v_" + v.Name, ty, nil
		}
		if v.Name == "true" || v.Name == "false" {
			return v.Name, ghBool, nil
		}
		return "", "", g.errf(v, "identifier %s is not a parameter or local variable of the translated subset", v.Name)
	case *ast.IndexExpr:
		x, xt, err := g.expr(v.X, "", pre)
		if err != nil {
			return "", "", err
		}
		switch xt {
		case ghPoint:
			lit, ok := ghIsLit(v.Index)
			if !ok || lit.Kind != token.INT || (lit.Value != "0" && lit.Value != "1") {
				return "", "", g.errf(v, "index of a [2]float64 that is not the literal 0 or 1")
			}
			if lit.Value == "0" {
				return "(fst " + x + ")", ghFloat, nil
			}
			return "(snd " + x + ")", ghFloat, nil
		case ghPoints:
			if pre == nil {
				return "", "", g.errf(v, "slice indexing (can panic) inside the right operand of && / || or inside a loop body")
			}
			i, it, err := g.expr(v.Index, ghInt, pre)
			if err != nil {
				return "", "", err
			}
			if it != ghInt {
				return "", "", g.errf(v, "slice index of type %s", it)
			}
			g.tmp++
			t := fmt.Sprintf("t_%d", g.tmp)
			*pre = append(*pre, fmt.Sprintf("do %s <- idx %s %s;", t, x, i))
			return t, ghPoint, nil
		}
		return "", "", g.errf(v, "indexing a value of type %s", xt)
	case *ast.UnaryExpr:
		switch v.Op {
		case token.NOT:
			x, xt, err := g.expr(v.X, ghBool, pre)
			if err != nil {
				return "", "", err
			}
			if xt != ghBool {
				return "", "", g.errf(v, "! on %s", xt)
			}
			return "(negb " + x + ")", ghBool, nil
		case token.SUB:
			x, xt, err := g.expr(v.X, ghFloat, pre)
			if err != nil {
				return "", "", err
			}
			if xt != ghFloat {
				return "", "", g.errf(v, "unary - on %s", xt)
			}
			return g.op("opp", x), ghFloat, nil
		}
		return "", "", g.errf(v, "unary operator %s", v.Op)
	case *ast.BinaryExpr:
		return g.binary(v, want, pre)
	case *ast.CallExpr:
		return g.call(v, pre)
	}
	return "", "", g.errf(e, "expression %s is outside the translated subset", types.ExprString(e))
}

func (g *ghGen) binary(v *ast.BinaryExpr, want string, pre *[]string) (string, string, error) {
	if v.Op == token.LAND || v.Op == token.LOR {
		a, at, err := g.expr(v.X, ghBool, pre)
		if err != nil {
			return "", "", err
		}
		// the right operand is evaluated conditionally: nothing that can fail may be hoisted out of it
		b, bt, err := g.expr(v.Y, ghBool, nil)
		if err != nil {
			return "", "", err
		}
		if at != ghBool || bt != ghBool {
			return "", "", g.errf(v, "%s on %s and %s", v.Op, at, bt)
		}
		op := "&&"
		if v.Op == token.LOR {
			op = "||"
		}
		return "(" + a + " " + op + " " + b + ")", ghBool, nil
	}
	// operand types: a literal takes the type of the other operand
	_, xl := ghIsLit(v.X)
	_, yl := ghIsLit(v.Y)
	var a, at, b, bt string
	var err error
	switch {
	case xl && yl:
		return "", "", g.errf(v, "constant expression %s", types.ExprString(v))
	case xl:
		// Go evaluates operands left to right; a literal has no effect, so translating the right one first is sound
		b, bt, err = g.expr(v.Y, "", pre)
		if err != nil {
			return "", "", err
		}
		a, at, err = g.expr(v.X, bt, pre)
	default:
		a, at, err = g.expr(v.X, "", pre)
		if err != nil {
			return "", "", err
		}
		b, bt, err = g.expr(v.Y, at, pre)
	}
	if err != nil {
		return "", "", err
	}
	if at != bt {
		return "", "", g.errf(v, "%s on %s and %s", v.Op, at, bt)
	}
	switch at {
	case ghFloat:
		switch v.Op {
		case token.ADD:
			return g.op("add", a, b), ghFloat, nil
		case token.SUB:
			return g.op("sub", a, b), ghFloat, nil
		case token.MUL:
			return g.op("mul", a, b), ghFloat, nil
		case token.QUO:
			if lit, isLit := ghIsLit(v.Y); isLit {
				// x / c for a literal c: the field division, c must not be zero
				_, zero, lerr := ghRatLit(lit.Value)
				if lerr != nil || zero {
					return "", "", g.errf(v, "division by the literal %s", lit.Value)
				}
				return g.op("quo", a, b), ghFloat, nil
			}
			// x / y: the checked division is bound before the statement (after the bindings of its operands)
			if pre == nil {
				return "", "", g.errf(v, "float division (zero divisor = Inf / NaN) inside the right operand of && / || or inside a loop body")
			}
			g.tmp++
			t := fmt.Sprintf("t_%d", g.tmp)
			*pre = append(*pre, fmt.Sprintf("do %s <- %s;", t, g.op("div", a, b)))
			return t, ghFloat, nil
		case token.EQL:
			return g.op("eqb", a, b), ghBool, nil
		case token.NEQ:
			return "(negb " + g.op("eqb", a, b) + ")", ghBool, nil
		case token.LSS:
			return g.op("ltb", a, b), ghBool, nil
		case token.LEQ:
			return g.op("leb", a, b), ghBool, nil
		case token.GTR:
			return g.op("ltb", b, a), ghBool, nil
		case token.GEQ:
			return g.op("leb", b, a), ghBool, nil
		}
	case ghInt:
		switch v.Op {
		case token.ADD, token.SUB:
			// int arithmetic is exact Z only where it cannot overflow: len(s) +- literal
			if !(ghIsLen(v.X) && yl) {
				return "", "", g.errf(v, "int arithmetic other than len(s) + c / len(s) - c")
			}
			op := "+"
			if v.Op == token.SUB {
				op = "-"
			}
			return "(" + a + " " + op + " " + b + ")", ghInt, nil
		case token.EQL:
			return "(" + a + " =? " + b + ")", ghBool, nil
		case token.NEQ:
			return "(negb (" + a + " =? " + b + "))", ghBool, nil
		case token.LSS:
			return "(" + a + " <? " + b + ")", ghBool, nil
		case token.LEQ:
			return "(" + a + " <=? " + b + ")", ghBool, nil
		case token.GTR:
			return "(" + b + " <? " + a + ")", ghBool, nil
		case token.GEQ:
			return "(" + b + " <=? " + a + ")", ghBool, nil
		}
	}
	return "", "", g.errf(v, "operator %s on %s", v.Op, at)
}

func ghIsLen(e ast.Expr) bool {
	for {
		p, ok := e.(*ast.ParenExpr)
		if !ok {
			break
		}
		e = p.X
	}
	c, ok := e.(*ast.CallExpr)
	if !ok {
		return false
	}
	id, ok := c.Fun.(*ast.Ident)
	return ok && id.Name == "len"
}

// pkgSel: e is pkg.Name for an imported package (not shadowed: declare refuses such names)
func (g *ghGen) pkgSel(e ast.Expr) (string, string, bool) {
	s, ok := e.(*ast.SelectorExpr)
	if !ok {
		return "", "", false
	}
	id, ok := s.X.(*ast.Ident)
	if !ok {
		return "", "", false
	}
	if _, isVar := g.lookup(id.Name); isVar {
		return "", "", false
	}
	path, ok := g.imports[id.Name]
	if !ok {
		return "", "", false
	}
	return path, s.Sel.Name, true
}

func (g *ghGen) call(c *ast.CallExpr, pre *[]string) (string, string, error) {
	// len(s)
	if id, ok := c.Fun.(*ast.Ident); ok && id.Name == "len" {
		if len(c.Args) != 1 || c.Ellipsis != token.NoPos {
			return "", "", g.errf(c, "len with %d arguments", len(c.Args))
		}
		x, xt, err := g.expr(c.Args[0], "", pre)
		if err != nil {
			return "", "", err
		}
		if xt != ghPoints {
			return "", "", g.errf(c, "len of %s", xt)
		}
		return "(zlen " + x + ")", ghInt, nil
	}
	if path, name, ok := g.pkgSel(c.Fun); ok {
		switch {
		case path == "math" && name == "Abs" && len(c.Args) == 1 && c.Ellipsis == token.NoPos:
			x, xt, err := g.expr(c.Args[0], ghFloat, pre)
			if err != nil {
				return "", "", err
			}
			if xt != ghFloat {
				return "", "", g.errf(c, "math.Abs of %s", xt)
			}
			return g.op("abs", x), ghFloat, nil
		case path == "math" && name == "Nextafter" && len(c.Args) == 2 && c.Ellipsis == token.NoPos:
			// the direction must be exactly math.Inf(1)
			ic, ok := c.Args[1].(*ast.CallExpr)
			ipath, iname, iok := "", "", false
			if ok {
				ipath, iname, iok = g.pkgSel(ic.Fun)
			}
			if !ok || !iok || ipath != "math" || iname != "Inf" || len(ic.Args) != 1 || ic.Ellipsis != token.NoPos {
				return "", "", g.errf(c, "math.Nextafter whose second argument is not math.Inf(1)")
			}
			if lit, ok := ghIsLit(ic.Args[0]); !ok || lit.Kind != token.INT || lit.Value != "1" {
				return "", "", g.errf(c, "math.Nextafter whose second argument is not math.Inf(1)")
			}
			x, xt, err := g.expr(c.Args[0], ghFloat, pre)
			if err != nil {
				return "", "", err
			}
			if xt != ghFloat {
				return "", "", g.errf(c, "math.Nextafter of %s", xt)
			}
			g.usesEps = true
			g.nudges++
			return g.op("nextup", x), ghFloat, nil
		}
		return "", "", g.errf(c, "call of %s.%s is outside the translated subset", path, name)
	}
	if s, ok := c.Fun.(*ast.SelectorExpr); ok {
		// winding.Order{}.OfPoints(ring...)
		if cl, ok := s.X.(*ast.CompositeLit); ok {
			path, tname, tok := g.pkgSel(cl.Type)
			if tok && path == ghWindingPath && tname == "Order" && len(cl.Elts) == 0 && s.Sel.Name == "OfPoints" &&
				len(c.Args) == 1 && c.Ellipsis != token.NoPos {
				if g.generic {
					return "", "", g.errf(c, "winding.Order{}.OfPoints has no generic float version (its micro-model is over Q)")
				}
				x, xt, err := g.expr(c.Args[0], "", pre)
				if err != nil {
					return "", "", err
				}
				if xt != ghPoints {
					return "", "", g.errf(c, "winding.Order{}.OfPoints of %s", xt)
				}
				return "(winding_OfPoints " + x + ")", ghWinding, nil
			}
			return "", "", g.errf(c, "call on a composite literal other than winding.Order{}.OfPoints(ring...) of %s", ghWindingPath)
		}
		// w.IsClockwise() ..
		if id, ok := s.X.(*ast.Ident); ok {
			if ty, isVar := g.lookup(id.Name); isVar && ty == ghWinding && len(c.Args) == 0 {
				switch s.Sel.Name {
				case "IsClockwise", "IsCounterClockwise", "IsColinear":
					return "(winding_" + s.Sel.Name + " v_" + id.Name + ")", ghBool, nil
				}
			}
		}
	}
	return "", "", g.errf(c, "call %s is outside the translated subset", types.ExprString(c.Fun))
}

func ghContainsReturn(n ast.Node) bool {
	found := false
	ast.Inspect(n, func(x ast.Node) bool {
		if _, ok := x.(*ast.ReturnStmt); ok {
			found = true
		}
		return !found
	})
	return found
}

// the variables in scope (declared before n) that n assigns, in declaration order
func (g *ghGen) assigned(n ast.Node) []string {
	set := map[string]bool{}
	ast.Inspect(n, func(x ast.Node) bool {
		switch s := x.(type) {
		case *ast.AssignStmt:
			for _, l := range s.Lhs {
				for {
					if ix, ok := l.(*ast.IndexExpr); ok {
						l = ix.X
						continue
					}
					if p, ok := l.(*ast.ParenExpr); ok {
						l = p.X
						continue
					}
					break
				}
				if id, ok := l.(*ast.Ident); ok {
					set[id.Name] = true
				}
			}
		case *ast.IncDecStmt:
			if id, ok := s.X.(*ast.Ident); ok {
				set[id.Name] = true
			}
		}
		return true
	})
	var out []string
	for _, v := range g.vars {
		if set[v.name] {
			out = append(out, v.name)
		}
	}
	return out
}

// the variables in scope that n mentions, in declaration order
func (g *ghGen) mentioned(n ast.Node) []string {
	set := map[string]bool{}
	ast.Inspect(n, func(x ast.Node) bool {
		if id, ok := x.(*ast.Ident); ok {
			set[id.Name] = true
		}
		return true
	})
	var out []string
	for _, v := range g.vars {
		if set[v.name] {
			out = append(out, v.name)
		}
	}
	return out
}

func ghEmitPre(b *strings.Builder, pre []string, ind string) {
	for _, p := range pre {
		b.WriteString(ind + p + "\n")
	}
}

// ghK is what a fall-through off the end of a statement list continues with, printed at the given indentation
// (nil = falling off the end is an error).
type ghK func(ind string) (string, error)

func ghConstK(term string) ghK {
	return func(ind string) (string, error) { return ind + term + "\n", nil }
}

// the number of places where control leaves the statement list by falling off its end, counted the way stmts hands
// its continuation down (into a last if statement that contains a return; once after anything else)
func ghFallList(list []ast.Stmt) int {
	if len(list) == 0 {
		return 1
	}
	switch v := list[len(list)-1].(type) {
	case *ast.ReturnStmt:
		return 0
	case *ast.IfStmt:
		if ghContainsReturn(v) {
			return ghFallIf(v)
		}
	}
	return 1
}

func ghFallIf(v *ast.IfStmt) int {
	n := ghFallList(v.Body.List)
	switch e := v.Else.(type) {
	case nil:
		n++
	case *ast.BlockStmt:
		n += ghFallList(e.List)
	case *ast.IfStmt:
		n += ghFallList([]ast.Stmt{e})
	}
	return n
}

// stmts translates a statement list; pure: the term is not in the monad (no division / indexing / return).
func (g *ghGen) stmts(list []ast.Stmt, k ghK, pure bool, ind string) (string, error) {
	if len(list) == 0 {
		if k == nil {
			return "", fmt.Errorf("%s: func %s: control can fall off the end of the function", g.rel, g.fn)
		}
		return k(ind)
	}
	s, rest := list[0], list[1:]
	var b strings.Builder
	var pre []string
	prep := &pre
	if pure {
		prep = nil
	}
	switch v := s.(type) {
	case *ast.ReturnStmt:
		if pure {
			return "", g.errf(v, "return inside a loop body")
		}
		if len(rest) != 0 {
			return "", g.errf(rest[0], "statement after return")
		}
		if len(v.Results) != len(g.results) {
			return "", g.errf(v, "return with %d operands in a function with %d results (named results are outside the subset)", len(v.Results), len(g.results))
		}
		var parts []string
		for i, r := range v.Results {
			x, xt, err := g.expr(r, g.results[i], prep)
			if err != nil {
				return "", err
			}
			if xt != g.results[i] {
				return "", g.errf(r, "result %d of type %s, declared %s", i, xt, g.results[i])
			}
			parts = append(parts, x)
		}
		ghEmitPre(&b, pre, ind)
		if len(parts) == 1 {
			b.WriteString(ind + "Ok " + parts[0] + "\n")
		} else {
			b.WriteString(ind + "Ok (" + strings.Join(parts, ", ") + ")\n")
		}
		return b.String(), nil
	case *ast.AssignStmt:
		line, err := g.assign(v, prep)
		if err != nil {
			return "", err
		}
		ghEmitPre(&b, pre, ind)
		b.WriteString(ind + line + "\n")
	case *ast.IfStmt:
		if v.Init != nil {
			return "", g.errf(v, "if with an init statement")
		}
		c, ct, err := g.expr(v.Cond, ghBool, prep)
		if err != nil {
			return "", err
		}
		if ct != ghBool {
			return "", g.errf(v.Cond, "condition of type %s", ct)
		}
		ghEmitPre(&b, pre, ind)
		if !ghContainsReturn(v) {
			// join: the branches only assign
			as := g.assigned(v)
			if len(as) == 0 {
				return "", g.errf(v, "if statement without effect")
			}
			body, err := g.branch(v, ghConstK(ghTuple(as)), true, ind+"  ")
			if err != nil {
				return "", err
			}
			b.WriteString(ind + ghBindTuple(as) + "\n")
			b.WriteString(ind + "  if " + c + " then\n" + body + ind + "  in\n")
			break
		}
		if pure {
			return "", g.errf(v, "return inside a loop body")
		}
		kk := k
		switch {
		case len(rest) == 0:
			// nothing follows: a fall-through continues with what follows the enclosing statement
		case ghFallIf(v) == 0:
			return "", g.errf(rest[0], "statement after an if statement all of whose branches return")
		case ghFallIf(v) == 1:
			// one place falls through: the rest of the list is printed there
			kk = func(ind string) (string, error) { return g.stmts(rest, k, false, ind) }
		default:
			// several places fall through: the rest is bound once, as a function of the variables the branches assign
			g.kn++
			name := fmt.Sprintf("k_%d", g.kn)
			as := g.assigned(v)
			params, args := "(_ : unit)", "tt"
			if len(as) != 0 {
				var ps, ar []string
				for _, a := range as {
					t, _ := g.lookup(a)
					ps = append(ps, fmt.Sprintf("(v_%s : %s)", a, g.coqTy(t)))
					ar = append(ar, "v_"+a)
				}
				params, args = strings.Join(ps, " "), strings.Join(ar, " ")
			}
			nv := len(g.vars)
			restS, err := g.stmts(rest, k, false, ind+"  ")
			g.vars = g.vars[:nv] // what the rest declares is not in scope in the branches
			if err != nil {
				return "", err
			}
			b.WriteString(fmt.Sprintf("%slet %s %s : res %s :=\n%s%s  in\n", ind, name, params, g.resTy(), restS, ind))
			kk = ghConstK(name + " " + args)
		}
		body, err := g.branch(v, kk, false, ind)
		if err != nil {
			return "", err
		}
		b.WriteString(ind + "if " + c + " then\n" + body)
		return b.String(), nil
	case *ast.RangeStmt:
		line, err := g.rangeLoop(v)
		if err != nil {
			return "", err
		}
		b.WriteString(ind + line + "\n")
	default:
		return "", g.errf(s, "statement %T is outside the translated subset", s)
	}
	r, err := g.stmts(rest, k, pure, ind)
	if err != nil {
		return "", err
	}
	return b.String() + r, nil
}

// branch: "<then> else <else>" of an if statement whose condition has been printed; k continues a fall-through
func (g *ghGen) branch(v *ast.IfStmt, k ghK, pure bool, ind string) (string, error) {
	var b strings.Builder
	n := len(g.vars)
	th, err := g.stmts(v.Body.List, k, pure, ind+"  ")
	g.vars = g.vars[:n]
	if err != nil {
		return "", err
	}
	b.WriteString(th + ind + "else\n")
	switch e := v.Else.(type) {
	case nil:
		el, err := g.stmts(nil, k, pure, ind+"  ")
		if err != nil {
			return "", err
		}
		b.WriteString(el)
	case *ast.BlockStmt:
		el, err := g.stmts(e.List, k, pure, ind+"  ")
		g.vars = g.vars[:n]
		if err != nil {
			return "", err
		}
		b.WriteString(el)
	case *ast.IfStmt:
		el, err := g.stmts([]ast.Stmt{e}, k, pure, ind+"  ")
		g.vars = g.vars[:n]
		if err != nil {
			return "", err
		}
		b.WriteString(el)
	default:
		return "", g.errf(v, "else of kind %T", v.Else)
	}
	return b.String(), nil
}

// every path through the list ends in a return
func ghTerminates(list []ast.Stmt) bool {
	if len(list) == 0 {
		return false
	}
	switch v := list[len(list)-1].(type) {
	case *ast.ReturnStmt:
		return true
	case *ast.IfStmt:
		if !ghTerminates(v.Body.List) {
			return false
		}
		switch e := v.Else.(type) {
		case *ast.BlockStmt:
			return ghTerminates(e.List)
		case *ast.IfStmt:
			return ghTerminates([]ast.Stmt{e})
		}
	}
	return false
}

func (g *ghGen) assign(v *ast.AssignStmt, pre *[]string) (string, error) {
	switch v.Tok {
	case token.DEFINE:
		if len(v.Lhs) != 1 || len(v.Rhs) != 1 {
			return "", g.errf(v, ":= with more than one variable")
		}
		id, ok := v.Lhs[0].(*ast.Ident)
		if !ok {
			return "", g.errf(v, ":= on a non-identifier")
		}
		x, xt, err := g.expr(v.Rhs[0], "", pre)
		if err != nil {
			return "", err
		}
		if err := g.declare(v, id.Name, xt); err != nil {
			return "", err
		}
		return fmt.Sprintf("let v_%s := %s in", id.Name, x), nil
	case token.ASSIGN:
		if len(v.Lhs) != len(v.Rhs) {
			return "", g.errf(v, "assignment of a multi-valued call")
		}
		if len(v.Lhs) == 1 {
			return g.assign1(v, v.Lhs[0], v.Rhs[0], pre)
		}
		// parallel assignment of variables: all right-hand sides are evaluated first
		var ls, rs []string
		seen := map[string]bool{}
		for i := range v.Lhs {
			id, ok := v.Lhs[i].(*ast.Ident)
			if !ok {
				return "", g.errf(v, "parallel assignment to something else than variables")
			}
			lt, ok := g.lookup(id.Name)
			if !ok || seen[id.Name] {
				return "", g.errf(v, "parallel assignment to %s", id.Name)
			}
			seen[id.Name] = true
			x, xt, err := g.expr(v.Rhs[i], lt, pre)
			if err != nil {
				return "", err
			}
			if xt != lt {
				return "", g.errf(v, "assignment of %s to %s of type %s", xt, id.Name, lt)
			}
			ls = append(ls, "v_"+id.Name)
			rs = append(rs, x)
		}
		return fmt.Sprintf("let '(%s) := (%s) in", strings.Join(ls, ", "), strings.Join(rs, ", ")), nil
	case token.ADD_ASSIGN, token.SUB_ASSIGN, token.MUL_ASSIGN:
		if len(v.Lhs) != 1 || len(v.Rhs) != 1 {
			return "", g.errf(v, "compound assignment with several operands")
		}
		id, ok := v.Lhs[0].(*ast.Ident)
		if !ok {
			return "", g.errf(v, "compound assignment to a non-variable")
		}
		lt, ok := g.lookup(id.Name)
		if !ok || lt != ghFloat {
			return "", g.errf(v, "compound assignment to %s (only float64 variables)", id.Name)
		}
		x, xt, err := g.expr(v.Rhs[0], ghFloat, pre)
		if err != nil {
			return "", err
		}
		if xt != ghFloat {
			return "", g.errf(v, "compound assignment of %s to a float64", xt)
		}
		op := map[token.Token]string{token.ADD_ASSIGN: "add", token.SUB_ASSIGN: "sub", token.MUL_ASSIGN: "mul"}[v.Tok]
		return fmt.Sprintf("let v_%s := %s in", id.Name, g.op(op, "v_"+id.Name, x)), nil
	}
	return "", g.errf(v, "assignment operator %s", v.Tok)
}

func (g *ghGen) assign1(at ast.Node, l, r ast.Expr, pre *[]string) (string, error) {
	switch lv := l.(type) {
	case *ast.Ident:
		lt, ok := g.lookup(lv.Name)
		if !ok {
			return "", g.errf(at, "assignment to %s, which is not a local variable", lv.Name)
		}
		x, xt, err := g.expr(r, lt, pre)
		if err != nil {
			return "", err
		}
		if xt != lt {
			return "", g.errf(at, "assignment of %s to %s of type %s", xt, lv.Name, lt)
		}
		return fmt.Sprintf("let v_%s := %s in", lv.Name, x), nil
	case *ast.IndexExpr:
		id, ok := lv.X.(*ast.Ident)
		if !ok {
			return "", g.errf(at, "indexed assignment to a non-variable")
		}
		lt, ok := g.lookup(id.Name)
		if !ok || lt != ghPoint {
			return "", g.errf(at, "indexed assignment to %s: only p[0] = v / p[1] = v on a [2]float64 (an array, not shared)", id.Name)
		}
		lit, ok := ghIsLit(lv.Index)
		if !ok || lit.Kind != token.INT || (lit.Value != "0" && lit.Value != "1") {
			return "", g.errf(at, "index of a [2]float64 that is not the literal 0 or 1")
		}
		x, xt, err := g.expr(r, ghFloat, pre)
		if err != nil {
			return "", err
		}
		if xt != ghFloat {
			return "", g.errf(at, "assignment of %s to an ordinate", xt)
		}
		return fmt.Sprintf("let v_%s := %s in", id.Name, g.op("set"+lit.Value, "v_"+id.Name, x)), nil
	}
	return "", g.errf(at, "assignment to %s", types.ExprString(l))
}

// for _, x := range s { body }: a fold over the variables the body assigns
func (g *ghGen) rangeLoop(v *ast.RangeStmt) (string, error) {
	if v.Tok != token.DEFINE {
		return "", g.errf(v, "range without :=")
	}
	if k, ok := v.Key.(*ast.Ident); !ok || k.Name != "_" {
		return "", g.errf(v, "range with an index variable")
	}
	val, ok := v.Value.(*ast.Ident)
	if !ok || val.Name == "_" {
		return "", g.errf(v, "range without an element variable")
	}
	sid, ok := v.X.(*ast.Ident)
	if !ok {
		return "", g.errf(v, "range over something else than a variable")
	}
	st, ok := g.lookup(sid.Name)
	if !ok || st != ghPoints {
		return "", g.errf(v, "range over %s of type %s", sid.Name, st)
	}
	state := g.assigned(v.Body)
	if len(state) == 0 {
		return "", g.errf(v, "range loop without effect")
	}
	inState := map[string]bool{}
	for _, s := range state {
		inState[s] = true
	}
	var extra []string
	for _, m := range g.mentioned(v.Body) {
		if !inState[m] {
			extra = append(extra, m)
		}
	}
	stTy := g.tupleTy(state)
	g.rn++
	name := fmt.Sprintf("%s_%s_range%d", g.prefix(), g.fn, g.rn)
	var hd strings.Builder
	hd.WriteString("Definition " + name)
	call := name
	if g.generic {
		hd.WriteString(" (fo : fops)")
		call += " fo"
	}
	for _, e := range extra {
		t, _ := g.lookup(e)
		hd.WriteString(fmt.Sprintf(" (v_%s : %s)", e, g.coqTy(t)))
		call += " v_" + e
	}
	n := len(g.vars)
	if err := g.declare(v, val.Name, ghPoint); err != nil {
		return "", err
	}
	body, err := g.stmts(v.Body.List, ghConstK(ghTuple(state)), true, "  ")
	g.vars = g.vars[:n]
	if err != nil {
		return "", err
	}
	hd.WriteString(fmt.Sprintf(" (st : %s) (v_%s : %s) : %s :=\n", stTy, val.Name, g.coqTy(ghPoint), stTy))
	if len(state) == 1 {
		hd.WriteString("  let v_" + state[0] + " := st in\n")
	} else {
		hd.WriteString("  let '" + ghTuple(state) + " := st in\n")
	}
	p := g.fset.Position(v.Pos())
	g.aux = append(g.aux, fmt.Sprintf("(* %s:%d: the body of `for _, %s := range %s` *)\n", g.rel, p.Line, val.Name, sid.Name)+
		hd.String()+strings.TrimRight(body, "\n")+".\n")
	if strings.Contains(call, " ") {
		call = "(" + call + ")"
	}
	return fmt.Sprintf("%s fold_left %s v_%s %s in", ghBindTuple(state), call, sid.Name, ghTuple(state)), nil
}

// ghFunc translates one function declaration
func (g *ghGen) prefix() string {
	if g.generic {
		return "genF"
	}
	return "gen"
}

func ghFunc(fset *token.FileSet, rel string, imports map[string]string, fd *ast.FuncDecl, generic bool) (string, error) {
	g := &ghGen{fset: fset, rel: rel, imports: imports, fn: fd.Name.Name, ever: map[string]bool{}, generic: generic}
	if fd.Recv != nil || fd.Type.TypeParams != nil || fd.Body == nil {
		return "", g.errf(fd, "a method, generic function or declaration without body")
	}
	var hdr strings.Builder
	for _, f := range fd.Type.Params.List {
		gt := types.ExprString(f.Type)
		ty, ok := ghGoTy[gt]
		if !ok {
			return "", g.errf(f, "parameter of type %s", gt)
		}
		if len(f.Names) == 0 {
			return "", g.errf(f, "unnamed parameter")
		}
		for _, n := range f.Names {
			if err := g.declare(n, n.Name, ty); err != nil {
				return "", err
			}
			hdr.WriteString(fmt.Sprintf(" (v_%s : %s)", n.Name, g.coqTy(ty)))
		}
	}
	if fd.Type.Results == nil || len(fd.Type.Results.List) == 0 {
		return "", g.errf(fd, "function without result")
	}
	for _, f := range fd.Type.Results.List {
		gt := types.ExprString(f.Type)
		ty, ok := ghGoTy[gt]
		if !ok || ty == ghPoints {
			return "", g.errf(f, "result of type %s", gt)
		}
		k := len(f.Names)
		if k == 0 {
			k = 1
		}
		for i := 0; i < k; i++ {
			g.results = append(g.results, ty)
		}
		// a named result is a variable of the function: it may not be mentioned (declared here so that any other
		// declaration of the name is refused; looking it up fails because it is not put in scope)
		for _, n := range f.Names {
			if g.ever[n.Name] {
				return "", g.errf(n, "result %s repeats a name", n.Name)
			}
			g.ever[n.Name] = true
		}
	}
	if !ghTerminates(fd.Body.List) {
		return "", g.errf(fd, "control can fall off the end of the function")
	}
	body, err := g.stmts(fd.Body.List, nil, false, "  ")
	if err != nil {
		return "", err
	}
	var b strings.Builder
	for _, a := range g.aux {
		b.WriteString(a + "\n")
	}
	p := fset.Position(fd.Pos())
	note := ""
	if g.usesEps && !g.generic {
		note = fmt.Sprintf("  (eps: what math.Nextafter(x, +Inf) adds; %d call site(s))", g.nudges)
	}
	b.WriteString(fmt.Sprintf("(* %s:%d: func %s%s%s *)\n", rel, p.Line, fd.Name.Name, strings.TrimPrefix(types.ExprString(fd.Type), "func"), note))
	b.WriteString("Definition " + g.prefix() + "_" + fd.Name.Name)
	if g.generic {
		b.WriteString(" (fo : fops)")
	} else if g.usesEps {
		b.WriteString(" (eps : Q)")
	}
	b.WriteString(hdr.String() + " : res " + g.resTy() + " :=\n")
	b.WriteString(strings.TrimRight(body, "\n") + ".\n")
	return b.String(), nil
}

func ghParse(repo, rel string, want map[string]string) (*token.FileSet, *ast.File, map[string]string, error) {
	fset := token.NewFileSet()
	f, err := parser.ParseFile(fset, filepath.Join(repo, rel), nil, parser.SkipObjectResolution)
	if err != nil {
		return nil, nil, nil, err
	}
	imports := map[string]string{}
	for _, im := range f.Imports {
		path, err := strconv.Unquote(im.Path.Value)
		if err != nil {
			return nil, nil, nil, err
		}
		name := path[strings.LastIndex(path, "/")+1:]
		if im.Name != nil {
			name = im.Name.Name
		}
		imports[name] = path
	}
	// only the packages the translation gives a meaning to are visible to it, under their expected names
	vis := map[string]string{}
	for name, path := range want {
		if imports[name] == path {
			vis[name] = path
		}
	}
	return fset, f, vis, nil
}

func ghFind(f *ast.File, name string) *ast.FuncDecl {
	var found *ast.FuncDecl
	for _, d := range f.Decls {
		if fd, ok := d.(*ast.FuncDecl); ok && fd.Name.Name == name && fd.Recv == nil {
			if found != nil {
				return nil
			}
			found = fd
		}
	}
	return found
}

func genGeomHelp(repo string) (string, error) {
	var b strings.Builder
	b.WriteString(`(* GENERATED by /verif/translator (geomhelp.go) on every run from geomhelp/geomhelp.go and snap/snap.go -- do not edit.

   geomhelp.Shoelace, geomhelp.RayIntersect and snap.windingOrderIsCorrect, translated statement by statement into the
   monad [res] of Prelude/Base.v with the vocabulary of Snap/GoGeomHelp.v.

   READING (trusted): float64 arithmetic is EXACT rational arithmetic over Q (+ - * the field operations, the
   comparisons = Qeq_bool / Qltb / Qle_bool, math.Abs = Qabs).  A float64 division x / y is [fdiv x y]: a zero divisor
   is the outcome [Err DivZero] (Go: +-Inf or NaN, no rational reading), never Coq's x / 0 = 0; division by a non-zero
   literal is the field division.  math.Nextafter(x, math.Inf(1)) is [go_nextafter_up eps x] = x + eps for the
   parameter [eps] of the generated function.  [2]float64 is the pair [qpt] (a value: copied), [][2]float64 a list,
   s[i] = [idx s i] (Err IndexOutOfRange = the panic).  The rounding of the real floating-point evaluation is NOT part
   of this reading: the float envelope stays with the run-time correspondence (DESIGN 4.2).

   MAPPED to a TRUSTED micro-model, not translated (import path and call shape checked in the AST):
     winding.Order{}.OfPoints(ring...) of github.com/go-spatial/geom/winding = winding_OfPoints ring
       (fewer than three points: Colinear; otherwise the sign of the cross-product sum: < 0 Clockwise, 0 Colinear, > 0 CounterClockwise)
     w.IsClockwise() / w.IsCounterClockwise() / w.IsColinear() = winding_IsClockwise w / .. *)
From Coq Require Import ZArith QArith Qabs List Bool.
From Texel Require Import Prelude.Base Tms.Json Snap.GoGeomHelp.
Import ListNotations.
Open Scope Z_scope.

`)
	type job struct {
		rel   string
		funcs []string
	}
	jobs := []job{
		{"geomhelp/geomhelp.go", []string{"Shoelace", "RayIntersect"}},
		{"snap/snap.go", []string{"windingOrderIsCorrect"}},
	}
	for _, j := range jobs {
		fset, f, imports, err := ghParse(repo, j.rel, map[string]string{"math": "math", "winding": ghWindingPath})
		if err != nil {
			return "", err
		}
		for _, name := range j.funcs {
			fd := ghFind(f, name)
			if fd == nil {
				return "", fmt.Errorf("%s: exactly one func %s expected", j.rel, name)
			}
			s, err := ghFunc(fset, j.rel, imports, fd, false)
			if err != nil {
				return "", err
			}
			b.WriteString(s + "\n")
		}
	}
	return b.String(), nil
}

// genGeomHelpFloat: the SAME statement-by-statement translation of geomhelp.Shoelace and geomhelp.RayIntersect, over an
// abstract float type: every float operation is a field of the record fops (Snap/GoFloatOps.v).  Instantiated with
// exact rationals it is the definition of GeomHelpGen.v (proved by reflexivity), instantiated with IEEE-754 binary64
// (Coq.Floats.SpecFloat, axiom-free and executable) it is the bit-level reading of the regenerated source.
func genGeomHelpFloat(repo string) (string, error) {
	var b strings.Builder
	b.WriteString(`(* GENERATED by /verif/translator (geomhelp.go, genGeomHelpFloat) on every run from geomhelp/geomhelp.go -- do not edit.

   geomhelp.Shoelace and geomhelp.RayIntersect once more, statement by statement as in GeomHelpGen.v, but over an
   ABSTRACT float type: float64 = [fT fo], every operation a field of the record [fo : fops] (Snap/GoFloatOps.v):
     + - * unary -          f_add f_sub f_mul f_opp
     x / y                  do t <- f_div fo x y  (checked: the rational instance stops at a zero divisor, binary64 yields Inf / NaN)
     x / c, c a literal     f_quo
     == != < <= > >=        f_eqb, f_ltb, f_leb (operands exchanged for > and >=; != = negb f_eqb)
     math.Abs               f_abs;   math.Nextafter(x, math.Inf(1)) = f_nextup;   an integer-valued literal n = f_int fo n
   [2]float64 = a pair (p[0] = v: pset0), [][2]float64 = a list, s[i] = idx s i.
   Instances (Snap/GoFloatOps.v): [Qops eps] = the exact reading (then genF_f (Qops eps) = gen_f eps, by reflexivity:
   Snap/ProofsGenGeomHelpFloat.v); [B64ops] = IEEE-754 binary64, round to nearest even, no fused multiply-add (what the Go
   compiler emits on amd64). *)
From Coq Require Import ZArith QArith List Bool.
From Texel Require Import Prelude.Base Snap.GoFloatOps.
Import ListNotations.
Open Scope Z_scope.

`)
	rel := "geomhelp/geomhelp.go"
	fset, f, imports, err := ghParse(repo, rel, map[string]string{"math": "math"})
	if err != nil {
		return "", err
	}
	for _, name := range []string{"Shoelace", "RayIntersect"} {
		fd := ghFind(f, name)
		if fd == nil {
			return "", fmt.Errorf("%s: exactly one func %s expected", rel, name)
		}
		s, err := ghFunc(fset, rel, imports, fd, true)
		if err != nil {
			return "", err
		}
		b.WriteString(s + "\n")
	}
	return b.String(), nil
}
