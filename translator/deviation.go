package main

import (
	"bytes"
	"fmt"
	"go/ast"
	"go/parser"
	"go/printer"
	"go/token"
	"go/types"
	"math/big"
	"os"
	"path/filepath"
	"strconv"
	"strings"
)

// ---------------------------------------------------------------------------
// G2 (C03): pointindex.DeviationStats -> gen/DeviationGen.v
//
// The NUMERIC part of DeviationStats is translated statement by statement into the monad `dres` of
// Index/GoDeviation.v (a value, a panic of Prelude/Base.v, or a nil dereference).  The function is straight-line
// code with early returns; the accepted subset is exactly:
//   a, b, err := T.MatrixBoundingBox(<int literal>)      let '(v_a, v_b, v_err) := gotms_MatrixBoundingBox v_T n in
//   ix, err := FromTileMatrixSet(T, D)                    ddo (v_ix, v_err) <- dlift (gen_FromTileMatrixSet (fo_exact v_lg) v_T v_D);
//                                                         (the function regenerated in IndexTopGen.v, float64 := exact Q)
//   if err != nil { return }                              if is_some v_err then DOk (<named results>) else ..
//   x := e / r = e (r a named float64 result)             let v_x := e in          (every variable is assigned once)
//   return                                                DOk (v_deviationInUnits, v_deviationInPixels, v_err)
//   S += fmt.Sprintf(..) (S the named string result) and x := <string expression>
//                                                         DROPPED after checking that the statement only builds a string:
//                                                         its operands are expressions of this same subset without int64
//                                                         division (nothing that can panic but the dereference of ix, which
//                                                         IS emitted: ddo v_ix <- dderef v_ix), calls only of fmt.Sprintf,
//                                                         strconv.Itoa, intgeom.PrintWithDecimals (body checked: assigns
//                                                         locals only, calls only fmt.Sprintf / strconv.Itoa / strings.Repeat /
//                                                         len / int) -- a string can flow nowhere but into S
// expressions:
//   float64:  p.X() p.Y() (p a geom.Point = [2]float64: fst / snd), + - * / (field operations of Q), float64(u) of a uint
//             or int64 (inject_Z), intgeom.ToGeomOrd(i) = gen_ToGeomOrd (fo_exact v_lg) i  (regenerated in IndexTopGen.v)
//   int64:    ix.intExtent.XSpan() = gen_Extent_XSpan (regenerated in IndexTopGen.v, wrapping subtraction), int64(u) of a
//             uint = i64_of_N, + - * = add64 / sub64 / mul64w (wrap at 64 bits), x / y = quot64 (Err DivZero, MinInt64 / -1 wraps)
//   uint:     ix.deepestLevel, ix.deepestSize (fields of PointIndex, declaration checked), uint(<constant expression>)
//   constants: integer literals, intgeom.Precision, + on constants
//   ix.f for ix *PointIndex: ddo v_ix <- dderef v_ix at the first use (ix is assigned once, so later uses read the same
//             non-nil pointer)
// Declarations the translation relies on are checked before translating (signatures of FromTileMatrixSet,
// MatrixBoundingBox, ToGeomOrd, Extent.XSpan, PrintWithDecimals; struct PointIndex / Quadrant; type M, Level, TMID;
// DeviationStats and IsQuadTree declared exactly once in package pointindex whatever the build tags).
// Anything else is an error = a generated file that does not compile.
//
// pointindex.IsQuadTree is NOT a wrapper: it is the whole function that quadtree.go regenerates into QuadTreeGen.v
// (C14_source_tie_isQuadTree); this generator only checks that the package declares it once.
// ---------------------------------------------------------------------------

type dvTy string

const (
	dvFloat  dvTy = "float64"
	dvInt64  dvTy = "int64"
	dvInt    dvTy = "int"
	dvUint   dvTy = "uint"
	dvConst  dvTy = "const"
	dvStr    dvTy = "string"
	dvPoint  dvTy = "geom.Point"
	dvIxPtr  dvTy = "*PointIndex"
	dvIx     dvTy = "PointIndex" // ix after its first dereference
	dvExtent dvTy = "intgeom.Extent"
	dvErr    dvTy = "error"
	dvTMS    dvTy = "tms20.TileMatrixSet"
	dvTMID   dvTy = "tms20.TMID"
)

type dvVal struct {
	code string
	ty   dvTy
	c    *big.Int
}

type dv struct {
	fset    *token.FileSet
	pkgs    map[string]string
	vars    map[string]dvTy
	assigns map[string]int
	nfresh  int
	repo    string
	lines   []string // the emitted bindings, in order
	dropped []string
	nsS     string // named results
	nsU     string
	nsP     string
	nsE     string
}

func (g *dv) src(n ast.Node) string {
	var b bytes.Buffer
	printer.Fprint(&b, g.fset, n)
	return strings.Join(strings.Fields(b.String()), " ")
}

func (g *dv) pos(n ast.Node) string {
	p := g.fset.Position(n.Pos())
	return fmt.Sprintf("%s:%d", filepath.Base(p.Filename), p.Line)
}

func (g *dv) errf(n ast.Node, format string, a ...any) error {
	return fmt.Errorf("%s: %s: %s", g.pos(n), fmt.Sprintf(format, a...), g.src(n))
}

func (g *dv) fresh() string {
	g.nfresh++
	return fmt.Sprintf("t_%d", g.nfresh)
}

func (g *dv) emit(s string) { g.lines = append(g.lines, s) }

func (g *dv) isPkg(x ast.Expr, name, path string) bool {
	id, ok := x.(*ast.Ident)
	if !ok || id.Name != name {
		return false
	}
	if _, shadow := g.vars[name]; shadow {
		return false
	}
	return g.pkgs[name] == path
}

const (
	dvPathTms20   = "github.com/pdok/texel/tms20"
	dvPathIntgeom = "github.com/pdok/texel/intgeom"
)

// the dereference of ix: emitted once, at the first use
func (g *dv) derefIx(name string, at ast.Node) error {
	switch g.vars[name] {
	case dvIx:
		return nil
	case dvIxPtr:
		if g.assigns[name] != 1 {
			return g.errf(at, "%s is assigned %d times: a later use could read another pointer", name, g.assigns[name])
		}
		g.emit(fmt.Sprintf("ddo v_%s <- dderef v_%s;   (* %s: first use of %s.f *)", name, name, g.pos(at), name))
		g.vars[name] = dvIx
		return nil
	}
	return g.errf(at, "%s is not a *PointIndex", name)
}

func (g *dv) expr(x ast.Expr) (dvVal, error) {
	switch e := x.(type) {
	case *ast.ParenExpr:
		return g.expr(e.X)
	case *ast.BasicLit:
		switch e.Kind {
		case token.INT:
			z, err := parseIntLit(e.Value)
			if err != nil {
				return dvVal{}, g.errf(e, "%v", err)
			}
			return dvVal{ty: dvConst, c: z}, nil
		case token.STRING:
			return dvVal{ty: dvStr}, nil
		}
		return dvVal{}, g.errf(e, "unsupported literal")
	case *ast.Ident:
		ty, ok := g.vars[e.Name]
		if !ok {
			return dvVal{}, g.errf(e, "unknown identifier")
		}
		switch ty {
		case dvFloat, dvInt64, dvInt, dvUint, dvStr, dvPoint:
			return dvVal{code: "v_" + e.Name, ty: ty}, nil
		}
		return dvVal{}, g.errf(e, "a value of type %s is not usable here", ty)
	case *ast.SelectorExpr:
		if g.isPkg(e.X, "intgeom", dvPathIntgeom) && e.Sel.Name == "Precision" {
			v, err := findIntConst(filepath.Join(g.repo, "intgeom", "intgeom.go"), "Precision")
			if err != nil {
				return dvVal{}, err
			}
			z, _ := new(big.Int).SetString(v, 10)
			return dvVal{ty: dvConst, c: z}, nil
		}
		if id, ok := e.X.(*ast.Ident); ok && (g.vars[id.Name] == dvIxPtr || g.vars[id.Name] == dvIx) {
			if err := g.derefIx(id.Name, e); err != nil {
				return dvVal{}, err
			}
			switch e.Sel.Name {
			case "deepestLevel":
				return dvVal{code: "(PointIndexT_deepestLevel v_" + id.Name + ")", ty: dvUint}, nil
			case "deepestSize":
				return dvVal{code: "(PointIndexT_deepestSize v_" + id.Name + ")", ty: dvUint}, nil
			case "intExtent": // promoted from the embedded Quadrant (declaration checked)
				return dvVal{code: "(Quadrant_intExtent (PointIndexT_Quadrant v_" + id.Name + "))", ty: dvExtent}, nil
			}
			return dvVal{}, g.errf(e, "field of PointIndex outside the table")
		}
		return dvVal{}, g.errf(e, "unsupported selector")
	case *ast.BinaryExpr:
		a, err := g.expr(e.X)
		if err != nil {
			return dvVal{}, err
		}
		b, err := g.expr(e.Y)
		if err != nil {
			return dvVal{}, err
		}
		if a.ty != b.ty {
			return dvVal{}, g.errf(e, "operands of types %s and %s", a.ty, b.ty)
		}
		switch a.ty {
		case dvConst:
			if e.Op == token.ADD {
				return dvVal{ty: dvConst, c: new(big.Int).Add(a.c, b.c)}, nil
			}
		case dvStr:
			if e.Op == token.ADD {
				return dvVal{ty: dvStr}, nil
			}
		case dvFloat:
			op := map[token.Token]string{token.ADD: "+", token.SUB: "-", token.MUL: "*", token.QUO: "/"}[e.Op]
			if op != "" {
				return dvVal{code: fmt.Sprintf("(%s %s %s)%%Q", a.code, op, b.code), ty: dvFloat}, nil
			}
		case dvInt64:
			switch e.Op {
			case token.ADD:
				return dvVal{code: fmt.Sprintf("(add64 %s %s)", a.code, b.code), ty: dvInt64}, nil
			case token.SUB:
				return dvVal{code: fmt.Sprintf("(sub64 %s %s)", a.code, b.code), ty: dvInt64}, nil
			case token.MUL:
				return dvVal{code: fmt.Sprintf("(mul64w %s %s)", a.code, b.code), ty: dvInt64}, nil
			case token.QUO:
				t := g.fresh()
				g.emit(fmt.Sprintf("ddo %s <- dlift (quot64 %s %s);", t, a.code, b.code))
				return dvVal{code: t, ty: dvInt64}, nil
			}
		}
		return dvVal{}, g.errf(e, "operator %s on %s is outside the subset", e.Op, a.ty)
	case *ast.CallExpr:
		return g.call(e)
	}
	return dvVal{}, g.errf(x, "unsupported expression")
}

func (g *dv) call(e *ast.CallExpr) (dvVal, error) {
	if e.Ellipsis != token.NoPos {
		return dvVal{}, g.errf(e, "variadic spread")
	}
	// conversions
	if id, ok := e.Fun.(*ast.Ident); ok && len(e.Args) == 1 {
		if _, shadow := g.vars[id.Name]; !shadow {
			switch id.Name {
			case "float64", "int64", "uint", "int":
				a, err := g.expr(e.Args[0])
				if err != nil {
					return dvVal{}, err
				}
				switch {
				case id.Name == "float64" && a.ty == dvUint:
					return dvVal{code: "(inject_Z (Z.of_N " + a.code + "))", ty: dvFloat}, nil
				case id.Name == "float64" && a.ty == dvInt64:
					return dvVal{code: "(inject_Z " + a.code + ")", ty: dvFloat}, nil
				case id.Name == "int64" && a.ty == dvUint:
					return dvVal{code: "(i64_of_N " + a.code + ")", ty: dvInt64}, nil
				case id.Name == "int64" && a.ty == dvInt64:
					return a, nil
				case id.Name == "int" && a.ty == dvUint:
					return dvVal{code: "(i64_of_N " + a.code + ")", ty: dvInt}, nil
				case id.Name == "uint" && a.ty == dvConst:
					if a.c.Sign() < 0 || a.c.BitLen() > 64 {
						return dvVal{}, g.errf(e, "constant does not fit uint")
					}
					return dvVal{code: "(" + a.c.String() + ")%N", ty: dvUint}, nil
				}
				return dvVal{}, g.errf(e, "conversion of a %s to %s is outside the subset", a.ty, id.Name)
			}
		}
	}
	sel, ok := e.Fun.(*ast.SelectorExpr)
	if !ok {
		return dvVal{}, g.errf(e, "unsupported call")
	}
	// package functions
	switch {
	case g.isPkg(sel.X, "intgeom", dvPathIntgeom) && sel.Sel.Name == "ToGeomOrd" && len(e.Args) == 1:
		a, err := g.expr(e.Args[0])
		if err != nil {
			return dvVal{}, err
		}
		if a.ty != dvInt64 {
			return dvVal{}, g.errf(e, "ToGeomOrd of a %s", a.ty)
		}
		return dvVal{code: "(gen_ToGeomOrd (fo_exact v_lg) " + a.code + ")", ty: dvFloat}, nil
	case g.isPkg(sel.X, "intgeom", dvPathIntgeom) && sel.Sel.Name == "PrintWithDecimals" && len(e.Args) == 2:
		a, err := g.expr(e.Args[0])
		if err != nil {
			return dvVal{}, err
		}
		b, err := g.expr(e.Args[1])
		if err != nil {
			return dvVal{}, err
		}
		if a.ty != dvInt64 || b.ty != dvUint {
			return dvVal{}, g.errf(e, "PrintWithDecimals of (%s, %s)", a.ty, b.ty)
		}
		return dvVal{ty: dvStr}, nil
	case g.isPkg(sel.X, "strconv", "strconv") && sel.Sel.Name == "Itoa" && len(e.Args) == 1:
		a, err := g.expr(e.Args[0])
		if err != nil {
			return dvVal{}, err
		}
		if a.ty != dvInt {
			return dvVal{}, g.errf(e, "Itoa of a %s", a.ty)
		}
		return dvVal{ty: dvStr}, nil
	case g.isPkg(sel.X, "fmt", "fmt") && sel.Sel.Name == "Sprintf" && len(e.Args) >= 1:
		for i, arg := range e.Args {
			a, err := g.expr(arg)
			if err != nil {
				return dvVal{}, err
			}
			if i == 0 && a.ty != dvStr {
				return dvVal{}, g.errf(e, "format of type %s", a.ty)
			}
			switch a.ty {
			case dvStr, dvFloat, dvInt64, dvInt, dvUint:
			default:
				return dvVal{}, g.errf(arg, "a %s as an operand of Sprintf", a.ty)
			}
		}
		return dvVal{ty: dvStr}, nil
	}
	// methods
	if len(e.Args) != 0 {
		return dvVal{}, g.errf(e, "unsupported call")
	}
	if id, ok := sel.X.(*ast.Ident); ok && g.vars[id.Name] == dvPoint {
		switch sel.Sel.Name {
		case "X":
			return dvVal{code: "(fst v_" + id.Name + ")", ty: dvFloat}, nil
		case "Y":
			return dvVal{code: "(snd v_" + id.Name + ")", ty: dvFloat}, nil
		}
	}
	if sel.Sel.Name == "XSpan" {
		r, err := g.expr(sel.X)
		if err != nil {
			return dvVal{}, err
		}
		if r.ty == dvExtent {
			return dvVal{code: "(gen_Extent_XSpan " + r.code + ")", ty: dvInt64}, nil
		}
	}
	return dvVal{}, g.errf(e, "unsupported call")
}

func (g *dv) declare(id *ast.Ident, ty dvTy, define bool) error {
	if id.Name == "_" {
		return g.errf(id, "blank identifier")
	}
	if _, ok := g.pkgs[id.Name]; ok {
		return g.errf(id, "a variable that shadows a package")
	}
	old, exists := g.vars[id.Name]
	if define && exists {
		return g.errf(id, "%s is declared twice (no shadowing, every variable is assigned once)", id.Name)
	}
	if !define && (!exists || old != ty) {
		return g.errf(id, "assignment to %s", id.Name)
	}
	g.vars[id.Name] = ty
	return nil
}

func (g *dv) results() string {
	return fmt.Sprintf("DOk (v_%s, v_%s, v_%s)", g.nsU, g.nsP, g.nsE)
}

// stmts translates the statement list; the result is the Gallina term of the rest of the function.
func (g *dv) stmts(list []ast.Stmt) error {
	for i, s := range list {
		last := i == len(list)-1
		switch st := s.(type) {
		case *ast.ReturnStmt:
			if len(st.Results) != 0 {
				return g.errf(st, "only the naked return of the named results is in the subset")
			}
			if !last {
				return g.errf(st, "statements after return")
			}
			g.emit(g.results())
			return nil
		case *ast.IfStmt:
			// if err != nil { return }
			c, ok := st.Cond.(*ast.BinaryExpr)
			okShape := ok && st.Init == nil && st.Else == nil && c.Op == token.NEQ && len(st.Body.List) == 1
			if okShape {
				x, okx := c.X.(*ast.Ident)
				y, oky := c.Y.(*ast.Ident)
				r, okr := st.Body.List[0].(*ast.ReturnStmt)
				okShape = okx && oky && okr && x.Name == g.nsE && y.Name == "nil" && len(r.Results) == 0
				if _, shadow := g.vars["nil"]; shadow {
					okShape = false
				}
			}
			if !okShape {
				return g.errf(st, "only `if %s != nil { return }` is in the subset", g.nsE)
			}
			g.emit(fmt.Sprintf("if is_some v_%s then %s else   (* %s *)", g.nsE, g.results(), g.pos(st)))
		case *ast.AssignStmt:
			if err := g.assign(st); err != nil {
				return err
			}
		default:
			return g.errf(s, "statement outside the subset")
		}
	}
	return fmt.Errorf("DeviationStats does not end with a return")
}

func (g *dv) assign(st *ast.AssignStmt) error {
	lhs := make([]*ast.Ident, len(st.Lhs))
	for i, l := range st.Lhs {
		id, ok := l.(*ast.Ident)
		if !ok {
			return g.errf(st, "assignment to something that is not a variable")
		}
		lhs[i] = id
	}
	if len(st.Rhs) != 1 {
		return g.errf(st, "tuple assignment")
	}
	// S += fmt.Sprintf(..): dropped
	if st.Tok == token.ADD_ASSIGN {
		if len(lhs) != 1 || lhs[0].Name != g.nsS {
			return g.errf(st, "+= on anything but the string result %s", g.nsS)
		}
		mark := len(g.lines)
		v, err := g.expr(st.Rhs[0])
		if err != nil {
			return err
		}
		if v.ty != dvStr {
			return g.errf(st, "%s += a %s", g.nsS, v.ty)
		}
		if err := g.onlyDerefs(st, mark); err != nil {
			return err
		}
		g.dropped = append(g.dropped, g.pos(st)+": "+g.src(st))
		return nil
	}
	if st.Tok != token.DEFINE && st.Tok != token.ASSIGN {
		return g.errf(st, "assignment operator outside the subset")
	}
	define := st.Tok == token.DEFINE
	if call, ok := st.Rhs[0].(*ast.CallExpr); ok && len(lhs) > 1 {
		// a, b, err := T.MatrixBoundingBox(n)
		if sel, ok := call.Fun.(*ast.SelectorExpr); ok && sel.Sel.Name == "MatrixBoundingBox" && len(lhs) == 3 && len(call.Args) == 1 && define {
			t, okT := sel.X.(*ast.Ident)
			if !okT || g.vars[t.Name] != dvTMS {
				return g.errf(st, "MatrixBoundingBox of something that is not the tile matrix set")
			}
			n, err := g.expr(call.Args[0])
			if err != nil {
				return err
			}
			if n.ty != dvConst {
				return g.errf(st, "MatrixBoundingBox of a non-constant id")
			}
			if lhs[2].Name != g.nsE {
				return g.errf(st, "the error of MatrixBoundingBox must go to the named result %s", g.nsE)
			}
			for _, id := range lhs[:2] {
				if err := g.declare(id, dvPoint, true); err != nil {
					return err
				}
			}
			g.emit(fmt.Sprintf("let '(v_%s, v_%s, v_%s) := gotms_MatrixBoundingBox v_%s %s in   (* %s *)", lhs[0].Name, lhs[1].Name, g.nsE, t.Name, n.c.String(), g.pos(st)))
			return nil
		}
		// ix, err := FromTileMatrixSet(T, D)
		if fn, ok := call.Fun.(*ast.Ident); ok && fn.Name == "FromTileMatrixSet" && len(lhs) == 2 && len(call.Args) == 2 && define {
			if _, shadow := g.vars[fn.Name]; shadow {
				return g.errf(st, "FromTileMatrixSet is shadowed")
			}
			t, okT := call.Args[0].(*ast.Ident)
			d, okD := call.Args[1].(*ast.Ident)
			if !okT || !okD || g.vars[t.Name] != dvTMS || g.vars[d.Name] != dvTMID {
				return g.errf(st, "the arguments of FromTileMatrixSet must be the two parameters")
			}
			if lhs[1].Name != g.nsE {
				return g.errf(st, "the error of FromTileMatrixSet must go to the named result %s", g.nsE)
			}
			if err := g.declare(lhs[0], dvIxPtr, true); err != nil {
				return err
			}
			g.emit(fmt.Sprintf("ddo (v_%s, v_%s) <- dlift (gen_FromTileMatrixSet (fo_exact v_lg) v_%s v_%s);   (* %s *)", lhs[0].Name, g.nsE, t.Name, d.Name, g.pos(st)))
			return nil
		}
		return g.errf(st, "call with several results outside the table")
	}
	if len(lhs) != 1 {
		return g.errf(st, "tuple assignment")
	}
	mark := len(g.lines)
	v, err := g.expr(st.Rhs[0])
	if err != nil {
		return err
	}
	// a string-valued definition is dropped like the += statements
	if v.ty == dvStr {
		if !define {
			return g.errf(st, "assignment to a string variable")
		}
		if err := g.onlyDerefs(st, mark); err != nil {
			return err
		}
		g.dropped = append(g.dropped, g.pos(st)+": "+g.src(st))
		return g.declare(lhs[0], dvStr, true)
	}
	switch v.ty {
	case dvFloat, dvInt64, dvUint:
	default:
		return g.errf(st, "a definition of type %s", v.ty)
	}
	if !define {
		if v.ty != dvFloat || (lhs[0].Name != g.nsU && lhs[0].Name != g.nsP) {
			return g.errf(st, "plain assignment is in the subset for the float64 results only")
		}
		if g.assigns[lhs[0].Name] != 1 {
			return g.errf(st, "%s is assigned more than once", lhs[0].Name)
		}
	}
	if err := g.declare(lhs[0], v.ty, define); err != nil {
		return err
	}
	g.emit(fmt.Sprintf("let v_%s := %s in   (* %s *)", lhs[0].Name, v.code, g.pos(st)))
	return nil
}

// a dropped statement may have emitted dereferences of ix only (an int64 division could panic)
func (g *dv) onlyDerefs(st ast.Node, mark int) error {
	for _, l := range g.lines[mark:] {
		if !(strings.HasPrefix(l, "ddo v_") && strings.Contains(l, "<- dderef")) {
			return g.errf(st, "a statement that only builds a string contains an operation that can panic (%s)", l)
		}
	}
	return nil
}

// ---- declarations ----

func dvParseDir(fset *token.FileSet, dir string) ([]*ast.File, error) {
	ents, err := os.ReadDir(dir)
	if err != nil {
		return nil, err
	}
	var fs []*ast.File
	for _, en := range ents {
		n := en.Name()
		if en.IsDir() || !strings.HasSuffix(n, ".go") || strings.HasSuffix(n, "_test.go") {
			continue
		}
		f, err := parser.ParseFile(fset, filepath.Join(dir, n), nil, 0)
		if err != nil {
			return nil, err
		}
		fs = append(fs, f)
	}
	return fs, nil
}

func dvFuncKey(fd *ast.FuncDecl) string {
	if fd.Recv == nil || len(fd.Recv.List) != 1 {
		return fd.Name.Name
	}
	return strings.TrimPrefix(types.ExprString(fd.Recv.List[0].Type), "*") + "." + fd.Name.Name
}

type dvPkg struct {
	funcs map[string][]*ast.FuncDecl
	types map[string]*ast.TypeSpec
}

func dvLoad(fset *token.FileSet, dir string) (*dvPkg, error) {
	fs, err := dvParseDir(fset, dir)
	if err != nil {
		return nil, err
	}
	p := &dvPkg{funcs: map[string][]*ast.FuncDecl{}, types: map[string]*ast.TypeSpec{}}
	for _, f := range fs {
		for _, d := range f.Decls {
			switch x := d.(type) {
			case *ast.FuncDecl:
				p.funcs[dvFuncKey(x)] = append(p.funcs[dvFuncKey(x)], x)
			case *ast.GenDecl:
				if x.Tok == token.TYPE {
					for _, s := range x.Specs {
						ts := s.(*ast.TypeSpec)
						p.types[ts.Name.Name] = ts
					}
				}
			}
		}
	}
	return p, nil
}

func (p *dvPkg) sig(key, want string) (*ast.FuncDecl, error) {
	l := p.funcs[key]
	if len(l) != 1 {
		return nil, fmt.Errorf("%s is declared %d times", key, len(l))
	}
	fd := l[0]
	if fd.Type.TypeParams != nil || fd.Body == nil {
		return nil, fmt.Errorf("%s is generic or has no body", key)
	}
	if got := types.ExprString(fd.Type); got != want {
		return nil, fmt.Errorf("%s has the signature %s, expected %s", key, got, want)
	}
	return fd, nil
}

func (p *dvPkg) typeIs(name string, alias bool, want string) error {
	ts := p.types[name]
	if ts == nil {
		return fmt.Errorf("type %s not found", name)
	}
	if ts.TypeParams != nil || (ts.Assign != token.NoPos) != alias || types.ExprString(ts.Type) != want {
		return fmt.Errorf("type %s is not declared as expected (%s)", name, want)
	}
	return nil
}

func (p *dvPkg) structHas(name string, fields map[string]string) error {
	ts := p.types[name]
	if ts == nil {
		return fmt.Errorf("type %s not found", name)
	}
	st, ok := ts.Type.(*ast.StructType)
	if !ok || ts.TypeParams != nil {
		return fmt.Errorf("type %s is not a struct", name)
	}
	seen := map[string]string{}
	for _, f := range st.Fields.List {
		t := types.ExprString(f.Type)
		if len(f.Names) == 0 {
			seen["embedded "+t] = t
		}
		for _, n := range f.Names {
			seen[n.Name] = t
		}
	}
	for n, t := range fields {
		if seen[n] != t {
			return fmt.Errorf("struct %s: field %s has type %q, expected %q", name, n, seen[n], t)
		}
	}
	return nil
}

// PrintWithDecimals only builds a string: it assigns locals only and calls nothing but fmt.Sprintf, strconv.Itoa,
// strings.Repeat, len, int (its slice expressions cannot fail for a format "%0<Precision+1>d": argued in the header
// of the generated file, TRUSTED).
func dvCheckPure(fset *token.FileSet, fd *ast.FuncDecl) error {
	params := map[string]bool{}
	for _, f := range fd.Type.Params.List {
		for _, n := range f.Names {
			params[n.Name] = true
		}
	}
	locals := map[string]bool{}
	var err error
	bad := func(n ast.Node, what string) {
		if err == nil {
			err = fmt.Errorf("%s:%d: %s in %s", filepath.Base(fset.Position(n.Pos()).Filename), fset.Position(n.Pos()).Line, what, fd.Name.Name)
		}
	}
	ast.Inspect(fd.Body, func(n ast.Node) bool {
		switch x := n.(type) {
		case *ast.AssignStmt:
			for _, l := range x.Lhs {
				id, ok := l.(*ast.Ident)
				if !ok {
					bad(x, "assignment through an index / field / pointer")
					continue
				}
				if x.Tok == token.DEFINE {
					locals[id.Name] = true
				} else if !locals[id.Name] {
					bad(x, "assignment to a non-local")
				}
			}
		case *ast.CallExpr:
			switch types.ExprString(x.Fun) {
			case "fmt.Sprintf", "strconv.Itoa", "strings.Repeat", "len", "int":
			default:
				bad(x, "call of "+types.ExprString(x.Fun))
			}
		case *ast.GoStmt, *ast.DeferStmt, *ast.SendStmt, *ast.FuncLit, *ast.IncDecStmt, *ast.RangeStmt, *ast.ForStmt, *ast.LabeledStmt, *ast.SelectStmt, *ast.StarExpr:
			bad(n, "unsupported construct")
		case *ast.UnaryExpr:
			if x.Op == token.AND || x.Op == token.ARROW {
				bad(x, "address / receive")
			}
		}
		return true
	})
	return err
}

func genDeviation(repo string) (string, error) {
	fset := token.NewFileSet()
	pi, err := dvLoad(fset, filepath.Join(repo, "pointindex"))
	if err != nil {
		return "", err
	}
	ig, err := dvLoad(fset, filepath.Join(repo, "intgeom"))
	if err != nil {
		return "", err
	}
	tm, err := dvLoad(fset, filepath.Join(repo, "tms20"))
	if err != nil {
		return "", err
	}
	// package pointindex
	if n := len(pi.funcs["IsQuadTree"]); n != 1 {
		return "", fmt.Errorf("IsQuadTree is declared %d times in package pointindex", n)
	}
	if _, err := pi.sig("IsQuadTree", "func(tms tms20.TileMatrixSet) error"); err != nil {
		return "", err
	}
	if _, err := pi.sig("FromTileMatrixSet", "func(tileMatrixSet tms20.TileMatrixSet, deepestTMID tms20.TMID) (*PointIndex, error)"); err != nil {
		return "", err
	}
	if err := pi.structHas("PointIndex", map[string]string{"embedded Quadrant": "Quadrant", "deepestLevel": "Level", "deepestSize": "uint"}); err != nil {
		return "", err
	}
	if err := pi.structHas("Quadrant", map[string]string{"intExtent": "intgeom.Extent"}); err != nil {
		return "", err
	}
	if err := pi.typeIs("Level", true, "uint"); err != nil {
		return "", err
	}
	// package intgeom
	if err := ig.typeIs("M", true, "int64"); err != nil {
		return "", err
	}
	if err := ig.typeIs("Extent", false, "[4]M"); err != nil {
		return "", err
	}
	if _, err := ig.sig("ToGeomOrd", "func(o M) float64"); err != nil {
		return "", err
	}
	if _, err := ig.sig("Extent.XSpan", "func() M"); err != nil {
		return "", err
	}
	pw, err := ig.sig("PrintWithDecimals", "func(o M, n uint) string")
	if err != nil {
		return "", err
	}
	if err := dvCheckPure(fset, pw); err != nil {
		return "", err
	}
	// package tms20
	if err := tm.typeIs("TMID", true, "int"); err != nil {
		return "", err
	}
	if _, err := tm.sig("TileMatrixSet.MatrixBoundingBox", "func(tmID TMID) (bottomLeft geom.Point, topRight geom.Point, err error)"); err != nil {
		return "", err
	}

	l := pi.funcs["DeviationStats"]
	if len(l) != 1 {
		return "", fmt.Errorf("DeviationStats is declared %d times in package pointindex", len(l))
	}
	fd := l[0]
	if fd.Recv != nil || fd.Body == nil || fd.Type.TypeParams != nil {
		return "", fmt.Errorf("DeviationStats is a method, generic or has no body")
	}
	g := &dv{fset: fset, pkgs: map[string]string{}, vars: map[string]dvTy{}, assigns: map[string]int{}, repo: repo}
	// the imports of the file that declares it
	var file *ast.File
	fs, _ := dvParseDir(fset, filepath.Join(repo, "pointindex"))
	for _, f := range fs {
		for _, d := range f.Decls {
			if x, ok := d.(*ast.FuncDecl); ok && x.Name.Name == "DeviationStats" && x.Recv == nil {
				file = f
				fd = x
			}
		}
	}
	if file == nil {
		return "", fmt.Errorf("DeviationStats not found")
	}
	for _, im := range file.Imports {
		p, err := strconv.Unquote(im.Path.Value)
		if err != nil {
			return "", err
		}
		name := p[strings.LastIndex(p, "/")+1:]
		if im.Name != nil {
			name = im.Name.Name
		}
		g.pkgs[name] = p
	}
	if g.pkgs["tms20"] != dvPathTms20 || g.pkgs["intgeom"] != dvPathIntgeom || g.pkgs["fmt"] != "fmt" || g.pkgs["strconv"] != "strconv" {
		return "", fmt.Errorf("%s does not import tms20, intgeom, fmt, strconv under their own names", g.fset.Position(file.Pos()).Filename)
	}
	// signature: (T tms20.TileMatrixSet, D tms20.TMID) (S string, U, P float64, E error)
	ps, rs := fd.Type.Params.List, fd.Type.Results
	okSig := len(ps) == 2 && len(ps[0].Names) == 1 && len(ps[1].Names) == 1 &&
		types.ExprString(ps[0].Type) == "tms20.TileMatrixSet" && types.ExprString(ps[1].Type) == "tms20.TMID" &&
		rs != nil && len(rs.List) == 3 && len(rs.List[0].Names) == 1 && len(rs.List[1].Names) == 2 && len(rs.List[2].Names) == 1 &&
		types.ExprString(rs.List[0].Type) == "string" && types.ExprString(rs.List[1].Type) == "float64" && types.ExprString(rs.List[2].Type) == "error"
	if !okSig {
		return "", fmt.Errorf("DeviationStats has the signature %s", types.ExprString(fd.Type))
	}
	pT, pD := ps[0].Names[0].Name, ps[1].Names[0].Name
	g.nsS, g.nsU, g.nsP, g.nsE = rs.List[0].Names[0].Name, rs.List[1].Names[0].Name, rs.List[1].Names[1].Name, rs.List[2].Names[0].Name
	names := map[string]bool{}
	for _, n := range []string{pT, pD, g.nsS, g.nsU, g.nsP, g.nsE} {
		if n == "_" || names[n] || g.pkgs[n] != "" {
			return "", fmt.Errorf("DeviationStats: parameter / result name %q", n)
		}
		names[n] = true
	}
	g.vars[pT], g.vars[pD] = dvTMS, dvTMID
	g.vars[g.nsS], g.vars[g.nsU], g.vars[g.nsP], g.vars[g.nsE] = "result string", dvFloat, dvFloat, dvErr
	// how often is each variable assigned; constructs that are outside the subset anywhere in the body
	var ierr error
	ast.Inspect(fd.Body, func(n ast.Node) bool {
		switch x := n.(type) {
		case *ast.AssignStmt:
			for _, l := range x.Lhs {
				if id, ok := l.(*ast.Ident); ok {
					g.assigns[id.Name]++
				}
			}
		case *ast.IncDecStmt, *ast.FuncLit, *ast.GoStmt, *ast.DeferStmt, *ast.LabeledStmt, *ast.BranchStmt, *ast.SwitchStmt, *ast.TypeSwitchStmt,
			*ast.SelectStmt, *ast.ForStmt, *ast.RangeStmt, *ast.DeclStmt, *ast.SendStmt, *ast.StarExpr, *ast.UnaryExpr, *ast.IndexExpr, *ast.SliceExpr, *ast.CompositeLit:
			if ierr == nil {
				ierr = g.errf(n, "construct outside the subset")
			}
		}
		return true
	})
	if ierr != nil {
		return "", ierr
	}
	if err := g.stmts(fd.Body.List); err != nil {
		return "", fmt.Errorf("DeviationStats: %v", err)
	}

	var b strings.Builder
	b.WriteString("(* GENERATED by /verif/translator (deviation.go) from pointindex/pointindex.go (func DeviationStats) on every run -- do not edit.\n")
	b.WriteString("   The NUMERIC part of DeviationStats, statement by statement, in the monad dres of Index/GoDeviation.v.\n")
	b.WriteString("   READING (trusted): float64 = EXACT Q (fo_exact v_lg: the instance of the record floatops of Index/GoTop.v with carrier Q,\n")
	b.WriteString("   math.Log2 the parameter v_lg); the rounding of the real binary64 arithmetic is outside the reading.  int64 arithmetic wraps\n")
	b.WriteString("   (sub64 / mul64w / quot64 with Err DivZero), uint = N, int64(u) = i64_of_N.  A dereference of the *PointIndex = dderef.\n")
	b.WriteString("   CALLED as regenerated in IndexTopGen.v (signatures checked): FromTileMatrixSet, intgeom.ToGeomOrd, Extent.XSpan.\n")
	b.WriteString("   MAPPED (declarations checked): tms20.TileMatrixSet = the view gotms, T.MatrixBoundingBox(n) = gotms_MatrixBoundingBox T n\n")
	b.WriteString("   (the method is regenerated over Q in TmsAddrGen.v); (geom.Point).X() / .Y() = fst / snd; the fields deepestLevel,\n")
	b.WriteString("   deepestSize, intExtent (promoted from Quadrant) of PointIndex = the projections of gen_PointIndexT.\n")
	b.WriteString("   DROPPED after checking that they only build the statistics text (operands in the same subset, no int64 division, calls\n")
	b.WriteString("   only of fmt.Sprintf / strconv.Itoa / intgeom.PrintWithDecimals -- whose body assigns locals only and calls only\n")
	b.WriteString("   fmt.Sprintf, strconv.Itoa, strings.Repeat, len, int; TRUSTED: these return without a panic: Sprintf(\"%0<Precision+1>d\", o)\n")
	b.WriteString("   has at least Precision + 1 characters, so s[l-Precision:l] is in range, m[0:n] is taken only for n < Precision = len m,\n")
	b.WriteString("   Repeat gets n - Precision >= 0) -- their dereferences of ix are kept:\n")
	for _, d := range g.dropped {
		b.WriteString("     " + strings.ReplaceAll(strings.ReplaceAll(d, "(*", "( *"), "*)", "* )") + "\n")
	}
	b.WriteString("   pointindex.IsQuadTree is not a wrapper: it is the function regenerated whole in QuadTreeGen.v (declared once: checked). *)\n")
	b.WriteString("From Coq Require Import ZArith NArith QArith List Bool.\n")
	b.WriteString("From Texel Require Import Prelude.Base Prelude.GoAssoc Index.MachineInt Index.GoTop Index.GoDeviation.\n")
	b.WriteString("From Texel.Gen Require Import PointIndexGen LineGen ChildrenGen FindGen HitsGen DescentGen IndexTopGen.\n")
	b.WriteString("Open Scope Z_scope.\n\n")
	fmt.Fprintf(&b, "(* %s func DeviationStats(%s tms20.TileMatrixSet, %s tms20.TMID) (%s string, %s, %s float64, %s error); result = (%s, %s, %s) *)\n",
		g.pos(fd), pT, pD, g.nsS, g.nsU, g.nsP, g.nsE, g.nsU, g.nsP, g.nsE)
	fmt.Fprintf(&b, "Definition gen_DeviationStats (v_lg : Q -> Q) (v_%s : gotms (fo_exact v_lg) gen_OutsideGridError) (v_%s : Z) : dres (Q * Q * option (goerr gen_OutsideGridError))%%type :=\n", pT, pD)
	fmt.Fprintf(&b, "  let v_%s := 0%%Q in\n  let v_%s := 0%%Q in\n  let v_%s := (@None (goerr gen_OutsideGridError)) in\n", g.nsU, g.nsP, g.nsE)
	for i, ln := range g.lines {
		b.WriteString("  " + ln)
		if i < len(g.lines)-1 {
			b.WriteString("\n")
		}
	}
	b.WriteString(".\n")
	return b.String(), nil
}
