package main

