package main

func genPointIndex(repo string) (string, error) {
	return "(* GENERATED placeholder *)\n", nil
}

func genCli(repo string) (string, error) {
	return "(* GENERATED placeholder *)\n", nil
}
