package main

func genCli(repo string) (string, error) {
	return "(* GENERATED placeholder *)\n", nil
}
