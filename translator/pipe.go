package main

import (
	"bytes"
	"fmt"
	"go/ast"
	"go/parser"
	"go/printer"
	"go/token"
	"os"
	"path/filepath"
	"sort"
	"strings"
)

// ---------------------------------------------------------------------------
// G (pipeline): concurrency skeleton of processing/processing.go -> gen/PipeGen.v
//
// Every statement of the functions named in pipeFuncs is turned into a term of the statement language of
// coq/theories/Pipe/Skeleton.v: channel creation (with its buffer size), go, defer, sync.WaitGroup operations,
// send, receive, close, the loops / branches / type switches around them, panics, calls of other skeleton functions
// and interface methods that are handed a channel each have a constructor; every other statement is kept as
// SOther "<printed source text>" after checking that it contains nothing that matters for the concurrency (no
// channel operation, go, defer, select, function literal, sync.*, panic, call of a skeleton function, and no mention
// of a variable that holds a channel / wait group / map of channels).  Anything else is a translation failure.
//
// Trusted table (listed in the generated file as well): the named types of other packages that a `range` runs over
//   geom.MultiPolygon, geom.Polygon : slices (github.com/go-spatial/geom: [][][][2]float64, [][][2]float64)
// ---------------------------------------------------------------------------

var pipeFuncs = []string{
	"ProcessFeatures", "readFeaturesFromSource", "processFeatures", "writeFeaturesToTargets",
	"processMultiPolygon", "polygonsToMulti",
}

var pipeForeignSlices = map[string]bool{"geom.MultiPolygon": true, "geom.Polygon": true}

type pk struct {
	fset   *token.FileSet
	funcs  map[string]*ast.FuncDecl // all functions (not methods) of processing.go
	types  map[string]ast.Expr      // type declarations of the package (processing.go, interface.go)
	skel   map[string]bool          // names in pipeFuncs
	meths  map[string]string        // "Source.ReadFeatures" -> printed signature (those called with a channel)
	uses   []string                 // order of first use of meths
	fnName string
}

// per function (and closure) scope
type pkScope struct {
	conc  map[string]string   // variable -> "chan" | "wg" | "chanmap"
	types map[string]ast.Expr // variable -> declared / inferred type (only what range statements need)
}

func (s *pkScope) clone() *pkScope {
	n := &pkScope{conc: map[string]string{}, types: map[string]ast.Expr{}}
	for k, v := range s.conc {
		n.conc[k] = v
	}
	for k, v := range s.types {
		n.types[k] = v
	}
	return n
}

func (g *pk) src(n ast.Node) string {
	var b bytes.Buffer
	_ = printer.Fprint(&b, g.fset, n)
	return pkSquash(b.String())
}

// pkSquash: runs of white space outside string / rune literals become one blank; literals are kept byte for byte
func pkSquash(s string) string {
	var out []byte
	var lit byte // 0, '"', '`' or '\''
	space := false
	for i := 0; i < len(s); i++ {
		c := s[i]
		if lit != 0 {
			out = append(out, c)
			if c == '\\' && lit != '`' && i+1 < len(s) {
				i++
				out = append(out, s[i])
			} else if c == lit {
				lit = 0
			}
			continue
		}
		if c == ' ' || c == '\t' || c == '\n' || c == '\r' {
			space = true
			continue
		}
		if space && len(out) > 0 {
			out = append(out, ' ')
		}
		space = false
		out = append(out, c)
		if c == '"' || c == '`' || c == '\'' {
			lit = c
		}
	}
	return string(out)
}

func (g *pk) errf(n ast.Node, format string, a ...interface{}) error {
	p := g.fset.Position(n.Pos())
	return fmt.Errorf("%s:%d (%s): %s", filepath.Base(p.Filename), p.Line, g.fnName, fmt.Sprintf(format, a...))
}

func pkStr(s string) (string, error) {
	for i := 0; i < len(s); i++ {
		if s[i] < 32 || s[i] > 126 {
			return "", fmt.Errorf("non-printable or non-ASCII byte in source text %q", s)
		}
	}
	return "\"" + strings.ReplaceAll(s, "\"", "\"\"") + "\"", nil
}

func pkList(xs []string) string { return "[" + strings.Join(xs, "; ") + "]" }

// resolve a type expression to "map", "slice", "chan", "wg", "chanmap", "func", "iface:<Name>" or ""
func (g *pk) kindOf(t ast.Expr, depth int) string {
	if t == nil || depth > 8 {
		return ""
	}
	switch x := t.(type) {
	case *ast.ParenExpr:
		return g.kindOf(x.X, depth+1)
	case *ast.ChanType:
		return "chan"
	case *ast.MapType:
		if g.kindOf(x.Value, depth+1) == "chan" {
			return "chanmap"
		}
		return "map"
	case *ast.ArrayType:
		if x.Len == nil {
			return "slice"
		}
		return ""
	case *ast.FuncType:
		return "func"
	case *ast.InterfaceType:
		return "iface"
	case *ast.Ident:
		if d, ok := g.types[x.Name]; ok {
			k := g.kindOf(d, depth+1)
			if k == "iface" {
				return "iface:" + x.Name
			}
			return k
		}
		return ""
	case *ast.SelectorExpr:
		s := g.src(x)
		if s == "sync.WaitGroup" {
			return "wg"
		}
		if pipeForeignSlices[s] {
			return "slice"
		}
		return ""
	}
	return ""
}

// element types of a container type (key, value), nil when unknown
func (g *pk) elemsOf(t ast.Expr, depth int) (ast.Expr, ast.Expr) {
	if t == nil || depth > 8 {
		return nil, nil
	}
	switch x := t.(type) {
	case *ast.ParenExpr:
		return g.elemsOf(x.X, depth+1)
	case *ast.MapType:
		return x.Key, x.Value
	case *ast.ArrayType:
		return ast.NewIdent("int"), x.Elt
	case *ast.Ident:
		if d, ok := g.types[x.Name]; ok {
			return g.elemsOf(d, depth+1)
		}
	case *ast.SelectorExpr:
		switch g.src(x) {
		case "geom.MultiPolygon":
			return ast.NewIdent("int"), &ast.SelectorExpr{X: ast.NewIdent("geom"), Sel: ast.NewIdent("Polygon")}
		}
	}
	return nil, nil
}

// the single result type of calling something of type t (a func type, possibly named)
func (g *pk) resultOf(t ast.Expr, depth int) ast.Expr {
	if t == nil || depth > 8 {
		return nil
	}
	switch x := t.(type) {
	case *ast.FuncType:
		if x.Results != nil && len(x.Results.List) == 1 && len(x.Results.List[0].Names) <= 1 {
			return x.Results.List[0].Type
		}
	case *ast.Ident:
		if d, ok := g.types[x.Name]; ok {
			return g.resultOf(d, depth+1)
		}
	}
	return nil
}

func (g *pk) declare(sc *pkScope, name string, t ast.Expr) {
	if name == "" || name == "_" {
		return
	}
	delete(sc.conc, name)
	delete(sc.types, name)
	if t == nil {
		return
	}
	sc.types[name] = t
	switch g.kindOf(t, 0) {
	case "chan":
		sc.conc[name] = "chan"
	case "wg":
		sc.conc[name] = "wg"
	case "chanmap":
		sc.conc[name] = "chanmap"
	}
}

// pure: n contains nothing that matters for the concurrency
func (g *pk) pure(sc *pkScope, n ast.Node) error {
	var err error
	ast.Inspect(n, func(x ast.Node) bool {
		if err != nil || x == nil {
			return false
		}
		switch y := x.(type) {
		case *ast.FuncLit:
			err = g.errf(y, "function literal inside %q", g.src(n))
		case *ast.ChanType:
			err = g.errf(y, "channel type inside %q", g.src(n))
		case *ast.UnaryExpr:
			if y.Op == token.ARROW {
				err = g.errf(y, "receive inside %q", g.src(n))
			}
		case *ast.SendStmt, *ast.GoStmt, *ast.DeferStmt, *ast.SelectStmt, *ast.LabeledStmt:
			err = g.errf(y, "concurrency statement inside %q", g.src(n))
		case *ast.BranchStmt:
			err = g.errf(y, "%s inside %q", y.Tok, g.src(n))
		case *ast.ReturnStmt:
			err = g.errf(y, "return inside %q", g.src(n))
		case *ast.SelectorExpr:
			if id, ok := y.X.(*ast.Ident); ok && (id.Name == "sync" || id.Name == "atomic" || id.Name == "context" || id.Name == "time" || id.Name == "os" || id.Name == "runtime") {
				err = g.errf(y, "%s inside %q", g.src(y), g.src(n))
			}
		case *ast.Ident:
			switch {
			case sc.conc[y.Name] != "":
				err = g.errf(y, "%s variable %s used inside %q", sc.conc[y.Name], y.Name, g.src(n))
			case g.skel[y.Name]:
				err = g.errf(y, "skeleton function %s used inside %q", y.Name, g.src(n))
			case y.Name == "close" || y.Name == "panic" || y.Name == "recover":
				err = g.errf(y, "%s inside %q", y.Name, g.src(n))
			}
		}
		return err == nil
	})
	return err
}

func (g *pk) other(sc *pkScope, s ast.Node, ind string) (string, error) {
	if err := g.pure(sc, s); err != nil {
		return "", err
	}
	t, err := pkStr(g.src(s))
	if err != nil {
		return "", g.errf(s, "%v", err)
	}
	return ind + "SOther " + t, nil
}

func (g *pk) q(n ast.Node) (string, error) {
	t, err := pkStr(g.src(n))
	if err != nil {
		return "", g.errf(n, "%v", err)
	}
	return t, nil
}

func (g *pk) qs(s string) string {
	t, err := pkStr(s)
	if err != nil {
		panic(err) // only called on identifiers and fixed words
	}
	return t
}

// pure expression printed as a Coq string
func (g *pk) pureQ(sc *pkScope, n ast.Node) (string, error) {
	if err := g.pure(sc, n); err != nil {
		return "", err
	}
	return g.q(n)
}

// an identifier that must hold something of the given concurrency kind
func (g *pk) concIdent(sc *pkScope, x ast.Expr, kind string) (string, error) {
	id, ok := x.(*ast.Ident)
	if !ok {
		return "", g.errf(x, "expected a %s variable, found %q", kind, g.src(x))
	}
	if sc.conc[id.Name] != kind {
		return "", g.errf(x, "%s is not known to be a %s variable", id.Name, kind)
	}
	return id.Name, nil
}

// arguments of a skeleton / method call: identifiers holding channels etc. stay names, other arguments must be pure
func (g *pk) callArgs(sc *pkScope, args []ast.Expr) ([]string, bool, error) {
	var out []string
	hasConc := false
	for _, a := range args {
		if id, ok := a.(*ast.Ident); ok && sc.conc[id.Name] != "" {
			hasConc = true
			out = append(out, g.qs(id.Name))
			continue
		}
		t, err := g.pureQ(sc, a)
		if err != nil {
			return nil, false, err
		}
		out = append(out, t)
	}
	return out, hasConc, nil
}

func (g *pk) mentionsConc(sc *pkScope, n ast.Node) bool {
	found := false
	ast.Inspect(n, func(x ast.Node) bool {
		if id, ok := x.(*ast.Ident); ok && sc.conc[id.Name] != "" {
			found = true
		}
		return !found
	})
	return found
}

// call statement (also the operand of defer): close, panic, wg.*, skeleton function, interface method with a channel
func (g *pk) callStmt(sc *pkScope, c *ast.CallExpr, lhs string, whole ast.Node, ind string) (string, error) {
	if c.Ellipsis != token.NoPos {
		return "", g.errf(c, "variadic call %q", g.src(c))
	}
	switch f := c.Fun.(type) {
	case *ast.Ident:
		switch {
		case f.Name == "close" && lhs == "":
			if len(c.Args) != 1 {
				return "", g.errf(c, "close with %d arguments", len(c.Args))
			}
			ch, err := g.concIdent(sc, c.Args[0], "chan")
			if err != nil {
				return "", err
			}
			return ind + "SClose " + g.qs(ch), nil
		case f.Name == "panic" && lhs == "":
			if len(c.Args) != 1 {
				return "", g.errf(c, "panic with %d arguments", len(c.Args))
			}
			t, err := g.pureQ(sc, c.Args[0])
			if err != nil {
				return "", err
			}
			return ind + "SPanic " + t, nil
		case g.skel[f.Name]:
			if _, ok := g.funcs[f.Name]; !ok {
				return "", g.errf(c, "skeleton function %s not found", f.Name)
			}
			args, _, err := g.callArgs(sc, c.Args)
			if err != nil {
				return "", err
			}
			return ind + "SCall " + g.qs(lhs) + " " + g.qs(f.Name) + " " + pkList(args), nil
		}
	case *ast.SelectorExpr:
		recv, ok := f.X.(*ast.Ident)
		if ok && sc.conc[recv.Name] == "wg" && lhs == "" {
			switch f.Sel.Name {
			case "Add":
				if len(c.Args) != 1 {
					return "", g.errf(c, "wg.Add with %d arguments", len(c.Args))
				}
				t, err := g.pureQ(sc, c.Args[0])
				if err != nil {
					return "", err
				}
				return ind + "SWgAdd " + g.qs(recv.Name) + " " + t, nil
			case "Done":
				if len(c.Args) != 0 {
					return "", g.errf(c, "wg.Done with arguments")
				}
				return ind + "SWgDone " + g.qs(recv.Name), nil
			case "Wait":
				if len(c.Args) != 0 {
					return "", g.errf(c, "wg.Wait with arguments")
				}
				return ind + "SWgWait " + g.qs(recv.Name), nil
			}
			return "", g.errf(c, "unsupported WaitGroup method %s", f.Sel.Name)
		}
		if ok && sc.conc[recv.Name] == "" && lhs == "" {
			args, hasConc, err := g.callArgs(sc, c.Args)
			if err != nil {
				return "", err
			}
			if hasConc {
				k := g.kindOf(sc.types[recv.Name], 0)
				if !strings.HasPrefix(k, "iface:") {
					return "", g.errf(c, "a channel is handed to %q, whose receiver is not of an interface type of this package", g.src(c.Fun))
				}
				iface := strings.TrimPrefix(k, "iface:")
				sig, err := g.methodSig(iface, f.Sel.Name)
				if err != nil {
					return "", g.errf(c, "%v", err)
				}
				key := iface + "." + f.Sel.Name
				if _, seen := g.meths[key]; !seen {
					g.uses = append(g.uses, key)
				}
				g.meths[key] = sig
				return ind + "SCallMethod " + g.qs(recv.Name) + " " + g.qs(iface) + " " + g.qs(f.Sel.Name) + " " + pkList(args), nil
			}
		}
	}
	if g.mentionsConc(sc, c) {
		return "", g.errf(c, "unsupported use of a channel / wait group in %q", g.src(whole))
	}
	return g.other(sc, whole, ind)
}

func (g *pk) methodSig(iface, meth string) (string, error) {
	d, ok := g.types[iface]
	if !ok {
		return "", fmt.Errorf("interface %s not found", iface)
	}
	it, ok := d.(*ast.InterfaceType)
	if !ok {
		return "", fmt.Errorf("%s is not an interface", iface)
	}
	for _, m := range it.Methods.List {
		for _, n := range m.Names {
			if n.Name == meth {
				return g.src(m.Type), nil
			}
		}
	}
	return "", fmt.Errorf("interface %s has no method %s", iface, meth)
}

func (g *pk) params(sc *pkScope, fl *ast.FieldList) ([]string, error) {
	var out []string
	if fl == nil {
		return out, nil
	}
	for _, f := range fl.List {
		if len(f.Names) == 0 {
			return nil, g.errf(f, "unnamed parameter")
		}
		if _, variadic := f.Type.(*ast.Ellipsis); variadic {
			return nil, g.errf(f, "variadic parameter")
		}
		ty, err := g.q(f.Type)
		if err != nil {
			return nil, err
		}
		for _, n := range f.Names {
			g.declare(sc, n.Name, f.Type)
			out = append(out, "("+g.qs(n.Name)+", "+ty+")")
		}
	}
	return out, nil
}

func (g *pk) block(sc *pkScope, list []ast.Stmt, ind string) (string, error) {
	if len(list) == 0 {
		return "[]", nil
	}
	inner := sc.clone()
	var out []string
	for _, s := range list {
		t, err := g.stmt(inner, s, ind+"  ")
		if err != nil {
			return "", err
		}
		out = append(out, t)
	}
	return "[\n" + strings.Join(out, ";\n") + " ]", nil
}

func (g *pk) stmt(sc *pkScope, s ast.Stmt, ind string) (string, error) {
	switch x := s.(type) {
	case *ast.DeclStmt:
		gd, ok := x.Decl.(*ast.GenDecl)
		if !ok || gd.Tok != token.VAR {
			return "", g.errf(s, "unsupported declaration %q", g.src(s))
		}
		t, err := g.other(sc, s, ind)
		if err != nil {
			return "", err
		}
		for _, sp := range gd.Specs {
			vs := sp.(*ast.ValueSpec)
			for _, n := range vs.Names {
				g.declare(sc, n.Name, vs.Type)
			}
		}
		return t, nil

	case *ast.IncDecStmt, *ast.EmptyStmt:
		return g.other(sc, s, ind)

	case *ast.ExprStmt:
		if c, ok := x.X.(*ast.CallExpr); ok {
			return g.callStmt(sc, c, "", s, ind)
		}
		return g.other(sc, s, ind)

	case *ast.SendStmt:
		ch, err := g.concIdent(sc, x.Chan, "chan")
		if err != nil {
			return "", err
		}
		v, err := g.pureQ(sc, x.Value)
		if err != nil {
			return "", err
		}
		return ind + "SSend " + g.qs(ch) + " " + v, nil

	case *ast.GoStmt:
		c := x.Call
		if c.Ellipsis != token.NoPos {
			return "", g.errf(s, "variadic go call")
		}
		switch f := c.Fun.(type) {
		case *ast.FuncLit:
			if f.Type.Results != nil && len(f.Type.Results.List) > 0 {
				return "", g.errf(s, "goroutine function literal with results")
			}
			inner := sc.clone()
			ps, err := g.params(inner, f.Type.Params)
			if err != nil {
				return "", err
			}
			args, _, err := g.callArgs(sc, c.Args)
			if err != nil {
				return "", err
			}
			body, err := g.block(inner, f.Body.List, ind+"  ")
			if err != nil {
				return "", err
			}
			return ind + "SGoFunc " + pkList(ps) + " " + body + " " + pkList(args), nil
		case *ast.Ident:
			if !g.skel[f.Name] {
				return "", g.errf(s, "go %s: not a skeleton function", f.Name)
			}
			if _, ok := g.funcs[f.Name]; !ok {
				return "", g.errf(s, "go %s: function not found", f.Name)
			}
			args, _, err := g.callArgs(sc, c.Args)
			if err != nil {
				return "", err
			}
			return ind + "SGoCall " + g.qs(f.Name) + " " + pkList(args), nil
		}
		return "", g.errf(s, "unsupported go statement %q", g.src(s))

	case *ast.DeferStmt:
		if _, lit := x.Call.Fun.(*ast.FuncLit); lit {
			return "", g.errf(s, "defer of a function literal")
		}
		t, err := g.callStmt(sc, x.Call, "", x.Call, "")
		if err != nil {
			return "", err
		}
		return ind + "SDefer (" + t + ")", nil

	case *ast.ReturnStmt:
		var parts []string
		for _, r := range x.Results {
			if err := g.pure(sc, r); err != nil {
				return "", err
			}
			parts = append(parts, g.src(r))
		}
		t, err := pkStr(strings.Join(parts, ", "))
		if err != nil {
			return "", g.errf(s, "%v", err)
		}
		return ind + "SReturn " + t, nil

	case *ast.AssignStmt:
		return g.assign(sc, x, ind)

	case *ast.ForStmt:
		if x.Init == nil && x.Cond == nil && x.Post == nil {
			body, err := g.block(sc, x.Body.List, ind)
			if err != nil {
				return "", err
			}
			return ind + "SForever " + body, nil
		}
		inner := sc.clone()
		init, cond, post := "\"\"", "\"\"", "\"\""
		var err error
		if x.Init != nil {
			if init, err = g.pureQ(inner, x.Init); err != nil {
				return "", err
			}
			if a, ok := x.Init.(*ast.AssignStmt); ok && a.Tok == token.DEFINE {
				for _, l := range a.Lhs {
					if id, ok := l.(*ast.Ident); ok {
						g.declare(inner, id.Name, nil)
					}
				}
			}
		}
		if x.Cond != nil {
			if cond, err = g.pureQ(inner, x.Cond); err != nil {
				return "", err
			}
		}
		if x.Post != nil {
			if post, err = g.pureQ(inner, x.Post); err != nil {
				return "", err
			}
		}
		body, err := g.block(inner, x.Body.List, ind)
		if err != nil {
			return "", err
		}
		return ind + "SFor " + init + " " + cond + " " + post + " " + body, nil

	case *ast.RangeStmt:
		if x.Tok != token.DEFINE {
			return "", g.errf(s, "range without := (%q)", g.src(x.X))
		}
		over, ok := x.X.(*ast.Ident)
		if !ok {
			return "", g.errf(s, "range over %q: only a variable is supported", g.src(x.X))
		}
		t := sc.types[over.Name]
		kind := ""
		switch g.kindOf(t, 0) {
		case "map", "chanmap":
			kind = "RMap"
		case "slice":
			kind = "RSlice"
		case "chan":
			return "", g.errf(s, "range over the channel %s is not supported", over.Name)
		default:
			return "", g.errf(s, "range over %s: cannot tell whether it is a map or a slice", over.Name)
		}
		kt, vt := g.elemsOf(t, 0)
		inner := sc.clone()
		name := func(e ast.Expr, ty ast.Expr) (string, error) {
			if e == nil {
				return "", nil
			}
			id, ok := e.(*ast.Ident)
			if !ok {
				return "", g.errf(e, "range variable %q", g.src(e))
			}
			g.declare(inner, id.Name, ty)
			return id.Name, nil
		}
		k, err := name(x.Key, kt)
		if err != nil {
			return "", err
		}
		v, err := name(x.Value, vt)
		if err != nil {
			return "", err
		}
		body, err := g.block(inner, x.Body.List, ind)
		if err != nil {
			return "", err
		}
		return ind + "SRange " + kind + " " + g.qs(k) + " " + g.qs(v) + " " + g.qs(over.Name) + " " + body, nil

	case *ast.TypeSwitchStmt:
		if x.Init != nil {
			return "", g.errf(s, "type switch with an init statement")
		}
		head, err := g.pureQ(sc, x.Assign)
		if err != nil {
			return "", err
		}
		var cases []string
		for _, c := range x.Body.List {
			cc := c.(*ast.CaseClause)
			label := "default"
			if cc.List != nil {
				var ts []string
				for _, t := range cc.List {
					if err := g.pure(sc, t); err != nil {
						return "", err
					}
					ts = append(ts, g.src(t))
				}
				label = strings.Join(ts, ", ")
			}
			l, err := pkStr(label)
			if err != nil {
				return "", g.errf(cc, "%v", err)
			}
			body, err := g.block(sc, cc.Body, ind+"  ")
			if err != nil {
				return "", err
			}
			cases = append(cases, ind+"  ("+l+", "+body+")")
		}
		return ind + "SSwitchType " + head + " [\n" + strings.Join(cases, ";\n") + " ]", nil

	case *ast.IfStmt:
		return g.ifStmt(sc, x, ind)
	}
	return "", g.errf(s, "unsupported statement %q", g.src(s))
}

func (g *pk) ifStmt(sc *pkScope, x *ast.IfStmt, ind string) (string, error) {
	// if !ok { break }
	if u, ok := x.Cond.(*ast.UnaryExpr); ok && x.Init == nil && x.Else == nil && u.Op == token.NOT && len(x.Body.List) == 1 {
		if b, ok := x.Body.List[0].(*ast.BranchStmt); ok && b.Tok == token.BREAK && b.Label == nil {
			if id, ok := u.X.(*ast.Ident); ok && sc.conc[id.Name] == "" {
				return ind + "SIfNotBreak " + g.qs(id.Name), nil
			}
		}
	}
	// if ch == nil { panic(..) }
	if b, ok := x.Cond.(*ast.BinaryExpr); ok && x.Init == nil && x.Else == nil && b.Op == token.EQL && len(x.Body.List) == 1 {
		if id, ok := b.X.(*ast.Ident); ok && sc.conc[id.Name] == "chan" {
			if n, ok := b.Y.(*ast.Ident); ok && n.Name == "nil" {
				if es, ok := x.Body.List[0].(*ast.ExprStmt); ok {
					if c, ok := es.X.(*ast.CallExpr); ok {
						if f, ok := c.Fun.(*ast.Ident); ok && f.Name == "panic" && len(c.Args) == 1 {
							t, err := g.pureQ(sc, c.Args[0])
							if err != nil {
								return "", err
							}
							return ind + "SIfNilPanic " + g.qs(id.Name) + " " + t, nil
						}
					}
				}
			}
		}
	}
	inner := sc
	cond := ""
	if x.Init != nil {
		inner = sc.clone()
		if err := g.pure(inner, x.Init); err != nil {
			return "", err
		}
		if a, ok := x.Init.(*ast.AssignStmt); ok && a.Tok == token.DEFINE {
			for _, l := range a.Lhs {
				if id, ok := l.(*ast.Ident); ok {
					g.declare(inner, id.Name, nil)
				}
			}
		}
		cond = g.src(x.Init) + "; "
	}
	if err := g.pure(inner, x.Cond); err != nil {
		return "", err
	}
	cond += g.src(x.Cond)
	ct, err := pkStr(cond)
	if err != nil {
		return "", g.errf(x, "%v", err)
	}
	thn, err := g.block(inner, x.Body.List, ind)
	if err != nil {
		return "", err
	}
	els := "[]"
	switch e := x.Else.(type) {
	case nil:
	case *ast.BlockStmt:
		if len(e.List) == 0 {
			return "", g.errf(e, "empty else block") // would print like an absent one
		}
		if els, err = g.block(inner, e.List, ind); err != nil {
			return "", err
		}
	case *ast.IfStmt:
		t, err := g.ifStmt(inner, e, ind+"  ")
		if err != nil {
			return "", err
		}
		els = "[\n" + t + " ]"
	default:
		return "", g.errf(x, "unsupported else")
	}
	return ind + "SIf " + ct + " " + thn + " " + els, nil
}

func (g *pk) assign(sc *pkScope, x *ast.AssignStmt, ind string) (string, error) {
	lhsIdent := func(i int) (string, bool) {
		id, ok := x.Lhs[i].(*ast.Ident)
		if !ok {
			return "", false
		}
		return id.Name, true
	}
	// x, ok := <-ch
	if len(x.Rhs) == 1 {
		if u, ok := x.Rhs[0].(*ast.UnaryExpr); ok && u.Op == token.ARROW {
			if len(x.Lhs) != 2 || x.Tok != token.DEFINE {
				return "", g.errf(x, "receive %q: only `v, ok := <-ch` is supported", g.src(x))
			}
			v, ok1 := lhsIdent(0)
			okv, ok2 := lhsIdent(1)
			if !ok1 || !ok2 || v == "_" || okv == "_" {
				return "", g.errf(x, "receive %q: only `v, ok := <-ch` is supported", g.src(x))
			}
			ch, err := g.concIdent(sc, u.X, "chan")
			if err != nil {
				return "", err
			}
			vt, _ := g.chanElem(sc.types[ch])
			g.declare(sc, v, vt)
			g.declare(sc, okv, nil)
			return ind + "SRecvOk " + g.qs(v) + " " + g.qs(okv) + " " + g.qs(ch), nil
		}
	}
	if len(x.Lhs) == 1 && len(x.Rhs) == 1 {
		rhs := x.Rhs[0]
		// m[k] = v
		if ix, ok := x.Lhs[0].(*ast.IndexExpr); ok {
			if m, ok := ix.X.(*ast.Ident); ok && sc.conc[m.Name] == "chanmap" {
				if x.Tok != token.ASSIGN {
					return "", g.errf(x, "unsupported update of the channel map %s", m.Name)
				}
				k, okk := ix.Index.(*ast.Ident)
				if !okk || sc.conc[k.Name] != "" {
					return "", g.errf(x, "channel map %s: the key must be a plain variable", m.Name)
				}
				v, err := g.concIdent(sc, rhs, "chan")
				if err != nil {
					return "", err
				}
				return ind + "SMapSet " + g.qs(m.Name) + " " + g.qs(k.Name) + " " + g.qs(v), nil
			}
		}
		name, isIdent := lhsIdent(0)
		if isIdent && name != "_" {
			// x := m[k]
			if ix, ok := rhs.(*ast.IndexExpr); ok {
				if m, ok := ix.X.(*ast.Ident); ok && sc.conc[m.Name] == "chanmap" {
					if x.Tok != token.DEFINE {
						return "", g.errf(x, "channel map %s: only `x := m[k]` is supported", m.Name)
					}
					k, okk := ix.Index.(*ast.Ident)
					if !okk || sc.conc[k.Name] != "" {
						return "", g.errf(x, "channel map %s: the key must be a plain variable", m.Name)
					}
					_, vt := g.elemsOf(sc.types[m.Name], 0)
					g.declare(sc, name, vt)
					return ind + "SMapGet " + g.qs(name) + " " + g.qs(m.Name) + " " + g.qs(k.Name), nil
				}
			}
			// x := sync.WaitGroup{}
			if cl, ok := rhs.(*ast.CompositeLit); ok && g.kindOf(cl.Type, 0) == "wg" {
				if x.Tok != token.DEFINE || len(cl.Elts) != 0 {
					return "", g.errf(x, "unsupported wait group creation %q", g.src(x))
				}
				g.declare(sc, name, cl.Type)
				return ind + "SWgNew " + g.qs(name), nil
			}
			if c, ok := rhs.(*ast.CallExpr); ok {
				if f, ok := c.Fun.(*ast.Ident); ok {
					// x := make(chan T [, n]) / make(map[K]chan T)
					if f.Name == "make" && len(c.Args) >= 1 {
						switch g.kindOf(c.Args[0], 0) {
						case "chan":
							ct := c.Args[0]
							for {
								p, ok := ct.(*ast.ParenExpr)
								if !ok {
									break
								}
								ct = p.X
							}
							cty, isChan := ct.(*ast.ChanType)
							if x.Tok != token.DEFINE || len(c.Args) > 2 || !isChan || cty.Dir != ast.SEND|ast.RECV {
								return "", g.errf(x, "unsupported channel creation %q", g.src(x))
							}
							elem, err := g.q(cty.Value)
							if err != nil {
								return "", err
							}
							buf := "\"\""
							if len(c.Args) == 2 {
								if buf, err = g.pureQ(sc, c.Args[1]); err != nil {
									return "", err
								}
							}
							g.declare(sc, name, c.Args[0])
							return ind + "SMakeChan " + g.qs(name) + " " + elem + " " + buf, nil
						case "chanmap":
							if x.Tok != token.DEFINE || len(c.Args) != 1 {
								return "", g.errf(x, "unsupported channel map creation %q", g.src(x))
							}
							ty, err := g.q(c.Args[0])
							if err != nil {
								return "", err
							}
							g.declare(sc, name, c.Args[0])
							return ind + "SMakeChanMap " + g.qs(name) + " " + ty, nil
						case "wg":
							return "", g.errf(x, "unsupported %q", g.src(x))
						}
						t, err := g.other(sc, x, ind)
						if err != nil {
							return "", err
						}
						if x.Tok == token.DEFINE {
							g.declare(sc, name, c.Args[0])
						}
						return t, nil
					}
					// [x :=|=] f(args), f a skeleton function
					if g.skel[f.Name] {
						op := " :="
						if x.Tok == token.ASSIGN {
							op = " ="
						} else if x.Tok != token.DEFINE {
							return "", g.errf(x, "unsupported assignment operator in %q", g.src(x))
						}
						t, err := g.callStmt(sc, c, name+op, x, ind)
						if err != nil {
							return "", err
						}
						if x.Tok == token.DEFINE {
							var rt ast.Expr
							if fd := g.funcs[f.Name]; fd != nil {
								rt = g.resultOf(fd.Type, 0)
							}
							g.declare(sc, name, rt)
						}
						return t, nil
					}
					// x := f(args): remember the result type (for a later range)
					if x.Tok == token.DEFINE {
						t, err := g.other(sc, x, ind)
						if err != nil {
							return "", err
						}
						var rt ast.Expr
						if vt, ok := sc.types[f.Name]; ok {
							rt = g.resultOf(vt, 0)
						} else if fd, ok := g.funcs[f.Name]; ok {
							rt = g.resultOf(fd.Type, 0)
						}
						g.declare(sc, name, rt)
						return t, nil
					}
				}
			}
		}
	}
	// anything else: no channel, wait group, skeleton call may be involved
	t, err := g.other(sc, x, ind)
	if err != nil {
		return "", err
	}
	if x.Tok == token.DEFINE {
		for i := range x.Lhs {
			if n, ok := lhsIdent(i); ok {
				g.declare(sc, n, nil)
			}
		}
	}
	return t, nil
}

func (g *pk) chanElem(t ast.Expr) (ast.Expr, bool) {
	for d := 0; t != nil && d < 8; d++ {
		switch x := t.(type) {
		case *ast.ParenExpr:
			t = x.X
		case *ast.ChanType:
			return x.Value, true
		case *ast.Ident:
			t = g.types[x.Name]
		default:
			return nil, false
		}
	}
	return nil, false
}

func (g *pk) function(name string) (string, error) {
	fd, ok := g.funcs[name]
	if !ok {
		return "", fmt.Errorf("processing.go: function %s not found", name)
	}
	g.fnName = name
	if fd.Type.TypeParams != nil {
		return "", g.errf(fd, "type parameters")
	}
	if fd.Body == nil {
		return "", g.errf(fd, "no body")
	}
	sc := &pkScope{conc: map[string]string{}, types: map[string]ast.Expr{}}
	ps, err := g.params(sc, fd.Type.Params)
	if err != nil {
		return "", err
	}
	var rs []string
	if fd.Type.Results != nil {
		for _, r := range fd.Type.Results.List {
			if len(r.Names) > 0 {
				return "", g.errf(r, "named results")
			}
			if g.kindOf(r.Type, 0) == "chan" || g.kindOf(r.Type, 0) == "chanmap" || g.kindOf(r.Type, 0) == "wg" {
				return "", g.errf(r, "a channel / wait group is returned")
			}
			rs = append(rs, g.src(r.Type))
		}
	}
	res, err := pkStr(strings.Join(rs, ", "))
	if err != nil {
		return "", g.errf(fd, "%v", err)
	}
	body, err := g.block(sc, fd.Body.List, "    ")
	if err != nil {
		return "", err
	}
	return "  MkFunc " + g.qs(name) + "\n    " + pkList(ps) + "\n    " + res + "\n    " + body, nil
}

// concurrent: does the node contain any concurrency construct at all?
func pkConcurrent(n ast.Node) bool {
	found := false
	ast.Inspect(n, func(x ast.Node) bool {
		switch y := x.(type) {
		case *ast.ChanType, *ast.SendStmt, *ast.GoStmt, *ast.DeferStmt, *ast.SelectStmt:
			found = true
		case *ast.UnaryExpr:
			if y.Op == token.ARROW {
				found = true
			}
		case *ast.SelectorExpr:
			if id, ok := y.X.(*ast.Ident); ok && (id.Name == "sync" || id.Name == "atomic") {
				found = true
			}
		case *ast.Ident:
			if y.Name == "close" || y.Name == "recover" {
				found = true
			}
		}
		return !found
	})
	return found
}

func genPipe(repo string) (string, error) {
	dir := filepath.Join(repo, "processing")
	g := &pk{fset: token.NewFileSet(), funcs: map[string]*ast.FuncDecl{}, types: map[string]ast.Expr{},
		skel: map[string]bool{}, meths: map[string]string{}}
	for _, n := range pipeFuncs {
		g.skel[n] = true
	}
	entries, err := os.ReadDir(dir)
	if err != nil {
		return "", err
	}
	var outside []string
	var files []string
	for _, e := range entries {
		n := e.Name()
		if e.IsDir() || !strings.HasSuffix(n, ".go") || strings.HasSuffix(n, "_test.go") {
			continue
		}
		files = append(files, n)
	}
	sort.Strings(files)
	seenMain := false
	for _, n := range files {
		f, err := parser.ParseFile(g.fset, filepath.Join(dir, n), nil, 0)
		if err != nil {
			return "", err
		}
		if f.Name.Name != "processing" {
			return "", fmt.Errorf("%s: package %s, expected processing", n, f.Name.Name)
		}
		for _, d := range f.Decls {
			switch x := d.(type) {
			case *ast.GenDecl:
				if x.Tok == token.TYPE {
					for _, sp := range x.Specs {
						ts := sp.(*ast.TypeSpec)
						if ts.Assign != token.NoPos || ts.TypeParams != nil {
							return "", fmt.Errorf("%s: unsupported type declaration %s", n, ts.Name.Name)
						}
						g.types[ts.Name.Name] = ts.Type
					}
				}
				if x.Tok == token.VAR && pkConcurrent(x) {
					outside = append(outside, n+": package-level var")
				}
			case *ast.FuncDecl:
				isSkel := x.Recv == nil && g.skel[x.Name.Name] && n == "processing.go"
				if isSkel {
					if _, dup := g.funcs[x.Name.Name]; dup {
						return "", fmt.Errorf("%s: %s declared twice", n, x.Name.Name)
					}
					g.funcs[x.Name.Name] = x
					continue
				}
				if x.Recv == nil {
					if g.skel[x.Name.Name] {
						return "", fmt.Errorf("%s: skeleton function %s is expected in processing.go", n, x.Name.Name)
					}
					if _, dup := g.funcs[x.Name.Name]; !dup {
						g.funcs[x.Name.Name] = x
					}
				}
				if pkConcurrent(x) {
					name := x.Name.Name
					if x.Recv != nil && len(x.Recv.List) == 1 {
						name = "(" + g.src(x.Recv.List[0].Type) + ")." + name
					}
					outside = append(outside, n+": "+name)
				}
			}
		}
		if n == "processing.go" {
			seenMain = true
		}
	}
	if !seenMain {
		return "", fmt.Errorf("processing/processing.go not found")
	}
	var fns []string
	for _, n := range pipeFuncs {
		t, err := g.function(n)
		if err != nil {
			return "", err
		}
		fns = append(fns, t)
	}
	var ms []string
	for _, k := range g.uses {
		sig, err := pkStr(g.meths[k])
		if err != nil {
			return "", err
		}
		ms = append(ms, "("+g.qs(k)+", "+sig+")")
	}
	var outs []string
	for _, o := range outside {
		t, err := pkStr(o)
		if err != nil {
			return "", err
		}
		outs = append(outs, t)
	}
	var foreign []string
	for k := range pipeForeignSlices {
		foreign = append(foreign, k)
	}
	sort.Strings(foreign)
	var b strings.Builder
	b.WriteString("(* GENERATED by /verif/translator (pipe.go) from processing/processing.go and processing/interface.go on every run -- do not edit.\n")
	b.WriteString("   Concurrency skeleton: every statement of " + strings.Join(pipeFuncs, ", ") + "\n")
	b.WriteString("   as a term of the statement language of theories/Pipe/Skeleton.v.  Statements that do not matter for the concurrency are\n")
	b.WriteString("   SOther with their printed text (checked: no channel operation, go, defer, select, sync.*, panic, function literal,\n")
	b.WriteString("   call of a skeleton function, no mention of a channel / wait group / channel map variable).\n")
	b.WriteString("   Trusted table: a `range` over a value of type " + strings.Join(foreign, " / ") + " (github.com/go-spatial/geom) ranges over a slice. *)\n")
	b.WriteString("From Coq Require Import List String.\nFrom Texel Require Import Pipe.Skeleton.\nImport ListNotations.\nOpen Scope string_scope.\n\n")
	b.WriteString("Definition gen_pipe_funcs : list func := [\n" + strings.Join(fns, ";\n\n") + "\n].\n\n")
	b.WriteString("(* interface methods that are handed a channel, with their declared signature (processing/interface.go) *)\n")
	b.WriteString("Definition gen_pipe_methods : list (string * string) := " + pkList(ms) + ".\n\n")
	b.WriteString("(* other functions, methods and package-level variables of package processing that contain a channel type or operation,\n   go, defer, select, close, recover or sync.* *)\n")
	b.WriteString("Definition gen_pipe_outside : list string := " + pkList(outs) + ".\n\n")
	b.WriteString("Definition gen_pipe_skeleton : skeleton := MkSkeleton gen_pipe_funcs gen_pipe_methods gen_pipe_outside.\n")
	return b.String(), nil
}
