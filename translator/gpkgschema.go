package main

import (
	"fmt"
	"go/ast"
	"go/parser"
	"go/token"
	"go/types"
	"path/filepath"
	"strconv"
	"strings"
)

// ---------------------------------------------------------------------------
// G2 (GeoPackage schema side): TargetGeopackage.CreateTables, buildTable, SourceGeopackage.GetTableInfo,
// getTableColumns, getSpatialReferenceSystem, geometryTypeFromString and SourceGeopackage.ReadFeatures of
// processing/gpkg/gpkg.go -> gen/GpkgSchemaGen.v
//
// Built on the engine of gpkgwriter.go (type gw); everything here is reached through the hooks `g.sch`.  On top of
// what the writer engine translates:
//   struct locals (var t Table; t.f = e; &t.f as a Scan destination)      let v_t := set_t_f v_t e   (setters of SchemaOps.v)
//   x.Scan(&a, &b.f, ..)                 let '((t1, t2, ..), err) := op_Scan.. row (current values) in  a := t1; b.f := t2; ..
//                                        (destination k receives result column k; without a row nothing is stored)
//   for rows.Next() { .. }               for { if !rows.Next() { break }; .. }: a Fixpoint on fuel S (rows to come)
//   switch tag { case a: .. default: .. }   if String.eqb tag a then .. else .. (cases in source order, default last)
//   switch v := x.(type) { .. }          match x with DBytes v => .. | DInt v => .. | DBool v => .. | .. | _ => default end
//                                        (one branch per case the SOURCE lists: []uint8, int64, float64, time.Time, string, bool, nil)
//   append(c, v) into a []interface{}    AVal (VInt v) .. ; a []byte value kept: AVal (VBlob (bytes_blob v)); string(b): AVal (VText (bytes_text b));
//                                        a bool: AVal (value_of_bool v) (the integer the driver binds it as)
//   for i, x := range s / return inside a range loop    wrange_loop over zindexed s / rrange_loop with RRet
//   if init; cond { }                    init; if cond { }   (init an assignment with =)
//   *p, x.([]byte), s[i]                 wdo t <- wderef p / assert_bytes x / widx s i   (the Go panics are error values)
//   ch <- v, close(ch)                   wdo ch <- chan_send ch v / chan_close ch  (the channel = what was sent + closed)
//   gpkg.TableDescription{K: v, ..}      MkTableDescription .. (members in the library's order, missing ones zero)
//   defer rows.Close()                   only directly before the final return / as the last statement: op_RowsClose there
//   calls of the functions generated here    wdo t <- gen_f wld args  /  wdo (wld, t) <- gen_f wld args (target side)
// Idioms accepted only in exactly this shape (checked in the AST):
//   vals := make([]interface{}, len(cols)); valPtrs := make([]interface{}, len(cols));
//   for i := 0; i < len(cols); i++ { valPtrs[i] = &vals[i] }  ..  rows.Scan(valPtrs...)
//        = vals := make_nils (len cols); (vals, err) := op_ScanAll row vals     (valPtrs used nowhere else, vals not reassigned)
//   x := make([]byte, len(v)); copy(x, v)          = x := bytes_copy v
//   ff := &f (f a struct local of the same block, not mentioned afterwards)     = ff := f
// SQL texts are compared (white space normalised) with the texts the operations of SchemaOps.v stand for.
// ---------------------------------------------------------------------------

const gsGpkgPath = "github.com/go-spatial/geom/encoding/gpkg"

const (
	gsCWorld    = "cworld"
	gsSrcDb     = "srcdb"
	gsSource    = "source"
	gsTables    = "tables"
	gsGType     = "gtype"
	gsDef       = "deftext"
	gsStrPtr    = "strptr"
	gsIntPtr    = "intptr"
	gsBool01    = "bool01"
	gsPkN       = "pkn"
	gsCurGC     = "cur_gc"
	gsCurTI     = "cur_ti"
	gsCurSel    = "cur_sel"
	gsRowSrs    = "row_srs"
	gsDrv       = "drv"
	gsDrvs      = "drvs"
	gsBytes     = "bytes"
	gsText      = "text"
	gsInt64     = "int64"
	gsFloat     = "float64"
	gsTime      = "time"
	gsNilIface  = "niliface"
	gsGoBool    = "gobool"
	gsGFeat     = "gfeat"
	gsOChan     = "ochan"
	gsCSql      = "csql"
	gsQSql      = "qsql"
	gsTabDesc   = "tabledesc"
	gsMaybeBool = "maybebool"
	gsSBin      = "sbin"
)

const (
	gsSQLGeometryColumns = "SELECT table_name, column_name, geometry_type_name, srs_id FROM gpkg_geometry_columns;"
	gsSQLTableInfo       = "PRAGMA table_info('%v');"
	gsSQLSrs             = "SELECT srs_name, srs_id, organization, organization_coordsys_id, definition, description FROM gpkg_spatial_ref_sys WHERE srs_id = %v;"
	gsSQLUpdateSrs       = "UPDATE gpkg_spatial_ref_sys SET srs_name = ?, organization = ?, organization_coordsys_id = ?, definition = ?, description = ? WHERE srs_id = ?;"
)

var gsModelled = []string{
	"target.handle.UpdateSRS(<srs>)                       op_UpdateSRS wld ..          (INSERT .. ON CONFLICT(srs_id) DO NOTHING)",
	"target.handle.Exec(`" + gsSQLUpdateSrs + "`, a1..a6)",
	"                                                     op_ExecUpdateSrs wld a1 .. a6 (text checked; every row with that id)",
	"h.Exec(t.createSQL())                                op_ExecCreate wld (op_createSQL t)   (CREATE TABLE IF NOT EXISTS)",
	"h.AddGeometryTable(gpkg.TableDescription{..})        op_AddGeometryTable wld (MkTableDescription ..)",
	"source.handle.Query(`" + gsSQLGeometryColumns + "`)",
	"                                                     op_QueryGeometryColumns wld",
	"h.Query(fmt.Sprintf(`" + gsSQLTableInfo + "`, name))      op_QueryTableInfo wld name",
	"h.QueryRow(fmt.Sprintf(`" + gsSQLSrs + "`, id))",
	"                                                     op_QueryRowSrs wld id",
	"source.handle.Query(<Table>.selectSQL())             op_QuerySelect wld (op_selectSQL <table>)",
	"rows.Next() / rows.Columns() / rows.Err() / defer rows.Close()     op_Next / op_RowsColumns / op_RowsErr / op_RowsClose",
	"rows.Scan(&d1, .., &dn) / row.Scan(..)               op_ScanGC / op_ScanTableInfoS (dfltValue *string; op_ScanTableInfo when it is a *int) / op_ScanSrs (by the query the rows come from)",
	"rows.Scan(valPtrs...)  (valPtrs[i] = &vals[i])       op_ScanAll",
	"gpkg.DecodeGeometry(x.([]byte)) / wkbgeom.Geometry    op_DecodeGeometry (assert_bytes x) / sb_Geometry",
	"strings.ToUpper                                      op_ToUpper (ASCII)",
	"gpkg.Geometry .. gpkg.GeometryCollection             gt_Geometry .. gt_GeometryCollection = 0 .. 7;  gpkg.Prohibited = mb_Prohibited = 0",
	"log.Fatalf(.., err) / log.Fatal(err)                 WErr (fatal err);   log.Fatalf(format, values)  WErr (Stop format);  log.Println  nothing",
	"Table / column / gpkg.SpatialReferenceSystem         the model's table / column / srs (column.notnull, column.pk: bool, N;",
	"                                                     column.cid, column.dfltValue: written by Scan, read by nothing, not represented)",
	"featureGPKG / chan<- processing.Feature              gfeat / ochan;  []interface{} of column values: list anyv;  the driver's values: drv",
	"a []byte / string(b) / a bool appended to the column values      AVal (VBlob (bytes_blob b)) / AVal (VText (bytes_text b)) / AVal (value_of_bool v) (bound by the driver as integer 1 / 0)",
	"the caller's log.Fatalf on the error of CreateTables (main.go)      outcome",
}

var gsZero = map[string]string{gwTable: "table_zero", gwColumn: "column_zero", gwSrs: "srs_zero", gsGFeat: "gfeat_zero",
	gsStrPtr: "None", gsIntPtr: "None", gsTables: "[]", gwColumns: "[]"}

type gsSetter struct{ valTy, set, get string }

var gsSetters = map[string]map[string]gsSetter{
	gwTable: {"Name": {gwString, "set_t_name", "t_name"}, "columns": {gwColumns, "set_t_cols", "t_cols"}, "gcolumn": {gwString, "set_t_gcol", "t_gcol"},
		"gtype": {gsGType, "set_t_gtype", "t_gtype"}, "srs": {gwSrs, "set_t_srs", "t_srs"}},
	gwSrs: {"Name": {gwString, "set_s_name", "s_name"}, "ID": {gwInt, "set_s_id", "s_id"}, "Organization": {gwString, "set_s_org", "s_org"},
		"OrganizationCoordsysID": {gwInt, "set_s_orgid", "s_orgid"}, "Definition": {gsDef, "set_s_def", "s_def"}, "Description": {gwString, "set_s_desc", "s_desc"}},
	gwColumn: {"cid": {gwInt, "set_c_cid", "get_c_cid"}, "name": {gwString, "set_c_name", "c_name"}, "ctype": {gwString, "set_c_type", "c_type"},
		"notnull": {gsBool01, "set_c_notnull", "c_notnull"}, "dfltValue": {gsIntPtr, "set_c_dflt", "get_c_dflt"}, "pk": {gsPkN, "set_c_pk", "c_pk"}},
	gsGFeat: {"columns": {gwAnys, "set_gf_columns", "gf_columns"}, "geometry": {gwGeom, "set_gf_geometry", "gf_geometry"}},
}

// gpkg.<Const> -> (type, Coq)
var gsGpkgConsts = map[string][2]string{
	"Geometry": {gsGType, "gt_Geometry"}, "Point": {gsGType, "gt_Point"}, "Linestring": {gsGType, "gt_Linestring"}, "Polygon": {gsGType, "gt_Polygon"},
	"MultiPoint": {gsGType, "gt_MultiPoint"}, "MultiLinestring": {gsGType, "gt_MultiLinestring"}, "MultiPolygon": {gsGType, "gt_MultiPolygon"},
	"GeometryCollection": {gsGType, "gt_GeometryCollection"},
	"Prohibited":         {gsMaybeBool, "mb_Prohibited"}, "Mandatory": {gsMaybeBool, "mb_Mandatory"}, "Optional": {gsMaybeBool, "mb_Optional"},
}

// gpkg.TableDescription: members in the library's order
var gsTabDescFields = [][3]string{{"Name", gwString, "EmptyString"}, {"ShortName", gwString, "EmptyString"}, {"Description", gwString, "EmptyString"},
	{"GeometryField", gwString, "EmptyString"}, {"GeometryType", gsGType, "0%N"}, {"SRS", gwInt32, "0"}, {"Z", gsMaybeBool, "0"}, {"M", gsMaybeBool, "0"}}

// the result columns of the queries, as the types Scan destinations must have
var gsScanShapes = map[string]struct {
	op    string
	kinds []string
	row   func(string) string
}{
	gsCurGC:  {"op_ScanGC", []string{gwString, gwString, gwString, gwInt}, func(c string) string { return "(cu_cur " + c + ")" }},
	gsCurTI:  {"op_ScanTableInfo", []string{gwInt, gwString, gwString, gsBool01, gsIntPtr, gsPkN}, func(c string) string { return "(cu_cur " + c + ")" }},
	gsRowSrs: {"op_ScanSrs", []string{gwString, gwInt, gwString, gwInt, gsDef, gsStrPtr}, func(c string) string { return c }},
}

// gsSetDfltKind: the declared type of column.dfltValue selects the setter's value type and the scan operation
func gsSetDfltKind(kind, op string) {
	set, get := "set_c_dflt", "get_c_dflt"
	if kind == gsStrPtr {
		set, get = "set_c_dflt_s", "get_c_dflt_s"
	}
	gsSetters[gwColumn]["dfltValue"] = gsSetter{kind, set, get}
	sh := gsScanShapes[gsCurTI]
	sh.op = op
	sh.kinds = []string{gwInt, gwString, gwString, gsBool01, kind, gsPkN}
	gsScanShapes[gsCurTI] = sh
}

func init() {
	for k, v := range map[string]string{gsCWorld: "cworld", gsSrcDb: "srcdb", gsSource: "source", gsTables: "(list table)", gsGType: "N", gsDef: "N",
		gsStrPtr: "(option string)", gsIntPtr: "(option Z)", gsBool01: "bool", gsPkN: "N", gsCurGC: "(cursor gcrow)", gsCurTI: "(cursor tirow)",
		gsCurSel: "(cursor (list drv))", gsRowSrs: "(option ssrs)", gsDrv: "drv", gsDrvs: "(list drv)", gsBytes: "bytesv", gsText: "N", gsInt64: "Z",
		gsFloat: "Z", gsTime: "Z", gsNilIface: "drv", gsGoBool: "bool", gsGFeat: "gfeat", gsOChan: "ochan", gsCSql: "csql", gsQSql: "qsql", gsTabDesc: "tabledesc",
		gsMaybeBool: "Z", gsSBin: "geom"} {
		gwCoq[k] = v
	}
	gwFields[gwTable]["gtype"] = [2]string{gsGType, "t_gtype"}
	gwFields[gwSrs]["Name"] = [2]string{gwString, "s_name"}
	gwFields[gwSrs]["Organization"] = [2]string{gwString, "s_org"}
	gwFields[gwSrs]["OrganizationCoordsysID"] = [2]string{gwInt, "s_orgid"}
	gwFields[gwSrs]["Definition"] = [2]string{gsDef, "s_def"}
	gwFields[gwSrs]["Description"] = [2]string{gwString, "s_desc"}
	gwFields[gsSource] = map[string][2]string{"Table": {gwTable, "src_Table"}, "handle": {gwHandle, ""}}
	gwFields[gsSBin] = map[string][2]string{"Geometry": {gwGeom, "sb_Geometry"}}
	for _, f := range []string{"getTableColumns", "GetTableInfo", "ReadFeatures"} {
		gwFuel[f] = []string{"(S (cursor_len v_rows))"}
	}
}

type gsFn struct {
	name   string
	recv   string // "", "*TargetGeopackage", "SourceGeopackage"
	kind   string // "target": wld is the cworld, threaded; "source": wld is the srcdb, a parameter; "pure": no database
	fd     *ast.FuncDecl
	params []string // types of the parameters that are not the handle
	handle bool     // the first parameter is h *gpkg.Handle
	result string   // "" or the type of the one result
	ochan  *gwDecl  // the chan<- parameter, whose final state is the result
	done   bool
}

type gsch struct {
	g          *gw
	fns        map[string]*gsFn
	cur        *gsFn
	handleName string
	consts     map[string]string // local string variables that only ever hold one literal
	alias      map[string]string // valPtrs -> vals
	aliasCols  map[string]string // vals -> cols
}

func gsNorm(s string) string { return strings.Join(strings.Fields(s), " ") }

// ---------------------------------------------------------------------------
// per function: constants and the pointer idiom
// ---------------------------------------------------------------------------

func gsIsCall(x ast.Expr, fun string, nargs int) (*ast.CallExpr, bool) {
	c, ok := x.(*ast.CallExpr)
	if !ok || c.Ellipsis.IsValid() || len(c.Args) != nargs {
		return nil, false
	}
	id, ok := c.Fun.(*ast.Ident)
	return c, ok && id.Name == fun
}

func gsIdent(x ast.Expr) string {
	if id, ok := x.(*ast.Ident); ok {
		return id.Name
	}
	return ""
}

// A := make([]interface{}, len(C))
func gsMakeAnys(st ast.Stmt) (a, c string) {
	as, ok := st.(*ast.AssignStmt)
	if !ok || as.Tok != token.DEFINE || len(as.Lhs) != 1 || len(as.Rhs) != 1 || gsIdent(as.Lhs[0]) == "" {
		return "", ""
	}
	mk, ok := gsIsCall(as.Rhs[0], "make", 2)
	if !ok || types.ExprString(mk.Args[0]) != "[]interface{}" {
		return "", ""
	}
	ln, ok := gsIsCall(mk.Args[1], "len", 1)
	if !ok || gsIdent(ln.Args[0]) == "" {
		return "", ""
	}
	return gsIdent(as.Lhs[0]), gsIdent(ln.Args[0])
}

// the three statements  A := make(.., len(C)); B := make(.., len(C)); for i := 0; i < len(C); i++ { B[i] = &A[i] }
func gsPtrIdiom(list []ast.Stmt) (a, b, c string, ok bool) {
	if len(list) < 3 {
		return
	}
	a, c = gsMakeAnys(list[0])
	b, c2 := gsMakeAnys(list[1])
	if a == "" || b == "" || a == b || c != c2 {
		return
	}
	f, isFor := list[2].(*ast.ForStmt)
	if !isFor || f.Init == nil || f.Cond == nil || f.Post == nil || len(f.Body.List) != 1 {
		return
	}
	in, isAs := f.Init.(*ast.AssignStmt)
	if !isAs || in.Tok != token.DEFINE || len(in.Lhs) != 1 || len(in.Rhs) != 1 || gsIdent(in.Lhs[0]) == "" {
		return
	}
	i := gsIdent(in.Lhs[0])
	if lit, isLit := in.Rhs[0].(*ast.BasicLit); !isLit || lit.Value != "0" {
		return
	}
	if types.ExprString(f.Cond) != i+" < len("+c+")" {
		return
	}
	if inc, isInc := f.Post.(*ast.IncDecStmt); !isInc || inc.Tok != token.INC || gsIdent(inc.X) != i {
		return
	}
	as, isAs := f.Body.List[0].(*ast.AssignStmt)
	if !isAs || as.Tok != token.ASSIGN || len(as.Lhs) != 1 || len(as.Rhs) != 1 {
		return
	}
	if types.ExprString(as.Lhs[0]) != b+"["+i+"]" || types.ExprString(as.Rhs[0]) != "&"+a+"["+i+"]" {
		return
	}
	if i == a || i == b || i == c {
		return
	}
	return a, b, c, true
}

func (s *gsch) prepare(fd *ast.FuncDecl) error {
	g := s.g
	s.consts, s.alias, s.aliasCols = map[string]string{}, map[string]string{}, map[string]string{}
	assigns := map[string]int{}
	lits := map[string]string{}
	uses := map[string]int{}
	var bad error
	scanList := func(list []ast.Stmt) {
		for i := range list {
			if a, b, c, ok := gsPtrIdiom(list[i:]); ok {
				if _, dup := s.alias[b]; dup {
					bad = g.errAt(list[i], "%s is set up twice", b)
				}
				s.alias[b] = a
				s.aliasCols[a] = c
			}
		}
	}
	ast.Inspect(fd.Body, func(n ast.Node) bool {
		switch x := n.(type) {
		case *ast.Ident:
			uses[x.Name]++
		case *ast.BlockStmt:
			scanList(x.List)
		case *ast.CaseClause:
			scanList(x.Body)
		case *ast.AssignStmt:
			for i, l := range x.Lhs {
				if id := gsIdent(l); id != "" {
					assigns[id]++
					if x.Tok == token.DEFINE && len(x.Lhs) == 1 && len(x.Rhs) == 1 {
						if lit, ok := x.Rhs[i].(*ast.BasicLit); ok && lit.Kind == token.STRING {
							if v, err := strconv.Unquote(lit.Value); err == nil {
								lits[id] = v
							}
						}
					}
				}
			}
		case *ast.ValueSpec:
			for _, id := range x.Names {
				assigns[id.Name]++
			}
		case *ast.RangeStmt:
			for _, e := range []ast.Expr{x.Key, x.Value} {
				if id := gsIdent(e); id != "" {
					assigns[id]++
				}
			}
		case *ast.IncDecStmt:
			if id := gsIdent(x.X); id != "" {
				assigns[id]++
			}
		case *ast.UnaryExpr:
			if x.Op == token.AND {
				if id := gsIdent(x.X); id != "" {
					assigns[id] += 2 // its address escapes: not a constant
				}
			}
		case *ast.FuncLit:
			bad = g.errAt(x, "function literals are not supported")
			return false
		}
		return true
	})
	if bad != nil {
		return bad
	}
	for n, v := range lits {
		if assigns[n] == 1 {
			s.consts[n] = v
		}
	}
	for b, a := range s.alias {
		// B: defined, B[i] = .., Scan(B...);  A: defined once and never assigned again
		if uses[b] != 3 {
			return g.errAt(fd, "%s (the pointers to the elements of %s) may only be passed to one Scan(%s...)", b, a, b)
		}
		if assigns[a] != 1 {
			return g.errAt(fd, "%s is assigned again while %s points into it", a, b)
		}
	}
	return nil
}

// the text of a string literal or of a local that only ever holds one literal
func (s *gsch) resolveString(env *gwEnv, x ast.Expr) (string, bool) {
	switch x := x.(type) {
	case *ast.BasicLit:
		if x.Kind == token.STRING {
			v, err := strconv.Unquote(x.Value)
			return v, err == nil
		}
	case *ast.Ident:
		if v, ok := s.consts[x.Name]; ok {
			if d := env.lookup(x.Name); d != nil && d.ty == gwString {
				return v, true
			}
		}
	}
	return "", false
}

// fmt.Sprintf(F, A) with F a known text containing exactly one verb %v
func (s *gsch) sprintfShape(env *gwEnv, x ast.Expr, want string) (ast.Expr, bool) {
	c, ok := x.(*ast.CallExpr)
	if !ok || c.Ellipsis.IsValid() || len(c.Args) != 2 {
		return nil, false
	}
	sel, ok := c.Fun.(*ast.SelectorExpr)
	if !ok || !s.g.isPkg(sel.X, "fmt", "fmt") || env.lookup("fmt") != nil || sel.Sel.Name != "Sprintf" {
		return nil, false
	}
	f, ok := s.resolveString(env, c.Args[0])
	if !ok || gsNorm(f) != want || strings.Count(f, "%") != 1 {
		return nil, false
	}
	return c.Args[1], true
}

func (s *gsch) isHandle(env *gwEnv, x ast.Expr) bool {
	switch x := x.(type) {
	case *ast.Ident:
		return s.handleName != "" && x.Name == s.handleName && env.lookup(x.Name) == nil
	case *ast.SelectorExpr:
		if x.Sel.Name != "handle" {
			return false
		}
		id, ok := x.X.(*ast.Ident)
		if !ok {
			return false
		}
		d := env.lookup(id.Name)
		return d != nil && ((d.ty == gwTarget && s.cur.kind == "target") || (d.ty == gsSource && s.cur.kind == "source"))
	}
	return false
}

// ---------------------------------------------------------------------------
// types
// ---------------------------------------------------------------------------

func (s *gsch) goType(x ast.Expr) (string, bool) {
	g := s.g
	switch types.ExprString(x) {
	case "Table":
		return gwTable, true
	case "[]Table":
		return gsTables, true
	case "column":
		return gwColumn, true
	case "[]column":
		return gwColumns, true
	case "gpkg.SpatialReferenceSystem":
		return gwSrs, g.imports["gpkg"] == gsGpkgPath
	case "gpkg.GeometryType":
		return gsGType, g.imports["gpkg"] == gsGpkgPath
	case "*gpkg.Handle":
		return gwHandle, g.imports["gpkg"] == gsGpkgPath
	case "error":
		return gwErr, true
	case "[]interface{}":
		return gwAnys, true
	case "*string":
		return gsStrPtr, true
	case "featureGPKG":
		return gsGFeat, true
	case "chan<- processing.Feature":
		return gsOChan, g.imports["processing"] == "github.com/pdok/texel/processing"
	}
	return "", false
}

func (s *gsch) conv(v gwVal, ty string) (string, bool) {
	switch {
	case v.ty == gwNil && (ty == gsStrPtr || ty == gsIntPtr):
		return "None", true
	case v.ty == gwNil && (ty == gsTables || ty == gwColumns):
		return "[]", true
	case ty == gwAny && v.ty == gsText:
		return "(AVal (VText " + v.code + "))", true
	case ty == gwAny && v.ty == gsInt64:
		return "(AVal (VInt " + v.code + "))", true
	case ty == gwAny && v.ty == gsFloat:
		return "(AVal (VReal " + v.code + "))", true
	case ty == gwAny && v.ty == gsTime:
		return "(AVal (VTime " + v.code + "))", true
	case ty == gwAny && v.ty == gsNilIface:
		return "(AVal VNull)", true
	case ty == gwAny && v.ty == gsBytes:
		// a []byte kept as it is (fix 4dc32dc, F19): a blob value; string(b) is the text with the same content (gsText above)
		return "(AVal (VBlob (bytes_blob " + v.code + ")))", true
	case ty == gwAny && v.ty == gsGoBool:
		// a Go bool as an attribute value: nothing but stmt.Exec consumes it, and the driver binds it as integer 1 / 0
		return "(AVal (value_of_bool " + v.code + "))", true
	}
	return "", false
}

// ---------------------------------------------------------------------------
// expressions
// ---------------------------------------------------------------------------

func (s *gsch) expr(env *gwEnv, x ast.Expr, binds *[]string) (gwVal, bool, error) {
	g := s.g
	fail := func(format string, a ...interface{}) (gwVal, bool, error) {
		return gwVal{}, false, g.errAt(x, format, a...)
	}
	switch x := x.(type) {
	case *ast.SelectorExpr:
		if g.isPkg(x.X, "gpkg", gsGpkgPath) && env.lookup("gpkg") == nil {
			if c, ok := gsGpkgConsts[x.Sel.Name]; ok {
				return gwVal{code: c[1], ty: c[0]}, true, nil
			}
			return fail("unsupported gpkg.%s", x.Sel.Name)
		}
	case *ast.StarExpr:
		a, err := g.expr(env, x.X, binds)
		if err != nil {
			return gwVal{}, false, err
		}
		if a.ty != gsStrPtr {
			return fail("dereference of %s", a.ty)
		}
		t := g.fresh("t")
		*binds = append(*binds, fmt.Sprintf("wdo %s <- wderef %s;", t, a.code))
		return gwVal{code: t, ty: gwString}, true, nil
	case *ast.TypeAssertExpr:
		if x.Type == nil {
			return fail("type switch guard outside a switch")
		}
		a, err := g.expr(env, x.X, binds)
		if err != nil {
			return gwVal{}, false, err
		}
		tn := types.ExprString(x.Type)
		if a.ty != gsDrv || (tn != "[]byte" && tn != "[]uint8") {
			return fail("unsupported type assertion %s on %s", tn, a.ty)
		}
		t := g.fresh("t")
		*binds = append(*binds, fmt.Sprintf("wdo %s <- assert_bytes %s;", t, a.code))
		return gwVal{code: t, ty: gsBytes}, true, nil
	case *ast.IndexExpr:
		a, err := g.expr(env, x.X, binds)
		if err != nil {
			return gwVal{}, false, err
		}
		el := map[string]string{gwAnys: gwAny, gwFeatures: gwFeature, gsDrvs: gsDrv, gwStrings: gwString}[a.ty]
		if el == "" {
			return fail("index on %s", a.ty)
		}
		i, err := g.expr(env, x.Index, binds)
		if err != nil {
			return gwVal{}, false, err
		}
		if i.ty != gwInt {
			return fail("index of type %s", i.ty)
		}
		t := g.fresh("t")
		*binds = append(*binds, fmt.Sprintf("wdo %s <- widx %s %s;", t, a.code, i.code))
		return gwVal{code: t, ty: el}, true, nil
	case *ast.BinaryExpr:
		if (x.Op == token.EQL || x.Op == token.NEQ) && gsIdent(x.Y) == "nil" && env.lookup("nil") == nil {
			if d := env.lookup(gsIdent(x.X)); d != nil && (d.ty == gsStrPtr || d.ty == gsIntPtr) {
				if x.Op == token.EQL {
					return gwVal{code: "(is_nil " + d.coq + ")", ty: gwBool}, true, nil
				}
				return gwVal{code: "(negb (is_nil " + d.coq + "))", ty: gwBool}, true, nil
			}
		}
	case *ast.UnaryExpr:
		if x.Op == token.AND {
			// &f of a struct local; block() has checked that f is a local of this block and is not mentioned afterwards
			d := env.vars[gsIdent(x.X)]
			if d == nil || d.ty != gsGFeat {
				return fail("unsupported address-of %s", g.src(x))
			}
			return gwVal{code: d.coq, ty: gsGFeat}, true, nil
		}
	case *ast.CompositeLit:
		sel, ok := x.Type.(*ast.SelectorExpr)
		if !ok || !g.isPkg(sel.X, "gpkg", gsGpkgPath) || env.lookup("gpkg") != nil || sel.Sel.Name != "TableDescription" {
			return fail("unsupported composite literal %s", g.src(x.Type))
		}
		given := map[string]string{}
		for _, e := range x.Elts {
			kv, ok := e.(*ast.KeyValueExpr)
			if !ok || gsIdent(kv.Key) == "" {
				return fail("gpkg.TableDescription must be written with member names")
			}
			k := gsIdent(kv.Key)
			var f *[3]string
			for i := range gsTabDescFields {
				if gsTabDescFields[i][0] == k {
					f = &gsTabDescFields[i]
				}
			}
			if f == nil {
				return fail("unknown member %s of gpkg.TableDescription", k)
			}
			if _, dup := given[k]; dup {
				return fail("member %s given twice", k)
			}
			v, err := g.expr(env, kv.Value, binds)
			if err != nil {
				return gwVal{}, false, err
			}
			c, err := g.conv(kv.Value, v, f[1])
			if err != nil {
				return gwVal{}, false, err
			}
			given[k] = c
		}
		code := "(MkTableDescription"
		for _, f := range gsTabDescFields {
			if c, ok := given[f[0]]; ok {
				code += " " + c
			} else {
				code += " " + f[2]
			}
		}
		return gwVal{code: code + ")", ty: gsTabDesc}, true, nil
	}
	return gwVal{}, false, nil
}

// args of a call of a function generated here (without the handle)
func (s *gsch) genCall(env *gwEnv, x *ast.CallExpr, fn *gsFn, binds *[]string) (string, error) {
	g := s.g
	if !fn.done {
		return "", g.errAt(x, "%s is not generated before its use", fn.name)
	}
	if x.Ellipsis.IsValid() {
		return "", g.errAt(x, "unsupported call with ...")
	}
	args := x.Args
	code := "gen_" + fn.name
	switch fn.kind {
	case "target":
		if s.cur.kind != "target" {
			return "", g.errAt(x, "%s works on the target", fn.name)
		}
	case "source":
		if s.cur.kind != "source" {
			return "", g.errAt(x, "%s works on the source", fn.name)
		}
	}
	if fn.handle {
		if len(args) == 0 || !s.isHandle(env, args[0]) {
			return "", g.errAt(x, "the first argument of %s must be the database handle", fn.name)
		}
		args = args[1:]
	}
	if fn.kind != "pure" {
		code += " wld"
	}
	if len(args) != len(fn.params) {
		return "", g.errAt(x, "%d arguments for %s", len(x.Args), fn.name)
	}
	for i, ty := range fn.params {
		v, err := g.expr(env, args[i], binds)
		if err != nil {
			return "", err
		}
		c, err := g.conv(args[i], v, ty)
		if err != nil {
			return "", err
		}
		code += " " + c
	}
	return code, nil
}

func (s *gsch) call(env *gwEnv, x *ast.CallExpr, binds *[]string) (gwVal, bool, error) {
	g := s.g
	fail := func(format string, a ...interface{}) (gwVal, bool, error) {
		return gwVal{}, false, g.errAt(x, format, a...)
	}
	if id, ok := x.Fun.(*ast.Ident); ok && env.lookup(id.Name) == nil {
		switch id.Name {
		case "string":
			if len(x.Args) != 1 || x.Ellipsis.IsValid() {
				return fail("unsupported conversion")
			}
			a, err := g.expr(env, x.Args[0], binds)
			if err != nil {
				return gwVal{}, false, err
			}
			if a.ty != gsBytes {
				return fail("string(..) of %s", a.ty)
			}
			return gwVal{code: "(bytes_text " + a.code + ")", ty: gsText}, true, nil
		case "append":
			if len(x.Args) == 2 && !x.Ellipsis.IsValid() {
				if d := env.lookup(gsIdent(x.Args[0])); d != nil && (d.ty == gsTables || d.ty == gwColumns) {
					if !g.ownedExpr(x.Args[0]) {
						return fail("append to %s could write into memory shared with another holder of that slice", d.name)
					}
					b, err := g.expr(env, x.Args[1], binds)
					if err != nil {
						return gwVal{}, false, err
					}
					el := gwTable
					if d.ty == gwColumns {
						el = gwColumn
					}
					if b.ty != el {
						return fail("append of %s to %s", b.ty, d.ty)
					}
					return gwVal{code: "(" + d.coq + " ++ [" + b.code + "])", ty: d.ty}, true, nil
				}
			}
		default:
			if fn := s.fns[id.Name]; fn != nil && fn.recv == "" {
				code, err := s.genCall(env, x, fn, binds)
				if err != nil {
					return gwVal{}, false, err
				}
				if fn.result == "" {
					return fail("%s has no result", fn.name)
				}
				t := g.fresh("t")
				if fn.kind == "target" {
					*binds = append(*binds, fmt.Sprintf("wdo (wld, %s) <- %s;", t, code))
				} else {
					*binds = append(*binds, fmt.Sprintf("wdo %s <- %s;", t, code))
				}
				return gwVal{code: t, ty: fn.result}, true, nil
			}
		}
		return gwVal{}, false, nil
	}
	sel, ok := x.Fun.(*ast.SelectorExpr)
	if !ok {
		return gwVal{}, false, nil
	}
	if g.isPkg(sel.X, "strings", "strings") && env.lookup("strings") == nil && sel.Sel.Name == "ToUpper" && len(x.Args) == 1 && !x.Ellipsis.IsValid() {
		a, err := g.expr(env, x.Args[0], binds)
		if err != nil {
			return gwVal{}, false, err
		}
		if a.ty != gwString {
			return fail("strings.ToUpper of %s", a.ty)
		}
		return gwVal{code: "(op_ToUpper " + a.code + ")", ty: gwString}, true, nil
	}
	if d := env.lookup(gsIdent(sel.X)); d != nil && (d.ty == gsCurGC || d.ty == gsCurTI || d.ty == gsCurSel) && len(x.Args) == 0 {
		switch sel.Sel.Name {
		case "Next":
			t := g.fresh("t")
			*binds = append(*binds, fmt.Sprintf("let '(%s, %s) := op_Next %s in", d.coq, t, d.coq))
			return gwVal{code: t, ty: gwBool}, true, nil
		case "Err":
			return gwVal{code: "(op_RowsErr " + d.coq + ")", ty: gwErr}, true, nil
		}
	}
	if (sel.Sel.Name == "createSQL" || sel.Sel.Name == "selectSQL") && len(x.Args) == 0 {
		r, err := g.expr(env, sel.X, binds)
		if err != nil {
			return gwVal{}, false, err
		}
		if r.ty != gwTable {
			return fail("%s of %s", sel.Sel.Name, r.ty)
		}
		if sel.Sel.Name == "createSQL" {
			return gwVal{code: "(op_createSQL " + r.code + ")", ty: gsCSql}, true, nil
		}
		return gwVal{code: "(op_selectSQL " + r.code + ")", ty: gsQSql}, true, nil
	}
	return gwVal{}, false, nil
}

// the modelled calls with several results and / or an effect on the target
func (s *gsch) opCall(env *gwEnv, x *ast.CallExpr, binds *[]string) (*gwOp, error) {
	g := s.g
	sel, ok := x.Fun.(*ast.SelectorExpr)
	if !ok {
		return nil, nil
	}
	name := sel.Sel.Name
	args := func(from int, tys ...string) (string, error) {
		out := ""
		for i, ty := range tys {
			v, err := g.expr(env, x.Args[from+i], binds)
			if err != nil {
				return "", err
			}
			if v.ty != ty {
				return "", g.errAt(x.Args[from+i], "argument %d of %s has type %s, expected %s", from+i+1, g.src(x.Fun), v.ty, ty)
			}
			out += " " + v.code
		}
		return out, nil
	}
	if g.isPkg(sel.X, "gpkg", gsGpkgPath) && env.lookup("gpkg") == nil && name == "DecodeGeometry" && len(x.Args) == 1 && !x.Ellipsis.IsValid() {
		a, err := args(0, gsBytes)
		if err != nil {
			return nil, err
		}
		return &gwOp{code: "op_DecodeGeometry" + a, results: []string{gsSBin, gwErr}}, nil
	}
	if d := env.lookup(gsIdent(sel.X)); d != nil && (d.ty == gsCurGC || d.ty == gsCurTI || d.ty == gsCurSel) && name == "Columns" && len(x.Args) == 0 {
		return &gwOp{code: "op_RowsColumns " + d.coq, results: []string{gwStrings, gwErr}}, nil
	}
	if !s.isHandle(env, sel.X) {
		return nil, nil
	}
	if x.Ellipsis.IsValid() {
		return nil, g.errAt(x, "unsupported call with ... on the database handle")
	}
	target, source := s.cur.kind == "target", s.cur.kind == "source"
	switch {
	case target && name == "UpdateSRS" && len(x.Args) == 1:
		a, err := args(0, gwSrs)
		if err != nil {
			return nil, err
		}
		return (&gwOp{code: "op_UpdateSRS", world: true, results: []string{gwErr}}).with(strings.TrimSpace(a)), nil
	case target && name == "AddGeometryTable" && len(x.Args) == 1:
		a, err := args(0, gsTabDesc)
		if err != nil {
			return nil, err
		}
		return (&gwOp{code: "op_AddGeometryTable", world: true, results: []string{gwErr}}).with(strings.TrimSpace(a)), nil
	case target && name == "Exec" && len(x.Args) == 1:
		a, err := args(0, gsCSql)
		if err != nil {
			return nil, err
		}
		return (&gwOp{code: "op_ExecCreate", world: true, results: []string{gwResult, gwErr}}).with(strings.TrimSpace(a)), nil
	case target && name == "Exec" && len(x.Args) == 7:
		text, ok := s.resolveString(env, x.Args[0])
		if !ok || gsNorm(text) != gsSQLUpdateSrs {
			return nil, g.errAt(x.Args[0], "the SQL text is not the known UPDATE of gpkg_spatial_ref_sys")
		}
		a, err := args(1, gwString, gwString, gwInt, gsDef, gwString, gwInt)
		if err != nil {
			return nil, err
		}
		return (&gwOp{code: "op_ExecUpdateSrs", world: true, results: []string{gwResult, gwErr}}).with(strings.TrimSpace(a)), nil
	case source && name == "Query" && len(x.Args) == 1:
		if text, ok := s.resolveString(env, x.Args[0]); ok {
			if gsNorm(text) != gsSQLGeometryColumns {
				return nil, g.errAt(x.Args[0], "the SQL text is not the known SELECT on gpkg_geometry_columns")
			}
			return &gwOp{code: "op_QueryGeometryColumns wld", results: []string{gsCurGC, gwErr}}, nil
		}
		if _, isCall := x.Args[0].(*ast.CallExpr); isCall {
			if a, ok := s.sprintfShape(env, x.Args[0], gsSQLTableInfo); ok {
				v, err := g.expr(env, a, binds)
				if err != nil {
					return nil, err
				}
				if v.ty != gwString {
					return nil, g.errAt(a, "table name of type %s", v.ty)
				}
				return &gwOp{code: "op_QueryTableInfo wld " + v.code, results: []string{gsCurTI, gwErr}}, nil
			}
		}
		v, err := g.expr(env, x.Args[0], binds)
		if err != nil {
			return nil, err
		}
		if v.ty != gsQSql {
			return nil, g.errAt(x.Args[0], "unknown query")
		}
		return &gwOp{code: "op_QuerySelect wld " + v.code, results: []string{gsCurSel, gwErr}}, nil
	case source && name == "QueryRow" && len(x.Args) == 1:
		a, ok := s.sprintfShape(env, x.Args[0], gsSQLSrs)
		if !ok {
			return nil, g.errAt(x.Args[0], "the SQL text is not the known SELECT on gpkg_spatial_ref_sys")
		}
		v, err := g.expr(env, a, binds)
		if err != nil {
			return nil, err
		}
		if v.ty != gwInt {
			return nil, g.errAt(a, "srs id of type %s", v.ty)
		}
		return &gwOp{code: "op_QueryRowSrs wld " + v.code, results: []string{gsRowSrs}}, nil
	}
	return nil, g.errAt(x, "unsupported call on the database handle: %s", g.src(x))
}

// ---------------------------------------------------------------------------
// which variables does a statement assign (extensions of gwAssigned)
// ---------------------------------------------------------------------------

func gsRoot(x ast.Expr) string {
	for {
		switch y := x.(type) {
		case *ast.Ident:
			return y.Name
		case *ast.SelectorExpr:
			x = y.X
		case *ast.IndexExpr:
			x = y.X
		case *ast.ParenExpr:
			x = y.X
		case *ast.StarExpr:
			x = y.X
		default:
			return ""
		}
	}
}

func (s *gsch) assignedCall(a *gwAssigned, local []map[string]bool, c *ast.CallExpr) bool {
	if id, ok := c.Fun.(*ast.Ident); ok {
		switch id.Name {
		case "close", "copy":
			if len(c.Args) >= 1 {
				if n := gsRoot(c.Args[0]); n != "" {
					a.hit(local, n)
				}
			}
			return true
		}
		if fn := s.fns[id.Name]; fn != nil && fn.recv == "" {
			if fn.kind == "target" {
				a.set[a.g.world] = true
			}
			return true
		}
		return false
	}
	sel, ok := c.Fun.(*ast.SelectorExpr)
	if !ok {
		return false
	}
	switch sel.Sel.Name {
	case "Next", "Close":
		if n := gsIdent(sel.X); n != "" {
			a.hit(local, n)
		}
		return true
	case "Scan":
		for _, arg := range c.Args {
			if u, ok := arg.(*ast.UnaryExpr); ok && u.Op == token.AND {
				if n := gsRoot(u.X); n != "" {
					a.hit(local, n)
				}
			} else if n := gsIdent(arg); n != "" && s.alias[n] != "" {
				a.hit(local, s.alias[n])
			}
		}
		return true
	case "UpdateSRS", "AddGeometryTable":
		a.set[a.g.world] = true
		return true
	case "Query", "QueryRow", "Columns", "Err":
		return true
	}
	return false
}

func (s *gsch) assignedStmt(a *gwAssigned, local []map[string]bool, st ast.Stmt) bool {
	cur := local[len(local)-1]
	switch st := st.(type) {
	case *ast.AssignStmt:
		plain := true
		for _, l := range st.Lhs {
			if _, ok := l.(*ast.Ident); !ok {
				plain = false
			}
		}
		if plain {
			return false
		}
		for _, r := range st.Rhs {
			a.exprs(local, r)
		}
		for _, l := range st.Lhs {
			if id, ok := l.(*ast.Ident); ok {
				if st.Tok == token.DEFINE {
					if id.Name != "_" {
						cur[id.Name] = true
					}
				} else {
					a.hit(local, id.Name)
				}
			} else if n := gsRoot(l); n != "" {
				a.hit(local, n)
			} else {
				a.errs = append(a.errs, a.g.errAt(l, "assignment to %s is not supported", a.g.src(l)))
			}
		}
		return true
	case *ast.SendStmt:
		a.exprs(local, st.Value)
		if n := gsIdent(st.Chan); n != "" {
			a.hit(local, n)
		} else {
			a.errs = append(a.errs, a.g.errAt(st, "send on %s", a.g.src(st.Chan)))
		}
		return true
	case *ast.DeferStmt:
		a.exprs(local, st.Call)
		return true
	case *ast.IncDecStmt:
		if n := gsIdent(st.X); n != "" {
			a.hit(local, n)
		}
		return true
	case *ast.SwitchStmt:
		if st.Init != nil {
			a.errs = append(a.errs, a.g.errAt(st, "switch with an init statement is not supported"))
		}
		a.exprs(local, st.Tag)
		for _, cl := range st.Body.List {
			cc := cl.(*ast.CaseClause)
			for _, e := range cc.List {
				a.exprs(local, e)
			}
			a.stmts(local, cc.Body)
		}
		return true
	case *ast.TypeSwitchStmt:
		if st.Init != nil {
			a.errs = append(a.errs, a.g.errAt(st, "switch with an init statement is not supported"))
		}
		bound := ""
		switch g := st.Assign.(type) {
		case *ast.AssignStmt:
			bound = gsIdent(g.Lhs[0])
			a.exprs(local, g.Rhs[0])
		case *ast.ExprStmt:
			a.exprs(local, g.X)
		}
		for _, cl := range st.Body.List {
			inner := append(append([]map[string]bool{}, local...), map[string]bool{bound: true})
			a.stmts(inner, cl.(*ast.CaseClause).Body)
		}
		return true
	case *ast.ForStmt:
		if st.Init == nil && st.Cond == nil && st.Post == nil {
			return false
		}
		inner := append(append([]map[string]bool{}, local...), map[string]bool{})
		var list []ast.Stmt
		if st.Init != nil {
			list = append(list, st.Init)
		}
		a.exprs(inner, st.Cond)
		list = append(list, st.Body.List...)
		if st.Post != nil {
			list = append(list, st.Post)
		}
		// one scope for init, body and post is enough for an over-approximation of the assigned OUTER variables
		a.stmts(inner, list)
		return true
	case *ast.IfStmt:
		if st.Init == nil {
			return false
		}
		a.stmts(local, []ast.Stmt{st.Init, &ast.IfStmt{If: st.If, Cond: st.Cond, Body: st.Body, Else: st.Else}})
		return true
	}
	return false
}

func (s *gsch) switchTerminates(st ast.Stmt) bool {
	var body *ast.BlockStmt
	switch x := st.(type) {
	case *ast.SwitchStmt:
		body = x.Body
	case *ast.TypeSwitchStmt:
		body = x.Body
	}
	hasDefault := false
	for _, cl := range body.List {
		cc := cl.(*ast.CaseClause)
		if cc.List == nil {
			hasDefault = true
		}
		if !s.g.terminates(cc.Body) {
			return false
		}
	}
	return hasDefault
}

// ---------------------------------------------------------------------------
// statements
// ---------------------------------------------------------------------------

func gsMentions(list []ast.Stmt, name string) bool {
	found := false
	for _, st := range list {
		ast.Inspect(st, func(n ast.Node) bool {
			if id, ok := n.(*ast.Ident); ok && id.Name == name {
				found = true
			}
			return true
		})
	}
	return found
}

// multi-statement shapes
func (s *gsch) block(env *gwEnv, list []ast.Stmt, ctx gwCtx) (string, bool, error) {
	g := s.g
	// vals := make(..); valPtrs := make(..); for .. { valPtrs[i] = &vals[i] }
	if a, b, c, ok := gsPtrIdiom(list); ok && s.alias[b] == a {
		cd := env.lookup(c)
		if cd == nil || cd.ty != gwStrings {
			return "", false, g.errAt(list[0], "%s is not a list of column names", c)
		}
		if env.vars[a] != nil || env.vars[b] != nil {
			return "", false, g.errAt(list[0], "%s redeclared", a)
		}
		ad := g.declare(env, a, gsDrvs)
		r, err := g.block(env, list[3:], ctx)
		if err != nil {
			return "", false, err
		}
		return fmt.Sprintf("let %s : %s := (make_nils (zlen %s)) in\n  (* %s[i] = &%s[i] for every i < len(%s) *)\n  %s", ad.coq, gwCoq[gsDrvs], cd.coq, b, a, c, r), true, nil
	}
	// x := make([]byte, len(v)); copy(x, v)
	if len(list) >= 2 {
		if as, ok := list[0].(*ast.AssignStmt); ok && as.Tok == token.DEFINE && len(as.Lhs) == 1 && len(as.Rhs) == 1 && gsIdent(as.Lhs[0]) != "" {
			if mk, ok := gsIsCall(as.Rhs[0], "make", 2); ok && types.ExprString(mk.Args[0]) == "[]byte" {
				x := gsIdent(as.Lhs[0])
				ln, ok1 := gsIsCall(mk.Args[1], "len", 1)
				es, ok2 := list[1].(*ast.ExprStmt)
				if !ok1 || !ok2 || gsIdent(ln.Args[0]) == "" {
					return "", false, g.errAt(list[0], "make([]byte, ..) is only supported as x := make([]byte, len(v)); copy(x, v)")
				}
				v := gsIdent(ln.Args[0])
				cp, ok3 := gsIsCall(es.X, "copy", 2)
				if !ok3 || gsIdent(cp.Args[0]) != x || gsIdent(cp.Args[1]) != v || x == v {
					return "", false, g.errAt(list[0], "make([]byte, ..) is only supported as x := make([]byte, len(v)); copy(x, v)")
				}
				vd := env.lookup(v)
				if vd == nil || vd.ty != gsBytes || env.vars[x] != nil {
					return "", false, g.errAt(list[0], "%s is not a []byte value", v)
				}
				xd := g.declare(env, x, gsBytes)
				r, err := g.block(env, list[2:], ctx)
				if err != nil {
					return "", false, err
				}
				return fmt.Sprintf("let %s : %s := (bytes_copy %s) in\n  %s", xd.coq, gwCoq[gsBytes], vd.coq, r), true, nil
			}
		}
	}
	// ff := &f
	if as, ok := list[0].(*ast.AssignStmt); ok && len(as.Rhs) == 1 {
		if u, ok := as.Rhs[0].(*ast.UnaryExpr); ok && u.Op == token.AND {
			f := gsIdent(u.X)
			if f == "" || env.vars[f] == nil || as.Tok != token.DEFINE || len(as.Lhs) != 1 {
				return "", false, g.errAt(as, "&x is only supported as p := &x for a struct x declared in the same block")
			}
			if gsMentions(list[1:], f) {
				return "", false, g.errAt(as, "%s is used after its address was taken", f)
			}
		}
	}
	// defer rows.Close(): only where it is the same as calling it there
	if d, ok := list[0].(*ast.DeferStmt); ok {
		isRet := false
		if len(list) == 2 {
			_, isRet = list[1].(*ast.ReturnStmt)
		}
		if !ctx.top || !(len(list) == 1 || isRet) {
			return "", false, g.errAt(d, "defer is only supported directly before the final return")
		}
		sel, ok := d.Call.Fun.(*ast.SelectorExpr)
		if !ok || sel.Sel.Name != "Close" || len(d.Call.Args) != 0 {
			return "", false, g.errAt(d, "unsupported defer %s", g.src(d.Call))
		}
		rd := env.lookup(gsIdent(sel.X))
		if rd == nil || rd.name == "" || (rd.ty != gsCurGC && rd.ty != gsCurTI && rd.ty != gsCurSel) {
			return "", false, g.errAt(d, "unsupported defer %s", g.src(d.Call))
		}
		if gsMentions(list[1:], rd.name) {
			return "", false, g.errAt(d, "%s is used after its deferred Close", rd.name)
		}
		r, err := g.block(env, list[1:], ctx)
		if err != nil {
			return "", false, err
		}
		return fmt.Sprintf("let %s := op_RowsClose %s in\n  %s", rd.coq, rd.coq, r), true, nil
	}
	return "", false, nil
}

type gsBranch struct {
	cond string // if-chain: condition ("" = default);  match: pattern
	pre  string // lets at the start of the branch
	body []ast.Stmt
	env  *gwEnv
}

// n-way branch: `if c1 then b1 else if c2 then b2 .. else default` or `match scrut with | p1 => b1 .. end`
func (s *gsch) branches(env *gwEnv, at ast.Node, scrut string, brs []gsBranch, last bool, rest func() (string, error), ctx gwCtx) (string, error) {
	g := s.g
	falls := 0
	var all []ast.Stmt
	for _, b := range brs {
		if !g.terminates(b.body) {
			falls++
		}
		all = append(all, b.body...)
	}
	after := rest
	head := ""
	switch {
	case last:
		after = ctx.fall
	case falls >= 2:
		vars, err := g.assigned(env, all)
		if err != nil {
			return "", err
		}
		k := g.fresh("k")
		r, err := rest()
		if err != nil {
			return "", err
		}
		head = fmt.Sprintf("let %s := fun %s =>\n  %s in\n  ", k, gwBinder(vars), r)
		after = func() (string, error) { return "(" + k + " " + gwTuple(vars) + ")", nil }
	case falls == 0:
		return "", g.errAt(at, "unreachable statements after this switch")
	}
	noBreak := func() (string, error) { return "", g.errAt(at, "break inside a switch is not supported") }
	sub := gwCtx{top: ctx.top, fall: after, brk: noBreak, cont: ctx.cont, ret: ctx.ret}
	var codes []string
	for _, b := range brs {
		c, err := g.block(b.env, b.body, sub)
		if err != nil {
			return "", err
		}
		codes = append(codes, b.pre+c)
	}
	var out strings.Builder
	out.WriteString(head)
	if scrut != "" {
		out.WriteString("match " + scrut + " with\n  ")
		for i, b := range brs {
			out.WriteString("| " + b.cond + " => (\n  " + codes[i] + ")\n  ")
		}
		out.WriteString("end")
		return out.String(), nil
	}
	closing := ""
	for i, b := range brs {
		if b.cond == "" {
			out.WriteString("(\n  " + codes[i] + ")")
		} else {
			out.WriteString("if " + b.cond + " then (\n  " + codes[i] + ")\n  else ")
			if i < len(brs)-1 && brs[i+1].cond != "" {
				out.WriteString("(")
				closing += ")"
			}
		}
	}
	out.WriteString(closing)
	return out.String(), nil
}

func (s *gsch) switchStmt(env *gwEnv, st *ast.SwitchStmt, last bool, rest func() (string, error), ctx gwCtx) (string, error) {
	g := s.g
	if st.Init != nil || st.Tag == nil {
		return "", g.errAt(st, "only `switch tag { .. }` is supported")
	}
	var binds []string
	tag, err := g.expr(env, st.Tag, &binds)
	if err != nil {
		return "", err
	}
	if tag.ty != gwString {
		return "", g.errAt(st.Tag, "switch on %s", tag.ty)
	}
	t := g.fresh("t")
	binds = append(binds, fmt.Sprintf("let %s : string := %s in", t, tag.code))
	var brs []gsBranch
	var def *gsBranch
	for _, cl := range st.Body.List {
		cc := cl.(*ast.CaseClause)
		if cc.List == nil {
			def = &gsBranch{body: cc.Body, env: env.child()}
			continue
		}
		var conds []string
		for _, e := range cc.List {
			var cb []string
			v, err := g.expr(env, e, &cb)
			if err != nil {
				return "", err
			}
			if len(cb) > 0 || v.ty != gwString {
				return "", g.errAt(e, "a case must be a string expression that cannot panic")
			}
			conds = append(conds, "(String.eqb "+t+" "+v.code+")")
		}
		cond := conds[0]
		if len(conds) > 1 {
			cond = "(" + strings.Join(conds, " || ") + ")"
		}
		brs = append(brs, gsBranch{cond: cond, body: cc.Body, env: env.child()})
	}
	if def == nil {
		def = &gsBranch{env: env.child()}
	}
	brs = append(brs, *def)
	c, err := s.branches(env, st, "", brs, last, rest, ctx)
	if err != nil {
		return "", err
	}
	return gwJoin(binds, c), nil
}

func (s *gsch) typeSwitch(env *gwEnv, st *ast.TypeSwitchStmt, last bool, rest func() (string, error), ctx gwCtx) (string, error) {
	g := s.g
	as, ok := st.Assign.(*ast.AssignStmt)
	if st.Init != nil || !ok || as.Tok != token.DEFINE || len(as.Lhs) != 1 || len(as.Rhs) != 1 || gsIdent(as.Lhs[0]) == "" {
		return "", g.errAt(st, "only `switch v := x.(type) { .. }` is supported")
	}
	ta, ok := as.Rhs[0].(*ast.TypeAssertExpr)
	if !ok || ta.Type != nil {
		return "", g.errAt(st, "only `switch v := x.(type) { .. }` is supported")
	}
	var binds []string
	x, err := g.expr(env, ta.X, &binds)
	if err != nil {
		return "", err
	}
	if x.ty != gsDrv {
		return "", g.errAt(ta.X, "type switch on %s", x.ty)
	}
	t := g.fresh("t")
	binds = append(binds, fmt.Sprintf("let %s : drv := %s in", t, x.code))
	vname := gsIdent(as.Lhs[0])
	var brs []gsBranch
	var def *gsBranch
	seen := map[string]bool{}
	for _, cl := range st.Body.List {
		cc := cl.(*ast.CaseClause)
		benv := env.child()
		if cc.List == nil {
			d := g.declare(benv, vname, gsDrv)
			def = &gsBranch{cond: "_", pre: fmt.Sprintf("let %s : drv := %s in\n  ", d.coq, t), body: cc.Body, env: benv}
			continue
		}
		if len(cc.List) != 1 {
			return "", g.errAt(cc, "a case with several types is not supported")
		}
		tn := types.ExprString(cc.List[0])
		var con, ty string
		switch tn {
		case "[]uint8", "[]byte":
			con, ty = "DBytes", gsBytes
		case "int64":
			con, ty = "DInt", gsInt64
		case "float64":
			con, ty = "DFloat", gsFloat
		case "time.Time":
			if g.imports["time"] != "time" {
				return "", g.errAt(cc, "time is not package time")
			}
			con, ty = "DTime", gsTime
		case "string":
			con, ty = "DString", gsText
		case "bool":
			// fix 574d563 (F18): go-sqlite3 hands the integer cell of a column declared BOOLEAN over as a Go bool
			con, ty = "DBool", gsGoBool
		case "nil":
			con, ty = "DNil", gsNilIface
		default:
			return "", g.errAt(cc, "unsupported case type %s", tn)
		}
		if seen[con] {
			return "", g.errAt(cc, "duplicate case %s", tn)
		}
		seen[con] = true
		d := g.declare(benv, vname, ty)
		if con == "DNil" {
			brs = append(brs, gsBranch{cond: "DNil", pre: fmt.Sprintf("let %s : drv := DNil in\n  ", d.coq), body: cc.Body, env: benv})
		} else {
			brs = append(brs, gsBranch{cond: con + " " + d.coq, body: cc.Body, env: benv})
		}
	}
	if def == nil {
		def = &gsBranch{cond: "_", env: env.child()}
	}
	brs = append(brs, *def)
	c, err := s.branches(env, st, t, brs, last, rest, ctx)
	if err != nil {
		return "", err
	}
	return gwJoin(binds, c), nil
}

func gsHasReturn(list []ast.Stmt) bool {
	found := false
	for _, st := range list {
		ast.Inspect(st, func(n ast.Node) bool {
			if _, ok := n.(*ast.ReturnStmt); ok {
				found = true
			}
			return true
		})
	}
	return found
}

// for _, x := range l / for i, x := range l, with `return` in the body
func (s *gsch) rangeStmt(env *gwEnv, st *ast.RangeStmt, rest func() (string, error), ctx gwCtx) (string, error) {
	g := s.g
	key, val := gsIdent(st.Key), gsIdent(st.Value)
	if st.Tok != token.DEFINE || key == "" || val == "" || val == "_" {
		return "", g.errAt(st, "only `for _, x := range s` and `for i, x := range s` are supported")
	}
	var binds []string
	xs, err := g.expr(env, st.X, &binds)
	if err != nil {
		return "", err
	}
	el := map[string]string{gwFeatures: gwFeature, gwAnys: gwAny, gwColumns: gwColumn, gwStrings: gwString, gsTables: gwTable}[xs.ty]
	if el == "" {
		return "", g.errAt(st, "range over %s", xs.ty)
	}
	state, err := g.assigned(env, st.Body.List)
	if err != nil {
		return "", err
	}
	if id := gsIdent(st.X); id != "" {
		for _, d := range state {
			if d.name == id {
				return "", g.errAt(st, "the loop assigns the slice %s it ranges over", id)
			}
		}
	}
	inner := env.child()
	elem, list := "", xs.code
	if key != "_" {
		kd := g.declare(inner, key, gwInt)
		xd := g.declare(inner, val, el)
		elem = fmt.Sprintf("'((%s, %s) : (Z * %s)%%type)", kd.coq, xd.coq, gwCoq[el])
		list = "(zindexed " + xs.code + ")"
	} else {
		xd := g.declare(inner, val, el)
		elem = fmt.Sprintf("(%s : %s)", xd.coq, gwCoq[el])
	}
	hasRet := gsHasReturn(st.Body.List)
	if hasRet && !ctx.top {
		return "", g.errAt(st, "return inside nested loops is not supported")
	}
	cn, bn := "Cont", "Brk"
	if hasRet {
		cn, bn = "RCont", "RBrk"
	}
	next := func() (string, error) { return "WOk (" + cn + " " + gwTuple(state) + ")", nil }
	brk := func() (string, error) { return "WOk (" + bn + " " + gwTuple(state) + ")", nil }
	sub := gwCtx{fall: next, brk: brk, cont: next}
	if hasRet {
		sub.ret = func(v string) (string, error) { return "WOk (RRet " + v + ")", nil }
	}
	body, err := g.block(inner.child(), st.Body.List, sub)
	if err != nil {
		return "", err
	}
	r, err := rest()
	if err != nil {
		return "", err
	}
	if !hasRet {
		return gwJoin(binds, fmt.Sprintf("wdo %s <- wrange_loop (fun %s %s =>\n  %s) %s %s;\n  %s",
			gwPattern(state), elem, gwBinder(state), body, list, gwTuple(state), r)), nil
	}
	t := g.fresh("r")
	return gwJoin(binds, fmt.Sprintf("wdo %s <- rrange_loop (fun %s %s =>\n  %s) %s %s;\n  match %s with\n  | inr ret => WOk ret\n  | inl %s => (\n  %s)\n  end",
		t, elem, gwBinder(state), body, list, gwTuple(state), t, gwPattern(state), r)), nil
}

// x.Scan(&d1, .., &dn) and rows.Scan(valPtrs...)
func (s *gsch) scanStmt(env *gwEnv, as *ast.AssignStmt, c *ast.CallExpr, rd *gwDecl, rest func() (string, error)) (string, error) {
	g := s.g
	errs, err := g.bindLHS(env, as, []string{gwErr})
	if err != nil {
		return "", err
	}
	if rd.ty == gsCurSel {
		if len(c.Args) != 1 || !c.Ellipsis.IsValid() || s.alias[gsIdent(c.Args[0])] == "" {
			return "", g.errAt(c, "only rows.Scan(ptrs...) with ptrs[i] = &vals[i] is supported on these rows")
		}
		vd := env.lookup(s.alias[gsIdent(c.Args[0])])
		if vd == nil || vd.ty != gsDrvs {
			return "", g.errAt(c, "%s is not set up", gsIdent(c.Args[0]))
		}
		r, err := rest()
		if err != nil {
			return "", err
		}
		return fmt.Sprintf("let '(%s, %s) := op_ScanAll (cu_cur %s) %s in\n  %s", vd.coq, errs[0], rd.coq, vd.coq, r), nil
	}
	shape, ok := gsScanShapes[rd.ty]
	if !ok || c.Ellipsis.IsValid() {
		return "", g.errAt(c, "unsupported Scan on %s", rd.ty)
	}
	if len(c.Args) != len(shape.kinds) {
		return "", g.errAt(c, "Scan with %d destinations for %d result columns", len(c.Args), len(shape.kinds))
	}
	var temps, curs, lets []string
	seen := map[string]bool{}
	for i, arg := range c.Args {
		u, ok := arg.(*ast.UnaryExpr)
		if !ok || u.Op != token.AND {
			return "", g.errAt(arg, "a Scan destination must be &variable or &variable.field")
		}
		key := types.ExprString(u.X)
		if seen[key] {
			return "", g.errAt(arg, "destination %s given twice", key)
		}
		seen[key] = true
		t := g.fresh("t")
		temps = append(temps, t)
		switch d := u.X.(type) {
		case *ast.Ident:
			vd := env.lookup(d.Name)
			if vd == nil || vd.ty != shape.kinds[i] {
				return "", g.errAt(arg, "destination %d of Scan must hold a %s", i+1, shape.kinds[i])
			}
			curs = append(curs, vd.coq)
			lets = append(lets, fmt.Sprintf("let %s : %s := %s in", vd.coq, gwCoq[vd.ty], t))
		case *ast.SelectorExpr:
			vd := env.lookup(gsIdent(d.X))
			if vd == nil {
				return "", g.errAt(arg, "unsupported Scan destination %s", key)
			}
			set, ok := gsSetters[vd.ty][d.Sel.Name]
			if !ok {
				return "", g.errAt(arg, "unsupported field %s of %s", d.Sel.Name, vd.ty)
			}
			if set.valTy != shape.kinds[i] {
				return "", g.errAt(arg, "destination %d of Scan must hold a %s, %s holds a %s", i+1, shape.kinds[i], key, set.valTy)
			}
			curs = append(curs, "("+set.get+" "+vd.coq+")")
			lets = append(lets, fmt.Sprintf("let %s : %s := %s %s %s in", vd.coq, gwCoq[vd.ty], set.set, vd.coq, t))
		default:
			return "", g.errAt(arg, "unsupported Scan destination %s", key)
		}
	}
	r, err := rest()
	if err != nil {
		return "", err
	}
	head := fmt.Sprintf("let '((%s), %s) := %s %s (%s) in", strings.Join(temps, ", "), errs[0], shape.op, shape.row(rd.coq), strings.Join(curs, ", "))
	return head + "\n  " + gwJoin(lets, r), nil
}

func (s *gsch) retValue(v string) string {
	switch {
	case s.cur.kind == "target" && v == "":
		return "wld"
	case s.cur.kind == "target":
		return "(wld, " + v + ")"
	}
	return v
}

func (s *gsch) stmt(env *gwEnv, st ast.Stmt, last bool, rest func() (string, error), ctx gwCtx) (string, bool, error) {
	g := s.g
	out := func(c string, err error) (string, bool, error) { return c, err == nil, err }
	switch st := st.(type) {
	case *ast.SwitchStmt:
		return out(s.switchStmt(env, st, last, rest, ctx))
	case *ast.TypeSwitchStmt:
		return out(s.typeSwitch(env, st, last, rest, ctx))
	case *ast.RangeStmt:
		return out(s.rangeStmt(env, st, rest, ctx))
	case *ast.ForStmt:
		if st.Init == nil && st.Post == nil && st.Cond != nil {
			// for c { body } = for { if !c { break }; body }
			brk := &ast.IfStmt{If: st.For, Cond: &ast.UnaryExpr{OpPos: st.For, Op: token.NOT, X: st.Cond},
				Body: &ast.BlockStmt{Lbrace: st.For, List: []ast.Stmt{&ast.BranchStmt{TokPos: st.For, Tok: token.BREAK}}, Rbrace: st.For}}
			body := &ast.BlockStmt{Lbrace: st.Body.Lbrace, List: append([]ast.Stmt{brk}, st.Body.List...), Rbrace: st.Body.Rbrace}
			return out(g.forStmt(env, &ast.ForStmt{For: st.For, Body: body}, rest))
		}
	case *ast.IfStmt:
		if st.Init != nil {
			in, ok := st.Init.(*ast.AssignStmt)
			if !ok || in.Tok != token.ASSIGN {
				return "", false, g.errAt(st, "the init statement of an if must be an assignment with =")
			}
			plain := &ast.IfStmt{If: st.If, Cond: st.Cond, Body: st.Body, Else: st.Else}
			return out(g.stmt(env, in, false, func() (string, error) { return g.stmt(env, plain, last, rest, ctx) }, ctx))
		}
	case *ast.SendStmt:
		cd := env.lookup(gsIdent(st.Chan))
		if cd == nil || cd.ty != gsOChan {
			return "", false, g.errAt(st, "send on %s", g.src(st.Chan))
		}
		var binds []string
		v, err := g.expr(env, st.Value, &binds)
		if err != nil {
			return "", false, err
		}
		if v.ty != gsGFeat {
			return "", false, g.errAt(st, "send of a %s", v.ty)
		}
		r, err := rest()
		if err != nil {
			return "", false, err
		}
		return gwJoin(binds, fmt.Sprintf("wdo %s <- chan_send %s %s;\n  %s", cd.coq, cd.coq, v.code, r)), true, nil
	case *ast.ReturnStmt:
		if !last {
			return "", false, g.errAt(st, "statements after return")
		}
		var binds []string
		val := ""
		if s.cur.result == "" {
			if len(st.Results) != 0 {
				return "", false, g.errAt(st, "return with a value")
			}
			if s.cur.ochan != nil {
				val = s.cur.ochan.coq
			}
		} else {
			if len(st.Results) != 1 {
				return "", false, g.errAt(st, "return must have one value")
			}
			v, err := g.expr(env, st.Results[0], &binds)
			if err != nil {
				return "", false, err
			}
			if val, err = g.conv(st.Results[0], v, s.cur.result); err != nil {
				return "", false, err
			}
		}
		full := s.retValue(val)
		if ctx.top {
			return gwJoin(binds, "WOk "+full), true, nil
		}
		if ctx.ret == nil {
			return "", false, g.errAt(st, "return inside this loop is not supported")
		}
		r, err := ctx.ret(full)
		return gwJoin(binds, r), err == nil, err
	case *ast.ExprStmt:
		c, ok := st.X.(*ast.CallExpr)
		if !ok {
			return "", false, nil
		}
		if id, ok := c.Fun.(*ast.Ident); ok && id.Name == "close" && env.lookup("close") == nil {
			cd := env.lookup(gsIdent(c.Args[0]))
			if len(c.Args) != 1 || cd == nil || cd.ty != gsOChan {
				return "", false, g.errAt(st, "unsupported close")
			}
			r, err := rest()
			if err != nil {
				return "", false, err
			}
			return fmt.Sprintf("wdo %s <- chan_close %s;\n  %s", cd.coq, cd.coq, r), true, nil
		}
		if sel, ok := c.Fun.(*ast.SelectorExpr); ok && g.isPkg(sel.X, "log", "log") && env.lookup("log") == nil && !c.Ellipsis.IsValid() {
			lastIsErr := false
			if n := len(c.Args); n > 0 {
				if d := env.lookup(gsIdent(c.Args[n-1])); d != nil && d.ty == gwErr {
					lastIsErr = true
				}
			}
			switch {
			case sel.Sel.Name == "Fatal" && len(c.Args) == 1 && lastIsErr:
				if !last {
					return "", false, g.errAt(st, "statements after log.Fatal")
				}
				return "WErr (fatal " + env.lookup(gsIdent(c.Args[0])).coq + ")", true, nil
			case sel.Sel.Name == "Fatalf" && len(c.Args) >= 1 && !lastIsErr:
				// the process ends without an error value: it is named by the format
				format, ok := s.resolveString(env, c.Args[0])
				if !ok {
					return "", false, g.errAt(st, "log.Fatalf with a format that is not a literal")
				}
				if !last {
					return "", false, g.errAt(st, "statements after log.Fatalf")
				}
				var binds []string
				for _, a := range c.Args[1:] {
					if _, err := g.expr(env, a, &binds); err != nil {
						return "", false, err
					}
				}
				return gwJoin(binds, "WErr (Stop "+coqString(format)+"%string)"), true, nil
			}
		}
	case *ast.AssignStmt:
		if len(st.Rhs) == 1 {
			if c, ok := st.Rhs[0].(*ast.CallExpr); ok {
				if sel, ok := c.Fun.(*ast.SelectorExpr); ok && sel.Sel.Name == "Scan" {
					if rd := env.lookup(gsIdent(sel.X)); rd != nil && (gsScanShapes[rd.ty].op != "" || rd.ty == gsCurSel) {
						if len(st.Lhs) != 1 {
							return "", false, g.errAt(st, "Scan has one result")
						}
						return out(s.scanStmt(env, st, c, rd, rest))
					}
				}
			}
		}
		// x.f = e
		if len(st.Lhs) == 1 && len(st.Rhs) == 1 && st.Tok == token.ASSIGN {
			if l, ok := st.Lhs[0].(*ast.SelectorExpr); ok {
				vd := env.lookup(gsIdent(l.X))
				if vd == nil {
					return "", false, g.errAt(st, "assignment to %s is not supported", g.src(l))
				}
				set, ok := gsSetters[vd.ty][l.Sel.Name]
				if !ok {
					return "", false, g.errAt(st, "assignment to field %s of %s is not supported", l.Sel.Name, vd.ty)
				}
				var binds []string
				v, err := g.expr(env, st.Rhs[0], &binds)
				if err != nil {
					return "", false, err
				}
				c, err := g.conv(st.Rhs[0], v, set.valTy)
				if err != nil {
					return "", false, err
				}
				binds = append(binds, fmt.Sprintf("let %s : %s := %s %s %s in", vd.coq, gwCoq[vd.ty], set.set, vd.coq, c))
				r, err := rest()
				if err != nil {
					return "", false, err
				}
				return gwJoin(binds, r), true, nil
			}
		}
	}
	return "", false, nil
}

// ---------------------------------------------------------------------------
// functions
// ---------------------------------------------------------------------------

func (s *gsch) function(fn *gsFn) (string, error) {
	g := s.g
	fd := fn.fd
	if fd.Type.TypeParams != nil {
		return "", g.errAt(fd, "%s is generic", fn.name)
	}
	s.cur, s.handleName = fn, ""
	fn.result, fn.params, fn.handle, fn.ochan = "", nil, false, nil
	if fd.Type.Results != nil {
		if len(fd.Type.Results.List) != 1 || len(fd.Type.Results.List[0].Names) != 0 {
			return "", g.errAt(fd, "%s must have at most one unnamed result", fn.name)
		}
		ty, err := g.goType(fd.Type.Results.List[0].Type)
		if err != nil {
			return "", err
		}
		fn.result = ty
	}
	g.fn, g.n, g.loopN, g.declN, g.retTy = fn.name, 0, 0, map[string]int{}, fn.result
	g.recv = ""
	g.ownership(fd)
	if err := s.prepare(fd); err != nil {
		return "", err
	}
	env := &gwEnv{vars: map[string]*gwDecl{}}
	var sig []string
	title := "func " + fn.name
	if fn.recv != "" {
		g.recv = fd.Recv.List[0].Names[0].Name
		rty := gwTarget
		if fn.recv == "SourceGeopackage" {
			rty = gsSource
		}
		rd := g.declare(env, g.recv, rty)
		sig = append(sig, fmt.Sprintf("(%s : %s)", rd.coq, gwCoq[rty]))
		title = fmt.Sprintf("func (%s %s) %s", g.recv, fn.recv, fn.name)
	}
	wty := map[string]string{"target": gsCWorld, "source": gsSrcDb, "pure": gsSrcDb}[fn.kind]
	g.world = &gwDecl{name: "", coq: "wld", ty: wty, seq: 0}
	if fn.kind != "pure" {
		env.vars[""] = g.world
		sig = append(sig, fmt.Sprintf("(wld : %s)", gwCoq[wty]))
	}
	first := true
	for _, f := range fd.Type.Params.List {
		ty, err := g.goType(f.Type)
		if err != nil {
			return "", err
		}
		for _, n := range f.Names {
			if n.Name == "_" {
				return "", g.errAt(f, "unnamed parameter")
			}
			switch {
			case ty == gwHandle:
				if !first || fn.recv != "" || fn.kind == "pure" {
					return "", g.errAt(f, "the database handle must be the first parameter of a plain function")
				}
				fn.handle, s.handleName = true, n.Name
			case ty == gsOChan:
				if fn.ochan != nil || fn.result != "" {
					return "", g.errAt(f, "unsupported channel parameter")
				}
				fn.ochan = g.declare(env, n.Name, ty)
				sig = append(sig, fmt.Sprintf("(%s : %s)", fn.ochan.coq, gwCoq[ty]))
			default:
				d := g.declare(env, n.Name, ty)
				fn.params = append(fn.params, ty)
				sig = append(sig, fmt.Sprintf("(%s : %s)", d.coq, gwCoq[ty]))
			}
			first = false
		}
	}
	end := func() (string, error) {
		if fn.result != "" {
			return "", g.errAt(fd, "%s can end without a return", fn.name)
		}
		v := ""
		if fn.ochan != nil {
			v = fn.ochan.coq
		}
		if full := s.retValue(v); full != "" {
			return "WOk " + full, nil
		}
		return "WOk tt", nil
	}
	body, err := g.block(env.child(), fd.Body.List, gwCtx{top: true, fall: end})
	if err != nil {
		return "", err
	}
	if g.loopN != len(gwFuel[fn.name]) {
		return "", g.errAt(fd, "%s has %d `for` loops on fuel, fuel is configured for %d", fn.name, g.loopN, len(gwFuel[fn.name]))
	}
	rty := "unit"
	switch {
	case fn.result != "":
		rty = gwCoq[fn.result]
	case fn.ochan != nil:
		rty = gwCoq[gsOChan]
	}
	if fn.kind == "target" {
		rty = "(cworld * " + rty + ")%type"
	}
	var b strings.Builder
	b.WriteString(g.pre.String())
	g.pre.Reset()
	fmt.Fprintf(&b, "(* gpkg.go:%d %s *)\nDefinition gen_%s %s : wres %s :=\n  %s.\n\n",
		g.fset.Position(fd.Pos()).Line, title, fn.name, strings.Join(sig, " "), rty, body)
	fn.done = true
	return b.String(), nil
}

// the method `func (f featureGPKG) name() T { return f.field }`
func gsCheckGetter(f *ast.File, name, field string) error {
	for _, d := range f.Decls {
		fd, ok := d.(*ast.FuncDecl)
		if !ok || fd.Name.Name != name || fd.Recv == nil || len(fd.Recv.List) != 1 || len(fd.Recv.List[0].Names) != 1 ||
			types.ExprString(fd.Recv.List[0].Type) != "featureGPKG" || fd.Body == nil {
			continue
		}
		if len(fd.Body.List) == 1 {
			if r, ok := fd.Body.List[0].(*ast.ReturnStmt); ok && len(r.Results) == 1 &&
				types.ExprString(r.Results[0]) == fd.Recv.List[0].Names[0].Name+"."+field {
				return nil
			}
		}
		return fmt.Errorf("featureGPKG.%s is not `return f.%s`", name, field)
	}
	return fmt.Errorf("method %s of featureGPKG not found", name)
}

func genGpkgSchema(repo string) (string, error) {
	fset := token.NewFileSet()
	dir := filepath.Join(repo, "processing", "gpkg")
	f, err := parser.ParseFile(fset, filepath.Join(dir, "gpkg.go"), nil, 0)
	if err != nil {
		return "", err
	}
	g := &gw{fset: fset, imports: map[string]string{}, methods: map[string]*ast.FuncDecl{}, done: map[string]bool{}}
	s := &gsch{g: g, fns: map[string]*gsFn{}}
	g.sch = s
	for _, im := range f.Imports {
		p, _ := strconv.Unquote(im.Path.Value)
		n := p[strings.LastIndex(p, "/")+1:]
		if im.Name != nil {
			n = im.Name.Name
		}
		g.imports[n] = p
	}
	if g.imports["gpkg"] != gsGpkgPath {
		return "", fmt.Errorf("gpkg is not %s", gsGpkgPath)
	}
	for _, c := range []struct {
		name string
		want map[string]string
	}{
		{"TargetGeopackage", map[string]string{"Table": "Table", "pagesize": "int", "handle": "*gpkg.Handle"}},
		{"SourceGeopackage", map[string]string{"Table": "Table", "handle": "*gpkg.Handle"}},
		{"Table", map[string]string{"Name": "string", "columns": "[]column", "gcolumn": "string", "gtype": "gpkg.GeometryType", "srs": "gpkg.SpatialReferenceSystem"}},
		{"column", map[string]string{"cid": "int", "name": "string", "ctype": "string", "notnull": "int", "pk": "int"}},
		{"featureGPKG", map[string]string{"columns": "[]interface{}", "geometry": "geom.Geometry"}},
	} {
		if err := gwCheckStruct(f, c.name, c.want); err != nil {
			return "", err
		}
	}
	// the Scan destination of dflt_value decides which values of a column default the scan accepts: a *string takes any
	// (fix de070c1, F17), a *int only NULL and integers (op_ScanTableInfo, the reading before the repair)
	if gwCheckStruct(f, "column", map[string]string{"dfltValue": "*string"}) == nil {
		gsSetDfltKind(gsStrPtr, "op_ScanTableInfoS")
	} else if err := gwCheckStruct(f, "column", map[string]string{"dfltValue": "*int"}); err == nil {
		gsSetDfltKind(gsIntPtr, "op_ScanTableInfo")
	} else {
		return "", fmt.Errorf("struct column: field dfltValue is neither *string nor *int")
	}
	if err := gsCheckGetter(f, "Columns", "columns"); err != nil {
		return "", err
	}
	if err := gsCheckGetter(f, "Geometry", "geometry"); err != nil {
		return "", err
	}
	// column.cid / column.dfltValue are not represented: they may only occur as the Scan destinations &column.cid, &column.dfltValue
	pkgs, err := parser.ParseDir(fset, dir, nil, 0)
	if err != nil {
		return "", err
	}
	for _, pkg := range pkgs {
		for _, pf := range pkg.Files {
			var bad error
			parents := map[ast.Node]ast.Node{}
			var stack []ast.Node
			ast.Inspect(pf, func(n ast.Node) bool {
				if n == nil {
					stack = stack[:len(stack)-1]
					return true
				}
				if len(stack) > 0 {
					parents[n] = stack[len(stack)-1]
				}
				stack = append(stack, n)
				if sel, ok := n.(*ast.SelectorExpr); ok && (sel.Sel.Name == "cid" || sel.Sel.Name == "dfltValue") {
					u, ok := parents[n].(*ast.UnaryExpr)
					if !ok || u.Op != token.AND {
						bad = fmt.Errorf("%s: field %s is read; it is not represented in the model", fset.Position(n.Pos()), sel.Sel.Name)
					} else if c, ok := parents[u].(*ast.CallExpr); !ok || types.ExprString(c.Fun) != "rows.Scan" {
						bad = fmt.Errorf("%s: the address of field %s is used outside rows.Scan", fset.Position(n.Pos()), sel.Sel.Name)
					}
				}
				return true
			})
			if bad != nil {
				return "", bad
			}
		}
	}
	order := []*gsFn{
		{name: "geometryTypeFromString", kind: "pure"},
		{name: "getSpatialReferenceSystem", kind: "source"},
		{name: "getTableColumns", kind: "source"},
		{name: "GetTableInfo", kind: "source", recv: "SourceGeopackage"},
		{name: "ReadFeatures", kind: "source", recv: "SourceGeopackage"},
		{name: "buildTable", kind: "target"},
		{name: "CreateTables", kind: "target", recv: "*TargetGeopackage"},
	}
	for _, fn := range order {
		for _, d := range f.Decls {
			fd, ok := d.(*ast.FuncDecl)
			if !ok || fd.Name.Name != fn.name || fd.Body == nil {
				continue
			}
			recv := ""
			if fd.Recv != nil {
				if len(fd.Recv.List) != 1 || len(fd.Recv.List[0].Names) != 1 {
					continue
				}
				recv = types.ExprString(fd.Recv.List[0].Type)
			}
			if recv == fn.recv {
				fn.fd = fd
			}
		}
		if fn.fd == nil {
			return "", fmt.Errorf("function %s not found", fn.name)
		}
		s.fns[fn.name] = fn
	}
	var b strings.Builder
	b.WriteString("(* GENERATED by /verif/translator (G2, GeoPackage schema side) from processing/gpkg/gpkg.go on every run -- do not edit.\n")
	b.WriteString("   Control flow, the order of the calls, all conditions and all argument plumbing (Scan destinations, SQL arguments,\n")
	b.WriteString("   members of gpkg.TableDescription) are derived from the AST.\n")
	b.WriteString("   MODELLED (trusted) calls, each accepted only in exactly this shape (SQL texts compared); the operations are defined in\n")
	b.WriteString("   Gpkg/SchemaOps.v:\n")
	for _, m := range gsModelled {
		b.WriteString("     " + strings.ReplaceAll(m, "*", "ptr ") + "\n")
	}
	b.WriteString("*)\n")
	b.WriteString("From Coq Require Import ZArith NArith List Bool String.\nFrom Texel Require Import Gpkg.Model Gpkg.WriterOps Gpkg.SchemaOps.\nImport ListNotations.\nOpen Scope Z_scope.\n\n")
	for _, fn := range order {
		c, err := s.function(fn)
		if err != nil {
			return "", err
		}
		b.WriteString(c)
	}
	return b.String(), nil
}
