package main

import (
	"fmt"
	"go/ast"
	"go/parser"
	"go/printer"
	"go/token"
	"path/filepath"
	"sort"
	"strconv"
	"strings"
)

// ---------------------------------------------------------------------------
// G2 (command line tool): injectSuffixIntoPath, initGPKGTarget, validateTileMatrixSet, processBySnapping, the
// app.Action function literal and the end of main of /repo/main.go -> gen/CliMainGen.v
//
// Every statement is derived from the AST and written in the monad `mres` of Cli/MainOps.v.  The hidden state (the
// files, the TargetGeopackage objects behind the pointers) is the explicit variable `wld : world L` that every
// call which can touch it takes and returns; `dfr` is the stack of deferred calls of the Action.
//   if c { A } [else { B }]; rest   rest goes into the branch that falls through; when both do, it is bound as a local
//                                   function k_n of the variables the branches assign
//   for _, x := range s { .. }      mrange_loop over exactly the variables the body assigns (a body with `return`:
//                                   mrange_loop_ret, only in functions without world and defers)
//   x, err := call(..)              let '(x, err) := op .. in   /   mdo .. <- op ..;
//   return err / return nil         MOk (.., err)   (the Action: after run_defers)
//   log.Fatalf(.., err)             MErr (fatal err)
//   defer x.Close()                 let dfr := (fun wld => op_..Close L wld x) :: dfr
// A declaration that shadows a variable of an enclosing scope is refused.  Anything not listed here or in cmModelled
// is an error = a generated file that does not compile.
// ---------------------------------------------------------------------------

var cmModelled = []string{
	"path.Split(p) / path.Ext(f) / path.Join(a, b)            go_path_Split / go_path_Ext / go_path_Join2        [package path; Join with exactly two elements]",
	"strings.ReplaceAll(s, \"old\", \"new\")                   go_strings_ReplaceAll s (s_ \"old\") (s_ \"new\")         [package strings; old and new string LITERALS, taken from the source; old not empty]",
	"fmt.Sprintf(<string variable>, <int>)                   op_Sprintf                                        (formats of plain characters, %% and exactly one %v; else UnsafeFormat)",
	"s[:h] on a string, a + b on strings, len(..)            str_slice s 0 h (bounds checked) / ++ / zlen",
	"c.String(N) / c.Bool(N) / c.Int(N)                      cx_String c \"n\" / cx_Bool / cx_Int              (c the *cli.Context, N a string constant of main.go)",
	"tms20.LoadEmbeddedTileMatrixSet(s)                      op_LoadTms L s",
	"err = json.Unmarshal([]byte(s), &ids)                   (ids, err) := op_Unmarshal L s                    (ids a []int)",
	"pointindex.IsQuadTree(tms) / .DeviationStats(tms, id)    op_IsQuadTree L / op_DeviationStats L",
	"_, ok := tms.TileMatrices[id]                           op_HasMatrix L tms id",
	"slices.Max(ids)                                         go_slices_Max ids                                 (EmptyMax on an empty slice)",
	"errors.New(text) / fmt.Errorf(format, pure args..)       Some (NewErr text)                               (the arguments of Errorf are not part of the value)",
	"_, err = os.Stat(p) / os.IsNotExist(err) / os.Remove(p)  op_Stat L wld p / op_IsNotExist / op_Remove L wld p",
	"var pe *os.PathError; errors.As(err, &pe) && errors.Is(pe.Err, syscall.ENOENT)      op_is_ENOENT err",
	"gpkg.SourceGeopackage{} / s.Init(p) / s.Table = t / s.GetTableInfo() / defer s.Close()   src_zero L / op_SourceInit / set_so_table / op_GetTableInfo / op_SourceClose",
	"gpkg.TargetGeopackage{} (address taken) / t.Init(p, n) / t.Table = x / t.CreateTables(ts) / defer t.Close()   op_NewTarget / op_TargetInit / op_SetTargetTable / op_TargetCreateTables / op_TargetClose",
	"map[int]T: make(.., n) / m[k] = v / m[k] / range m      amap_make n / amap_set / amap_get_ptr / the entries in the order of their last assignment",
	"snap.Config{F: e, ..}                                   {| sc_keep := ..; sc_ignore := ..; sc_reverse := .. |}  (the struct must have exactly these three bool fields)",
	"snap.SnapPolygon(p, tms, ids, cfg)                      l_SnapPolygon L p tms ids cfg",
	"processing.ProcessFeatures(source, targets, func..)      op_ProcessFeatures L wld source targets (fun ..)",
	"log.Fatalf(.., err) / log.Fatal(err)                    MErr (fatal err)",
	"log.Printf(..) / log.Println(..) with pure arguments    nothing; an `if` whose body only logs is dropped (its condition must be pure)",
	"app.Run(os.Args); app.Action = func(c *cli.Context) error {..}     op_app_Run L gen_Action wld c     (urfave/cli: the Action is called with the context built from os.Args)",
}

const (
	cmStr     = "str"
	cmInt     = "int"
	cmBool    = "bool"
	cmErr     = "err"
	cmInts    = "ints"
	cmCtx     = "ctx"
	cmTms     = "tms"
	cmSrc     = "src"
	cmTables  = "tables"
	cmTable   = "table"
	cmTgtPtr  = "tgtptr"
	cmTgtLoc  = "tgtloc" // a local variable of type gpkg.TargetGeopackage: a heap cell
	cmTgtMap  = "tgtmap"
	cmSnapCfg = "snapcfg"
	cmPoly    = "poly"
	cmSres    = "sres"
	cmStats   = "stats"
	cmFloat   = "float"
	cmPathErr = "patherr"
	cmApp     = "app"
	cmWorld   = "world"
	cmDefers  = "defers"
)

var cmCoq = map[string]string{cmStr: "str", cmInt: "Z", cmBool: "bool", cmErr: "goerr", cmInts: "list Z", cmCtx: "cctx",
	cmTms: "l_tms L", cmSrc: "srcobj L", cmTables: "list table", cmTable: "table", cmTgtPtr: "tgtptr", cmTgtLoc: "tgtptr",
	cmTgtMap: "amap tgtptr", cmSnapCfg: "snapcfg", cmPoly: "l_poly L", cmSres: "l_sres L", cmStats: "l_stats L",
	cmFloat: "l_float L", cmWorld: "world L", cmDefers: "list (world L -> world L)"}

type cmVar struct {
	name string
	coq  string
	kind string
	seq  int
}

type cmEnv struct {
	parent *cmEnv
	vars   map[string]*cmVar
}

func (e *cmEnv) child() *cmEnv { return &cmEnv{parent: e, vars: map[string]*cmVar{}} }
func (e *cmEnv) lookup(n string) *cmVar {
	for s := e; s != nil; s = s.parent {
		if v, ok := s.vars[n]; ok {
			return v
		}
	}
	return nil
}

type cmFunc struct {
	name    string
	coq     string
	params  []*ast.Field
	results *ast.FieldList
	body    *ast.BlockStmt
	pos     token.Pos
	world   bool
	defers  bool
	resKind string // "" = no result
	isMain  bool
	text    string
	done    bool
	busy    bool
}

type cmTr struct {
	fset   *token.FileSet
	consts map[string]string
	funcs  map[string]*cmFunc
	order  []*cmFunc
	seq    int
	tmp    int
	kn     int
	pre    []string
	cur    *cmFunc
	uses   [][2]string // flag accessor, flag name
	cfgOK  bool
	// the import declarations of main.go: local name -> import path
	imports map[string]string
}

// stdPkg: the package name `name` of a modelled call must be the standard library package of that import path,
// imported under its own name
func (t *cmTr) stdPkg(n ast.Node, name string) error {
	if p, ok := t.imports[name]; !ok || p != name {
		return t.errf(n, "%s is not the standard library package %q imported under its own name (have %q)", name, name, p)
	}
	return nil
}

func (t *cmTr) errf(n ast.Node, f string, a ...interface{}) error {
	return fmt.Errorf("main.go:%d: %s", t.fset.Position(n.Pos()).Line, fmt.Sprintf(f, a...))
}

func (t *cmTr) src(n ast.Node) string {
	var sb strings.Builder
	_ = printer.Fprint(&sb, t.fset, n)
	return strings.Join(strings.Fields(sb.String()), " ")
}

func cmCoqString(s string) (string, bool) {
	for _, r := range s {
		if r < 32 || r > 126 {
			return "", false
		}
	}
	return "\"" + strings.ReplaceAll(s, "\"", "\"\"") + "\"%string", true
}

// ---- types ----

func cmSel(e ast.Expr) (string, string, bool) {
	se, ok := e.(*ast.SelectorExpr)
	if !ok {
		return "", "", false
	}
	x, ok := se.X.(*ast.Ident)
	if !ok {
		return "", "", false
	}
	return x.Name, se.Sel.Name, true
}

func (t *cmTr) kindOfType(e ast.Expr) (string, error) {
	switch x := e.(type) {
	case *ast.Ident:
		switch x.Name {
		case "string":
			return cmStr, nil
		case "int":
			return cmInt, nil
		case "bool":
			return cmBool, nil
		case "error":
			return cmErr, nil
		}
	case *ast.SelectorExpr:
		p, n, _ := cmSel(x)
		switch p + "." + n {
		case "tms20.TMID":
			return cmInt, nil
		case "tms20.TileMatrixSet":
			return cmTms, nil
		case "processing.Source":
			return cmSrc, nil
		case "snap.Config":
			return cmSnapCfg, nil
		case "geom.Polygon":
			return cmPoly, nil
		}
	case *ast.ArrayType:
		if x.Len == nil {
			if k, err := t.kindOfType(x.Elt); err == nil && k == cmInt {
				return cmInts, nil
			}
		}
	case *ast.StarExpr:
		p, n, _ := cmSel(x.X)
		switch p + "." + n {
		case "gpkg.TargetGeopackage":
			return cmTgtPtr, nil
		case "cli.Context":
			return cmCtx, nil
		case "os.PathError":
			return cmPathErr, nil
		}
	case *ast.MapType:
		k, err := t.kindOfType(x.Key)
		if err != nil || k != cmInt {
			break
		}
		if st, ok := x.Value.(*ast.StarExpr); ok {
			if p, n, _ := cmSel(st.X); p == "gpkg" && n == "TargetGeopackage" {
				return cmTgtMap, nil
			}
		}
		if p, n, _ := cmSel(x.Value); p == "processing" && n == "Target" {
			return cmTgtMap, nil
		}
		if at, ok := x.Value.(*ast.ArrayType); ok && at.Len == nil {
			if p, n, _ := cmSel(at.Elt); p == "geom" && n == "Polygon" {
				return cmSres, nil
			}
		}
	}
	return "", t.errf(e, "unsupported type %s", t.src(e))
}

// ---- environment ----

func (t *cmTr) declare(env *cmEnv, n ast.Node, name, kind string) (*cmVar, error) {
	if env.parent != nil && env.parent.lookup(name) != nil {
		return nil, t.errf(n, "declaration of %s shadows a variable of an enclosing scope (not supported)", name)
	}
	if v, ok := env.vars[name]; ok {
		if v.kind != kind {
			return nil, t.errf(n, "%s redeclared with another type", name)
		}
		return v, nil
	}
	t.seq++
	v := &cmVar{name: name, coq: "v_" + name, kind: kind, seq: t.seq}
	env.vars[name] = v
	return v, nil
}

func (t *cmTr) tmpName() string { t.tmp++; return fmt.Sprintf("t_%d", t.tmp) }

func (t *cmTr) flush() string {
	s := strings.Join(t.pre, "")
	t.pre = nil
	return s
}

// ---- which functions touch the world ----

func (t *cmTr) scanEffects() {
	for changed := true; changed; {
		changed = false
		for _, f := range t.funcs {
			w, d := f.world, f.defers
			ast.Inspect(f.body, func(n ast.Node) bool {
				switch x := n.(type) {
				case *ast.DeferStmt:
					w, d = true, true
				case *ast.CompositeLit:
					if p, n, _ := cmSel(x.Type); p == "gpkg" && (n == "TargetGeopackage" || n == "SourceGeopackage") {
						w = true
					}
				case *ast.CallExpr:
					if id, ok := x.Fun.(*ast.Ident); ok {
						if g, ok := t.funcs[id.Name]; ok && g.world {
							w = true
						}
					}
					if p, n, ok := cmSel(x.Fun); ok {
						switch p + "." + n {
						case "os.Remove", "os.Stat", "processing.ProcessFeatures", "app.Run":
							w = true
						}
						switch n {
						case "Init", "CreateTables", "Close", "GetTableInfo":
							w = true
						}
					}
				case *ast.AssignStmt:
					for _, l := range x.Lhs {
						if _, n, ok := cmSel(l); ok && n == "Table" {
							w = true
						}
					}
				}
				return true
			})
			if w != f.world || d != f.defers {
				f.world, f.defers, changed = w, d, true
			}
		}
	}
}

// ---- expressions ----

type cmCall struct {
	text    string
	monadic bool
	world   bool
	results []string
}

func (t *cmTr) pure(e ast.Expr) bool {
	ok := true
	ast.Inspect(e, func(n ast.Node) bool {
		switch n.(type) {
		case nil, *ast.Ident, *ast.BasicLit, *ast.SelectorExpr, *ast.BinaryExpr, *ast.UnaryExpr, *ast.ParenExpr:
		default:
			ok = false
		}
		return ok
	})
	return ok
}

func (t *cmTr) flagName(e ast.Expr) (string, error) {
	switch x := e.(type) {
	case *ast.Ident:
		if s, ok := t.consts[x.Name]; ok {
			return s, nil
		}
	case *ast.BasicLit:
		if x.Kind == token.STRING {
			if s, err := strconv.Unquote(x.Value); err == nil {
				return s, nil
			}
		}
	}
	return "", t.errf(e, "flag name must be a string constant of main.go: %s", t.src(e))
}

func (t *cmTr) args(env *cmEnv, call *ast.CallExpr, kinds ...string) ([]string, error) {
	if len(call.Args) != len(kinds) || call.Ellipsis != token.NoPos {
		return nil, t.errf(call, "%s: expected %d arguments", t.src(call.Fun), len(kinds))
	}
	var out []string
	for i, a := range call.Args {
		s, k, err := t.expr(env, a, kinds[i])
		if err != nil {
			return nil, err
		}
		if !cmSameKind(k, kinds[i]) {
			return nil, t.errf(a, "argument %d of %s: have %s, want %s", i+1, t.src(call.Fun), k, kinds[i])
		}
		out = append(out, s)
	}
	return out, nil
}

func cmSameKind(a, b string) bool {
	return a == b
}

// call translates a call expression into a descriptor; the caller binds the results.
func (t *cmTr) call(env *cmEnv, c *ast.CallExpr) (*cmCall, error) {
	if id, ok := c.Fun.(*ast.Ident); ok {
		switch id.Name {
		case "len":
			if len(c.Args) != 1 {
				break
			}
			s, k, err := t.expr(env, c.Args[0], "")
			if err != nil {
				return nil, err
			}
			if k != cmStr && k != cmInts && k != cmTgtMap && k != cmTables {
				return nil, t.errf(c, "len of %s", k)
			}
			return &cmCall{text: "(zlen " + s + ")", results: []string{cmInt}}, nil
		case "make":
			if len(c.Args) < 1 || len(c.Args) > 2 {
				break
			}
			k, err := t.kindOfType(c.Args[0])
			if err != nil || k != cmTgtMap {
				return nil, t.errf(c, "make of %s", t.src(c.Args[0]))
			}
			n := "0"
			if len(c.Args) == 2 {
				s, k2, err := t.expr(env, c.Args[1], cmInt)
				if err != nil {
					return nil, err
				}
				if k2 != cmInt {
					return nil, t.errf(c, "make: size is %s", k2)
				}
				n = s
			}
			return &cmCall{text: "(amap_make " + n + ")", results: []string{cmTgtMap}}, nil
		}
		if f, ok := t.funcs[id.Name]; ok && !f.isMain && id.Name != "Action" {
			if err := t.function(f); err != nil {
				return nil, err
			}
			var kinds []string
			for _, p := range f.params {
				k, err := t.kindOfType(p.Type)
				if err != nil {
					return nil, err
				}
				for range p.Names {
					kinds = append(kinds, k)
				}
			}
			as, err := t.args(env, c, kinds...)
			if err != nil {
				return nil, err
			}
			txt := f.coq
			// (L is the section variable of the generated file: own functions take it implicitly)
			if f.world {
				txt += " wld"
			}
			for _, a := range as {
				txt += " " + a
			}
			res := []string{}
			if f.resKind != "" {
				res = []string{f.resKind}
			}
			return &cmCall{text: txt, monadic: true, world: f.world, results: res}, nil
		}
		return nil, t.errf(c, "unsupported call %s", t.src(c.Fun))
	}
	se, ok := c.Fun.(*ast.SelectorExpr)
	if !ok {
		return nil, t.errf(c, "unsupported call %s", t.src(c.Fun))
	}
	if x, ok := se.X.(*ast.Ident); ok && env.lookup(x.Name) == nil {
		// package function
		switch x.Name {
		case "path", "fmt", "strings", "slices":
			if err := t.stdPkg(c, x.Name); err != nil {
				return nil, err
			}
		}
		switch x.Name + "." + se.Sel.Name {
		case "strings.ReplaceAll":
			// strings.ReplaceAll(s, "old", "new"): both patterns string literals, old not empty
			if len(c.Args) != 3 || c.Ellipsis != token.NoPos {
				return nil, t.errf(c, "strings.ReplaceAll: expected 3 arguments")
			}
			sx, sk, err := t.expr(env, c.Args[0], cmStr)
			if err != nil {
				return nil, err
			}
			if sk != cmStr {
				return nil, t.errf(c, "strings.ReplaceAll of %s", sk)
			}
			var lits [2]string
			for i := 0; i < 2; i++ {
				bl, ok := c.Args[i+1].(*ast.BasicLit)
				if !ok || bl.Kind != token.STRING {
					return nil, t.errf(c.Args[i+1], "strings.ReplaceAll: argument %d must be a string literal: %s", i+2, t.src(c.Args[i+1]))
				}
				v, err := strconv.Unquote(bl.Value)
				if err != nil {
					return nil, t.errf(bl, "strings.ReplaceAll: unreadable literal %s", bl.Value)
				}
				if i == 0 && v == "" {
					return nil, t.errf(bl, "strings.ReplaceAll with an empty pattern is not modelled")
				}
				cs, ok := cmCoqString(v)
				if !ok {
					return nil, t.errf(bl, "strings.ReplaceAll: literal %s is not printable ASCII", bl.Value)
				}
				lits[i] = "(s_ " + strings.TrimSuffix(cs, "%string") + ")"
			}
			return &cmCall{text: "(go_strings_ReplaceAll " + sx + " " + lits[0] + " " + lits[1] + ")", results: []string{cmStr}}, nil
		case "path.Split":
			as, err := t.args(env, c, cmStr)
			if err != nil {
				return nil, err
			}
			return &cmCall{text: "go_path_Split " + as[0], results: []string{cmStr, cmStr}}, nil
		case "path.Ext":
			as, err := t.args(env, c, cmStr)
			if err != nil {
				return nil, err
			}
			return &cmCall{text: "(go_path_Ext " + as[0] + ")", results: []string{cmStr}}, nil
		case "path.Join":
			as, err := t.args(env, c, cmStr, cmStr)
			if err != nil {
				return nil, err
			}
			return &cmCall{text: "(go_path_Join2 " + as[0] + " " + as[1] + ")", results: []string{cmStr}}, nil
		case "fmt.Sprintf":
			if len(c.Args) == 2 {
				if _, isLit := c.Args[0].(*ast.BasicLit); isLit {
					return nil, t.errf(c, "fmt.Sprintf with a literal format is not supported")
				}
			}
			as, err := t.args(env, c, cmStr, cmInt)
			if err != nil {
				return nil, err
			}
			return &cmCall{text: "op_Sprintf " + as[0] + " " + as[1], monadic: true, results: []string{cmStr}}, nil
		case "slices.Max":
			as, err := t.args(env, c, cmInts)
			if err != nil {
				return nil, err
			}
			return &cmCall{text: "go_slices_Max " + as[0], monadic: true, results: []string{cmInt}}, nil
		case "tms20.LoadEmbeddedTileMatrixSet":
			as, err := t.args(env, c, cmStr)
			if err != nil {
				return nil, err
			}
			return &cmCall{text: "op_LoadTms L " + as[0], results: []string{cmTms, cmErr}}, nil
		case "pointindex.IsQuadTree":
			as, err := t.args(env, c, cmTms)
			if err != nil {
				return nil, err
			}
			return &cmCall{text: "(op_IsQuadTree L " + as[0] + ")", results: []string{cmErr}}, nil
		case "pointindex.DeviationStats":
			as, err := t.args(env, c, cmTms, cmInt)
			if err != nil {
				return nil, err
			}
			return &cmCall{text: "op_DeviationStats L " + as[0] + " " + as[1], results: []string{cmStats, cmFloat, cmFloat, cmErr}}, nil
		case "os.IsNotExist":
			as, err := t.args(env, c, cmErr)
			if err != nil {
				return nil, err
			}
			return &cmCall{text: "(op_IsNotExist " + as[0] + ")", results: []string{cmBool}}, nil
		case "os.Remove":
			as, err := t.args(env, c, cmStr)
			if err != nil {
				return nil, err
			}
			return &cmCall{text: "op_Remove L wld " + as[0], world: true, results: []string{cmErr}}, nil
		case "errors.New":
			if len(c.Args) == 1 {
				if bl, ok := c.Args[0].(*ast.BasicLit); ok && bl.Kind == token.STRING {
					if s, err := strconv.Unquote(bl.Value); err == nil {
						if cs, ok := cmCoqString(s); ok {
							return &cmCall{text: "(Some (NewErr " + cs + "))", results: []string{cmErr}}, nil
						}
					}
				}
			}
			return nil, t.errf(c, "errors.New: a printable string literal is required")
		case "fmt.Errorf":
			if len(c.Args) >= 1 && c.Ellipsis == token.NoPos {
				if bl, ok := c.Args[0].(*ast.BasicLit); ok && bl.Kind == token.STRING {
					for _, a := range c.Args[1:] {
						if !t.pure(a) {
							return nil, t.errf(a, "fmt.Errorf: argument with a call")
						}
					}
					if s, err := strconv.Unquote(bl.Value); err == nil {
						if cs, ok := cmCoqString(s); ok {
							return &cmCall{text: "(Some (NewErr " + cs + "))", results: []string{cmErr}}, nil
						}
					}
				}
			}
			return nil, t.errf(c, "fmt.Errorf: a printable literal format is required")
		case "snap.SnapPolygon":
			as, err := t.args(env, c, cmPoly, cmTms, cmInts, cmSnapCfg)
			if err != nil {
				return nil, err
			}
			return &cmCall{text: "(l_SnapPolygon L " + strings.Join(as, " ") + ")", results: []string{cmSres}}, nil
		case "processing.ProcessFeatures":
			if len(c.Args) != 3 {
				break
			}
			s1, k1, err := t.expr(env, c.Args[0], cmSrc)
			if err != nil {
				return nil, err
			}
			s2, k2, err := t.expr(env, c.Args[1], cmTgtMap)
			if err != nil {
				return nil, err
			}
			if k1 != cmSrc || k2 != cmTgtMap {
				return nil, t.errf(c, "ProcessFeatures(%s, %s, ..)", k1, k2)
			}
			fl, ok := c.Args[2].(*ast.FuncLit)
			if !ok {
				return nil, t.errf(c, "ProcessFeatures: the third argument must be a function literal")
			}
			f, err := t.snapLit(env, fl)
			if err != nil {
				return nil, err
			}
			return &cmCall{text: "op_ProcessFeatures L wld " + s1 + " " + s2 + " " + f, monadic: true, world: true}, nil
		}
		return nil, t.errf(c, "unsupported call %s", t.src(c.Fun))
	}
	// method call on a value
	recv, rk, err := t.expr(env, se.X, "")
	if err != nil {
		return nil, err
	}
	switch rk + "." + se.Sel.Name {
	case cmCtx + ".String", cmCtx + ".Bool", cmCtx + ".Int":
		if len(c.Args) != 1 {
			break
		}
		name, err := t.flagName(c.Args[0])
		if err != nil {
			return nil, err
		}
		cs, ok := cmCoqString(name)
		if !ok {
			return nil, t.errf(c, "flag name not printable")
		}
		t.uses = append(t.uses, [2]string{se.Sel.Name, name})
		k := map[string]string{"String": cmStr, "Bool": cmBool, "Int": cmInt}[se.Sel.Name]
		return &cmCall{text: "(cx_" + se.Sel.Name + " " + recv + " " + cs + ")", results: []string{k}}, nil
	case cmSrc + ".GetTableInfo":
		if len(c.Args) != 0 {
			break
		}
		return &cmCall{text: "(op_GetTableInfo L " + recv + ")", results: []string{cmTables}}, nil
	case cmTgtPtr + ".CreateTables":
		as, err := t.args(env, c, cmTables)
		if err != nil {
			return nil, err
		}
		return &cmCall{text: "op_TargetCreateTables L wld " + recv + " " + as[0], monadic: true, world: true, results: []string{cmErr}}, nil
	case cmTgtLoc + ".Init":
		as, err := t.args(env, c, cmStr, cmInt)
		if err != nil {
			return nil, err
		}
		return &cmCall{text: "op_TargetInit L wld " + recv + " " + as[0] + " " + as[1], monadic: true, world: true}, nil
	case cmApp + ".Run":
		if len(c.Args) == 1 && t.src(c.Args[0]) == "os.Args" && t.cur != nil && t.cur.isMain {
			act := t.funcs["Action"]
			if act == nil {
				return nil, t.errf(c, "app.Action is not assigned a function literal")
			}
			if err := t.function(act); err != nil {
				return nil, err
			}
			return &cmCall{text: "op_app_Run L gen_Action wld v_c", monadic: true, world: true, results: []string{cmErr}}, nil
		}
	}
	return nil, t.errf(c, "unsupported method call %s on %s", t.src(c.Fun), rk)
}

// func(p geom.Polygon, tmIDs []tms20.TMID) map[..][]geom.Polygon { return <pure call> }
func (t *cmTr) snapLit(env *cmEnv, fl *ast.FuncLit) (string, error) {
	if len(fl.Body.List) != 1 || fl.Type.Results == nil || len(fl.Type.Results.List) != 1 {
		return "", t.errf(fl, "function literal: a single return statement is required")
	}
	rk, err := t.kindOfType(fl.Type.Results.List[0].Type)
	if err != nil {
		return "", err
	}
	ret, ok := fl.Body.List[0].(*ast.ReturnStmt)
	if !ok || len(ret.Results) != 1 {
		return "", t.errf(fl, "function literal: a single return statement is required")
	}
	inner := env.child()
	hdr := "(fun"
	for _, p := range fl.Type.Params.List {
		k, err := t.kindOfType(p.Type)
		if err != nil {
			return "", err
		}
		for _, n := range p.Names {
			v, err := t.declare(inner, n, n.Name, k)
			if err != nil {
				return "", err
			}
			hdr += " (" + v.coq + " : " + cmCoq[k] + ")"
		}
	}
	saved := t.pre
	t.pre = nil
	s, k, err := t.expr(inner, ret.Results[0], rk)
	if err != nil {
		return "", err
	}
	if len(t.pre) != 0 {
		return "", t.errf(fl, "function literal: the returned expression must be pure")
	}
	t.pre = saved
	if k != rk {
		return "", t.errf(fl, "function literal returns %s, declared %s", k, rk)
	}
	return hdr + " =>\n  " + s + ")", nil
}

// bind a call used as a single-valued expression (or as a statement when want == 0)
func (t *cmTr) bindCall(n ast.Node, c *cmCall, want int) (string, error) {
	if len(c.results) != want {
		return "", t.errf(n, "call yields %d values, %d wanted", len(c.results), want)
	}
	if want == 0 {
		switch {
		case c.world && c.monadic:
			t.pre = append(t.pre, "  mdo wld <- "+c.text+";\n")
		case c.world:
			t.pre = append(t.pre, "  let wld := "+c.text+" in\n")
		default:
			return "", t.errf(n, "call without effect")
		}
		return "", nil
	}
	switch {
	case !c.world && !c.monadic:
		return c.text, nil
	case !c.world:
		v := t.tmpName()
		t.pre = append(t.pre, "  mdo "+v+" <- "+c.text+";\n")
		return v, nil
	case c.monadic:
		v := t.tmpName()
		t.pre = append(t.pre, "  mdo (wld, "+v+") <- "+c.text+";\n")
		return v, nil
	default:
		v := t.tmpName()
		t.pre = append(t.pre, "  let '(wld, "+v+") := "+c.text+" in\n")
		return v, nil
	}
}

func (t *cmTr) expr(env *cmEnv, e ast.Expr, want string) (string, string, error) {
	switch x := e.(type) {
	case *ast.ParenExpr:
		return t.expr(env, x.X, want)
	case *ast.Ident:
		if x.Name == "nil" {
			if want == cmErr {
				return "None", cmErr, nil
			}
			return "", "", t.errf(e, "nil of unknown type")
		}
		if x.Name == "true" || x.Name == "false" {
			return x.Name, cmBool, nil
		}
		if v := env.lookup(x.Name); v != nil {
			if v.kind == cmPathErr || v.kind == cmApp {
				return "", v.kind, nil
			}
			return v.coq, v.kind, nil
		}
		return "", "", t.errf(e, "unknown identifier %s", x.Name)
	case *ast.BasicLit:
		switch x.Kind {
		case token.INT:
			if _, err := strconv.ParseInt(x.Value, 10, 64); err == nil {
				return x.Value, cmInt, nil
			}
		case token.STRING:
			if s, err := strconv.Unquote(x.Value); err == nil {
				if cs, ok := cmCoqString(s); ok {
					return "(s_ " + strings.TrimSuffix(cs, "%string") + ")", cmStr, nil
				}
			}
		}
		return "", "", t.errf(e, "unsupported literal %s", x.Value)
	case *ast.UnaryExpr:
		switch x.Op {
		case token.NOT:
			s, k, err := t.expr(env, x.X, cmBool)
			if err != nil {
				return "", "", err
			}
			if k != cmBool {
				return "", "", t.errf(e, "! of %s", k)
			}
			return "(negb " + s + ")", cmBool, nil
		case token.AND:
			s, k, err := t.expr(env, x.X, "")
			if err != nil {
				return "", "", err
			}
			if k == cmTgtLoc {
				return s, cmTgtPtr, nil
			}
		}
		return "", "", t.errf(e, "unsupported %s", t.src(e))
	case *ast.BinaryExpr:
		if x.Op == token.LAND {
			if s, ok := t.enoent(env, x); ok {
				return s, cmBool, nil
			}
		}
		if x.Op == token.EQL || x.Op == token.NEQ {
			if id, ok := x.Y.(*ast.Ident); ok && id.Name == "nil" {
				s, k, err := t.expr(env, x.X, "")
				if err != nil {
					return "", "", err
				}
				if k != cmErr {
					return "", "", t.errf(e, "comparison of %s with nil", k)
				}
				if x.Op == token.EQL {
					return "(is_nil " + s + ")", cmBool, nil
				}
				return "(negb (is_nil " + s + "))", cmBool, nil
			}
		}
		a, ka, err := t.expr(env, x.X, "")
		if err != nil {
			return "", "", err
		}
		b, kb, err := t.expr(env, x.Y, "")
		if err != nil {
			return "", "", err
		}
		if ka != kb {
			return "", "", t.errf(e, "operands %s and %s", ka, kb)
		}
		switch ka {
		case cmStr:
			if x.Op == token.ADD {
				return "(" + a + " ++ " + b + ")", cmStr, nil
			}
		case cmInt:
			ops := map[token.Token]string{token.ADD: "+", token.SUB: "-", token.MUL: "*"}
			cmps := map[token.Token]string{token.EQL: "=?", token.LSS: "<?", token.LEQ: "<=?"}
			if o, ok := ops[x.Op]; ok {
				return "(" + a + " " + o + " " + b + ")", cmInt, nil
			}
			if o, ok := cmps[x.Op]; ok {
				return "(" + a + " " + o + " " + b + ")", cmBool, nil
			}
			switch x.Op {
			case token.NEQ:
				return "(negb (" + a + " =? " + b + "))", cmBool, nil
			case token.GTR:
				return "(" + b + " <? " + a + ")", cmBool, nil
			case token.GEQ:
				return "(" + b + " <=? " + a + ")", cmBool, nil
			}
		case cmBool:
			switch x.Op {
			case token.LAND:
				return "(" + a + " && " + b + ")", cmBool, nil
			case token.LOR:
				return "(" + a + " || " + b + ")", cmBool, nil
			}
		}
		return "", "", t.errf(e, "unsupported operation %s on %s", x.Op, ka)
	case *ast.SliceExpr:
		if x.Slice3 || x.Low != nil || x.High == nil {
			return "", "", t.errf(e, "only s[:h] is supported")
		}
		s, k, err := t.expr(env, x.X, cmStr)
		if err != nil {
			return "", "", err
		}
		if k != cmStr {
			return "", "", t.errf(e, "slice of %s", k)
		}
		h, kh, err := t.expr(env, x.High, cmInt)
		if err != nil {
			return "", "", err
		}
		if kh != cmInt {
			return "", "", t.errf(e, "slice bound of %s", kh)
		}
		v := t.tmpName()
		t.pre = append(t.pre, "  mdo "+v+" <- str_slice "+s+" 0 "+h+";\n")
		return v, cmStr, nil
	case *ast.IndexExpr:
		m, km, err := t.expr(env, x.X, "")
		if err != nil {
			return "", "", err
		}
		if km != cmTgtMap {
			return "", "", t.errf(e, "index of %s", km)
		}
		k, kk, err := t.expr(env, x.Index, cmInt)
		if err != nil {
			return "", "", err
		}
		if kk != cmInt {
			return "", "", t.errf(e, "map key of %s", kk)
		}
		v := t.tmpName()
		t.pre = append(t.pre, "  mdo "+v+" <- amap_get_ptr "+k+" "+m+";\n")
		return v, cmTgtPtr, nil
	case *ast.CompositeLit:
		p, n, _ := cmSel(x.Type)
		switch p + "." + n {
		case "gpkg.SourceGeopackage":
			if len(x.Elts) == 0 {
				return "(src_zero L)", cmSrc, nil
			}
		case "gpkg.TargetGeopackage":
			if len(x.Elts) == 0 {
				s, err := t.bindCall(e, &cmCall{text: "op_NewTarget L wld", world: true, results: []string{cmTgtLoc}}, 1)
				return s, cmTgtLoc, err
			}
		case "snap.Config":
			if !t.cfgOK {
				return "", "", t.errf(e, "snap.Config does not have exactly the bool fields KeepPointsAndLines, IgnoreOutsideGrid, ReverseWindingOrder")
			}
			fields := map[string]string{"KeepPointsAndLines": "false", "IgnoreOutsideGrid": "false", "ReverseWindingOrder": "false"}
			seen := map[string]bool{}
			for _, el := range x.Elts {
				kv, ok := el.(*ast.KeyValueExpr)
				if !ok {
					return "", "", t.errf(e, "snap.Config literal must use field names")
				}
				key, ok := kv.Key.(*ast.Ident)
				if !ok || fields[key.Name] == "" || seen[key.Name] {
					return "", "", t.errf(e, "snap.Config: unknown or repeated field")
				}
				seen[key.Name] = true
				s, k, err := t.expr(env, kv.Value, cmBool)
				if err != nil {
					return "", "", err
				}
				if k != cmBool {
					return "", "", t.errf(kv, "field %s is %s", key.Name, k)
				}
				fields[key.Name] = s
			}
			return "{| sc_keep := " + fields["KeepPointsAndLines"] + "; sc_ignore := " + fields["IgnoreOutsideGrid"] +
				"; sc_reverse := " + fields["ReverseWindingOrder"] + " |}", cmSnapCfg, nil
		}
		return "", "", t.errf(e, "unsupported composite literal %s", t.src(e))
	case *ast.CallExpr:
		c, err := t.call(env, x)
		if err != nil {
			return "", "", err
		}
		if len(c.results) != 1 {
			return "", "", t.errf(e, "%s used as a single value", t.src(x.Fun))
		}
		s, err := t.bindCall(e, c, 1)
		return s, c.results[0], err
	}
	return "", "", t.errf(e, "unsupported expression %s", t.src(e))
}

// errors.As(err, &pe) && errors.Is(pe.Err, syscall.ENOENT)
func (t *cmTr) enoent(env *cmEnv, b *ast.BinaryExpr) (string, bool) {
	l, ok1 := b.X.(*ast.CallExpr)
	r, ok2 := b.Y.(*ast.CallExpr)
	if !ok1 || !ok2 || len(l.Args) != 2 || len(r.Args) != 2 {
		return "", false
	}
	if t.src(l.Fun) != "errors.As" || t.src(r.Fun) != "errors.Is" || t.src(r.Args[1]) != "syscall.ENOENT" {
		return "", false
	}
	errID, ok := l.Args[0].(*ast.Ident)
	if !ok {
		return "", false
	}
	ev := env.lookup(errID.Name)
	u, ok := l.Args[1].(*ast.UnaryExpr)
	if ev == nil || ev.kind != cmErr || !ok || u.Op != token.AND {
		return "", false
	}
	pe, ok := u.X.(*ast.Ident)
	if !ok {
		return "", false
	}
	pv := env.lookup(pe.Name)
	if pv == nil || pv.kind != cmPathErr || t.src(r.Args[0]) != pe.Name+".Err" {
		return "", false
	}
	return "(op_is_ENOENT " + ev.coq + ")", true
}

// ---- statements ----

type cmK func() (string, error)

func (t *cmTr) isLog(s ast.Stmt) (fatal bool, ok bool) {
	es, isE := s.(*ast.ExprStmt)
	if !isE {
		return false, false
	}
	c, isC := es.X.(*ast.CallExpr)
	if !isC {
		return false, false
	}
	p, n, _ := cmSel(c.Fun)
	if p != "log" {
		return false, false
	}
	switch n {
	case "Printf", "Println", "Print":
		return false, true
	case "Fatalf", "Fatal", "Fatalln":
		return true, true
	}
	return false, false
}

func (t *cmTr) terminates(list []ast.Stmt) bool {
	if len(list) == 0 {
		return false
	}
	switch s := list[len(list)-1].(type) {
	case *ast.ReturnStmt:
		return true
	case *ast.BranchStmt:
		return s.Label == nil && (s.Tok == token.BREAK || s.Tok == token.CONTINUE)
	case *ast.ExprStmt:
		f, ok := t.isLog(s)
		return ok && f
	case *ast.IfStmt:
		if s.Else == nil {
			return false
		}
		eb, ok := s.Else.(*ast.BlockStmt)
		return ok && t.terminates(s.Body.List) && t.terminates(eb.List)
	}
	return false
}

// variables of env (and wld / dfr) that the statements assign
func (t *cmTr) assigned(env *cmEnv, list []ast.Stmt) []*cmVar {
	set := map[*cmVar]bool{}
	world, defers := false, false
	mark := func(e ast.Expr) {
		switch x := e.(type) {
		case *ast.Ident:
			if v := env.lookup(x.Name); v != nil {
				set[v] = true
			}
		case *ast.IndexExpr:
			if id, ok := x.X.(*ast.Ident); ok {
				if v := env.lookup(id.Name); v != nil {
					set[v] = true
				}
			}
		case *ast.SelectorExpr:
			if id, ok := x.X.(*ast.Ident); ok {
				if v := env.lookup(id.Name); v != nil && v.kind == cmSrc {
					set[v] = true
				} else {
					world = true
				}
			}
		}
	}
	for _, s := range list {
		ast.Inspect(s, func(n ast.Node) bool {
			switch x := n.(type) {
			case *ast.FuncLit:
				return false
			case *ast.DeferStmt:
				defers, world = true, true
			case *ast.AssignStmt:
				for _, l := range x.Lhs {
					mark(l)
				}
				if len(x.Rhs) == 1 {
					if c, ok := x.Rhs[0].(*ast.CallExpr); ok && t.src(c.Fun) == "json.Unmarshal" && len(c.Args) == 2 {
						if u, ok := c.Args[1].(*ast.UnaryExpr); ok {
							mark(u.X)
						}
					}
				}
			case *ast.CompositeLit:
				if p, n, _ := cmSel(x.Type); p == "gpkg" && n == "TargetGeopackage" {
					world = true
				}
			case *ast.CallExpr:
				if id, ok := x.Fun.(*ast.Ident); ok {
					if f, ok := t.funcs[id.Name]; ok && f.world {
						world = true
					}
				}
				if p, n, ok := cmSel(x.Fun); ok {
					switch p + "." + n {
					case "os.Remove", "processing.ProcessFeatures", "app.Run":
						world = true
					}
					switch n {
					case "CreateTables":
						world = true
					case "Init":
						if v := env.lookup(p); v != nil && v.kind == cmSrc {
							set[v] = true
						} else {
							world = true
						}
					}
				}
			}
			return true
		})
	}
	var out []*cmVar
	for v := range set {
		if v.kind == cmPathErr || v.kind == cmApp {
			continue
		}
		out = append(out, v)
	}
	sort.Slice(out, func(i, j int) bool { return out[i].seq < out[j].seq })
	var pre []*cmVar
	if world && t.cur.world {
		pre = append(pre, &cmVar{name: "wld", coq: "wld", kind: cmWorld})
	}
	if defers {
		pre = append(pre, &cmVar{name: "dfr", coq: "dfr", kind: cmDefers})
	}
	return append(pre, out...)
}

func cmTuple(vs []*cmVar) (pat, typ string) {
	if len(vs) == 0 {
		return "tt", "unit"
	}
	var ns, ts []string
	for _, v := range vs {
		ns = append(ns, v.coq)
		ts = append(ts, cmCoq[v.kind])
	}
	if len(vs) == 1 {
		return ns[0], ts[0]
	}
	return "(" + strings.Join(ns, ", ") + ")", "(" + strings.Join(ts, " * ") + ")%type"
}

func cmParam(vs []*cmVar) string {
	pat, typ := cmTuple(vs)
	switch len(vs) {
	case 0:
		return "(_ : unit)"
	case 1:
		return "(" + pat + " : " + typ + ")"
	}
	return "'(" + pat + " : " + typ + ")"
}

type cmCtxt struct {
	ret func(n ast.Node, val string) (string, error) // return statement
	brk func(kind token.Token) (string, error)       // break / continue
}

func (t *cmTr) stmts(list []ast.Stmt, env *cmEnv, cx *cmCtxt, k cmK) (string, error) {
	if len(list) == 0 {
		return k()
	}
	s, rest := list[0], list[1:]
	next := func() (string, error) { return t.stmts(rest, env, cx, k) }
	switch x := s.(type) {
	case *ast.ExprStmt:
		if fatal, ok := t.isLog(x); ok {
			c := x.X.(*ast.CallExpr)
			if !fatal {
				for _, a := range c.Args {
					if !t.pure(a) {
						return "", t.errf(a, "log argument with a call")
					}
				}
				r, err := next()
				return "  (* " + t.src(c.Fun) + " *)\n" + r, err
			}
			if len(c.Args) == 0 {
				return "", t.errf(c, "log.Fatal without an error")
			}
			for _, a := range c.Args[:len(c.Args)-1] {
				if _, ok := a.(*ast.BasicLit); !ok {
					return "", t.errf(a, "log.Fatal*: only a format literal may precede the error")
				}
			}
			e, k2, err := t.expr(env, c.Args[len(c.Args)-1], cmErr)
			if err != nil {
				return "", err
			}
			if k2 != cmErr {
				return "", t.errf(c, "log.Fatal* of %s", k2)
			}
			return t.flush() + "  MErr (fatal " + e + ")", nil
		}
		c, ok := x.X.(*ast.CallExpr)
		if !ok {
			return "", t.errf(s, "unsupported statement")
		}
		// source.Init(path) on a SourceGeopackage variable
		if se, ok := c.Fun.(*ast.SelectorExpr); ok && se.Sel.Name == "Init" {
			if id, ok := se.X.(*ast.Ident); ok {
				if v := env.lookup(id.Name); v != nil && v.kind == cmSrc {
					as, err := t.args(env, c, cmStr)
					if err != nil {
						return "", err
					}
					line := t.flush() + "  let " + v.coq + " := op_SourceInit L wld " + v.coq + " " + as[0] + " in\n"
					r, err := next()
					return line + r, err
				}
			}
		}
		cd, err := t.call(env, c)
		if err != nil {
			return "", err
		}
		if _, err := t.bindCall(c, cd, 0); err != nil {
			return "", err
		}
		line := t.flush()
		r, err := next()
		return line + r, err
	case *ast.DeclStmt:
		gd, ok := x.Decl.(*ast.GenDecl)
		if !ok || gd.Tok != token.VAR || len(gd.Specs) != 1 {
			return "", t.errf(s, "unsupported declaration")
		}
		vs := gd.Specs[0].(*ast.ValueSpec)
		if len(vs.Names) != 1 || len(vs.Values) != 0 || vs.Type == nil {
			return "", t.errf(s, "unsupported var declaration")
		}
		kind, err := t.kindOfType(vs.Type)
		if err != nil {
			return "", err
		}
		v, err := t.declare(env, s, vs.Names[0].Name, kind)
		if err != nil {
			return "", err
		}
		line := ""
		switch kind {
		case cmInts:
			line = "  let " + v.coq + " : " + cmCoq[kind] + " := [] in\n"
		case cmPathErr:
			line = "  (* " + t.src(s) + " *)\n"
		default:
			return "", t.errf(s, "var of %s", kind)
		}
		r, err := next()
		return line + r, err
	case *ast.AssignStmt:
		line, err := t.assign(env, x)
		if err != nil {
			return "", err
		}
		r, err := next()
		return line + r, err
	case *ast.DeferStmt:
		se, ok := x.Call.Fun.(*ast.SelectorExpr)
		if !ok || se.Sel.Name != "Close" || len(x.Call.Args) != 0 || !t.cur.defers {
			return "", t.errf(s, "unsupported defer")
		}
		r, k2, err := t.expr(env, se.X, "")
		if err != nil {
			return "", err
		}
		op := map[string]string{cmSrc: "op_SourceClose", cmTgtPtr: "op_TargetClose"}[k2]
		if op == "" {
			return "", t.errf(s, "defer Close of %s", k2)
		}
		line := t.flush() + "  let dfr := (fun wld => " + op + " L wld " + r + ") :: dfr in\n"
		rr, err := next()
		return line + rr, err
	case *ast.ReturnStmt:
		val := ""
		if len(x.Results) > 1 {
			return "", t.errf(s, "multiple results")
		}
		if len(x.Results) == 1 {
			if t.cur.resKind == "" {
				return "", t.errf(s, "unexpected result")
			}
			e, k2, err := t.expr(env, x.Results[0], t.cur.resKind)
			if err != nil {
				return "", err
			}
			if k2 != t.cur.resKind {
				return "", t.errf(s, "returns %s, declared %s", k2, t.cur.resKind)
			}
			val = e
		} else if t.cur.resKind != "" {
			return "", t.errf(s, "missing result")
		}
		pre := t.flush()
		r, err := cx.ret(s, val)
		return pre + r, err
	case *ast.BranchStmt:
		if x.Label != nil || cx.brk == nil {
			return "", t.errf(s, "unsupported branch")
		}
		return cx.brk(x.Tok)
	case *ast.IfStmt:
		return t.ifStmt(x, rest, env, cx, k)
	case *ast.RangeStmt:
		return t.rangeStmt(x, rest, env, cx, k)
	}
	return "", t.errf(s, "unsupported statement %T", s)
}

func (t *cmTr) assign(env *cmEnv, a *ast.AssignStmt) (string, error) {
	if a.Tok != token.DEFINE && a.Tok != token.ASSIGN {
		return "", t.errf(a, "unsupported assignment operator")
	}
	if len(a.Rhs) != 1 {
		return "", t.errf(a, "unsupported assignment")
	}
	bindVar := func(l ast.Expr, kind string) (string, bool, error) {
		id, ok := l.(*ast.Ident)
		if !ok {
			return "", false, t.errf(l, "unsupported assignment target")
		}
		if id.Name == "_" {
			return "_", false, nil
		}
		if a.Tok == token.DEFINE {
			if v, ok := env.vars[id.Name]; ok {
				if v.kind != kind {
					return "", false, t.errf(l, "%s: %s assigned to %s", id.Name, kind, v.kind)
				}
				return v.coq, false, nil
			}
			v, err := t.declare(env, l, id.Name, kind)
			if err != nil {
				return "", false, err
			}
			return v.coq, true, nil
		}
		v := env.lookup(id.Name)
		if v == nil {
			return "", false, t.errf(l, "unknown variable %s", id.Name)
		}
		if v.kind != kind {
			return "", false, t.errf(l, "%s: %s assigned to %s", id.Name, kind, v.kind)
		}
		return v.coq, false, nil
	}
	rhs := a.Rhs[0]
	// m[k] = v
	if ix, ok := a.Lhs[0].(*ast.IndexExpr); ok && len(a.Lhs) == 1 && a.Tok == token.ASSIGN {
		id, ok := ix.X.(*ast.Ident)
		if !ok {
			return "", t.errf(a, "unsupported map assignment")
		}
		mv := env.lookup(id.Name)
		if mv == nil || mv.kind != cmTgtMap {
			return "", t.errf(a, "assignment to an element of a non-map")
		}
		kx, kk, err := t.expr(env, ix.Index, cmInt)
		if err != nil {
			return "", err
		}
		vx, vk, err := t.expr(env, rhs, cmTgtPtr)
		if err != nil {
			return "", err
		}
		if kk != cmInt || vk != cmTgtPtr {
			return "", t.errf(a, "map assignment of %s under %s", vk, kk)
		}
		return t.flush() + "  let " + mv.coq + " := amap_set " + kx + " " + vx + " " + mv.coq + " in\n", nil
	}
	// x.Table = e
	if se, ok := a.Lhs[0].(*ast.SelectorExpr); ok && len(a.Lhs) == 1 && a.Tok == token.ASSIGN {
		id, ok := se.X.(*ast.Ident)
		if !ok || se.Sel.Name != "Table" {
			return "", t.errf(a, "unsupported field assignment")
		}
		ov := env.lookup(id.Name)
		vx, vk, err := t.expr(env, rhs, cmTable)
		if err != nil {
			return "", err
		}
		if ov == nil || vk != cmTable {
			return "", t.errf(a, "unsupported field assignment")
		}
		switch ov.kind {
		case cmSrc:
			return t.flush() + "  let " + ov.coq + " := set_so_table L " + ov.coq + " " + vx + " in\n", nil
		case cmTgtPtr:
			return t.flush() + "  mdo wld <- op_SetTargetTable L wld " + ov.coq + " " + vx + ";\n", nil
		}
		return "", t.errf(a, "Table of %s", ov.kind)
	}
	// _, ok := tms.TileMatrices[id]
	if ix, ok := rhs.(*ast.IndexExpr); ok && len(a.Lhs) == 2 {
		se, ok := ix.X.(*ast.SelectorExpr)
		if !ok || se.Sel.Name != "TileMatrices" {
			return "", t.errf(a, "unsupported comma-ok")
		}
		mx, mk, err := t.expr(env, se.X, cmTms)
		if err != nil {
			return "", err
		}
		kx, kk, err := t.expr(env, ix.Index, cmInt)
		if err != nil {
			return "", err
		}
		if id, ok := a.Lhs[0].(*ast.Ident); !ok || id.Name != "_" || mk != cmTms || kk != cmInt {
			return "", t.errf(a, "only `_, ok := tms.TileMatrices[id]` is supported")
		}
		n, _, err := bindVar(a.Lhs[1], cmBool)
		if err != nil {
			return "", err
		}
		return t.flush() + "  let " + n + " : bool := op_HasMatrix L " + mx + " " + kx + " in\n", nil
	}
	if c, ok := rhs.(*ast.CallExpr); ok {
		switch t.src(c.Fun) {
		case "json.Unmarshal":
			// err = json.Unmarshal([]byte(s), &ids)
			if len(a.Lhs) != 1 || len(c.Args) != 2 {
				return "", t.errf(a, "unsupported json.Unmarshal")
			}
			conv, ok1 := c.Args[0].(*ast.CallExpr)
			u, ok2 := c.Args[1].(*ast.UnaryExpr)
			if !ok1 || !ok2 || u.Op != token.AND || t.src(conv.Fun) != "[]byte" || len(conv.Args) != 1 {
				return "", t.errf(a, "only json.Unmarshal([]byte(s), &ids) is supported")
			}
			sx, sk, err := t.expr(env, conv.Args[0], cmStr)
			if err != nil {
				return "", err
			}
			id, ok := u.X.(*ast.Ident)
			if !ok || sk != cmStr {
				return "", t.errf(a, "only json.Unmarshal([]byte(s), &ids) is supported")
			}
			iv := env.lookup(id.Name)
			if iv == nil || iv.kind != cmInts {
				return "", t.errf(a, "json.Unmarshal into something that is not a []int variable")
			}
			n, _, err := bindVar(a.Lhs[0], cmErr)
			if err != nil {
				return "", err
			}
			return t.flush() + "  let '(" + iv.coq + ", " + n + ") := op_Unmarshal L " + sx + " in\n", nil
		case "os.Stat":
			if len(a.Lhs) != 2 {
				return "", t.errf(a, "unsupported os.Stat")
			}
			if id, ok := a.Lhs[0].(*ast.Ident); !ok || id.Name != "_" {
				return "", t.errf(a, "only `_, err = os.Stat(p)` is supported")
			}
			as, err := t.args(env, c, cmStr)
			if err != nil {
				return "", err
			}
			n, _, err := bindVar(a.Lhs[1], cmErr)
			if err != nil {
				return "", err
			}
			return t.flush() + "  let " + n + " : goerr := op_Stat L wld " + as[0] + " in\n", nil
		}
		if len(a.Lhs) > 1 {
			cd, err := t.call(env, c)
			if err != nil {
				return "", err
			}
			if len(cd.results) != len(a.Lhs) || cd.monadic || cd.world {
				return "", t.errf(a, "unsupported multi-valued call")
			}
			var ns []string
			for i, l := range a.Lhs {
				n, _, err := bindVar(l, cd.results[i])
				if err != nil {
					return "", err
				}
				ns = append(ns, n)
			}
			return t.flush() + "  let '(" + strings.Join(ns, ", ") + ") := " + cd.text + " in\n", nil
		}
	}
	if len(a.Lhs) != 1 {
		return "", t.errf(a, "unsupported assignment")
	}
	want := ""
	if id, ok := a.Lhs[0].(*ast.Ident); ok {
		if v := env.lookup(id.Name); v != nil {
			want = v.kind
		}
	}
	vx, vk, err := t.expr(env, rhs, want)
	if err != nil {
		return "", err
	}
	n, _, err := bindVar(a.Lhs[0], vk)
	if err != nil {
		return "", err
	}
	return t.flush() + "  let " + n + " : " + cmCoq[vk] + " := " + vx + " in\n", nil
}

func (t *cmTr) ifStmt(x *ast.IfStmt, rest []ast.Stmt, env *cmEnv, cx *cmCtxt, k cmK) (string, error) {
	// an `if` without else whose body only logs
	if x.Else == nil && x.Init == nil {
		only := len(x.Body.List) > 0
		for _, b := range x.Body.List {
			if f, ok := t.isLog(b); !ok || f {
				only = false
			} else {
				for _, a := range b.(*ast.ExprStmt).X.(*ast.CallExpr).Args {
					if !t.pure(a) {
						only = false
					}
				}
			}
		}
		if only {
			if !t.pure(x.Cond) {
				return "", t.errf(x, "condition of a log-only if is not pure")
			}
			r, err := t.stmts(rest, env, cx, k)
			return "  (* if " + t.src(x.Cond) + " : log only *)\n" + r, err
		}
	}
	scope := env.child()
	head := ""
	if x.Init != nil {
		as, ok := x.Init.(*ast.AssignStmt)
		if !ok {
			return "", t.errf(x, "unsupported if-init")
		}
		var err error
		initEnv := scope
		if as.Tok == token.ASSIGN {
			initEnv = env
		}
		head, err = t.assign(initEnv, as)
		if err != nil {
			return "", err
		}
	}
	cond, ck, err := t.expr(scope, x.Cond, cmBool)
	if err != nil {
		return "", err
	}
	if ck != cmBool {
		return "", t.errf(x, "condition of %s", ck)
	}
	head += t.flush()
	var elseList []ast.Stmt
	if x.Else != nil {
		eb, ok := x.Else.(*ast.BlockStmt)
		if !ok {
			return "", t.errf(x, "else-if is not supported")
		}
		elseList = eb.List
	}
	tA, tB := t.terminates(x.Body.List), x.Else != nil && t.terminates(elseList)
	restK := func() (string, error) { return t.stmts(rest, env, cx, k) }
	dead := func() (string, error) { return "", t.errf(x, "internal: continuation of a terminating branch") }
	var kA, kB cmK
	pre := ""
	switch {
	case tA && tB:
		kA, kB = dead, dead
	case tA:
		kA, kB = dead, restK
	case tB:
		kA, kB = restK, dead
	default:
		all := append(append([]ast.Stmt{}, x.Body.List...), elseList...)
		if x.Init != nil {
			all = append(all, x.Init)
		}
		vs := t.assigned(env, all)
		t.kn++
		name := fmt.Sprintf("k_%d", t.kn)
		body, err := restK()
		if err != nil {
			return "", err
		}
		pre = "  let " + name + " := fun " + cmParam(vs) + " =>\n" + body + " in\n"
		pat, _ := cmTuple(vs)
		callK := func() (string, error) { return "  (" + name + " " + pat + ")", nil }
		kA, kB = callK, callK
	}
	a, err := t.stmts(x.Body.List, scope.child(), cx, kA)
	if err != nil {
		return "", err
	}
	b, err := t.stmts(elseList, scope.child(), cx, kB)
	if err != nil {
		return "", err
	}
	return head + pre + "  if " + cond + " then (\n" + a + ")\n  else (\n" + b + ")", nil
}

func cmHasReturn(b *ast.BlockStmt) bool {
	has := false
	ast.Inspect(b, func(n ast.Node) bool {
		switch n.(type) {
		case *ast.FuncLit:
			return false
		case *ast.ReturnStmt:
			has = true
		}
		return true
	})
	return has
}

func (t *cmTr) rangeStmt(x *ast.RangeStmt, rest []ast.Stmt, env *cmEnv, cx *cmCtxt, k cmK) (string, error) {
	if x.Tok != token.DEFINE {
		return "", t.errf(x, "range without :=")
	}
	coll, ck, err := t.expr(env, x.X, "")
	if err != nil {
		return "", err
	}
	head := t.flush()
	scope := env.child()
	keyName, valName := "_", "_"
	if id, ok := x.Key.(*ast.Ident); ok {
		keyName = id.Name
	}
	if x.Value != nil {
		if id, ok := x.Value.(*ast.Ident); ok {
			valName = id.Name
		}
	}
	elemParam := ""
	switch ck {
	case cmInts, cmTables:
		ek := map[string]string{cmInts: cmInt, cmTables: cmTable}[ck]
		if keyName != "_" || valName == "_" {
			return "", t.errf(x, "only `for _, x := range slice` is supported")
		}
		v, err := t.declare(scope, x, valName, ek)
		if err != nil {
			return "", err
		}
		elemParam = "(" + v.coq + " : " + cmCoq[ek] + ")"
	case cmTgtMap:
		if valName == "_" {
			return "", t.errf(x, "range over a map without the value")
		}
		vv, err := t.declare(scope, x, valName, cmTgtPtr)
		if err != nil {
			return "", err
		}
		if keyName == "_" {
			coll = "(amap_values " + coll + ")"
			elemParam = "(" + vv.coq + " : tgtptr)"
		} else {
			kv, err := t.declare(scope, x, keyName, cmInt)
			if err != nil {
				return "", err
			}
			elemParam = "'((" + kv.coq + ", " + vv.coq + ") : (Z * tgtptr)%type)"
		}
	default:
		return "", t.errf(x, "range over %s", ck)
	}
	vs := t.assigned(env, x.Body.List)
	pat, _ := cmTuple(vs)
	withRet := cmHasReturn(x.Body)
	if withRet && (t.cur.world || t.cur.defers || cx.brk != nil) {
		return "", t.errf(x, "return inside a loop is only supported in functions without world, at the top level")
	}
	cont, brk, loop := "Cont", "Brk", "mrange_loop"
	if withRet {
		cont, brk, loop = "ContR", "BrkR", "mrange_loop_ret"
	}
	inner := &cmCtxt{
		ret: func(n ast.Node, val string) (string, error) {
			if !withRet {
				return "", t.errf(n, "internal: return in a loop without return")
			}
			return "  MOk (RetR " + val + ")", nil
		},
		brk: func(tok token.Token) (string, error) {
			if tok == token.BREAK {
				return "  MOk (" + brk + " " + pat + ")", nil
			}
			return "  MOk (" + cont + " " + pat + ")", nil
		},
	}
	body, err := t.stmts(x.Body.List, scope.child(), inner, func() (string, error) { return "  MOk (" + cont + " " + pat + ")", nil })
	if err != nil {
		return "", err
	}
	call := loop + " (fun " + elemParam + " " + cmParam(vs) + " =>\n" + body + ") " + coll + " " + pat
	after, err := t.stmts(rest, env, cx, k)
	if err != nil {
		return "", err
	}
	if withRet {
		t.tmp++
		r := fmt.Sprintf("r_%d", t.tmp)
		donePat := "_"
		if len(vs) > 0 {
			donePat = pat
		}
		return head + "  mdo " + r + " <- " + call + ";\n  match " + r + " with\n  | Return r => MOk r\n  | Done " + donePat + " =>\n" + after + "\n  end", nil
	}
	bind := pat
	if len(vs) == 0 {
		bind = "_"
	}
	return head + "  mdo " + bind + " <- " + call + ";\n" + after, nil
}

// ---- functions ----

func (t *cmTr) function(f *cmFunc) error {
	if f.done {
		return nil
	}
	if f.busy {
		return fmt.Errorf("main.go: recursion through %s", f.name)
	}
	f.busy = true
	savedCur, savedPre, savedTmp, savedKn := t.cur, t.pre, t.tmp, t.kn
	t.cur, t.pre, t.tmp, t.kn = f, nil, 0, 0
	defer func() { t.cur, t.pre, t.tmp, t.kn = savedCur, savedPre, savedTmp, savedKn }()
	env := &cmEnv{vars: map[string]*cmVar{}}
	hdr := "Definition " + f.coq
	if f.world {
		hdr += " (wld : world L)"
	}
	for _, p := range f.params {
		k, err := t.kindOfType(p.Type)
		if err != nil {
			return err
		}
		for _, n := range p.Names {
			v, err := t.declare(env, n, n.Name, k)
			if err != nil {
				return err
			}
			hdr += " (" + v.coq + " : " + cmCoq[k] + ")"
		}
	}
	if f.isMain {
		env.vars["app"] = &cmVar{name: "app", kind: cmApp}
		hdr += " (v_c : cctx)"
	}
	f.resKind = ""
	if f.results != nil {
		if len(f.results.List) != 1 || len(f.results.List[0].Names) > 1 {
			return t.errf(f.body, "%s: at most one unnamed result is supported", f.name)
		}
		k, err := t.kindOfType(f.results.List[0].Type)
		if err != nil {
			return err
		}
		f.resKind = k
	}
	rt := ""
	switch {
	case f.world && f.resKind != "":
		rt = "(world L * " + cmCoq[f.resKind] + ")"
	case f.world:
		rt = "(world L)"
	case f.resKind != "":
		rt = cmCoq[f.resKind]
		if strings.Contains(rt, " ") {
			rt = "(" + rt + ")"
		}
	default:
		return t.errf(f.body, "%s: a function without result and without effect", f.name)
	}
	hdr += " : mres " + rt + " :=\n"
	wldOut := "wld"
	if f.defers {
		hdr += "  let dfr : list (world L -> world L) := [] in\n"
		wldOut = "run_defers L dfr wld"
	}
	cx := &cmCtxt{ret: func(n ast.Node, val string) (string, error) {
		switch {
		case f.world && val != "":
			return "  MOk (" + wldOut + ", " + val + ")", nil
		case f.world:
			return "  MOk (" + wldOut + ")", nil
		}
		return "  MOk " + val, nil
	}}
	end := func() (string, error) {
		if f.resKind != "" {
			return "", t.errf(f.body, "%s: missing return", f.name)
		}
		return "  MOk (" + wldOut + ")", nil
	}
	body, err := t.stmts(f.body.List, env, cx, end)
	if err != nil {
		return err
	}
	what := "func " + f.name
	if f.name == "Action" {
		what = "app.Action = func(c *cli.Context) error"
	}
	if f.isMain {
		what = "the end of func main: app.Run, log.Fatal"
	}
	f.text = fmt.Sprintf("(* main.go:%d %s *)\n", t.fset.Position(f.pos).Line, what) + hdr + body + ".\n\n"
	f.done, f.busy = true, false
	t.order = append(t.order, f)
	return nil
}

// ---- flags declared in main ----

type cmFlag struct {
	name, kind, value string
	required          bool
}

func (t *cmTr) flagDecls(e ast.Expr) ([]cmFlag, error) {
	cl, ok := e.(*ast.CompositeLit)
	if !ok {
		return nil, t.errf(e, "app.Flags must be a composite literal")
	}
	var out []cmFlag
	for _, el := range cl.Elts {
		u, ok := el.(*ast.UnaryExpr)
		if !ok || u.Op != token.AND {
			return nil, t.errf(el, "flag must be &cli.XFlag{..}")
		}
		fl, ok := u.X.(*ast.CompositeLit)
		if !ok {
			return nil, t.errf(el, "flag must be &cli.XFlag{..}")
		}
		p, n, _ := cmSel(fl.Type)
		if p != "cli" || !strings.HasSuffix(n, "Flag") {
			return nil, t.errf(el, "flag must be &cli.XFlag{..}")
		}
		f := cmFlag{kind: strings.TrimSuffix(n, "Flag")}
		for _, fe := range fl.Elts {
			kv, ok := fe.(*ast.KeyValueExpr)
			if !ok {
				return nil, t.errf(fe, "flag fields must be named")
			}
			switch t.src(kv.Key) {
			case "Name":
				s, err := t.flagName(kv.Value)
				if err != nil {
					return nil, err
				}
				f.name = s
			case "Required":
				f.required = t.src(kv.Value) == "true"
			case "Value":
				f.value = t.src(kv.Value)
			}
		}
		if f.name == "" {
			return nil, t.errf(el, "flag without name")
		}
		out = append(out, f)
	}
	return out, nil
}

func genCliMain(repo string) (string, error) {
	fset := token.NewFileSet()
	mainF, err := parser.ParseFile(fset, filepath.Join(repo, "main.go"), nil, 0)
	if err != nil {
		return "", err
	}
	t := &cmTr{fset: fset, consts: map[string]string{}, funcs: map[string]*cmFunc{}, imports: map[string]string{}}
	for _, im := range mainF.Imports {
		ip, err := strconv.Unquote(im.Path.Value)
		if err != nil {
			return "", fmt.Errorf("main.go: unreadable import %s", im.Path.Value)
		}
		name := ip
		if i := strings.LastIndex(ip, "/"); i >= 0 {
			name = ip[i+1:]
		}
		if im.Name != nil {
			name = im.Name.Name
		}
		t.imports[name] = ip
	}
	// tms20.TMID must be an alias of int
	tmsF, err := parser.ParseFile(fset, filepath.Join(repo, "tms20", "tms20.go"), nil, 0)
	if err != nil {
		return "", err
	}
	alias := false
	ast.Inspect(tmsF, func(n ast.Node) bool {
		if ts, ok := n.(*ast.TypeSpec); ok && ts.Name.Name == "TMID" && ts.Assign != token.NoPos {
			if id, ok := ts.Type.(*ast.Ident); ok && id.Name == "int" {
				alias = true
			}
		}
		return true
	})
	if !alias {
		return "", fmt.Errorf("tms20.TMID is not an alias of int")
	}
	// snap.Config: exactly three bool fields
	snapF, err := parser.ParseFile(fset, filepath.Join(repo, "snap", "snap.go"), nil, 0)
	if err != nil {
		return "", err
	}
	ast.Inspect(snapF, func(n ast.Node) bool {
		if ts, ok := n.(*ast.TypeSpec); ok && ts.Name.Name == "Config" {
			if st, ok := ts.Type.(*ast.StructType); ok {
				var names []string
				for _, f := range st.Fields.List {
					if id, ok := f.Type.(*ast.Ident); ok && id.Name == "bool" {
						for _, n := range f.Names {
							names = append(names, n.Name)
						}
					} else {
						names = append(names, "?")
					}
				}
				t.cfgOK = strings.Join(names, ",") == "KeepPointsAndLines,IgnoreOutsideGrid,ReverseWindingOrder"
			}
		}
		return true
	})
	var flags []cmFlag
	for _, d := range mainF.Decls {
		switch x := d.(type) {
		case *ast.GenDecl:
			if x.Tok != token.CONST {
				continue
			}
			for _, sp := range x.Specs {
				vs := sp.(*ast.ValueSpec)
				for i, n := range vs.Names {
					if i < len(vs.Values) {
						if bl, ok := vs.Values[i].(*ast.BasicLit); ok && bl.Kind == token.STRING {
							if s, err := strconv.Unquote(bl.Value); err == nil {
								t.consts[n.Name] = s
							}
						}
					}
				}
			}
		case *ast.FuncDecl:
			if x.Recv != nil {
				continue
			}
			f := &cmFunc{name: x.Name.Name, coq: "gen_" + x.Name.Name, params: x.Type.Params.List, results: x.Type.Results, body: x.Body, pos: x.Pos()}
			if x.Name.Name == "main" {
				f.isMain, f.world, f.params = true, true, nil
			}
			t.funcs[x.Name.Name] = f
		}
	}
	mf := t.funcs["main"]
	if mf == nil || len(mf.body.List) < 3 {
		return "", fmt.Errorf("main.go: func main not found")
	}
	if _, clash := t.funcs["Action"]; clash {
		return "", fmt.Errorf("main.go: a function named Action exists")
	}
	// the head of main: app := cli.NewApp(); app.X = ..; the last two statements are translated
	head := mf.body.List[:len(mf.body.List)-2]
	for i, s := range head {
		as, ok := s.(*ast.AssignStmt)
		if !ok || len(as.Lhs) != 1 || len(as.Rhs) != 1 {
			return "", t.errf(s, "main: only assignments to app are supported before app.Run")
		}
		if i == 0 {
			if as.Tok != token.DEFINE || t.src(as.Lhs[0]) != "app" || t.src(as.Rhs[0]) != "cli.NewApp()" {
				return "", t.errf(s, "main must start with app := cli.NewApp()")
			}
			continue
		}
		p, n, ok := cmSel(as.Lhs[0])
		if !ok || p != "app" || as.Tok != token.ASSIGN {
			return "", t.errf(s, "main: only assignments to fields of app are supported before app.Run")
		}
		switch n {
		case "Name", "Usage", "Version":
		case "Flags":
			if flags, err = t.flagDecls(as.Rhs[0]); err != nil {
				return "", err
			}
		case "Action":
			fl, ok := as.Rhs[0].(*ast.FuncLit)
			if !ok {
				return "", t.errf(s, "app.Action must be a function literal")
			}
			if t.funcs["Action"] != nil {
				return "", t.errf(s, "app.Action assigned twice")
			}
			t.funcs["Action"] = &cmFunc{name: "Action", coq: "gen_Action", params: fl.Type.Params.List, results: fl.Type.Results, body: fl.Body, pos: fl.Pos()}
		default:
			return "", t.errf(s, "main: assignment to app.%s is not supported", n)
		}
	}
	mf.body = &ast.BlockStmt{Lbrace: mf.body.Lbrace, List: mf.body.List[len(mf.body.List)-2:], Rbrace: mf.body.Rbrace}
	t.scanEffects()
	if err := t.function(mf); err != nil {
		return "", err
	}
	var b strings.Builder
	b.WriteString("(* GENERATED by /verif/translator (G2, command line tool) from main.go on every run -- do not edit.\n")
	b.WriteString("   Control flow, the order of the calls, every error exit, which flag is read for which argument, the map of targets\n")
	b.WriteString("   and the defers are derived from the AST.\n")
	b.WriteString("   MODELLED (trusted) calls, each accepted only in exactly this shape; the operations are defined in Cli/MainOps.v:\n")
	for _, m := range cmModelled {
		b.WriteString("     " + m + "\n")
	}
	b.WriteString("*)\n")
	b.WriteString("From Coq Require Import ZArith NArith List Bool String Ascii.\nFrom Texel Require Import Gpkg.Model Cli.Model Cli.MainOps.\nImport ListNotations.\nOpen Scope Z_scope.\n\n")
	b.WriteString("(* the flags declared in main (app.Flags): name, kind, required, default *)\nDefinition gen_flag_decls : list (string * string * bool * string) := [\n")
	for i, f := range flags {
		sep := ";"
		if i == len(flags)-1 {
			sep = ""
		}
		n, _ := cmCoqString(f.name)
		k, _ := cmCoqString(f.kind)
		v, ok := cmCoqString(f.value)
		if !ok {
			return "", fmt.Errorf("main.go: default value of flag %s is not printable", f.name)
		}
		fmt.Fprintf(&b, "  (%s, %s, %v, %s)%s\n", n, k, f.required, v, sep)
	}
	b.WriteString("].\n\n(* the flags the Action reads: accessor (= kind), name *)\nDefinition gen_flag_uses : list (string * string) := [\n")
	for i, u := range t.uses {
		sep := ";"
		if i == len(t.uses)-1 {
			sep = ""
		}
		a, _ := cmCoqString(u[0])
		n, _ := cmCoqString(u[1])
		fmt.Fprintf(&b, "  (%s, %s)%s\n", a, n, sep)
	}
	b.WriteString("].\n\nSection Gen.\nVariable L : lib.\n\n")
	for _, f := range t.order {
		b.WriteString(f.text)
	}
	b.WriteString("End Gen.\n")
	return b.String(), nil
}
