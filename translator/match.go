package main

import (
	"fmt"
	"go/ast"
	"go/parser"
	"go/token"
	"go/types"
	"path/filepath"
	"sort"
	"strings"
)

// ---------------------------------------------------------------------------
// G2: matchInnersToPolygons of snap.go -> gen/MatchGen.v
//
// Same target as kmp.go / kmpdedup.go (the error monad `res`, range loops -> range_loop of Prelude/GoLoop.v,
// a[i] -> idx, a[i] = v -> setidx), with a walker of its own because this function needs constructs the `sg`
// walker does not have:
//   * labelled loops and `continue L` / `break L` out of nested range loops.  Every loop is a range_loop whose
//     "return" type R is the type of the value the ENCLOSING body computes: the function result at the top,
//     `rctl S' R'` inside the body of a loop with state S'.  `return v` at depth d is RRet^d v, `continue L` is
//     RRet^j (Cont state_L), and after the loop `Ret r => Ok r` hands the outcome on unchanged.
//   * `for i := range s` (index only): a range_loop over go_indices s (the length is read once).
//   * if without else / with branches that both fall through: the assigned variables are joined
//     (do (x, y) <- (if c then ..; Ok (x, y) else Ok (x, y))).
//   * x, _ := f(..) for the two multi-valued helpers, `var x T` for slices, `x == nil` on a `var x []int`
//     (such a variable is an option (list Z)), a[k] = append(a[k], x), v = append(v, x), composite
//     literals [][][2]float64{x}.
// Library calls and helpers that are MODELLED (kept as calls of the model's function after the AST has been
// checked for the exact callee, import path and signature) are in mgExternals and mgMethods below; each
// one that is used is listed at the top of the generated file.  Everything else is a translation error.
// ---------------------------------------------------------------------------

const (
	mInt   = "int"
	mUint  = "uint" // counters: exact Z (only +, comparisons; no subtraction)
	mBool  = "bool"
	mPt    = "pt"
	mPts   = "pts"
	mRings = "rings"
	mPolys = "polys"
	mInts  = "ints"
	mNInts = "nints" // a []int variable that is compared with nil: option (list Z)
	mOMap  = "omap"  // *orderedmap.OrderedMap[int, uint]
	mIMap  = "imap"  // map[int]int (matchmap.go)
	mNil   = "nil"
)

var mgCoq = map[string]string{mInt: "Z", mUint: "Z", mBool: "bool", mPt: "pt", mPts: "(list pt)", mRings: "(list (list pt))",
	mPolys: "(list (list (list pt)))", mInts: "(list Z)", mNInts: "(option (list Z))", mOMap: "omap", mIMap: "imap"}

func mgElem(ty string) (string, bool) {
	switch ty {
	case mPts:
		return mPt, true
	case mRings:
		return mPts, true
	case mPolys:
		return mRings, true
	case mInts:
		return mInt, true
	}
	return "", false
}

type mgResult struct {
	ty   string
	proj string // how the value is read from the model's result ("%s" = the result); "" = not provided by the model
}

// helpers kept as the MODEL's functions.  `local`: a function of snap.go, else a function of mapslicehelp.go.
type mgExternal struct {
	local      bool
	wantType   string // types.ExprString of the declaration's type
	wantTParam string // its type parameters, "name constraint;" each
	params     []string
	results    []mgResult
	coq        string // applied to the arguments
	monadic    bool   // the model's function is in `res`
	nilIfEmpty bool   // the Go function returns nil exactly when the result is empty (go-sortedmap Keys())
	doc        string
}

var mgExternals = map[string]mgExternal{
	"ringContains": {local: true, wantType: "func(ring [][2]float64, point [2]float64) (contains, onBoundary bool)",
		params: []string{mPts, mPt}, results: []mgResult{{mBool, "(fst %s)"}, {mBool, "(snd %s)"}}, coq: "ringContains", monadic: true,
		doc: "ringContains(ring, point) (snap.go; float predicate geomhelp.RayIntersect)  ->  Snap.Model.ringContains : res (bool * bool)"},
	"sortPolyIdxsByOuterAreaDesc": {local: true, wantType: "func(polygons [][][][2]float64) []int",
		params: []string{mPolys}, results: []mgResult{{mInts, "%s"}}, coq: "sortPolyIdxsByOuterAreaDesc", nilIfEmpty: true,
		doc: "sortPolyIdxsByOuterAreaDesc(polygons) (snap.go; go-sortedmap + float Shoelace)  ->  Snap.Model.sortPolyIdxsByOuterAreaDesc; assigned to a nil-checked variable through nilable_of_keys (Keys() of an empty sorted map is nil)"},
	"ringsAreEqual": {local: true, wantType: "func(ringI, ringJ [][2]float64, iIsOuter, jIsOuter bool) bool",
		params: []string{mPts, mPts, mBool, mBool}, results: []mgResult{{mBool, "%s"}}, coq: "ringsAreEqual", monadic: true,
		doc: "ringsAreEqual(ringI, ringJ, iIsOuter, jIsOuter) (snap.go)  ->  Snap.Model.ringsAreEqual : res bool (Err where ringI[0] panics); tied to the source on its own by gen/RingHelpersGen.v + Snap/ProofsGenRingHelpers.v"},
	"mapslicehelp.FindLastKeyWithMaxValue": {wantTParam: "K comparable;V constraints.Ordered;", wantType: "func(m *orderedmap.OrderedMap[K, V]) (maxK K, maxV V, numWinners uint)",
		params: []string{mOMap}, results: []mgResult{{mInt, "(fst %s)"}, {"", ""}, {mUint, "(snd %s)"}}, coq: "maxWinners",
		doc: "mapslicehelp.FindLastKeyWithMaxValue(m)  ->  Snap.Model.maxWinners m = (maxK, numWinners); maxV is not modelled and must be discarded (_)"},
	"mapslicehelp.LastMatch": {wantTParam: "T comparable;", wantType: "func(haystack, needle []T) T",
		params: []string{mInts, mInts}, results: []mgResult{{mInt, "%s"}}, coq: "lastMatch",
		doc: "mapslicehelp.LastMatch(haystack, needle) on []int  ->  Snap.Model.lastMatch"},
	"mapslicehelp.OrderedMapKeys": {wantTParam: "K comparable;V any;", wantType: "func(m *orderedmap.OrderedMap[K, V]) []K",
		params: []string{mOMap}, results: []mgResult{{mInts, "%s"}}, coq: "map fst",
		doc: "mapslicehelp.OrderedMapKeys(m)  ->  map fst m (keys in insertion order)"},
	"mapslicehelp.ReverseClone": {wantTParam: "S ~[]E;E any;", wantType: "func(s S) S",
		params: []string{mPts}, results: []mgResult{{mPts, "%s"}}, coq: "@rev pt",
		doc: "mapslicehelp.ReverseClone(ring)  ->  rev ring"},
}

const mgOrderedMapPath = "github.com/wk8/go-ordered-map/v2"

type mgVal struct {
	code string
	ty   string
	lit  bool
}

type mgEnv struct {
	order []string
	vars  map[string]string
}

func (e *mgEnv) clone() *mgEnv {
	c := &mgEnv{order: append([]string{}, e.order...), vars: map[string]string{}}
	for k, v := range e.vars {
		c.vars[k] = v
	}
	return c
}

func (e *mgEnv) declare(n, ty string) {
	if _, ok := e.vars[n]; !ok {
		e.order = append(e.order, n)
	}
	e.vars[n] = ty
}

type mgFrame struct {
	label string
	tuple string
}

type mgCtx struct {
	frames []mgFrame // enclosing loops, innermost last
	bodyTy string    // Coq type of the value the current body computes (inside `res`)
}

type mg struct {
	sg         *sg
	helpers    map[string]*ast.FuncDecl // functions of mapslicehelp.go
	helperPkgs map[string]string        // imports of mapslicehelp.go
	nilChecked map[string]bool          // variables compared with nil
	used       map[string]bool          // modelled mappings that were used (for the header)
	lenVars    map[string]bool          // variables defined once as len(..) (matchmap.go)
	retTy      string
	n          int
}

func (m *mg) fresh(p string) string {
	m.n++
	return fmt.Sprintf("%s_%d", p, m.n)
}

func (m *mg) goType(x ast.Expr, name string) (string, error) {
	switch types.ExprString(x) {
	case "int":
		return mInt, nil
	case "uint":
		return mUint, nil
	case "bool":
		return mBool, nil
	case "[2]float64":
		return mPt, nil
	case "[][2]float64":
		return mPts, nil
	case "[][][2]float64":
		return mRings, nil
	case "[][][][2]float64":
		return mPolys, nil
	case "[]int":
		if m.nilChecked[name] {
			return mNInts, nil
		}
		return mInts, nil
	}
	return "", fmt.Errorf("unsupported type %s", types.ExprString(x))
}

func (m *mg) shadowed(env *mgEnv, names ...string) bool {
	for _, n := range names {
		if _, ok := env.vars[n]; ok {
			return true
		}
		if _, ok := m.sg.funcs[n]; ok {
			return true
		}
	}
	return false
}

func (m *mg) conv(v mgVal, ty string) (mgVal, error) {
	switch {
	case v.ty == ty:
		return mgVal{code: v.code, ty: ty}, nil
	case v.lit && (ty == mInt || ty == mUint):
		if ty == mUint && strings.HasPrefix(v.code, "(-") {
			return mgVal{}, fmt.Errorf("negative constant used as uint")
		}
		return mgVal{code: v.code, ty: ty}, nil
	case v.ty == mNInts && ty == mInts:
		return mgVal{code: "(nilable_get " + v.code + ")", ty: ty}, nil
	}
	return mgVal{}, fmt.Errorf("type mismatch: %s used as %s", v.ty, ty)
}

// pure: the expression is evaluated without effects and cannot panic (so it may be dropped or evaluated early)
func (m *mg) pureArg(env *mgEnv, x ast.Expr) error {
	switch x := x.(type) {
	case *ast.BasicLit:
		return nil
	case *ast.Ident:
		if x.Name == "true" || x.Name == "false" {
			return nil
		}
		if _, ok := env.vars[x.Name]; ok {
			return nil
		}
	}
	return fmt.Errorf("argument %s is not a plain variable or literal", types.ExprString(x))
}

func (m *mg) expr(env *mgEnv, x ast.Expr, binds *[]string) (mgVal, error) {
	switch x := x.(type) {
	case *ast.ParenExpr:
		return m.expr(env, x.X, binds)
	case *ast.BasicLit:
		if x.Kind != token.INT {
			return mgVal{}, fmt.Errorf("unsupported literal %s", x.Value)
		}
		z, err := parseIntLit(x.Value)
		if err != nil {
			return mgVal{}, err
		}
		return mgVal{code: lgLit(z), ty: mInt, lit: true}, nil
	case *ast.Ident:
		if t, ok := env.vars[x.Name]; ok {
			return mgVal{code: "v_" + x.Name, ty: t}, nil
		}
		switch x.Name {
		case "true", "false":
			return mgVal{code: x.Name, ty: mBool}, nil
		case "nil":
			return mgVal{code: "nil", ty: mNil}, nil
		}
		return mgVal{}, fmt.Errorf("unknown identifier %s", x.Name)
	case *ast.UnaryExpr:
		v, err := m.expr(env, x.X, binds)
		if err != nil {
			return mgVal{}, err
		}
		if x.Op == token.NOT && v.ty == mBool {
			return mgVal{code: "(negb " + v.code + ")", ty: mBool}, nil
		}
		return mgVal{}, fmt.Errorf("unsupported unary %s on %s", x.Op, v.ty)
	case *ast.BinaryExpr:
		return m.binary(env, x, binds)
	case *ast.IndexExpr:
		a, err := m.expr(env, x.X, binds)
		if err != nil {
			return mgVal{}, err
		}
		el, ok := mgElem(a.ty)
		if !ok {
			return mgVal{}, fmt.Errorf("index on %s", a.ty)
		}
		i, err := m.expr(env, x.Index, binds)
		if err != nil {
			return mgVal{}, err
		}
		if i, err = m.conv(i, mInt); err != nil {
			return mgVal{}, fmt.Errorf("index: %v", err)
		}
		t := m.fresh("t")
		*binds = append(*binds, fmt.Sprintf("do %s <- idx %s %s;", t, a.code, i.code))
		return mgVal{code: t, ty: el}, nil
	case *ast.CompositeLit:
		ty, err := m.goType(x.Type, "")
		if err != nil {
			return mgVal{}, err
		}
		el, ok := mgElem(ty)
		if !ok || ty == mInts {
			return mgVal{}, fmt.Errorf("unsupported composite literal of %s", ty)
		}
		var items []string
		for _, e := range x.Elts {
			if _, keyed := e.(*ast.KeyValueExpr); keyed {
				return mgVal{}, fmt.Errorf("keyed slice literal")
			}
			v, err := m.expr(env, e, binds)
			if err != nil {
				return mgVal{}, err
			}
			if v.ty != el {
				return mgVal{}, fmt.Errorf("%s literal with an element of type %s", ty, v.ty)
			}
			items = append(items, v.code)
		}
		if len(items) == 0 {
			return mgVal{code: "(@nil " + mgCoq[el] + ")", ty: ty}, nil
		}
		return mgVal{code: "[" + strings.Join(items, "; ") + "]", ty: ty}, nil
	case *ast.CallExpr:
		vs, err := m.call(env, x, binds)
		if err != nil {
			return mgVal{}, err
		}
		if len(vs) != 1 {
			return mgVal{}, fmt.Errorf("%s: multi-valued call used as a single value", types.ExprString(x.Fun))
		}
		return vs[0], nil
	}
	return mgVal{}, fmt.Errorf("unsupported expression %T", x)
}

func (m *mg) binary(env *mgEnv, x *ast.BinaryExpr, binds *[]string) (mgVal, error) {
	if x.Op == token.LAND || x.Op == token.LOR {
		a, err := m.expr(env, x.X, binds)
		if err != nil {
			return mgVal{}, err
		}
		var rb []string
		b, err := m.expr(env, x.Y, &rb)
		if err != nil {
			return mgVal{}, err
		}
		if a.ty != mBool || b.ty != mBool {
			return mgVal{}, fmt.Errorf("%s on %s, %s", x.Op, a.ty, b.ty)
		}
		if len(rb) != 0 {
			return mgVal{}, fmt.Errorf("%s with a right operand that can panic is not supported", x.Op)
		}
		op := "&&"
		if x.Op == token.LOR {
			op = "||"
		}
		return mgVal{code: "(" + a.code + " " + op + " " + b.code + ")", ty: mBool}, nil
	}
	a, err := m.expr(env, x.X, binds)
	if err != nil {
		return mgVal{}, err
	}
	b, err := m.expr(env, x.Y, binds)
	if err != nil {
		return mgVal{}, err
	}
	// x == nil / x != nil on a nil-checked []int
	if a.ty == mNInts && b.ty == mNil && (x.Op == token.EQL || x.Op == token.NEQ) {
		if x.Op == token.EQL {
			return mgVal{code: "(is_nil " + a.code + ")", ty: mBool}, nil
		}
		return mgVal{code: "(negb (is_nil " + a.code + "))", ty: mBool}, nil
	}
	switch {
	case a.lit && !b.lit:
		if a, err = m.conv(a, b.ty); err != nil {
			return mgVal{}, err
		}
	case b.lit && !a.lit:
		if b, err = m.conv(b, a.ty); err != nil {
			return mgVal{}, err
		}
	}
	if a.ty != b.ty {
		return mgVal{}, fmt.Errorf("mismatched operand types %s %s %s", a.ty, x.Op, b.ty)
	}
	in := func(op, ty string) (mgVal, error) {
		return mgVal{code: "(" + a.code + " " + op + " " + b.code + ")", ty: ty, lit: false}, nil
	}
	if a.ty == mInt || a.ty == mUint {
		switch x.Op {
		case token.ADD:
			return in("+", a.ty)
		case token.SUB:
			if a.ty == mInt {
				return in("-", a.ty)
			}
		case token.MUL:
			if a.ty == mInt {
				return in("*", a.ty)
			}
		case token.EQL:
			return in("=?", mBool)
		case token.NEQ:
			return mgVal{code: "(negb (" + a.code + " =? " + b.code + "))", ty: mBool}, nil
		case token.LSS:
			return in("<?", mBool)
		case token.LEQ:
			return in("<=?", mBool)
		case token.GTR:
			return mgVal{code: "(" + b.code + " <? " + a.code + ")", ty: mBool}, nil
		case token.GEQ:
			return mgVal{code: "(" + b.code + " <=? " + a.code + ")", ty: mBool}, nil
		}
	}
	return mgVal{}, fmt.Errorf("unsupported operator %s on %s", x.Op, a.ty)
}

// checkExternal: the callee named key is the function the mapping was written for.
func (m *mg) checkExternal(env *mgEnv, key string, ext mgExternal) error {
	var fd *ast.FuncDecl
	if ext.local {
		if _, isVar := env.vars[key]; isVar {
			return fmt.Errorf("%s is a variable here", key)
		}
		fd = m.sg.funcs[key]
	} else {
		pkg, name, _ := strings.Cut(key, ".")
		if m.shadowed(env, pkg) || !m.sg.imports[pkg] {
			return fmt.Errorf("%s is not the package github.com/pdok/texel/mapslicehelp here", pkg)
		}
		fd = m.helpers[name]
		if m.helperPkgs["orderedmap"] != mgOrderedMapPath {
			return fmt.Errorf("mapslicehelp.go: orderedmap is not %s", mgOrderedMapPath)
		}
	}
	if fd == nil || fd.Body == nil {
		return fmt.Errorf("%s: declaration not found", key)
	}
	tp := ""
	if fd.Type.TypeParams != nil {
		for _, f := range fd.Type.TypeParams.List {
			for _, n := range f.Names {
				tp += n.Name + " " + types.ExprString(f.Type) + ";"
			}
		}
	}
	if got := types.ExprString(fd.Type); got != ext.wantType || tp != ext.wantTParam {
		return fmt.Errorf("%s has the type [%s] %s, the mapping to the model was written for [%s] %s", key, tp, got, ext.wantTParam, ext.wantType)
	}
	return nil
}

// call: the values of a call (one per result; ty "" = a result the model does not provide).
func (m *mg) call(env *mgEnv, x *ast.CallExpr, binds *[]string) ([]mgVal, error) {
	if x.Ellipsis != token.NoPos {
		return nil, fmt.Errorf("unsupported call with ...")
	}
	fun := types.ExprString(x.Fun)
	// builtins
	if id, ok := x.Fun.(*ast.Ident); ok && id.Name == "len" && !m.shadowed(env, "len") {
		if len(x.Args) != 1 {
			return nil, fmt.Errorf("bad len")
		}
		a, err := m.expr(env, x.Args[0], binds)
		if err != nil {
			return nil, err
		}
		if a.ty == mNInts {
			a, _ = m.conv(a, mInts)
		}
		if _, ok := mgElem(a.ty); !ok {
			return nil, fmt.Errorf("len of %s", a.ty)
		}
		return []mgVal{{code: "(zlen " + a.code + ")", ty: mInt}}, nil
	}
	// make(map[int]int, n): an empty map (matchmap.go)
	if id, ok := x.Fun.(*ast.Ident); ok && id.Name == "make" && !m.shadowed(env, "make") {
		return m.makeIntMap(env, x, binds)
	}
	// orderedmap.New[int, uint](orderedmap.WithCapacity[int, uint](n)): an empty map; the capacity is only a hint
	if fun == "orderedmap.New[int, uint]" {
		if m.shadowed(env, "orderedmap") || m.sg.pkgs["orderedmap"] != mgOrderedMapPath {
			return nil, fmt.Errorf("orderedmap is not %s here", mgOrderedMapPath)
		}
		switch len(x.Args) {
		case 0:
		case 1:
			c, ok := x.Args[0].(*ast.CallExpr)
			if !ok || types.ExprString(c.Fun) != "orderedmap.WithCapacity[int, uint]" || len(c.Args) != 1 || c.Ellipsis != token.NoPos {
				return nil, fmt.Errorf("orderedmap.New: the only supported option is orderedmap.WithCapacity[int, uint](n)")
			}
			if err := m.pureArg(env, c.Args[0]); err != nil {
				return nil, fmt.Errorf("orderedmap.WithCapacity: %v", err)
			}
			if v, err := m.expr(env, c.Args[0], binds); err != nil || (v.ty != mInt) {
				return nil, fmt.Errorf("orderedmap.WithCapacity: the capacity is not an int")
			}
		default:
			return nil, fmt.Errorf("orderedmap.New: unsupported options (initial data would not give an empty map)")
		}
		m.used["orderedmap.New[int, uint](orderedmap.WithCapacity[int, uint](n))  ->  [] : omap (MatchSupport.v; the capacity is a hint only)"] = true
		return []mgVal{{code: "(@nil (Z * Z))", ty: mOMap}}, nil
	}
	// methods of the ordered map
	if sel, ok := x.Fun.(*ast.SelectorExpr); ok {
		if recv, ok := sel.X.(*ast.Ident); ok && env.vars[recv.Name] == mOMap {
			switch sel.Sel.Name {
			case "Value":
				if len(x.Args) != 1 {
					return nil, fmt.Errorf("Value: wrong number of arguments")
				}
				k, err := m.expr(env, x.Args[0], binds)
				if err != nil {
					return nil, err
				}
				if k, err = m.conv(k, mInt); err != nil {
					return nil, fmt.Errorf("Value: %v", err)
				}
				m.used["m.Value(k) on *orderedmap.OrderedMap[int, uint]  ->  om_get m k (MatchSupport.v; 0 when absent)"] = true
				return []mgVal{{code: "(om_get v_" + recv.Name + " " + k.code + ")", ty: mUint}}, nil
			case "Len":
				if len(x.Args) != 0 {
					return nil, fmt.Errorf("Len: wrong number of arguments")
				}
				m.used["m.Len() on *orderedmap.OrderedMap[int, uint]  ->  om_len m (MatchSupport.v)"] = true
				return []mgVal{{code: "(om_len v_" + recv.Name + ")", ty: mInt}}, nil
			}
			return nil, fmt.Errorf("unsupported ordered map method %s in an expression", sel.Sel.Name)
		}
	}
	// the modelled helpers
	ext, ok := mgExternals[fun]
	if !ok {
		return nil, fmt.Errorf("unsupported call %s", fun)
	}
	if err := m.checkExternal(env, fun, ext); err != nil {
		return nil, err
	}
	if len(x.Args) != len(ext.params) {
		return nil, fmt.Errorf("%s: wrong number of arguments", fun)
	}
	var as []string
	for i, a := range x.Args {
		v, err := m.expr(env, a, binds)
		if err != nil {
			return nil, err
		}
		if v, err = m.conv(v, ext.params[i]); err != nil {
			return nil, fmt.Errorf("%s: argument %d: %v", fun, i+1, err)
		}
		as = append(as, v.code)
	}
	m.used[ext.doc] = true
	app := "(" + ext.coq + " " + strings.Join(as, " ") + ")"
	if ext.monadic || len(ext.results) > 1 {
		t := m.fresh("t")
		if ext.monadic {
			*binds = append(*binds, fmt.Sprintf("do %s <- %s %s;", t, ext.coq, strings.Join(as, " ")))
		} else {
			*binds = append(*binds, fmt.Sprintf("let %s := %s in", t, app))
		}
		app = t
	}
	var out []mgVal
	for _, r := range ext.results {
		if r.ty == "" {
			out = append(out, mgVal{})
			continue
		}
		v := mgVal{code: fmt.Sprintf(r.proj, app), ty: r.ty}
		out = append(out, v)
	}
	return out, nil
}

// mgAssigned: the variables a statement list assigns (a[i] = v and m.Set(..) count as assignments to a / m).
func mgAssigned(stmts []ast.Stmt, acc map[string]bool) {
	target := func(l ast.Expr) {
		if ix, ok := l.(*ast.IndexExpr); ok {
			l = ix.X
		}
		if id, ok := l.(*ast.Ident); ok {
			acc[id.Name] = true
		} else {
			acc["?"] = true
		}
	}
	for _, s := range stmts {
		ast.Inspect(s, func(n ast.Node) bool {
			switch n := n.(type) {
			case *ast.AssignStmt:
				if n.Tok != token.DEFINE {
					for _, l := range n.Lhs {
						target(l)
					}
				}
			case *ast.IncDecStmt:
				target(n.X)
			case *ast.RangeStmt:
				if n.Tok == token.ASSIGN {
					acc["?"] = true
				}
			case *ast.FuncLit, *ast.GoStmt, *ast.DeferStmt:
				acc["?"] = true
			case *ast.UnaryExpr:
				if n.Op == token.AND {
					acc["?"] = true
				}
			case *ast.ExprStmt: // x.M(..) as a statement may change x
				if c, ok := n.X.(*ast.CallExpr); ok {
					if sel, ok := c.Fun.(*ast.SelectorExpr); ok {
						if id, ok := sel.X.(*ast.Ident); ok {
							acc[id.Name] = true
						} else {
							acc["?"] = true
						}
					}
				}
			}
			return true
		})
	}
}

// mgHasJump: a return / break / continue / goto anywhere inside
func mgHasJump(stmts []ast.Stmt) bool {
	found := false
	for _, s := range stmts {
		ast.Inspect(s, func(n ast.Node) bool {
			switch n.(type) {
			case *ast.ReturnStmt, *ast.BranchStmt:
				found = true
			}
			return true
		})
	}
	return found
}

// mgTerminates: no path falls off the end of the list
func mgTerminates(stmts []ast.Stmt) bool {
	if len(stmts) == 0 {
		return false
	}
	switch s := stmts[len(stmts)-1].(type) {
	case *ast.ReturnStmt:
		return true
	case *ast.BranchStmt:
		return s.Tok == token.BREAK || s.Tok == token.CONTINUE
	case *ast.IfStmt:
		if s.Else == nil {
			return false
		}
		return mgTerminates(s.Body.List) && mgTerminates(mgElse(s))
	}
	return false
}

func mgElse(s *ast.IfStmt) []ast.Stmt {
	switch e := s.Else.(type) {
	case nil:
		return nil
	case *ast.BlockStmt:
		return e.List
	default:
		return []ast.Stmt{e}
	}
}

func (m *mg) state(env *mgEnv, asg map[string]bool) (names []string, tuple, pattern, ty string) {
	var tys []string
	for _, v := range env.order {
		if asg[v] {
			names = append(names, "v_"+v)
			tys = append(tys, mgCoq[env.vars[v]])
		}
	}
	switch len(names) {
	case 0:
		return nil, "tt", "_", "unit"
	case 1:
		return names, names[0], names[0], tys[0]
	}
	tuple = "(" + strings.Join(names, ", ") + ")"
	return names, tuple, tuple, "(" + strings.Join(tys, " * ") + ")%type"
}

func (m *mg) ret(ctx *mgCtx, v string) string {
	for range ctx.frames {
		v = "(RRet " + v + ")"
	}
	return "Ok " + v
}

// jump: continue / break to the loop `label` ("" = the innermost)
func (m *mg) jump(ctx *mgCtx, tok token.Token, label string) (string, error) {
	if len(ctx.frames) == 0 {
		return "", fmt.Errorf("%s outside a loop", tok)
	}
	j := len(ctx.frames) - 1
	if label != "" {
		for j >= 0 && ctx.frames[j].label != label {
			j--
		}
		if j < 0 {
			return "", fmt.Errorf("%s %s: no enclosing loop with that label", tok, label)
		}
	}
	c := "Cont"
	if tok == token.BREAK {
		c = "Brk"
	}
	v := "(" + c + " " + ctx.frames[j].tuple + ")"
	for i := j; i < len(ctx.frames)-1; i++ {
		v = "(RRet " + v + ")"
	}
	return "Ok " + v, nil
}

type mgTail func(env *mgEnv) (string, error)

func mgUnreachable(*mgEnv) (string, error) {
	return "", fmt.Errorf("internal: a terminating block falls through")
}

func (m *mg) block(env *mgEnv, list []ast.Stmt, ctx *mgCtx, tail mgTail) (string, error) {
	if len(list) == 0 {
		return tail(env)
	}
	s, rest := list[0], list[1:]
	next := func(e *mgEnv) (string, error) { return m.block(e, rest, ctx, tail) }
	pos := func() string { return m.sg.fset.Position(s.Pos()).String() }
	switch s := s.(type) {
	case *ast.ReturnStmt:
		if len(rest) != 0 {
			return "", fmt.Errorf("%s: statements after return", pos())
		}
		if len(s.Results) != 1 {
			return "", fmt.Errorf("%s: unsupported return", pos())
		}
		var binds []string
		v, err := m.expr(env, s.Results[0], &binds)
		if err != nil {
			return "", err
		}
		if v, err = m.conv(v, m.retTy); err != nil {
			return "", fmt.Errorf("return: %v", err)
		}
		return sgJoin(binds, m.ret(ctx, v.code)), nil
	case *ast.BranchStmt:
		if len(rest) != 0 {
			return "", fmt.Errorf("%s: statements after %s", pos(), s.Tok)
		}
		if s.Tok != token.CONTINUE && s.Tok != token.BREAK {
			return "", fmt.Errorf("%s: unsupported %s", pos(), s.Tok)
		}
		label := ""
		if s.Label != nil {
			label = s.Label.Name
		}
		return m.jump(ctx, s.Tok, label)
	case *ast.DeclStmt:
		gd, ok := s.Decl.(*ast.GenDecl)
		if !ok || gd.Tok != token.VAR {
			return "", fmt.Errorf("%s: unsupported declaration", pos())
		}
		env2 := env.clone()
		var lines []string
		for _, sp := range gd.Specs {
			vs := sp.(*ast.ValueSpec)
			if vs.Type == nil || len(vs.Values) != 0 {
				return "", fmt.Errorf("%s: only `var x T` is supported", pos())
			}
			for _, n := range vs.Names {
				if _, exists := env2.vars[n.Name]; exists || n.Name == "_" {
					return "", fmt.Errorf("%s: var %s redeclares a variable", pos(), n.Name)
				}
				t, err := m.goType(vs.Type, n.Name)
				if err != nil {
					return "", err
				}
				var zero string
				switch t {
				case mInt, mUint:
					zero = "0"
				case mBool:
					zero = "false"
				case mNInts:
					zero = "(@None (list Z))"
				case mPts, mRings, mPolys, mInts:
					el, _ := mgElem(t)
					zero = "(@nil " + mgCoq[el] + ")"
				default:
					return "", fmt.Errorf("%s: var of type %s", pos(), t)
				}
				env2.declare(n.Name, t)
				lines = append(lines, fmt.Sprintf("let v_%s := %s in", n.Name, zero))
			}
		}
		body, err := next(env2)
		if err != nil {
			return "", err
		}
		return sgJoin(lines, body), nil
	case *ast.AssignStmt:
		lines, env2, err := m.assign(env, s)
		if err != nil {
			return "", fmt.Errorf("%s: %v", pos(), err)
		}
		body, err := next(env2)
		if err != nil {
			return "", err
		}
		return sgJoin(lines, body), nil
	case *ast.ExprStmt:
		lines, err := m.callStmt(env, s)
		if err != nil {
			return "", fmt.Errorf("%s: %v", pos(), err)
		}
		body, err := next(env)
		if err != nil {
			return "", err
		}
		return sgJoin(lines, body), nil
	case *ast.IfStmt:
		return m.ifStmt(env, s, rest, ctx, next)
	case *ast.LabeledStmt:
		r, ok := s.Stmt.(*ast.RangeStmt)
		if !ok {
			return "", fmt.Errorf("%s: a label on something that is not a range loop", pos())
		}
		for _, f := range ctx.frames {
			if f.label == s.Label.Name {
				return "", fmt.Errorf("%s: label %s used twice", pos(), s.Label.Name)
			}
		}
		return m.rangeLoop(env, r, s.Label.Name, ctx, next)
	case *ast.RangeStmt:
		return m.rangeLoop(env, s, "", ctx, next)
	}
	return "", fmt.Errorf("unsupported statement %T at %s", s, pos())
}

func (m *mg) ifStmt(env *mgEnv, s *ast.IfStmt, rest []ast.Stmt, ctx *mgCtx, next mgTail) (string, error) {
	var binds []string
	outer := env
	if s.Init != nil {
		// if v, ok := m[k]; cond { .. }: v and ok live in the condition and the branches only (matchmap.go)
		envI, lines, err := m.intMapLookupInit(env, s.Init)
		if err != nil {
			return "", err
		}
		env, binds = envI, lines
	}
	c, err := m.expr(env, s.Cond, &binds)
	if err != nil {
		return "", err
	}
	if c.ty != mBool {
		return "", fmt.Errorf("condition of type %s", c.ty)
	}
	thenL, elseL := s.Body.List, mgElse(s)
	thenT, elseT := mgTerminates(thenL), mgTerminates(elseL)
	after := func(*mgEnv) (string, error) { return next(outer) } // what a block (or the init) declares is not visible after it
	var a, b string
	switch {
	case thenT && elseT:
		if len(rest) != 0 {
			return "", fmt.Errorf("statements after an if whose branches both leave")
		}
		if a, err = m.block(env.clone(), thenL, ctx, mgUnreachable); err != nil {
			return "", err
		}
		if b, err = m.block(env.clone(), elseL, ctx, mgUnreachable); err != nil {
			return "", err
		}
	case thenT:
		if a, err = m.block(env.clone(), thenL, ctx, mgUnreachable); err != nil {
			return "", err
		}
		if b, err = m.block(env.clone(), elseL, ctx, after); err != nil {
			return "", err
		}
	case elseT:
		if a, err = m.block(env.clone(), thenL, ctx, after); err != nil {
			return "", err
		}
		if b, err = m.block(env.clone(), elseL, ctx, mgUnreachable); err != nil {
			return "", err
		}
	default:
		// both branches fall through: join the variables they assign
		if mgHasJump(thenL) || mgHasJump(elseL) {
			return "", fmt.Errorf("an if whose branches fall through but contain return / break / continue is not supported")
		}
		asg := map[string]bool{}
		mgAssigned(thenL, asg)
		mgAssigned(elseL, asg)
		if asg["?"] {
			return "", fmt.Errorf("unsupported assignment target inside a branch")
		}
		if s.Init != nil {
			for n := range asg {
				if _, known := outer.vars[n]; !known {
					return "", fmt.Errorf("a branch assigns %s, which the if statement declares", n)
				}
			}
		}
		_, tuple, pattern, _ := m.state(outer, asg)
		join := func(*mgEnv) (string, error) { return "Ok " + tuple, nil }
		if a, err = m.block(env.clone(), thenL, ctx, join); err != nil {
			return "", err
		}
		if b, err = m.block(env.clone(), elseL, ctx, join); err != nil {
			return "", err
		}
		body, err := next(outer)
		if err != nil {
			return "", err
		}
		return sgJoin(binds, fmt.Sprintf("do %s <- (if %s then (%s)\n  else (%s));\n  %s", pattern, c.code, a, b, body)), nil
	}
	return sgJoin(binds, fmt.Sprintf("if %s then (%s)\n  else (%s)", c.code, a, b)), nil
}

// callStmt: m.Set(k, v) on the ordered map; log.Printf(..) (no effect on the result)
func (m *mg) callStmt(env *mgEnv, s *ast.ExprStmt) ([]string, error) {
	c, ok := s.X.(*ast.CallExpr)
	if !ok || c.Ellipsis != token.NoPos {
		return nil, fmt.Errorf("unsupported expression statement")
	}
	sel, ok := c.Fun.(*ast.SelectorExpr)
	if !ok {
		return nil, fmt.Errorf("unsupported call statement %s", types.ExprString(c.Fun))
	}
	recv, ok := sel.X.(*ast.Ident)
	if !ok {
		return nil, fmt.Errorf("unsupported call statement %s", types.ExprString(c.Fun))
	}
	if recv.Name == "log" && sel.Sel.Name == "Printf" {
		if m.shadowed(env, "log") || m.sg.pkgs["log"] != "log" {
			return nil, fmt.Errorf("log is not the standard library package here")
		}
		if len(c.Args) == 0 {
			return nil, fmt.Errorf("log.Printf without a format")
		}
		if lit, ok := c.Args[0].(*ast.BasicLit); !ok || lit.Kind != token.STRING {
			return nil, fmt.Errorf("log.Printf: the format is not a string literal")
		}
		for _, a := range c.Args[1:] {
			if err := m.pureArg(env, a); err != nil {
				return nil, fmt.Errorf("log.Printf: %v", err)
			}
		}
		m.used["log.Printf(format, plain variables..)  ->  nothing (logging does not influence the result)"] = true
		return nil, nil
	}
	if env.vars[recv.Name] == mOMap && sel.Sel.Name == "Set" {
		if len(c.Args) != 2 {
			return nil, fmt.Errorf("Set: wrong number of arguments")
		}
		var lines []string
		k, err := m.expr(env, c.Args[0], &lines)
		if err != nil {
			return nil, err
		}
		if k, err = m.conv(k, mInt); err != nil {
			return nil, fmt.Errorf("Set: key: %v", err)
		}
		v, err := m.expr(env, c.Args[1], &lines)
		if err != nil {
			return nil, err
		}
		if v, err = m.conv(v, mUint); err != nil {
			return nil, fmt.Errorf("Set: value: %v", err)
		}
		m.used["m.Set(k, v) on *orderedmap.OrderedMap[int, uint]  ->  om_set m k v (MatchSupport.v; a present key keeps its position, a new key goes last)"] = true
		lines = append(lines, fmt.Sprintf("let v_%s := (om_set v_%s %s %s) in", recv.Name, recv.Name, k.code, v.code))
		return lines, nil
	}
	return nil, fmt.Errorf("unsupported call statement %s", types.ExprString(c.Fun))
}

func (m *mg) assign(env *mgEnv, s *ast.AssignStmt) ([]string, *mgEnv, error) {
	env2 := env.clone()
	var lines []string
	if s.Tok != token.DEFINE && s.Tok != token.ASSIGN {
		return nil, nil, fmt.Errorf("unsupported assignment operator %s", s.Tok)
	}
	if len(s.Rhs) != 1 {
		return nil, nil, fmt.Errorf("only one expression on the right-hand side is supported")
	}
	// v = append(v, x)   and   a[k] = append(a[k], x)   (slices are values: see the header of the generated file)
	if c, ok := s.Rhs[0].(*ast.CallExpr); ok {
		if f, ok := c.Fun.(*ast.Ident); ok && f.Name == "append" {
			if m.shadowed(env, "append") || len(s.Lhs) != 1 || len(c.Args) != 2 || c.Ellipsis != token.NoPos || s.Tok != token.ASSIGN {
				return nil, nil, fmt.Errorf("append is only supported as v = append(v, x) or a[k] = append(a[k], x)")
			}
			switch l := s.Lhs[0].(type) {
			case *ast.Ident:
				a0, ok := c.Args[0].(*ast.Ident)
				if !ok || a0.Name != l.Name {
					return nil, nil, fmt.Errorf("append is only supported as v = append(v, x) or a[k] = append(a[k], x)")
				}
				sty := env.vars[l.Name]
				el, isSlice := mgElem(sty)
				if !isSlice {
					return nil, nil, fmt.Errorf("append to %s of type %s", l.Name, sty)
				}
				v, err := m.expr(env, c.Args[1], &lines)
				if err != nil {
					return nil, nil, err
				}
				if v, err = m.conv(v, el); err != nil {
					return nil, nil, fmt.Errorf("append: %v", err)
				}
				lines = append(lines, fmt.Sprintf("let v_%s := (v_%s ++ [%s]) in", l.Name, l.Name, v.code))
				return lines, env2, nil
			case *ast.IndexExpr:
				a, ok1 := l.X.(*ast.Ident)
				k, ok2 := l.Index.(*ast.Ident)
				r, ok3 := c.Args[0].(*ast.IndexExpr)
				if !ok1 || !ok2 || !ok3 {
					return nil, nil, fmt.Errorf("append is only supported as v = append(v, x) or a[k] = append(a[k], x)")
				}
				ra, ok4 := r.X.(*ast.Ident)
				rk, ok5 := r.Index.(*ast.Ident)
				if !ok4 || !ok5 || ra.Name != a.Name || rk.Name != k.Name {
					return nil, nil, fmt.Errorf("append is only supported as v = append(v, x) or a[k] = append(a[k], x)")
				}
				aty := env.vars[a.Name]
				elTy, isSlice := mgElem(aty)
				elEl, isSlice2 := mgElem(elTy)
				if !isSlice || !isSlice2 || env.vars[k.Name] != mInt {
					return nil, nil, fmt.Errorf("a[k] = append(a[k], x) on %s[%s]", aty, env.vars[k.Name])
				}
				// Go: the operands a, k of the left side, then append(a[k], x) (index check), then the store (same check)
				old := m.fresh("t")
				lines = append(lines, fmt.Sprintf("do %s <- idx v_%s v_%s;", old, a.Name, k.Name))
				v, err := m.expr(env, c.Args[1], &lines)
				if err != nil {
					return nil, nil, err
				}
				if v, err = m.conv(v, elEl); err != nil {
					return nil, nil, fmt.Errorf("append: %v", err)
				}
				lines = append(lines, fmt.Sprintf("do v_%s <- setidx v_%s v_%s (%s ++ [%s]);", a.Name, a.Name, k.Name, old, v.code))
				return lines, env2, nil
			}
			return nil, nil, fmt.Errorf("append is only supported as v = append(v, x) or a[k] = append(a[k], x)")
		}
	}
	// m[k] = v on a map[int]int (matchmap.go)
	if ix, ok := s.Lhs[0].(*ast.IndexExpr); ok && len(s.Lhs) == 1 {
		if id, ok := ix.X.(*ast.Ident); ok && env.vars[id.Name] == mIMap {
			lines, err := m.intMapStore(env, s, id.Name, ix.Index)
			return lines, env2, err
		}
	}
	// targets: plain identifiers (or _)
	var names []string
	for _, l := range s.Lhs {
		id, ok := l.(*ast.Ident)
		if !ok {
			return nil, nil, fmt.Errorf("unsupported assignment target %s", types.ExprString(l))
		}
		for _, n := range names {
			if n == id.Name && n != "_" {
				return nil, nil, fmt.Errorf("%s assigned twice in one statement", n)
			}
		}
		names = append(names, id.Name)
	}
	var vals []mgVal
	var nilIfEmpty bool
	if c, ok := s.Rhs[0].(*ast.CallExpr); ok {
		vs, err := m.call(env, c, &lines)
		if err != nil {
			return nil, nil, err
		}
		vals = vs
		nilIfEmpty = mgExternals[types.ExprString(c.Fun)].nilIfEmpty
	} else {
		v, err := m.expr(env, s.Rhs[0], &lines)
		if err != nil {
			return nil, nil, err
		}
		vals = []mgVal{v}
	}
	if len(vals) != len(names) {
		return nil, nil, fmt.Errorf("%d variables for %d values", len(names), len(vals))
	}
	if len(vals) > 1 && s.Tok != token.DEFINE {
		return nil, nil, fmt.Errorf("a multi-valued call is only supported with :=")
	}
	for i, n := range names {
		v := vals[i]
		if n == "_" {
			continue
		}
		if v.ty == "" {
			return nil, nil, fmt.Errorf("result %d of the call is not provided by the model; it must be assigned to _", i+1)
		}
		if v.ty == mNil {
			return nil, nil, fmt.Errorf("assignment of nil")
		}
		if s.Tok == token.DEFINE {
			if _, exists := env.vars[n]; exists {
				return nil, nil, fmt.Errorf(":= of the existing variable %s is not supported", n)
			}
			if m.nilChecked[n] {
				return nil, nil, fmt.Errorf("%s is compared with nil; only `var %s []int` is supported for such a variable", n, n)
			}
			ty := v.ty
			if v.lit {
				ty = mInt
			}
			env2.declare(n, ty)
			lines = append(lines, fmt.Sprintf("let v_%s := %s in", n, v.code))
			continue
		}
		old, exists := env.vars[n]
		if !exists {
			return nil, nil, fmt.Errorf("assignment to the unknown variable %s", n)
		}
		if old == mNInts {
			// nil-ness must be known: only the result of a helper whose nil-ness is documented
			if v.ty != mInts || !nilIfEmpty {
				return nil, nil, fmt.Errorf("assignment to the nil-checked variable %s from something whose nil-ness is not known", n)
			}
			m.used["x = f(..) for a nil-checked `var x []int` and f = sortPolyIdxsByOuterAreaDesc  ->  nilable_of_keys (MatchSupport.v): nil exactly when empty"] = true
			lines = append(lines, fmt.Sprintf("let v_%s := (nilable_of_keys %s) in", n, v.code))
			continue
		}
		cv, err := m.conv(v, old)
		if err != nil {
			return nil, nil, fmt.Errorf("assignment to %s: %v", n, err)
		}
		lines = append(lines, fmt.Sprintf("let v_%s := %s in", n, cv.code))
	}
	return lines, env2, nil
}

// rangeLoop: for _, x := range s { body }  /  for i := range s { body }
func (m *mg) rangeLoop(env *mgEnv, s *ast.RangeStmt, label string, ctx *mgCtx, next mgTail) (string, error) {
	if s.Tok != token.DEFINE {
		return "", fmt.Errorf("unsupported range loop (no :=)")
	}
	isBlank := func(e ast.Expr) bool {
		id, ok := e.(*ast.Ident)
		return e == nil || (ok && id.Name == "_")
	}
	var binds []string
	x, err := m.expr(env, s.X, &binds)
	if err != nil {
		return "", err
	}
	if x.ty == mNInts {
		x, _ = m.conv(x, mInts)
	}
	el, ok := mgElem(x.ty)
	if !ok {
		return "", fmt.Errorf("range over %s", x.ty)
	}
	asg := map[string]bool{}
	mgAssigned(s.Body.List, asg)
	if asg["?"] {
		return "", fmt.Errorf("range loop: unsupported assignment target")
	}
	var loopVar, idxVar *ast.Ident
	var list, elTy string
	byValue := func() error {
		// the elements are read while the loop runs: the body must not write to the slice ranged over
		var err error
		ast.Inspect(s.X, func(n ast.Node) bool {
			if id, ok := n.(*ast.Ident); ok && asg[id.Name] {
				err = fmt.Errorf("the loop body assigns %s, which is ranged over by value", id.Name)
			}
			return true
		})
		return err
	}
	switch {
	case !isBlank(s.Key) && !isBlank(s.Value):
		// for i, x := range s: range_loop over go_enum s = the pairs (i, s[i]) (matchmap.go)
		k, ok1 := s.Key.(*ast.Ident)
		v, ok2 := s.Value.(*ast.Ident)
		if !ok1 || !ok2 || k.Name == v.Name {
			return "", fmt.Errorf("unsupported range loop variables")
		}
		idxVar, loopVar, list, elTy = k, v, "(go_enum "+x.code+")", el
		m.used[mgDocEnum] = true
		if err := byValue(); err != nil {
			return "", err
		}
	case !isBlank(s.Key) && isBlank(s.Value):
		loopVar, list, elTy = s.Key.(*ast.Ident), "(go_indices "+x.code+")", mInt
		m.used["for i := range s  ->  range_loop over go_indices s (MatchSupport.v): 0 .. len(s)-1, the length read once"] = true
	case isBlank(s.Key) && !isBlank(s.Value):
		id, ok := s.Value.(*ast.Ident)
		if !ok {
			return "", fmt.Errorf("unsupported range loop variable")
		}
		loopVar, list, elTy = id, x.code, el
		if err := byValue(); err != nil {
			return "", err
		}
	default:
		return "", fmt.Errorf("unsupported range loop (index and element, or neither)")
	}
	if _, exists := env.vars[loopVar.Name]; exists {
		return "", fmt.Errorf("the loop variable %s shadows a variable", loopVar.Name)
	}
	if asg[loopVar.Name] {
		return "", fmt.Errorf("the loop variable %s is assigned", loopVar.Name)
	}
	_, tuple, pattern, stateTy := m.state(env, asg)
	funPat := "(" + pattern + " : " + stateTy + ")"
	if strings.HasPrefix(pattern, "(") {
		funPat = "'(" + pattern + " : " + stateTy + ")"
	}
	bodyEnv := env.clone()
	bodyEnv.declare(loopVar.Name, elTy)
	varPat := fmt.Sprintf("(v_%s : %s)", loopVar.Name, mgCoq[elTy])
	if idxVar != nil {
		if _, exists := env.vars[idxVar.Name]; exists {
			return "", fmt.Errorf("the loop variable %s shadows a variable", idxVar.Name)
		}
		if asg[idxVar.Name] {
			return "", fmt.Errorf("the loop variable %s is assigned", idxVar.Name)
		}
		bodyEnv.declare(idxVar.Name, mInt)
		varPat = fmt.Sprintf("'((v_%s, v_%s) : (Z * %s)%%type)", idxVar.Name, loopVar.Name, mgCoq[elTy])
	}
	inner := &mgCtx{frames: append(append([]mgFrame{}, ctx.frames...), mgFrame{label: label, tuple: tuple}),
		bodyTy: "(rctl " + stateTy + " " + ctx.bodyTy + ")"}
	body, err := m.block(bodyEnv, s.Body.List, inner, func(*mgEnv) (string, error) { return "Ok (Cont " + tuple + ")", nil })
	if err != nil {
		return "", err
	}
	rest, err := next(env)
	if err != nil {
		return "", err
	}
	out, r := m.fresh("out"), m.fresh("r")
	lab := ""
	if label != "" {
		lab = "(* " + label + ": *) "
	}
	binds = append(binds, fmt.Sprintf("do %s <- %srange_loop (R := %s) (fun %s %s =>\n    %s) %s %s;",
		out, lab, ctx.bodyTy, varPat, funPat, body, list, tuple))
	return sgJoin(binds, fmt.Sprintf("match %s with\n  | Ret %s => Ok %s\n  | Next %s => %s\n  end", out, r, r, pattern, rest)), nil
}

func genMatch(repo string) (string, error) {
	g, err := sgLoad(repo)
	if err != nil {
		return "", err
	}
	m := &mg{sg: g, helpers: map[string]*ast.FuncDecl{}, helperPkgs: map[string]string{}, nilChecked: map[string]bool{}, used: map[string]bool{}}
	mf, err := parser.ParseFile(g.fset, filepath.Join(repo, "mapslicehelp/mapslicehelp.go"), nil, 0)
	if err != nil {
		return "", err
	}
	for _, im := range mf.Imports {
		path := strings.Trim(im.Path.Value, `"`)
		name := path[strings.LastIndex(path, "/")+1:]
		if im.Name != nil {
			name = im.Name.Name
		}
		m.helperPkgs[name] = path
	}
	for _, d := range mf.Decls {
		if fd, ok := d.(*ast.FuncDecl); ok && fd.Recv == nil {
			m.helpers[fd.Name.Name] = fd
		}
	}
	const name = "matchInnersToPolygons"
	fd, ok := g.funcs[name]
	if !ok || fd.Body == nil {
		return "", fmt.Errorf("function %s not found", name)
	}
	if fd.Type.TypeParams != nil {
		return "", fmt.Errorf("%s: generic functions are not supported", name)
	}
	m.lenVars = mgLenVars(fd)
	// variables compared with nil
	ast.Inspect(fd.Body, func(n ast.Node) bool {
		if b, ok := n.(*ast.BinaryExpr); ok && (b.Op == token.EQL || b.Op == token.NEQ) {
			for _, p := range [][2]ast.Expr{{b.X, b.Y}, {b.Y, b.X}} {
				if id, ok := p[0].(*ast.Ident); ok {
					if n, ok := p[1].(*ast.Ident); ok && n.Name == "nil" {
						m.nilChecked[id.Name] = true
					}
				}
			}
		}
		return true
	})
	env := &mgEnv{vars: map[string]string{}}
	var params []string
	for _, f := range fd.Type.Params.List {
		if len(f.Names) == 0 {
			return "", fmt.Errorf("%s: unnamed parameter", name)
		}
		for _, n := range f.Names {
			if m.nilChecked[n.Name] {
				return "", fmt.Errorf("%s: the parameter %s is compared with nil", name, n.Name)
			}
			t, err := m.goType(f.Type, n.Name)
			if err != nil {
				return "", fmt.Errorf("%s: %v", name, err)
			}
			if _, dup := env.vars[n.Name]; dup || n.Name == "_" {
				return "", fmt.Errorf("%s: unsupported parameter name %s", name, n.Name)
			}
			env.declare(n.Name, t)
			params = append(params, fmt.Sprintf("(v_%s : %s)", n.Name, mgCoq[t]))
		}
	}
	if fd.Type.Results == nil || len(fd.Type.Results.List) != 1 || len(fd.Type.Results.List[0].Names) != 0 {
		return "", fmt.Errorf("%s: unsupported result list", name)
	}
	if m.retTy, err = m.goType(fd.Type.Results.List[0].Type, ""); err != nil {
		return "", fmt.Errorf("%s: %v", name, err)
	}
	for _, shadowed := range []string{"log", "orderedmap", "mapslicehelp"} {
		if _, ok := g.funcs[shadowed]; ok {
			return "", fmt.Errorf("package snap declares its own %s", shadowed)
		}
	}
	ctx := &mgCtx{bodyTy: mgCoq[m.retTy]}
	body, err := m.block(env, fd.Body.List, ctx, func(*mgEnv) (string, error) {
		return "", fmt.Errorf("control reaches the end of the function without a return")
	})
	if err != nil {
		return "", fmt.Errorf("%s: %v", name, err)
	}
	var out strings.Builder
	out.WriteString("(* GENERATED by /verif/translator (G2, loops in the error monad; translator/match.go) from snap/snap.go on every run -- do not edit.\n\n")
	out.WriteString("   Every statement of matchInnersToPolygons is derived from the AST.  int and uint are exact Z (indices, lengths and\n")
	out.WriteString("   per-polygon vertex counts, far below 2^63); slices are VALUES (a[k] = append(a[k], x) replaces element k by a\n")
	out.WriteString("   longer copy; sharing of backing arrays between slices is not modelled); a[i] is idx, a[i] = v is setidx (Err\n")
	out.WriteString("   IndexOutOfRange where Go panics).  Kept as the MODEL's functions (trusted), after the AST was checked for the\n")
	out.WriteString("   exact callee, import path and declared signature:\n")
	var docs []string
	for d := range m.used {
		docs = append(docs, d)
	}
	sort.Strings(docs)
	for _, d := range docs {
		out.WriteString("     - " + d + "\n")
	}
	out.WriteString("*)\n")
	out.WriteString("From Coq Require Import ZArith List Bool.\nFrom Texel Require Import Prelude.Base Prelude.GoLoop Index.Model Snap.Model Snap.MatchSupport.\nImport ListNotations.\nOpen Scope Z_scope.\n\n")
	pos := g.fset.Position(fd.Pos())
	fmt.Fprintf(&out, "(* %s:%d func %s *)\nDefinition gen_%s %s : res %s :=\n  %s.\n",
		filepath.Base(pos.Filename), pos.Line, name, name, strings.Join(params, " "), mgCoq[m.retTy], body)
	return out.String(), nil
}
