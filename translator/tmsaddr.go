package main

import (
	"bytes"
	"fmt"
	"go/ast"
	"go/parser"
	"go/printer"
	"go/token"
	"go/types"
	"path/filepath"
	"strconv"
	"strings"
)

// ---------------------------------------------------------------------------
// G2 (tile addressing): roundFloat, axisOrderIsLatLon, IsLatLon, ToXYPoint, TileMatrixSet.MatrixSize, FromNative,
// ToNative, MatrixBoundingBox of tms20/tms20.go -> gen/TmsAddrGen.v, statement by statement, in the monad `outcome`
// of Tms/Model.v (Ok / Error / Panic) with the vocabulary of Tms/GoAddr.v.
//
//   float64                 exact Q: + - * / = Qplus Qminus Qmult Qdiv, < <= = Qltb Qle_bool, float64(u) = inject_Z u,
//                           uint(f) = f2uint f (truncation toward zero)
//   uint, int, TMID, uint64 exact Z (conversions between them are the identity)
//   [2]float64, geom.Point  a pair; p[0] / p.X() = fst, p[1] / p.Y() = snd; p[0] = v  ->  let p := set0 p v
//   string, []byte          string; == is String.eqb
//   v, ok := m[k]           let '(v, ok) := map_get m k           (v := m[k]: fst (map_get m k))
//   *p, p.F on a pointer    do t <- deref p (Panic when nil); a dereferenced pointer is remembered on the path
//   s[i] on a []string      do t <- str_idx s i (Panic when out of range)
//   a, err := f(..)         do (a, err) <- split_err zero (gen_f ..)      (err is the boolean err != nil)
//   a, b := f(..)           do (a, b) <- gen_f ..
//   panic(..)               Panic
//   return a, nil           Ok a;   return a, fmt.Errorf(..) / errors.New(..)  ->  Error;   return a, err -> ret_err a err
//   if c { ..return } rest  if c then .. else rest
//   if / switch whose branches assign variables declared before it:
//                           do vars <- (if c1 then .. Ok vars else ..); rest
//   switch                  cases in source order, the default clause last; fallthrough = the body of the next clause
//
// Calls that are MAPPED to the model instead of translated (each after checking the shape of the call and the
// declarations it relies on in the AST):
//   crs.Authority() / .Version() / .Code()   crs_authority / crs_version / crs_code (crs_avc of Tms/Model.v: interface dispatch)
//   strings.ToLower(s)                       to_lower s
//   fmt.Sprintf(format of %s verbs, ..)      the concatenation
//   strconv.ParseUint(s, 10, 64)             parse_uint_res s (parse_uint of Tms/Json.v)
//   R.Match(s), R = regexp.MustCompile(`^(p1|p2|..)`) with literal alternatives      prefix_any [p1; p2; ..] s
//   v, ok := epsgAxesAreLatLon[k]            epsg_get k (the table regenerated into TmsData.v)
//   roundFloat(f, p)                         roundFloat_modelled f p = f  (roundFloat itself IS translated, with
//                                            math.Pow(10, e) = go_pow10 e and math.Round = go_round; the proof file bounds it)
//   slippy.NewTile(z, x, y)                  newTile z x y = Some (z, x, y)
//   (geom.Point).X() / .Y()                  fst / snd
// Anything else is a translation failure.
// ---------------------------------------------------------------------------

const (
	taFloat  = "float"
	taInt    = "int" // uint, int, TMID
	taBool   = "bool"
	taPoint  = "point"
	taTM     = "tm"
	taTMS    = "tms"
	taCorner = "corner"
	taErr    = "err"
	taTileP  = "tileptr"
	taCRS    = "crs"
	taAxes   = "axes"
	taVmws   = "vmws"
	taOrigP  = "originptr"
	taMap    = "map"
	taLit    = "intlit" // untyped integer constant
	taStr    = "string" // string, []byte
	taEpsg   = "epsgmap"
	taRegexp = "regexp"
	taNil    = "nil"
)

var taCoqTy = map[string]string{taFloat: "Q", taInt: "Z", taBool: "bool", taPoint: "(Q * Q)%type", taTM: "tileMatrix",
	taTMS: "tms", taCorner: "corner", taErr: "bool", taTileP: "(option tile)", taCRS: "crs", taAxes: "(option (list string))", taStr: "string"}

var taZero = map[string]string{taFloat: "0%Q", taInt: "0", taBool: "false", taPoint: "(0%Q, 0%Q)", taErr: "false", taTileP: "None", taStr: "\"\"%string"}

// Go type (as printed) -> translated type
var taGoTy = map[string]string{"float64": taFloat, "uint": taInt, "int": taInt, "TMID": taInt, "bool": taBool,
	"[2]float64": taPoint, "geom.Point": taPoint, "*TileMatrixSet": taTMS, "TileMatrix": taTM, "error": taErr,
	"*slippy.Tile": taTileP, "CRS": taCRS, "[]string": taAxes, "string": taStr, "uint64": taInt}

type taField struct{ goTy, coq, ty string }

// struct fields: the declared Go type is checked, the accessor is the model's
var taFields = map[string]map[string]taField{
	"TileMatrixSet": {
		"TileMatrices": {"map[TMID]TileMatrix", "(t_matrices %s)", taMap},
		"CRS":          {"CRS", "(t_crs %s)", taCRS},
		"OrderedAxes":  {"[]string", "(t_orderedAxes %s)", taAxes},
	},
	"TileMatrix": {
		"CellSize":             {"float64", "(dq (tm_cellSize %s))", taFloat},
		"CornerOfOrigin":       {"CornerOfOrigin", "(tm_corner %s)", taCorner},
		"PointOfOrigin":        {"*TwoDPoint", "(tm_origin %s)", taOrigP},
		"TileWidth":            {"uint", "(tm_tileWidth %s)", taInt},
		"TileHeight":           {"uint", "(tm_tileHeight %s)", taInt},
		"MatrixWidth":          {"uint", "(tm_matrixWidth %s)", taInt},
		"MatrixHeight":         {"uint", "(tm_matrixHeight %s)", taInt},
		"VariableMatrixWidths": {"[]VariableMatrixWidth", "(tm_vmw %s)", taVmws},
	},
}

// package-level declarations the translation relies on: printed form that must be found in tms20.go
var taDecls = []string{
	"type TMID = int",
	"type TwoDPoint [2]float64",
	"type CornerOfOrigin string",
	`const TopLeft CornerOfOrigin = "topLeft"`,
	`const BottomLeft CornerOfOrigin = "bottomLeft"`,
}

var taImports = map[string]string{"geom": "github.com/go-spatial/geom", "slippy": "github.com/go-spatial/geom/slippy",
	"fmt": "fmt", "errors": "errors", "strings": "strings", "strconv": "strconv", "regexp": "regexp", "math": "math"}

type taParam struct{ name, ty string }

type taSig struct {
	goName  string
	coqName string
	params  []taParam // receiver first
	results []taParam // without the trailing error
	hasErr  bool
	errName string
	decl    *ast.FuncDecl
}

type taEnv struct {
	order []string
	vars  map[string]string
	deref map[string]string // Coq expression of a pointer known to be non-nil on this path -> the name of what it points to
}

func (e *taEnv) clone() *taEnv {
	c := &taEnv{order: append([]string{}, e.order...), vars: map[string]string{}, deref: map[string]string{}}
	for k, v := range e.vars {
		c.vars[k] = v
	}
	for k, v := range e.deref {
		c.deref[k] = v
	}
	return c
}

func (e *taEnv) declare(n, ty string) {
	if _, ok := e.vars[n]; !ok {
		e.order = append(e.order, n)
	}
	e.vars[n] = ty
}

// forget what is known about pointers reached through variable n
func (e *taEnv) assigned(n string) {
	for k := range e.deref {
		if strings.Contains(k, "v_"+n+" ") || strings.HasSuffix(k, "v_"+n) || strings.Contains(k, "v_"+n+")") {
			delete(e.deref, k)
		}
	}
}

type ta struct {
	fset   *token.FileSet
	file   *ast.File
	sigs   map[string]*taSig
	cur    *taSig
	n      int
	pre    []string // monadic bindings to be emitted before the statement being translated
	consts map[string]string
	// package-level variables: regular expressions `^(p1|p2|..)` of literal alternatives; the EPSG table
	regexps map[string][]string
	epsg    bool
}

func (g *ta) errf(n ast.Node, format string, a ...interface{}) error {
	return fmt.Errorf("%s: %s", g.fset.Position(n.Pos()), fmt.Sprintf(format, a...))
}

func (g *ta) fresh() string {
	g.n++
	return fmt.Sprintf("t_%d", g.n)
}

func (g *ta) print(n interface{}) string {
	var b bytes.Buffer
	_ = printer.Fprint(&b, g.fset, n)
	return b.String()
}

// ---- expressions -----------------------------------------------------------

type taVal struct{ code, ty string }

func (g *ta) derefOf(n ast.Node, ptr string, env *taEnv) string {
	if t, ok := env.deref[ptr]; ok {
		return t
	}
	t := g.fresh()
	g.pre = append(g.pre, fmt.Sprintf("do %s <- deref %s;", t, ptr))
	env.deref[ptr] = t
	return t
}

func (g *ta) expr(x ast.Expr, env *taEnv, want string) (taVal, error) {
	switch x := x.(type) {
	case *ast.ParenExpr:
		return g.expr(x.X, env, want)
	case *ast.BasicLit:
		if x.Kind == token.STRING {
			str, err := strconv.Unquote(x.Value)
			if err != nil {
				return taVal{}, g.errf(x, "%v", err)
			}
			return taVal{coqString(str) + "%string", taStr}, nil
		}
		if x.Kind != token.INT {
			return taVal{}, g.errf(x, "unsupported literal %s", x.Value)
		}
		z, err := parseIntLit(x.Value)
		if err != nil {
			return taVal{}, g.errf(x, "%v", err)
		}
		return taVal{z.String(), taLit}, nil
	case *ast.Ident:
		switch x.Name {
		case "true", "false":
			return taVal{x.Name, taBool}, nil
		case "nil":
			return taVal{"", taNil}, nil
		}
		if ty, ok := env.vars[x.Name]; ok {
			return taVal{"v_" + x.Name, ty}, nil
		}
		if _, ok := g.regexps[x.Name]; ok {
			return taVal{x.Name, taRegexp}, nil
		}
		if x.Name == "epsgAxesAreLatLon" && g.epsg {
			return taVal{"", taEpsg}, nil
		}
		if c, ok := g.consts[x.Name]; ok {
			if x.Name == "CoordPrecision" {
				return taVal{c, taInt}, nil
			}
			return taVal{c, taCorner}, nil
		}
		return taVal{}, g.errf(x, "unknown identifier %s", x.Name)
	case *ast.StarExpr:
		v, err := g.expr(x.X, env, "")
		if err != nil {
			return taVal{}, err
		}
		if v.ty != taOrigP {
			return taVal{}, g.errf(x, "unsupported dereference of %s", v.ty)
		}
		return taVal{fmt.Sprintf("(qpoint %s)", g.derefOf(x, v.code, env)), taPoint}, nil
	case *ast.SelectorExpr:
		v, err := g.expr(x.X, env, "")
		if err != nil {
			return taVal{}, err
		}
		switch v.ty {
		case taTMS, taTM:
			st := map[string]string{taTMS: "TileMatrixSet", taTM: "TileMatrix"}[v.ty]
			f, ok := taFields[st][x.Sel.Name]
			if !ok {
				return taVal{}, g.errf(x, "unsupported field %s.%s", st, x.Sel.Name)
			}
			return taVal{fmt.Sprintf(f.coq, v.code), f.ty}, nil
		case taTileP:
			acc, ok := map[string]string{"Z": "tileZ", "X": "tileX", "Y": "tileY"}[x.Sel.Name]
			if !ok {
				return taVal{}, g.errf(x, "unsupported field slippy.Tile.%s", x.Sel.Name)
			}
			return taVal{fmt.Sprintf("(%s %s)", acc, g.derefOf(x, v.code, env)), taInt}, nil
		}
		return taVal{}, g.errf(x, "unsupported selector .%s on %s", x.Sel.Name, v.ty)
	case *ast.IndexExpr:
		v, err := g.expr(x.X, env, "")
		if err != nil {
			return taVal{}, err
		}
		switch v.ty {
		case taPoint:
			lit, ok := x.Index.(*ast.BasicLit)
			if !ok || (lit.Value != "0" && lit.Value != "1") {
				return taVal{}, g.errf(x, "a point is indexed by the constants 0 and 1 only")
			}
			return taVal{fmt.Sprintf("(%s %s)", map[string]string{"0": "fst", "1": "snd"}[lit.Value], v.code), taFloat}, nil
		case taMap:
			k, err := g.exprAs(x.Index, env, taInt)
			if err != nil {
				return taVal{}, err
			}
			return taVal{fmt.Sprintf("(fst (map_get %s %s))", v.code, k), taTM}, nil
		case taAxes:
			k, err := g.exprAs(x.Index, env, taInt)
			if err != nil {
				return taVal{}, err
			}
			t := g.fresh()
			g.pre = append(g.pre, fmt.Sprintf("do %s <- str_idx %s %s;", t, v.code, k))
			return taVal{t, taStr}, nil
		}
		return taVal{}, g.errf(x, "unsupported index expression on %s", v.ty)
	case *ast.CompositeLit:
		ty := taGoTy[types.ExprString(x.Type)]
		if ty != taPoint {
			return taVal{}, g.errf(x, "unsupported composite literal %s", types.ExprString(x.Type))
		}
		switch len(x.Elts) {
		case 0:
			return taVal{taZero[taPoint], taPoint}, nil
		case 2:
			a, err := g.exprAs(x.Elts[0], env, taFloat)
			if err != nil {
				return taVal{}, err
			}
			b, err := g.exprAs(x.Elts[1], env, taFloat)
			if err != nil {
				return taVal{}, err
			}
			return taVal{fmt.Sprintf("(%s, %s)", a, b), taPoint}, nil
		}
		return taVal{}, g.errf(x, "a point literal has zero or two elements")
	case *ast.UnaryExpr:
		switch x.Op {
		case token.NOT:
			a, err := g.exprAs(x.X, env, taBool)
			if err != nil {
				return taVal{}, err
			}
			return taVal{fmt.Sprintf("(negb %s)", a), taBool}, nil
		case token.SUB:
			a, err := g.exprAs(x.X, env, taFloat)
			if err != nil {
				return taVal{}, err
			}
			return taVal{fmt.Sprintf("(- %s)%%Q", a), taFloat}, nil
		}
		return taVal{}, g.errf(x, "unsupported unary operator %s", x.Op)
	case *ast.BinaryExpr:
		return g.binary(x, env, want)
	case *ast.CallExpr:
		return g.call(x, env)
	}
	return taVal{}, g.errf(x, "unsupported expression %s", types.ExprString(x))
}

// exprAs: the expression at the given type (an untyped integer constant takes it)
func (g *ta) exprAs(x ast.Expr, env *taEnv, ty string) (string, error) {
	v, err := g.expr(x, env, ty)
	if err != nil {
		return "", err
	}
	return g.coerce(x, v, ty)
}

func (g *ta) coerce(x ast.Node, v taVal, ty string) (string, error) {
	switch {
	case v.ty == ty:
		return v.code, nil
	case v.ty == taLit && ty == taInt:
		if strings.HasPrefix(v.code, "-") {
			return "(" + v.code + ")", nil
		}
		return v.code, nil
	case v.ty == taLit && ty == taFloat:
		if strings.HasPrefix(v.code, "-") {
			return "(" + v.code + ")%Q", nil
		}
		return v.code + "%Q", nil
	case v.ty == taNil && ty == taTileP:
		return "None", nil
	}
	return "", g.errf(x, "type mismatch: %s where %s is expected", v.ty, ty)
}

func (g *ta) binary(x *ast.BinaryExpr, env *taEnv, want string) (taVal, error) {
	if x.Op == token.LAND || x.Op == token.LOR {
		a, err := g.exprAs(x.X, env, taBool)
		if err != nil {
			return taVal{}, err
		}
		n := len(g.pre)
		b, err := g.exprAs(x.Y, env, taBool)
		if err != nil {
			return taVal{}, err
		}
		if len(g.pre) != n {
			return taVal{}, g.errf(x.Y, "an operand that can panic on the right of %s", x.Op)
		}
		return taVal{fmt.Sprintf("(%s %s %s)", a, map[token.Token]string{token.LAND: "&&", token.LOR: "||"}[x.Op], b), taBool}, nil
	}
	l, err := g.expr(x.X, env, "")
	if err != nil {
		return taVal{}, err
	}
	r, err := g.expr(x.Y, env, "")
	if err != nil {
		return taVal{}, err
	}
	// err != nil, err == nil
	if l.ty == taErr && r.ty == taNil {
		switch x.Op {
		case token.NEQ:
			return taVal{l.code, taBool}, nil
		case token.EQL:
			return taVal{fmt.Sprintf("(negb %s)", l.code), taBool}, nil
		}
		return taVal{}, g.errf(x, "unsupported operator %s on an error", x.Op)
	}
	ty := l.ty
	if ty == taLit {
		ty = r.ty
	}
	if ty == taLit {
		ty = want
		if ty != taInt && ty != taFloat {
			return taVal{}, g.errf(x, "constant expression of unknown type")
		}
	}
	a, err := g.coerce(x.X, l, ty)
	if err != nil {
		return taVal{}, err
	}
	b, err := g.coerce(x.Y, r, ty)
	if err != nil {
		return taVal{}, err
	}
	switch ty {
	case taFloat:
		switch x.Op {
		case token.ADD, token.SUB, token.MUL, token.QUO:
			return taVal{fmt.Sprintf("(%s %s %s)%%Q", a, x.Op, b), taFloat}, nil
		case token.LSS:
			return taVal{fmt.Sprintf("(Qltb %s %s)", a, b), taBool}, nil
		case token.GTR:
			return taVal{fmt.Sprintf("(Qltb %s %s)", b, a), taBool}, nil
		case token.LEQ:
			return taVal{fmt.Sprintf("(Qle_bool %s %s)", a, b), taBool}, nil
		case token.GEQ:
			return taVal{fmt.Sprintf("(Qle_bool %s %s)", b, a), taBool}, nil
		}
	case taInt:
		switch x.Op {
		case token.ADD, token.SUB, token.MUL:
			return taVal{fmt.Sprintf("(%s %s %s)", a, x.Op, b), taInt}, nil
		case token.LSS:
			return taVal{fmt.Sprintf("(%s <? %s)", a, b), taBool}, nil
		case token.GTR:
			return taVal{fmt.Sprintf("(%s <? %s)", b, a), taBool}, nil
		case token.LEQ:
			return taVal{fmt.Sprintf("(%s <=? %s)", a, b), taBool}, nil
		case token.GEQ:
			return taVal{fmt.Sprintf("(%s <=? %s)", b, a), taBool}, nil
		case token.EQL:
			return taVal{fmt.Sprintf("(%s =? %s)", a, b), taBool}, nil
		case token.NEQ:
			return taVal{fmt.Sprintf("(negb (%s =? %s))", a, b), taBool}, nil
		}
	case taStr:
		switch x.Op {
		case token.EQL:
			return taVal{fmt.Sprintf("(String.eqb %s %s)", a, b), taBool}, nil
		case token.NEQ:
			return taVal{fmt.Sprintf("(negb (String.eqb %s %s))", a, b), taBool}, nil
		}
	case taCorner:
		switch x.Op {
		case token.EQL:
			return taVal{fmt.Sprintf("(corner_eqb %s %s)", a, b), taBool}, nil
		case token.NEQ:
			return taVal{fmt.Sprintf("(negb (corner_eqb %s %s))", a, b), taBool}, nil
		}
	}
	return taVal{}, g.errf(x, "unsupported operator %s on %s", x.Op, ty)
}

func (g *ta) call(x *ast.CallExpr, env *taEnv) (taVal, error) {
	name := types.ExprString(x.Fun)
	if x.Ellipsis.IsValid() {
		return taVal{}, g.errf(x, "unsupported call %s(...)", name)
	}
	arg := func(i int, ty string) (string, error) { return g.exprAs(x.Args[i], env, ty) }
	switch name {
	case "float64", "uint", "int":
		if len(x.Args) != 1 {
			return taVal{}, g.errf(x, "conversion with %d arguments", len(x.Args))
		}
		v, err := g.expr(x.Args[0], env, map[string]string{"float64": taFloat, "uint": taInt, "int": taInt}[name])
		if err != nil {
			return taVal{}, err
		}
		switch {
		case name == "float64" && (v.ty == taInt || v.ty == taLit):
			return taVal{fmt.Sprintf("(inject_Z %s)", v.code), taFloat}, nil
		case name == "float64" && v.ty == taFloat:
			return v, nil
		case name == "uint" && v.ty == taFloat:
			return taVal{fmt.Sprintf("(f2uint %s)", v.code), taInt}, nil
		case name != "float64" && v.ty == taInt:
			return v, nil
		}
		return taVal{}, g.errf(x, "unsupported conversion %s(%s)", name, v.ty)
	case "len":
		if len(x.Args) != 1 {
			return taVal{}, g.errf(x, "len with %d arguments", len(x.Args))
		}
		v, err := g.expr(x.Args[0], env, "")
		if err != nil {
			return taVal{}, err
		}
		if v.ty != taVmws && v.ty != taAxes {
			return taVal{}, g.errf(x, "unsupported len(%s)", v.ty)
		}
		return taVal{fmt.Sprintf("(slice_len %s)", v.code), taInt}, nil
	case "roundFloat":
		if len(x.Args) != 2 {
			return taVal{}, g.errf(x, "roundFloat with %d arguments", len(x.Args))
		}
		// the identity of the model stands for rounding to CoordPrecision decimals only
		if id, ok := x.Args[1].(*ast.Ident); !ok || id.Name != "CoordPrecision" || env.vars[id.Name] != "" {
			return taVal{}, g.errf(x, "roundFloat is mapped to the model for the precision CoordPrecision only")
		}
		f, err := arg(0, taFloat)
		if err != nil {
			return taVal{}, err
		}
		p, err := arg(1, taInt)
		if err != nil {
			return taVal{}, err
		}
		return taVal{fmt.Sprintf("(roundFloat_modelled %s %s)", f, p), taFloat}, nil
	case "[]byte", "string":
		if len(x.Args) != 1 {
			return taVal{}, g.errf(x, "conversion with %d arguments", len(x.Args))
		}
		s, err := arg(0, taStr)
		if err != nil {
			return taVal{}, err
		}
		return taVal{s, taStr}, nil
	case "strings.ToLower":
		if len(x.Args) != 1 {
			return taVal{}, g.errf(x, "strings.ToLower with %d arguments", len(x.Args))
		}
		s, err := arg(0, taStr)
		if err != nil {
			return taVal{}, err
		}
		return taVal{fmt.Sprintf("(to_lower %s)", s), taStr}, nil
	case "fmt.Sprintf":
		// a format of literal text and %s verbs over string arguments: the concatenation
		if len(x.Args) == 0 {
			return taVal{}, g.errf(x, "fmt.Sprintf without a format")
		}
		lit, ok := x.Args[0].(*ast.BasicLit)
		if !ok || lit.Kind != token.STRING {
			return taVal{}, g.errf(x, "fmt.Sprintf with a format that is not a literal")
		}
		format, err := strconv.Unquote(lit.Value)
		if err != nil {
			return taVal{}, g.errf(x, "%v", err)
		}
		var parts []string
		next := 1
		for len(format) > 0 {
			i := strings.IndexByte(format, '%')
			if i < 0 {
				i = len(format)
			}
			if i > 0 {
				parts = append(parts, coqString(format[:i])+"%string")
				format = format[i:]
				continue
			}
			if !strings.HasPrefix(format, "%s") || next >= len(x.Args) {
				return taVal{}, g.errf(x, "unsupported format %s", lit.Value)
			}
			s, err := arg(next, taStr)
			if err != nil {
				return taVal{}, err
			}
			parts = append(parts, s)
			next++
			format = format[2:]
		}
		if next != len(x.Args) || len(parts) == 0 {
			return taVal{}, g.errf(x, "unsupported format %s", lit.Value)
		}
		code := parts[len(parts)-1]
		for i := len(parts) - 2; i >= 0; i-- {
			code = fmt.Sprintf("(append %s %s)", parts[i], code)
		}
		return taVal{code, taStr}, nil
	case "math.Pow":
		if len(x.Args) != 2 {
			return taVal{}, g.errf(x, "math.Pow with %d arguments", len(x.Args))
		}
		if lit, ok := x.Args[0].(*ast.BasicLit); !ok || lit.Value != "10" {
			return taVal{}, g.errf(x, "math.Pow with a base other than the constant 10")
		}
		e, err := arg(1, taFloat)
		if err != nil {
			return taVal{}, err
		}
		return taVal{fmt.Sprintf("(go_pow10 %s)", e), taFloat}, nil
	case "math.Round":
		if len(x.Args) != 1 {
			return taVal{}, g.errf(x, "math.Round with %d arguments", len(x.Args))
		}
		e, err := arg(0, taFloat)
		if err != nil {
			return taVal{}, err
		}
		return taVal{fmt.Sprintf("(go_round %s)", e), taFloat}, nil
	case "slippy.NewTile":
		if len(x.Args) != 3 {
			return taVal{}, g.errf(x, "slippy.NewTile with %d arguments", len(x.Args))
		}
		var a [3]string
		for i := range a {
			var err error
			if a[i], err = arg(i, taInt); err != nil {
				return taVal{}, err
			}
		}
		return taVal{fmt.Sprintf("(newTile %s %s %s)", a[0], a[1], a[2]), taTileP}, nil
	}
	if sel, ok := x.Fun.(*ast.SelectorExpr); ok {
		if id, isID := sel.X.(*ast.Ident); !isID || (g.sigs[sel.Sel.Name] == nil && taImports[id.Name] == "") {
			v, err := g.expr(sel.X, env, "")
			if err != nil {
				return taVal{}, err
			}
			switch {
			case v.ty == taPoint && len(x.Args) == 0 && (sel.Sel.Name == "X" || sel.Sel.Name == "Y"):
				return taVal{fmt.Sprintf("(%s %s)", map[string]string{"X": "fst", "Y": "snd"}[sel.Sel.Name], v.code), taFloat}, nil
			case v.ty == taCRS && len(x.Args) == 0:
				acc, ok := map[string]string{"Authority": "crs_authority", "Version": "crs_version", "Code": "crs_code"}[sel.Sel.Name]
				if !ok {
					break
				}
				t := g.fresh()
				g.pre = append(g.pre, fmt.Sprintf("do %s <- %s %s;", t, acc, v.code))
				return taVal{t, taStr}, nil
			case v.ty == taRegexp && len(x.Args) == 1 && sel.Sel.Name == "Match":
				s, err := arg(0, taStr)
				if err != nil {
					return taVal{}, err
				}
				var alts []string
				for _, a := range g.regexps[v.code] {
					alts = append(alts, coqString(a)+"%string")
				}
				return taVal{fmt.Sprintf("(prefix_any [%s] %s)", strings.Join(alts, "; "), s), taBool}, nil
			}
		}
	}
	return taVal{}, g.errf(x, "unsupported call %s in an expression", name)
}

// a call of a translated or mapped function as the whole right-hand side of an assignment:
// the monadic Coq term, the types of its results, whether an error follows them
func (g *ta) monadicCall(x ast.Expr, env *taEnv) (string, []string, bool, bool, error) {
	c, ok := x.(*ast.CallExpr)
	if !ok || c.Ellipsis.IsValid() {
		return "", nil, false, false, nil
	}
	name := types.ExprString(c.Fun)
	if name == "roundFloat" {
		return "", nil, false, false, nil // its calls are the identity of the model (see call)
	}
	if name == "strconv.ParseUint" {
		if len(c.Args) != 3 || types.ExprString(c.Args[1]) != "10" || types.ExprString(c.Args[2]) != "64" {
			return "", nil, false, false, g.errf(c, "strconv.ParseUint is supported as ParseUint(s, 10, 64) only")
		}
		s, err := g.exprAs(c.Args[0], env, taStr)
		if err != nil {
			return "", nil, false, false, err
		}
		return "(parse_uint_res " + s + ")", []string{taInt}, true, true, nil
	}
	var sig *taSig
	var actual []ast.Expr
	if sel, ok := c.Fun.(*ast.SelectorExpr); ok {
		if s, ok := g.sigs[sel.Sel.Name]; ok && s.decl.Recv != nil {
			sig, actual = s, append([]ast.Expr{sel.X}, c.Args...)
		}
	} else if s, ok := g.sigs[name]; ok && s.decl.Recv == nil {
		sig, actual = s, c.Args
	}
	if sig == nil {
		return "", nil, false, false, nil
	}
	if len(actual) != len(sig.params) {
		return "", nil, false, false, g.errf(c, "%s with %d arguments", name, len(c.Args))
	}
	args := ""
	for i, a := range actual {
		s, err := g.exprAs(a, env, sig.params[i].ty)
		if err != nil {
			return "", nil, false, false, err
		}
		args += " " + s
	}
	var tys []string
	for _, r := range sig.results {
		tys = append(tys, r.ty)
	}
	return "(" + sig.coqName + args + ")", tys, sig.hasErr, true, nil
}

// ---- statements ------------------------------------------------------------

func taIsPanic(s ast.Stmt) bool {
	if es, ok := s.(*ast.ExprStmt); ok {
		if c, ok := es.X.(*ast.CallExpr); ok {
			if id, ok := c.Fun.(*ast.Ident); ok && id.Name == "panic" {
				return true
			}
		}
	}
	return false
}

type taBranch struct {
	cond ast.Expr // nil: else / default
	body []ast.Stmt
}

// the branches of an if / switch statement, in the order in which Go tries them; the last one is the else / default
// branch (an empty body when there is none); tag is the switch tag (nil for if and for tagless switch)
func (g *ta) branches(s ast.Stmt) (tag ast.Expr, conds [][]ast.Expr, bodies [][]ast.Stmt, err error) {
	switch s := s.(type) {
	case *ast.IfStmt:
		if s.Init != nil {
			return nil, nil, nil, g.errf(s, "if with an init statement")
		}
		conds = append(conds, []ast.Expr{s.Cond})
		bodies = append(bodies, s.Body.List)
		switch e := s.Else.(type) {
		case nil:
			bodies = append(bodies, nil)
		case *ast.BlockStmt:
			bodies = append(bodies, e.List)
		case *ast.IfStmt:
			_, c2, b2, err := g.branches(e)
			if err != nil {
				return nil, nil, nil, err
			}
			conds = append(conds, c2...)
			bodies = append(bodies, b2...)
		default:
			return nil, nil, nil, g.errf(s, "unsupported else")
		}
		return nil, conds, bodies, nil
	case *ast.SwitchStmt:
		if s.Init != nil {
			return nil, nil, nil, g.errf(s, "switch with an init statement")
		}
		clauses := s.Body.List
		var bodyOf func(i int, depth int) ([]ast.Stmt, error)
		bodyOf = func(i int, depth int) ([]ast.Stmt, error) {
			cc := clauses[i].(*ast.CaseClause)
			body := cc.Body
			if n := len(body); n > 0 {
				if br, ok := body[n-1].(*ast.BranchStmt); ok && br.Tok == token.FALLTHROUGH {
					if i+1 >= len(clauses) || depth > len(clauses) {
						return nil, g.errf(br, "fallthrough out of the switch")
					}
					next, err := bodyOf(i+1, depth+1)
					if err != nil {
						return nil, err
					}
					return append(append([]ast.Stmt{}, body[:n-1]...), next...), nil
				}
			}
			for _, st := range body {
				if br, ok := st.(*ast.BranchStmt); ok {
					return nil, g.errf(br, "unsupported %s in a switch", br.Tok)
				}
			}
			return body, nil
		}
		var dflt []ast.Stmt
		seenDefault := false
		for i, c := range clauses {
			cc := c.(*ast.CaseClause)
			b, err := bodyOf(i, 0)
			if err != nil {
				return nil, nil, nil, err
			}
			if cc.List == nil {
				if seenDefault {
					return nil, nil, nil, g.errf(cc, "two default clauses")
				}
				seenDefault, dflt = true, b
				continue
			}
			conds = append(conds, cc.List)
			bodies = append(bodies, b)
		}
		bodies = append(bodies, dflt)
		return s.Tag, conds, bodies, nil
	}
	return nil, nil, nil, g.errf(s, "not a branching statement")
}

// does every path through the statements end in return / panic?
func (g *ta) terminates(stmts []ast.Stmt) bool {
	if len(stmts) == 0 {
		return false
	}
	last := stmts[len(stmts)-1]
	switch s := last.(type) {
	case *ast.ReturnStmt:
		return true
	case *ast.ExprStmt:
		return taIsPanic(s)
	case *ast.IfStmt, *ast.SwitchStmt:
		_, _, bodies, err := g.branches(s)
		if err != nil {
			return false
		}
		for _, b := range bodies {
			if !g.terminates(b) {
				return false
			}
		}
		return true
	}
	return false
}

func taHasTerminator(stmts []ast.Stmt) bool {
	found := false
	for _, s := range stmts {
		ast.Inspect(s, func(n ast.Node) bool {
			switch n := n.(type) {
			case *ast.ReturnStmt:
				found = true
			case *ast.ExprStmt:
				if taIsPanic(n) {
					found = true
				}
			}
			return !found
		})
	}
	return found
}

// variables of env assigned (not declared) somewhere in the statements
func (g *ta) assignedIn(stmts []ast.Stmt, env *taEnv, set map[string]bool) {
	for _, s := range stmts {
		ast.Inspect(s, func(n ast.Node) bool {
			as, ok := n.(*ast.AssignStmt)
			if !ok {
				return true
			}
			for _, l := range as.Lhs {
				var id *ast.Ident
				switch l := l.(type) {
				case *ast.Ident:
					id = l
				case *ast.IndexExpr:
					id, _ = l.X.(*ast.Ident)
				}
				if id == nil || id.Name == "_" {
					continue
				}
				if _, ok := env.vars[id.Name]; ok {
					set[id.Name] = true
				}
			}
			return true
		})
	}
}

func taTuple(names []string, pattern bool) string {
	if len(names) == 1 {
		return "v_" + names[0]
	}
	var p []string
	for _, n := range names {
		p = append(p, "v_"+n)
	}
	if pattern {
		return "(" + strings.Join(p, ", ") + ")"
	}
	return "(" + strings.Join(p, ", ") + ")"
}

func (g *ta) flush(b *strings.Builder, ind string) {
	for _, p := range g.pre {
		b.WriteString(ind + p + "\n")
	}
	g.pre = nil
}

// block translates the statements; fall gives the term for reaching their end
func (g *ta) block(stmts []ast.Stmt, env *taEnv, ind string, fall func(at ast.Node) (string, error), at ast.Node) (string, error) {
	var b strings.Builder
	for i, s := range stmts {
		rest := stmts[i+1:]
		switch s := s.(type) {
		case *ast.DeclStmt:
			gd, ok := s.Decl.(*ast.GenDecl)
			if !ok || gd.Tok != token.VAR {
				return "", g.errf(s, "unsupported declaration")
			}
			for _, sp := range gd.Specs {
				vs := sp.(*ast.ValueSpec)
				if vs.Type == nil || len(vs.Values) != 0 {
					return "", g.errf(s, "only `var x T` is supported")
				}
				ty, ok := taGoTy[types.ExprString(vs.Type)]
				zero, ok2 := taZero[ty]
				if !ok || !ok2 {
					return "", g.errf(s, "unsupported type %s", types.ExprString(vs.Type))
				}
				for _, n := range vs.Names {
					if _, dup := env.vars[n.Name]; dup {
						return "", g.errf(n, "%s is declared twice (shadowing is not supported)", n.Name)
					}
					env.declare(n.Name, ty)
					fmt.Fprintf(&b, "%slet v_%s := %s in\n", ind, n.Name, zero)
				}
			}
		case *ast.AssignStmt:
			line, err := g.assign(s, env)
			if err != nil {
				return "", err
			}
			g.flush(&b, ind)
			b.WriteString(ind + line + "\n")
		case *ast.ReturnStmt:
			if len(rest) != 0 {
				return "", g.errf(rest[0], "unreachable statement")
			}
			t, err := g.ret(s, env)
			if err != nil {
				return "", err
			}
			g.flush(&b, ind)
			b.WriteString(ind + t + "\n")
			return b.String(), nil
		case *ast.ExprStmt:
			if !taIsPanic(s) {
				return "", g.errf(s, "unsupported statement %s", g.print(s))
			}
			if len(rest) != 0 {
				return "", g.errf(rest[0], "unreachable statement")
			}
			b.WriteString(ind + "Panic\n")
			return b.String(), nil
		case *ast.IfStmt, *ast.SwitchStmt:
			t, done, err := g.branching(s, rest, env, ind, fall)
			if err != nil {
				return "", err
			}
			b.WriteString(t)
			if done {
				return b.String(), nil
			}
		default:
			return "", g.errf(s, "unsupported statement %s", g.print(s))
		}
	}
	t, err := fall(at)
	if err != nil {
		return "", err
	}
	b.WriteString(ind + t + "\n")
	return b.String(), nil
}

// the condition of branch i: the disjunction of tag == e over its expressions (the expressions themselves without a tag)
func (g *ta) branchCond(tag ast.Expr, es []ast.Expr, env *taEnv) (string, error) {
	var parts []string
	for _, e := range es {
		var x ast.Expr = e
		if tag != nil {
			x = &ast.BinaryExpr{X: tag, OpPos: e.Pos(), Op: token.EQL, Y: e}
		}
		c, err := g.exprAs(x, env, taBool)
		if err != nil {
			return "", err
		}
		parts = append(parts, c)
	}
	if len(parts) == 1 {
		return parts[0], nil
	}
	return "(" + strings.Join(parts, " || ") + ")", nil
}

func (g *ta) branching(s ast.Stmt, rest []ast.Stmt, env *taEnv, ind string, fall func(at ast.Node) (string, error)) (string, bool, error) {
	tag, conds, bodies, err := g.branches(s)
	if err != nil {
		return "", false, err
	}
	var b strings.Builder
	nb := len(bodies)
	allTerm := true
	for _, body := range bodies[:nb-1] {
		allTerm = allTerm && g.terminates(body)
	}
	elseTerm := g.terminates(bodies[nb-1])
	cond := func(i int) (string, error) {
		n := len(g.pre)
		c, err := g.branchCond(tag, conds[i], env)
		if err != nil {
			return "", err
		}
		if i > 0 && len(g.pre) != n {
			return "", g.errf(conds[i][0], "a condition that can panic after the first one")
		}
		return c, nil
	}
	switch {
	case allTerm && (elseTerm || len(bodies[nb-1]) == 0):
		// if c { ..return } [else if ..] [else { ..return }]; rest
		if elseTerm && len(rest) != 0 {
			return "", false, g.errf(rest[0], "unreachable statement")
		}
		for i := 0; i < nb-1; i++ {
			c, err := cond(i)
			if err != nil {
				return "", false, err
			}
			if i == 0 {
				g.flush(&b, ind)
			}
			t, err := g.block(bodies[i], env.clone(), ind+"  ", func(at ast.Node) (string, error) { return "", g.errf(at, "missing return") }, s)
			if err != nil {
				return "", false, err
			}
			fmt.Fprintf(&b, "%sif %s then\n%s%selse\n", ind, c, t, ind)
		}
		if elseTerm {
			t, err := g.block(bodies[nb-1], env.clone(), ind+"  ", func(at ast.Node) (string, error) { return "", g.errf(at, "missing return") }, s)
			if err != nil {
				return "", false, err
			}
			b.WriteString(t)
			return b.String(), true, nil
		}
		t, err := g.block(rest, env, ind, fall, s)
		if err != nil {
			return "", false, err
		}
		b.WriteString(t)
		return b.String(), true, nil
	default:
		// branches that assign: none of them may leave the function
		for _, body := range bodies {
			if taHasTerminator(body) {
				return "", false, g.errf(s, "a branch that returns next to one that does not")
			}
		}
		set := map[string]bool{}
		for _, body := range bodies {
			g.assignedIn(body, env, set)
		}
		var names []string
		for _, n := range env.order {
			if set[n] {
				names = append(names, n)
			}
		}
		if len(names) == 0 {
			return "", false, g.errf(s, "a branching statement without effect")
		}
		join := func(at ast.Node) (string, error) { return "Ok " + taTuple(names, false), nil }
		var inner strings.Builder
		for i := 0; i < nb; i++ {
			if i < nb-1 {
				c, err := cond(i)
				if err != nil {
					return "", false, err
				}
				if i == 0 {
					g.flush(&b, ind)
				}
				fmt.Fprintf(&inner, "%s  if %s then\n", ind, c)
			}
			t, err := g.block(bodies[i], env.clone(), ind+"    ", join, s)
			if err != nil {
				return "", false, err
			}
			inner.WriteString(t)
			if i < nb-1 {
				fmt.Fprintf(&inner, "%s  else\n", ind)
			}
		}
		fmt.Fprintf(&b, "%sdo %s <- (\n%s%s);\n", ind, taTuple(names, true), inner.String(), ind)
		for _, n := range names {
			env.assigned(n)
		}
		return b.String(), false, nil
	}
}

func (g *ta) assign(s *ast.AssignStmt, env *taEnv) (string, error) {
	if s.Tok != token.DEFINE && s.Tok != token.ASSIGN {
		return "", g.errf(s, "unsupported assignment operator %s", s.Tok)
	}
	// the left-hand sides: plain variables (or one element of a point)
	lhsName := func(l ast.Expr) (string, error) {
		id, ok := l.(*ast.Ident)
		if !ok {
			return "", g.errf(l, "unsupported assignment target %s", types.ExprString(l))
		}
		return id.Name, nil
	}
	bind := func(name, ty string) error {
		if name == "_" {
			return nil
		}
		old, exists := env.vars[name]
		if s.Tok == token.ASSIGN && !exists {
			return g.errf(s, "assignment to undeclared %s", name)
		}
		if exists && old != ty {
			return g.errf(s, "%s changes type from %s to %s (shadowing is not supported)", name, old, ty)
		}
		env.declare(name, ty)
		env.assigned(name)
		return nil
	}
	coqName := func(n string) string {
		if n == "_" {
			return "_"
		}
		return "v_" + n
	}
	if len(s.Rhs) != 1 {
		return "", g.errf(s, "unsupported tuple assignment")
	}
	rhs := s.Rhs[0]
	// p[i] = e
	if ix, ok := s.Lhs[0].(*ast.IndexExpr); ok && len(s.Lhs) == 1 {
		if s.Tok != token.ASSIGN {
			return "", g.errf(s, "unsupported assignment")
		}
		id, ok := ix.X.(*ast.Ident)
		lit, ok2 := ix.Index.(*ast.BasicLit)
		if !ok || !ok2 || env.vars[id.Name] != taPoint || (lit.Value != "0" && lit.Value != "1") {
			return "", g.errf(s, "unsupported assignment target %s", types.ExprString(ix))
		}
		e, err := g.exprAs(rhs, env, taFloat)
		if err != nil {
			return "", err
		}
		return fmt.Sprintf("let v_%s := set%s v_%s %s in", id.Name, lit.Value, id.Name, e), nil
	}
	var names []string
	for _, l := range s.Lhs {
		n, err := lhsName(l)
		if err != nil {
			return "", err
		}
		names = append(names, n)
	}
	if s.Tok == token.DEFINE {
		fresh := false
		for _, n := range names {
			if _, ok := env.vars[n]; !ok && n != "_" {
				fresh = true
			}
		}
		if !fresh {
			return "", g.errf(s, "no new variable on the left of :=")
		}
	}
	// calls of translated / mapped functions
	if code, tys, hasErr, ok, err := g.monadicCall(rhs, env); err != nil {
		return "", err
	} else if ok {
		want := len(tys)
		if hasErr {
			want++
		}
		if len(names) != want {
			return "", g.errf(s, "%d variables for %d results", len(names), want)
		}
		for i, ty := range tys {
			if err := bind(names[i], ty); err != nil {
				return "", err
			}
		}
		var pat []string
		for _, n := range names {
			pat = append(pat, coqName(n))
		}
		if hasErr {
			if len(tys) != 1 {
				return "", g.errf(s, "unsupported result list")
			}
			if err := bind(names[len(names)-1], taErr); err != nil {
				return "", err
			}
			return fmt.Sprintf("do (%s) <- split_err %s %s;", strings.Join(pat, ", "), taZero[tys[0]], code), nil
		}
		if len(pat) == 1 {
			return fmt.Sprintf("do %s <- %s;", pat[0], code), nil
		}
		return fmt.Sprintf("do (%s) <- %s;", strings.Join(pat, ", "), code), nil
	}
	// v, ok := m[k]
	if len(names) == 2 {
		ix, ok := rhs.(*ast.IndexExpr)
		if !ok {
			return "", g.errf(s, "unsupported tuple assignment")
		}
		m, err := g.expr(ix.X, env, "")
		if err != nil {
			return "", err
		}
		if m.ty != taMap && m.ty != taEpsg {
			return "", g.errf(s, "comma-ok on %s", m.ty)
		}
		k, err := g.exprAs(ix.Index, env, taInt)
		if err != nil {
			return "", err
		}
		elem, get := taTM, "map_get "+m.code
		if m.ty == taEpsg {
			elem, get = taBool, "epsg_get"
		}
		if err := bind(names[0], elem); err != nil {
			return "", err
		}
		if err := bind(names[1], taBool); err != nil {
			return "", err
		}
		return fmt.Sprintf("let '(%s, %s) := %s %s in", coqName(names[0]), coqName(names[1]), get, k), nil
	}
	if len(names) != 1 {
		return "", g.errf(s, "unsupported tuple assignment")
	}
	want := env.vars[names[0]]
	v, err := g.expr(rhs, env, want)
	if err != nil {
		return "", err
	}
	ty := v.ty
	if ty == taLit || ty == taNil {
		if want == "" {
			return "", g.errf(s, "untyped constant assigned to a new variable")
		}
		ty = want
	}
	code, err := g.coerce(rhs, v, ty)
	if err != nil {
		return "", err
	}
	if _, ok := taCoqTy[ty]; !ok {
		return "", g.errf(s, "a variable of type %s is not supported", ty)
	}
	if ty == taTileP || ty == taTMS {
		return "", g.errf(s, "assignment to a pointer variable is not supported")
	}
	if err := bind(names[0], ty); err != nil {
		return "", err
	}
	return fmt.Sprintf("let %s := %s in", coqName(names[0]), code), nil
}

func (g *ta) ret(s *ast.ReturnStmt, env *taEnv) (string, error) {
	sig := g.cur
	want := len(sig.results)
	if sig.hasErr {
		want++
	}
	if len(s.Results) != want {
		return "", g.errf(s, "return with %d values, %d expected", len(s.Results), want)
	}
	var vals []string
	for i, r := range sig.results {
		c, err := g.exprAs(s.Results[i], env, r.ty)
		if err != nil {
			return "", err
		}
		vals = append(vals, c)
	}
	tuple := vals[0]
	if len(vals) > 1 {
		tuple = "(" + strings.Join(vals, ", ") + ")"
	}
	if !sig.hasErr {
		return "Ok " + tuple, nil
	}
	e := s.Results[want-1]
	switch x := e.(type) {
	case *ast.Ident:
		if x.Name == "nil" {
			return "Ok " + tuple, nil
		}
		if env.vars[x.Name] == taErr {
			return fmt.Sprintf("ret_err %s v_%s", tuple, x.Name), nil
		}
	case *ast.CallExpr:
		switch types.ExprString(x.Fun) {
		case "fmt.Errorf", "errors.New":
			return "Error", nil
		}
	}
	return "", g.errf(e, "unsupported error value %s", types.ExprString(e))
}

// ---- declarations ----------------------------------------------------------

func (g *ta) signature(fd *ast.FuncDecl) (*taSig, error) {
	sig := &taSig{goName: fd.Name.Name, coqName: "gen_" + fd.Name.Name, decl: fd}
	add := func(fl *ast.FieldList, results bool) error {
		if fl == nil {
			return nil
		}
		for _, f := range fl.List {
			gty := types.ExprString(f.Type)
			ty, ok := taGoTy[gty]
			if !ok {
				return g.errf(f, "unsupported type %s", gty)
			}
			names := f.Names
			if len(names) == 0 {
				if !results {
					return g.errf(f, "unnamed parameter")
				}
				names = []*ast.Ident{{Name: ""}}
			}
			for _, n := range names {
				if results {
					sig.results = append(sig.results, taParam{n.Name, ty})
				} else {
					sig.params = append(sig.params, taParam{n.Name, ty})
				}
			}
		}
		return nil
	}
	if err := add(fd.Recv, false); err != nil {
		return nil, err
	}
	if err := add(fd.Type.Params, false); err != nil {
		return nil, err
	}
	if err := add(fd.Type.Results, true); err != nil {
		return nil, err
	}
	if n := len(sig.results); n > 0 && sig.results[n-1].ty == taErr {
		sig.hasErr, sig.errName = true, sig.results[n-1].name
		sig.results = sig.results[:n-1]
	}
	for _, r := range sig.results {
		if r.ty == taErr {
			return nil, g.errf(fd, "an error that is not the last result")
		}
	}
	if len(sig.results) == 0 {
		return nil, g.errf(fd, "a function without results")
	}
	return sig, nil
}

func (g *ta) resultType(sig *taSig) string {
	var tys []string
	for _, r := range sig.results {
		tys = append(tys, strings.TrimSuffix(taCoqTy[r.ty], "%type"))
	}
	if len(tys) == 1 {
		return "outcome " + tys[0]
	}
	return "outcome (" + strings.Join(tys, " * ") + ")"
}

func (g *ta) function(sig *taSig) (string, error) {
	g.cur, g.n, g.pre = sig, 0, nil
	env := &taEnv{vars: map[string]string{}, deref: map[string]string{}}
	var b strings.Builder
	head := strings.SplitN(g.print(&ast.FuncDecl{Recv: sig.decl.Recv, Name: sig.decl.Name, Type: sig.decl.Type}), "\n", 2)[0]
	head = strings.ReplaceAll(strings.ReplaceAll(head, "(*", "( *"), "*)", "* )")
	fmt.Fprintf(&b, "(* tms20/tms20.go: %s *)\n", head)
	fmt.Fprintf(&b, "Definition %s", sig.coqName)
	for _, p := range sig.params {
		env.declare(p.name, p.ty)
		fmt.Fprintf(&b, " (v_%s : %s)", p.name, taCoqTy[p.ty])
	}
	fmt.Fprintf(&b, " : %s :=\n", g.resultType(sig))
	named := append([]taParam{}, sig.results...)
	if sig.hasErr {
		named = append(named, taParam{sig.errName, taErr})
	}
	for _, r := range named {
		if r.name == "" || r.name == "_" {
			continue
		}
		if _, dup := env.vars[r.name]; dup {
			return "", g.errf(sig.decl, "result %s has the name of a parameter", r.name)
		}
		env.declare(r.name, r.ty)
		fmt.Fprintf(&b, "  let v_%s := %s in\n", r.name, taZero[r.ty])
	}
	body, err := g.block(sig.decl.Body.List, env, "  ", func(at ast.Node) (string, error) { return "", g.errf(at, "missing return") }, sig.decl)
	if err != nil {
		return "", err
	}
	b.WriteString(strings.TrimRight(body, "\n"))
	b.WriteString(".\n\n")
	return b.String(), nil
}

// checkDecls: the package-level declarations the translation relies on
func (g *ta) checkDecls() error {
	have := map[string]bool{}
	structs := map[string]*ast.StructType{}
	for _, d := range g.file.Decls {
		switch d := d.(type) {
		case *ast.GenDecl:
			for _, sp := range d.Specs {
				switch sp := sp.(type) {
				case *ast.TypeSpec:
					if st, ok := sp.Type.(*ast.StructType); ok {
						structs[sp.Name.Name] = st
						continue
					}
					eq := " "
					if sp.Assign.IsValid() {
						eq = " = "
					}
					have["type "+sp.Name.Name+eq+types.ExprString(sp.Type)] = true
				case *ast.ValueSpec:
					if d.Tok == token.VAR && len(sp.Values) == len(sp.Names) {
						for i, n := range sp.Names {
							if alts, ok := taRegexpAlternatives(sp.Values[i]); ok {
								g.regexps[n.Name] = alts
							}
						}
					}
					if d.Tok != token.CONST || sp.Type == nil || len(sp.Values) != len(sp.Names) {
						continue
					}
					for i, n := range sp.Names {
						have[fmt.Sprintf("const %s %s = %s", n.Name, types.ExprString(sp.Type), types.ExprString(sp.Values[i]))] = true
					}
				case *ast.ImportSpec:
					p := strings.Trim(sp.Path.Value, `"`)
					name := filepath.Base(p)
					if sp.Name != nil {
						name = sp.Name.Name
					}
					have["import "+name+" "+p] = true
				}
			}
		case *ast.FuncDecl:
			have[strings.SplitN(g.print(&ast.FuncDecl{Recv: d.Recv, Name: d.Name, Type: d.Type}), "\n", 2)[0]] = true
		}
	}
	for _, w := range taDecls {
		if !have[w] {
			return fmt.Errorf("tms20.go: declaration `%s` not found", w)
		}
	}
	for name, p := range taImports {
		if !have["import "+name+" "+p] {
			return fmt.Errorf("tms20.go: import %s %q not found", name, p)
		}
	}
	if !have["func roundFloat(f float64, p uint) float64"] {
		return fmt.Errorf("tms20.go: `func roundFloat(f float64, p uint) float64` not found (its calls are mapped to the identity of the model)")
	}
	for st, fields := range taFields {
		decl, ok := structs[st]
		if !ok {
			return fmt.Errorf("tms20.go: struct %s not found", st)
		}
		got := map[string]string{}
		for _, f := range decl.Fields.List {
			for _, n := range f.Names {
				got[n.Name] = types.ExprString(f.Type)
			}
		}
		for name, f := range fields {
			if got[name] != f.goTy {
				return fmt.Errorf("tms20.go: field %s.%s has type %q, expected %q", st, name, got[name], f.goTy)
			}
		}
	}
	return nil
}

// regexp.MustCompile(`^(p1|p2|..)`) with alternatives of literal characters (\( and \) escaped): the alternatives
func taRegexpAlternatives(x ast.Expr) ([]string, bool) {
	c, ok := x.(*ast.CallExpr)
	if !ok || types.ExprString(c.Fun) != "regexp.MustCompile" || len(c.Args) != 1 {
		return nil, false
	}
	lit, ok := c.Args[0].(*ast.BasicLit)
	if !ok || lit.Kind != token.STRING {
		return nil, false
	}
	pat, err := strconv.Unquote(lit.Value)
	if err != nil || !strings.HasPrefix(pat, "^(") || !strings.HasSuffix(pat, ")") {
		return nil, false
	}
	pat = pat[2 : len(pat)-1]
	var alts []string
	cur := ""
	for i := 0; i < len(pat); i++ {
		ch := pat[i]
		switch {
		case ch == '\\':
			if i+1 >= len(pat) || (pat[i+1] != '(' && pat[i+1] != ')') {
				return nil, false
			}
			i++
			cur += string(pat[i])
		case ch == '|':
			alts = append(alts, cur)
			cur = ""
		case strings.IndexByte(`.+*?()[]{}^$`, ch) >= 0 || ch < 32 || ch > 126:
			return nil, false
		default:
			cur += string(ch)
		}
	}
	alts = append(alts, cur)
	for _, a := range alts {
		if a == "" {
			return nil, false
		}
	}
	return alts, true
}

// the EPSG table of tms20/epsg_axis_order.go (regenerated as data into TmsData.v) must be a map[uint]bool literal
func taCheckEpsg(path string) error {
	fset := token.NewFileSet()
	f, err := parser.ParseFile(fset, path, nil, 0)
	if err != nil {
		return err
	}
	found := false
	ast.Inspect(f, func(n ast.Node) bool {
		if vs, ok := n.(*ast.ValueSpec); ok {
			for i, nm := range vs.Names {
				if nm.Name == "epsgAxesAreLatLon" && i < len(vs.Values) {
					if cl, ok := vs.Values[i].(*ast.CompositeLit); ok && cl.Type != nil && types.ExprString(cl.Type) == "map[uint]bool" {
						found = true
					}
				}
			}
		}
		return true
	})
	if !found {
		return fmt.Errorf("%s: epsgAxesAreLatLon = map[uint]bool{..} not found", path)
	}
	return nil
}

var taFuncs = []string{"roundFloat", "axisOrderIsLatLon", "IsLatLon", "ToXYPoint", "MatrixSize", "FromNative", "ToNative", "MatrixBoundingBox"}

func genTmsAddr(repo string) (string, error) {
	g := &ta{fset: token.NewFileSet(), sigs: map[string]*taSig{}, regexps: map[string][]string{},
		consts: map[string]string{"TopLeft": "TopLeft", "BottomLeft": "BottomLeft", "CoordPrecision": "gen_tms20_CoordPrecision"}}
	path := filepath.Join(repo, "tms20", "tms20.go")
	f, err := parser.ParseFile(g.fset, path, nil, 0)
	if err != nil {
		return "", err
	}
	g.file = f
	if err := g.checkDecls(); err != nil {
		return "", err
	}
	if err := taCheckEpsg(filepath.Join(repo, "tms20", "epsg_axis_order.go")); err != nil {
		return "", err
	}
	g.epsg = true
	decls := map[string]*ast.FuncDecl{}
	for _, d := range f.Decls {
		if fd, ok := d.(*ast.FuncDecl); ok && fd.Body != nil {
			if fd.Recv != nil {
				if len(fd.Recv.List) != 1 || types.ExprString(fd.Recv.List[0].Type) != "*TileMatrixSet" {
					continue
				}
			}
			if _, dup := decls[fd.Name.Name]; dup {
				decls[fd.Name.Name] = nil
				continue
			}
			decls[fd.Name.Name] = fd
		}
	}
	var b strings.Builder
	b.WriteString(`(* GENERATED by /verif/translator (tmsaddr.go) on every run from tms20/tms20.go -- do not edit.

   roundFloat, axisOrderIsLatLon, IsLatLon, ToXYPoint, TileMatrixSet.MatrixSize, FromNative, ToNative, MatrixBoundingBox,
   translated statement by statement into the monad [outcome] of Tms/Model.v with the vocabulary of Tms/GoAddr.v.

   READING (trusted): float64 arithmetic is EXACT rational arithmetic over Q (+ - * / the field operations, < = Qltb,
   float64(u) = inject_Z u, uint(f) = truncation toward zero, a float64 field of a tile matrix = the decimal of the
   document); the float envelope of the implementation is held by the run-time correspondence C15, not here.
   uint / int / TMID are exact Z.  Pointers that are dereferenced are options (nil = Panic); the receiver is not nil.
   A non-nil error is [Error], panic(..) is [Panic]; a data type is the model's (tms, tileMatrix, corner, crs).

   MAPPED to the model, not translated (shape of the call and the declarations checked in the AST before translating):
     crs.Authority() / .Version() / .Code() = crs_authority / crs_version / crs_code  (crs_avc of Tms/Model.v)
     strings.ToLower = to_lower;  fmt.Sprintf of %s verbs = append;  strconv.ParseUint(s, 10, 64) = parse_uint_res
     R.Match(s) for R = regexp.MustCompile("^(p1|p2|..)") with literal alternatives = prefix_any [p1; p2; ..] s
     v, ok := epsgAxesAreLatLon[k] = epsg_get k  (the map literal as regenerated into TmsData.v)
     CALLS of roundFloat(f, p) = roundFloat_modelled f p = f  (9-decimal rounding is the identity of the model;
                                gen_roundFloat below is the translation of its body: math.Pow(10, e) = go_pow10 e,
                                math.Round = go_round; Tms/ProofsGenAddr.v bounds its distance from the identity)
     slippy.NewTile(z, x, y)  = newTile z x y = Some (z, x, y);  tile.Z / .X / .Y = tileZ / tileX / tileY
     (geom.Point).X() / .Y()  = fst / snd
     fmt.Errorf(..), errors.New(..) as a returned error = Error *)
From Coq Require Import ZArith QArith String List Bool.
From Texel Require Import Tms.Json Tms.Model Tms.GoAddr.
From Texel.Gen Require Import ConstsGen.
Import ListNotations.
Open Scope Z_scope.

`)
	for _, name := range taFuncs {
		fd := decls[name]
		if fd == nil {
			return "", fmt.Errorf("tms20.go: function %s not found (or declared twice)", name)
		}
		sig, err := g.signature(fd)
		if err != nil {
			return "", err
		}
		src, err := g.function(sig)
		if err != nil {
			return "", err
		}
		g.sigs[name] = sig
		b.WriteString(src)
	}
	return b.String(), nil
}
