package main

import (
	"fmt"
	"go/ast"
	"go/token"
	"go/types"
)

// ---------------------------------------------------------------------------
// match.go, continued: the constructs the repair of F16 brought into matchInnersToPolygons.
//
//   cancelledBy := make(map[int]int, n)          -> [] : imap (MatchSupport.v); the capacity is a hint only
//   cancelledBy[k] = v                           -> im_set m k v
//   if v, ok := cancelledBy[k]; cond { .. }      -> let v := im_get m k in let ok := im_has m k in if cond ..
//                                                   (v and ok are visible in the condition and the branches only)
//   for i, x := range s                          -> range_loop over go_enum s = [(0, s[0]); (1, s[1]); ..]
//   ringsAreEqual(a, b, c, d)                    -> the model's ringsAreEqual (mgExternals in match.go)
//
// A Go map[int]int is modelled as an association list (imap, Snap/MatchSupport.v): the only operations are
// store and comma-ok lookup, no iteration (iteration order is random in Go: `range` over such a map stays a
// translation error because mgElem does not know the type), no delete, no len.
// ---------------------------------------------------------------------------

const (
	mgDocEnum  = "for i, x := range s  ->  range_loop over go_enum s (MatchSupport.v): the pairs (i, s[i]), i = 0 .. len(s)-1, length and elements read from the slice as it was when the loop started (the body does not assign s)"
	mgDocMake  = "make(map[int]int, n)  ->  [] : imap (MatchSupport.v; a Go map with int keys and values as an association list; the capacity is a hint only)"
	mgDocStore = "m[k] = v on a map[int]int  ->  im_set m k v (MatchSupport.v; replaces the value of a present key)"
	mgDocLook  = "if v, ok := m[k]; .. on a map[int]int  ->  v = im_get m k (0 when absent), ok = im_has m k (MatchSupport.v)"
)

// makeIntMap: make(map[int]int) / make(map[int]int, n)
func (m *mg) makeIntMap(env *mgEnv, x *ast.CallExpr, binds *[]string) ([]mgVal, error) {
	if len(x.Args) < 1 || len(x.Args) > 2 {
		return nil, fmt.Errorf("unsupported make")
	}
	mt, ok := x.Args[0].(*ast.MapType)
	if !ok || types.ExprString(mt.Key) != "int" || types.ExprString(mt.Value) != "int" {
		return nil, fmt.Errorf("make is only supported for map[int]int, not %s", types.ExprString(x.Args[0]))
	}
	if m.shadowed(env, "int") {
		return nil, fmt.Errorf("int is not the builtin type here")
	}
	if len(x.Args) == 2 {
		// the size must not panic (negative) and must have no effect: a plain int variable or literal
		if err := m.pureArg(env, x.Args[1]); err != nil {
			return nil, fmt.Errorf("make: %v", err)
		}
		v, err := m.expr(env, x.Args[1], binds)
		if err != nil {
			return nil, err
		}
		if v.ty != mInt {
			return nil, fmt.Errorf("make: the size is not an int")
		}
		if v.lit && len(v.code) > 1 && v.code[1] == '-' {
			return nil, fmt.Errorf("make: negative size")
		}
		if !v.lit {
			// a variable: it must be a length (never negative); accept only `n := len(..)` style names is not
			// decidable here, so require that the variable is never assigned after its definition from len(..)
			id := x.Args[1].(*ast.Ident)
			if !m.lenVars[id.Name] {
				return nil, fmt.Errorf("make: the size %s is not a variable defined once as len(..)", id.Name)
			}
		}
	}
	m.used[mgDocMake] = true
	return []mgVal{{code: "(@nil (Z * Z))", ty: mIMap}}, nil
}

// intMapStore: m[k] = v
func (m *mg) intMapStore(env *mgEnv, s *ast.AssignStmt, name string, key ast.Expr) ([]string, error) {
	if s.Tok != token.ASSIGN || len(s.Rhs) != 1 {
		return nil, fmt.Errorf("only m[k] = v is supported on a map[int]int")
	}
	var lines []string
	k, err := m.expr(env, key, &lines)
	if err != nil {
		return nil, err
	}
	if k, err = m.conv(k, mInt); err != nil {
		return nil, fmt.Errorf("map key: %v", err)
	}
	v, err := m.expr(env, s.Rhs[0], &lines)
	if err != nil {
		return nil, err
	}
	if v, err = m.conv(v, mInt); err != nil {
		return nil, fmt.Errorf("map value: %v", err)
	}
	m.used[mgDocStore] = true
	lines = append(lines, fmt.Sprintf("let v_%s := (im_set v_%s %s %s) in", name, name, k.code, v.code))
	return lines, nil
}

// intMapLookupInit: the init statement `v, ok := m[k]` of an if; returns the environment of the if statement
func (m *mg) intMapLookupInit(env *mgEnv, init ast.Stmt) (*mgEnv, []string, error) {
	bad := fmt.Errorf("the only supported if-init is v, ok := m[k] on a map[int]int")
	a, ok := init.(*ast.AssignStmt)
	if !ok || a.Tok != token.DEFINE || len(a.Lhs) != 2 || len(a.Rhs) != 1 {
		return nil, nil, bad
	}
	vId, ok1 := a.Lhs[0].(*ast.Ident)
	okId, ok2 := a.Lhs[1].(*ast.Ident)
	ix, ok3 := a.Rhs[0].(*ast.IndexExpr)
	if !ok1 || !ok2 || !ok3 || vId.Name == "_" || okId.Name == "_" || vId.Name == okId.Name {
		return nil, nil, bad
	}
	mId, ok := ix.X.(*ast.Ident)
	if !ok || env.vars[mId.Name] != mIMap {
		return nil, nil, bad
	}
	for _, n := range []string{vId.Name, okId.Name} {
		if _, exists := env.vars[n]; exists {
			return nil, nil, fmt.Errorf("if-init: %s shadows a variable", n)
		}
		if m.nilChecked[n] {
			return nil, nil, fmt.Errorf("if-init: %s is compared with nil", n)
		}
	}
	var lines []string
	k, err := m.expr(env, ix.Index, &lines)
	if err != nil {
		return nil, nil, err
	}
	if k, err = m.conv(k, mInt); err != nil {
		return nil, nil, fmt.Errorf("map key: %v", err)
	}
	m.used[mgDocLook] = true
	envI := env.clone()
	envI.declare(vId.Name, mInt)
	envI.declare(okId.Name, mBool)
	lines = append(lines,
		fmt.Sprintf("let v_%s := (im_get v_%s %s) in", vId.Name, mId.Name, k.code),
		fmt.Sprintf("let v_%s := (im_has v_%s %s) in", okId.Name, mId.Name, k.code))
	return envI, lines, nil
}

// mgLenVars: variables of the function that are defined exactly once, by `n := len(..)`, and never assigned
// again (so they are never negative: a valid size for make)
func mgLenVars(fd *ast.FuncDecl) map[string]bool {
	defs, other := map[string]int{}, map[string]bool{}
	ast.Inspect(fd.Body, func(n ast.Node) bool {
		switch n := n.(type) {
		case *ast.AssignStmt:
			isLen := false
			if len(n.Lhs) == 1 && len(n.Rhs) == 1 && n.Tok == token.DEFINE {
				if c, ok := n.Rhs[0].(*ast.CallExpr); ok {
					if f, ok := c.Fun.(*ast.Ident); ok && f.Name == "len" && len(c.Args) == 1 {
						isLen = true
					}
				}
			}
			for _, l := range n.Lhs {
				if id, ok := l.(*ast.Ident); ok {
					if isLen {
						defs[id.Name]++
					} else {
						other[id.Name] = true
					}
				}
			}
		case *ast.IncDecStmt:
			if id, ok := n.X.(*ast.Ident); ok {
				other[id.Name] = true
			}
		case *ast.RangeStmt:
			for _, e := range []ast.Expr{n.Key, n.Value} {
				if id, ok := e.(*ast.Ident); ok {
					other[id.Name] = true
				}
			}
		case *ast.UnaryExpr:
			if id, ok := n.X.(*ast.Ident); ok && n.Op == token.AND {
				other[id.Name] = true
			}
		case *ast.ValueSpec:
			for _, id := range n.Names {
				other[id.Name] = true
			}
		}
		return true
	})
	out := map[string]bool{}
	for n, c := range defs {
		if c == 1 && !other[n] {
			out[n] = true
		}
	}
	return out
}
