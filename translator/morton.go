package main

import (
	"fmt"
	"go/ast"
	"go/parser"
	"go/token"
	"math/big"
	"path/filepath"
	"sort"
	"strings"
)

// ---------------------------------------------------------------------------
// G1: morton.go -> deep-embedded bit-vector expressions (bexpr)
//
// The functions ToZ and FromZ are executed symbolically: loops with constant
// bounds are unrolled, array elements at constant indices are constants, and
// every uint-valued expression over the parameters becomes a term of
//
//   bexpr ::= BVar n | BConst c | BOr a b | BAnd a b | BXor a b | BShl a k | BShr a k
//
// whose evaluator (Bits/Bexpr.v) works modulo 2^64.  Boolean results become
// bcond terms.
// ---------------------------------------------------------------------------

type sval struct {
	isConst bool
	c       *big.Int // when isConst
	e       string   // bexpr term otherwise
	isCond  bool     // e is a bcond term
}

func konst(i int64) sval { return sval{isConst: true, c: big.NewInt(i)} }

func (v sval) bexpr() string {
	if v.isConst {
		return fmt.Sprintf("(BConst %s)", v.c.String())
	}
	return v.e
}

type symEnv struct {
	lets   []string // "name := term" in order; keeps generated terms linear in the size of the source
	vars   map[string]sval
	arrays map[string][]*big.Int
	consts map[string]*big.Int // qualified constants such as math.MaxUint32
	steps  int
}

var mathConsts = map[string]string{
	"math.MaxUint32": "4294967295",
	"math.MaxUint64": "18446744073709551615",
	"math.MaxInt64":  "9223372036854775807",
	"math.MaxInt32":  "2147483647",
	"math.MaxUint16": "65535",
	"math.MaxUint8":  "255",
}

func parseIntLit(s string) (*big.Int, error) {
	s = strings.ReplaceAll(s, "_", "")
	z := new(big.Int)
	if _, ok := z.SetString(s, 0); !ok {
		return nil, fmt.Errorf("cannot parse integer literal %q", s)
	}
	return z, nil
}

func (env *symEnv) eval(x ast.Expr) (sval, error) {
	switch x := x.(type) {
	case *ast.ParenExpr:
		return env.eval(x.X)
	case *ast.BasicLit:
		if x.Kind != token.INT {
			return sval{}, fmt.Errorf("unsupported literal %s", x.Value)
		}
		z, err := parseIntLit(x.Value)
		if err != nil {
			return sval{}, err
		}
		return sval{isConst: true, c: z}, nil
	case *ast.Ident:
		if v, ok := env.vars[x.Name]; ok {
			return v, nil
		}
		return sval{}, fmt.Errorf("unknown identifier %s", x.Name)
	case *ast.SelectorExpr:
		if id, ok := x.X.(*ast.Ident); ok {
			if c, ok := mathConsts[id.Name+"."+x.Sel.Name]; ok {
				z, _ := new(big.Int).SetString(c, 10)
				return sval{isConst: true, c: z}, nil
			}
		}
		return sval{}, fmt.Errorf("unsupported selector")
	case *ast.IndexExpr:
		id, ok := x.X.(*ast.Ident)
		if !ok {
			return sval{}, fmt.Errorf("unsupported index base")
		}
		arr, ok := env.arrays[id.Name]
		if !ok {
			return sval{}, fmt.Errorf("unknown array %s", id.Name)
		}
		iv, err := env.eval(x.Index)
		if err != nil {
			return sval{}, err
		}
		if !iv.isConst {
			return sval{}, fmt.Errorf("non-constant index into %s", id.Name)
		}
		if !iv.c.IsInt64() || iv.c.Int64() < 0 || iv.c.Int64() >= int64(len(arr)) {
			return sval{}, fmt.Errorf("index %s out of range for %s (len %d): the Go code would panic", iv.c, id.Name, len(arr))
		}
		return sval{isConst: true, c: arr[iv.c.Int64()]}, nil
	case *ast.CallExpr:
		// conversions uint(x), Z(x), uint64(x) are the identity here
		if id, ok := x.Fun.(*ast.Ident); ok && len(x.Args) == 1 {
			switch id.Name {
			case "uint", "uint64", "Z":
				return env.eval(x.Args[0])
			}
		}
		return sval{}, fmt.Errorf("unsupported call")
	case *ast.BinaryExpr:
		a, err := env.eval(x.X)
		if err != nil {
			return sval{}, err
		}
		b, err := env.eval(x.Y)
		if err != nil {
			return sval{}, err
		}
		return env.binop(x.Op, a, b)
	}
	return sval{}, fmt.Errorf("unsupported expression %T", x)
}

var two64 = new(big.Int).Lsh(big.NewInt(1), 64)

func (env *symEnv) binop(op token.Token, a, b sval) (sval, error) {
	if a.isCond || b.isCond {
		if op == token.LAND && a.isCond && b.isCond {
			return sval{e: fmt.Sprintf("(CAnd %s %s)", a.e, b.e), isCond: true}, nil
		}
		if op == token.LOR && a.isCond && b.isCond {
			return sval{e: fmt.Sprintf("(COr %s %s)", a.e, b.e), isCond: true}, nil
		}
		return sval{}, fmt.Errorf("unsupported boolean operator %s", op)
	}
	if a.isConst && b.isConst {
		z := new(big.Int)
		switch op {
		case token.ADD:
			z.Add(a.c, b.c)
		case token.SUB:
			z.Sub(a.c, b.c)
		case token.MUL:
			z.Mul(a.c, b.c)
		case token.OR:
			z.Or(a.c, b.c)
		case token.AND:
			z.And(a.c, b.c)
		case token.XOR:
			z.Xor(a.c, b.c)
		case token.SHL:
			z.Lsh(a.c, uint(b.c.Uint64()))
			z.Mod(z, two64)
		case token.SHR:
			z.Rsh(a.c, uint(b.c.Uint64()))
		default:
			return sval{}, fmt.Errorf("unsupported constant operator %s", op)
		}
		return sval{isConst: true, c: z}, nil
	}
	switch op {
	case token.OR:
		return sval{e: fmt.Sprintf("(BOr %s %s)", a.bexpr(), b.bexpr())}, nil
	case token.AND:
		return sval{e: fmt.Sprintf("(BAnd %s %s)", a.bexpr(), b.bexpr())}, nil
	case token.XOR:
		return sval{e: fmt.Sprintf("(BXor %s %s)", a.bexpr(), b.bexpr())}, nil
	case token.ADD:
		return sval{e: fmt.Sprintf("(BAdd %s %s)", a.bexpr(), b.bexpr())}, nil
	case token.SHL, token.SHR:
		if !b.isConst {
			return sval{}, fmt.Errorf("shift by a non-constant amount")
		}
		if b.c.Sign() < 0 {
			return sval{}, fmt.Errorf("negative shift count: the Go code would panic")
		}
		k := b.c.String()
		if op == token.SHL {
			return sval{e: fmt.Sprintf("(BShl %s %s)", a.bexpr(), k)}, nil
		}
		return sval{e: fmt.Sprintf("(BShr %s %s)", a.bexpr(), k)}, nil
	case token.LEQ:
		return sval{e: fmt.Sprintf("(CLe %s %s)", a.bexpr(), b.bexpr()), isCond: true}, nil
	case token.LSS:
		return sval{e: fmt.Sprintf("(CLt %s %s)", a.bexpr(), b.bexpr()), isCond: true}, nil
	case token.GEQ:
		return sval{e: fmt.Sprintf("(CLe %s %s)", b.bexpr(), a.bexpr()), isCond: true}, nil
	case token.GTR:
		return sval{e: fmt.Sprintf("(CLt %s %s)", b.bexpr(), a.bexpr()), isCond: true}, nil
	}
	return sval{}, fmt.Errorf("unsupported operator %s", op)
}

func (env *symEnv) constCond(x ast.Expr) (bool, error) {
	be, ok := x.(*ast.BinaryExpr)
	if !ok {
		return false, fmt.Errorf("unsupported loop condition")
	}
	a, err := env.eval(be.X)
	if err != nil {
		return false, err
	}
	b, err := env.eval(be.Y)
	if err != nil {
		return false, err
	}
	if !a.isConst || !b.isConst {
		return false, fmt.Errorf("loop condition is not constant")
	}
	c := a.c.Cmp(b.c)
	switch be.Op {
	case token.LSS:
		return c < 0, nil
	case token.LEQ:
		return c <= 0, nil
	case token.GTR:
		return c > 0, nil
	case token.GEQ:
		return c >= 0, nil
	case token.NEQ:
		return c != 0, nil
	case token.EQL:
		return c == 0, nil
	}
	return false, fmt.Errorf("unsupported loop condition operator")
}

// exec runs statements; returns (returned, results)
func (env *symEnv) exec(stmts []ast.Stmt, results []string) (bool, []sval, error) {
	for _, st := range stmts {
		env.steps++
		if env.steps > 100000 {
			return false, nil, fmt.Errorf("symbolic execution does not terminate within 100000 steps")
		}
		switch st := st.(type) {
		case *ast.AssignStmt:
			if len(st.Lhs) != len(st.Rhs) {
				return false, nil, fmt.Errorf("unsupported assignment arity")
			}
			vals := make([]sval, len(st.Rhs))
			for i := range st.Rhs {
				v, err := env.eval(st.Rhs[i])
				if err != nil {
					return false, nil, err
				}
				vals[i] = v
			}
			for i := range st.Lhs {
				id, ok := st.Lhs[i].(*ast.Ident)
				if !ok {
					return false, nil, fmt.Errorf("unsupported assignment target")
				}
				switch st.Tok {
				case token.ASSIGN, token.DEFINE:
					v := vals[i]
					if !v.isConst && !v.isCond && len(v.e) > 16 {
						name := fmt.Sprintf("%s%d", id.Name, len(env.lets)+1)
						env.lets = append(env.lets, fmt.Sprintf("let %s := %s in", name, v.e))
						v = sval{e: name}
					}
					env.vars[id.Name] = v
				default:
					return false, nil, fmt.Errorf("unsupported assignment operator %s", st.Tok)
				}
			}
		case *ast.IncDecStmt:
			id, ok := st.X.(*ast.Ident)
			if !ok {
				return false, nil, fmt.Errorf("unsupported inc/dec target")
			}
			v := env.vars[id.Name]
			if !v.isConst {
				return false, nil, fmt.Errorf("inc/dec of a symbolic value")
			}
			d := int64(1)
			if st.Tok == token.DEC {
				d = -1
			}
			env.vars[id.Name] = sval{isConst: true, c: new(big.Int).Add(v.c, big.NewInt(d))}
		case *ast.ForStmt:
			if st.Init != nil {
				if _, _, err := env.exec([]ast.Stmt{st.Init}, results); err != nil {
					return false, nil, err
				}
			}
			for {
				ok, err := env.constCond(st.Cond)
				if err != nil {
					return false, nil, err
				}
				if !ok {
					break
				}
				ret, vals, err := env.exec(st.Body.List, results)
				if err != nil || ret {
					return ret, vals, err
				}
				if st.Post != nil {
					if _, _, err := env.exec([]ast.Stmt{st.Post}, results); err != nil {
						return false, nil, err
					}
				}
			}
		case *ast.ReturnStmt:
			var vals []sval
			if len(st.Results) == 0 {
				for _, r := range results {
					v, ok := env.vars[r]
					if !ok {
						return false, nil, fmt.Errorf("named result %s is never assigned", r)
					}
					vals = append(vals, v)
				}
			} else {
				for _, r := range st.Results {
					v, err := env.eval(r)
					if err != nil {
						return false, nil, err
					}
					vals = append(vals, v)
				}
			}
			return true, vals, nil
		default:
			return false, nil, fmt.Errorf("unsupported statement %T", st)
		}
	}
	return false, nil, nil
}

func collectUintArrays(f *ast.File) (map[string][]*big.Int, error) {
	out := map[string][]*big.Int{}
	for _, d := range f.Decls {
		gd, ok := d.(*ast.GenDecl)
		if !ok || gd.Tok != token.VAR {
			continue
		}
		for _, sp := range gd.Specs {
			vs := sp.(*ast.ValueSpec)
			for i, name := range vs.Names {
				if i >= len(vs.Values) {
					continue
				}
				cl, ok := vs.Values[i].(*ast.CompositeLit)
				if !ok {
					continue
				}
				var arr []*big.Int
				good := true
				for _, el := range cl.Elts {
					bl, ok := el.(*ast.BasicLit)
					if !ok || bl.Kind != token.INT {
						good = false
						break
					}
					z, err := parseIntLit(bl.Value)
					if err != nil {
						return nil, err
					}
					arr = append(arr, z)
				}
				if good {
					out[name.Name] = arr
				}
			}
		}
	}
	return out, nil
}

func symExecFunc(f *ast.File, arrays map[string][]*big.Int, name string) (params []string, vals []sval, lets string, err error) {
	for _, d := range f.Decls {
		fd, ok := d.(*ast.FuncDecl)
		if !ok || fd.Name.Name != name || fd.Recv != nil {
			continue
		}
		env := &symEnv{vars: map[string]sval{}, arrays: arrays}
		idx := 0
		for _, p := range fd.Type.Params.List {
			for _, n := range p.Names {
				env.vars[n.Name] = sval{e: fmt.Sprintf("(BVar %d)", idx)}
				params = append(params, n.Name)
				idx++
			}
		}
		var results []string
		if fd.Type.Results != nil {
			for _, r := range fd.Type.Results.List {
				for _, n := range r.Names {
					results = append(results, n.Name)
				}
			}
		}
		ret, vals, err := env.exec(fd.Body.List, results)
		if err != nil {
			return nil, nil, "", fmt.Errorf("%s: %w", name, err)
		}
		if !ret {
			return nil, nil, "", fmt.Errorf("%s: no return reached", name)
		}
		lets := ""
		for _, l := range env.lets {
			lets += "  " + l + "\n"
		}
		return params, vals, lets, nil
	}
	return nil, nil, "", fmt.Errorf("function %s not found", name)
}

func genMorton(repo string) (string, error) {
	path := filepath.Join(repo, "morton", "morton.go")
	fset := token.NewFileSet()
	f, err := parser.ParseFile(fset, path, nil, 0)
	if err != nil {
		return "", err
	}
	arrays, err := collectUintArrays(f)
	if err != nil {
		return "", err
	}
	var b strings.Builder
	b.WriteString("(* GENERATED by /verif/translator from morton/morton.go on every run -- do not edit. *)\n")
	b.WriteString("From Coq Require Import NArith List.\nFrom Texel Require Import Bits.Bexpr.\nImport ListNotations.\nOpen Scope N_scope.\n\n")
	names := make([]string, 0, len(arrays))
	for n := range arrays {
		names = append(names, n)
	}
	sort.Strings(names)
	for _, n := range names {
		var el []string
		for _, z := range arrays[n] {
			el = append(el, z.String())
		}
		fmt.Fprintf(&b, "Definition gen_%s : list N := [%s].\n", n, strings.Join(el, "; "))
	}
	b.WriteString("\n")
	// ToZ(x, y) (z, ok)
	params, vals, lets, err := symExecFunc(f, arrays, "ToZ")
	if err != nil {
		return "", err
	}
	if len(params) != 2 || len(vals) != 2 || vals[0].isCond || !vals[1].isCond {
		return "", fmt.Errorf("ToZ: unexpected signature (want (x, y uint) (z Z, ok bool))")
	}
	fmt.Fprintf(&b, "(* func ToZ(%s) : BVar 0 = %s, BVar 1 = %s *)\n", strings.Join(params, ", "), params[0], params[1])
	fmt.Fprintf(&b, "Definition gen_toZ_z : bexpr :=\n%s  %s.\n", lets, vals[0].bexpr())
	fmt.Fprintf(&b, "Definition gen_toZ_ok : bcond :=\n  %s.\n\n", vals[1].e)
	params, vals, lets, err = symExecFunc(f, arrays, "FromZ")
	if err != nil {
		return "", err
	}
	if len(params) != 1 || len(vals) != 2 || vals[0].isCond || vals[1].isCond {
		return "", fmt.Errorf("FromZ: unexpected signature (want (z Z) (x, y uint))")
	}
	fmt.Fprintf(&b, "(* func FromZ(%s) : BVar 0 = %s *)\n", params[0], params[0])
	fmt.Fprintf(&b, "Definition gen_fromZ_x : bexpr :=\n%s  %s.\n", lets, vals[0].bexpr())
	fmt.Fprintf(&b, "Definition gen_fromZ_y : bexpr :=\n%s  %s.\n", lets, vals[1].bexpr())
	// MustToZ must panic exactly when !ok: checked structurally
	if err := checkMustToZ(f); err != nil {
		return "", err
	}
	b.WriteString("\n(* MustToZ: structurally checked to be `z, ok := ToZ(x, y); if !ok { panic } ; return z` *)\nDefinition gen_mustToZ_panics_iff_not_ok : bool := true.\n")
	return b.String(), nil
}

// checkMustToZ checks the shape of MustToZ: call ToZ(x, y), panic iff !ok, return z.
func checkMustToZ(f *ast.File) error {
	for _, d := range f.Decls {
		fd, ok := d.(*ast.FuncDecl)
		if !ok || fd.Name.Name != "MustToZ" {
			continue
		}
		if len(fd.Body.List) != 3 {
			return fmt.Errorf("MustToZ: unexpected shape (want 3 statements)")
		}
		as, ok := fd.Body.List[0].(*ast.AssignStmt)
		if !ok || len(as.Lhs) != 2 || len(as.Rhs) != 1 {
			return fmt.Errorf("MustToZ: first statement is not `z, ok := ToZ(x, y)`")
		}
		call, ok := as.Rhs[0].(*ast.CallExpr)
		if !ok {
			return fmt.Errorf("MustToZ: first statement does not call ToZ")
		}
		if id, ok := call.Fun.(*ast.Ident); !ok || id.Name != "ToZ" || len(call.Args) != 2 {
			return fmt.Errorf("MustToZ: first statement does not call ToZ(x, y)")
		}
		for i, p := range []string{"x", "y"} {
			if id, ok := call.Args[i].(*ast.Ident); !ok || id.Name != p {
				return fmt.Errorf("MustToZ: ToZ is not called with (x, y)")
			}
		}
		zName := as.Lhs[0].(*ast.Ident).Name
		okName := as.Lhs[1].(*ast.Ident).Name
		is, ok := fd.Body.List[1].(*ast.IfStmt)
		if !ok || is.Else != nil || is.Init != nil {
			return fmt.Errorf("MustToZ: second statement is not `if !ok { panic }`")
		}
		ue, ok := is.Cond.(*ast.UnaryExpr)
		if !ok || ue.Op != token.NOT {
			return fmt.Errorf("MustToZ: condition is not !ok")
		}
		if id, ok := ue.X.(*ast.Ident); !ok || id.Name != okName {
			return fmt.Errorf("MustToZ: condition is not !ok")
		}
		if len(is.Body.List) != 1 {
			return fmt.Errorf("MustToZ: if body is not a single panic")
		}
		es, ok := is.Body.List[0].(*ast.ExprStmt)
		if !ok {
			return fmt.Errorf("MustToZ: if body is not a panic")
		}
		pc, ok := es.X.(*ast.CallExpr)
		if !ok {
			return fmt.Errorf("MustToZ: if body is not a panic")
		}
		if id, ok := pc.Fun.(*ast.Ident); !ok || id.Name != "panic" {
			return fmt.Errorf("MustToZ: if body is not a panic")
		}
		rs, ok := fd.Body.List[2].(*ast.ReturnStmt)
		if !ok || len(rs.Results) != 1 {
			return fmt.Errorf("MustToZ: last statement is not `return z`")
		}
		if id, ok := rs.Results[0].(*ast.Ident); !ok || id.Name != zName {
			return fmt.Errorf("MustToZ: does not return z")
		}
		return nil
	}
	return fmt.Errorf("MustToZ not found")
}
