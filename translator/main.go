// Command translator regenerates the machine-derived part of the Coq model
// (coq/gen/*.v) from the current working tree of the repository under
// verification.  Only the Go standard library is used.
//
//	translator -repo /repo -out /verif/coq/gen
//
// Files are only rewritten when their content changes, so that an unchanged
// repository does not trigger a Coq rebuild.
package main

import (
	"bytes"
	"flag"
	"fmt"
	"os"
	"path/filepath"
)

func main() {
	repo := flag.String("repo", "/repo", "repository root")
	out := flag.String("out", "", "output directory for generated .v files")
	flag.Parse()
	if *out == "" {
		fmt.Fprintln(os.Stderr, "missing -out")
		os.Exit(2)
	}
	if err := os.MkdirAll(*out, 0o755); err != nil {
		fatal(err)
	}
	type gen struct {
		file string
		f    func(repo string) (string, error)
	}
	gens := []gen{
		{"MortonGen.v", genMorton},
		{"ConstsGen.v", genConsts},
		{"PointIndexGen.v", genPointIndex},
		{"LineGen.v", genLine},
		{"ChildrenGen.v", genChildren},
		{"FindGen.v", genFind},
		{"HitsGen.v", genHits},
		{"DescentGen.v", genDescent},
		{"KmpGen.v", genKmp},
		{"SnapSmallGen.v", genSnapSmall},
		{"KmpDedupGen.v", genKmpDedup},
		{"CleanupRingGen.v", genCleanupRing},
		{"SplitTailGen.v", genSplitTail},
		{"MatchGen.v", genMatch},
		{"DedupeGen.v", genDedupe},
		{"SplitWalkGen.v", genSplitWalk},
		{"TmsData.v", genTmsData},
		{"CliGen.v", genCli},
		{"CliMainGen.v", genCliMain},
		{"RingHelpersGen.v", genRingHelpers},
		{"QuadTreeGen.v", genQuadTree},
		{"GpkgWriterGen.v", genGpkgWriter},
		{"TmsAddrGen.v", genTmsAddr},
		{"PipeGen.v", genPipe},
		{"PipeDataGen.v", genPipeData},
		{"IndexTopGen.v", genIndexTop},
		{"TmsJsonGen.v", genTmsJson},
		{"TmsLoadGen.v", genTmsLoad},
		{"SnapTopGen.v", genSnapTop},
		{"RingHelpersGen.v", genRingHelpers},
		{"QuadTreeGen.v", genQuadTree},
		{"GpkgWriterGen.v", genGpkgWriter},
		{"GpkgSchemaGen.v", genGpkgSchema},
		{"TmsAddrGen.v", genTmsAddr},
		{"DeviationGen.v", genDeviation},
		{"GeomHelpGen.v", genGeomHelp},
		{"GeomHelpFloatGen.v", genGeomHelpFloat},
	}
	failed := false
	for _, g := range gens {
		src, err := g.f(*repo)
		path := filepath.Join(*out, g.file)
		if err != nil {
			// An untranslatable source is a broken obligation: leave a file that
			// does not compile, with the reason, so that every theorem depending
			// on it fails to check and the check reports it.
			src = fmt.Sprintf("(* GENERATED: translation FAILED: %s *)\nTranslation_failed_see_comment_above.\n", sanitize(err.Error()))
			fmt.Fprintf(os.Stderr, "translator: %s: %v\n", g.file, err)
			failed = true
		}
		old, _ := os.ReadFile(path)
		if !bytes.Equal(old, []byte(src)) {
			if err := os.WriteFile(path, []byte(src), 0o644); err != nil {
				fatal(err)
			}
			fmt.Printf("translator: wrote %s\n", path)
		}
	}
	if failed {
		os.Exit(3)
	}
}

func sanitize(s string) string {
	b := []byte(s)
	for i := range b {
		if b[i] == '*' || b[i] == '(' || b[i] == ')' {
			b[i] = '_'
		}
	}
	return string(b)
}

func fatal(err error) {
	fmt.Fprintln(os.Stderr, "translator:", err)
	os.Exit(2)
}
