package main

import (
	"fmt"
	"go/ast"
	"go/parser"
	"go/token"
	"go/types"
	"path/filepath"
	"regexp"
	"sort"
	"strings"
)

// ---------------------------------------------------------------------------
// G2: the top of snap.go -> gen/SnapTopGen.v
//
//   addPointsAndSnap      (the ring x level loop, as the Go code interleaves it)
//   verticesHitMultiple   (the set of vertices a ring hits more than once)
//
// Same target as kmp.go / match.go / splitwalk.go (the error monad `res`, range loops -> range_loop of
// Prelude/GoLoop.v with one definition gen_<func>_range<N> per loop body), with a walker of its own because these
// functions are about Go MAPS:
//   * map[pointindex.Level]T is an association list `list (nat * T)`: m[k] -> aget m k zero, m[k] = v -> aset m k v
//     (aget / aset of Snap/ModelInterleaved.v), make(map..) -> [];  map[Level]any (a set) is the list of its keys.
//   * `for k := range m` / `for k, v := range m` over a map has NO order in Go.  Every such statement (and every call of
//     a modelled function that ranges over a map itself: ix.SnapClosestPoints) gets a constructor of the generated
//     inductive `gen_site`, whose arguments are the key variables of the enclosing loops (so every EXECUTION of the
//     statement is a different site), and iterates over `gord (GSite<n> ..) keys`: the order is a parameter of the
//     generated function and the theorems quantify over every order.  An enclosing loop without a key variable is a
//     translation error.
//   * delete(m, k) inside `for k := range m`: the iteration is over the keys present when the loop starts, and a key
//     that is no longer present when its turn comes is skipped (Go: "if a map entry that has not yet been reached is
//     removed during iteration, the corresponding iteration value will not be produced"): the body is guarded by
//     `mem_nat k m`.  Writing m[..] inside a loop over m is a translation error.
// Everything outside the subset is a translation error.  The modelled library calls / helpers (used only after the AST
// has been checked for the callee, its import path and its declared signature) are listed in stExternals and
// stMethods; the ones used are printed at the top of the generated file.
// ---------------------------------------------------------------------------

const (
	ttInt      = "int"
	ttBool     = "bool"
	ttLevel    = "level"
	ttPt       = "pt"
	ttSeg      = "seg"
	ttPts      = "pts"
	ttRings    = "rings"
	ttPolys    = "polys"
	ttLevels   = "levels"
	ttLevelSet = "levelset"
	ttIx       = "ix"
	ttConfig   = "config"
	ttOptPt    = "optpt"
	ttHitMap   = "hitmap"
	ttPtSet    = "ptset"
	ttRingIDs  = "ringids"
	ttUnit     = "unit"
	ttUint     = "uint"
	ttTms      = "tms"
	ttRootTM   = "roottm"
	ttInts     = "ints"
	ttErr      = "err"
	ttErrTgt   = "errtarget"
	ttNil      = "nil"
	ttStr      = "str"
	ttMapInt   = "map:int"
	ttTmPolys  = "tmmap:polys"
	ttMapPts   = "map:pts"
	ttMapRings = "map:rings"
	ttMapPolys = "map:polys"
)

var stCoq = map[string]string{ttInt: "Z", ttBool: "bool", ttLevel: "nat", ttPt: "pt", ttSeg: "(pt * pt)%type", ttPts: "(list pt)",
	ttRings: "(list (list pt))", ttPolys: "(list (list (list pt)))", ttLevels: "(list nat)", ttLevelSet: "(list nat)", ttIx: "pindex",
	ttConfig: "config", ttOptPt: "(option pt)", ttHitMap: "hitmap", ttPtSet: "(list pt)", ttRingIDs: "(list nat)", ttUnit: "unit",
	ttUint: "Z", ttTms: "tmsview", ttRootTM: "tmsview", ttInts: "(list Z)", ttErr: "bool", ttErrTgt: "unit", ttMapInt: "(list (nat * Z))",
	ttTmPolys: "(list (Z * list (list (list pt))))",
	ttMapPts:  "(list (nat * list pt))", ttMapRings: "(list (nat * list (list pt)))", ttMapPolys: "(list (nat * list (list (list pt))))"}

const (
	stPointindexPath = "github.com/pdok/texel/pointindex"
	stMapslicePath   = "github.com/pdok/texel/mapslicehelp"
	stGeomhelpPath   = "github.com/pdok/texel/geomhelp"
	stIntgeomPath    = "github.com/pdok/texel/intgeom"
	stGeomPath       = "github.com/go-spatial/geom"
	stTms20Path      = "github.com/pdok/texel/tms20"
)

func stElem(ty string) (string, bool) {
	switch ty {
	case ttPts:
		return ttPt, true
	case ttRings:
		return ttPts, true
	case ttPolys:
		return ttRings, true
	case ttLevels:
		return ttLevel, true
	case ttInts:
		return ttInt, true
	}
	return "", false
}

func stMapVal(ty string) (string, bool) {
	if strings.HasPrefix(ty, "map:") {
		return strings.TrimPrefix(ty, "map:"), true
	}
	return "", false
}

func stZero(ty string) (string, bool) {
	if el, ok := stElem(ty); ok {
		return "(@nil " + stCoq[el] + ")", true
	}
	if ty == ttInt {
		return "0", true
	}
	return "", false
}

// stLevelKey: a value used as the key of a map keyed by pointindex.Level (= uint): nat
func stLevelKey(v stVal) (string, bool) {
	switch v.ty {
	case ttLevel:
		return v.code, true
	case ttUint:
		return "(Z.to_nat " + v.code + ")", true
	}
	return "", false
}

type stVal struct {
	code string
	ty   string
	lit  bool
}

type stEnv struct {
	order []string
	vars  map[string]string
}

func (e *stEnv) clone() *stEnv {
	c := &stEnv{order: append([]string{}, e.order...), vars: map[string]string{}}
	for k, v := range e.vars {
		c.vars[k] = v
	}
	return c
}

func (e *stEnv) declare(n, ty string) {
	if _, ok := e.vars[n]; !ok {
		e.order = append(e.order, n)
	}
	e.vars[n] = ty
}

type stKey struct {
	name string // "" = the loop has no key variable
	ty   string
}

type stCtx struct {
	depth  int             // number of enclosing loops
	tuple  string          // state tuple of the innermost loop
	keys   []stKey         // key variables of the enclosing loops, outermost first
	nonNil map[string]bool // error variables known to be non-nil here
}

type stSite struct {
	n    int
	args []stKey
	doc  string
}

// an external function kept as a call of a regenerated / modelled Coq function
type stExternal struct {
	pkg        string // "" = a function of snap.go; else the import name (mapslicehelp, geomhelp)
	wantType   string
	wantTParam string
	params     []string // "" = the argument is evaluated (it must be a plain variable) and dropped
	results    []string // result types; several = projections (below)
	projs      []string
	coq        string // format over the translated arguments (%[1]s ..)
	monadic    bool
	mutates    int // index+1 of the slice argument the function writes through (statement call; the result replaces it)
	doc        string
}

var stExternals = map[string]stExternal{
	"mapslicehelp.AsKeys": {pkg: "mapslicehelp", wantTParam: "T constraints.Ordered;", wantType: "func(elements []T) map[T]any",
		params: []string{ttLevels}, results: []string{ttLevelSet}, coq: "(as_keys %[1]s)",
		doc: "mapslicehelp.AsKeys(levels)  ->  as_keys levels (SnapTopSupport.v): the set of keys, as a list without repetitions"},
	"mapslicehelp.LastElement": {pkg: "mapslicehelp", wantTParam: "T any;", wantType: "func(elements []T) *T",
		params: []string{ttPts}, results: []string{ttOptPt}, coq: "RingHelpersGen.gen_LastElement %[1]s", monadic: true,
		doc: "mapslicehelp.LastElement(ring)  ->  the REGENERATED RingHelpersGen.gen_LastElement (C06_source_tie_ring_helpers)"},
	"ensureCorrectWindingOrder": {wantType: "func(ring [][2]float64, shouldBeClockwise bool) [][2]float64",
		params: []string{ttPts, ttBool}, results: []string{ttPts}, coq: "SnapSmallGen.gen_ensureCorrectWindingOrder %[1]s %[2]s", monadic: true,
		doc: "ensureCorrectWindingOrder(ring, cw)  ->  the REGENERATED SnapSmallGen.gen_ensureCorrectWindingOrder (C06_source_tie_small)"},
	"cleanupNewVertices": {wantType: "func(newVertices [][2]float64, segment [2][2]float64, level pointindex.Level, lastVertex *[2]float64) [][2]float64",
		params: []string{ttPts, "", "", ttOptPt}, results: []string{ttPts}, coq: "SnapSmallGen.gen_cleanupNewVertices %[1]s %[4]s", monadic: true,
		doc: "cleanupNewVertices(newVertices, segment, level, lastVertex)  ->  the REGENERATED SnapSmallGen.gen_cleanupNewVertices newVertices lastVertex (C06_source_tie_small; segment and level only reach the panic message and are dropped there)"},
	"cleanupNewRing": {wantType: "func(newRing [][2]float64, isOuter bool, hitMultiple map[intgeom.Point][]int, ringIdx int) (outerRings, innerRings, pointsAndLines [][][2]float64)",
		params: []string{ttPts, ttBool, ttHitMap, ttInt}, results: []string{ttRings, ttRings, ttRings}, projs: []string{"(outers %s)", "(inners %s)", "(pointsAndLines %s)"},
		coq: "CleanupRingGen.gen_cleanupNewRing %[1]s %[2]s (hit_multi %[3]s %[4]s)", monadic: true,
		doc: "cleanupNewRing(newRing, isOuter, hitMultiple, ringIdx)  ->  the REGENERATED CleanupRingGen.gen_cleanupNewRing newRing isOuter (hit_multi hitMultiple ringIdx) (C06_source_tie_cleanup_new_ring; hit_multi = membership in verticesHitMultiple(hitMultiple, ringIdx), tied by C08_source_tie_vertices_hit_multiple); the three results are the fields of ringSets"},
	"dedupeInnersOuters": {wantType: "func(outers [][][2]float64, inners [][][2]float64) ([][][2]float64, [][][2]float64)",
		params: []string{ttRings, ttRings}, results: []string{ttRings, ttRings}, projs: []string{"(fst %s)", "(snd %s)"},
		coq: "DedupeGen.gen_dedupeInnersOuters %[1]s %[2]s", monadic: true,
		doc: "dedupeInnersOuters(outers, inners)  ->  the REGENERATED DedupeGen.gen_dedupeInnersOuters (C06_source_tie_dedupe_inners_outers)"},
	"outersToPolygons": {wantType: "func(outers [][][2]float64) [][][][2]float64",
		params: []string{ttRings}, results: []string{ttPolys}, coq: "RingHelpersGen.gen_outersToPolygons %[1]s", monadic: true,
		doc: "outersToPolygons(outers)  ->  the REGENERATED RingHelpersGen.gen_outersToPolygons (C06_source_tie_ring_helpers)"},
	"matchInnersToPolygons": {wantType: "func(polygons [][][][2]float64, innerRings [][][2]float64, hasInners bool) [][][][2]float64",
		params: []string{ttPolys, ttRings, ttBool}, results: []string{ttPolys}, coq: "MatchGen.gen_matchInnersToPolygons %[1]s %[2]s %[3]s", monadic: true,
		doc: "matchInnersToPolygons(polygons, inners, hasInners)  ->  the REGENERATED MatchGen.gen_matchInnersToPolygons (C06_source_tie_match_inners)"},
	"reverseWindingOrderIfConfigured": {wantType: "func(polygons [][][][2]float64, config Config)",
		params: []string{ttPolys, ttConfig}, results: []string{ttPolys}, coq: "RingHelpersGen.gen_reverseWindingOrderIfConfigured %[1]s %[2]s", monadic: true, mutates: 1,
		doc: "reverseWindingOrderIfConfigured(polygons, config) (a statement; writes through its slice argument)  ->  the REGENERATED RingHelpersGen.gen_reverseWindingOrderIfConfigured, whose result replaces the local variable handed in (C06_source_tie_ring_helpers)"},
	"geomhelp.FloatPolygonsToGeomPolygonsForAllKeys": {pkg: "geomhelp", wantTParam: "K comparable;", wantType: "func(floatersPerKey map[K][][][][2]float64) map[K][]geom.Polygon",
		params: []string{ttMapPolys}, results: []string{ttMapPolys}, coq: "(geom_polygons_for_all_keys %[1]s)",
		doc: "geomhelp.FloatPolygonsToGeomPolygonsForAllKeys(m)  ->  geom_polygons_for_all_keys m (SnapTopSupport.v): a type conversion, the identity on the model's values"},
}

// methods of *pointindex.PointIndex kept as the model's functions
type stMethod struct {
	wantType string
	wantBody string // "" = not compared
	params   []string
	result   string
	coq      string // format: %[1]s = the index, %[2]s .. the arguments; with `site`: %[1]s = the order
	site     bool   // the method ranges over a Go map itself: it gets a site, and it changes the index
	doc      string
}

var stMethods = map[string]stMethod{
	"SnapClosestPoints": {wantType: "func(line geom.Line, levelMap map[Level]any, ringID int) map[Level][][2]float64",
		params: []string{ttSeg, ttLevelSet, ttInt}, result: ttMapPts, site: true,
		coq: "px_SnapClosestPoints %[1]s %[2]s %[3]s %[4]s %[5]s",
		doc: "ix.SnapClosestPoints(line, levelMap, ringID)  ->  px_SnapClosestPoints order ix line levelMap ringID (SnapTopSupport.v): the MODEL's routing (Index/Model.v snapAndHit) on every level of levelMap, in the order of the range statement inside SnapClosestPoints (a site of its own); returns the changed index (ix.hitOnce / ix.hitMultiple) and the map level -> centres"},
	"GetHitMultiple": {wantType: "func(l Level) map[intgeom.Point][]int", wantBody: "return ix.hitMultiple[l]",
		params: []string{ttLevel}, result: ttHitMap, coq: "(px_GetHitMultiple %[1]s %[2]s)",
		doc: "ix.GetHitMultiple(level)  ->  px_GetHitMultiple ix level (SnapTopSupport.v; the body `return ix.hitMultiple[l]` is checked)"},
}

var stConfigFields = []lfield{{"KeepPointsAndLines", "keepPointsAndLines"}, {"IgnoreOutsideGrid", "ignoreOutsideGrid"}, {"ReverseWindingOrder", "reverseWindingOrder"}}

type stFile struct {
	funcs   map[string]*ast.FuncDecl
	methods map[string]*ast.FuncDecl // "Recv.Name"
	pkgs    map[string]string
	file    *ast.File
}

type stGen struct {
	fset      *token.FileSet
	snap      *stFile
	mshelp    *stFile
	geomhelp  *stFile
	pindex    *stFile
	used      map[string]bool
	n         int
	sites     []stSite
	siteAt    map[token.Pos]int
	defs      []string
	rangeN    int
	fname     string
	retTy     string
	tms20     *stFile
	generated map[string]stGenerated
	errOrigin map[string]string // error variable -> the call its value comes from
	dead      map[string]bool   // variables that must not be used any more (an index handed to a function that changes it)
}

type stGenerated struct {
	params []string
	ret    string
	ords   []string
}

func (t *stGen) fresh(p string) string {
	t.n++
	return fmt.Sprintf("%s_%d", p, t.n)
}

func stParse(fset *token.FileSet, path string) (*stFile, error) {
	f, err := parser.ParseFile(fset, path, nil, 0)
	if err != nil {
		return nil, err
	}
	sf := &stFile{funcs: map[string]*ast.FuncDecl{}, methods: map[string]*ast.FuncDecl{}, pkgs: map[string]string{}, file: f}
	for _, im := range f.Imports {
		p := strings.Trim(im.Path.Value, `"`)
		name := p[strings.LastIndex(p, "/")+1:]
		if im.Name != nil {
			name = im.Name.Name
		}
		sf.pkgs[name] = p
	}
	for _, d := range f.Decls {
		fd, ok := d.(*ast.FuncDecl)
		if !ok {
			continue
		}
		if fd.Recv == nil {
			sf.funcs[fd.Name.Name] = fd
		} else if len(fd.Recv.List) == 1 {
			sf.methods[types.ExprString(fd.Recv.List[0].Type)+"."+fd.Name.Name] = fd
		}
	}
	return sf, nil
}

func (f *stFile) typeDecl(name string) (*ast.TypeSpec, bool) {
	for _, d := range f.file.Decls {
		if gd, ok := d.(*ast.GenDecl); ok && gd.Tok == token.TYPE {
			for _, sp := range gd.Specs {
				if ts := sp.(*ast.TypeSpec); ts.Name.Name == name {
					return ts, true
				}
			}
		}
	}
	return nil, false
}

// goType: the Go types of snap.go the walker knows.
func (t *stGen) goType(x ast.Expr) (string, error) {
	s := types.ExprString(x)
	need := func(pkg, path string) error {
		if strings.Contains(s, pkg+".") && t.snap.pkgs[pkg] != path {
			return fmt.Errorf("type %s: %s is not the package %s here", s, pkg, path)
		}
		return nil
	}
	for _, p := range [][2]string{{"pointindex", stPointindexPath}, {"geom", stGeomPath}, {"intgeom", stIntgeomPath}, {"tms20", stTms20Path}} {
		if err := need(p[0], p[1]); err != nil {
			return "", err
		}
	}
	switch s {
	case "int", "tms20.TMID":
		return ttInt, nil
	case "uint":
		return ttUint, nil
	case "[]tms20.TMID":
		return ttInts, nil
	case "tms20.TileMatrixSet":
		return ttTms, nil
	case "map[pointindex.Level]tms20.TMID":
		return ttMapInt, nil
	case "map[tms20.TMID][]geom.Polygon":
		return ttTmPolys, nil
	case "bool":
		return ttBool, nil
	case "pointindex.Level":
		return ttLevel, nil
	case "[2]float64":
		return ttPt, nil
	case "[2][2]float64", "geom.Line":
		return ttSeg, nil
	case "[][2]float64":
		return ttPts, nil
	case "[][][2]float64", "geom.Polygon":
		return ttRings, nil
	case "[][][][2]float64", "[]geom.Polygon":
		return ttPolys, nil
	case "[]pointindex.Level":
		return ttLevels, nil
	case "map[pointindex.Level]any":
		return ttLevelSet, nil
	case "*pointindex.PointIndex":
		return ttIx, nil
	case "Config":
		return ttConfig, nil
	case "*[2]float64":
		return ttOptPt, nil
	case "map[intgeom.Point][]int":
		return ttHitMap, nil
	case "map[[2]float64]struct{}":
		return ttPtSet, nil
	case "map[pointindex.Level][][2]float64":
		return ttMapPts, nil
	case "map[pointindex.Level][][][2]float64":
		return ttMapRings, nil
	case "map[pointindex.Level][][][][2]float64", "map[pointindex.Level][]geom.Polygon":
		return ttMapPolys, nil
	}
	return "", fmt.Errorf("unsupported type %s", s)
}

func (t *stGen) shadowed(env *stEnv, names ...string) bool {
	for _, n := range names {
		if _, ok := env.vars[n]; ok {
			return true
		}
		if _, ok := t.snap.funcs[n]; ok {
			return true
		}
	}
	return false
}

func (t *stGen) shadowedVar(env *stEnv, n string) bool { _, ok := env.vars[n]; return ok }

func (t *stGen) conv(v stVal, ty string) (stVal, error) {
	if v.ty == ty {
		return stVal{code: v.code, ty: ty}, nil
	}
	return stVal{}, fmt.Errorf("type mismatch: %s used as %s", v.ty, ty)
}

// pure: a plain variable (evaluated without effects, cannot panic)
func (t *stGen) pureVar(env *stEnv, x ast.Expr) error {
	if id, ok := x.(*ast.Ident); ok {
		if _, ok := env.vars[id.Name]; ok {
			return nil
		}
	}
	return fmt.Errorf("%s is not a plain variable", types.ExprString(x))
}

// site: the constructor application for the order-consuming statement at pos.
func (t *stGen) site(pos token.Pos, ctx *stCtx, doc string) (string, error) {
	for _, k := range ctx.keys {
		if k.name == "" {
			return "", fmt.Errorf("%s: %s inside a loop without a key variable: its executions cannot be told apart", t.fset.Position(pos), doc)
		}
	}
	n, ok := t.siteAt[pos]
	if !ok {
		n = len(t.sites) + 1
		t.siteAt[pos] = n
		p := t.fset.Position(pos)
		t.sites = append(t.sites, stSite{n: n, args: append([]stKey{}, ctx.keys...), doc: fmt.Sprintf("%s:%d %s", filepath.Base(p.Filename), p.Line, doc)})
	}
	s := fmt.Sprintf("GSite%d", n)
	for _, k := range ctx.keys {
		s += " v_" + k.name
	}
	if len(ctx.keys) > 0 {
		s = "(" + s + ")"
	}
	return s, nil
}

func (t *stGen) expr(env *stEnv, x ast.Expr, binds *[]string, ctx *stCtx) (stVal, error) {
	switch x := x.(type) {
	case *ast.ParenExpr:
		return t.expr(env, x.X, binds, ctx)
	case *ast.BasicLit:
		if x.Kind == token.STRING { // strings only reach the log
			return stVal{code: "tt", ty: ttStr}, nil
		}
		if x.Kind != token.INT {
			return stVal{}, fmt.Errorf("unsupported literal %s", x.Value)
		}
		z, err := parseIntLit(x.Value)
		if err != nil {
			return stVal{}, err
		}
		return stVal{code: lgLit(z), ty: ttInt, lit: true}, nil
	case *ast.Ident:
		if ty, ok := env.vars[x.Name]; ok {
			if t.dead[x.Name] {
				return stVal{}, fmt.Errorf("%s is used after it was handed to a function that changes it", x.Name)
			}
			return stVal{code: "v_" + x.Name, ty: ty}, nil
		}
		if x.Name == "nil" {
			return stVal{code: "nil", ty: ttNil}, nil
		}
		if x.Name == "true" || x.Name == "false" {
			return stVal{code: x.Name, ty: ttBool}, nil
		}
		return stVal{}, fmt.Errorf("unknown identifier %s", x.Name)
	case *ast.UnaryExpr:
		v, err := t.expr(env, x.X, binds, ctx)
		if err != nil {
			return stVal{}, err
		}
		if x.Op == token.NOT && v.ty == ttBool {
			return stVal{code: "(negb " + v.code + ")", ty: ttBool}, nil
		}
		return stVal{}, fmt.Errorf("unsupported unary %s on %s", x.Op, v.ty)
	case *ast.BinaryExpr:
		return t.binary(env, x, binds, ctx)
	case *ast.SelectorExpr:
		if id, ok := x.X.(*ast.Ident); ok && env.vars[id.Name] == ttConfig {
			for _, f := range stConfigFields {
				if f.name == x.Sel.Name {
					return stVal{code: "(" + f.ty + " v_" + id.Name + ")", ty: ttBool}, nil
				}
			}
		}
		if id, ok := x.X.(*ast.Ident); ok && env.vars[id.Name] == ttRootTM && x.Sel.Name == "TileWidth" {
			t.used["rootTM := tms.TileMatrices[0]; rootTM.TileWidth  ->  tvRootTileWidth tms (SnapTopSupport.v; tms20.TileMatrixSet.TileMatrices is map[TMID]TileMatrix and TileMatrix.TileWidth is uint: checked; 0 when there is no matrix 0)"] = true
			return stVal{code: "(tvRootTileWidth v_" + id.Name + ")", ty: ttUint}, nil
		}
		if id, ok := x.X.(*ast.Ident); ok && id.Name == "pointindex" && !t.shadowed(env, "pointindex") && t.snap.pkgs["pointindex"] == stPointindexPath &&
			x.Sel.Name == "VectorTileInternalPixelResolution" {
			t.used["pointindex.VectorTileInternalPixelResolution  ->  gen_VectorTileInternalPixelResolution (REGENERATED: gen/ConstsGen.v)"] = true
			return stVal{code: "gen_VectorTileInternalPixelResolution", ty: ttInt, lit: true}, nil
		}
		return stVal{}, fmt.Errorf("unsupported selector %s", types.ExprString(x))
	case *ast.IndexExpr:
		if sel, ok := x.X.(*ast.SelectorExpr); ok { // tms.TileMatrices[0]
			if id, ok := sel.X.(*ast.Ident); ok && env.vars[id.Name] == ttTms && sel.Sel.Name == "TileMatrices" {
				if lit, ok := x.Index.(*ast.BasicLit); !ok || lit.Value != "0" {
					return stVal{}, fmt.Errorf("%s: only the root tile matrix TileMatrices[0] is supported", types.ExprString(x))
				}
				return stVal{code: "v_" + id.Name, ty: ttRootTM}, nil
			}
		}
		a, err := t.expr(env, x.X, binds, ctx)
		if err != nil {
			return stVal{}, err
		}
		i, err := t.expr(env, x.Index, binds, ctx)
		if err != nil {
			return stVal{}, err
		}
		if vt, ok := stMapVal(a.ty); ok { // m[k] on a map: the zero value when the key is absent
			k, ok := stLevelKey(i)
			if !ok {
				return stVal{}, fmt.Errorf("map index of type %s", i.ty)
			}
			zero, _ := stZero(vt)
			return stVal{code: "(aget " + a.code + " " + k + " " + zero + ")", ty: vt}, nil
		}
		el, ok := stElem(a.ty)
		if !ok {
			return stVal{}, fmt.Errorf("index on %s", a.ty)
		}
		if i.ty != ttInt {
			return stVal{}, fmt.Errorf("slice index of type %s", i.ty)
		}
		tmp := t.fresh("t")
		*binds = append(*binds, fmt.Sprintf("do %s <- idx %s %s;", tmp, a.code, i.code))
		return stVal{code: tmp, ty: el}, nil
	case *ast.CompositeLit:
		return t.composite(env, x, binds, ctx)
	case *ast.CallExpr:
		vs, err := t.call(env, x, binds, ctx)
		if err != nil {
			return stVal{}, err
		}
		if len(vs) != 1 {
			return stVal{}, fmt.Errorf("%s: used as a single value", types.ExprString(x.Fun))
		}
		return vs[0], nil
	}
	return stVal{}, fmt.Errorf("unsupported expression %T", x)
}

func (t *stGen) composite(env *stEnv, x *ast.CompositeLit, binds *[]string, ctx *stCtx) (stVal, error) {
	if x.Type == nil {
		return stVal{}, fmt.Errorf("composite literal without a type")
	}
	if types.ExprString(x.Type) == "struct{}" && len(x.Elts) == 0 {
		return stVal{code: "tt", ty: ttUnit}, nil
	}
	ty, err := t.goType(x.Type)
	if err != nil {
		return stVal{}, err
	}
	var items []stVal
	for _, e := range x.Elts {
		if _, keyed := e.(*ast.KeyValueExpr); keyed {
			return stVal{}, fmt.Errorf("keyed composite literal")
		}
		v, err := t.expr(env, e, binds, ctx)
		if err != nil {
			return stVal{}, err
		}
		items = append(items, v)
	}
	if ty == ttSeg { // geom.Line{a, b}
		if len(items) != 2 || items[0].ty != ttPt || items[1].ty != ttPt {
			return stVal{}, fmt.Errorf("a line literal needs two points")
		}
		return stVal{code: "(" + items[0].code + ", " + items[1].code + ")", ty: ttSeg}, nil
	}
	el, ok := stElem(ty)
	if !ok || ty == ttLevels {
		return stVal{}, fmt.Errorf("unsupported composite literal of %s", ty)
	}
	var codes []string
	for _, v := range items {
		if v.ty != el {
			return stVal{}, fmt.Errorf("%s literal with an element of type %s", ty, v.ty)
		}
		codes = append(codes, v.code)
	}
	if len(codes) == 0 {
		return stVal{code: "(@nil " + stCoq[el] + ")", ty: ty}, nil
	}
	return stVal{code: "[" + strings.Join(codes, "; ") + "]", ty: ty}, nil
}

func (t *stGen) binary(env *stEnv, x *ast.BinaryExpr, binds *[]string, ctx *stCtx) (stVal, error) {
	if x.Op == token.LAND || x.Op == token.LOR {
		a, err := t.expr(env, x.X, binds, ctx)
		if err != nil {
			return stVal{}, err
		}
		var rb []string
		b, err := t.expr(env, x.Y, &rb, ctx)
		if err != nil {
			return stVal{}, err
		}
		if a.ty != ttBool || b.ty != ttBool {
			return stVal{}, fmt.Errorf("%s on %s, %s", x.Op, a.ty, b.ty)
		}
		if len(rb) != 0 {
			return stVal{}, fmt.Errorf("%s with a right operand that can panic or has an effect is not supported", x.Op)
		}
		op := "&&"
		if x.Op == token.LOR {
			op = "||"
		}
		return stVal{code: "(" + a.code + " " + op + " " + b.code + ")", ty: ttBool}, nil
	}
	a, err := t.expr(env, x.X, binds, ctx)
	if err != nil {
		return stVal{}, err
	}
	b, err := t.expr(env, x.Y, binds, ctx)
	if err != nil {
		return stVal{}, err
	}
	if a.ty == ttErr && b.ty == ttNil {
		switch x.Op {
		case token.NEQ:
			return stVal{code: a.code, ty: ttBool}, nil
		case token.EQL:
			return stVal{code: "(negb " + a.code + ")", ty: ttBool}, nil
		}
	}
	if a.ty == ttStr && b.ty == ttStr && x.Op == token.ADD {
		return stVal{code: "tt", ty: ttStr}, nil
	}
	if a.ty != b.ty {
		return stVal{}, fmt.Errorf("mismatched operand types %s %s %s", a.ty, x.Op, b.ty)
	}
	if a.ty == ttUint && x.Op == token.ADD { // uint arithmetic wraps at 64 bits
		t.used["a + b on uint  ->  GoTms.uint_add a b = (a + b) mod 2^64 (Tms/GoTms.v)"] = true
		return stVal{code: "(GoTms.uint_add " + a.code + " " + b.code + ")", ty: ttUint}, nil
	}
	in := func(op, ty string) (stVal, error) {
		return stVal{code: "(" + a.code + " " + op + " " + b.code + ")", ty: ty}, nil
	}
	if a.ty == ttInt {
		switch x.Op {
		case token.ADD:
			return in("+", ttInt)
		case token.SUB:
			return in("-", ttInt)
		case token.MUL:
			return in("*", ttInt)
		case token.REM: // Go: run-time panic for a zero divisor, truncated remainder otherwise
			tmp := t.fresh("t")
			*binds = append(*binds, fmt.Sprintf("do %s <- go_rem %s %s;", tmp, a.code, b.code))
			return stVal{code: tmp, ty: ttInt}, nil
		case token.EQL:
			return in("=?", ttBool)
		case token.NEQ:
			return stVal{code: "(negb (" + a.code + " =? " + b.code + "))", ty: ttBool}, nil
		case token.LSS:
			return in("<?", ttBool)
		case token.LEQ:
			return in("<=?", ttBool)
		case token.GTR:
			return stVal{code: "(" + b.code + " <? " + a.code + ")", ty: ttBool}, nil
		case token.GEQ:
			return stVal{code: "(" + b.code + " <=? " + a.code + ")", ty: ttBool}, nil
		}
	}
	return stVal{}, fmt.Errorf("unsupported operator %s on %s", x.Op, a.ty)
}

func stTParams(fd *ast.FuncDecl) string {
	tp := ""
	if fd.Type.TypeParams != nil {
		for _, f := range fd.Type.TypeParams.List {
			for _, n := range f.Names {
				tp += n.Name + " " + types.ExprString(f.Type) + ";"
			}
		}
	}
	return tp
}

// checkExternal: the callee named key is the function the mapping was written for.
func (t *stGen) checkExternal(env *stEnv, key string, ext stExternal) error {
	var fd *ast.FuncDecl
	if ext.pkg == "" {
		if _, isVar := env.vars[key]; isVar {
			return fmt.Errorf("%s is a variable here", key)
		}
		fd = t.snap.funcs[key]
	} else {
		_, name, _ := strings.Cut(key, ".")
		if t.shadowed(env, ext.pkg) {
			return fmt.Errorf("%s is shadowed here", ext.pkg)
		}
		switch ext.pkg {
		case "mapslicehelp":
			if t.snap.pkgs[ext.pkg] != stMapslicePath {
				return fmt.Errorf("%s is not the package %s here", ext.pkg, stMapslicePath)
			}
			fd = t.mshelp.funcs[name]
		case "geomhelp":
			if t.snap.pkgs[ext.pkg] != stGeomhelpPath {
				return fmt.Errorf("%s is not the package %s here", ext.pkg, stGeomhelpPath)
			}
			if t.geomhelp.pkgs["geom"] != stGeomPath {
				return fmt.Errorf("geomhelp.go: geom is not %s", stGeomPath)
			}
			fd = t.geomhelp.funcs[name]
		}
	}
	if fd == nil || fd.Body == nil {
		return fmt.Errorf("%s: declaration not found", key)
	}
	if got, tp := types.ExprString(fd.Type), stTParams(fd); got != ext.wantType || tp != ext.wantTParam {
		return fmt.Errorf("%s has the type [%s] %s, the mapping was written for [%s] %s", key, tp, got, ext.wantTParam, ext.wantType)
	}
	return nil
}

func (t *stGen) isBuiltin(env *stEnv, x ast.Expr, name string) bool {
	id, ok := x.(*ast.Ident)
	return ok && id.Name == name && !t.shadowed(env, name)
}

// capacity: the capacity / size hint of make: an int expression that cannot panic; it has no influence on the value
func (t *stGen) capacity(env *stEnv, x ast.Expr, ctx *stCtx) error {
	var b []string
	v, err := t.expr(env, x, &b, ctx)
	if err != nil {
		return err
	}
	if v.ty != ttInt || len(b) != 0 {
		return fmt.Errorf("the capacity %s of make is not a total int expression", types.ExprString(x))
	}
	return nil
}

// call: the values of a call (one per result).
func (t *stGen) call(env *stEnv, x *ast.CallExpr, binds *[]string, ctx *stCtx) ([]stVal, error) {
	fun := types.ExprString(x.Fun)
	switch {
	case t.isBuiltin(env, x.Fun, "len"):
		if len(x.Args) != 1 || x.Ellipsis != token.NoPos {
			return nil, fmt.Errorf("bad len")
		}
		a, err := t.expr(env, x.Args[0], binds, ctx)
		if err != nil {
			return nil, err
		}
		_, isSlice := stElem(a.ty)
		_, isMap := stMapVal(a.ty)
		if !isSlice && !isMap && a.ty != ttLevelSet && a.ty != ttHitMap && a.ty != ttTmPolys {
			return nil, fmt.Errorf("len of %s", a.ty)
		}
		return []stVal{{code: "(zlen " + a.code + ")", ty: ttInt}}, nil
	case t.isBuiltin(env, x.Fun, "make"):
		if x.Ellipsis != token.NoPos || len(x.Args) < 1 {
			return nil, fmt.Errorf("bad make")
		}
		ty, err := t.goType(x.Args[0])
		if err != nil {
			return nil, err
		}
		_, isMap := stMapVal(ty)
		switch {
		case isMap || ty == ttPtSet || ty == ttTmPolys: // make(map[K]V) / make(map[K]V, n): an empty map
			if len(x.Args) > 2 {
				return nil, fmt.Errorf("bad make")
			}
			if len(x.Args) == 2 {
				if err := t.capacity(env, x.Args[1], ctx); err != nil {
					return nil, err
				}
			}
			coq := stCoq[ty]
			coq = strings.TrimSuffix(strings.TrimPrefix(coq, "(list "), ")")
			return []stVal{{code: "(@nil " + coq + ")", ty: ty}}, nil
		default: // make([]T, 0, n): an empty slice
			zero, ok := stZero(ty)
			if !ok || len(x.Args) != 3 {
				return nil, fmt.Errorf("make is only supported for maps and as make([]T, 0, n)")
			}
			if lit, ok := x.Args[1].(*ast.BasicLit); !ok || lit.Value != "0" {
				return nil, fmt.Errorf("make([]T, n, ..) with a length other than the literal 0")
			}
			if err := t.capacity(env, x.Args[2], ctx); err != nil {
				return nil, err
			}
			return []stVal{{code: zero, ty: ty}}, nil
		}
	case t.isBuiltin(env, x.Fun, "append"):
		if len(x.Args) != 2 {
			return nil, fmt.Errorf("append is only supported with two arguments")
		}
		a, err := t.expr(env, x.Args[0], binds, ctx)
		if err != nil {
			return nil, err
		}
		el, ok := stElem(a.ty)
		if !ok {
			return nil, fmt.Errorf("append to %s", a.ty)
		}
		b, err := t.expr(env, x.Args[1], binds, ctx)
		if err != nil {
			return nil, err
		}
		if x.Ellipsis != token.NoPos {
			if b.ty != a.ty {
				return nil, fmt.Errorf("append(%s, %s...)", a.ty, b.ty)
			}
			return []stVal{{code: "(" + a.code + " ++ " + b.code + ")", ty: a.ty}}, nil
		}
		if b.ty != el {
			return nil, fmt.Errorf("append(%s, %s)", a.ty, b.ty)
		}
		return []stVal{{code: "(" + a.code + " ++ [" + b.code + "])", ty: a.ty}}, nil
	}
	if x.Ellipsis != token.NoPos {
		return nil, fmt.Errorf("unsupported call with ...")
	}
	switch {
	case t.isBuiltin(env, x.Fun, "uint") && len(x.Args) == 1:
		// uint(math.Log2(float64(e))): the float code stays modelled
		if c, ok := x.Args[0].(*ast.CallExpr); ok && types.ExprString(c.Fun) == "math.Log2" && len(c.Args) == 1 &&
			!t.shadowed(env, "math") && t.snap.pkgs["math"] == "math" {
			if f, ok := c.Args[0].(*ast.CallExpr); ok && t.isBuiltin(env, f.Fun, "float64") && len(f.Args) == 1 {
				v, err := t.expr(env, f.Args[0], binds, ctx)
				if err != nil {
					return nil, err
				}
				if v.ty != ttUint && v.ty != ttInt {
					return nil, fmt.Errorf("uint(math.Log2(float64(%s)))", v.ty)
				}
				t.used["uint(math.Log2(float64(w))) (float code)  ->  Model.go_log2_uint w (Tms/Model.v): floor(log2 w) for 1 <= w, 2^63 for w = 0"] = true
				return []stVal{{code: "(Tms.Model.go_log2_uint " + v.code + ")", ty: ttUint}}, nil
			}
			return nil, fmt.Errorf("math.Log2 is only supported as uint(math.Log2(float64(e)))")
		}
		v, err := t.expr(env, x.Args[0], binds, ctx)
		if err != nil {
			return nil, err
		}
		switch v.ty {
		case ttUint:
			return []stVal{v}, nil
		case ttInt:
			t.used["uint(x) on an int  ->  x mod 2^64 (two's complement)"] = true
			return []stVal{{code: "(" + v.code + " mod Tms.Model.two64)", ty: ttUint}}, nil
		}
		return nil, fmt.Errorf("uint(%s)", v.ty)
	case t.isBuiltin(env, x.Fun, "new") && len(x.Args) == 1:
		if types.ExprString(x.Args[0]) != "pointindex.OutsideGridError" || t.snap.pkgs["pointindex"] != stPointindexPath || t.shadowed(env, "pointindex") {
			return nil, fmt.Errorf("new is only supported as new(pointindex.OutsideGridError)")
		}
		if _, ok := t.pindex.typeDecl("OutsideGridError"); !ok {
			return nil, fmt.Errorf("pointindex.go: type OutsideGridError not found")
		}
		return []stVal{{code: "tt", ty: ttErrTgt}}, nil
	}
	if fun == "errors.As" && len(x.Args) == 2 && !t.shadowed(env, "errors") && t.snap.pkgs["errors"] == "errors" {
		e, ok1 := x.Args[0].(*ast.Ident)
		tg, ok2 := x.Args[1].(*ast.Ident)
		if !ok1 || !ok2 || env.vars[e.Name] != ttErr || env.vars[tg.Name] != ttErrTgt || t.errOrigin[e.Name] != "InsertPolygon" {
			return nil, fmt.Errorf("errors.As is only supported as errors.As(err, target) with err from ix.InsertPolygon and target := new(pointindex.OutsideGridError)")
		}
		t.used["errors.As(err, new(pointindex.OutsideGridError)) with err from ix.InsertPolygon  ->  err is not nil (the only error InsertPolygon returns is an OutsideGridError: checked on the AST of InsertPolygon / InsertPoint / InsertCoord)"] = true
		return []stVal{{code: "v_" + e.Name, ty: ttBool}}, nil
	}
	if fun == "slices.Max" && len(x.Args) == 1 && !t.shadowed(env, "slices") && t.snap.pkgs["slices"] == "slices" {
		a, err := t.expr(env, x.Args[0], binds, ctx)
		if err != nil {
			return nil, err
		}
		if a.ty != ttInts {
			return nil, fmt.Errorf("slices.Max(%s)", a.ty)
		}
		t.used["slices.Max(tmIDs) on []int  ->  go_slices_max (SnapTopSupport.v): the panic for an empty slice is written Err IndexOutOfRange"] = true
		tmp := t.fresh("t")
		*binds = append(*binds, fmt.Sprintf("do %s <- go_slices_max %s;", tmp, a.code))
		return []stVal{{code: tmp, ty: ttInt}}, nil
	}
	if id, ok := x.Fun.(*ast.Ident); ok {
		if gen, ok := t.generated[id.Name]; ok && !t.shadowedVar(env, id.Name) { // a function regenerated in this file
			if len(gen.ords) > 0 && ctx.depth != 0 {
				return nil, fmt.Errorf("%s ranges over Go maps: a call inside a loop would repeat its sites", id.Name)
			}
			if len(x.Args) != len(gen.params) {
				return nil, fmt.Errorf("%s: wrong number of arguments", id.Name)
			}
			as := append([]string{}, gen.ords...)
			var killed []string
			for i, a := range x.Args {
				v, err := t.expr(env, a, binds, ctx)
				if err != nil {
					return nil, err
				}
				if v, err = t.conv(v, gen.params[i]); err != nil {
					return nil, fmt.Errorf("%s: argument %d: %v", id.Name, i+1, err)
				}
				if v.ty == ttIx { // the callee changes the index it is handed: it must not be used afterwards
					aid, ok := a.(*ast.Ident)
					if !ok {
						return nil, fmt.Errorf("%s: the index argument is not a plain variable", id.Name)
					}
					killed = append(killed, aid.Name)
				}
				as = append(as, v.code)
			}
			for _, k := range killed {
				t.dead[k] = true
			}
			tmp := t.fresh("t")
			*binds = append(*binds, fmt.Sprintf("do %s <- gen_%s %s;", tmp, id.Name, strings.Join(as, " ")))
			return []stVal{{code: tmp, ty: gen.ret}}, nil
		}
	}
	if sel, ok := x.Fun.(*ast.SelectorExpr); ok {
		if recv, ok := sel.X.(*ast.Ident); ok && env.vars[recv.Name] == ttErr && sel.Sel.Name == "Error" && len(x.Args) == 0 {
			if !ctx.nonNil[recv.Name] {
				return nil, fmt.Errorf("%s.Error() where %s may be nil", recv.Name, recv.Name)
			}
			return []stVal{{code: "tt", ty: ttStr}}, nil
		}
	}
	if sel, ok := x.Fun.(*ast.SelectorExpr); ok {
		if recv, ok := sel.X.(*ast.Ident); ok {
			switch env.vars[recv.Name] {
			case ttIx:
				return t.method(env, recv.Name, sel.Sel.Name, x, binds, ctx)
			case ttRings: // polygon.LinearRings() on a geom.Polygon: the rings themselves
				if sel.Sel.Name == "LinearRings" && len(x.Args) == 0 && t.snap.pkgs["geom"] == stGeomPath {
					t.used["polygon.LinearRings() on a geom.Polygon (github.com/go-spatial/geom: `return p`)  ->  polygon_linear_rings p (SnapTopSupport.v): the identity"] = true
					return []stVal{{code: "(polygon_linear_rings v_" + recv.Name + ")", ty: ttRings}}, nil
				}
			case ttPt: // intVertex.ToGeomPoint() on an intgeom.Point: the float image of the integer point
				if sel.Sel.Name == "ToGeomPoint" && len(x.Args) == 0 && t.snap.pkgs["intgeom"] == stIntgeomPath {
					t.used["p.ToGeomPoint() on an intgeom.Point  ->  p: floats are modelled by the integers they are the images of (DESIGN 4.2)"] = true
					return []stVal{{code: "v_" + recv.Name, ty: ttPt}}, nil
				}
			}
		}
	}
	if fun == "slices.Contains" && len(x.Args) == 2 && !t.shadowed(env, "slices") && t.snap.pkgs["slices"] == "slices" {
		a, err := t.expr(env, x.Args[0], binds, ctx)
		if err != nil {
			return nil, err
		}
		b, err := t.expr(env, x.Args[1], binds, ctx)
		if err != nil {
			return nil, err
		}
		if a.ty != ttRingIDs || b.ty != ttInt {
			return nil, fmt.Errorf("slices.Contains(%s, %s)", a.ty, b.ty)
		}
		t.used["slices.Contains(ringIdxs, ringIdx) on the []int of a hit map  ->  mem_nat (Z.to_nat ringIdx) ringIdxs (ring ids are range indices: never negative)"] = true
		return []stVal{{code: "(mem_nat (Z.to_nat " + b.code + ") " + a.code + ")", ty: ttBool}}, nil
	}
	ext, ok := stExternals[fun]
	if !ok {
		return nil, fmt.Errorf("unsupported call %s", fun)
	}
	if ext.mutates != 0 {
		return nil, fmt.Errorf("%s writes through its argument: only supported as a statement", fun)
	}
	return t.external(env, fun, ext, x, binds, ctx)
}

func (t *stGen) external(env *stEnv, fun string, ext stExternal, x *ast.CallExpr, binds *[]string, ctx *stCtx) ([]stVal, error) {
	if err := t.checkExternal(env, fun, ext); err != nil {
		return nil, err
	}
	if len(x.Args) != len(ext.params) {
		return nil, fmt.Errorf("%s: wrong number of arguments", fun)
	}
	as := make([]any, len(x.Args))
	for i, a := range x.Args {
		if ext.params[i] == "" {
			if err := t.pureVar(env, a); err != nil {
				return nil, fmt.Errorf("%s: argument %d (not used by the regenerated function): %v", fun, i+1, err)
			}
			as[i] = ""
			continue
		}
		v, err := t.expr(env, a, binds, ctx)
		if err != nil {
			return nil, err
		}
		if v, err = t.conv(v, ext.params[i]); err != nil {
			return nil, fmt.Errorf("%s: argument %d: %v", fun, i+1, err)
		}
		as[i] = v.code
	}
	t.used[ext.doc] = true
	app := fmt.Sprintf(ext.coq, as...)
	if ext.monadic {
		tmp := t.fresh("t")
		*binds = append(*binds, fmt.Sprintf("do %s <- %s;", tmp, app))
		app = tmp
	}
	if len(ext.results) == 1 {
		return []stVal{{code: app, ty: ext.results[0]}}, nil
	}
	var out []stVal
	for i, r := range ext.results {
		out = append(out, stVal{code: fmt.Sprintf(ext.projs[i], app), ty: r})
	}
	return out, nil
}

// method: a modelled method of *pointindex.PointIndex.
func (t *stGen) method(env *stEnv, recv, name string, x *ast.CallExpr, binds *[]string, ctx *stCtx) ([]stVal, error) {
	if name == "InsertPolygon" {
		return t.insertPolygon(env, recv, x, binds, ctx)
	}
	m, ok := stMethods[name]
	if !ok {
		return nil, fmt.Errorf("unsupported method %s of *pointindex.PointIndex", name)
	}
	if t.snap.pkgs["pointindex"] != stPointindexPath {
		return nil, fmt.Errorf("pointindex is not %s here", stPointindexPath)
	}
	fd := t.pindex.methods["*PointIndex."+name]
	if fd == nil || fd.Body == nil {
		return nil, fmt.Errorf("pointindex.go: method (*PointIndex).%s not found", name)
	}
	if got := types.ExprString(fd.Type); got != m.wantType {
		return nil, fmt.Errorf("(*PointIndex).%s has the type %s, the mapping was written for %s", name, got, m.wantType)
	}
	if t.pindex.pkgs["geom"] != stGeomPath || t.pindex.pkgs["intgeom"] != stIntgeomPath {
		return nil, fmt.Errorf("pointindex.go: unexpected imports for geom / intgeom")
	}
	if ts, ok := t.pindex.typeDecl("Level"); !ok || ts.Assign == token.NoPos || types.ExprString(ts.Type) != "uint" {
		return nil, fmt.Errorf("pointindex.go: `type Level = uint` not found")
	}
	if m.wantBody != "" {
		got := ""
		if len(fd.Body.List) == 1 {
			if r, ok := fd.Body.List[0].(*ast.ReturnStmt); ok && len(r.Results) == 1 {
				got = "return " + types.ExprString(r.Results[0])
			}
		}
		if got != m.wantBody || len(fd.Recv.List[0].Names) != 1 || fd.Recv.List[0].Names[0].Name != "ix" {
			return nil, fmt.Errorf("(*PointIndex).%s: the body is not `%s`", name, m.wantBody)
		}
	}
	if len(x.Args) != len(m.params) {
		return nil, fmt.Errorf("%s: wrong number of arguments", name)
	}
	as := []any{"v_" + recv}
	for i, a := range x.Args {
		v, err := t.expr(env, a, binds, ctx)
		if err != nil {
			return nil, err
		}
		if v, err = t.conv(v, m.params[i]); err != nil {
			return nil, fmt.Errorf("%s: argument %d: %v", name, i+1, err)
		}
		as = append(as, v.code)
	}
	t.used[m.doc] = true
	if !m.site {
		return []stVal{{code: fmt.Sprintf(m.coq, as...), ty: m.result}}, nil
	}
	s, err := t.site(x.Pos(), ctx, "ix."+name+"(..): the range over a map inside it")
	if err != nil {
		return nil, err
	}
	as = append([]any{"(gord " + s + ")"}, as...)
	tmp := t.fresh("t")
	*binds = append(*binds, fmt.Sprintf("let '(v_%s, %s) := %s in", recv, tmp, fmt.Sprintf(m.coq, as...)))
	return []stVal{{code: tmp, ty: m.result}}, nil
}

// stReturnsOnly: every return statement of fd returns exactly one value accepted by ok
func stReturnsOnly(fd *ast.FuncDecl, ok func(ast.Expr) bool) bool {
	good := fd != nil && fd.Body != nil
	if !good {
		return false
	}
	ast.Inspect(fd.Body, func(n ast.Node) bool {
		if _, isLit := n.(*ast.FuncLit); isLit {
			good = false
		}
		if r, isRet := n.(*ast.ReturnStmt); isRet {
			if len(r.Results) != 1 || !ok(r.Results[0]) {
				good = false
			}
		}
		return true
	})
	return good
}

// insertPolygon: err = ix.InsertPolygon(polygon).  The error it returns is nil or an OutsideGridError: checked here.
func (t *stGen) insertPolygon(env *stEnv, recv string, x *ast.CallExpr, binds *[]string, ctx *stCtx) ([]stVal, error) {
	if t.snap.pkgs["pointindex"] != stPointindexPath {
		return nil, fmt.Errorf("pointindex is not %s here", stPointindexPath)
	}
	isNil := func(e ast.Expr) bool { id, ok := e.(*ast.Ident); return ok && id.Name == "nil" }
	ip := t.pindex.methods["*PointIndex.InsertPolygon"]
	if ip == nil || types.ExprString(ip.Type) != "func(polygon geom.Polygon) error" {
		return nil, fmt.Errorf("(*PointIndex).InsertPolygon: not found or not func(polygon geom.Polygon) error")
	}
	errFromInsertPoint := true
	ast.Inspect(ip.Body, func(n ast.Node) bool {
		if a, ok := n.(*ast.AssignStmt); ok {
			for i, l := range a.Lhs {
				if id, ok := l.(*ast.Ident); ok && id.Name == "err" {
					if len(a.Rhs) != len(a.Lhs) {
						errFromInsertPoint = false
					} else if c, ok := a.Rhs[i].(*ast.CallExpr); !ok || types.ExprString(c.Fun) != "ix.InsertPoint" {
						errFromInsertPoint = false
					}
				}
			}
		}
		return true
	})
	okPolygon := stReturnsOnly(ip, func(e ast.Expr) bool {
		id, ok := e.(*ast.Ident)
		return ok && (id.Name == "nil" || id.Name == "err")
	})
	okPoint := stReturnsOnly(t.pindex.methods["*PointIndex.InsertPoint"], func(e ast.Expr) bool {
		c, ok := e.(*ast.CallExpr)
		return ok && types.ExprString(c.Fun) == "ix.InsertCoord"
	})
	okCoord := stReturnsOnly(t.pindex.methods["*PointIndex.InsertCoord"], func(e ast.Expr) bool {
		if isNil(e) {
			return true
		}
		c, ok := e.(*ast.CompositeLit)
		return ok && c.Type != nil && types.ExprString(c.Type) == "OutsideGridError"
	})
	if !errFromInsertPoint || !okPolygon || !okPoint || !okCoord {
		return nil, fmt.Errorf("pointindex.go: InsertPolygon / InsertPoint / InsertCoord may return an error that is not an OutsideGridError")
	}
	if len(x.Args) != 1 {
		return nil, fmt.Errorf("InsertPolygon: wrong number of arguments")
	}
	v, err := t.expr(env, x.Args[0], binds, ctx)
	if err != nil {
		return nil, err
	}
	if v.ty != ttRings {
		return nil, fmt.Errorf("InsertPolygon(%s)", v.ty)
	}
	t.used["err = ix.InsertPolygon(polygon)  ->  px_InsertPolygon ix polygon (SnapTopSupport.v): the model's insertPolygon (Index/Model.v); Err = a panic inside, (ix', true) = an OutsideGridError was returned, (ix', false) = nil"] = true
	tmp := t.fresh("t")
	*binds = append(*binds, fmt.Sprintf("do %s <- px_InsertPolygon v_%s %s;", tmp, recv, v.code), fmt.Sprintf("let v_%s := (fst %s) in", recv, tmp))
	return []stVal{{code: "(snd " + tmp + ")", ty: "err:InsertPolygon"}}, nil
}

// stAssigned: the variables of env a statement list assigns (m[k] = v, delete(m, k), a call that writes through its
// argument and a call of a method that changes the index count as assignments to m / the argument / the index).
func (t *stGen) assigned(env *stEnv, stmts []ast.Stmt, acc map[string]bool) {
	target := func(l ast.Expr) {
		if ix, ok := l.(*ast.IndexExpr); ok {
			l = ix.X
		}
		if id, ok := l.(*ast.Ident); ok {
			if id.Name != "_" {
				acc[id.Name] = true
			}
		} else {
			acc["?"] = true
		}
	}
	for _, s := range stmts {
		ast.Inspect(s, func(n ast.Node) bool {
			switch n := n.(type) {
			case *ast.AssignStmt:
				if n.Tok != token.DEFINE {
					for _, l := range n.Lhs {
						target(l)
					}
				}
			case *ast.IncDecStmt:
				target(n.X)
			case *ast.RangeStmt:
				if n.Tok == token.ASSIGN {
					acc["?"] = true
				}
			case *ast.FuncLit, *ast.GoStmt, *ast.DeferStmt:
				acc["?"] = true
			case *ast.UnaryExpr:
				if n.Op == token.AND {
					acc["?"] = true
				}
			case *ast.CallExpr:
				fun := types.ExprString(n.Fun)
				if id, ok := n.Fun.(*ast.Ident); ok && id.Name == "delete" && len(n.Args) == 2 {
					target(n.Args[0])
				}
				if ext, ok := stExternals[fun]; ok && ext.mutates != 0 && len(n.Args) >= ext.mutates {
					target(n.Args[ext.mutates-1])
				}
				if sel, ok := n.Fun.(*ast.SelectorExpr); ok {
					if id, ok := sel.X.(*ast.Ident); ok && env.vars[id.Name] == ttIx {
						if m, ok := stMethods[sel.Sel.Name]; !ok || m.site {
							acc[id.Name] = true
						}
					}
				}
			}
			return true
		})
	}
}

// stDeclared: the names a statement list declares anywhere (:=, var, range variables)
func stDeclared(stmts []ast.Stmt, acc map[string]bool) {
	for _, s := range stmts {
		ast.Inspect(s, func(n ast.Node) bool {
			switch n := n.(type) {
			case *ast.AssignStmt:
				if n.Tok == token.DEFINE {
					for _, l := range n.Lhs {
						if id, ok := l.(*ast.Ident); ok {
							acc[id.Name] = true
						}
					}
				}
			case *ast.RangeStmt:
				for _, e := range []ast.Expr{n.Key, n.Value} {
					if id, ok := e.(*ast.Ident); ok && n.Tok == token.DEFINE {
						acc[id.Name] = true
					}
				}
			case *ast.ValueSpec:
				for _, id := range n.Names {
					acc[id.Name] = true
				}
			}
			return true
		})
	}
}

func stMentioned(n ast.Node, acc map[string]bool) {
	ast.Inspect(n, func(n ast.Node) bool {
		if id, ok := n.(*ast.Ident); ok {
			acc[id.Name] = true
		}
		return true
	})
}

func (t *stGen) state(env *stEnv, asg map[string]bool) (names []string, tuple, ty string) {
	var tys []string
	for _, v := range env.order {
		if asg[v] {
			names = append(names, "v_"+v)
			tys = append(tys, stCoq[env.vars[v]])
		}
	}
	switch len(names) {
	case 0:
		return nil, "tt", "unit"
	case 1:
		return names, names[0], tys[0]
	}
	return names, "(" + strings.Join(names, ", ") + ")", "(" + strings.Join(tys, " * ") + ")%type"
}

func stPattern(tuple, ty string) string {
	switch {
	case tuple == "tt":
		return "(_ : unit)"
	case strings.HasPrefix(tuple, "("):
		return "'(" + tuple + " : " + ty + ")"
	}
	return "(" + tuple + " : " + ty + ")"
}

func stBindPattern(tuple string) string {
	if tuple == "tt" {
		return "_"
	}
	return tuple
}

func (t *stGen) ret(ctx *stCtx, v string) string {
	if ctx.depth > 0 {
		return "Ok (RRet " + v + ")"
	}
	return "Ok " + v
}

// isPanicErr: the statement is panic(x) with x an error variable
func (t *stGen) isPanicErr(env *stEnv, s ast.Stmt) (string, bool) {
	es, ok := s.(*ast.ExprStmt)
	if !ok {
		return "", false
	}
	c, ok := es.X.(*ast.CallExpr)
	if !ok || !t.isBuiltin(env, c.Fun, "panic") || len(c.Args) != 1 {
		return "", false
	}
	id, ok := c.Args[0].(*ast.Ident)
	if !ok || env.vars[id.Name] != ttErr {
		return "", false
	}
	return id.Name, true
}

// stTerminates: no path falls off the end of the list (return, continue, break, panic(..))
func stTerminates(stmts []ast.Stmt) bool {
	if len(stmts) == 0 {
		return false
	}
	switch s := stmts[len(stmts)-1].(type) {
	case *ast.ReturnStmt:
		return true
	case *ast.BranchStmt:
		return s.Tok == token.BREAK || s.Tok == token.CONTINUE
	case *ast.ExprStmt:
		if c, ok := s.X.(*ast.CallExpr); ok {
			if id, ok := c.Fun.(*ast.Ident); ok && id.Name == "panic" {
				return true
			}
		}
	case *ast.IfStmt:
		if s.Else == nil {
			return false
		}
		return stTerminates(s.Body.List) && stTerminates(mgElse(s))
	}
	return false
}

// fromTMS: ix, err := pointindex.FromTileMatrixSet(tms, d) followed at once by if err != nil { panic(err) }
func (t *stGen) fromTMS(env *stEnv, a *ast.AssignStmt, c *ast.CallExpr, rest []ast.Stmt, ctx *stCtx, tail stTail) (string, error) {
	if t.snap.pkgs["pointindex"] != stPointindexPath || t.shadowed(env, "pointindex") {
		return "", fmt.Errorf("pointindex is not %s here", stPointindexPath)
	}
	fd := t.pindex.funcs["FromTileMatrixSet"]
	const want = "func(tileMatrixSet tms20.TileMatrixSet, deepestTMID tms20.TMID) (*PointIndex, error)"
	if fd == nil || types.ExprString(fd.Type) != want || t.pindex.pkgs["tms20"] != stTms20Path {
		return "", fmt.Errorf("pointindex.FromTileMatrixSet: not found or not %s", want)
	}
	ixN, ok1 := a.Lhs[0].(*ast.Ident)
	errN, ok2 := a.Lhs[1].(*ast.Ident)
	if !ok1 || !ok2 || ixN.Name == "_" || errN.Name == "_" || ixN.Name == errN.Name || t.shadowed(env, ixN.Name, errN.Name) {
		return "", fmt.Errorf("unsupported targets of FromTileMatrixSet")
	}
	okNext := false
	if len(rest) > 0 {
		if is, ok := rest[0].(*ast.IfStmt); ok && is.Init == nil && is.Else == nil && len(is.Body.List) == 1 &&
			types.ExprString(is.Cond) == errN.Name+" != nil" {
			if es, ok := is.Body.List[0].(*ast.ExprStmt); ok && types.ExprString(es.X) == "panic("+errN.Name+")" && !t.shadowed(env, "panic", "nil") {
				okNext = true
			}
		}
	}
	if !okNext {
		return "", fmt.Errorf("pointindex.FromTileMatrixSet must be followed at once by `if %s != nil { panic(%s) }`", errN.Name, errN.Name)
	}
	if len(c.Args) != 2 || c.Ellipsis != token.NoPos {
		return "", fmt.Errorf("FromTileMatrixSet: wrong number of arguments")
	}
	var binds []string
	tv, err := t.expr(env, c.Args[0], &binds, ctx)
	if err != nil {
		return "", err
	}
	dv, err := t.expr(env, c.Args[1], &binds, ctx)
	if err != nil {
		return "", err
	}
	if tv.ty != ttTms || dv.ty != ttInt {
		return "", fmt.Errorf("FromTileMatrixSet(%s, %s)", tv.ty, dv.ty)
	}
	t.used["ix, err := pointindex.FromTileMatrixSet(tms, d); if err != nil { panic(err) }  ->  do ix <- px_FromTileMatrixSet tms d (SnapTopSupport.v): the fresh index of the grid tvIndex tms d, or the panic; err is nil afterwards"] = true
	env2 := env.clone()
	env2.declare(ixN.Name, ttIx)
	env2.declare(errN.Name, ttErr)
	t.errOrigin[errN.Name] = "nil"
	binds = append(binds, fmt.Sprintf("do v_%s <- px_FromTileMatrixSet %s %s;", ixN.Name, tv.code, dv.code), fmt.Sprintf("let v_%s := false in", errN.Name))
	body, err := t.block(env2, rest[1:], ctx, tail)
	if err != nil {
		return "", err
	}
	return sgJoin(binds, body), nil
}

type stTail func(env *stEnv) (string, error)

func stUnreachable(*stEnv) (string, error) {
	return "", fmt.Errorf("internal: a terminating block falls through")
}

func (t *stGen) block(env *stEnv, list []ast.Stmt, ctx *stCtx, tail stTail) (string, error) {
	if len(list) == 0 {
		return tail(env)
	}
	s, rest := list[0], list[1:]
	next := func(e *stEnv) (string, error) { return t.block(e, rest, ctx, tail) }
	pos := func() string { return t.fset.Position(s.Pos()).String() }
	if a, ok := s.(*ast.AssignStmt); ok && a.Tok == token.DEFINE && len(a.Lhs) == 2 && len(a.Rhs) == 1 {
		if c, ok := a.Rhs[0].(*ast.CallExpr); ok && types.ExprString(c.Fun) == "pointindex.FromTileMatrixSet" {
			r, err := t.fromTMS(env, a, c, rest, ctx, tail)
			if err != nil {
				err = fmt.Errorf("%s: %v", pos(), err)
			}
			return r, err
		}
	}
	if name, ok := t.isPanicErr(env, s); ok { // panic(err) with the error of ix.InsertPolygon
		if len(rest) != 0 {
			return "", fmt.Errorf("%s: statements after panic", pos())
		}
		if !ctx.nonNil[name] || t.errOrigin[name] != "InsertPolygon" {
			return "", fmt.Errorf("%s: panic(%s) is only supported where %s is the non-nil error of ix.InsertPolygon", pos(), name, name)
		}
		t.used["panic(err) with the non-nil error of ix.InsertPolygon (an OutsideGridError)  ->  Err OutsideGrid"] = true
		return "Err OutsideGrid", nil
	}
	switch s := s.(type) {
	case *ast.ReturnStmt:
		if len(rest) != 0 {
			return "", fmt.Errorf("%s: statements after return", pos())
		}
		if len(s.Results) != 1 {
			return "", fmt.Errorf("%s: unsupported return", pos())
		}
		var binds []string
		v, err := t.expr(env, s.Results[0], &binds, ctx)
		if err != nil {
			return "", fmt.Errorf("%s: %v", pos(), err)
		}
		if v, err = t.conv(v, t.retTy); err != nil {
			return "", fmt.Errorf("%s: return: %v", pos(), err)
		}
		return sgJoin(binds, t.ret(ctx, v.code)), nil
	case *ast.BranchStmt:
		if len(rest) != 0 {
			return "", fmt.Errorf("%s: statements after %s", pos(), s.Tok)
		}
		if (s.Tok != token.CONTINUE && s.Tok != token.BREAK) || s.Label != nil || ctx.depth == 0 {
			return "", fmt.Errorf("%s: unsupported %s", pos(), s.Tok)
		}
		if s.Tok == token.BREAK {
			return "Ok (Brk " + ctx.tuple + ")", nil
		}
		return "Ok (Cont " + ctx.tuple + ")", nil
	case *ast.AssignStmt:
		lines, env2, err := t.assign(env, s, ctx)
		if err != nil {
			return "", fmt.Errorf("%s: %v", pos(), err)
		}
		body, err := next(env2)
		if err != nil {
			return "", err
		}
		return sgJoin(lines, body), nil
	case *ast.ExprStmt:
		lines, err := t.callStmt(env, s, ctx)
		if err != nil {
			return "", fmt.Errorf("%s: %v", pos(), err)
		}
		body, err := next(env)
		if err != nil {
			return "", err
		}
		return sgJoin(lines, body), nil
	case *ast.IfStmt:
		r, err := t.ifStmt(env, s, rest, ctx, next)
		if err != nil && !strings.Contains(err.Error(), ".go:") {
			err = fmt.Errorf("%s: %v", pos(), err)
		}
		return r, err
	case *ast.RangeStmt:
		r, err := t.rangeLoop(env, s, ctx, next)
		if err != nil && !strings.Contains(err.Error(), ".go:") {
			err = fmt.Errorf("%s: %v", pos(), err)
		}
		return r, err
	}
	return "", fmt.Errorf("%s: unsupported statement %T", pos(), s)
}

func (t *stGen) ifStmt(env *stEnv, s *ast.IfStmt, rest []ast.Stmt, ctx *stCtx, next stTail) (string, error) {
	if s.Init != nil {
		return "", fmt.Errorf("unsupported if with init")
	}
	var binds []string
	c, err := t.expr(env, s.Cond, &binds, ctx)
	if err != nil {
		return "", err
	}
	if c.ty != ttBool {
		return "", fmt.Errorf("condition of type %s", c.ty)
	}
	thenL, elseL := s.Body.List, mgElse(s)
	thenT, elseT := stTerminates(thenL), stTerminates(elseL)
	after := func(*stEnv) (string, error) { return next(env) } // what a block declares is not visible after it
	// inside `if err != nil { .. }` the error is known to be non-nil
	thenCtx := ctx
	if be, ok := s.Cond.(*ast.BinaryExpr); ok && be.Op == token.NEQ {
		if id, ok := be.X.(*ast.Ident); ok && env.vars[id.Name] == ttErr && types.ExprString(be.Y) == "nil" {
			asg := map[string]bool{}
			t.assigned(env, thenL, asg)
			if !asg[id.Name] {
				c2 := *ctx
				c2.nonNil = map[string]bool{id.Name: true}
				for k, v := range ctx.nonNil {
					c2.nonNil[k] = v
				}
				thenCtx = &c2
			}
		}
	}
	var a, b string
	switch {
	case thenT && elseT:
		if len(rest) != 0 {
			return "", fmt.Errorf("statements after an if whose branches both leave")
		}
		if a, err = t.block(env.clone(), thenL, thenCtx, stUnreachable); err != nil {
			return "", err
		}
		if b, err = t.block(env.clone(), elseL, ctx, stUnreachable); err != nil {
			return "", err
		}
	case thenT:
		if a, err = t.block(env.clone(), thenL, thenCtx, stUnreachable); err != nil {
			return "", err
		}
		if b, err = t.block(env.clone(), elseL, ctx, after); err != nil {
			return "", err
		}
	case elseT:
		if a, err = t.block(env.clone(), thenL, thenCtx, after); err != nil {
			return "", err
		}
		if b, err = t.block(env.clone(), elseL, ctx, stUnreachable); err != nil {
			return "", err
		}
	default:
		// both branches fall through: join the variables they assign
		if mgHasJump(thenL) || mgHasJump(elseL) {
			return "", fmt.Errorf("an if whose branches fall through but contain return / break / continue is not supported")
		}
		asg := map[string]bool{}
		t.assigned(env, thenL, asg)
		t.assigned(env, elseL, asg)
		if asg["?"] {
			return "", fmt.Errorf("unsupported assignment target inside a branch")
		}
		_, tuple, _ := t.state(env, asg)
		join := func(*stEnv) (string, error) { return "Ok " + tuple, nil }
		if a, err = t.block(env.clone(), thenL, thenCtx, join); err != nil {
			return "", err
		}
		if b, err = t.block(env.clone(), elseL, ctx, join); err != nil {
			return "", err
		}
		body, err := next(env)
		if err != nil {
			return "", err
		}
		return sgJoin(binds, fmt.Sprintf("do %s <- (if %s then (%s)\n  else (%s));\n  %s", stBindPattern(tuple), c.code, a, b, body)), nil
	}
	return sgJoin(binds, fmt.Sprintf("if %s then (%s)\n  else (%s)", c.code, a, b)), nil
}

// callStmt: delete(m, k); a helper that writes through its slice argument (its result replaces the variable)
func (t *stGen) callStmt(env *stEnv, s *ast.ExprStmt, ctx *stCtx) ([]string, error) {
	c, ok := s.X.(*ast.CallExpr)
	if !ok || c.Ellipsis != token.NoPos {
		return nil, fmt.Errorf("unsupported expression statement")
	}
	if t.isBuiltin(env, c.Fun, "delete") {
		if len(c.Args) != 2 {
			return nil, fmt.Errorf("bad delete")
		}
		m, ok := c.Args[0].(*ast.Ident)
		if !ok || env.vars[m.Name] != ttLevelSet {
			return nil, fmt.Errorf("delete is only supported on a map[Level]any variable")
		}
		var lines []string
		k, err := t.expr(env, c.Args[1], &lines, ctx)
		if err != nil {
			return nil, err
		}
		if k.ty != ttLevel {
			return nil, fmt.Errorf("delete with a key of type %s", k.ty)
		}
		t.used["delete(levelMap, level)  ->  adel levelMap level (Snap/ModelInterleaved.v)"] = true
		return append(lines, fmt.Sprintf("let v_%s := (adel v_%s %s) in", m.Name, m.Name, k.code)), nil
	}
	fun := types.ExprString(c.Fun)
	if (fun == "log.Println" || fun == "log.Printf" || fun == "log.Print") && !t.shadowed(env, "log") && t.snap.pkgs["log"] == "log" {
		for _, a := range c.Args { // strings built without effects; err.Error() only where err is not nil
			var b []string
			v, err := t.expr(env, a, &b, ctx)
			if err != nil {
				return nil, fmt.Errorf("%s: %v", fun, err)
			}
			if len(b) != 0 || (v.ty != ttStr && v.ty != ttBool && v.ty != ttInt) {
				return nil, fmt.Errorf("%s: an argument of type %s / that can panic", fun, v.ty)
			}
		}
		t.used["log.Println(strings, err.Error() where err is not nil)  ->  nothing (logging does not influence the result)"] = true
		return nil, nil
	}
	ext, ok := stExternals[fun]
	if !ok || ext.mutates == 0 {
		return nil, fmt.Errorf("unsupported call statement %s", fun)
	}
	if len(c.Args) < ext.mutates {
		return nil, fmt.Errorf("%s: wrong number of arguments", fun)
	}
	target, ok := c.Args[ext.mutates-1].(*ast.Ident)
	if !ok || env.vars[target.Name] != ext.results[0] {
		return nil, fmt.Errorf("%s writes through its argument %d: only a local variable may be handed in", fun, ext.mutates)
	}
	var lines []string
	vs, err := t.external(env, fun, ext, c, &lines, ctx)
	if err != nil {
		return nil, err
	}
	return append(lines, fmt.Sprintf("let v_%s := %s in", target.Name, vs[0].code)), nil
}

// mapTarget: m[k] on the left of an assignment
func (t *stGen) mapTarget(env *stEnv, l ast.Expr, ctx *stCtx) (m string, key stVal, valTy string, err error) {
	ix, ok := l.(*ast.IndexExpr)
	if !ok {
		return "", stVal{}, "", fmt.Errorf("unsupported assignment target %s", types.ExprString(l))
	}
	id, ok := ix.X.(*ast.Ident)
	if !ok {
		return "", stVal{}, "", fmt.Errorf("unsupported assignment target %s", types.ExprString(l))
	}
	mty := env.vars[id.Name]
	var kb []string
	k, err := t.expr(env, ix.Index, &kb, ctx)
	if err != nil {
		return "", stVal{}, "", err
	}
	if len(kb) != 0 {
		return "", stVal{}, "", fmt.Errorf("the key of %s can panic", types.ExprString(l))
	}
	if mty == ttPtSet {
		if k.ty != ttPt {
			return "", stVal{}, "", fmt.Errorf("key of type %s in a set of points", k.ty)
		}
		return id.Name, k, ttUnit, nil
	}
	if mty == ttTmPolys {
		if k.ty != ttInt {
			return "", stVal{}, "", fmt.Errorf("key of type %s in a map keyed by tms20.TMID", k.ty)
		}
		return id.Name, k, ttPolys, nil
	}
	vt, ok := stMapVal(mty)
	if !ok {
		return "", stVal{}, "", fmt.Errorf("assignment to an element of %s (%s): only maps are supported", id.Name, mty)
	}
	kc, ok := stLevelKey(k)
	if !ok {
		return "", stVal{}, "", fmt.Errorf("map key of type %s", k.ty)
	}
	return id.Name, stVal{code: kc, ty: ttLevel}, vt, nil
}

func (t *stGen) store(m string, mty string, k stVal, v string) string {
	if mty == ttPtSet {
		t.used["vertices[p] = struct{}{} on a map[[2]float64]struct{}  ->  p :: vertices (a set of points as a list; read with mem_pt)"] = true
		return fmt.Sprintf("let v_%s := (%s :: v_%s) in", m, k.code, m)
	}
	if mty == ttTmPolys {
		t.used["m[id] = v on a map[tms20.TMID][]geom.Polygon  ->  gm_set Z.eqb m id v (Prelude/GoAssoc.v; read with gm_get Z.eqb)"] = true
		return fmt.Sprintf("let v_%s := (gm_set Z.eqb v_%s %s %s) in", m, m, k.code, v)
	}
	return fmt.Sprintf("let v_%s := (aset v_%s %s %s) in", m, m, k.code, v)
}

func (t *stGen) assign(env *stEnv, s *ast.AssignStmt, ctx *stCtx) ([]string, *stEnv, error) {
	env2 := env.clone()
	var lines []string
	if s.Tok != token.DEFINE && s.Tok != token.ASSIGN {
		return nil, nil, fmt.Errorf("unsupported assignment operator %s", s.Tok)
	}
	if len(s.Rhs) != 1 {
		return nil, nil, fmt.Errorf("only one expression on the right-hand side is supported")
	}
	// the values
	var vals []stVal
	if c, ok := s.Rhs[0].(*ast.CallExpr); ok {
		// Go evaluates the index operands of the left side first: they are plain keys (checked in mapTarget)
		vs, err := t.call(env, c, &lines, ctx)
		if err != nil {
			return nil, nil, err
		}
		vals = vs
	} else {
		v, err := t.expr(env, s.Rhs[0], &lines, ctx)
		if err != nil {
			return nil, nil, err
		}
		vals = []stVal{v}
	}
	if len(vals) != len(s.Lhs) {
		return nil, nil, fmt.Errorf("%d targets for %d values", len(s.Lhs), len(vals))
	}
	seen := map[string]bool{}
	for i, l := range s.Lhs {
		v := vals[i]
		if id, ok := l.(*ast.Ident); ok {
			n := id.Name
			if n == "_" {
				continue
			}
			if seen[n] {
				return nil, nil, fmt.Errorf("%s assigned twice in one statement", n)
			}
			seen[n] = true
			if s.Tok == token.DEFINE {
				if t.shadowed(env, n) {
					return nil, nil, fmt.Errorf(":= of the existing name %s is not supported", n)
				}
				if strings.HasPrefix(v.ty, "err:") || v.ty == ttNil || v.ty == ttStr {
					return nil, nil, fmt.Errorf(":= of %s from a value of type %s is not supported", n, v.ty)
				}
				env2.declare(n, v.ty)
				lines = append(lines, fmt.Sprintf("let v_%s := %s in", n, v.code))
				continue
			}
			old, exists := env.vars[n]
			if !exists {
				return nil, nil, fmt.Errorf("assignment to the unknown variable %s", n)
			}
			if strings.HasPrefix(v.ty, "err:") { // err = ix.InsertPolygon(..)
				if old != ttErr {
					return nil, nil, fmt.Errorf("an error assigned to %s of type %s", n, old)
				}
				t.errOrigin[n] = strings.TrimPrefix(v.ty, "err:")
				lines = append(lines, fmt.Sprintf("let v_%s := %s in", n, v.code))
				continue
			}
			if old == ttIx || old == ttConfig {
				return nil, nil, fmt.Errorf("assignment to %s", n)
			}
			cv, err := t.conv(v, old)
			if err != nil {
				return nil, nil, fmt.Errorf("assignment to %s: %v", n, err)
			}
			lines = append(lines, fmt.Sprintf("let v_%s := %s in", n, cv.code))
			continue
		}
		if s.Tok == token.DEFINE {
			return nil, nil, fmt.Errorf("unsupported := target %s", types.ExprString(l))
		}
		m, k, vt, err := t.mapTarget(env, l, ctx)
		if err != nil {
			return nil, nil, err
		}
		if seen[m] {
			return nil, nil, fmt.Errorf("%s assigned twice in one statement", m)
		}
		seen[m] = true
		if v.ty != vt {
			return nil, nil, fmt.Errorf("assignment of %s to an element of %s", v.ty, m)
		}
		if len(s.Lhs) > 1 && len(lines) > 0 && i > 0 {
			// a later key must not depend on an earlier store: keys are plain variables of type Level, never maps
		}
		lines = append(lines, t.store(m, env.vars[m], k, v.code))
	}
	return lines, env2, nil
}

// rangeLoop: for i, x := range slice / for _, x := range slice / for k := range map / for k, v := range map
func (t *stGen) rangeLoop(env *stEnv, s *ast.RangeStmt, ctx *stCtx, next stTail) (string, error) {
	if s.Tok != token.DEFINE {
		return "", fmt.Errorf("unsupported range loop (no :=)")
	}
	ident := func(e ast.Expr) (string, error) {
		if e == nil {
			return "", nil
		}
		id, ok := e.(*ast.Ident)
		if !ok {
			return "", fmt.Errorf("unsupported range loop variable")
		}
		if id.Name == "_" {
			return "", nil
		}
		if t.shadowed(env, id.Name) {
			return "", fmt.Errorf("the loop variable %s shadows another name", id.Name)
		}
		return id.Name, nil
	}
	keyN, err := ident(s.Key)
	if err != nil {
		return "", err
	}
	valN, err := ident(s.Value)
	if err != nil {
		return "", err
	}
	if keyN != "" && keyN == valN {
		return "", fmt.Errorf("range loop with the same variable twice")
	}
	t.rangeN++
	num := t.rangeN
	var binds []string
	x, err := t.expr(env, s.X, &binds, ctx)
	if err != nil {
		return "", err
	}
	asg := map[string]bool{}
	t.assigned(env, s.Body.List, asg)
	if asg["?"] {
		return "", fmt.Errorf("range loop: unsupported assignment target")
	}
	decl := map[string]bool{}
	stDeclared(s.Body.List, decl)
	for n := range decl {
		if t.shadowed(env, n) || n == keyN || n == valN {
			return "", fmt.Errorf("the loop body declares %s, which shadows another name", n)
		}
	}
	// the loop variables are per-iteration copies: the body may assign them, they are not state
	stateAsg := map[string]bool{}
	for n := range asg {
		if _, outer := env.vars[n]; outer {
			stateAsg[n] = true
		}
	}
	if keyN != "" && asg[keyN] {
		return "", fmt.Errorf("the loop body assigns its key variable %s", keyN)
	}
	_, tuple, stateTy := t.state(env, stateAsg)
	bodyEnv := env.clone()
	var list, elemParam, what string
	var pre []string
	key := stKey{}
	guard := ""
	elTy, isSlice := stElem(x.ty)
	mapVal, isMap := stMapVal(x.ty)
	rangedMap := ""
	if id, ok := s.X.(*ast.Ident); ok {
		rangedMap = id.Name
	}
	switch {
	case isSlice:
		ast.Inspect(s.X, func(n ast.Node) bool {
			if id, ok := n.(*ast.Ident); ok && stateAsg[id.Name] {
				err = fmt.Errorf("the loop body assigns %s, which is ranged over", id.Name)
			}
			return true
		})
		if err != nil {
			return "", err
		}
		switch {
		case keyN != "" && valN != "":
			p := t.fresh("ix")
			list, elemParam = "(go_enumerate 0 "+x.code+")", fmt.Sprintf("(%s : (Z * %s)%%type)", p, stCoq[elTy])
			pre = append(pre, fmt.Sprintf("let v_%s := (fst %s) in", keyN, p), fmt.Sprintf("let v_%s := (snd %s) in", valN, p))
			bodyEnv.declare(keyN, ttInt)
			bodyEnv.declare(valN, elTy)
			key = stKey{keyN, ttInt}
			t.used["for i, x := range s on a slice  ->  range_loop over go_enumerate 0 s (SnapTopSupport.v)"] = true
		case keyN == "" && valN != "":
			list, elemParam = x.code, fmt.Sprintf("(v_%s : %s)", valN, stCoq[elTy])
			bodyEnv.declare(valN, elTy)
		default:
			return "", fmt.Errorf("unsupported range loop over a slice (index only, or no variable)")
		}
		what = "for .. := range " + types.ExprString(s.X)
	case x.ty == ttLevelSet || isMap || x.ty == ttHitMap:
		if rangedMap == "" {
			return "", fmt.Errorf("range over a map that is not a plain variable")
		}
		if keyN == "" {
			return "", fmt.Errorf("range over a map without a key variable")
		}
		// the map ranged over: delete(m, ..) allowed (guarded), m[..] = .. refused
		deletes, writes := false, false
		ast.Inspect(s.Body, func(n ast.Node) bool {
			switch n := n.(type) {
			case *ast.CallExpr:
				if id, ok := n.Fun.(*ast.Ident); ok && id.Name == "delete" && len(n.Args) == 2 {
					if m, ok := n.Args[0].(*ast.Ident); ok && m.Name == rangedMap {
						deletes = true
					}
				}
			case *ast.AssignStmt:
				for _, l := range n.Lhs {
					if ix, ok := l.(*ast.IndexExpr); ok {
						if m, ok := ix.X.(*ast.Ident); ok && m.Name == rangedMap {
							writes = true
						}
					}
					if m, ok := l.(*ast.Ident); ok && m.Name == rangedMap {
						writes = true
					}
				}
			}
			return true
		})
		if writes {
			return "", fmt.Errorf("the loop body writes to %s, the map it ranges over: the iteration would be unspecified", rangedMap)
		}
		keyTy, keys, ord := ttLevel, x.code, "gord"
		switch {
		case isMap:
			keys = "(lv_keys " + x.code + ")"
		case x.ty == ttHitMap:
			keyTy, keys, ord = ttPt, "(map fst "+x.code+")", "pord"
		}
		site, err := t.site(s.Pos(), ctx, "for "+keyN+" := range "+rangedMap)
		if err != nil {
			return "", err
		}
		list, elemParam = "("+ord+" "+site+" "+keys+")", fmt.Sprintf("(v_%s : %s)", keyN, stCoq[keyTy])
		bodyEnv.declare(keyN, keyTy)
		key = stKey{keyN, keyTy}
		if valN != "" {
			switch {
			case isMap:
				zero, _ := stZero(mapVal)
				pre = append(pre, fmt.Sprintf("let v_%s := (aget v_%s v_%s %s) in", valN, rangedMap, keyN, zero))
				bodyEnv.declare(valN, mapVal)
			case x.ty == ttHitMap:
				pre = append(pre, fmt.Sprintf("let v_%s := (hm_get v_%s v_%s) in", valN, rangedMap, keyN))
				bodyEnv.declare(valN, ttRingIDs)
				t.used["for p, ids := range hitMultiple on a map[intgeom.Point][]int  ->  the keys map fst hitMultiple in the order pord, ids = hm_get hitMultiple p (Index/Model.v)"] = true
			default:
				return "", fmt.Errorf("range over a map[Level]any with a value variable")
			}
			if stateAsg[rangedMap] && !deletes {
				return "", fmt.Errorf("the map ranged over is changed in the loop")
			}
		}
		if deletes {
			if x.ty != ttLevelSet {
				return "", fmt.Errorf("delete from the map ranged over is only supported for map[Level]any")
			}
			guard = fmt.Sprintf("if (negb (mem_nat v_%s v_%s)) then (Ok (Cont %s)) (* the entry was deleted before its turn *)\n  else ", keyN, rangedMap, tuple)
			t.used["for k := range m with delete(m, ..) in the body  ->  the keys present at the start, in the order gord, each skipped when no longer present (mem_nat k m) at its turn"] = true
		}
		t.used["for k := range m on a Go map  ->  range_loop over (gord site keys): the order is a parameter; one site per execution of the statement"] = true
		what = "for " + keyN + " := range " + rangedMap + " (a Go map: order = " + ord + " " + site + ")"
	default:
		return "", fmt.Errorf("range over %s", x.ty)
	}
	inner := &stCtx{depth: ctx.depth + 1, tuple: tuple, keys: append(append([]stKey{}, ctx.keys...), key), nonNil: ctx.nonNil}
	body, err := t.block(bodyEnv, s.Body.List, inner, func(*stEnv) (string, error) { return "Ok (Cont " + tuple + ")", nil })
	if err != nil {
		return "", err
	}
	body = guard + "(" + sgJoin(pre, body) + ")"
	// parameters: the variables of the enclosing scope that occur in the generated body and are not carried as state
	// (the body declares no name of the enclosing scope: checked above)
	var params, actuals []string
	for _, o := range []string{"gord", "pord"} {
		if stOccurs(body, o) {
			params = append(params, stOrdParam(o))
			actuals = append(actuals, o)
		}
	}
	for _, v := range env.order {
		if stOccurs(body, "v_"+v) && !stateAsg[v] {
			params = append(params, fmt.Sprintf("(v_%s : %s)", v, stCoq[env.vars[v]]))
			actuals = append(actuals, "v_"+v)
		}
	}
	name := fmt.Sprintf("gen_%s_range%d", t.fname, num)
	p := t.fset.Position(s.Pos())
	retCoq := stCoq[t.retTy]
	t.defs = append(t.defs, fmt.Sprintf("(* %s:%d %s = range loop %d of %s; state = %s *)\nDefinition %s %s %s : res (rctl %s %s) :=\n  %s.\n\n",
		filepath.Base(p.Filename), p.Line, what, num, t.fname, tuple, name, strings.Join(append(params, elemParam), " "), stPattern(tuple, stateTy), stateTy, retCoq, body))
	restCode, err := next(env)
	if err != nil {
		return "", err
	}
	out, r := t.fresh("out"), t.fresh("r")
	app := name
	if len(actuals) > 0 {
		app = "(" + name + " " + strings.Join(actuals, " ") + ")"
	}
	binds = append(binds, fmt.Sprintf("do %s <- range_loop (R := %s) %s %s %s;", out, retCoq, app, list, tuple))
	return sgJoin(binds, fmt.Sprintf("match %s with\n  | Ret %s => %s\n  | Next %s => %s\n  end", out, r, t.ret(ctx, r), stBindPattern(tuple), restCode)), nil
}

// stOccurs: the identifier occurs in the generated code as a whole word
func stOccurs(code, ident string) bool {
	return regexp.MustCompile(`(^|[^A-Za-z0-9_'.])` + regexp.QuoteMeta(ident) + `($|[^A-Za-z0-9_'])`).MatchString(code)
}

func stOrdParam(o string) string {
	if o == "pord" {
		return "(pord : gen_site -> list pt -> list pt)"
	}
	return "(gord : gen_site -> list nat -> list nat)"
}

// fn: one function of snap.go
func (t *stGen) fn(name string) (string, error) {
	fd, ok := t.snap.funcs[name]
	if !ok || fd.Body == nil {
		return "", fmt.Errorf("function %s not found", name)
	}
	if fd.Type.TypeParams != nil {
		return "", fmt.Errorf("%s: generic functions are not supported", name)
	}
	t.fname, t.rangeN, t.defs, t.n = name, 0, nil, 0
	t.errOrigin, t.dead = map[string]string{}, map[string]bool{}
	env := &stEnv{vars: map[string]string{}}
	var params []string
	for _, f := range fd.Type.Params.List {
		if len(f.Names) == 0 {
			return "", fmt.Errorf("%s: unnamed parameter", name)
		}
		for _, n := range f.Names {
			ty, err := t.goType(f.Type)
			if err != nil {
				return "", fmt.Errorf("%s: %v", name, err)
			}
			if _, dup := env.vars[n.Name]; dup || n.Name == "_" {
				return "", fmt.Errorf("%s: unsupported parameter name %s", name, n.Name)
			}
			env.declare(n.Name, ty)
			params = append(params, fmt.Sprintf("(v_%s : %s)", n.Name, stCoq[ty]))
		}
	}
	if fd.Type.Results == nil || len(fd.Type.Results.List) != 1 || len(fd.Type.Results.List[0].Names) != 0 {
		return "", fmt.Errorf("%s: unsupported result list", name)
	}
	var err error
	if t.retTy, err = t.goType(fd.Type.Results.List[0].Type); err != nil {
		return "", fmt.Errorf("%s: %v", name, err)
	}
	ctx := &stCtx{}
	body, err := t.block(env, fd.Body.List, ctx, func(*stEnv) (string, error) {
		return "", fmt.Errorf("control reaches the end of the function without a return")
	})
	if err != nil {
		return "", fmt.Errorf("%s: %v", name, err)
	}
	var out strings.Builder
	for _, d := range t.defs {
		out.WriteString(d)
	}
	var ords, ordNames, ptys []string
	for _, o := range []string{"gord", "pord"} {
		if stOccurs(body, o) {
			ords = append(ords, stOrdParam(o))
			ordNames = append(ordNames, o)
		}
	}
	for _, v := range env.order {
		ptys = append(ptys, env.vars[v])
	}
	t.generated[name] = stGenerated{params: ptys, ret: t.retTy, ords: ordNames}
	pos := t.fset.Position(fd.Pos())
	fmt.Fprintf(&out, "(* %s:%d func %s *)\nDefinition gen_%s %s : res %s :=\n  %s.\n\n",
		filepath.Base(pos.Filename), pos.Line, name, name, strings.Join(append(ords, params...), " "), stCoq[t.retTy], body)
	return out.String(), nil
}

func genSnapTop(repo string) (string, error) {
	t := &stGen{fset: token.NewFileSet(), used: map[string]bool{}, siteAt: map[token.Pos]int{}, generated: map[string]stGenerated{}}
	var err error
	if t.snap, err = stParse(t.fset, filepath.Join(repo, "snap/snap.go")); err != nil {
		return "", err
	}
	if t.mshelp, err = stParse(t.fset, filepath.Join(repo, "mapslicehelp/mapslicehelp.go")); err != nil {
		return "", err
	}
	if t.geomhelp, err = stParse(t.fset, filepath.Join(repo, "geomhelp/geomhelp.go")); err != nil {
		return "", err
	}
	if t.pindex, err = stParse(t.fset, filepath.Join(repo, "pointindex/pointindex.go")); err != nil {
		return "", err
	}
	if t.tms20, err = stParse(t.fset, filepath.Join(repo, "tms20/tms20.go")); err != nil {
		return "", err
	}
	// tms20: type TMID = int; TileMatrixSet.TileMatrices map[TMID]TileMatrix; TileMatrix.TileWidth uint
	if ts, ok := t.tms20.typeDecl("TMID"); !ok || ts.Assign == token.NoPos || types.ExprString(ts.Type) != "int" {
		return "", fmt.Errorf("tms20.go: `type TMID = int` not found")
	}
	for _, want := range [][3]string{{"TileMatrixSet", "TileMatrices", "map[TMID]TileMatrix"}, {"TileMatrix", "TileWidth", "uint"}} {
		ts, ok := t.tms20.typeDecl(want[0])
		found := false
		if ok {
			if st, ok := ts.Type.(*ast.StructType); ok {
				for _, f := range st.Fields.List {
					for _, n := range f.Names {
						if n.Name == want[1] && types.ExprString(f.Type) == want[2] {
							found = true
						}
					}
				}
			}
		}
		if !found {
			return "", fmt.Errorf("tms20.go: field %s.%s %s not found", want[0], want[1], want[2])
		}
	}
	for _, b := range []string{"len", "make", "append", "delete", "nil", "panic", "true", "false", "any", "uint", "float64", "new", "int"} {
		if _, ok := t.snap.funcs[b]; ok {
			return "", fmt.Errorf("package snap declares its own %s", b)
		}
		if _, ok := t.snap.typeDecl(b); ok {
			return "", fmt.Errorf("package snap declares its own %s", b)
		}
	}
	// snap.Config = the model's record config, field by field
	ts, ok := t.snap.typeDecl("Config")
	if !ok {
		return "", fmt.Errorf("type Config not found")
	}
	stc, ok := ts.Type.(*ast.StructType)
	if !ok {
		return "", fmt.Errorf("Config is not a struct")
	}
	var got, want []string
	for _, f := range stc.Fields.List {
		for _, n := range f.Names {
			got = append(got, n.Name+" "+types.ExprString(f.Type))
		}
	}
	for _, f := range stConfigFields {
		want = append(want, f.name+" bool")
	}
	if strings.Join(got, ";") != strings.Join(want, ";") {
		return "", fmt.Errorf("snap.Config has the fields %v, the model's record config has %v", got, want)
	}
	var code strings.Builder
	for _, name := range []string{"verticesHitMultiple", "addPointsAndSnap", "tileMatrixIDsByLevels", "SnapPolygon"} {
		c, err := t.fn(name)
		if err != nil {
			return "", err
		}
		code.WriteString(c)
	}
	var out strings.Builder
	out.WriteString("(* GENERATED by /verif/translator (G2, loops over Go maps in the error monad; translator/snaptop.go) from snap/snap.go on every run -- do not edit.\n\n")
	out.WriteString("   Every statement of verticesHitMultiple, addPointsAndSnap, tileMatrixIDsByLevels and SnapPolygon is derived from the\n   AST; each range-loop body is a\n")
	out.WriteString("   definition gen_<func>_range<N> (parameters = the variables it reads, state = the variables it assigns).\n")
	out.WriteString("   int is exact Z, pointindex.Level is nat, [2]float64 is pt, slices are VALUES (append(a, s...) = a ++ s; sharing of\n")
	out.WriteString("   backing arrays, e.g. slices.Reverse through reverseWindingOrderIfConfigured reaching the rings of newOuters, is\n")
	out.WriteString("   outside the translation).  map[pointindex.Level]T = association list read with aget (zero value when absent) and\n")
	out.WriteString("   written with aset; map[Level]any = the list of its keys.  A range over a Go map iterates over (gord site keys):\n")
	out.WriteString("   gen_site has one constructor per order-consuming statement, with the key variables of the enclosing loops as\n")
	out.WriteString("   arguments, so that every execution may use its own order; the theorems hold for EVERY gord that permutes.\n")
	out.WriteString("   Kept as calls of REGENERATED functions of other gen files, or of the MODEL's function (trusted micro-models of\n")
	out.WriteString("   Snap/SnapTopSupport.v), after the AST was checked for the exact callee, import path and declared signature:\n")
	var docs []string
	for d := range t.used {
		docs = append(docs, d)
	}
	sort.Strings(docs)
	for _, d := range docs {
		out.WriteString("     - " + d + "\n")
	}
	out.WriteString("*)\n")
	out.WriteString("From Coq Require Import ZArith List Bool.\nFrom Texel Require Import Prelude.Base Prelude.GoLoop Prelude.GoLib Prelude.GoAssoc Index.Model Snap.Model Snap.ModelInterleaved Snap.SnapTopSupport.\n")
	out.WriteString("From Texel Require Tms.Model Tms.GoTms.\nFrom Texel.Gen Require Import ConstsGen.\n")
	out.WriteString("From Texel.Gen Require SnapSmallGen CleanupRingGen DedupeGen MatchGen RingHelpersGen.\nImport ListNotations.\nOpen Scope Z_scope.\n\n")
	out.WriteString("(* the order-consuming statements: ranges over Go maps, calls of modelled functions that range over a map *)\nInductive gen_site : Type :=\n")
	for _, s := range t.sites {
		line := fmt.Sprintf("| GSite%d", s.n)
		for _, a := range s.args {
			line += fmt.Sprintf(" (v_%s : %s)", a.name, stCoq[a.ty])
		}
		out.WriteString(line + "   (* " + s.doc + " *)\n")
	}
	out.WriteString(".\n\n")
	out.WriteString(code.String())
	return strings.TrimRight(out.String(), "\n") + "\n", nil
}
