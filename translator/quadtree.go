package main

import (
	"bytes"
	"fmt"
	"go/ast"
	"go/parser"
	"go/printer"
	"go/token"
	"go/types"
	"math/big"
	"os"
	"path/filepath"
	"sort"
	"strconv"
	"strings"
)

// ---------------------------------------------------------------------------
// G2 (tile matrix sets): pointindex.IsQuadTree -> gen/QuadTreeGen.v
//
// The body of IsQuadTree is translated statement by statement into the monad
// `qres` of Tms/GoTms.v (a value, or the panic "nil pointer dereference"):
//   var x T                         let v_x := <zero value of T> in
//   x := e / x = e                  let v_x := e in
//   if c { .. return .. }           if c then .. else <the statements that follow>
//   if c { .. }                     let k_n := fun <assigned variables> => <the statements that follow> in
//                                   if c then (.. k_n ..) else k_n ..
//   for _, k := range keys { .. }   a Definition gen_isQuadTree_loopN (one run of the body) and qrange over it; the
//                                   state = the variables declared before the loop that the body assigns
//   p.f, *p  (p a pointer)          qdo t <- deref p;   (QNilDeref when p is nil)
//   &x                              Some v_x   (x a local struct assigned exactly once: nothing can change the pointee)
//   return errors.New(..)           Some n, n = the index of its message literal among the DISTINCT message literals of the
//                                   errors.New calls of the function, in source order (two calls with one message = one error)
//   return nil                      None
//   a != b ..                       on int / uint: Z comparisons; + - * on int / uint: wrap at 64 bits (int_add, uint_mul, ..)
//   tm.F                            the projection of the model's record tileMatrix (table qtTMFields, checked against the
//                                   struct declaration in tms20/tms20.go: field present with exactly that Go type)
// Kept as a function of the model / of Tms/GoTms.v, after checking the AST for the exact shape (TRUSTED):
//   ks := maps.Keys(t.TileMatrices); slices.Sort(ks); for _, k := range ks { .. t.TileMatrices[k] .. }
//        -> the entries (k, t.TileMatrices[k]) of `sorted_matrices t` (Tms/Model.v), in that order; a source that ranges
//           over the keys without the slices.Sort, or looks up another key, is refused
//   n, err := strconv.Atoi(s), followed at once by `if err != nil { return err }`  -> go_atoi s (parse_int)
//   mathhelp.FBetweenInc(a / b, lit, lit), a b float64 fields, lit numeric literals, mathhelp.FBetweenInc having
//        exactly the body the model transcribes                                   -> fbetween_quo a b lit lit
//   *p != *q on *TwoDPoint ([2]float64)  -> negb (point_feqb ..) ; != on CornerOfOrigin -> negb (corner_eqb ..)
//   len(s) on a slice field                                                        -> go_len
// Anything else is an error = a generated file that does not compile.
// ---------------------------------------------------------------------------

type qtTy string

const (
	qtInt      qtTy = "int"
	qtUint     qtTy = "uint"
	qtString   qtTy = "string"
	qtFloat    qtTy = "float64"
	qtBool     qtTy = "bool"
	qtTM       qtTy = "TileMatrix"
	qtTMPtr    qtTy = "*TileMatrix"
	qtPoint    qtTy = "TwoDPoint"
	qtPointPtr qtTy = "*TwoDPoint"
	qtCorner   qtTy = "CornerOfOrigin"
	qtVmws     qtTy = "[]VariableMatrixWidth"
	qtStrings  qtTy = "[]string"
	qtErr      qtTy = "error"
	qtTMS      qtTy = "TileMatrixSet"
	qtKeys     qtTy = "keys"  // maps.Keys(t.TileMatrices): no value of its own
	qtNil      qtTy = "nil"   // the untyped nil
	qtConst    qtTy = "const" // an untyped integer constant
	qtQuo      qtTy = "quo"   // a / b on float64: only as the first argument of mathhelp.FBetweenInc
)

var qtCoq = map[qtTy]string{qtInt: "Z", qtUint: "Z", qtString: "string", qtFloat: "dec", qtBool: "bool", qtTM: "tileMatrix",
	qtTMPtr: "(option tileMatrix)", qtPoint: "(dec * dec)%type", qtPointPtr: "(option (dec * dec))", qtCorner: "corner",
	qtVmws: "(option (list vmw))", qtStrings: "(option (list string))", qtErr: "goerr", qtTMS: "tms"}

type qtField struct {
	goType string // the type the field must have in tms20/tms20.go
	proj   string // the projection of the record tileMatrix of Tms/Model.v
	ty     qtTy
}

// tms20.TileMatrix -> the record tileMatrix of Tms/Model.v
var qtTMFields = map[string]qtField{
	"ID":                   {"string", "tm_id", qtString},
	"Title":                {"string", "tm_title", qtString},
	"Description":          {"string", "tm_description", qtString},
	"Keywords":             {"[]string", "tm_keywords", qtStrings},
	"ScaleDenominator":     {"float64", "tm_scaleDenominator", qtFloat},
	"CellSize":             {"float64", "tm_cellSize", qtFloat},
	"CornerOfOrigin":       {"CornerOfOrigin", "tm_corner", qtCorner},
	"PointOfOrigin":        {"*TwoDPoint", "tm_origin", qtPointPtr},
	"TileWidth":            {"uint", "tm_tileWidth", qtUint},
	"TileHeight":           {"uint", "tm_tileHeight", qtUint},
	"MatrixWidth":          {"uint", "tm_matrixWidth", qtUint},
	"MatrixHeight":         {"uint", "tm_matrixHeight", qtUint},
	"VariableMatrixWidths": {"[]VariableMatrixWidth", "tm_vmw", qtVmws},
}

// declarations of tms20 the translation relies on
var qtTypeDecls = map[string]string{
	"TMID":           "= int",
	"TwoDPoint":      "[2]float64",
	"CornerOfOrigin": "string",
}

const qtFBetweenInc = "func FBetweenInc(f, p, q float64) bool { if p <= q { return p <= f && f <= q } return q <= f && f <= p }"

type qtVal struct {
	code string
	ty   qtTy
	c    *big.Int // qtConst
	quo  [2]string
}

type qtEnv struct {
	order      []string
	vars       map[string]qtTy
	block      map[string]bool   // declared in the current block
	keysOf     map[string]string // ks := maps.Keys(t.TileMatrices)  ->  t
	keysSorted map[string]bool   // slices.Sort(ks) has been executed
	entryOf    map[string]string // for _, k := range ks  ->  t
}

func (e *qtEnv) clone(newBlock bool) *qtEnv {
	c := &qtEnv{order: append([]string{}, e.order...), vars: map[string]qtTy{}, block: map[string]bool{},
		keysOf: map[string]string{}, keysSorted: map[string]bool{}, entryOf: map[string]string{}}
	for k, v := range e.vars {
		c.vars[k] = v
	}
	if !newBlock {
		for k, v := range e.block {
			c.block[k] = v
		}
	}
	for k, v := range e.keysOf {
		c.keysOf[k] = v
	}
	for k, v := range e.keysSorted {
		c.keysSorted[k] = v
	}
	for k, v := range e.entryOf {
		c.entryOf[k] = v
	}
	return c
}

var qtReserved = map[string]bool{"nil": true, "true": true, "false": true, "len": true, "maps": true, "slices": true,
	"strconv": true, "errors": true, "mathhelp": true, "tms20": true, "int": true, "uint": true, "string": true, "error": true,
	"_": true}

func (e *qtEnv) declare(n string, ty qtTy) error {
	if qtReserved[n] {
		return fmt.Errorf("a variable named %s is not supported", n)
	}
	if _, ok := e.vars[n]; ok && !e.block[n] {
		return fmt.Errorf("%s shadows a variable of an enclosing block: not supported", n)
	}
	if _, ok := e.vars[n]; !ok {
		e.order = append(e.order, n)
	}
	e.vars[n] = ty
	e.block[n] = true
	return nil
}

type qtCtx struct {
	ret  func(string) string          // the term of `return v`
	tail func(*qtEnv) (string, error) // the term of falling off the end of the block
}

type qt struct {
	fset     *token.FileSet
	fd       *ast.FuncDecl
	pkgs     map[string]string
	errIdx   map[*ast.CallExpr]int
	errMsgs  []string
	assigns  map[string]int // number of assignments / declarations per variable name in the whole function
	n        int
	loopN    int
	defs     []string
	resultTy qtTy
}

func (g *qt) fresh(p string) string {
	g.n++
	return fmt.Sprintf("%s_%d", p, g.n)
}

func (g *qt) src(n ast.Node) string {
	var b bytes.Buffer
	_ = printer.Fprint(&b, g.fset, n)
	return strings.Join(strings.Fields(b.String()), " ")
}

func (g *qt) goType(x ast.Expr) (qtTy, error) {
	switch types.ExprString(x) {
	case "int", "tms20.TMID":
		return qtInt, nil
	case "uint":
		return qtUint, nil
	case "string":
		return qtString, nil
	case "bool":
		return qtBool, nil
	case "error":
		return qtErr, nil
	case "tms20.TileMatrix":
		return qtTM, nil
	case "*tms20.TileMatrix":
		return qtTMPtr, nil
	case "tms20.TileMatrixSet":
		return qtTMS, nil
	}
	return "", fmt.Errorf("unsupported type %s", types.ExprString(x))
}

func qtZero(ty qtTy) (string, error) {
	switch ty {
	case qtInt, qtUint:
		return "0", nil
	case qtBool:
		return "false", nil
	case qtString:
		return "EmptyString", nil
	case qtTMPtr:
		return "(@None tileMatrix)", nil
	case qtErr:
		return "(@None nat)", nil
	}
	return "", fmt.Errorf("zero value of %s is not supported", ty)
}

func qtJoin(binds []string, last string) string {
	if len(binds) == 0 {
		return last
	}
	return strings.Join(binds, "\n") + "\n" + last
}

// conv: a value used where type ty is expected (untyped constants, nil)
func (g *qt) conv(v qtVal, ty qtTy) (qtVal, error) {
	if v.ty == ty && ty != qtConst {
		return v, nil
	}
	if v.ty == qtConst {
		switch ty {
		case qtInt:
			lim := new(big.Int).Lsh(big.NewInt(1), 63)
			if v.c.Cmp(lim) >= 0 || v.c.Cmp(new(big.Int).Neg(lim)) < 0 {
				return qtVal{}, fmt.Errorf("constant %s overflows int", v.c)
			}
			return qtVal{code: lgLit(v.c), ty: qtInt}, nil
		case qtUint:
			if v.c.Sign() < 0 || v.c.Cmp(new(big.Int).Lsh(big.NewInt(1), 64)) >= 0 {
				return qtVal{}, fmt.Errorf("constant %s overflows uint", v.c)
			}
			return qtVal{code: lgLit(v.c), ty: qtUint}, nil
		}
	}
	if v.ty == qtNil {
		switch ty {
		case qtTMPtr:
			return qtVal{code: "(@None tileMatrix)", ty: ty}, nil
		case qtErr:
			return qtVal{code: "(@None nat)", ty: ty}, nil
		}
	}
	return qtVal{}, fmt.Errorf("type mismatch: %s used as %s", v.ty, ty)
}

func (g *qt) pkgIs(env *qtEnv, x ast.Expr, name, path string) bool {
	id, ok := x.(*ast.Ident)
	if !ok || id.Name != name || g.pkgs[name] != path {
		return false
	}
	_, shadow := env.vars[name]
	return !shadow
}

// isMapOf: x is t.TileMatrices with t a variable of type tms20.TileMatrixSet; returns t
func (g *qt) isMapOf(env *qtEnv, x ast.Expr) (string, bool) {
	sel, ok := x.(*ast.SelectorExpr)
	if !ok || sel.Sel.Name != "TileMatrices" {
		return "", false
	}
	id, ok := sel.X.(*ast.Ident)
	if !ok || env.vars[id.Name] != qtTMS {
		return "", false
	}
	return id.Name, true
}

func (g *qt) field(x qtVal, name string, binds *[]string) (qtVal, error) {
	f, ok := qtTMFields[name]
	if !ok {
		return qtVal{}, fmt.Errorf("field %s of TileMatrix is not supported", name)
	}
	switch x.ty {
	case qtTM:
		return qtVal{code: "(" + f.proj + " " + x.code + ")", ty: f.ty}, nil
	case qtTMPtr:
		p := g.fresh("p")
		*binds = append(*binds, fmt.Sprintf("qdo %s <- deref %s;", p, x.code))
		return qtVal{code: "(" + f.proj + " " + p + ")", ty: f.ty}, nil
	}
	return qtVal{}, fmt.Errorf("selector .%s on %s", name, x.ty)
}

func (g *qt) expr(env *qtEnv, x ast.Expr, binds *[]string) (qtVal, error) {
	switch x := x.(type) {
	case *ast.ParenExpr:
		return g.expr(env, x.X, binds)
	case *ast.BasicLit:
		switch x.Kind {
		case token.INT:
			z, err := parseIntLit(x.Value)
			if err != nil {
				return qtVal{}, err
			}
			return qtVal{ty: qtConst, c: z}, nil
		case token.STRING:
			s, err := strconv.Unquote(x.Value)
			if err != nil {
				return qtVal{}, err
			}
			return qtVal{code: coqString(s) + "%string", ty: qtString}, nil
		}
		return qtVal{}, fmt.Errorf("unsupported literal %s", x.Value)
	case *ast.Ident:
		switch x.Name {
		case "true", "false":
			return qtVal{code: x.Name, ty: qtBool}, nil
		case "nil":
			return qtVal{code: "nil", ty: qtNil}, nil
		}
		t, ok := env.vars[x.Name]
		if !ok {
			return qtVal{}, fmt.Errorf("unknown identifier %s", x.Name)
		}
		if t == qtKeys || t == qtTMS {
			return qtVal{}, fmt.Errorf("%s (%s) cannot be used as a value here", x.Name, t)
		}
		return qtVal{code: "v_" + x.Name, ty: t}, nil
	case *ast.SelectorExpr:
		if _, isMap := g.isMapOf(env, x); isMap {
			return qtVal{}, fmt.Errorf("%s may only be handed to maps.Keys or indexed with a key of its sorted keys", g.src(x))
		}
		v, err := g.expr(env, x.X, binds)
		if err != nil {
			return qtVal{}, err
		}
		return g.field(v, x.Sel.Name, binds)
	case *ast.StarExpr:
		v, err := g.expr(env, x.X, binds)
		if err != nil {
			return qtVal{}, err
		}
		var ty qtTy
		switch v.ty {
		case qtPointPtr:
			ty = qtPoint
		case qtTMPtr:
			ty = qtTM
		default:
			return qtVal{}, fmt.Errorf("dereference of %s", v.ty)
		}
		p := g.fresh("p")
		*binds = append(*binds, fmt.Sprintf("qdo %s <- deref %s;", p, v.code))
		return qtVal{code: p, ty: ty}, nil
	case *ast.IndexExpr:
		// t.TileMatrices[k], k the variable of a range over the sorted keys of t.TileMatrices
		t, isMap := g.isMapOf(env, x.X)
		k, isId := x.Index.(*ast.Ident)
		if !isMap || !isId || env.entryOf[k.Name] != t || env.vars[k.Name] != qtInt {
			return qtVal{}, fmt.Errorf("%s: only t.TileMatrices[k] with k ranging over the sorted maps.Keys(t.TileMatrices) is supported", g.src(x))
		}
		return qtVal{code: "(snd e_" + k.Name + ")", ty: qtTM}, nil
	case *ast.UnaryExpr:
		switch x.Op {
		case token.NOT:
			v, err := g.expr(env, x.X, binds)
			if err != nil {
				return qtVal{}, err
			}
			if v.ty != qtBool {
				return qtVal{}, fmt.Errorf("! on %s", v.ty)
			}
			return qtVal{code: "(negb " + v.code + ")", ty: qtBool}, nil
		case token.AND:
			id, ok := x.X.(*ast.Ident)
			if !ok || env.vars[id.Name] != qtTM {
				return qtVal{}, fmt.Errorf("& is only supported on a local TileMatrix variable")
			}
			if g.assigns[id.Name] != 1 {
				return qtVal{}, fmt.Errorf("&%s: %s is assigned %d times; the pointer is translated as a copy, which needs a variable that never changes", id.Name, id.Name, g.assigns[id.Name])
			}
			return qtVal{code: "(Some v_" + id.Name + ")", ty: qtTMPtr}, nil
		case token.SUB:
			v, err := g.expr(env, x.X, binds)
			if err != nil {
				return qtVal{}, err
			}
			if v.ty == qtConst {
				return qtVal{ty: qtConst, c: new(big.Int).Neg(v.c)}, nil
			}
			if v.ty == qtInt {
				return qtVal{code: "(int_sub 0 " + v.code + ")", ty: qtInt}, nil
			}
		}
		return qtVal{}, fmt.Errorf("unsupported unary %s", x.Op)
	case *ast.BinaryExpr:
		return g.binary(env, x, binds)
	case *ast.CallExpr:
		return g.call(env, x, binds)
	}
	return qtVal{}, fmt.Errorf("unsupported expression %s", g.src(x))
}

func (g *qt) binary(env *qtEnv, x *ast.BinaryExpr, binds *[]string) (qtVal, error) {
	if x.Op == token.LAND || x.Op == token.LOR {
		a, err := g.expr(env, x.X, binds)
		if err != nil {
			return qtVal{}, err
		}
		var rb []string
		b, err := g.expr(env, x.Y, &rb)
		if err != nil {
			return qtVal{}, err
		}
		if a.ty != qtBool || b.ty != qtBool {
			return qtVal{}, fmt.Errorf("%s on %s, %s", x.Op, a.ty, b.ty)
		}
		if len(rb) == 0 {
			op := "&&"
			if x.Op == token.LOR {
				op = "||"
			}
			return qtVal{code: "(" + a.code + " " + op + " " + b.code + ")", ty: qtBool}, nil
		}
		c := g.fresh("c")
		inner := qtJoin(rb, "QOk "+b.code)
		if x.Op == token.LAND {
			*binds = append(*binds, fmt.Sprintf("qdo %s <- (if %s then (%s) else QOk false);", c, a.code, inner))
		} else {
			*binds = append(*binds, fmt.Sprintf("qdo %s <- (if %s then QOk true else (%s));", c, a.code, inner))
		}
		return qtVal{code: c, ty: qtBool}, nil
	}
	a, err := g.expr(env, x.X, binds)
	if err != nil {
		return qtVal{}, err
	}
	b, err := g.expr(env, x.Y, binds)
	if err != nil {
		return qtVal{}, err
	}
	// comparisons with nil
	if (a.ty == qtNil) != (b.ty == qtNil) && (x.Op == token.EQL || x.Op == token.NEQ) {
		p := a
		if a.ty == qtNil {
			p = b
		}
		switch p.ty {
		case qtTMPtr, qtPointPtr, qtErr:
			f := "is_nonnil"
			if x.Op == token.EQL {
				f = "is_nil"
			}
			return qtVal{code: "(" + f + " " + p.code + ")", ty: qtBool}, nil
		}
		return qtVal{}, fmt.Errorf("comparison of %s with nil", p.ty)
	}
	// constants
	if a.ty == qtConst && b.ty == qtConst {
		var z *big.Int
		switch x.Op {
		case token.ADD:
			z = new(big.Int).Add(a.c, b.c)
		case token.SUB:
			z = new(big.Int).Sub(a.c, b.c)
		case token.MUL:
			z = new(big.Int).Mul(a.c, b.c)
		default:
			return qtVal{}, fmt.Errorf("unsupported constant expression %s", g.src(x))
		}
		return qtVal{ty: qtConst, c: z}, nil
	}
	if a.ty == qtConst {
		if a, err = g.conv(a, b.ty); err != nil {
			return qtVal{}, err
		}
	}
	if b.ty == qtConst {
		if b, err = g.conv(b, a.ty); err != nil {
			return qtVal{}, err
		}
	}
	if a.ty != b.ty {
		return qtVal{}, fmt.Errorf("mismatched operand types %s %s %s", a.ty, x.Op, b.ty)
	}
	cmp := func(eqb string) (qtVal, error) {
		switch x.Op {
		case token.EQL:
			return qtVal{code: "(" + eqb + " " + a.code + " " + b.code + ")", ty: qtBool}, nil
		case token.NEQ:
			return qtVal{code: "(negb (" + eqb + " " + a.code + " " + b.code + "))", ty: qtBool}, nil
		}
		return qtVal{}, fmt.Errorf("unsupported operator %s on %s", x.Op, a.ty)
	}
	switch a.ty {
	case qtInt, qtUint:
		pre := "int_"
		if a.ty == qtUint {
			pre = "uint_"
		}
		switch x.Op {
		case token.ADD:
			return qtVal{code: "(" + pre + "add " + a.code + " " + b.code + ")", ty: a.ty}, nil
		case token.SUB:
			return qtVal{code: "(" + pre + "sub " + a.code + " " + b.code + ")", ty: a.ty}, nil
		case token.MUL:
			return qtVal{code: "(" + pre + "mul " + a.code + " " + b.code + ")", ty: a.ty}, nil
		case token.EQL:
			return qtVal{code: "(" + a.code + " =? " + b.code + ")", ty: qtBool}, nil
		case token.NEQ:
			return qtVal{code: "(negb (" + a.code + " =? " + b.code + "))", ty: qtBool}, nil
		case token.LSS:
			return qtVal{code: "(" + a.code + " <? " + b.code + ")", ty: qtBool}, nil
		case token.LEQ:
			return qtVal{code: "(" + a.code + " <=? " + b.code + ")", ty: qtBool}, nil
		case token.GTR:
			return qtVal{code: "(" + b.code + " <? " + a.code + ")", ty: qtBool}, nil
		case token.GEQ:
			return qtVal{code: "(" + b.code + " <=? " + a.code + ")", ty: qtBool}, nil
		}
	case qtString:
		if x.Op == token.ADD {
			return qtVal{code: "(append " + a.code + " " + b.code + ")", ty: qtString}, nil
		}
		return cmp("String.eqb")
	case qtBool:
		return cmp("Bool.eqb")
	case qtPoint:
		return cmp("point_feqb")
	case qtCorner:
		return cmp("corner_eqb")
	case qtFloat:
		if x.Op == token.QUO {
			return qtVal{ty: qtQuo, quo: [2]string{a.code, b.code}}, nil
		}
	}
	return qtVal{}, fmt.Errorf("unsupported operator %s on %s", x.Op, a.ty)
}

func (g *qt) call(env *qtEnv, x *ast.CallExpr, binds *[]string) (qtVal, error) {
	if x.Ellipsis != token.NoPos {
		return qtVal{}, fmt.Errorf("unsupported call %s", g.src(x))
	}
	if id, ok := x.Fun.(*ast.Ident); ok && id.Name == "len" {
		if _, shadow := env.vars["len"]; shadow || len(x.Args) != 1 {
			return qtVal{}, fmt.Errorf("unsupported len")
		}
		a, err := g.expr(env, x.Args[0], binds)
		if err != nil {
			return qtVal{}, err
		}
		if a.ty != qtVmws && a.ty != qtStrings {
			return qtVal{}, fmt.Errorf("len of %s", a.ty)
		}
		return qtVal{code: "(go_len " + a.code + ")", ty: qtInt}, nil
	}
	sel, ok := x.Fun.(*ast.SelectorExpr)
	if !ok {
		return qtVal{}, fmt.Errorf("unsupported call %s", g.src(x))
	}
	switch {
	case g.pkgIs(env, sel.X, "errors", "errors") && sel.Sel.Name == "New":
		if len(x.Args) != 1 {
			return qtVal{}, fmt.Errorf("errors.New: unexpected arguments")
		}
		// the message is evaluated (it may dereference) and then plays no role: the verdict is the number of the check
		m, err := g.expr(env, x.Args[0], binds)
		if err != nil {
			return qtVal{}, err
		}
		if m.ty != qtString {
			return qtVal{}, fmt.Errorf("errors.New of %s", m.ty)
		}
		i, ok := g.errIdx[x]
		if !ok {
			return qtVal{}, fmt.Errorf("internal: errors.New call without a number")
		}
		return qtVal{code: fmt.Sprintf("(Some %d%%nat)", i), ty: qtErr}, nil
	case g.pkgIs(env, sel.X, "mathhelp", "github.com/pdok/texel/mathhelp") && sel.Sel.Name == "FBetweenInc":
		if len(x.Args) != 3 {
			return qtVal{}, fmt.Errorf("mathhelp.FBetweenInc: unexpected arguments")
		}
		q, err := g.expr(env, x.Args[0], binds)
		if err != nil {
			return qtVal{}, err
		}
		if q.ty != qtQuo {
			return qtVal{}, fmt.Errorf("mathhelp.FBetweenInc: the first argument must be a quotient a / b of two float64 fields, got %s", g.src(x.Args[0]))
		}
		var lits []string
		for _, a := range x.Args[1:] {
			bl, ok := a.(*ast.BasicLit)
			if !ok || (bl.Kind != token.FLOAT && bl.Kind != token.INT) {
				return qtVal{}, fmt.Errorf("mathhelp.FBetweenInc: the bounds must be numeric literals, got %s", g.src(a))
			}
			m, e, err := decimalOf(bl.Value)
			if err != nil {
				return qtVal{}, err
			}
			lits = append(lits, fmt.Sprintf("(Dec %s %s)", coqZ(m), coqZ(e)))
		}
		return qtVal{code: fmt.Sprintf("(fbetween_quo %s %s %s %s)", q.quo[0], q.quo[1], lits[0], lits[1]), ty: qtBool}, nil
	}
	return qtVal{}, fmt.Errorf("unsupported call %s", g.src(x))
}

// value: an expression that must be a proper value (not a / b, not an untyped constant without a type)
func (g *qt) value(env *qtEnv, x ast.Expr, binds *[]string, want qtTy) (qtVal, error) {
	v, err := g.expr(env, x, binds)
	if err != nil {
		return qtVal{}, err
	}
	if want == "" {
		if v.ty == qtConst {
			want = qtInt
		} else {
			want = v.ty
		}
	}
	if v, err = g.conv(v, want); err != nil {
		return qtVal{}, err
	}
	if _, ok := qtCoq[v.ty]; !ok {
		return qtVal{}, fmt.Errorf("%s is not a value that can be stored", g.src(x))
	}
	return v, nil
}

// terminates: every path through the statements ends in a return
func qtTerminates(list []ast.Stmt) bool {
	if len(list) == 0 {
		return false
	}
	switch s := list[len(list)-1].(type) {
	case *ast.ReturnStmt:
		return true
	case *ast.IfStmt:
		if s.Else == nil {
			return false
		}
		var els []ast.Stmt
		switch e := s.Else.(type) {
		case *ast.BlockStmt:
			els = e.List
		default:
			els = []ast.Stmt{e}
		}
		return qtTerminates(s.Body.List) && qtTerminates(els)
	}
	return false
}

// assigned: the variables of env that the statements assign, in the order of env
func qtAssigned(env *qtEnv, list []ast.Stmt) []string {
	set := map[string]bool{}
	for _, st := range list {
		ast.Inspect(st, func(n ast.Node) bool {
			switch s := n.(type) {
			case *ast.AssignStmt:
				for _, l := range s.Lhs {
					if id, ok := l.(*ast.Ident); ok {
						set[id.Name] = true
					}
				}
			case *ast.IncDecStmt:
				if id, ok := s.X.(*ast.Ident); ok {
					set[id.Name] = true
				}
			}
			return true
		})
	}
	var out []string
	for _, n := range env.order {
		if _, isVal := qtCoq[env.vars[n]]; set[n] && isVal {
			out = append(out, n)
		}
	}
	return out
}

func (g *qt) tuple(names []string, pre string) string {
	if len(names) == 0 {
		return "tt"
	}
	var l []string
	for _, n := range names {
		l = append(l, pre+n)
	}
	if len(l) == 1 {
		return l[0]
	}
	return "(" + strings.Join(l, ", ") + ")"
}

func (g *qt) tupleTy(env *qtEnv, names []string) string {
	if len(names) == 0 {
		return "unit"
	}
	var l []string
	for _, n := range names {
		l = append(l, qtCoq[env.vars[n]])
	}
	if len(l) == 1 {
		return l[0]
	}
	return "(" + strings.Join(l, " * ") + ")%type"
}

func (g *qt) assignTo(env *qtEnv, name string, define bool, v qtVal) (string, error) {
	if define {
		if _, exists := env.vars[name]; !exists || !env.block[name] {
			if err := env.declare(name, v.ty); err != nil {
				return "", err
			}
			return fmt.Sprintf("let v_%s := %s in", name, v.code), nil
		}
	}
	t, ok := env.vars[name]
	if !ok {
		return "", fmt.Errorf("assignment to the unknown variable %s", name)
	}
	if _, isEntry := env.entryOf[name]; isEntry {
		return "", fmt.Errorf("assignment to the range variable %s", name)
	}
	if t != v.ty {
		return "", fmt.Errorf("assignment of %s to %s (%s)", v.ty, name, t)
	}
	return fmt.Sprintf("let v_%s := %s in", name, v.code), nil
}

func (g *qt) block(env *qtEnv, list []ast.Stmt, ctx qtCtx) (string, error) {
	if len(list) == 0 {
		return ctx.tail(env)
	}
	st, rest := list[0], list[1:]
	next := func() (string, error) { return g.block(env, rest, ctx) }
	switch s := st.(type) {
	case *ast.DeclStmt:
		gd, ok := s.Decl.(*ast.GenDecl)
		if !ok || gd.Tok != token.VAR {
			return "", fmt.Errorf("unsupported declaration %s", g.src(s))
		}
		var lines []string
		for _, sp := range gd.Specs {
			vs := sp.(*ast.ValueSpec)
			if vs.Type == nil || len(vs.Values) != 0 {
				return "", fmt.Errorf("only `var x T` is supported: %s", g.src(s))
			}
			ty, err := g.goType(vs.Type)
			if err != nil {
				return "", err
			}
			z, err := qtZero(ty)
			if err != nil {
				return "", err
			}
			for _, n := range vs.Names {
				if err := env.declare(n.Name, ty); err != nil {
					return "", err
				}
				lines = append(lines, fmt.Sprintf("let v_%s := %s in", n.Name, z))
			}
		}
		r, err := next()
		if err != nil {
			return "", err
		}
		return qtJoin(lines, r), nil
	case *ast.ExprStmt:
		// slices.Sort(ks)
		c, ok := s.X.(*ast.CallExpr)
		if ok {
			if sel, ok := c.Fun.(*ast.SelectorExpr); ok && g.pkgIs(env, sel.X, "slices", "slices") && sel.Sel.Name == "Sort" && len(c.Args) == 1 {
				if k, ok := c.Args[0].(*ast.Ident); ok && env.vars[k.Name] == qtKeys {
					env.keysSorted[k.Name] = true
					r, err := next()
					if err != nil {
						return "", err
					}
					return fmt.Sprintf("(* %s: from here on %s stands for the keys of %s.TileMatrices in increasing order *)\n%s", g.src(s), k.Name, env.keysOf[k.Name], r), nil
				}
			}
		}
		return "", fmt.Errorf("unsupported statement %s", g.src(s))
	case *ast.AssignStmt:
		define := s.Tok == token.DEFINE
		if s.Tok != token.DEFINE && s.Tok != token.ASSIGN {
			return "", fmt.Errorf("unsupported assignment %s", g.src(s))
		}
		var ids []string
		for _, l := range s.Lhs {
			id, ok := l.(*ast.Ident)
			if !ok {
				return "", fmt.Errorf("unsupported assignment target in %s", g.src(s))
			}
			ids = append(ids, id.Name)
		}
		if len(s.Rhs) != 1 {
			return "", fmt.Errorf("unsupported assignment %s", g.src(s))
		}
		if c, ok := s.Rhs[0].(*ast.CallExpr); ok {
			if sel, ok := c.Fun.(*ast.SelectorExpr); ok {
				switch {
				case g.pkgIs(env, sel.X, "maps", "golang.org/x/exp/maps") && sel.Sel.Name == "Keys":
					// ks := maps.Keys(t.TileMatrices)
					if !define || len(ids) != 1 || len(c.Args) != 1 {
						return "", fmt.Errorf("unsupported use of maps.Keys: %s", g.src(s))
					}
					t, isMap := g.isMapOf(env, c.Args[0])
					if !isMap {
						return "", fmt.Errorf("maps.Keys of something else than t.TileMatrices: %s", g.src(s))
					}
					if err := env.declare(ids[0], qtKeys); err != nil {
						return "", err
					}
					env.keysOf[ids[0]] = t
					delete(env.keysSorted, ids[0])
					r, err := next()
					if err != nil {
						return "", err
					}
					return fmt.Sprintf("(* %s: the keys of the map, in no particular order *)\n%s", g.src(s), r), nil
				case g.pkgIs(env, sel.X, "strconv", "strconv") && sel.Sel.Name == "Atoi":
					// n, err := strconv.Atoi(s), and then at once: if err != nil { return err }
					if len(ids) != 2 || len(c.Args) != 1 || ids[0] == "_" || ids[1] == "_" || ids[0] == ids[1] {
						return "", fmt.Errorf("unsupported use of strconv.Atoi: %s", g.src(s))
					}
					want := fmt.Sprintf("if %s != nil { return %s }", ids[1], ids[1])
					if len(rest) == 0 || g.src(rest[0]) != want {
						return "", fmt.Errorf("strconv.Atoi must be followed at once by `%s` (the number beside an error is not modelled)", want)
					}
					var binds []string
					a, err := g.value(env, c.Args[0], &binds, qtString)
					if err != nil {
						return "", err
					}
					l1, err := g.assignTo(env, ids[0], define, qtVal{code: "n", ty: qtInt})
					if err != nil {
						return "", err
					}
					l2, err := g.assignTo(env, ids[1], define, qtVal{code: "e", ty: qtErr})
					if err != nil {
						return "", err
					}
					_, _ = l1, l2
					r, err := next()
					if err != nil {
						return "", err
					}
					return qtJoin(binds, fmt.Sprintf("let '(v_%s, v_%s) := go_atoi %s in\n%s", ids[0], ids[1], a.code, r)), nil
				}
			}
		}
		if len(ids) != 1 {
			return "", fmt.Errorf("unsupported assignment %s", g.src(s))
		}
		var binds []string
		want := qtTy("")
		if t, ok := env.vars[ids[0]]; ok && (!define || env.block[ids[0]]) {
			want = t
		}
		v, err := g.value(env, s.Rhs[0], &binds, want)
		if err != nil {
			return "", err
		}
		line, err := g.assignTo(env, ids[0], define, v)
		if err != nil {
			return "", err
		}
		r, err := next()
		if err != nil {
			return "", err
		}
		return qtJoin(binds, line+"\n"+r), nil
	case *ast.ReturnStmt:
		if len(rest) != 0 {
			return "", fmt.Errorf("statements after a return")
		}
		if len(s.Results) != 1 {
			return "", fmt.Errorf("unsupported return %s", g.src(s))
		}
		var binds []string
		v, err := g.value(env, s.Results[0], &binds, g.resultTy)
		if err != nil {
			return "", err
		}
		return qtJoin(binds, ctx.ret(v.code)), nil
	case *ast.IfStmt:
		if s.Init != nil {
			return "", fmt.Errorf("if with an init statement is not supported: %s", g.src(s.Init))
		}
		var binds []string
		c, err := g.expr(env, s.Cond, &binds)
		if err != nil {
			return "", err
		}
		if c.ty != qtBool {
			return "", fmt.Errorf("condition of type %s", c.ty)
		}
		thenL := s.Body.List
		var elseL []ast.Stmt
		switch e := s.Else.(type) {
		case nil:
		case *ast.BlockStmt:
			elseL = e.List
		default:
			elseL = []ast.Stmt{e}
		}
		thenT, elseT := qtTerminates(thenL), s.Else != nil && qtTerminates(elseL)
		noTail := func(*qtEnv) (string, error) { return "", fmt.Errorf("internal: fell off a terminating block") }
		switch {
		case thenT && elseT:
			if len(rest) != 0 {
				return "", fmt.Errorf("statements after an if whose branches all return")
			}
			a, err := g.block(env.clone(true), thenL, qtCtx{ctx.ret, noTail})
			if err != nil {
				return "", err
			}
			b, err := g.block(env.clone(true), elseL, qtCtx{ctx.ret, noTail})
			if err != nil {
				return "", err
			}
			return qtJoin(binds, fmt.Sprintf("if %s then (%s)\nelse (%s)", c.code, a, b)), nil
		case thenT || elseT:
			// only one branch goes on with the statements that follow: they are placed in that branch
			goOn := func(*qtEnv) (string, error) { return g.block(env.clone(false), rest, ctx) }
			tc, ec := qtCtx{ctx.ret, noTail}, qtCtx{ctx.ret, goOn}
			if elseT {
				tc, ec = ec, tc
			}
			a, err := g.block(env.clone(true), thenL, tc)
			if err != nil {
				return "", err
			}
			b, err := g.block(env.clone(true), elseL, ec)
			if err != nil {
				return "", err
			}
			return qtJoin(binds, fmt.Sprintf("if %s then (%s)\nelse (%s)", c.code, a, b)), nil
		default:
			// both branches go on: the statements that follow become a local function of the variables the branches assign
			as := qtAssigned(env, append(append([]ast.Stmt{}, thenL...), elseL...))
			k := g.fresh("k")
			r, err := g.block(env.clone(false), rest, ctx)
			if err != nil {
				return "", err
			}
			callK := func(*qtEnv) (string, error) { return "(" + k + " " + g.tuple(as, "v_") + ")", nil }
			a, err := g.block(env.clone(true), thenL, qtCtx{ctx.ret, callK})
			if err != nil {
				return "", err
			}
			b, err := g.block(env.clone(true), elseL, qtCtx{ctx.ret, callK})
			if err != nil {
				return "", err
			}
			pat := "'" + g.tuple(as, "v_")
			if len(as) == 0 {
				pat = "_"
			} else if len(as) == 1 {
				pat = "v_" + as[0]
			}
			return fmt.Sprintf("let %s := fun (%s : %s) =>\n(%s) in\n%s", k, pat, g.tupleTy(env, as), r,
				qtJoin(binds, fmt.Sprintf("if %s then (%s)\nelse (%s)", c.code, a, b))), nil
		}
	case *ast.RangeStmt:
		// for _, k := range ks, ks the sorted keys of t.TileMatrices
		ks, ok := s.X.(*ast.Ident)
		if !ok || env.vars[ks.Name] != qtKeys {
			return "", fmt.Errorf("range over %s: only the sorted keys of t.TileMatrices are supported", g.src(s.X))
		}
		if !env.keysSorted[ks.Name] {
			return "", fmt.Errorf("range over %s = maps.Keys(..) without slices.Sort(%s): the order of the keys of a Go map is random", ks.Name, ks.Name)
		}
		if kid, ok := s.Key.(*ast.Ident); s.Key != nil && (!ok || kid.Name != "_") {
			return "", fmt.Errorf("the index variable of the range loop is not supported")
		}
		vid, ok := s.Value.(*ast.Ident)
		if !ok || s.Tok != token.DEFINE || vid.Name == "_" {
			return "", fmt.Errorf("unsupported range clause %s", g.src(s))
		}
		if g.assigns[vid.Name] != 1 {
			return "", fmt.Errorf("the range variable %s is assigned in the loop", vid.Name)
		}
		t := env.keysOf[ks.Name]
		g.loopN++
		name := fmt.Sprintf("gen_isQuadTree_loop%d", g.loopN)
		state := qtAssigned(env, s.Body.List)
		var params []string
		for _, n := range env.order {
			if _, isVal := qtCoq[env.vars[n]]; !isVal {
				continue
			}
			isState := false
			for _, m := range state {
				isState = isState || m == n
			}
			if !isState {
				params = append(params, n)
			}
		}
		benv := env.clone(true)
		if err := benv.declare(vid.Name, qtInt); err != nil {
			return "", err
		}
		benv.entryOf[vid.Name] = t
		bctx := qtCtx{
			ret:  func(v string) string { return "QOk (QRet " + v + ")" },
			tail: func(*qtEnv) (string, error) { return "QOk (QCont " + g.tuple(state, "v_") + ")", nil },
		}
		body, err := g.block(benv, s.Body.List, bctx)
		if err != nil {
			return "", err
		}
		var d strings.Builder
		fmt.Fprintf(&d, "(* one run of the body of: for _, %s := range %s { .. }; state = %s *)\n", vid.Name, ks.Name, g.tuple(state, "v_"))
		fmt.Fprintf(&d, "Definition %s", name)
		var args []string
		for _, p := range params {
			fmt.Fprintf(&d, " (v_%s : %s)", p, qtCoq[env.vars[p]])
			args = append(args, "v_"+p)
		}
		fmt.Fprintf(&d, " (e_%s : (Z * tileMatrix)%%type) (st : %s) : qres (qbody %s %s) :=\n", vid.Name, g.tupleTy(env, state), g.tupleTy(env, state), qtCoq[g.resultTy])
		switch len(state) {
		case 0:
		case 1:
			fmt.Fprintf(&d, "  let v_%s := st in\n", state[0])
		default:
			fmt.Fprintf(&d, "  let '%s := st in\n", g.tuple(state, "v_"))
		}
		fmt.Fprintf(&d, "  let v_%s := fst e_%s in\n%s.\n", vid.Name, vid.Name, body)
		g.defs = append(g.defs, d.String())
		r, err := next()
		if err != nil {
			return "", err
		}
		out := g.fresh("out")
		rv := g.fresh("r")
		pat := g.tuple(state, "v_")
		if len(state) == 0 {
			pat = "_"
		}
		return fmt.Sprintf("qdo %s <- qrange (%s) (sorted_matrices v_%s) %s;\nmatch %s with\n| QReturn %s => %s\n| QNext %s =>\n%s\nend",
			out, strings.TrimSpace(name+" "+strings.Join(args, " ")), t, g.tuple(state, "v_"), out, rv, ctx.ret(rv), pat, r), nil
	}
	return "", fmt.Errorf("unsupported statement %s", g.src(st))
}

// qtCheckTms20: the declarations of tms20 that the translation relies on are what the table says
func qtCheckTms20(repo string) error {
	fset := token.NewFileSet()
	pkgs, err := parser.ParseDir(fset, filepath.Join(repo, "tms20"), func(fi os.FileInfo) bool { return !strings.HasSuffix(fi.Name(), "_test.go") }, 0)
	if err != nil {
		return err
	}
	seenTypes := map[string]string{}
	fields := map[string]map[string]string{}
	for _, p := range pkgs {
		for _, f := range p.Files {
			for _, d := range f.Decls {
				gd, ok := d.(*ast.GenDecl)
				if !ok || gd.Tok != token.TYPE {
					continue
				}
				for _, sp := range gd.Specs {
					ts := sp.(*ast.TypeSpec)
					if ts.TypeParams != nil {
						continue
					}
					if stT, ok := ts.Type.(*ast.StructType); ok {
						m := map[string]string{}
						for _, fl := range stT.Fields.List {
							for _, n := range fl.Names {
								m[n.Name] = types.ExprString(fl.Type)
							}
						}
						fields[ts.Name.Name] = m
						continue
					}
					s := types.ExprString(ts.Type)
					if ts.Assign != token.NoPos {
						s = "= " + s
					}
					seenTypes[ts.Name.Name] = s
				}
			}
		}
	}
	for n, want := range qtTypeDecls {
		if seenTypes[n] != want {
			return fmt.Errorf("tms20: type %s is declared as %q, the translation assumes %q", n, seenTypes[n], want)
		}
	}
	if got := fields["TileMatrixSet"]["TileMatrices"]; got != "map[TMID]TileMatrix" {
		return fmt.Errorf("tms20.TileMatrixSet.TileMatrices has type %q, the translation assumes map[TMID]TileMatrix", got)
	}
	var names []string
	for n := range qtTMFields {
		names = append(names, n)
	}
	sort.Strings(names)
	for _, n := range names {
		if got := fields["TileMatrix"][n]; got != qtTMFields[n].goType {
			return fmt.Errorf("tms20.TileMatrix.%s has type %q, the translation assumes %q", n, got, qtTMFields[n].goType)
		}
	}
	if len(fields["TileMatrix"]) != len(qtTMFields) {
		return fmt.Errorf("tms20.TileMatrix has %d fields, the record tileMatrix of the model has %d", len(fields["TileMatrix"]), len(qtTMFields))
	}
	return nil
}

func qtCheckFBetweenInc(repo string) error {
	fset := token.NewFileSet()
	pkgs, err := parser.ParseDir(fset, filepath.Join(repo, "mathhelp"), func(fi os.FileInfo) bool { return !strings.HasSuffix(fi.Name(), "_test.go") }, 0)
	if err != nil {
		return err
	}
	for _, p := range pkgs {
		for _, f := range p.Files {
			for _, d := range f.Decls {
				if fd, ok := d.(*ast.FuncDecl); ok && fd.Name.Name == "FBetweenInc" && fd.Recv == nil {
					var b bytes.Buffer
					_ = printer.Fprint(&b, fset, &ast.FuncDecl{Name: fd.Name, Type: fd.Type, Body: fd.Body})
					if got := strings.Join(strings.Fields(b.String()), " "); got != qtFBetweenInc {
						return fmt.Errorf("mathhelp.FBetweenInc is %q; fbetween_quo of Tms/GoTms.v transcribes %q", got, qtFBetweenInc)
					}
					return nil
				}
			}
		}
	}
	return fmt.Errorf("mathhelp.FBetweenInc not found")
}

func genQuadTree(repo string) (string, error) {
	fset := token.NewFileSet()
	path := filepath.Join(repo, "pointindex", "pointindex.go")
	f, err := parser.ParseFile(fset, path, nil, 0)
	if err != nil {
		return "", err
	}
	g := &qt{fset: fset, pkgs: map[string]string{}, errIdx: map[*ast.CallExpr]int{}, assigns: map[string]int{}}
	for _, im := range f.Imports {
		p, err := strconv.Unquote(im.Path.Value)
		if err != nil {
			return "", err
		}
		name := p[strings.LastIndex(p, "/")+1:]
		if im.Name != nil {
			name = im.Name.Name
		}
		g.pkgs[name] = p
	}
	if g.pkgs["tms20"] != "github.com/pdok/texel/tms20" {
		return "", fmt.Errorf("pointindex.go does not import github.com/pdok/texel/tms20 as tms20")
	}
	for _, d := range f.Decls {
		if fd, ok := d.(*ast.FuncDecl); ok && fd.Name.Name == "IsQuadTree" && fd.Recv == nil && fd.Body != nil {
			g.fd = fd
		}
	}
	if g.fd == nil {
		return "", fmt.Errorf("func IsQuadTree not found in %s", path)
	}
	if got := types.ExprString(g.fd.Type); got != "func(tms tms20.TileMatrixSet) error" || g.fd.Type.TypeParams != nil {
		return "", fmt.Errorf("IsQuadTree has the signature %s", got)
	}
	if err := qtCheckTms20(repo); err != nil {
		return "", err
	}
	if err := qtCheckFBetweenInc(repo); err != nil {
		return "", err
	}
	// the distinct messages of the errors.New calls in source order = the numbering of the model's verdict (Reject n)
	var ierr error
	ast.Inspect(g.fd.Body, func(n ast.Node) bool {
		switch x := n.(type) {
		case *ast.CallExpr:
			if types.ExprString(x.Fun) == "errors.New" {
				msg := ""
				if len(x.Args) == 1 {
					switch a := x.Args[0].(type) {
					case *ast.BasicLit:
						msg = a.Value
					case *ast.BinaryExpr:
						if l, ok := a.X.(*ast.BasicLit); ok {
							msg = l.Value
						}
					}
				}
				if msg == "" {
					ierr = fmt.Errorf("errors.New without a message literal: %s", g.src(x))
					return false
				}
				msg = strings.Trim(msg, "\"`")
				// the number of an error = the index of its message among the distinct messages, in source order: two
				// errors.New calls with the same message literal are the same error to the caller (since the repair of
				// F22 the "range with step 1 starting with 0" message is returned from two places)
				idx := -1
				for i, m := range g.errMsgs {
					if m == msg {
						idx = i
					}
				}
				if idx < 0 {
					idx = len(g.errMsgs)
					g.errMsgs = append(g.errMsgs, msg)
				}
				g.errIdx[x] = idx
			}
		case *ast.AssignStmt:
			for _, l := range x.Lhs {
				if id, ok := l.(*ast.Ident); ok {
					g.assigns[id.Name]++
				}
			}
		case *ast.IncDecStmt:
			if id, ok := x.X.(*ast.Ident); ok {
				g.assigns[id.Name]++
			}
		case *ast.ValueSpec:
			for _, id := range x.Names {
				g.assigns[id.Name]++
			}
		case *ast.RangeStmt:
			for _, e := range []ast.Expr{x.Key, x.Value} {
				if id, ok := e.(*ast.Ident); ok {
					g.assigns[id.Name]++
				}
			}
		case *ast.FuncLit, *ast.GoStmt, *ast.DeferStmt, *ast.LabeledStmt, *ast.BranchStmt, *ast.SwitchStmt, *ast.TypeSwitchStmt, *ast.SelectStmt, *ast.ForStmt:
			ierr = fmt.Errorf("unsupported construct %s", g.src(n))
		}
		return true
	})
	if ierr != nil {
		return "", ierr
	}
	g.resultTy = qtErr
	env := &qtEnv{vars: map[string]qtTy{}, block: map[string]bool{}, keysOf: map[string]string{}, keysSorted: map[string]bool{}, entryOf: map[string]string{}}
	pname := g.fd.Type.Params.List[0].Names[0].Name
	if err := env.declare(pname, qtTMS); err != nil {
		return "", err
	}
	body, err := g.block(env, g.fd.Body.List, qtCtx{
		ret:  func(v string) string { return "QOk " + v },
		tail: func(*qtEnv) (string, error) { return "", fmt.Errorf("missing return at the end of IsQuadTree") },
	})
	if err != nil {
		return "", fmt.Errorf("IsQuadTree: %v", err)
	}
	var b strings.Builder
	b.WriteString("(* GENERATED by /verif/translator (quadtree.go) from pointindex/pointindex.go (func IsQuadTree) on every run -- do not edit.\n")
	b.WriteString("   Statement by statement translation into the monad qres of Tms/GoTms.v.  Kept as functions of the model after checking\n")
	b.WriteString("   the shape of the call in the AST (trusted):\n")
	b.WriteString("   - ks := maps.Keys(t.TileMatrices); slices.Sort(ks); for _, k := range ks { .. t.TileMatrices[k] .. }  =  the entries of\n")
	b.WriteString("     sorted_matrices t (Tms/Model.v) in order, k = fst, t.TileMatrices[k] = snd;\n")
	b.WriteString("   - n, err := strconv.Atoi(s); if err != nil { return err }  =  go_atoi s (parse_int of Tms/Json.v; its error is number 10);\n")
	b.WriteString("   - mathhelp.FBetweenInc(a / b, lo, hi) on float64 (FBetweenInc having the expected body)  =  fbetween_quo a b lo hi (binary64, Tms/Json.v f64);\n")
	b.WriteString("   - != on *TwoDPoint values ([2]float64)  =  negb point_feqb;  != on CornerOfOrigin  =  negb corner_eqb;  len of a slice field = go_len;\n")
	b.WriteString("   - tm.F  =  the projection of the record tileMatrix (field types checked against tms20/tms20.go); int / uint arithmetic wraps at 64 bits;\n")
	b.WriteString("   - errors.New(msg ..), msg the n-th distinct message literal in source order  =  Some n (the model's Reject n); nil = None;\n     a nil dereference = QNilDeref. *)\n")
	b.WriteString("From Coq Require Import ZArith String List Bool.\nFrom Texel Require Import Tms.Json Tms.Model Tms.GoTms.\nImport ListNotations.\nOpen Scope Z_scope.\n\n")
	var msgs []string
	for _, m := range g.errMsgs {
		msgs = append(msgs, coqString(m)+"%string")
	}
	fmt.Fprintf(&b, "(* the distinct messages of the errors.New calls of IsQuadTree, in source order: Some n / Reject n is the n-th *)\nDefinition gen_isQuadTree_errors : list string :=\n [%s].\n\n", strings.Join(msgs, ";\n  "))
	for _, d := range g.defs {
		b.WriteString(d)
		b.WriteString("\n")
	}
	fmt.Fprintf(&b, "(* func IsQuadTree(%s tms20.TileMatrixSet) error *)\nDefinition gen_isQuadTree_go (v_%s : tms) : qres goerr :=\n%s.\n\n", pname, pname, body)
	b.WriteString("(* what the caller observes: nil = Accept, the n-th error = Reject n, a panic = VPanic *)\nDefinition gen_isQuadTree (t : tms) : verdict := verdict_of (gen_isQuadTree_go t).\n")
	return b.String(), nil
}
