package main

import (
	"bytes"
	"fmt"
	"go/ast"
	"go/parser"
	"go/printer"
	"go/token"
	"math/big"
	"path/filepath"
	"reflect"
	"strconv"
	"strings"
)

// ---------------------------------------------------------------------------
// G2 (tile matrix set documents): the project's OWN code around the JSON libraries in tms20/tms20.go
// -> gen/TmsJsonGen.v, statement by statement, in the monad `outcome` of Tms/Model.v (Ok / Error / Panic) with the
// vocabulary of Tms/GoJson.v.
//
//   interface{}                 json (nil = JNull);  map[string]interface{} = obj;  []interface{} = list json
//   v, ok := x.(T)              let '(v, ok) := as_float64 / as_string / as_object / as_array x in
//   v, ok := m[k]  /  m[k]      let '(v, ok) := obj_get m k in  /  fst (obj_get m k)
//   float64                     fl: < >= != = fl_ltb fl_geb fl_neqb, math.Trunc = fl_trunc, an integer constant = fl_of_Z
//   int, int64, TMID            exact Z
//   error                       the boolean err != nil;  a function with an error result returns `outcome T`
//   err = f(..)                 do err <- err_of (gen_f ..);           v, err := f(..)   do (v, err) <- split_err zero (gen_f ..);
//   x.M(..), M with a pointer receiver that it assigns through: the new value of x is a result of gen_T_M
//   return .., nil              Ok ..;   return .., fmt.Errorf(..) / errors.New(..)   Error;   return .., err   ret_err .. err
//   if c { ..return }; rest     if c then .. else rest
//   if c { .. } [else { .. }]; rest
//                               let k_n := fun <variables assigned in the branches> => rest in if c then (.. k_n ..) else (.. k_n ..)
//   for _, x := range l { .. }  a Definition gen_f_loopN (one run of the body) and `orange` over the list; the state = the
//   for i := range l { .. }     variables declared before the loop that the body assigns; `return` in the body = LRet
//   l[i]                        do t <- idx l i;   (Panic when out of range)
//   p[i] = v (p *[2]float64)    do p <- arr2_set p i v;
//   m[k] = v (map[TMID]TileMatrix)   let m := insert_tm k v m in     make(map[TMID]TileMatrix, n) = []
//   var x T                     let x := <the zero value of T> in
//   struct types whose values the translated code builds (URICRS, WKTCRS, ReferenceSystemCRS, TwoDBoundingBox, TileMatrixSet)
//                               are regenerated as Records gen_T with gen_T_zero and setters gen_T_set_F; x.f = v rebuilds the record;
//                               the interface CRS is the inductive gen_CRS (nil | one constructor per implementing struct type),
//                               &x returned as a CRS = its constructor, MarshalJSON through the interface = gen_CRS_MarshalJSON
//   after `v.., err := f(..)` the variables v.. are not modelled where err != nil: the next statement must test err and leave
//
// Calls that are MAPPED to the model instead of translated (each after checking the exact shape of the call, and the
// declarations it relies on, in the AST); they are listed again at the top of the generated file:
//   defaults.Set(x)                                  defaults_set_noop (no struct tag of tms20.go contains `default:`)
//   strconv.ParseInt(s, 10, 64)                      parse_int_res s (parse_int of Tms/Json.v);  v, _ := ..  parse_int_or0
//   the tail of TileMatrix.UnmarshalJSONFromMap: _, err = marshmallow.UnmarshalFromJSONMap(dataMap, tm, ..); if err != nil
//   { return err }; validate := validator.New(..); return validate.Struct(tm)       marshmallow_then_validate_tm tm dataMap
//                                                    (TileMatrix / VariableMatrixWidth declarations compared with the transcribed ones)
//   math.Trunc                                       fl_trunc
//   R.FindStringSubmatch(s), R one of the two package-level CRS URI expressions (text compared)   submatch_url / submatch_urn
//   var w ProjJSON; _, err := marshmallow.UnmarshalFromJSONMap(m, &w)                marshmallow_projjson m
//   specials, err := marshmallow.Unmarshal(data, x, marshmallow.WithExcludeKnownFieldsFromMap(true))
//                                                    marshmallow_unmarshal_top / _bbox, then gen_T_populated (fields by json tags)
//   validate.Struct(x)                               validate_unexported_noop (no exported field) / gen_T_validate (one vtag_* per tag)
//   json.Marshal(string / struct literal)            json_marshal_string / json_marshal_struct [(key, enc_* value); ..]
//   var l []*TileMatrix; for k := range m { v := m[k]; l = append(l, &v) }; sort.Slice(l, func(i, j int) bool {..})
//                                                    sort_slice gen_f_lessN (tmmap_values m), the closure as a comparison of elements
// Anything else is a translation failure.
// ---------------------------------------------------------------------------

const (
	tjJSON   = "json"
	tjObj    = "obj"
	tjArr    = "arr"
	tjF64    = "f64"
	tjStr    = "string"
	tjBool   = "bool"
	tjInt    = "int"
	tjErr    = "err"
	tjStrs   = "strs"
	tjPoint  = "point"
	tjTM     = "tm"
	tjTMMap  = "tmmap"
	tjLit    = "intlit"
	tjNil    = "nil"
	tjErrs   = "errs"      // []error
	tjBytes  = "bytes"     // []byte holding a JSON text: the tree it denotes
	tjProj   = "projjson"  // ProjJSON
	tjSub    = "submatch"  // the result of FindStringSubmatch
	tjOStrs  = "ostrs"     // a []string struct field
	tjOBBox  = "obbox"     // *TwoDBoundingBox
	tjCRS    = "iface:CRS" // the interface CRS
	tjValid  = "validator" // validator.New(..)
	tjSpec   = "specials"  // the leftover members returned by marshmallow.Unmarshal
	tjOPoint = "opoint"    // *TwoDPoint as a struct field: the decimals of the document
	tjTMPtrs = "tmptrs"    // []*TileMatrix: pointers to distinct copies, none nil
)

type tjTyInfo struct{ coq, zero string }

// Go type (as printed) -> translated type
var tjGoTy = map[string]string{
	"interface{}": tjJSON, "map[string]interface{}": tjObj, "[]interface{}": tjArr, "float64": tjF64, "string": tjStr,
	"bool": tjBool, "int": tjInt, "int64": tjInt, "TMID": tjInt, "error": tjErr, "[]string": tjStrs,
	"*TwoDPoint": tjPoint, "TileMatrix": tjTM, "*TileMatrix": tjTM, "map[TMID]TileMatrix": tjTMMap,
	"[]error": tjErrs, "[]byte": tjBytes, "ProjJSON": tjProj, "CRS": tjCRS,
}

// the Go type of a struct field -> translated type (a []string field keeps nil apart from empty, as the model does)
var tjFieldTy = map[string]string{
	"string": tjStr, "bool": tjBool, "map[string]interface{}": tjObj, "ProjJSON": tjProj, "[]string": tjOStrs,
	"CRS": tjCRS, "*TwoDBoundingBox": tjOBBox, "map[TMID]TileMatrix": tjTMMap, "*TwoDPoint": tjOPoint,
}

// package-level declarations the translation relies on: printed form that must be found in tms20.go
var tjDecls = []string{
	"type TMID = int",
	"type TwoDPoint [2]float64",
}

// tms20.TileMatrix -> the record tileMatrix of Tms/Model.v (only the fields the translated code reads)
var tjTMFields = map[string]struct{ goTy, proj, ty string }{
	"ID": {"string", "tm_id", tjStr},
}

var tjImports = map[string]string{"fmt": "fmt", "errors": "errors", "math": "math", "strconv": "strconv",
	"defaults": "github.com/creasty/defaults", "validator": "github.com/go-playground/validator/v10",
	"marshmallow": "github.com/perimeterx/marshmallow", "json": "encoding/json", "sort": "sort", "regexp": "regexp"}

type tjParam struct{ name, ty string }

type tjSig struct {
	key      string // "T.M" or "f"
	coqName  string
	recv     *tjParam // pointer receiver, nil for a plain function
	mutRecv  bool     // the receiver's new value is a result
	params   []tjParam
	variadic bool     // the last parameter is ...T
	results  []string // translated types of the results, without the trailing error
	hasErr   bool
	decl     *ast.FuncDecl
}

// the Coq type of the value a translated function returns inside `outcome`
func (g *tj) retCoq(s *tjSig) string {
	var parts []string
	if s.mutRecv {
		parts = append(parts, g.coqTy(s.recv.ty))
	}
	for _, r := range s.results {
		parts = append(parts, g.coqTy(r))
	}
	switch len(parts) {
	case 0:
		return "unit"
	case 1:
		return parts[0]
	}
	return "(" + strings.Join(parts, " * ") + ")%type"
}

type tjEnv struct {
	scopes []map[string]string
	order  []string        // every name ever declared, in order (for parameter lists of loop bodies)
	gone   map[string]bool // variables whose value is not modelled on this path (after a failed call)
}

func newTjEnv() *tjEnv {
	return &tjEnv{scopes: []map[string]string{{}}, gone: map[string]bool{}}
}

func (e *tjEnv) clone() *tjEnv {
	c := &tjEnv{order: append([]string{}, e.order...), gone: map[string]bool{}}
	for _, s := range e.scopes {
		m := map[string]string{}
		for k, v := range s {
			m[k] = v
		}
		c.scopes = append(c.scopes, m)
	}
	for k := range e.gone {
		c.gone[k] = true
	}
	return c
}

func (e *tjEnv) push() { e.scopes = append(e.scopes, map[string]string{}) }

func (e *tjEnv) lookup(n string) (string, int, bool) {
	for i := len(e.scopes) - 1; i >= 0; i-- {
		if t, ok := e.scopes[i][n]; ok {
			return t, i, true
		}
	}
	return "", 0, false
}

func (e *tjEnv) inCurrent(n string) bool {
	_, ok := e.scopes[len(e.scopes)-1][n]
	return ok
}

func (e *tjEnv) declare(n, ty string) {
	e.scopes[len(e.scopes)-1][n] = ty
	delete(e.gone, n)
	for _, o := range e.order {
		if o == n {
			return
		}
	}
	e.order = append(e.order, n)
}

// the variables visible now, in order of first declaration
func (e *tjEnv) visible() []tjParam {
	var out []tjParam
	for _, n := range e.order {
		if t, _, ok := e.lookup(n); ok {
			out = append(out, tjParam{n, t})
		}
	}
	return out
}

type tj struct {
	fset        *token.FileSet
	file        *ast.File
	sigs        map[string]*tjSig
	order       []string
	cur         *tjSig
	n           int
	loopN       int
	pre         []string // monadic bindings to be emitted before the statement being translated
	defs        []string // Definitions of loop bodies of the function being translated
	types       map[string]tjTyInfo
	structs     map[string]*tjStruct // struct types regenerated as Records
	structOrder []string
	impls       []string              // the struct types implementing CRS
	pendingGone map[ast.Stmt][]string // variables that stop being modelled after this statement
	mapped      map[string]bool       // which mapped calls were used (listed in the header)
	validators  map[string]bool       // struct types for which gen_T_validate was generated from the tags
	populators  map[string]bool       // struct types for which gen_T_populated was generated from the tags
	crsDispatch bool                  // gen_CRS_MarshalJSON was emitted
	specialKeys []string              // the leftover members that may be read in the current function
}

type tjStructField struct{ name, goTy, ty, tag string }

type tjStruct struct {
	name   string
	fields []tjStructField
}

func (g *tj) coqTy(t string) string {
	if i, ok := g.types[t]; ok {
		return i.coq
	}
	return "UNKNOWN_TYPE_" + t
}

func (g *tj) zero(n ast.Node, t string) (string, error) {
	if i, ok := g.types[t]; ok && i.zero != "" {
		return i.zero, nil
	}
	return "", g.errf(n, "no zero value for type %s", t)
}

func (g *tj) errf(n ast.Node, format string, a ...interface{}) error {
	return fmt.Errorf("%s: %s", g.fset.Position(n.Pos()), fmt.Sprintf(format, a...))
}

func (g *tj) fresh(prefix string) string {
	g.n++
	return fmt.Sprintf("%s_%d", prefix, g.n)
}

func (g *tj) print(n interface{}) string {
	var b bytes.Buffer
	_ = printer.Fprint(&b, g.fset, n)
	return b.String()
}

func (g *tj) goTy(x ast.Expr) (string, error) {
	s := g.print(x)
	if t, ok := tjGoTy[s]; ok {
		return t, nil
	}
	if _, ok := g.structs[s]; ok {
		return "struct:" + s, nil
	}
	if strings.HasPrefix(s, "*") {
		if _, ok := g.structs[s[1:]]; ok {
			return "struct:" + s[1:], nil
		}
	}
	return "", g.errf(x, "unsupported type %s", s)
}

// ---- expressions -----------------------------------------------------------

type tjVal struct {
	code string
	ty   string
	c    *big.Int // tjLit
}

// an untyped integer constant as a float64: it must be exactly representable
func (g *tj) litToF64(n ast.Node, c *big.Int) (string, error) {
	a := new(big.Int).Abs(c)
	if a.Sign() != 0 {
		tz := a.TrailingZeroBits()
		odd := new(big.Int).Rsh(a, tz)
		if odd.BitLen() > 53 || a.BitLen() > 1024 {
			return "", g.errf(n, "constant %s is not exactly representable as a float64", c)
		}
	}
	return fmt.Sprintf("(fl_of_Z %s)", coqZ(c)), nil
}

func (g *tj) coerce(n ast.Node, v tjVal, want string) (tjVal, error) {
	if v.ty == want {
		return v, nil
	}
	switch {
	case v.ty == tjLit && want == tjF64:
		s, err := g.litToF64(n, v.c)
		return tjVal{code: s, ty: tjF64}, err
	case v.ty == tjLit && want == tjInt:
		return tjVal{code: coqZ(v.c), ty: tjInt}, nil
	case want == tjJSON:
		// the implicit conversion to interface{}
		switch v.ty {
		case tjStr:
			return tjVal{code: "(JStr " + v.code + ")", ty: tjJSON}, nil
		case tjObj:
			return tjVal{code: "(JObj " + v.code + ")", ty: tjJSON}, nil
		case tjArr:
			return tjVal{code: "(JArr " + v.code + ")", ty: tjJSON}, nil
		case tjNil:
			return tjVal{code: "JNull", ty: tjJSON}, nil
		}
	case v.ty == tjNil:
		if want == tjObj || want == tjArr || want == tjTMMap || want == tjStrs {
			return tjVal{code: "[]", ty: want}, nil
		}
	}
	return tjVal{}, g.errf(n, "cannot use a value of type %s as %s", v.ty, want)
}

func (g *tj) pkgCall(x ast.Expr, pkg, fn string) bool {
	sel, ok := x.(*ast.SelectorExpr)
	if !ok || sel.Sel.Name != fn {
		return false
	}
	id, ok := sel.X.(*ast.Ident)
	return ok && id.Name == pkg && id.Obj == nil
}

func (g *tj) expr(x ast.Expr, env *tjEnv) (tjVal, error) {
	switch x := x.(type) {
	case *ast.ParenExpr:
		return g.expr(x.X, env)
	case *ast.BasicLit:
		switch x.Kind {
		case token.STRING:
			s, err := strconv.Unquote(x.Value)
			if err != nil {
				return tjVal{}, g.errf(x, "%v", err)
			}
			return tjVal{code: coqString(s) + "%string", ty: tjStr}, nil
		case token.INT:
			z, err := parseIntLit(x.Value)
			if err != nil {
				return tjVal{}, g.errf(x, "%v", err)
			}
			return tjVal{code: coqZ(z), ty: tjLit, c: z}, nil
		}
		return tjVal{}, g.errf(x, "unsupported literal %s", x.Value)
	case *ast.Ident:
		switch x.Name {
		case "true", "false":
			if _, _, sh := env.lookup(x.Name); !sh {
				return tjVal{code: x.Name, ty: tjBool}, nil
			}
		case "nil":
			if _, _, sh := env.lookup(x.Name); !sh {
				return tjVal{code: "", ty: tjNil}, nil
			}
		}
		if ty, _, ok := env.lookup(x.Name); ok {
			if env.gone[x.Name] {
				return tjVal{}, g.errf(x, "the value of %s after a failed call is not modelled", x.Name)
			}
			return tjVal{code: "v_" + x.Name, ty: ty}, nil
		}
		return tjVal{}, g.errf(x, "unknown identifier %s", x.Name)
	case *ast.UnaryExpr:
		if x.Op == token.NOT {
			v, err := g.expr(x.X, env)
			if err != nil {
				return tjVal{}, err
			}
			if v.ty != tjBool {
				return tjVal{}, g.errf(x, "! on %s", v.ty)
			}
			return tjVal{code: "(negb " + v.code + ")", ty: tjBool}, nil
		}
		return tjVal{}, g.errf(x, "unsupported unary operator %s", x.Op)
	case *ast.BinaryExpr:
		return g.binary(x, env)
	case *ast.CallExpr:
		return g.callExpr(x, env)
	case *ast.IndexExpr:
		b, err := g.expr(x.X, env)
		if err != nil {
			return tjVal{}, err
		}
		i, err := g.expr(x.Index, env)
		if err != nil {
			return tjVal{}, err
		}
		switch b.ty {
		case tjObj:
			if i.ty != tjStr {
				return tjVal{}, g.errf(x, "map key of type %s", i.ty)
			}
			return tjVal{code: fmt.Sprintf("(fst (obj_get %s %s))", b.code, i.code), ty: tjJSON}, nil
		case tjSub:
			// uriParts[n], n = 1, 2, 3 (the whole match is not modelled)
			if i.ty != tjLit || i.c.Cmp(big.NewInt(1)) < 0 || i.c.Cmp(big.NewInt(3)) > 0 {
				return tjVal{}, g.errf(x, "only the groups 1, 2, 3 of a submatch are modelled")
			}
			t := g.fresh("t")
			g.pre = append(g.pre, fmt.Sprintf("do %s <- sub_idx %s %s;", t, b.code, i.code))
			return tjVal{code: t, ty: tjStr}, nil
		case tjArr, tjStrs:
			i, err = g.coerce(x, i, tjInt)
			if err != nil {
				return tjVal{}, err
			}
			t := g.fresh("t")
			g.pre = append(g.pre, fmt.Sprintf("do %s <- idx %s %s;", t, b.code, i.code))
			el := tjJSON
			if b.ty == tjStrs {
				el = tjStr
			}
			return tjVal{code: t, ty: el}, nil
		}
		return tjVal{}, g.errf(x, "unsupported index expression on %s", b.ty)
	case *ast.SelectorExpr:
		b, err := g.expr(x.X, env)
		if err != nil {
			return tjVal{}, err
		}
		if b.ty == tjTM {
			f, ok := tjTMFields[x.Sel.Name]
			if !ok {
				return tjVal{}, g.errf(x, "unsupported field TileMatrix.%s", x.Sel.Name)
			}
			if err := g.checkField("TileMatrix", x.Sel.Name, f.goTy); err != nil {
				return tjVal{}, err
			}
			return tjVal{code: fmt.Sprintf("(%s %s)", f.proj, b.code), ty: f.ty}, nil
		}
		if strings.HasPrefix(b.ty, "struct:") {
			st := g.structs[b.ty[7:]]
			for _, f := range st.fields {
				if f.name == x.Sel.Name {
					return tjVal{code: fmt.Sprintf("(gen_%s_%s %s)", st.name, f.name, b.code), ty: f.ty}, nil
				}
			}
		}
		return tjVal{}, g.errf(x, "unsupported selector %s", g.print(x))
	case *ast.CompositeLit:
		// map[string]interface{}{k: v}
		if g.print(x.Type) == "map[string]interface{}" && len(x.Elts) == 1 {
			if kv, ok := x.Elts[0].(*ast.KeyValueExpr); ok {
				k, err := g.expr(kv.Key, env)
				if err != nil {
					return tjVal{}, err
				}
				v, err := g.expr(kv.Value, env)
				if err != nil {
					return tjVal{}, err
				}
				v, err = g.coerce(x, v, tjJSON)
				if err != nil {
					return tjVal{}, err
				}
				if k.ty != tjStr {
					return tjVal{}, g.errf(x, "map key of type %s", k.ty)
				}
				return tjVal{code: fmt.Sprintf("(obj_single %s %s)", k.code, v.code), ty: tjObj}, nil
			}
		}
		return tjVal{}, g.errf(x, "unsupported composite literal %s", g.print(x))
	}
	return tjVal{}, g.errf(x, "unsupported expression %s (%T)", g.print(x), x)
}

func (g *tj) binary(x *ast.BinaryExpr, env *tjEnv) (tjVal, error) {
	if x.Op == token.LAND || x.Op == token.LOR {
		a, err := g.expr(x.X, env)
		if err != nil {
			return tjVal{}, err
		}
		np := len(g.pre)
		b, err := g.expr(x.Y, env)
		if err != nil {
			return tjVal{}, err
		}
		if len(g.pre) != np {
			return tjVal{}, g.errf(x, "the right operand of %s may panic: evaluation order is not preserved", x.Op)
		}
		if a.ty != tjBool || b.ty != tjBool {
			return tjVal{}, g.errf(x, "%s on %s, %s", x.Op, a.ty, b.ty)
		}
		op := "&&"
		if x.Op == token.LOR {
			op = "||"
		}
		return tjVal{code: fmt.Sprintf("(%s %s %s)", a.code, op, b.code), ty: tjBool}, nil
	}
	a, err := g.expr(x.X, env)
	if err != nil {
		return tjVal{}, err
	}
	b, err := g.expr(x.Y, env)
	if err != nil {
		return tjVal{}, err
	}
	// constant folding of untyped integer constants
	if a.ty == tjLit && b.ty == tjLit {
		z := new(big.Int)
		switch x.Op {
		case token.SHL:
			if !b.c.IsUint64() || b.c.Uint64() > 2000 {
				return tjVal{}, g.errf(x, "shift count %s", b.c)
			}
			z.Lsh(a.c, uint(b.c.Uint64()))
		case token.ADD:
			z.Add(a.c, b.c)
		case token.SUB:
			z.Sub(a.c, b.c)
		case token.MUL:
			z.Mul(a.c, b.c)
		default:
			return tjVal{}, g.errf(x, "unsupported constant operator %s", x.Op)
		}
		return tjVal{code: coqZ(z), ty: tjLit, c: z}, nil
	}
	// comparisons with nil
	if b.ty == tjNil || a.ty == tjNil {
		o := a
		if a.ty == tjNil {
			o = b
		}
		switch o.ty {
		case tjErr:
			if x.Op == token.NEQ {
				return tjVal{code: o.code, ty: tjBool}, nil
			}
			if x.Op == token.EQL {
				return tjVal{code: "(negb " + o.code + ")", ty: tjBool}, nil
			}
		case tjSub:
			if x.Op == token.EQL {
				return tjVal{code: "(sub_is_nil " + o.code + ")", ty: tjBool}, nil
			}
			if x.Op == token.NEQ {
				return tjVal{code: "(negb (sub_is_nil " + o.code + "))", ty: tjBool}, nil
			}
		}
		return tjVal{}, g.errf(x, "unsupported comparison of %s with nil", o.ty)
	}
	// bring an untyped constant to the type of the other operand
	if a.ty == tjLit {
		if a, err = g.coerce(x, a, b.ty); err != nil {
			return tjVal{}, err
		}
	}
	if b.ty == tjLit {
		if b, err = g.coerce(x, b, a.ty); err != nil {
			return tjVal{}, err
		}
	}
	if a.ty != b.ty {
		return tjVal{}, g.errf(x, "%s on %s, %s", x.Op, a.ty, b.ty)
	}
	var code string
	switch a.ty {
	case tjF64:
		switch x.Op {
		case token.LSS:
			code = fmt.Sprintf("(fl_ltb %s %s)", a.code, b.code)
		case token.GTR:
			code = fmt.Sprintf("(fl_ltb %s %s)", b.code, a.code)
		case token.GEQ:
			code = fmt.Sprintf("(fl_geb %s %s)", a.code, b.code)
		case token.LEQ:
			code = fmt.Sprintf("(fl_geb %s %s)", b.code, a.code)
		case token.NEQ:
			code = fmt.Sprintf("(fl_neqb %s %s)", a.code, b.code)
		case token.EQL:
			code = fmt.Sprintf("(fl_eqb %s %s)", a.code, b.code)
		}
	case tjInt:
		switch x.Op {
		case token.LSS:
			code = fmt.Sprintf("(%s <? %s)", a.code, b.code)
		case token.GTR:
			code = fmt.Sprintf("(%s <? %s)", b.code, a.code)
		case token.GEQ:
			code = fmt.Sprintf("(%s <=? %s)", b.code, a.code)
		case token.LEQ:
			code = fmt.Sprintf("(%s <=? %s)", a.code, b.code)
		case token.NEQ:
			code = fmt.Sprintf("(negb (%s =? %s))", a.code, b.code)
		case token.EQL:
			code = fmt.Sprintf("(%s =? %s)", a.code, b.code)
		}
	case tjStr:
		switch x.Op {
		case token.NEQ:
			code = fmt.Sprintf("(negb (String.eqb %s %s))", a.code, b.code)
		case token.EQL:
			code = fmt.Sprintf("(String.eqb %s %s)", a.code, b.code)
		}
	}
	if code == "" {
		return tjVal{}, g.errf(x, "unsupported operator %s on %s", x.Op, a.ty)
	}
	return tjVal{code: code, ty: tjBool}, nil
}

func (g *tj) callExpr(x *ast.CallExpr, env *tjEnv) (tjVal, error) {
	if id, ok := x.Fun.(*ast.Ident); ok {
		if _, _, shadow := env.lookup(id.Name); shadow {
			return tjVal{}, g.errf(x, "%s is shadowed", id.Name)
		}
		switch id.Name {
		case "len":
			if len(x.Args) != 1 {
				return tjVal{}, g.errf(x, "len")
			}
			v, err := g.expr(x.Args[0], env)
			if err != nil {
				return tjVal{}, err
			}
			switch v.ty {
			case tjArr, tjStrs, "errs":
				return tjVal{code: "(zlen " + v.code + ")", ty: tjInt}, nil
			case tjPoint:
				// len of a pointer to the array type TwoDPoint [2]float64 (declaration checked)
				return tjVal{code: "2", ty: tjInt}, nil
			}
			return tjVal{}, g.errf(x, "len of %s", v.ty)
		case "int", "int64":
			if len(x.Args) != 1 {
				return tjVal{}, g.errf(x, "conversion")
			}
			v, err := g.expr(x.Args[0], env)
			if err != nil {
				return tjVal{}, err
			}
			if v.ty != tjInt {
				return tjVal{}, g.errf(x, "conversion of %s to %s", v.ty, id.Name)
			}
			return v, nil
		}
	}
	if id, ok := x.Fun.(*ast.Ident); ok && id.Name == "append" && len(x.Args) == 2 {
		l, err := g.expr(x.Args[0], env)
		if err != nil {
			return tjVal{}, err
		}
		e, err := g.expr(x.Args[1], env)
		if err != nil {
			return tjVal{}, err
		}
		if l.ty != tjErrs || e.ty != tjErr {
			return tjVal{}, g.errf(x, "append on %s, %s", l.ty, e.ty)
		}
		return tjVal{code: fmt.Sprintf("(errs_append %s %s)", l.code, e.code), ty: tjErrs}, nil
	}
	if sel, ok := x.Fun.(*ast.SelectorExpr); ok && sel.Sel.Name == "FindStringSubmatch" && len(x.Args) == 1 {
		if id, ok := sel.X.(*ast.Ident); ok {
			if _, _, shadow := env.lookup(id.Name); !shadow {
				fn, err := g.regexpVar(id)
				if err != nil {
					return tjVal{}, err
				}
				v, err := g.expr(x.Args[0], env)
				if err != nil {
					return tjVal{}, err
				}
				if v.ty != tjStr {
					return tjVal{}, g.errf(x, "FindStringSubmatch of %s", v.ty)
				}
				g.mapped["regexp"] = true
				return tjVal{code: fmt.Sprintf("(%s %s)", fn, v.code), ty: tjSub}, nil
			}
		}
	}
	if g.pkgCall(x.Fun, "math", "Trunc") && len(x.Args) == 1 {
		v, err := g.expr(x.Args[0], env)
		if err != nil {
			return tjVal{}, err
		}
		if v.ty != tjF64 {
			return tjVal{}, g.errf(x, "math.Trunc of %s", v.ty)
		}
		g.mapped["math.Trunc"] = true
		return tjVal{code: "(fl_trunc " + v.code + ")", ty: tjF64}, nil
	}
	return tjVal{}, g.errf(x, "unsupported call %s", g.print(x))
}

// the two regular expressions of the CRS URIs, as the model transcribes them (parse_crs_url / parse_crs_urn of Tms/Model.v)
var tjRegexps = map[string]string{
	"https?://.+/def/crs/(?P<authority>[^/]+)/(?P<version>[^/]*)/(?P<code>[^/]+)$": "submatch_url",
	"^urn:ogc:def:crs:(?P<authority>[^:]+):(?P<version>[^:]*):(?P<code>[^:]+)$":    "submatch_urn",
}

// id is a package-level variable initialised with regexp.MustCompile(<one of the two known expressions>)
func (g *tj) regexpVar(id *ast.Ident) (string, error) {
	for _, d := range g.file.Decls {
		gd, ok := d.(*ast.GenDecl)
		if !ok || gd.Tok != token.VAR {
			continue
		}
		for _, sp := range gd.Specs {
			vs := sp.(*ast.ValueSpec)
			for k, n := range vs.Names {
				if n.Name != id.Name || k >= len(vs.Values) {
					continue
				}
				c, ok := vs.Values[k].(*ast.CallExpr)
				if !ok || !g.pkgCall(c.Fun, "regexp", "MustCompile") || len(c.Args) != 1 {
					return "", g.errf(vs, "%s is not regexp.MustCompile(..)", id.Name)
				}
				lit, ok := c.Args[0].(*ast.BasicLit)
				if !ok || lit.Kind != token.STRING {
					return "", g.errf(vs, "%s: the expression is not a literal", id.Name)
				}
				re, err := strconv.Unquote(lit.Value)
				if err != nil {
					return "", g.errf(vs, "%v", err)
				}
				if fn, ok := tjRegexps[re]; ok {
					return fn, nil
				}
				return "", g.errf(vs, "%s: the regular expression %q is not one the model transcribes", id.Name, re)
			}
		}
	}
	return "", g.errf(id, "%s is not a package-level regular expression", id.Name)
}

// a normalised text of a struct declaration: "Name Type `tag`; .."
func (g *tj) structShape(name string) string {
	st := g.structDecl(name)
	if st == nil {
		return ""
	}
	var parts []string
	for _, f := range st.Fields.List {
		tag := ""
		if f.Tag != nil {
			tag = " " + f.Tag.Value
		}
		if len(f.Names) == 0 {
			parts = append(parts, g.print(f.Type)+tag)
		}
		for _, n := range f.Names {
			parts = append(parts, n.Name+" "+g.print(f.Type)+tag)
		}
	}
	return strings.Join(parts, "; ")
}

func (g *tj) structDecl(name string) *ast.StructType {
	for _, d := range g.file.Decls {
		gd, ok := d.(*ast.GenDecl)
		if !ok || gd.Tok != token.TYPE {
			continue
		}
		for _, s := range gd.Specs {
			ts := s.(*ast.TypeSpec)
			if st, ok := ts.Type.(*ast.StructType); ok && ts.Name.Name == name && !ts.Assign.IsValid() {
				return st
			}
		}
	}
	return nil
}

func (g *tj) expectShape(name, want string) error {
	if got := g.structShape(name); got != want {
		return fmt.Errorf("tms20.go: struct %s is declared as {%s}, the model transcribes {%s}", name, got, want)
	}
	return nil
}

// the struct declaration of tms20.go has field `name` with exactly the Go type `goTy`
func (g *tj) checkField(structName, name, goTy string) error {
	for _, d := range g.file.Decls {
		gd, ok := d.(*ast.GenDecl)
		if !ok || gd.Tok != token.TYPE {
			continue
		}
		for _, s := range gd.Specs {
			ts := s.(*ast.TypeSpec)
			st, ok := ts.Type.(*ast.StructType)
			if !ok || ts.Name.Name != structName {
				continue
			}
			for _, f := range st.Fields.List {
				for _, n := range f.Names {
					if n.Name == name {
						if g.print(f.Type) != goTy {
							return g.errf(f, "field %s.%s has type %s, expected %s", structName, name, g.print(f.Type), goTy)
						}
						return nil
					}
				}
			}
		}
	}
	return fmt.Errorf("field %s.%s not found in tms20.go", structName, name)
}

// the arguments of fmt.Errorf / errors.New are not evaluated by the translation: they must not be able to panic or to
// have an effect
func (g *tj) harmless(x ast.Expr) bool {
	switch x := x.(type) {
	case *ast.BasicLit, *ast.Ident:
		return true
	case *ast.ParenExpr:
		return g.harmless(x.X)
	case *ast.SelectorExpr:
		return g.harmless(x.X)
	case *ast.CallExpr:
		if id, ok := x.Fun.(*ast.Ident); ok && id.Name == "len" && len(x.Args) == 1 {
			return g.harmless(x.Args[0])
		}
	}
	return false
}

// x is fmt.Errorf(..) or errors.New(..): a non-nil error
func (g *tj) isNewError(x ast.Expr) bool {
	c, ok := x.(*ast.CallExpr)
	if !ok {
		return false
	}
	if !(g.pkgCall(c.Fun, "fmt", "Errorf") || g.pkgCall(c.Fun, "errors", "New")) || len(c.Args) == 0 {
		return false
	}
	if _, ok := c.Args[0].(*ast.BasicLit); !ok {
		return false
	}
	for _, a := range c.Args[1:] {
		if !g.harmless(a) {
			return false
		}
	}
	return true
}

// ---- statements ------------------------------------------------------------

// where a block of statements is translated: what `return` and falling off the end mean
type tjCtx struct {
	loop  bool   // inside the body of a range loop: return v = LRet v
	state string // loop: the Coq tuple of the state variables
}

func (g *tj) retOk(c *tjCtx, v string) string {
	if c.loop {
		return fmt.Sprintf("Ok (LRet %s)", v)
	}
	return fmt.Sprintf("Ok %s", v)
}

func (g *tj) retErrVar(c *tjCtx, v, errVar string) string {
	if c.loop {
		return fmt.Sprintf("ret_err (LRet %s) %s", v, errVar)
	}
	return fmt.Sprintf("ret_err %s %s", v, errVar)
}

func tuple(names []string) string {
	switch len(names) {
	case 0:
		return "tt"
	case 1:
		return names[0]
	}
	return "(" + strings.Join(names, ", ") + ")"
}

func (g *tj) tupleTy(tys []string) string {
	switch len(tys) {
	case 0:
		return "unit"
	case 1:
		return g.coqTy(tys[0])
	}
	var p []string
	for _, t := range tys {
		p = append(p, g.coqTy(t))
	}
	return "(" + strings.Join(p, " * ") + ")%type"
}

// binder for `fun <binder> => ..` / the state of a loop
func (g *tj) binder(names, tys []string) string {
	switch len(names) {
	case 0:
		return "(_ : unit)"
	case 1:
		return fmt.Sprintf("(%s : %s)", names[0], g.coqTy(tys[0]))
	}
	return fmt.Sprintf("'(%s : %s)", tuple(names), g.tupleTy(tys))
}

// does every path through the statements end in a return?
func (g *tj) terminates(list []ast.Stmt) bool {
	if len(list) == 0 {
		return false
	}
	switch s := list[len(list)-1].(type) {
	case *ast.ReturnStmt:
		return true
	case *ast.IfStmt:
		if s.Else == nil {
			return false
		}
		eb, ok := s.Else.(*ast.BlockStmt)
		if !ok {
			return false
		}
		return g.terminates(s.Body.List) && g.terminates(eb.List)
	}
	return false
}

// the variables declared outside the statements (visible in env) that the statements assign, in order of declaration
func (g *tj) assignedOuter(list []ast.Stmt, env *tjEnv) ([]string, error) {
	found := map[string]bool{}
	inner := []map[string]bool{{}}
	isInner := func(n string) bool {
		for i := len(inner) - 1; i >= 0; i-- {
			if inner[i][n] {
				return true
			}
		}
		return false
	}
	target := func(x ast.Expr) {
		for {
			switch y := x.(type) {
			case *ast.IndexExpr:
				x = y.X
				continue
			case *ast.SelectorExpr:
				x = y.X
				continue
			case *ast.ParenExpr:
				x = y.X
				continue
			case *ast.StarExpr:
				x = y.X
				continue
			}
			break
		}
		if id, ok := x.(*ast.Ident); ok && id.Name != "_" && !isInner(id.Name) {
			if _, _, ok := env.lookup(id.Name); ok {
				found[id.Name] = true
			}
		}
	}
	var walkStmt func(s ast.Stmt) error
	var walkList func(l []ast.Stmt) error
	walkCalls := func(n ast.Node) {
		// a call of a translated method with a pointer receiver that it assigns through
		ast.Inspect(n, func(m ast.Node) bool {
			if c, ok := m.(*ast.CallExpr); ok {
				if sel, ok := c.Fun.(*ast.SelectorExpr); ok {
					for _, s := range g.sigs {
						if s.recv != nil && s.mutRecv && s.decl.Name.Name == sel.Sel.Name {
							target(sel.X)
						}
					}
				}
				// &x handed to a library: treated as an assignment
				for _, a := range c.Args {
					if u, ok := a.(*ast.UnaryExpr); ok && u.Op == token.AND {
						target(u.X)
					}
				}
			}
			return true
		})
	}
	walkList = func(l []ast.Stmt) error {
		inner = append(inner, map[string]bool{})
		defer func() { inner = inner[:len(inner)-1] }()
		for _, s := range l {
			if err := walkStmt(s); err != nil {
				return err
			}
		}
		return nil
	}
	walkStmt = func(s ast.Stmt) error {
		switch s := s.(type) {
		case *ast.AssignStmt:
			walkCalls(s)
			if s.Tok == token.DEFINE {
				cur := inner[len(inner)-1]
				for _, l := range s.Lhs {
					if id, ok := l.(*ast.Ident); ok {
						cur[id.Name] = true
					}
				}
			} else {
				for _, l := range s.Lhs {
					target(l)
				}
			}
		case *ast.DeclStmt:
			gd, ok := s.Decl.(*ast.GenDecl)
			if !ok || gd.Tok != token.VAR {
				return g.errf(s, "unsupported declaration")
			}
			for _, sp := range gd.Specs {
				for _, n := range sp.(*ast.ValueSpec).Names {
					inner[len(inner)-1][n.Name] = true
				}
			}
		case *ast.ExprStmt:
			walkCalls(s)
		case *ast.ReturnStmt:
			walkCalls(s)
		case *ast.IfStmt:
			inner = append(inner, map[string]bool{})
			defer func() { inner = inner[:len(inner)-1] }()
			if s.Init != nil {
				if err := walkStmt(s.Init); err != nil {
					return err
				}
			}
			walkCalls(s.Cond)
			if err := walkList(s.Body.List); err != nil {
				return err
			}
			if s.Else != nil {
				eb, ok := s.Else.(*ast.BlockStmt)
				if !ok {
					return g.errf(s, "else if is not supported")
				}
				if err := walkList(eb.List); err != nil {
					return err
				}
			}
		case *ast.RangeStmt:
			inner = append(inner, map[string]bool{})
			defer func() { inner = inner[:len(inner)-1] }()
			if s.Tok != token.DEFINE {
				return g.errf(s, "range with = is not supported")
			}
			for _, kv := range []ast.Expr{s.Key, s.Value} {
				if id, ok := kv.(*ast.Ident); ok {
					inner[len(inner)-1][id.Name] = true
				}
			}
			if err := walkList(s.Body.List); err != nil {
				return err
			}
		default:
			return g.errf(s, "unsupported statement %T", s)
		}
		return nil
	}
	for _, s := range list {
		if err := walkStmt(s); err != nil {
			return nil, err
		}
	}
	var out []string
	for _, n := range env.order {
		if found[n] {
			out = append(out, n)
		}
	}
	return out, nil
}

// the names the statements mention (superset of the free variables)
func mentioned(list []ast.Stmt) map[string]bool {
	m := map[string]bool{}
	for _, s := range list {
		ast.Inspect(s, func(n ast.Node) bool {
			if id, ok := n.(*ast.Ident); ok {
				m[id.Name] = true
			}
			return true
		})
	}
	return m
}

func (g *tj) flush(b *strings.Builder) {
	for _, p := range g.pre {
		b.WriteString(p + "\n")
	}
	g.pre = nil
}

// the value returned by the current function, given the non-error results
func (g *tj) retValue(n ast.Node, vals []string, env *tjEnv) (string, error) {
	var parts []string
	if g.cur.mutRecv {
		if env.gone[g.cur.recv.name] {
			return "", g.errf(n, "the value of the receiver is not modelled here")
		}
		parts = append(parts, "v_"+g.cur.recv.name)
	}
	parts = append(parts, vals...)
	return tuple(parts), nil
}

// stmts translates list[i:] followed by `fall` (what happens when control falls off the end of the list)
func (g *tj) stmts(list []ast.Stmt, i int, env *tjEnv, c *tjCtx, fall func(env *tjEnv) (string, error)) (string, error) {
	if i == len(list) {
		return fall(env)
	}
	var b strings.Builder
	rest := func(e *tjEnv) (string, error) { return g.stmts(list, i+1, e, c, fall) }
	switch s := list[i].(type) {
	case *ast.DeclStmt:
		gd, ok := s.Decl.(*ast.GenDecl)
		if !ok || gd.Tok != token.VAR {
			return "", g.errf(s, "unsupported declaration")
		}
		if code, n, err := g.sortedValues(list, i, env); err != nil {
			return "", err
		} else if n > 0 {
			r, err := g.stmts(list, i+n, env, c, fall)
			return code + r, err
		}
		for _, sp := range gd.Specs {
			vs := sp.(*ast.ValueSpec)
			if vs.Type == nil || len(vs.Values) != 0 {
				return "", g.errf(s, "only `var x T` is supported")
			}
			ty, err := g.goTy(vs.Type)
			if err != nil {
				return "", err
			}
			z, err := g.zero(s, ty)
			if err != nil {
				return "", err
			}
			for _, n := range vs.Names {
				if env.inCurrent(n.Name) {
					return "", g.errf(s, "%s redeclared", n.Name)
				}
				env.declare(n.Name, ty)
				fmt.Fprintf(&b, "let v_%s := %s in\n", n.Name, z)
			}
		}
		r, err := rest(env)
		return b.String() + r, err

	case *ast.AssignStmt:
		code, tail, err := g.assign(s, list, i, env, c)
		if err != nil {
			return "", err
		}
		if tail {
			return code, nil
		}
		r, err := rest(env)
		return code + r, err

	case *ast.ReturnStmt:
		if i != len(list)-1 {
			return "", g.errf(s, "statements after return")
		}
		return g.ret(s, env, c)

	case *ast.IfStmt:
		return g.ifStmt(s, env, c, func(e *tjEnv) (string, error) {
			for _, v := range g.pendingGone[s] {
				e.gone[v] = true
			}
			return rest(e)
		})

	case *ast.RangeStmt:
		return g.rangeStmt(s, env, c, rest)
	}
	return "", g.errf(list[i], "unsupported statement %s", g.print(list[i]))
}

func (g *tj) ret(s *ast.ReturnStmt, env *tjEnv, c *tjCtx) (string, error) {
	sig := g.cur
	want := len(sig.results)
	if sig.hasErr {
		want++
	}
	if len(s.Results) == 1 {
		if call, ok := s.Results[0].(*ast.CallExpr); ok {
			if code, ok, err := g.retCall(s, call, env, c); ok || err != nil {
				return code, err
			}
		}
	}
	if len(s.Results) != want {
		return "", g.errf(s, "return with %d values, expected %d", len(s.Results), want)
	}
	var b strings.Builder
	var vals []string
	isErr := false
	errVar := ""
	if sig.hasErr {
		e := s.Results[want-1]
		switch {
		case g.isNewError(e):
			isErr = true
		default:
			v, err := g.expr(e, env)
			if err != nil {
				return "", err
			}
			switch v.ty {
			case tjNil:
			case tjErr:
				errVar = v.code
			default:
				return "", g.errf(e, "unsupported error result %s", g.print(e))
			}
		}
	}
	for k, r := range s.Results[:len(sig.results)] {
		if isErr {
			// not observable: must only be harmless
			if !g.harmless(r) {
				return "", g.errf(r, "result beside an error must be a variable or nil")
			}
			continue
		}
		if id, ok := r.(*ast.Ident); ok && id.Name == "nil" && errVar != "" {
			z, err := g.zero(r, sig.results[k])
			if err != nil {
				return "", err
			}
			vals = append(vals, z)
			continue
		}
		v, err := g.resultExpr(r, env, sig.results[k])
		if err != nil {
			return "", err
		}
		vals = append(vals, v)
	}
	g.flush(&b)
	if isErr {
		b.WriteString("Error")
		return b.String(), nil
	}
	rv, err := g.retValue(s, vals, env)
	if err != nil {
		if errVar == "" {
			return "", err
		}
		rv = ""
	}
	if errVar != "" {
		if rv == "" {
			return "", g.errf(s, "the value of the receiver is not modelled here")
		}
		b.WriteString(g.retErrVar(c, rv, errVar))
	} else {
		b.WriteString(g.retOk(c, rv))
	}
	return b.String(), nil
}

// return <call>: validate.Struct(<receiver>) / json.Marshal(..)
func (g *tj) retCall(s *ast.ReturnStmt, call *ast.CallExpr, env *tjEnv, c *tjCtx) (string, bool, error) {
	sig := g.cur
	var b strings.Builder
	// return validate.Struct(recv)
	if sel, ok := call.Fun.(*ast.SelectorExpr); ok && sel.Sel.Name == "Struct" && len(call.Args) == 1 {
		if id, ok := sel.X.(*ast.Ident); ok {
			if t, _, ok := env.lookup(id.Name); ok && t == tjValid {
				if sig.recv == nil || g.print(call.Args[0]) != sig.recv.name || len(sig.results) != 0 || !sig.hasErr {
					return "", false, g.errf(s, "only `return validate.Struct(<receiver>)` is supported")
				}
				if !strings.HasPrefix(sig.recv.ty, "struct:") {
					return "", false, g.errf(s, "validate.Struct of %s", sig.recv.ty)
				}
				rv, err := g.retValue(s, nil, env)
				if err != nil {
					return "", false, err
				}
				st := g.structs[sig.recv.ty[7:]]
				exported := false
				for _, f := range st.fields {
					if ast.IsExported(f.name) {
						exported = true
					}
				}
				e := g.fresh("e")
				if !exported {
					g.mapped["validate.unexported"] = true
					fmt.Fprintf(&b, "do %s <- err_of validate_unexported_noop;\n", e)
				} else {
					if !g.validators[st.name] {
						return "", false, g.errf(s, "no validation was generated for %s", st.name)
					}
					g.mapped["validate.tags"] = true
					fmt.Fprintf(&b, "do %s <- err_of (validate_result (gen_%s_validate v_%s));\n", e, st.name, sig.recv.name)
				}
				b.WriteString(g.retErrVar(c, rv, e))
				return b.String(), true, nil
			}
		}
	}
	// return json.Marshal(x)
	if g.pkgCall(call.Fun, "json", "Marshal") && len(call.Args) == 1 {
		if len(sig.results) != 1 || sig.results[0] != tjBytes || !sig.hasErr || sig.mutRecv {
			return "", false, g.errf(s, "json.Marshal in a function that does not return ([]byte, error)")
		}
		g.mapped["json.Marshal"] = true
		wrap := func(app string) string {
			if c.loop {
				return fmt.Sprintf("do m_0 <- %s; Ok (LRet m_0)", app)
			}
			return app
		}
		if cl, ok := call.Args[0].(*ast.CompositeLit); ok {
			st, ok := cl.Type.(*ast.StructType)
			if !ok {
				return "", false, g.errf(cl, "json.Marshal of %s", g.print(cl.Type))
			}
			vals := map[string]ast.Expr{}
			for _, e := range cl.Elts {
				kv, ok := e.(*ast.KeyValueExpr)
				if !ok {
					return "", false, g.errf(e, "struct literal without field names")
				}
				vals[g.print(kv.Key)] = kv.Value
			}
			var members []string
			// one member: the json tag, the Go type of the field, the translated value
			member := func(n ast.Node, tagLit, goTy string, v tjVal) error {
				tag, _ := strconv.Unquote(tagLit)
				jt, ok := reflect.StructTag(tag).Lookup("json")
				if !ok || jt == "" {
					return g.errf(n, "json.Marshal of a struct: field without a json tag")
				}
				if jt == "-" {
					return nil
				}
				opts := strings.Split(jt, ",")
				key, omit := opts[0], false
				for _, o := range opts[1:] {
					if o != "omitempty" {
						return g.errf(n, "json.Marshal of a struct: unsupported option %s", o)
					}
					omit = true
				}
				if key == "" {
					return g.errf(n, "json.Marshal of a struct: empty key")
				}
				var enc string
				switch {
				case goTy == "string" && v.ty == tjStr:
					enc = fmt.Sprintf("(enc_str %v %s)", omit, v.code)
				case goTy == "map[string]interface{}" && v.ty == tjObj && !omit:
					enc = fmt.Sprintf("(enc_map %s)", v.code)
				case goTy == "[]string" && v.ty == tjOStrs:
					enc = fmt.Sprintf("(enc_strs %v %s)", omit, v.code)
				case goTy == "*TwoDPoint" && v.ty == tjOPoint:
					if g.findFunc("TwoDPoint", "MarshalJSON") != nil {
						return g.errf(n, "TwoDPoint has a MarshalJSON: not modelled")
					}
					enc = fmt.Sprintf("(enc_point_ptr %v %s)", omit, v.code)
				case goTy == "*TwoDBoundingBox" && v.ty == tjOBBox:
					// TwoDBoundingBox.MarshalJSON: translated as gen_TwoDBoundingBox_MarshalJSON and proved to be the model's encodeBBox
					if sig := g.sigs["TwoDBoundingBox.MarshalJSON"]; sig == nil {
						return g.errf(n, "TwoDBoundingBox.MarshalJSON was not translated")
					}
					g.mapped["enc_bbox"] = true
					enc = fmt.Sprintf("(enc_bbox_ptr %v %s)", omit, v.code)
				case goTy == "*CRS" && v.ty == "crsptr" && !omit:
					// a pointer to the interface: the MarshalJSON of the value it holds
					if !g.crsDispatch {
						return g.errf(n, "no dispatch of CRS.MarshalJSON was generated")
					}
					t := g.fresh("m")
					g.pre = append(g.pre, fmt.Sprintf("do %s <- gen_CRS_MarshalJSON %s;", t, v.code))
					enc = fmt.Sprintf("(enc_json %s)", t)
				case goTy == "[]*TileMatrix" && v.ty == tjTMPtrs && !omit:
					if err := g.expectShape("TileMatrix", tjTMShape); err != nil {
						return err
					}
					if err := g.expectShape("VariableMatrixWidth", tjVmwShape); err != nil {
						return err
					}
					if g.findFunc("TileMatrix", "MarshalJSON") != nil {
						return g.errf(n, "TileMatrix has a MarshalJSON: the model's encodeTM does not describe it")
					}
					g.mapped["enc_tm"] = true
					enc = fmt.Sprintf("(enc_tm_ptrs %s)", v.code)
				default:
					return g.errf(n, "json.Marshal of a struct: unsupported member of type %s (value %s, omitempty %v)", goTy, v.ty, omit)
				}
				members = append(members, fmt.Sprintf("(%s%%string, %s)", coqString(key), enc))
				return nil
			}
			for _, f := range st.Fields.List {
				if len(f.Names) == 0 {
					// an embedded struct: its fields are promoted, in place
					tn := g.print(f.Type)
					es, ok := g.structs[tn]
					ve, has := vals[tn]
					if !ok || !has || f.Tag != nil {
						return "", false, g.errf(f, "json.Marshal of a struct: unsupported embedded field %s", tn)
					}
					delete(vals, tn)
					star, ok := ve.(*ast.StarExpr)
					if !ok {
						return "", false, g.errf(ve, "json.Marshal of a struct: the embedded %s must be given as *p", tn)
					}
					pv, err := g.expr(star.X, env)
					if err != nil {
						return "", false, err
					}
					if pv.ty != "struct:"+tn {
						return "", false, g.errf(ve, "json.Marshal of a struct: %s is not a *%s", g.print(star.X), tn)
					}
					// (the embedded value is not addressable inside json.Marshal, so the pointer-receiver MarshalJSON of the
					// embedded type is not promoted: its fields are encoded by their tags)
					if fd := g.findFunc(tn, "MarshalJSON"); fd == nil {
						return "", false, g.errf(f, "json.Marshal of a struct: %s has no pointer-receiver MarshalJSON", tn)
					}
					for _, d := range g.file.Decls {
						if fd, ok := d.(*ast.FuncDecl); ok && fd.Name.Name == "MarshalJSON" && fd.Recv != nil && g.print(fd.Recv.List[0].Type) == tn {
							return "", false, g.errf(fd, "json.Marshal of a struct: %s has a value-receiver MarshalJSON, which would be promoted", tn)
						}
					}
					for _, ef := range es.fields {
						if !ast.IsExported(ef.name) {
							continue
						}
						if err := member(f, "`"+ef.tag+"`", ef.goTy, tjVal{code: fmt.Sprintf("(gen_%s_%s %s)", tn, ef.name, pv.code), ty: ef.ty}); err != nil {
							return "", false, err
						}
					}
					continue
				}
				if len(f.Names) != 1 || f.Tag == nil {
					return "", false, g.errf(f, "json.Marshal of a struct: every field needs a name and a json tag")
				}
				ve, ok := vals[f.Names[0].Name]
				if !ok {
					return "", false, g.errf(cl, "json.Marshal of a struct: no value for field %s", f.Names[0].Name)
				}
				delete(vals, f.Names[0].Name)
				var v tjVal
				if u, ok := ve.(*ast.UnaryExpr); ok && u.Op == token.AND && g.print(f.Type) == "*CRS" {
					// &x.CRS: a (non-nil) pointer to the interface value
					x, err := g.expr(u.X, env)
					if err != nil {
						return "", false, err
					}
					if x.ty != tjCRS {
						return "", false, g.errf(ve, "& of %s", x.ty)
					}
					v = tjVal{code: x.code, ty: "crsptr"}
				} else {
					var err error
					if v, err = g.expr(ve, env); err != nil {
						return "", false, err
					}
				}
				if err := member(f, f.Tag.Value, g.print(f.Type), v); err != nil {
					return "", false, err
				}
			}
			if len(vals) != 0 {
				return "", false, g.errf(cl, "json.Marshal of a struct: value for an unknown field")
			}
			g.flush(&b)
			b.WriteString(wrap("json_marshal_struct [" + strings.Join(members, "; ") + "]"))
			return b.String(), true, nil
		}
		v, err := g.expr(call.Args[0], env)
		if err != nil {
			return "", false, err
		}
		if v.ty != tjStr {
			return "", false, g.errf(call, "json.Marshal of %s", v.ty)
		}
		g.flush(&b)
		b.WriteString(wrap("json_marshal_string " + v.code))
		return b.String(), true, nil
	}
	return "", false, nil
}

// a returned value of the given translated type (hook for &x of a struct returned as an interface)
func (g *tj) resultExpr(r ast.Expr, env *tjEnv, want string) (string, error) {
	if u, ok := r.(*ast.UnaryExpr); ok && u.Op == token.AND && want == tjCRS {
		v, err := g.expr(u.X, env)
		if err != nil {
			return "", err
		}
		for _, n := range g.impls {
			if v.ty == "struct:"+n {
				if _, isVar := u.X.(*ast.Ident); isVar {
					return fmt.Sprintf("(gen_CRS_%s %s)", n, v.code), nil
				}
			}
		}
		return "", g.errf(r, "%s is not a pointer to a type implementing CRS", g.print(r))
	}
	v, err := g.expr(r, env)
	if err != nil {
		return "", err
	}
	v, err = g.coerce(r, v, want)
	if err != nil {
		return "", err
	}
	return v.code, nil
}

func (g *tj) condExpr(x ast.Expr, env *tjEnv) (string, error) {
	v, err := g.expr(x, env)
	if err != nil {
		return "", err
	}
	if v.ty != tjBool {
		return "", g.errf(x, "condition of type %s", v.ty)
	}
	return v.code, nil
}

func (g *tj) ifStmt(s *ast.IfStmt, env *tjEnv, c *tjCtx, rest func(*tjEnv) (string, error)) (string, error) {
	var elseList []ast.Stmt
	if s.Else != nil {
		eb, ok := s.Else.(*ast.BlockStmt)
		if !ok {
			return "", g.errf(s, "else if is not supported")
		}
		elseList = eb.List
	}
	var b strings.Builder
	noFall := func(e *tjEnv) (string, error) { return "", g.errf(s, "internal: fall through of a terminating block") }
	if s.Init == nil && g.terminates(s.Body.List) && s.Else == nil {
		// if c { .. return }; rest
		cond, err := g.condExpr(s.Cond, env)
		if err != nil {
			return "", err
		}
		g.flush(&b)
		be := env.clone()
		be.push()
		body, err := g.stmts(s.Body.List, 0, be, c, noFall)
		if err != nil {
			return "", err
		}
		r, err := rest(env)
		if err != nil {
			return "", err
		}
		fmt.Fprintf(&b, "if %s then (\n%s\n) else\n%s", cond, body, r)
		return b.String(), nil
	}
	// general form: the statements that follow become a continuation of the variables the branches assign
	both := append(append([]ast.Stmt{}, s.Body.List...), elseList...)
	vars, err := g.assignedOuter(both, env)
	if err != nil {
		return "", err
	}
	var names, tys []string
	for _, v := range vars {
		t, _, _ := env.lookup(v)
		names = append(names, "v_"+v)
		tys = append(tys, t)
	}
	k := g.fresh("k")
	allTerm := g.terminates(s.Body.List) && s.Else != nil && g.terminates(elseList)
	if !allTerm {
		re := env.clone()
		for _, v := range vars {
			delete(re.gone, v)
		}
		r, err := rest(re)
		if err != nil {
			return "", err
		}
		fmt.Fprintf(&b, "let %s := fun %s =>\n%s in\n", k, g.binder(names, tys), r)
	}
	ie := env.clone()
	ie.push()
	if s.Init != nil {
		as, ok := s.Init.(*ast.AssignStmt)
		if !ok || as.Tok != token.DEFINE {
			return "", g.errf(s.Init, "unsupported if initialiser")
		}
		code, tail, err := g.assign(as, []ast.Stmt{as}, 0, ie, c)
		if err != nil {
			return "", err
		}
		if tail {
			return "", g.errf(s.Init, "unsupported if initialiser")
		}
		b.WriteString(code)
	}
	cond, err := g.condExpr(s.Cond, ie)
	if err != nil {
		return "", err
	}
	g.flush(&b)
	callK := func(e *tjEnv) (string, error) {
		for _, v := range vars {
			if t, d, _ := e.lookup(v); true {
				t0, d0, _ := env.lookup(v)
				if t != t0 || d != d0 {
					return "", g.errf(s, "%s is shadowed where control leaves the branch", v)
				}
			}
			if e.gone[v] {
				return "", g.errf(s, "the value of %s is not modelled where control leaves the branch", v)
			}
		}
		return fmt.Sprintf("%s %s", k, tuple(names)), nil
	}
	be := ie.clone()
	be.push()
	body, err := g.stmts(s.Body.List, 0, be, c, callK)
	if err != nil {
		return "", err
	}
	ee := ie.clone()
	ee.push()
	els, err := g.stmts(elseList, 0, ee, c, callK)
	if err != nil {
		return "", err
	}
	fmt.Fprintf(&b, "if %s then (\n%s\n) else (\n%s\n)", cond, body, els)
	return b.String(), nil
}

func (g *tj) rangeStmt(s *ast.RangeStmt, env *tjEnv, c *tjCtx, rest func(*tjEnv) (string, error)) (string, error) {
	if s.Tok != token.DEFINE {
		return "", g.errf(s, "range with = is not supported")
	}
	coll, err := g.expr(s.X, env)
	if err != nil {
		return "", err
	}
	var b strings.Builder
	g.flush(&b)
	var elemName, elemTy, listCode string
	keyIs := func(x ast.Expr, blank bool) bool {
		if x == nil {
			return blank
		}
		id, ok := x.(*ast.Ident)
		return ok && (id.Name == "_") == blank
	}
	switch {
	case keyIs(s.Key, true) && s.Value != nil && keyIs(s.Value, false):
		// for _, x := range l
		elemName = s.Value.(*ast.Ident).Name
		switch coll.ty {
		case tjArr:
			elemTy = tjJSON
		case tjStrs:
			elemTy = tjStr
		default:
			return "", g.errf(s, "range over %s", coll.ty)
		}
		listCode = coll.code
	case keyIs(s.Key, false) && s.Value == nil:
		// for i := range l
		elemName = s.Key.(*ast.Ident).Name
		switch coll.ty {
		case tjArr, tjStrs:
			elemTy = tjInt
		default:
			return "", g.errf(s, "range over %s", coll.ty)
		}
		listCode = "(indices " + coll.code + ")"
	default:
		return "", g.errf(s, "unsupported form of range")
	}
	state, err := g.assignedOuter(s.Body.List, env)
	if err != nil {
		return "", err
	}
	var sNames, sTys []string
	for _, v := range state {
		if env.gone[v] {
			return "", g.errf(s, "the value of %s is not modelled before the loop", v)
		}
		t, _, _ := env.lookup(v)
		sNames = append(sNames, "v_"+v)
		sTys = append(sTys, t)
	}
	isState := map[string]bool{}
	for _, v := range state {
		isState[v] = true
	}
	// the parameters of the loop body: the visible variables it mentions, apart from the state
	ment := mentioned(s.Body.List)
	if g.cur.mutRecv {
		// a return hands back the receiver's value
		ast.Inspect(s.Body, func(n ast.Node) bool {
			if _, ok := n.(*ast.ReturnStmt); ok {
				ment[g.cur.recv.name] = true
			}
			return true
		})
	}
	var params []tjParam
	for _, p := range env.visible() {
		if ment[p.name] && !isState[p.name] && !env.gone[p.name] && p.name != elemName {
			params = append(params, p)
		}
	}
	g.loopN++
	name := fmt.Sprintf("%s_loop%d", g.cur.coqName, g.loopN)
	be := env.clone()
	be.push()
	be.declare(elemName, elemTy)
	be.push()
	lc := &tjCtx{loop: true, state: tuple(sNames)}
	savedPre := g.pre
	g.pre = nil
	body, err := g.stmts(s.Body.List, 0, be, lc, func(e *tjEnv) (string, error) {
		for _, v := range state {
			t, d, _ := e.lookup(v)
			t0, d0, _ := env.lookup(v)
			if t != t0 || d != d0 {
				return "", g.errf(s, "%s is shadowed at the end of the loop body", v)
			}
			if e.gone[v] {
				return "", g.errf(s, "the value of %s is not modelled at the end of the loop body", v)
			}
		}
		return fmt.Sprintf("Ok (LCont %s)", tuple(sNames)), nil
	})
	if err != nil {
		return "", err
	}
	g.pre = savedPre
	var d strings.Builder
	fmt.Fprintf(&d, "(* one run of the body of: for %s := range %s { .. }; state = %s *)\n", g.print(s.Key)+func() string {
		if s.Value != nil {
			return ", " + g.print(s.Value)
		}
		return ""
	}(), g.print(s.X), tuple(sNames))
	fmt.Fprintf(&d, "Definition %s", name)
	var args []string
	for _, p := range params {
		fmt.Fprintf(&d, " (v_%s : %s)", p.name, g.coqTy(p.ty))
		args = append(args, "v_"+p.name)
	}
	fmt.Fprintf(&d, " (v_%s : %s) (st : %s) : outcome (lstep %s %s) :=\n", elemName, g.coqTy(elemTy), g.tupleTy(sTys), g.tupleTy(sTys), g.retCoq(g.cur))
	if len(sNames) > 0 {
		fmt.Fprintf(&d, "let %s := st in\n", func() string {
			if len(sNames) == 1 {
				return sNames[0]
			}
			return "'" + tuple(sNames)
		}())
	}
	d.WriteString(body + ".\n")
	g.defs = append(g.defs, d.String())
	out := g.fresh("out")
	call := name
	if len(args) > 0 {
		call = "(" + name + " " + strings.Join(args, " ") + ")"
	}
	fmt.Fprintf(&b, "do %s <- orange %s %s %s;\n", out, call, listCode, tuple(sNames))
	re := env.clone()
	r, err := rest(re)
	if err != nil {
		return "", err
	}
	rv := g.fresh("r")
	pat := "_"
	if len(sNames) > 0 {
		pat = tuple(sNames)
	}
	fmt.Fprintf(&b, "match %s with\n| LRet %s => %s\n| LCont %s =>\n%s\nend", out, rv, g.retOk(c, rv), pat, r)
	return b.String(), nil
}

// the call is f(..) or x.M(..) of a translated function: its signature, the receiver expression
func (g *tj) translatedCall(x ast.Expr, env *tjEnv) (*tjSig, *ast.CallExpr, ast.Expr) {
	c, ok := x.(*ast.CallExpr)
	if !ok {
		return nil, nil, nil
	}
	switch f := c.Fun.(type) {
	case *ast.Ident:
		if _, _, shadow := env.lookup(f.Name); shadow {
			return nil, nil, nil
		}
		if s, ok := g.sigs[f.Name]; ok && s.recv == nil {
			return s, c, nil
		}
	case *ast.SelectorExpr:
		if id, ok := f.X.(*ast.Ident); ok {
			if ty, _, ok := env.lookup(id.Name); ok {
				for _, s := range g.sigs {
					if s.recv != nil && s.recv.ty == ty && s.decl.Name.Name == f.Sel.Name {
						return s, c, f.X
					}
				}
			}
		}
	}
	return nil, nil, nil
}

// the Coq application gen_f recv args
func (g *tj) callCode(sig *tjSig, c *ast.CallExpr, recv ast.Expr, env *tjEnv) (string, error) {
	parts := []string{sig.coqName}
	if sig.recv != nil {
		v, err := g.expr(recv, env)
		if err != nil {
			return "", err
		}
		parts = append(parts, v.code)
	}
	np := len(sig.params)
	if sig.variadic {
		np--
		if c.Ellipsis.IsValid() {
			return "", g.errf(c, "f(xs...) is not supported")
		}
		if len(c.Args) < np {
			return "", g.errf(c, "too few arguments")
		}
	} else if len(c.Args) != np {
		return "", g.errf(c, "wrong number of arguments")
	}
	for k := 0; k < np; k++ {
		v, err := g.expr(c.Args[k], env)
		if err != nil {
			return "", err
		}
		v, err = g.coerce(c.Args[k], v, sig.params[k].ty)
		if err != nil {
			return "", err
		}
		parts = append(parts, v.code)
	}
	if sig.variadic {
		el := tjStr
		if sig.params[np].ty != tjStrs {
			return "", g.errf(c, "unsupported variadic parameter")
		}
		var xs []string
		for _, a := range c.Args[np:] {
			v, err := g.expr(a, env)
			if err != nil {
				return "", err
			}
			if v.ty != el {
				return "", g.errf(a, "variadic argument of type %s", v.ty)
			}
			xs = append(xs, v.code)
		}
		parts = append(parts, "["+strings.Join(xs, "; ")+"]")
	}
	return strings.Join(parts, " "), nil
}

// after `.., err := call` whose value results are not modelled when the call fails: the next statement must test err and
// leave; the variables in `vals` are then only readable where err == nil
func (g *tj) guardAfter(n ast.Node, list []ast.Stmt, i int, errName string, vals []string, env *tjEnv) error {
	if len(vals) == 0 {
		return nil
	}
	if i+1 < len(list) {
		if is, ok := list[i+1].(*ast.IfStmt); ok && is.Init == nil && is.Else == nil && g.terminates(is.Body.List) {
			switch g.print(is.Cond) {
			case errName + " != nil":
				// the body runs with err != nil: the values are not modelled there, and it always leaves
				if m := mentioned(is.Body.List); true {
					for _, v := range vals {
						if m[v] {
							return g.errf(is, "%s is read although the call that sets it has failed", v)
						}
					}
				}
				return nil
			case errName + " == nil":
				// afterwards err != nil: the values are not modelled any more
				g.pendingGone[is] = append(g.pendingGone[is], vals...)
				return nil
			}
		}
	}
	return g.errf(n, "the error of this call must be tested at once (if %s != nil { return .. })", errName)
}

// assign translates an assignment; tail = the statement and everything after it was translated as one mapped unit
func (g *tj) assign(s *ast.AssignStmt, list []ast.Stmt, i int, env *tjEnv, c *tjCtx) (string, bool, error) {
	var b strings.Builder
	define := s.Tok == token.DEFINE
	if s.Tok != token.DEFINE && s.Tok != token.ASSIGN {
		return "", false, g.errf(s, "unsupported assignment operator %s", s.Tok)
	}
	// bind declares / assigns the plain variable `lhs` with a value of type ty; returns the Coq name to bind
	bind := func(lhs ast.Expr, ty string) (string, error) {
		id, ok := lhs.(*ast.Ident)
		if !ok {
			return "", g.errf(lhs, "unsupported assignment target %s", g.print(lhs))
		}
		if id.Name == "_" {
			return "_", nil
		}
		if define && !env.inCurrent(id.Name) {
			env.declare(id.Name, ty)
			return "v_" + id.Name, nil
		}
		t, _, ok := env.lookup(id.Name)
		if !ok {
			return "", g.errf(lhs, "assignment to undeclared %s", id.Name)
		}
		if t != ty {
			return "", g.errf(lhs, "assignment of %s to %s of type %s", ty, id.Name, t)
		}
		delete(env.gone, id.Name)
		return "v_" + id.Name, nil
	}
	if define {
		fresh := false
		for _, l := range s.Lhs {
			if id, ok := l.(*ast.Ident); ok && id.Name != "_" && !env.inCurrent(id.Name) {
				fresh = true
			}
		}
		if !fresh {
			return "", false, g.errf(s, "no new variables on left side of :=")
		}
	}

	if len(s.Rhs) != 1 {
		return "", false, g.errf(s, "unsupported assignment %s", g.print(s))
	}
	rhs := s.Rhs[0]

	// ---- two values on the left
	if len(s.Lhs) == 2 {
		// v, ok := x.(T)
		if ta, ok := rhs.(*ast.TypeAssertExpr); ok && ta.Type != nil {
			x, err := g.expr(ta.X, env)
			if err != nil {
				return "", false, err
			}
			if x.ty != tjJSON {
				return "", false, g.errf(ta, "type assertion on %s", x.ty)
			}
			var fn, ty string
			switch g.print(ta.Type) {
			case "float64":
				fn, ty = "as_float64", tjF64
			case "string":
				fn, ty = "as_string", tjStr
			case "map[string]interface{}":
				fn, ty = "as_object", tjObj
			case "[]interface{}":
				fn, ty = "as_array", tjArr
			default:
				return "", false, g.errf(ta, "unsupported type assertion to %s", g.print(ta.Type))
			}
			g.flush(&b)
			code, err := g.bind2(s, s.Lhs[0], ty, s.Lhs[1], tjBool, fmt.Sprintf("%s %s", fn, x.code), false, env, bind)
			if err != nil {
				return "", false, err
			}
			b.WriteString(code)
			return b.String(), false, nil
		}
		// v, ok := m[k]
		if ix, ok := rhs.(*ast.IndexExpr); ok {
			m, err := g.expr(ix.X, env)
			if err != nil {
				return "", false, err
			}
			k, err := g.expr(ix.Index, env)
			if err != nil {
				return "", false, err
			}
			if m.ty == tjSpec {
				// only the leftover members the model keeps
				ks, known := g.print(ix.Index), false
				for _, k := range g.specialKeys {
					known = known || k == ks
				}
				if !known {
					return "", false, g.errf(ix, "the leftover member %s is not modelled", ks)
				}
			} else if m.ty != tjObj || k.ty != tjStr {
				return "", false, g.errf(ix, "unsupported comma-ok index on %s", m.ty)
			}
			g.flush(&b)
			code, err := g.bind2(s, s.Lhs[0], tjJSON, s.Lhs[1], tjBool, fmt.Sprintf("obj_get %s %s", m.code, k.code), false, env, bind)
			if err != nil {
				return "", false, err
			}
			b.WriteString(code)
			return b.String(), false, nil
		}
		call, ok := rhs.(*ast.CallExpr)
		if !ok {
			return "", false, g.errf(s, "unsupported assignment %s", g.print(s))
		}
		// the mapped tail of TileMatrix.UnmarshalJSONFromMap
		if g.pkgCall(call.Fun, "marshmallow", "UnmarshalFromJSONMap") {
			if code, ok, err := g.tmTail(s, list, i, env, c); ok || err != nil {
				return code, true, err
			}
			// _, err := marshmallow.UnmarshalFromJSONMap(m, &wkt), wkt a ProjJSON
			if len(call.Args) == 2 && g.print(s.Lhs[0]) == "_" {
				if u, ok := call.Args[1].(*ast.UnaryExpr); ok && u.Op == token.AND {
					if id, ok := u.X.(*ast.Ident); ok {
						if t, _, ok := env.lookup(id.Name); ok && t == tjProj && !env.gone[id.Name] {
							if err := g.expectShape("ProjJSON", "ID ProjJSONID `validate:\"required\" json:\"id\"`"); err != nil {
								return "", false, err
							}
							if err := g.expectShape("ProjJSONID", "AuthorityName string `validate:\"required\" json:\"authority\"`; AuthorityCode string `validate:\"required\" json:\"code\"`"); err != nil {
								return "", false, err
							}
							m, err := g.expr(call.Args[0], env)
							if err != nil {
								return "", false, err
							}
							if m.ty != tjObj {
								return "", false, g.errf(call, "marshmallow.UnmarshalFromJSONMap of %s", m.ty)
							}
							g.mapped["projjson"] = true
							g.flush(&b)
							en, err := bind(s.Lhs[1], tjErr)
							if err != nil {
								return "", false, err
							}
							fmt.Fprintf(&b, "do (v_%s, %s) <- split_err v_%s (marshmallow_projjson %s);\n", id.Name, en, id.Name, m.code)
							if err := g.guardAfter(s, list, i, g.print(s.Lhs[1]), []string{id.Name}, env); err != nil {
								return "", false, err
							}
							return b.String(), false, nil
						}
					}
				}
			}
			return "", false, g.errf(call, "unsupported use of marshmallow.UnmarshalFromJSONMap")
		}
		// specials, err := marshmallow.Unmarshal(data, <receiver>, marshmallow.WithExcludeKnownFieldsFromMap(true))
		if g.pkgCall(call.Fun, "marshmallow", "Unmarshal") {
			var sm *tjStream
			sname := ""
			if g.cur.recv != nil && strings.HasPrefix(g.cur.recv.ty, "struct:") {
				sname = g.cur.recv.ty[7:]
				sm = tjStreams[sname]
			}
			if sm == nil || !define || c.loop ||
				len(call.Args) != 3 || g.print(call.Args[1]) != g.cur.recv.name ||
				g.print(call.Args[2]) != "marshmallow.WithExcludeKnownFieldsFromMap(true)" {
				return "", false, g.errf(call, "unsupported use of marshmallow.Unmarshal")
			}
			d, err := g.expr(call.Args[0], env)
			if err != nil {
				return "", false, err
			}
			if d.ty != tjBytes {
				return "", false, g.errf(call, "marshmallow.Unmarshal of %s", d.ty)
			}
			if !g.populators[sname] {
				return "", false, g.errf(call, "no population was generated for %s", sname)
			}
			recv := g.cur.recv.name
			if env.gone[recv] {
				return "", false, g.errf(call, "the value of the receiver is not modelled here")
			}
			g.mapped["marshmallow.Unmarshal"] = true
			t := g.fresh("t")
			sn, err := bind(s.Lhs[0], tjSpec)
			if err != nil {
				return "", false, err
			}
			en, err := bind(s.Lhs[1], tjErr)
			if err != nil {
				return "", false, err
			}
			fmt.Fprintf(&b, "do (%s, %s) <- split_err %s (%s %s);\n", t, en, sm.empty, sm.unmarshal, d.code)
			fmt.Fprintf(&b, "let v_%s := gen_%s_populated v_%s %s in\n", recv, sname, recv, t)
			fmt.Fprintf(&b, "let %s := %s %s in\n", sn, sm.specials, t)
			g.specialKeys = sm.keys
			if err := g.guardAfter(s, list, i, g.print(s.Lhs[1]), append(identNames(s.Lhs[:1]), recv), env); err != nil {
				return "", false, err
			}
			return b.String(), false, nil
		}
		// n, err := strconv.ParseInt(s, 10, 64)
		if g.pkgCall(call.Fun, "strconv", "ParseInt") {
			if len(call.Args) != 3 || g.print(call.Args[1]) != "10" || g.print(call.Args[2]) != "64" {
				return "", false, g.errf(call, "only strconv.ParseInt(s, 10, 64) is supported")
			}
			a, err := g.expr(call.Args[0], env)
			if err != nil {
				return "", false, err
			}
			if a.ty != tjStr {
				return "", false, g.errf(call, "strconv.ParseInt of %s", a.ty)
			}
			g.mapped["strconv.ParseInt"] = true
			g.flush(&b)
			code, err := g.bind2(s, s.Lhs[0], tjInt, s.Lhs[1], tjErr, fmt.Sprintf("split_err 0 (parse_int_res %s)", a.code), true, env, bind)
			if err != nil {
				return "", false, err
			}
			b.WriteString(code)
			if err := g.guardAfter(s, list, i, g.print(s.Lhs[1]), identNames(s.Lhs[:1]), env); err != nil {
				return "", false, err
			}
			return b.String(), false, nil
		}
		// v, err := f(..) of a translated function with one value result
		if sig, cx, recv := g.translatedCall(rhs, env); sig != nil && sig.hasErr && !sig.mutRecv && len(sig.results) == 1 {
			app, err := g.callCode(sig, cx, recv, env)
			if err != nil {
				return "", false, err
			}
			z, err := g.zero(s, sig.results[0])
			if err != nil {
				return "", false, err
			}
			g.flush(&b)
			code, err := g.bind2(s, s.Lhs[0], sig.results[0], s.Lhs[1], tjErr, fmt.Sprintf("split_err %s (%s)", z, app), true, env, bind)
			if err != nil {
				return "", false, err
			}
			b.WriteString(code)
			if err := g.guardAfter(s, list, i, g.print(s.Lhs[1]), lhsRoots(s.Lhs[:1]), env); err != nil {
				return "", false, err
			}
			return b.String(), false, nil
		}
		return "", false, g.errf(s, "unsupported assignment %s", g.print(s))
	}

	if len(s.Lhs) != 1 {
		return "", false, g.errf(s, "unsupported assignment %s", g.print(s))
	}
	lhs := s.Lhs[0]

	// ---- validate := validator.New(validator.WithRequiredStructEnabled())
	if call, ok := rhs.(*ast.CallExpr); ok && g.pkgCall(call.Fun, "validator", "New") {
		if g.print(call) != "validator.New(validator.WithRequiredStructEnabled())" || !define {
			return "", false, g.errf(call, "only validate := validator.New(validator.WithRequiredStructEnabled()) is supported")
		}
		if _, err := bind(lhs, tjValid); err != nil {
			return "", false, err
		}
		return "", false, nil
	}

	// ---- x.f = e
	if sel, ok := lhs.(*ast.SelectorExpr); ok && !define {
		v, err := g.expr(rhs, env)
		if err != nil {
			return "", false, err
		}
		g.flush(&b)
		post, err := g.setField(sel, v.code, v.ty, env)
		if err != nil {
			return "", false, err
		}
		b.WriteString(post)
		return b.String(), false, nil
	}

	// ---- err := defaults.Set(x)
	if call, ok := rhs.(*ast.CallExpr); ok && g.pkgCall(call.Fun, "defaults", "Set") {
		if len(call.Args) != 1 || g.cur.recv == nil || g.print(call.Args[0]) != g.cur.recv.name {
			return "", false, g.errf(call, "only defaults.Set(<receiver>) is supported")
		}
		if err := g.noDefaultTags(); err != nil {
			return "", false, err
		}
		g.mapped["defaults.Set"] = true
		n, err := bind(lhs, tjErr)
		if err != nil {
			return "", false, err
		}
		fmt.Fprintf(&b, "do %s <- err_of defaults_set_noop;\n", n)
		return b.String(), false, nil
	}

	// ---- err := f(..) / err := x.M(..) of a translated function returning only an error
	if sig, cx, recv := g.translatedCall(rhs, env); sig != nil {
		if !sig.hasErr || len(sig.results) != 0 {
			return "", false, g.errf(s, "unsupported call of %s here", sig.key)
		}
		app, err := g.callCode(sig, cx, recv, env)
		if err != nil {
			return "", false, err
		}
		g.flush(&b)
		if !sig.mutRecv {
			n, err := bind(lhs, tjErr)
			if err != nil {
				return "", false, err
			}
			fmt.Fprintf(&b, "do %s <- err_of (%s);\n", n, app)
			return b.String(), false, nil
		}
		rid, ok := recv.(*ast.Ident)
		if !ok {
			return "", false, g.errf(s, "the receiver of %s must be a variable", sig.key)
		}
		rt, _, _ := env.lookup(rid.Name)
		z, err := g.zero(s, rt)
		if err != nil {
			return "", false, err
		}
		n, err := bind(lhs, tjErr)
		if err != nil {
			return "", false, err
		}
		fmt.Fprintf(&b, "do (v_%s, %s) <- split_err %s (%s);\n", rid.Name, n, z, app)
		if err := g.guardAfter(s, list, i, g.print(lhs), []string{rid.Name}, env); err != nil {
			return "", false, err
		}
		return b.String(), false, nil
	}

	// ---- m[k] = v / p[i] = v
	if ix, ok := lhs.(*ast.IndexExpr); ok && !define {
		base, ok := ix.X.(*ast.Ident)
		if !ok {
			return "", false, g.errf(s, "unsupported assignment target %s", g.print(lhs))
		}
		bt, _, ok := env.lookup(base.Name)
		if !ok || env.gone[base.Name] {
			return "", false, g.errf(s, "unknown %s", base.Name)
		}
		k, err := g.expr(ix.Index, env)
		if err != nil {
			return "", false, err
		}
		k, err = g.coerce(ix, k, tjInt)
		if err != nil {
			return "", false, err
		}
		v, err := g.expr(rhs, env)
		if err != nil {
			return "", false, err
		}
		g.flush(&b)
		switch bt {
		case tjTMMap:
			if v.ty != tjTM {
				return "", false, g.errf(s, "map element of type %s", v.ty)
			}
			fmt.Fprintf(&b, "let v_%s := insert_tm %s %s v_%s in\n", base.Name, k.code, v.code, base.Name)
		case tjPoint:
			if v, err = g.coerce(s, v, tjF64); err != nil {
				return "", false, err
			}
			fmt.Fprintf(&b, "do v_%s <- arr2_set v_%s %s %s;\n", base.Name, base.Name, k.code, v.code)
		default:
			return "", false, g.errf(s, "unsupported index assignment on %s", bt)
		}
		return b.String(), false, nil
	}

	// ---- make(map[TMID]TileMatrix, n)
	if call, ok := rhs.(*ast.CallExpr); ok {
		if id, ok := call.Fun.(*ast.Ident); ok && id.Name == "make" && len(call.Args) >= 1 && g.print(call.Args[0]) == "map[TMID]TileMatrix" {
			for _, a := range call.Args[1:] {
				if !g.harmless(a) {
					return "", false, g.errf(call, "unsupported capacity")
				}
			}
			n, err := bind(lhs, tjTMMap)
			if err != nil {
				return "", false, err
			}
			fmt.Fprintf(&b, "let %s := (@nil (Z * tileMatrix)) in\n", n)
			return b.String(), false, nil
		}
	}

	// ---- x := e / x = e
	v, err := g.expr(rhs, env)
	if err != nil {
		return "", false, err
	}
	if v.ty == tjLit {
		v, _ = g.coerce(s, v, tjInt)
	}
	if v.ty == tjNil {
		return "", false, g.errf(s, "assignment of nil")
	}
	if !define {
		if id, ok := lhs.(*ast.Ident); ok {
			if t, _, ok := env.lookup(id.Name); ok {
				if v, err = g.coerce(s, v, t); err != nil {
					return "", false, err
				}
			}
		}
	}
	g.flush(&b)
	n, err := bind(lhs, v.ty)
	if err != nil {
		return "", false, err
	}
	fmt.Fprintf(&b, "let %s := %s in\n", n, v.code)
	return b.String(), false, nil
}

func identNames(l []ast.Expr) []string {
	var out []string
	for _, x := range l {
		if id, ok := x.(*ast.Ident); ok && id.Name != "_" {
			out = append(out, id.Name)
		}
	}
	return out
}

// the variables at the root of assignment targets (x for x, x.f, x[i])
func lhsRoots(l []ast.Expr) []string {
	var out []string
	for _, x := range l {
		for {
			switch y := x.(type) {
			case *ast.SelectorExpr:
				x = y.X
				continue
			case *ast.IndexExpr:
				x = y.X
				continue
			}
			break
		}
		if id, ok := x.(*ast.Ident); ok && id.Name != "_" {
			out = append(out, id.Name)
		}
	}
	return out
}

// let '(a, b) := e in   /   do (a, b) <- e;
func (g *tj) bind2(n ast.Node, l0 ast.Expr, t0 string, l1 ast.Expr, t1 string, e string, monadic bool, env *tjEnv,
	bind func(ast.Expr, string) (string, error)) (string, error) {
	// the second target first: `x.f, ok = ..` assigns a field of x
	a, post, err := g.bindTarget(l0, t0, env, bind)
	if err != nil {
		return "", err
	}
	bn, err := bind(l1, t1)
	if err != nil {
		return "", err
	}
	if monadic {
		return fmt.Sprintf("do (%s, %s) <- %s;\n%s", a, bn, e, post), nil
	}
	return fmt.Sprintf("let '(%s, %s) := %s in\n%s", a, bn, e, post), nil
}

// a target that is a plain variable, or a field of a struct variable (then the value is bound to a temporary and the
// record is rebuilt in `post`)
func (g *tj) bindTarget(l ast.Expr, ty string, env *tjEnv, bind func(ast.Expr, string) (string, error)) (string, string, error) {
	if sel, ok := l.(*ast.SelectorExpr); ok {
		t := g.fresh("t")
		post, err := g.setField(sel, t, ty, env)
		return t, post, err
	}
	n, err := bind(l, ty)
	return n, "", err
}

// x.f = v for a struct variable x of a regenerated Record type
func (g *tj) setField(sel *ast.SelectorExpr, v, ty string, env *tjEnv) (string, error) {
	id, ok := sel.X.(*ast.Ident)
	if !ok {
		return "", g.errf(sel, "unsupported assignment target %s", g.print(sel))
	}
	bt, _, ok := env.lookup(id.Name)
	if !ok || env.gone[id.Name] || !strings.HasPrefix(bt, "struct:") {
		return "", g.errf(sel, "unsupported assignment target %s", g.print(sel))
	}
	st := g.structs[bt[7:]]
	for _, f := range st.fields {
		if f.name == sel.Sel.Name {
			if f.ty != ty {
				return "", g.errf(sel, "assignment of %s to field %s of type %s", ty, f.name, f.ty)
			}
			return fmt.Sprintf("let v_%s := gen_%s_set_%s v_%s %s in\n", id.Name, st.name, f.name, id.Name, v), nil
		}
	}
	return "", g.errf(sel, "unknown field %s", g.print(sel))
}

// no struct tag of tms20.go asks creasty/defaults for anything
func (g *tj) noDefaultTags() error {
	var bad error
	ast.Inspect(g.file, func(n ast.Node) bool {
		if f, ok := n.(*ast.Field); ok && f.Tag != nil {
			tag, _ := strconv.Unquote(f.Tag.Value)
			if _, has := reflect.StructTag(tag).Lookup("default"); has && bad == nil {
				bad = g.errf(f, "a `default:` struct tag: defaults.Set is not the identity any more")
			}
		}
		return true
	})
	return bad
}

// the tail of TileMatrix.UnmarshalJSONFromMap, mapped as one unit to marshmallow_then_validate_tm
func (g *tj) tmTail(s *ast.AssignStmt, list []ast.Stmt, i int, env *tjEnv, c *tjCtx) (string, bool, error) {
	if g.cur.key != "TileMatrix.UnmarshalJSONFromMap" || c.loop {
		return "", false, nil
	}
	recv := g.cur.recv.name
	call := s.Rhs[0].(*ast.CallExpr)
	if len(call.Args) < 1 {
		return "", false, g.errf(s, "marshmallow.UnmarshalFromJSONMap: arguments")
	}
	m, err := g.expr(call.Args[0], env)
	if err != nil {
		return "", false, err
	}
	if m.ty != tjObj {
		return "", false, g.errf(s, "marshmallow.UnmarshalFromJSONMap of %s", m.ty)
	}
	want := []string{
		fmt.Sprintf("_, err = marshmallow.UnmarshalFromJSONMap(%s, %s, marshmallow.WithExcludeKnownFieldsFromMap(true))", g.print(call.Args[0]), recv),
		"if err != nil {\n\treturn err\n}",
		"validate := validator.New(validator.WithRequiredStructEnabled())",
		fmt.Sprintf("return validate.Struct(%s)", recv),
	}
	if len(list)-i != len(want) {
		return "", false, g.errf(s, "the end of %s is not the expected population + validation (number of statements)", g.cur.key)
	}
	for k, w := range want {
		if got := g.print(list[i+k]); got != w {
			return "", false, g.errf(list[i+k], "the end of %s is not the expected population + validation: got %q, expected %q", g.cur.key, got, w)
		}
	}
	if t, _, ok := env.lookup("err"); !ok || t != tjErr {
		return "", false, g.errf(s, "err is not an error variable")
	}
	// the struct tags that decodeTM_fields transcribes
	if err := g.expectShape("TileMatrix", tjTMShape); err != nil {
		return "", false, err
	}
	if err := g.expectShape("VariableMatrixWidth", tjVmwShape); err != nil {
		return "", false, err
	}
	if env.gone[recv] {
		return "", false, g.errf(s, "the value of the receiver is not modelled here")
	}
	g.mapped["tmTail"] = true
	return fmt.Sprintf("marshmallow_then_validate_tm v_%s %s", recv, m.code), true, nil
}

// var l []*TileMatrix; for k := range m { v := m[k]; l = append(l, &v) }; sort.Slice(l, func(i, j int) bool { .. })
// -> let l := sort_slice gen_f_lessN (tmmap_values m) in          (n = the number of statements consumed, 0 = no match)
func (g *tj) sortedValues(list []ast.Stmt, i int, env *tjEnv) (string, int, error) {
	if i+2 >= len(list) || g.print(list[i]) == "" {
		return "", 0, nil
	}
	d := g.print(list[i])
	if !strings.HasPrefix(d, "var ") || !strings.HasSuffix(d, " []*TileMatrix") {
		return "", 0, nil
	}
	l := strings.TrimSuffix(strings.TrimPrefix(d, "var "), " []*TileMatrix")
	rs, ok := list[i+1].(*ast.RangeStmt)
	if !ok {
		return "", 0, g.errf(list[i], "a []*TileMatrix is only supported as the sorted values of a map")
	}
	k, ok := rs.Key.(*ast.Ident)
	if !ok || rs.Value != nil || len(rs.Body.List) != 2 {
		return "", 0, g.errf(rs, "unsupported collection of the values of a map")
	}
	as, ok := rs.Body.List[0].(*ast.AssignStmt)
	if !ok || len(as.Lhs) != 1 {
		return "", 0, g.errf(rs, "unsupported collection of the values of a map")
	}
	v := g.print(as.Lhs[0])
	m := g.print(rs.X)
	want := fmt.Sprintf("for %s := range %s {\n\t%s := %s[%s]\n\t%s = append(%s, &%s)\n}", k.Name, m, v, m, k.Name, l, l, v)
	if got := g.print(rs); got != want {
		return "", 0, g.errf(rs, "unsupported collection of the values of a map: got %q, expected %q", got, want)
	}
	names := map[string]bool{l: true, k.Name: true, v: true}
	if len(names) != 3 || env.inCurrent(l) {
		return "", 0, g.errf(rs, "unsupported collection of the values of a map: names")
	}
	mv, err := g.expr(rs.X, env)
	if err != nil {
		return "", 0, err
	}
	if mv.ty != tjTMMap {
		return "", 0, g.errf(rs, "range over %s", mv.ty)
	}
	es, ok := list[i+2].(*ast.ExprStmt)
	if !ok {
		return "", 0, g.errf(list[i+2], "the values of a map must be sorted at once (sort.Slice)")
	}
	call, ok := es.X.(*ast.CallExpr)
	if !ok || !g.pkgCall(call.Fun, "sort", "Slice") || len(call.Args) != 2 || g.print(call.Args[0]) != l {
		return "", 0, g.errf(es, "the values of a map must be sorted at once (sort.Slice(%s, ..))", l)
	}
	fl, ok := call.Args[1].(*ast.FuncLit)
	if !ok {
		return "", 0, g.errf(es, "sort.Slice: the comparison must be a function literal")
	}
	less, err := g.lessClosure(fl, l)
	if err != nil {
		return "", 0, err
	}
	g.mapped["sort.Slice"] = true
	env.declare(l, tjTMPtrs)
	return fmt.Sprintf("let v_%s := sort_slice %s (tmmap_values %s) in\n", l, less, mv.code), 3, nil
}

// func(i, j int) bool { x, _ := strconv.ParseInt(S[i].F, 10, 64); ..; return e }: a comparison of the two elements
func (g *tj) lessClosure(fl *ast.FuncLit, slice string) (string, error) {
	if g.print(fl.Type) != "func(i, j int) bool" {
		ps := fl.Type.Params.List
		if len(ps) != 1 || len(ps[0].Names) != 2 || g.print(ps[0].Type) != "int" || fl.Type.Results == nil ||
			len(fl.Type.Results.List) != 1 || g.print(fl.Type.Results.List[0].Type) != "bool" {
			return "", g.errf(fl, "sort.Slice: unsupported comparison %s", g.print(fl.Type))
		}
	}
	pi := fl.Type.Params.List[0].Names[0].Name
	pj := fl.Type.Params.List[0].Names[1].Name
	if pi == pj || pi == slice || pj == slice {
		return "", g.errf(fl, "sort.Slice: parameter names")
	}
	env := newTjEnv()
	// S[i] and S[j] are the two elements; S, i, j must not occur in any other way
	elem := func(x ast.Expr) (string, bool) {
		ix, ok := x.(*ast.IndexExpr)
		if !ok || g.print(ix.X) != slice {
			return "", false
		}
		switch g.print(ix.Index) {
		case pi:
			return "e_" + pi, true
		case pj:
			return "e_" + pj, true
		}
		return "", false
	}
	field := func(x ast.Expr) (tjVal, error) {
		sel, ok := x.(*ast.SelectorExpr)
		if !ok {
			return tjVal{}, g.errf(x, "sort.Slice: unsupported expression %s", g.print(x))
		}
		e, ok := elem(sel.X)
		if !ok {
			return tjVal{}, g.errf(x, "sort.Slice: the comparison may only read %s[%s] and %s[%s]", slice, pi, slice, pj)
		}
		f, ok := tjTMFields[sel.Sel.Name]
		if !ok {
			return tjVal{}, g.errf(x, "unsupported field TileMatrix.%s", sel.Sel.Name)
		}
		if err := g.checkField("TileMatrix", sel.Sel.Name, f.goTy); err != nil {
			return tjVal{}, err
		}
		return tjVal{code: fmt.Sprintf("(%s %s)", f.proj, e), ty: f.ty}, nil
	}
	var b strings.Builder
	body := fl.Body.List
	if len(body) == 0 {
		return "", g.errf(fl, "sort.Slice: empty comparison")
	}
	for _, st := range body[:len(body)-1] {
		as, ok := st.(*ast.AssignStmt)
		if !ok || as.Tok != token.DEFINE || len(as.Lhs) != 2 || len(as.Rhs) != 1 || g.print(as.Lhs[1]) != "_" {
			return "", g.errf(st, "sort.Slice: unsupported statement %s", g.print(st))
		}
		id, ok := as.Lhs[0].(*ast.Ident)
		call, ok2 := as.Rhs[0].(*ast.CallExpr)
		if !ok || !ok2 || !g.pkgCall(call.Fun, "strconv", "ParseInt") || len(call.Args) != 3 ||
			g.print(call.Args[1]) != "10" || g.print(call.Args[2]) != "64" {
			return "", g.errf(st, "sort.Slice: unsupported statement %s", g.print(st))
		}
		if id.Name == slice || id.Name == pi || id.Name == pj || env.inCurrent(id.Name) {
			return "", g.errf(st, "sort.Slice: %s redeclared", id.Name)
		}
		a, err := field(call.Args[0])
		if err != nil {
			return "", err
		}
		if a.ty != tjStr {
			return "", g.errf(st, "strconv.ParseInt of %s", a.ty)
		}
		env.declare(id.Name, tjInt)
		fmt.Fprintf(&b, "let v_%s := parse_int_or0 %s in\n", id.Name, a.code)
	}
	rs, ok := body[len(body)-1].(*ast.ReturnStmt)
	if !ok || len(rs.Results) != 1 {
		return "", g.errf(fl, "sort.Slice: the comparison must end in a return")
	}
	bad := false
	ast.Inspect(rs, func(n ast.Node) bool {
		if id, ok := n.(*ast.Ident); ok && (id.Name == slice || id.Name == pi || id.Name == pj) {
			bad = true
		}
		return true
	})
	if bad {
		return "", g.errf(rs, "sort.Slice: unsupported result %s", g.print(rs))
	}
	np := len(g.pre)
	v, err := g.expr(rs.Results[0], env)
	if err != nil {
		return "", err
	}
	if v.ty != tjBool || len(g.pre) != np {
		return "", g.errf(rs, "sort.Slice: unsupported result %s", g.print(rs))
	}
	g.mapped["ParseInt.or0"] = true
	g.loopN++
	name := fmt.Sprintf("%s_less%d", g.cur.coqName, g.loopN)
	g.defs = append(g.defs, fmt.Sprintf("(* the comparison handed to sort.Slice(%s, ..), as a function of the elements %s[%s] and %s[%s] *)\nDefinition %s (e_%s e_%s : tileMatrix) : bool :=\n%s%s.\n",
		slice, slice, pi, slice, pj, name, pi, pj, b.String(), v.code))
	return name, nil
}

// ---- struct types regenerated as Records; the interface CRS ----------------------

func (g *tj) addStruct(name string) error {
	st := g.structDecl(name)
	if st == nil {
		return fmt.Errorf("tms20.go: struct %s not found", name)
	}
	rec := &tjStruct{name: name}
	for _, f := range st.Fields.List {
		if len(f.Names) == 0 {
			return g.errf(f, "struct %s: embedded fields are not supported", name)
		}
		ty, ok := tjFieldTy[g.print(f.Type)]
		if !ok {
			return g.errf(f, "struct %s: unsupported field type %s", name, g.print(f.Type))
		}
		tag := ""
		if f.Tag != nil {
			tag, _ = strconv.Unquote(f.Tag.Value)
		}
		for _, n := range f.Names {
			rec.fields = append(rec.fields, tjStructField{name: n.Name, goTy: g.print(f.Type), ty: ty, tag: tag})
		}
	}
	g.structs[name] = rec
	g.structOrder = append(g.structOrder, name)
	g.types["struct:"+name] = tjTyInfo{"gen_" + name, "gen_" + name + "_zero"}
	return nil
}

func (g *tj) emitStruct(st *tjStruct) (string, error) {
	var b strings.Builder
	fmt.Fprintf(&b, "(* tms20/tms20.go: type %s struct *)\nRecord gen_%s := Mk_gen_%s {", st.name, st.name, st.name)
	for k, f := range st.fields {
		sep := ";"
		if k == len(st.fields)-1 {
			sep = ""
		}
		fmt.Fprintf(&b, "\n  gen_%s_%s : %s%s", st.name, f.name, g.coqTy(f.ty), sep)
	}
	b.WriteString("\n}.\n")
	fmt.Fprintf(&b, "Definition gen_%s_zero : gen_%s := Mk_gen_%s", st.name, st.name, st.name)
	for _, f := range st.fields {
		z, err := g.zero(g.file, f.ty)
		if err != nil {
			return "", err
		}
		b.WriteString(" " + z)
	}
	b.WriteString(".\n")
	for k, f := range st.fields {
		fmt.Fprintf(&b, "Definition gen_%s_set_%s (r : gen_%s) (x : %s) : gen_%s := Mk_gen_%s", st.name, f.name, st.name, g.coqTy(f.ty), st.name, st.name)
		for j, h := range st.fields {
			if j == k {
				b.WriteString(" x")
			} else {
				fmt.Fprintf(&b, " (gen_%s_%s r)", st.name, h.name)
			}
		}
		b.WriteString(".\n")
	}
	return b.String(), nil
}

// the struct types that have (pointer receiver) methods for every method of interface `name`
func (g *tj) addIface(name string) error {
	var methods []string
	for _, d := range g.file.Decls {
		gd, ok := d.(*ast.GenDecl)
		if !ok || gd.Tok != token.TYPE {
			continue
		}
		for _, s := range gd.Specs {
			ts := s.(*ast.TypeSpec)
			if it, ok := ts.Type.(*ast.InterfaceType); ok && ts.Name.Name == name {
				for _, m := range it.Methods.List {
					if len(m.Names) != 1 {
						return g.errf(m, "interface %s: embedded interfaces are not supported", name)
					}
					methods = append(methods, m.Names[0].Name)
				}
			}
		}
	}
	if len(methods) == 0 {
		return fmt.Errorf("tms20.go: interface %s not found", name)
	}
	for _, sn := range g.structOrder {
		all := true
		for _, m := range methods {
			if g.findFunc(sn, m) == nil {
				all = false
			}
		}
		if all {
			g.impls = append(g.impls, sn)
		}
	}
	if len(g.impls) == 0 {
		return fmt.Errorf("tms20.go: no struct implements %s", name)
	}
	g.types[tjCRS] = tjTyInfo{"gen_CRS", "gen_CRS_nil"}
	return nil
}

func (g *tj) emitIface() string {
	var b strings.Builder
	b.WriteString("(* tms20/tms20.go: type CRS interface: nil, or a pointer to one of the struct types that have its methods *)\nInductive gen_CRS :=\n| gen_CRS_nil")
	for _, n := range g.impls {
		fmt.Fprintf(&b, "\n| gen_CRS_%s (x : gen_%s)", n, n)
	}
	b.WriteString(".\nDefinition gen_CRS_is_nil (c : gen_CRS) : bool := match c with gen_CRS_nil => true | _ => false end.\n")
	return b.String()
}

// ---- what the libraries do with the struct tags of TileMatrixSet -------------------

// json key of a TileMatrixSet field -> (Go type of the field, accessor of the model's topacc holding the member as
// marshmallow populated it)
var tjTopMembers = map[string]struct{ goTy, acc string }{
	"id": {"string", "ta_id"}, "title": {"string", "ta_title"}, "description": {"string", "ta_desc"},
	"keywords": {"[]string", "ta_kw"}, "uri": {"string", "ta_uri"}, "orderedAxes": {"[]string", "ta_axes"},
	"wellKnownScaleSet": {"string", "ta_wkss"}, "boundingBox": {"*TwoDBoundingBox", "ta_bbox"},
}

// the same for TwoDBoundingBox and the model's bbacc
var tjBBMembers = map[string]struct{ goTy, acc string }{
	"lowerLeft": {"*TwoDPoint", "ba_ll"}, "upperRight": {"*TwoDPoint", "ba_ur"}, "orderedAxes": {"[]string", "ba_axes"},
}

// the struct types populated by marshmallow.Unmarshal from a text: the model's accumulator and step function
type tjStream struct {
	members                           map[string]struct{ goTy, acc string }
	accTy, empty, unmarshal, specials string
	keys                              []string // the leftover members the model keeps
}

var tjStreams = map[string]*tjStream{
	"TileMatrixSet":   {tjTopMembers, "topacc", "top_empty", "marshmallow_unmarshal_top", "top_specials", []string{`"crs"`, `"tileMatrices"`}},
	"TwoDBoundingBox": {tjBBMembers, "bbacc", "bb_empty", "marshmallow_unmarshal_bbox", "bb_specials", []string{`"crs"`}},
}

const tjTMShape = "ID string `validate:\"required\" json:\"id\"`; Title string `json:\"title,omitempty\"`; Description string `json:\"description,omitempty\"`; Keywords []string `json:\"keywords,omitempty\"`; ScaleDenominator float64 `validate:\"required,gt=0\" json:\"scaleDenominator\"`; CellSize float64 `validate:\"required,gt=0\" json:\"cellSize\"`; CornerOfOrigin CornerOfOrigin `validate:\"omitempty,oneof=topLeft bottomLeft\" json:\"cornerOfOrigin,omitempty\"`; PointOfOrigin *TwoDPoint `validate:\"required\" json:\"pointOfOrigin\"`; TileWidth uint `validate:\"required,min=1\" json:\"tileWidth\"`; TileHeight uint `validate:\"required,min=1\" json:\"tileHeight\"`; MatrixWidth uint `validate:\"required,min=1\" json:\"matrixWidth\"`; MatrixHeight uint `validate:\"required,min=1\" json:\"matrixHeight\"`; VariableMatrixWidths []VariableMatrixWidth `json:\"variableMatrixWidths,omitempty\"`"

const tjVmwShape = "Coalesce uint `validate:\"required,min=2\" json:\"coalesce\"`; MinTileRow uint `validate:\"required,min=0\" json:\"minTileRow\"`; MaxTileRow uint `validate:\"required,min=0\" json:\"maxTileRow\"`"

const tjBBoxShape = "LowerLeft *TwoDPoint `validate:\"required\" json:\"lowerLeft\"`; UpperRight *TwoDPoint `validate:\"required\" json:\"upperRight\"`; " +
	"CRS CRS `json:\"-\"`; OrderedAxes []string `validate:\"omitempty,len=2\" json:\"orderedAxes,omitempty\"`"

// gen_TileMatrixSet_populated: the fields by their json tags from the members marshmallow read; `json:"-"` fields untouched
func (g *tj) emitPopulated(st *tjStruct) (string, error) {
	sm := tjStreams[st.name]
	if sm == nil {
		return "", fmt.Errorf("no model of the population of %s", st.name)
	}
	var b strings.Builder
	used := map[string]bool{}
	fmt.Fprintf(&b, "(* marshmallow.Unmarshal(data, x, ..): the fields of %s by their `json:` tags from the members read (%s of Tms/Model.v);\n   a field tagged `json:\"-\"` is left as it was *)\n", st.name, sm.accTy)
	fmt.Fprintf(&b, "Definition gen_%s_populated (r : gen_%s) (a : %s) : gen_%s :=\n  Mk_gen_%s", st.name, st.name, sm.accTy, st.name, st.name)
	for _, f := range st.fields {
		jt, ok := reflect.StructTag(f.tag).Lookup("json")
		if !ok {
			return "", fmt.Errorf("tms20.go: field %s.%s has no json tag", st.name, f.name)
		}
		key := strings.Split(jt, ",")[0]
		if key == "-" {
			fmt.Fprintf(&b, " (gen_%s_%s r)", st.name, f.name)
			continue
		}
		m, ok := sm.members[key]
		if !ok || used[key] {
			return "", fmt.Errorf("tms20.go: field %s.%s: the model has no member %q of such a document", st.name, f.name, key)
		}
		if m.goTy != f.goTy {
			return "", fmt.Errorf("tms20.go: field %s.%s has type %s, the model reads member %q as %s", st.name, f.name, f.goTy, key, m.goTy)
		}
		used[key] = true
		fmt.Fprintf(&b, " (%s a)", m.acc)
	}
	b.WriteString(".\n")
	for k := range sm.members {
		if !used[k] {
			return "", fmt.Errorf("tms20.go: no field of %s is tagged json:%q, which the model reads", st.name, k)
		}
	}
	g.populators[st.name] = true
	return b.String(), nil
}

// gen_TileMatrixSet_validate: one conjunct per `validate:` tag, in field order
func (g *tj) emitValidate(st *tjStruct) (string, error) {
	var conj []string
	for _, f := range st.fields {
		acc := fmt.Sprintf("(gen_%s_%s r)", st.name, f.name)
		vt, has := reflect.StructTag(f.tag).Lookup("validate")
		if !ast.IsExported(f.name) {
			continue
		}
		if !has {
			if f.ty == tjOBBox {
				if err := g.expectShape("TwoDBoundingBox", tjBBoxShape); err != nil {
					return "", err
				}
				conj = append(conj, "vtag_struct_bbox "+acc)
			}
			continue
		}
		opts := strings.Split(vt, ",")
		arg := func(o, name string) (string, bool) {
			if strings.HasPrefix(o, name+"=") {
				if _, err := strconv.ParseUint(o[len(name)+1:], 10, 32); err == nil {
					return o[len(name)+1:], true
				}
			}
			return "", false
		}
		switch {
		case f.ty == tjStr && vt == "omitempty,uri":
			conj = append(conj, "vtag_omitempty_uri "+acc)
		case f.ty == tjOStrs && len(opts) == 2 && opts[0] == "omitnil":
			n, ok := arg(opts[1], "min")
			if !ok {
				return "", fmt.Errorf("tms20.go: field %s.%s: unsupported validate tag %q", st.name, f.name, vt)
			}
			conj = append(conj, fmt.Sprintf("vtag_omitnil_min_strs %s %s", n, acc))
		case f.ty == tjOPoint && vt == "required":
			conj = append(conj, "vtag_required_ptr "+acc)
		case f.ty == tjOStrs && len(opts) == 2 && opts[0] == "omitempty":
			n, ok := arg(opts[1], "len")
			if !ok {
				return "", fmt.Errorf("tms20.go: field %s.%s: unsupported validate tag %q", st.name, f.name, vt)
			}
			conj = append(conj, fmt.Sprintf("vtag_omitempty_len_strs %s %s", n, acc))
		case f.ty == tjCRS && vt == "required":
			conj = append(conj, fmt.Sprintf("vtag_required_iface (gen_CRS_is_nil %s)", acc))
		case f.ty == tjTMMap && len(opts) == 2 && opts[0] == "required":
			n, ok := arg(opts[1], "min")
			if !ok {
				return "", fmt.Errorf("tms20.go: field %s.%s: unsupported validate tag %q", st.name, f.name, vt)
			}
			conj = append(conj, fmt.Sprintf("vtag_required_min_tmmap %s %s", n, acc))
		default:
			return "", fmt.Errorf("tms20.go: field %s.%s: unsupported validate tag %q on %s", st.name, f.name, vt, f.goTy)
		}
	}
	if len(conj) == 0 {
		conj = []string{"true"}
	}
	g.validators[st.name] = true
	return fmt.Sprintf("(* validate.Struct(x): the `validate:` tags of %s in field order, one conjunct per tag (vtag_* of Tms/GoJson.v) *)\nDefinition gen_%s_validate (r : gen_%s) : bool :=\n  %s.\n",
		st.name, st.name, st.name, strings.Join(conj, "\n  && ")), nil
}

// ---- functions -------------------------------------------------------------

func (g *tj) findFunc(recvType, name string) *ast.FuncDecl {
	for _, d := range g.file.Decls {
		fd, ok := d.(*ast.FuncDecl)
		if !ok || fd.Name.Name != name {
			continue
		}
		if recvType == "" {
			if fd.Recv == nil {
				return fd
			}
			continue
		}
		if fd.Recv != nil && len(fd.Recv.List) == 1 && g.print(fd.Recv.List[0].Type) == "*"+recvType {
			return fd
		}
	}
	return nil
}

// does the body assign through the receiver (p[i] = .., p.f = .., or hand it to a library)?
func (g *tj) assignsThroughRecv(fd *ast.FuncDecl, recv string) bool {
	found := false
	ast.Inspect(fd.Body, func(n ast.Node) bool {
		switch s := n.(type) {
		case *ast.AssignStmt:
			for _, r := range lhsRoots(s.Lhs) {
				if r == recv {
					for _, l := range s.Lhs {
						if _, plain := l.(*ast.Ident); !plain {
							found = true
						}
					}
				}
			}
		case *ast.CallExpr:
			for _, a := range s.Args {
				if id, ok := a.(*ast.Ident); ok && id.Name == recv {
					found = true
				}
			}
		}
		return true
	})
	return found
}

func (g *tj) addSig(recvType, name string) error {
	fd := g.findFunc(recvType, name)
	key := name
	coq := "gen_" + name
	if recvType != "" {
		key = recvType + "." + name
		coq = "gen_" + recvType + "_" + name
	}
	if fd == nil || fd.Body == nil {
		return fmt.Errorf("tms20.go: func %s not found", key)
	}
	sig := &tjSig{key: key, coqName: coq, decl: fd}
	if recvType != "" {
		r := fd.Recv.List[0]
		if len(r.Names) != 1 {
			return g.errf(fd, "%s: receiver without a name", key)
		}
		ty, err := g.goTy(r.Type)
		if err != nil {
			return err
		}
		sig.recv = &tjParam{r.Names[0].Name, ty}
		sig.mutRecv = g.assignsThroughRecv(fd, sig.recv.name)
	}
	for _, f := range fd.Type.Params.List {
		var ty string
		var err error
		if el, ok := f.Type.(*ast.Ellipsis); ok {
			if g.print(el.Elt) != "string" {
				return g.errf(f, "unsupported variadic parameter")
			}
			ty = tjStrs
			sig.variadic = true
		} else if ty, err = g.goTy(f.Type); err != nil {
			return err
		}
		if len(f.Names) == 0 {
			return g.errf(f, "%s: parameter without a name", key)
		}
		for _, n := range f.Names {
			sig.params = append(sig.params, tjParam{n.Name, ty})
		}
	}
	if fd.Type.Results != nil {
		rl := fd.Type.Results.List
		for k, f := range rl {
			if len(f.Names) != 0 {
				return g.errf(f, "%s: named results are not supported", key)
			}
			if k == len(rl)-1 && g.print(f.Type) == "error" {
				sig.hasErr = true
				continue
			}
			ty, err := g.resultTy(f.Type)
			if err != nil {
				return err
			}
			sig.results = append(sig.results, ty)
		}
	}
	if !sig.hasErr {
		return g.errf(fd, "%s: a function without an error result is not supported", key)
	}
	g.sigs[key] = sig
	g.order = append(g.order, key)
	return nil
}

func (g *tj) resultTy(x ast.Expr) (string, error) {
	return g.goTy(x)
}

func (g *tj) genFunc(sig *tjSig) (string, error) {
	g.cur = sig
	g.n = 0
	g.loopN = 0
	g.pre = nil
	g.defs = nil
	env := newTjEnv()
	var b strings.Builder
	var hdr strings.Builder
	fmt.Fprintf(&hdr, "Definition %s", sig.coqName)
	if sig.recv != nil {
		env.declare(sig.recv.name, sig.recv.ty)
		fmt.Fprintf(&hdr, " (v_%s : %s)", sig.recv.name, g.coqTy(sig.recv.ty))
	}
	for _, p := range sig.params {
		env.declare(p.name, p.ty)
		fmt.Fprintf(&hdr, " (v_%s : %s)", p.name, g.coqTy(p.ty))
	}
	fmt.Fprintf(&hdr, " : outcome %s :=\n", g.retCoq(sig))
	body, err := g.stmts(sig.decl.Body.List, 0, env, &tjCtx{}, func(e *tjEnv) (string, error) {
		return "", g.errf(sig.decl, "%s: missing return", sig.key)
	})
	if err != nil {
		return "", err
	}
	for _, d := range g.defs {
		b.WriteString(d + "\n")
	}
	var sb bytes.Buffer
	_ = printer.Fprint(&sb, g.fset, &ast.FuncDecl{Recv: sig.decl.Recv, Name: sig.decl.Name, Type: sig.decl.Type})
	fmt.Fprintf(&b, "(* tms20/tms20.go: %s *)\n", strings.ReplaceAll(strings.ReplaceAll(sb.String(), "(*", "( *"), "\n", " "))
	b.WriteString(hdr.String())
	b.WriteString(body + ".\n")
	return b.String(), nil
}

func genTmsJson(repo string) (string, error) {
	path := filepath.Join(repo, "tms20", "tms20.go")
	fset := token.NewFileSet()
	file, err := parser.ParseFile(fset, path, nil, parser.ParseComments)
	if err != nil {
		return "", err
	}
	g := &tj{fset: fset, file: file, sigs: map[string]*tjSig{}, structs: map[string]*tjStruct{}, mapped: map[string]bool{},
		validators: map[string]bool{}, populators: map[string]bool{}, pendingGone: map[ast.Stmt][]string{}}
	g.types = map[string]tjTyInfo{
		tjJSON: {"json", "JNull"}, tjObj: {"obj", "(@nil (string * json))"}, tjArr: {"(list json)", "(@nil json)"},
		tjF64: {"fl", "(fl_of_Z 0)"}, tjStr: {"string", "\"\"%string"}, tjBool: {"bool", "false"}, tjInt: {"Z", "0"},
		tjErr: {"bool", "false"}, tjStrs: {"(list string)", "(@nil string)"}, tjPoint: {"(fl * fl)%type", ""},
		tjTM: {"tileMatrix", "zero_tm"}, tjTMMap: {"(list (Z * tileMatrix))", "(@nil (Z * tileMatrix))"},
		tjErrs: {"(list bool)", "(@nil bool)"}, tjBytes: {"json", ""}, tjProj: {"projjson", "projjson_zero"},
		tjSub: {"submatch", "(@None (string * string * string))"}, tjOStrs: {"(option (list string))", "(@None (list string))"},
		tjOBBox: {"(option bbox)", "(@None bbox)"}, tjSpec: {"obj", ""}, tjTMPtrs: {"(list tileMatrix)", ""},
		tjOPoint: {"(option (dec * dec))", "(@None (dec * dec))"},
	}
	// imports: the package names the translation refers to mean what it assumes
	imps := map[string]string{}
	for _, im := range file.Imports {
		p, _ := strconv.Unquote(im.Path.Value)
		name := p[strings.LastIndex(p, "/")+1:]
		if name == "v10" {
			name = "validator"
		}
		if im.Name != nil {
			name = im.Name.Name
		}
		imps[name] = p
	}
	for n, p := range tjImports {
		if got, ok := imps[n]; ok && got != p {
			return "", fmt.Errorf("tms20.go: package name %s is %s, expected %s", n, got, p)
		}
	}
	// declarations relied upon
	have := map[string]bool{}
	for _, d := range file.Decls {
		gd, ok := d.(*ast.GenDecl)
		if !ok || gd.Tok != token.TYPE {
			continue
		}
		for _, s := range gd.Specs {
			ts := s.(*ast.TypeSpec)
			eq := ""
			if ts.Assign.IsValid() {
				eq = "= "
			}
			have[fmt.Sprintf("type %s %s%s", ts.Name.Name, eq, g.print(ts.Type))] = true
		}
	}
	for _, d := range tjDecls {
		if !have[d] {
			return "", fmt.Errorf("tms20.go: declaration `%s` not found", d)
		}
	}
	// no package-level identifier shadows a builtin the translation gives a meaning to
	for _, n := range []string{"len", "make", "append", "int", "int64", "nil", "true", "false", "string", "float64", "bool", "error"} {
		if file.Scope.Lookup(n) != nil {
			return "", fmt.Errorf("tms20.go: %s is redeclared", n)
		}
	}

	for _, n := range []string{"URICRS", "WKTCRS", "ReferenceSystemCRS", "TwoDBoundingBox", "TileMatrixSet"} {
		if err := g.addStruct(n); err != nil {
			return "", err
		}
	}
	if err := g.addIface("CRS"); err != nil {
		return "", err
	}
	funcs := []struct{ recv, name string }{
		{"", "checkUnsignedIntegers"},
		{"TwoDPoint", "UnmarshalJSONFromMap"},
		{"TileMatrix", "UnmarshalJSONFromMap"},
		{"", "unmarshalTileMatrices"},
		{"URICRS", "UnmarshalJSONFromMap"},
		{"WKTCRS", "UnmarshalJSONFromMap"},
		{"ReferenceSystemCRS", "UnmarshalJSONFromMap"},
		{"", "unmarshalCRS"},
		{"TwoDBoundingBox", "UnmarshalJSON"},
		{"TileMatrixSet", "UnmarshalJSON"},
		{"URICRS", "MarshalJSON"},
		{"WKTCRS", "MarshalJSON"},
		{"ReferenceSystemCRS", "MarshalJSON"},
		{"TwoDBoundingBox", "MarshalJSON"},
		{"TileMatrixSet", "MarshalJSON"},
	}
	for _, f := range funcs {
		if err := g.addSig(f.recv, f.name); err != nil {
			return "", err
		}
	}
	var body strings.Builder
	for _, n := range g.structOrder {
		if n == "TwoDBoundingBox" {
			body.WriteString(g.emitIface() + "\n")
		}
		r, err := g.emitStruct(g.structs[n])
		if err != nil {
			return "", err
		}
		body.WriteString(r + "\n")
	}
	for _, n := range []string{"TwoDBoundingBox", "TileMatrixSet"} {
		for _, f := range []func(*tjStruct) (string, error){g.emitPopulated, g.emitValidate} {
			r, err := f(g.structs[n])
			if err != nil {
				return "", err
			}
			body.WriteString(r + "\n")
		}
	}
	for _, k := range g.order {
		if k == "TwoDBoundingBox.MarshalJSON" {
			body.WriteString("(* MarshalJSON through a value of interface type CRS: the method of the type it holds; json.Marshal prints null for nil *)\n")
			body.WriteString("Definition gen_CRS_MarshalJSON (c : gen_CRS) : outcome json :=\n  match c with\n  | gen_CRS_nil => Ok JNull\n")
			for _, n := range g.impls {
				sig, ok := g.sigs[n+".MarshalJSON"]
				if !ok || sig.mutRecv || len(sig.params) != 0 || len(sig.results) != 1 || sig.results[0] != tjBytes {
					return "", fmt.Errorf("tms20.go: %s.MarshalJSON was not translated", n)
				}
				fmt.Fprintf(&body, "  | gen_CRS_%s x => %s x\n", n, sig.coqName)
			}
			body.WriteString("  end.\n\n")
			g.crsDispatch = true
		}
		s, err := g.genFunc(g.sigs[k])
		if err != nil {
			return "", err
		}
		body.WriteString(s + "\n")
	}

	var b strings.Builder
	b.WriteString(`(* GENERATED by /verif/translator (tmsjson.go) on every run from tms20/tms20.go -- do not edit.

   The project's own code around the JSON libraries, translated statement by statement into the monad [outcome] of
   Tms/Model.v with the vocabulary of Tms/GoJson.v.

   READING (trusted, see Tms/GoJson.v): an interface{} value produced by encoding/json is a [json] tree (nil = JNull), a
   map[string]interface{} an [obj] read with lookup_last, a []interface{} a list; type assertions in comma-ok form are
   as_float64 / as_string / as_object / as_array; a float64 is [fl] (the binary64 image f64_dec of the decimal of a JSON
   number; comparisons exact, math.Trunc = truncation toward zero); int / int64 / TMID are exact Z; an error variable is the
   boolean err != nil, a returned non-nil error is [Error], an index out of range is [Panic]; a method with a pointer
   receiver that it assigns through takes the receiver's value and returns its new value; a map[TMID]TileMatrix is the
   model's key-sorted association list (make = [], m[k] = v is insert_tm).

   MAPPED to the model, not translated (shape of the call and the declarations checked in the AST before translating):
`)
	mappedDoc := []struct{ k, doc string }{
		{"defaults.Set", "     defaults.Set(<receiver>) = defaults_set_noop  (no struct tag of tms20.go contains `default:`: nothing to set, nil)\n"},
		{"strconv.ParseInt", "     strconv.ParseInt(s, 10, 64) = parse_int_res s  (parse_int of Tms/Json.v)\n"},
		{"math.Trunc", "     math.Trunc = fl_trunc\n"},
		{"tmTail", "     the end of TileMatrix.UnmarshalJSONFromMap -- _, err = marshmallow.UnmarshalFromJSONMap(dataMap, tm, marshmallow.WithExcludeKnownFieldsFromMap(true));\n" +
			"       if err != nil { return err }; validate := validator.New(validator.WithRequiredStructEnabled()); return validate.Struct(tm) --\n" +
			"       = marshmallow_then_validate_tm tm dataMap = decodeTM_fields dataMap  (the two libraries as modelled in Tms/Model.v; the declarations of\n" +
			"       TileMatrix and VariableMatrixWidth, with their tags, are checked to be the ones the model transcribes)\n"},
		{"regexp", "     crsURIRegexURL.FindStringSubmatch(s) / crsURIRegexURN.FindStringSubmatch(s) = submatch_url s / submatch_urn s  (parse_crs_url / parse_crs_urn of\n" +
			"       Tms/Model.v; the text of the two regular expressions is checked); == nil = sub_is_nil; [1] [2] [3] = sub_idx (index 0 is refused)\n"},
		{"validate.unexported", "     validate.Struct(x), x of a struct type without exported fields = validate_unexported_noop  (the validator skips unexported fields)\n"},
		{"projjson", "     var wkt ProjJSON; _, err := marshmallow.UnmarshalFromJSONMap(m, &wkt) = marshmallow_projjson m  (projjson_ok of Tms/Model.v; ProjJSON, ProjJSONID checked)\n"},
		{"marshmallow.Unmarshal", "     specials, err := marshmallow.Unmarshal(data, x, marshmallow.WithExcludeKnownFieldsFromMap(true)) = marshmallow_unmarshal_top / _bbox data  (top_step /\n" +
			"       bb_step of Tms/Model.v); the struct is then gen_T_populated (fields by their json tags), specials = top_specials / bb_specials (only \"crs\", \"tileMatrices\" may be read)\n"},
		{"validate.tags", "     validate.Struct(x) = gen_T_validate for TileMatrixSet / TwoDBoundingBox, one vtag_* conjunct of Tms/GoJson.v per `validate:` tag\n"},
		{"json.Marshal", "     json.Marshal(string) = json_marshal_string; json.Marshal(struct literal) = json_marshal_struct of the members by their json tags, in field order\n" +
			"       (enc_str / enc_strs / enc_map / enc_bbox_ptr / enc_tm_ptrs / enc_json of Tms/GoJson.v; an embedded struct's fields are promoted in place)\n"},
		{"enc_bbox", "     a *TwoDBoundingBox member = enc_bbox_ptr (encodeBBox of Tms/Model.v, which TwoDBoundingBox.MarshalJSON is proved to compute: C16_source_tie_bbox_marshal)\n"},
		{"enc_tm", "     a []*TileMatrix member = enc_tm_ptrs (encodeTM of Tms/Model.v; TileMatrix has no MarshalJSON, its declaration is checked)\n"},
		{"sort.Slice", "     var l []*TileMatrix; for k := range m { v := m[k]; l = append(l, &v) }; sort.Slice(l, less) = sort_slice gen_.._less (tmmap_values m)\n" +
			"       (the values of the map in any order, then a sort by the generated comparison; sort.Slice is not stable)\n"},
		{"ParseInt.or0", "     v, _ := strconv.ParseInt(s, 10, 64) = parse_int_or0 s  (0 when s is not a number; the clamping of out-of-range numbers is not modelled)\n"},
	}
	for _, m := range mappedDoc {
		if g.mapped[m.k] {
			b.WriteString(m.doc)
		}
	}
	b.WriteString("     fmt.Errorf(..), errors.New(..) as a returned error = Error (their arguments are variables, fields, len(..): not evaluated) *)\n")
	b.WriteString("From Coq Require Import ZArith QArith String List Bool.\n")
	b.WriteString("From Texel Require Import Tms.Json Tms.Model Tms.GoJson.\n")
	b.WriteString("Import ListNotations.\nOpen Scope Z_scope.\n\n")
	b.WriteString(body.String())
	return b.String(), nil
}
