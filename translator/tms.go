package main

// G3: the tile matrix set documents shipped with the code, the EPSG axis-order
// table, and the few literals of the validation code that the Tms model depends
// on, as Coq terms (coq/gen/TmsData.v).  Everything is read from the CURRENT
// working tree, so an edit of a document, of the table, of the tolerance of
// IsQuadTree or of the order of checks in validateTileMatrixSet changes the
// generated file and thereby what the theorems of C14-C16 are about.

import (
	"bytes"
	"encoding/json"
	"fmt"
	"go/ast"
	"go/parser"
	"go/token"
	"io"
	"math/big"
	"os"
	"path/filepath"
	"sort"
	"strings"
)

// coqString prints a Go string (arbitrary bytes) as a Coq term of type string.
func coqString(s string) string {
	plain := true
	for i := 0; i < len(s); i++ {
		if s[i] < 32 || s[i] > 126 {
			plain = false
			break
		}
	}
	if plain {
		return `"` + strings.ReplaceAll(s, `"`, `""`) + `"`
	}
	parts := make([]string, len(s))
	for i := 0; i < len(s); i++ {
		parts[i] = fmt.Sprintf("%d", s[i])
	}
	return "(bs [" + strings.Join(parts, "; ") + "])"
}

func coqZ(z *big.Int) string {
	if z.Sign() < 0 {
		return "(" + z.String() + ")"
	}
	return z.String()
}

// decimalOf turns the text of a JSON number into (mantissa, exponent) with value = mantissa * 10^exponent, exactly.
func decimalOf(lit string) (*big.Int, *big.Int, error) {
	s := lit
	neg := false
	if strings.HasPrefix(s, "-") {
		neg = true
		s = s[1:]
	}
	exp := new(big.Int)
	if i := strings.IndexAny(s, "eE"); i >= 0 {
		if _, ok := exp.SetString(strings.TrimPrefix(s[i+1:], "+"), 10); !ok {
			return nil, nil, fmt.Errorf("bad exponent in number %q", lit)
		}
		s = s[:i]
	}
	intPart, frac := s, ""
	if i := strings.IndexByte(s, '.'); i >= 0 {
		intPart, frac = s[:i], s[i+1:]
	}
	if intPart == "" || (strings.Contains(s, ".") && frac == "") {
		return nil, nil, fmt.Errorf("bad number %q", lit)
	}
	m, ok := new(big.Int).SetString(intPart+frac, 10)
	if !ok {
		return nil, nil, fmt.Errorf("bad number %q", lit)
	}
	if neg {
		m.Neg(m)
	}
	exp.Sub(exp, big.NewInt(int64(len(frac))))
	return m, exp, nil
}

// jsonToCoq reads one JSON value from the token stream, preserving key order and duplicate keys.
func jsonToCoq(dec *json.Decoder, b *strings.Builder, indent string) error {
	tok, err := dec.Token()
	if err != nil {
		return err
	}
	switch t := tok.(type) {
	case nil:
		b.WriteString("JNull")
	case bool:
		if t {
			b.WriteString("JBool true")
		} else {
			b.WriteString("JBool false")
		}
	case json.Number:
		m, e, err := decimalOf(string(t))
		if err != nil {
			return err
		}
		fmt.Fprintf(b, "jn %s %s", coqZ(m), coqZ(e))
	case string:
		b.WriteString("JStr " + coqString(t))
	case json.Delim:
		switch t {
		case '[':
			b.WriteString("JArr [")
			first := true
			for dec.More() {
				if !first {
					b.WriteString("; ")
				}
				first = false
				if err := jsonToCoq(dec, b, indent+" "); err != nil {
					return err
				}
			}
			if _, err := dec.Token(); err != nil {
				return err
			}
			b.WriteString("]")
		case '{':
			b.WriteString("JObj [")
			first := true
			for dec.More() {
				if !first {
					b.WriteString(";")
				}
				first = false
				kt, err := dec.Token()
				if err != nil {
					return err
				}
				k, ok := kt.(string)
				if !ok {
					return fmt.Errorf("object key is not a string")
				}
				b.WriteString("\n" + indent + " (" + coqString(k) + ", ")
				if err := jsonToCoq(dec, b, indent+" "); err != nil {
					return err
				}
				b.WriteString(")")
			}
			if _, err := dec.Token(); err != nil {
				return err
			}
			b.WriteString("]")
		default:
			return fmt.Errorf("unexpected delimiter %v", t)
		}
	default:
		return fmt.Errorf("unexpected token %T", tok)
	}
	return nil
}

func jsonFileToCoq(path string) (string, error) {
	raw, err := os.ReadFile(path)
	if err != nil {
		return "", err
	}
	dec := json.NewDecoder(bytes.NewReader(raw))
	dec.UseNumber()
	var b strings.Builder
	if err := jsonToCoq(dec, &b, " "); err != nil {
		return "", fmt.Errorf("%s: %w", path, err)
	}
	if _, err := dec.Token(); err != io.EOF {
		return "", fmt.Errorf("%s: trailing data after the JSON value", path)
	}
	return b.String(), nil
}

func coqIdent(name string) string {
	var b strings.Builder
	for _, r := range name {
		if r >= 'a' && r <= 'z' || r >= 'A' && r <= 'Z' || r >= '0' && r <= '9' || r == '_' {
			b.WriteRune(r)
		} else {
			b.WriteRune('_')
		}
	}
	return b.String()
}

func genDocs(b *strings.Builder, dir, prefix, listName string) error {
	files, err := filepath.Glob(filepath.Join(dir, "*.json"))
	if err != nil {
		return err
	}
	sort.Strings(files)
	if len(files) == 0 {
		return fmt.Errorf("no *.json under %s", dir)
	}
	var entries []string
	for _, f := range files {
		name := strings.TrimSuffix(filepath.Base(f), ".json")
		term, err := jsonFileToCoq(f)
		if err != nil {
			return err
		}
		id := prefix + coqIdent(name)
		fmt.Fprintf(b, "Definition %s : json :=\n %s.\n\n", id, term)
		entries = append(entries, fmt.Sprintf("(%s, %s)", coqString(name), id))
	}
	fmt.Fprintf(b, "Definition %s : list (string * json) :=\n [%s].\n\n", listName, strings.Join(entries, ";\n  "))
	return nil
}

// genEpsgTable: the map literal epsgAxesAreLatLon of tms20/epsg_axis_order.go, sorted by code.
func genEpsgTable(b *strings.Builder, path string) error {
	fset := token.NewFileSet()
	f, err := parser.ParseFile(fset, path, nil, 0)
	if err != nil {
		return err
	}
	type ent struct {
		code *big.Int
		v    bool
	}
	var ents []ent
	found := false
	ast.Inspect(f, func(n ast.Node) bool {
		vs, ok := n.(*ast.ValueSpec)
		if !ok {
			return true
		}
		for i, nm := range vs.Names {
			if nm.Name != "epsgAxesAreLatLon" || i >= len(vs.Values) {
				continue
			}
			cl, ok := vs.Values[i].(*ast.CompositeLit)
			if !ok {
				err = fmt.Errorf("epsgAxesAreLatLon is not a composite literal")
				return false
			}
			found = true
			for _, el := range cl.Elts {
				kv, ok := el.(*ast.KeyValueExpr)
				if !ok {
					err = fmt.Errorf("epsgAxesAreLatLon: element is not key: value")
					return false
				}
				kl, ok1 := kv.Key.(*ast.BasicLit)
				id, ok2 := kv.Value.(*ast.Ident)
				if !ok1 || kl.Kind != token.INT || !ok2 || (id.Name != "true" && id.Name != "false") {
					err = fmt.Errorf("epsgAxesAreLatLon: entry is not <int literal>: true|false")
					return false
				}
				z, perr := parseIntLit(kl.Value)
				if perr != nil {
					err = perr
					return false
				}
				ents = append(ents, ent{z, id.Name == "true"})
			}
		}
		return true
	})
	if err != nil {
		return err
	}
	if !found {
		return fmt.Errorf("epsgAxesAreLatLon not found in %s", path)
	}
	// a Go map literal with a duplicate constant key does not compile, so the order is immaterial; sort for stability
	sort.SliceStable(ents, func(i, j int) bool { return ents[i].code.Cmp(ents[j].code) < 0 })
	b.WriteString("(* tms20/epsg_axis_order.go: epsgAxesAreLatLon; the codes whose axes are lat/lon (true) resp. lon/lat (false) *)\n")
	for _, which := range []bool{true, false} {
		name := "gen_epsg_latlon_true"
		if !which {
			name = "gen_epsg_latlon_false"
		}
		fmt.Fprintf(b, "Definition %s : list Z :=\n [", name)
		n := 0
		for _, e := range ents {
			if e.v != which {
				continue
			}
			if n > 0 {
				b.WriteString("; ")
				if n%16 == 0 {
					b.WriteString("\n  ")
				}
			}
			b.WriteString(coqZ(e.code))
			n++
		}
		b.WriteString("].\n\n")
	}
	return nil
}

func exprName(e ast.Expr) string {
	switch x := e.(type) {
	case *ast.Ident:
		return x.Name
	case *ast.SelectorExpr:
		return exprName(x.X) + "." + x.Sel.Name
	case *ast.IndexExpr:
		return exprName(x.X)
	}
	return "?"
}

func findFunc(path, name string) (*ast.FuncDecl, error) {
	fset := token.NewFileSet()
	f, err := parser.ParseFile(fset, path, nil, 0)
	if err != nil {
		return nil, err
	}
	for _, d := range f.Decls {
		if fd, ok := d.(*ast.FuncDecl); ok && fd.Name.Name == name && fd.Body != nil {
			return fd, nil
		}
	}
	return nil, fmt.Errorf("func %s not found in %s", name, path)
}

// genValidateShape: the sequence of package-qualified calls in main.validateTileMatrixSet, in source
// order, and the tolerance literals of the cell size test in pointindex.IsQuadTree.
func genValidateShape(b *strings.Builder, repo string) error {
	fd, err := findFunc(filepath.Join(repo, "main.go"), "validateTileMatrixSet")
	if err != nil {
		return err
	}
	// the checks of the function in source order: package-qualified calls (log.* left out), len(..) and
	// lookups in tms.TileMatrices
	var calls []string
	ast.Inspect(fd.Body, func(n ast.Node) bool {
		switch x := n.(type) {
		case *ast.CallExpr:
			nm := exprName(x.Fun)
			if strings.HasPrefix(nm, "pointindex.") || strings.HasPrefix(nm, "slices.") || strings.HasPrefix(nm, "tms20.") ||
				strings.HasPrefix(nm, "errors.") || strings.HasPrefix(nm, "fmt.") || nm == "len" || nm == "panic" {
				calls = append(calls, coqString(nm))
			}
		case *ast.IndexExpr:
			calls = append(calls, coqString("index "+exprName(x.X)))
		}
		return true
	})
	fmt.Fprintf(b, "(* main.go validateTileMatrixSet: its checks in source order -- calls into pointindex/slices/tms20/errors/fmt, len, map lookups *)\nDefinition gen_validate_calls : list string :=\n [%s].\n\n", strings.Join(calls, "; "))

	fq, err := findFunc(filepath.Join(repo, "pointindex", "pointindex.go"), "IsQuadTree")
	if err != nil {
		return err
	}
	var lits []string
	var checks []string
	ast.Inspect(fq.Body, func(n ast.Node) bool {
		switch x := n.(type) {
		case *ast.CallExpr:
			if exprName(x.Fun) == "mathhelp.FBetweenInc" && len(x.Args) == 3 {
				for _, a := range x.Args[1:] {
					bl, ok := a.(*ast.BasicLit)
					if !ok || (bl.Kind != token.FLOAT && bl.Kind != token.INT) {
						err = fmt.Errorf("IsQuadTree: bounds of FBetweenInc are not numeric literals")
						return false
					}
					m, e, derr := decimalOf(bl.Value)
					if derr != nil {
						err = derr
						return false
					}
					lits = append(lits, fmt.Sprintf("Dec %s %s", coqZ(m), coqZ(e)))
				}
			}
			if exprName(x.Fun) == "errors.New" && len(x.Args) == 1 {
				// the message literal identifies which check this is; order = order of evaluation
				var s string
				switch a := x.Args[0].(type) {
				case *ast.BasicLit:
					s = a.Value
				case *ast.BinaryExpr:
					if l, ok := a.X.(*ast.BasicLit); ok {
						s = l.Value
					}
				}
				s = strings.Trim(s, "\"`")
				// one entry per distinct message (the same message returned from two places is one check to the caller)
				seen := false
				for _, c := range checks {
					seen = seen || c == coqString(s)
				}
				if !seen {
					checks = append(checks, coqString(s))
				}
			}
		}
		return true
	})
	if err != nil {
		return err
	}
	if len(lits) != 2 {
		return fmt.Errorf("IsQuadTree: expected exactly one mathhelp.FBetweenInc(_, lo, hi), found %d bounds", len(lits))
	}
	fmt.Fprintf(b, "(* pointindex.IsQuadTree: bounds of the cell size ratio test, and the distinct error messages of its checks in source order *)\n")
	fmt.Fprintf(b, "Definition gen_quadtree_ratio_lo : dec := %s.\nDefinition gen_quadtree_ratio_hi : dec := %s.\n", lits[0], lits[1])
	fmt.Fprintf(b, "Definition gen_quadtree_checks : list string :=\n [%s].\n\n", strings.Join(checks, ";\n  "))
	return nil
}

func genTmsData(repo string) (string, error) {
	var b strings.Builder
	b.WriteString("(* GENERATED by /verif/translator (tms.go) on every run from tms20/tilematrixsets/*.json, tms20/testdata/*.json,\n   tms20/epsg_axis_order.go, main.go and pointindex/pointindex.go -- do not edit. *)\n")
	b.WriteString("From Coq Require Import ZArith String List.\nFrom Texel Require Import Tms.Json.\nImport ListNotations.\nOpen Scope string_scope.\nOpen Scope Z_scope.\n\n")
	if err := genDocs(&b, filepath.Join(repo, "tms20", "tilematrixsets"), "gen_doc_", "gen_tms_documents"); err != nil {
		return "", err
	}
	if err := genDocs(&b, filepath.Join(repo, "tms20", "testdata"), "gen_testdoc_", "gen_tms_test_documents"); err != nil {
		return "", err
	}
	if err := genEpsgTable(&b, filepath.Join(repo, "tms20", "epsg_axis_order.go")); err != nil {
		return "", err
	}
	if err := genValidateShape(&b, repo); err != nil {
		return "", err
	}
	return b.String(), nil
}
