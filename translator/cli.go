package main

import (
	"fmt"
	"go/ast"
	"go/parser"
	"go/printer"
	"go/token"
	"path/filepath"
	"strconv"
	"strings"
)

// ---------------------------------------------------------------------------
// G (CLI glue): facts extracted from the AST of main.go and snap/snap.go
//   - which command line flag feeds which field of snap.Config (and the page size, overwrite);
//   - the format of the target file suffix;
//   - the tile matrix that validation reports the deviation for, and the one the grid is built for,
//     are both the MAXIMUM of the requested ids; IsQuadTree runs before DeviationStats.
// ---------------------------------------------------------------------------

// flowOf summarises the control flow of a function body: one string per top-level statement; conditions and
// assignments as source text, branch bodies reduced to how they leave the function ("return error", "return nil",
// "no return"); log calls and other expression statements are dropped (they cannot change the verdict).
func flowOf(fset *token.FileSet, list []ast.Stmt) []string {
	src := func(n ast.Node) string {
		var sb strings.Builder
		_ = printer.Fprint(&sb, fset, n)
		return strings.Join(strings.Fields(sb.String()), " ")
	}
	leave := func(body []ast.Stmt) string {
		for _, st := range body {
			if r, ok := st.(*ast.ReturnStmt); ok {
				if len(r.Results) > 0 {
					if id, ok := r.Results[len(r.Results)-1].(*ast.Ident); ok && id.Name == "nil" {
						return "return nil"
					}
				}
				return "return error"
			}
			switch st.(type) {
			case *ast.ExprStmt:
			default:
				return "other: " + src(st)
			}
		}
		return "no return"
	}
	var out []string
	for _, st := range list {
		switch s := st.(type) {
		case *ast.IfStmt:
			h := "if "
			if s.Init != nil {
				h += src(s.Init) + "; "
			}
			h += src(s.Cond) + " -> " + leave(s.Body.List)
			if s.Else != nil {
				h += " else ..."
			}
			out = append(out, h)
		case *ast.RangeStmt:
			out = append(out, "range "+src(s.X)+" { "+strings.Join(flowOf(fset, s.Body.List), " ; ")+" }")
		case *ast.AssignStmt:
			out = append(out, src(s))
		case *ast.ReturnStmt:
			out = append(out, leave([]ast.Stmt{s}))
		case *ast.ExprStmt:
		default:
			out = append(out, "other: "+src(st))
		}
	}
	return out
}

func genCli(repo string) (string, error) {
	fset := token.NewFileSet()
	mainF, err := parser.ParseFile(fset, filepath.Join(repo, "main.go"), nil, 0)
	if err != nil {
		return "", err
	}
	snapF, err := parser.ParseFile(fset, filepath.Join(repo, "snap", "snap.go"), nil, 0)
	if err != nil {
		return "", err
	}
	consts := map[string]string{}
	for _, d := range mainF.Decls {
		gd, ok := d.(*ast.GenDecl)
		if !ok || gd.Tok != token.CONST {
			continue
		}
		for _, sp := range gd.Specs {
			vs := sp.(*ast.ValueSpec)
			for i, n := range vs.Names {
				if i < len(vs.Values) {
					if bl, ok := vs.Values[i].(*ast.BasicLit); ok && bl.Kind == token.STRING {
						if s, err := strconv.Unquote(bl.Value); err == nil {
							consts[n.Name] = s
						}
					}
				}
			}
		}
	}
	// flag plumbing: composite literal snap.Config{Field: c.Bool(CONST), ...}
	var flagMap [][2]string
	ast.Inspect(mainF, func(n ast.Node) bool {
		cl, ok := n.(*ast.CompositeLit)
		if !ok {
			return true
		}
		se, ok := cl.Type.(*ast.SelectorExpr)
		if !ok || se.Sel.Name != "Config" {
			return true
		}
		for _, e := range cl.Elts {
			kv, ok := e.(*ast.KeyValueExpr)
			if !ok {
				continue
			}
			key, _ := kv.Key.(*ast.Ident)
			call, _ := kv.Value.(*ast.CallExpr)
			if key == nil || call == nil || len(call.Args) != 1 {
				continue
			}
			fn, _ := call.Fun.(*ast.SelectorExpr)
			arg, _ := call.Args[0].(*ast.Ident)
			if fn == nil || arg == nil {
				continue
			}
			flagMap = append(flagMap, [2]string{key.Name, fn.Sel.Name + ":" + consts[arg.Name]})
		}
		return true
	})
	// other plumbing: overwrite := c.Bool(OVERWRITE); pagesize := c.Int(PAGESIZE)
	ast.Inspect(mainF, func(n ast.Node) bool {
		as, ok := n.(*ast.AssignStmt)
		if !ok || len(as.Lhs) != 1 || len(as.Rhs) != 1 {
			return true
		}
		id, _ := as.Lhs[0].(*ast.Ident)
		call, _ := as.Rhs[0].(*ast.CallExpr)
		if id == nil || call == nil || len(call.Args) != 1 {
			return true
		}
		fn, _ := call.Fun.(*ast.SelectorExpr)
		arg, _ := call.Args[0].(*ast.Ident)
		if fn == nil || arg == nil {
			return true
		}
		if x, ok := fn.X.(*ast.Ident); ok && x.Name == "c" && (id.Name == "overwrite" || id.Name == "pagesize") {
			flagMap = append(flagMap, [2]string{id.Name, fn.Sel.Name + ":" + consts[arg.Name]})
		}
		return true
	})
	// suffix format in injectSuffixIntoPath: the string literal of its return statement, path.Join(dir, name+"_%v"+ext)
	suffix := ""
	for _, d := range mainF.Decls {
		fd, ok := d.(*ast.FuncDecl)
		if !ok || fd.Name.Name != "injectSuffixIntoPath" {
			continue
		}
		ast.Inspect(fd, func(n ast.Node) bool {
			rs, ok := n.(*ast.ReturnStmt)
			if !ok {
				return true
			}
			ast.Inspect(rs, func(m ast.Node) bool {
				if bl, ok := m.(*ast.BasicLit); ok && bl.Kind == token.STRING {
					if s, err := strconv.Unquote(bl.Value); err == nil && strings.Contains(s, "%") {
						suffix = s
					}
				}
				return true
			})
			return false
		})
	}
	// deepest id = slices.Max(ids), used for DeviationStats / FromTileMatrixSet
	maxThenUse := func(f *ast.File, fn, idsVar, user string) (usesMax bool, quadFirst bool) {
		for _, d := range f.Decls {
			fd, ok := d.(*ast.FuncDecl)
			if !ok || fd.Name.Name != fn {
				continue
			}
			deepest := ""
			quadSeen, userSeen := false, false
			ast.Inspect(fd, func(n ast.Node) bool {
				switch x := n.(type) {
				case *ast.AssignStmt:
					if len(x.Lhs) >= 1 && len(x.Rhs) == 1 {
						if call, ok := x.Rhs[0].(*ast.CallExpr); ok {
							if se, ok := call.Fun.(*ast.SelectorExpr); ok && se.Sel.Name == "Max" && len(call.Args) == 1 {
								if pk, ok := se.X.(*ast.Ident); ok && pk.Name == "slices" {
									if a, ok := call.Args[0].(*ast.Ident); ok && a.Name == idsVar {
										if id, ok := x.Lhs[0].(*ast.Ident); ok {
											deepest = id.Name
										}
									}
								}
							}
						}
					}
				case *ast.CallExpr:
					if se, ok := x.Fun.(*ast.SelectorExpr); ok {
						if se.Sel.Name == "IsQuadTree" && !userSeen {
							quadSeen = true
						}
						if se.Sel.Name == user && len(x.Args) == 2 {
							userSeen = true
							if a, ok := x.Args[1].(*ast.Ident); ok && deepest != "" && a.Name == deepest {
								usesMax = true
							}
							quadFirst = quadSeen
						}
					}
				}
				return true
			})
		}
		return
	}
	vMax, vQuadFirst := maxThenUse(mainF, "validateTileMatrixSet", "tileMatrixIDs", "DeviationStats")
	sMax, _ := maxThenUse(snapF, "SnapPolygon", "tmIDs", "FromTileMatrixSet")

	// injectSuffixIntoPath must have exactly the shape the model Cli/Model.v transcribes (since the repair F21 with the
	// escaping of percent signs in front: the result is a format):
	//   p = strings.ReplaceAll(p, "%", "%%"); dir, file := path.Split(p); ext := path.Ext(file);
	//   name := file[:len(file)-len(ext)]; return path.Join(dir, name+FORMAT+ext)
	injectShape := false
	for _, d := range mainF.Decls {
		fd, ok := d.(*ast.FuncDecl)
		if !ok || fd.Name.Name != "injectSuffixIntoPath" || len(fd.Body.List) != 5 {
			continue
		}
		src := func(n ast.Node) string {
			var sb strings.Builder
			_ = printer.Fprint(&sb, fset, n)
			return strings.Join(strings.Fields(sb.String()), " ")
		}
		want := []string{
			`p = strings.ReplaceAll(p, "%", "%%")`,
			"dir, file := path.Split(p)",
			"ext := path.Ext(file)",
			"name := file[:len(file)-len(ext)]",
			"return path.Join(dir, name+" + strconv.Quote(suffix) + "+ext)",
		}
		injectShape = true
		for i, st := range fd.Body.List {
			if src(st) != want[i] {
				injectShape = false
			}
		}
	}

	var validateFlow []string
	for _, d := range mainF.Decls {
		if fd, ok := d.(*ast.FuncDecl); ok && fd.Name.Name == "validateTileMatrixSet" {
			validateFlow = flowOf(fset, fd.Body.List)
		}
	}

	var b strings.Builder
	b.WriteString("(* GENERATED by /verif/translator (CLI glue) from main.go and snap/snap.go on every run -- do not edit. *)\n")
	b.WriteString("From Coq Require Import List String Bool.\nImport ListNotations.\nOpen Scope string_scope.\n\n")
	b.WriteString("(* which command line flag (accessor:name) feeds which setting *)\nDefinition gen_flag_map : list (string * string) :=\n  [")
	for i, kv := range flagMap {
		if i > 0 {
			b.WriteString(";\n   ")
		}
		fmt.Fprintf(&b, "(%q, %q)", kv[0], kv[1])
	}
	b.WriteString("].\n\n")
	fmt.Fprintf(&b, "(* injectSuffixIntoPath: name ++ this format ++ ext *)\nDefinition gen_suffix_format : string := %q.\n", suffix)
	fmt.Fprintf(&b, "(* injectSuffixIntoPath has, statement by statement, the shape transcribed in Cli/Model.v *)\nDefinition gen_inject_shape : bool := %v.\n\n", injectShape)
	b.WriteString("(* validateTileMatrixSet: its control flow, statement by statement (how every check leaves the function) *)\nDefinition gen_validate_flow : list string := [\n")
	for i, f := range validateFlow {
		sep := ";"
		if i == len(validateFlow)-1 {
			sep = ""
		}
		fmt.Fprintf(&b, "  %s%s\n", coqStr(f), sep)
	}
	b.WriteString("]%string.\n")
	fmt.Fprintf(&b, "(* validateTileMatrixSet: deviation reported for slices.Max(ids); IsQuadTree runs before DeviationStats *)\nDefinition gen_validate_deepest_is_max : bool := %v.\nDefinition gen_validate_quadtree_first : bool := %v.\n", vMax, vQuadFirst)
	fmt.Fprintf(&b, "(* snap.SnapPolygon: the grid is built for slices.Max(ids) *)\nDefinition gen_snap_deepest_is_max : bool := %v.\n", sMax)
	return b.String(), nil
}

func coqStr(x string) string { return "\"" + strings.ReplaceAll(x, "\"", "\"\"") + "\"" }
