package main

import (
	"fmt"
	"go/ast"
	"go/parser"
	"go/token"
	"go/types"
	"math/big"
	"path/filepath"
	"sort"
	"strings"
)

// ---------------------------------------------------------------------------
// G2: the exported entry points of pointindex.go and the parts of package intgeom they use -> gen/IndexTopGen.v
// (engine: find.go, with the hooks top* of this file, active only when pg.top is set)
//
//	package intgeom      ToGeomOrd, FromGeomOrd, Point.ToGeomPoint, FromGeomPoint, FromGeomLine, Point.X / Y,
//	                     Extent.MinX / MinY / MaxX / MaxY / XSpan            (pure definitions: topPure)
//	pointindex.go        floorDiv (machine integers), InsertCoord, InsertPoint, InsertPolygon, SnapClosestPoints,
//	                     GetHitMultiple, FromTileMatrixSet                   (whole bodies in the monad res: topFunction)
//
// Additional subset (beside find.go's): float64 as the abstract type of Index/GoTop.v (every float operation is a field of
// `floatops`, the value v_fo every generated function takes), [2]float64 / [2][2]float64 as pairs, int64 / int arithmetic
// with wrap-around (add64, sub64, mul64w, quot64, rem64), conversions between the integer types, `error` values
// (option (goerr ..)), methods with a pointer receiver that change maps of the receiver (the generated function returns
// the final values of those maps beside its result; a call rebuilds the receiver from the current values), call
// statements, `x += e`, `x--`, two and three results, `&x` of a local struct as a result, `s[i] = v` on a slice made by
// make([]T, n), `for k, v := range m` over a MAP (iterates over `v_ord n _ _ m`, an order chosen by the caller).
// Anything else is a translation failure.
// ---------------------------------------------------------------------------

type topMethod struct {
	coq    string   // the generated function (with v_fo when it takes it), applied to the receiver and the arguments
	params []string // types of the arguments (without the receiver)
	result string   // "" = none
	state  []string // fields of the receiver whose final values the function returns (before the result)
}

type topCtx struct {
	local   bool   // translating package intgeom itself: M, Point, Line, Extent are local names
	spatial string // import name of github.com/go-spatial/geom
	mathPkg string // import name of math
	fmtPkg  string // import name of fmt
	tmsPkg  string // import name of tms20
	methods map[string]topMethod
	state   []string // state fields of the function being translated
	useOrd  bool     // the function being translated may range over a map
	ordN    int
}

const (
	ttFloat = "float"
	ttFPt   = "FPt"
	ttFLine = "FLine"
	ttError = "error"
)

var topDescentFields = map[string]bool{"Quadrant": true, "deepestLevel": true, "deepestSize": true, "deepestRes": true, "quadrants": true}

// ---- types -----------------------------------------------------------------

func (g *pg) topGoType(x ast.Expr) (string, bool, error) {
	tc := g.topState
	switch t := x.(type) {
	case *ast.Ident:
		switch t.Name {
		case "float64":
			return ttFloat, true, nil
		case "error":
			return ttError, true, nil
		case "PointIndex":
			if _, ok := g.structs["PointIndexT"]; ok {
				return "struct:PointIndexT", true, nil
			}
		}
		if tc.local {
			switch t.Name {
			case "M":
				return ltInt64, true, nil
			case "Point":
				return ltPt, true, nil
			case "Line":
				return ltLine, true, nil
			case "Extent":
				return ltExtent, true, nil
			}
		}
	case *ast.SelectorExpr:
		id, ok := t.X.(*ast.Ident)
		if !ok {
			return "", false, nil
		}
		if id.Name == tc.spatial && tc.spatial != "" {
			switch t.Sel.Name {
			case "Point":
				return ttFPt, true, nil
			case "Line":
				return ttFLine, true, nil
			case "Polygon":
				return "slice:slice:" + ttFPt, true, nil
			}
			return "", true, fmt.Errorf("unsupported type %s", types.ExprString(x))
		}
		if id.Name == tc.tmsPkg && tc.tmsPkg != "" {
			switch t.Sel.Name {
			case "TileMatrixSet":
				return "struct:gotms", true, nil
			case "TMID":
				return ltInt, true, nil
			}
			return "", true, fmt.Errorf("unsupported type %s", types.ExprString(x))
		}
	case *ast.ArrayType:
		if bl, ok := t.Len.(*ast.BasicLit); ok && bl.Kind == token.INT && bl.Value == "2" {
			el, err := g.goType(t.Elt)
			if err != nil {
				return "", false, nil
			}
			switch el {
			case ttFloat:
				return ttFPt, true, nil
			case ttFPt:
				return ttFLine, true, nil
			}
		}
	case *ast.StarExpr:
		if id, ok := t.X.(*ast.Ident); ok && id.Name == "PointIndex" {
			if _, ok := g.structs["PointIndexT"]; ok {
				return "ptr:PointIndexT", true, nil
			}
		}
	}
	return "", false, nil
}

func (g *pg) topCoqType(t string) (string, bool) {
	switch {
	case t == ttFloat:
		return "(F v_fo)", true
	case t == ttFPt:
		return "(FPt v_fo)", true
	case t == ttFLine:
		return "(FLine v_fo)", true
	case t == ttError:
		return "(option (goerr gen_OutsideGridError))", true
	case t == "floatops":
		return "floatops", true
	case t == "goorder":
		return "goorder", true
	case t == "struct:gotms":
		return "(gotms v_fo gen_OutsideGridError)", true
	case t == "struct:gotm":
		return "gotm", true
	case strings.HasPrefix(t, "nptr:"):
		return "(option gen_" + t[5:] + ")", true
	case strings.HasPrefix(t, "tuple:"):
		var cts []string
		for _, p := range strings.Split(t[6:], ",") {
			ct, err := g.coqType(p)
			if err != nil {
				return "", false
			}
			cts = append(cts, ct)
		}
		return "(" + strings.Join(cts, " * ") + ")%type", true
	}
	return "", false
}

func (g *pg) topZero(t string) (string, bool) {
	switch {
	case t == ttFloat:
		return "(f_const v_fo 0)", true
	case t == ttFPt:
		return "((f_const v_fo 0), (f_const v_fo 0))", true
	case t == ttFLine:
		return "(((f_const v_fo 0), (f_const v_fo 0)), ((f_const v_fo 0), (f_const v_fo 0)))", true
	case t == ttError || strings.HasPrefix(t, "nptr:"):
		return "None", true
	case t == "struct:gotm":
		return "(mk_gotm 0%N)", true
	}
	return "", false
}

func (g *pg) topConv(v pgVal, ty string) (pgVal, bool) {
	switch {
	case v.ty == ltUntyped && v.c != nil && ty == ttFloat:
		return pgVal{code: "(f_const v_fo " + lgLit(v.c) + ")", ty: ttFloat}, true
	case v.ty == "nil" && (ty == ttError || strings.HasPrefix(ty, "nptr:")):
		return pgVal{code: "None", ty: ty}, true
	case v.ty == "struct:OutsideGridError" && ty == ttError:
		return pgVal{code: "(Some (ErrOf " + v.code + "))", ty: ttError}, true
	}
	return pgVal{}, false
}

// ---- expressions -----------------------------------------------------------------

// the receiver as a value: the record with the current values of the state fields
func (g *pg) topRecvCode() string {
	code := "v_" + g.recv
	for _, f := range g.topState.state {
		code = fmt.Sprintf("(PointIndexT_with_%s %s v_%s)", f, code, g.stateVar[f])
	}
	return code
}

func (g *pg) topIsRecv(env *pgEnv, x ast.Expr) bool {
	id, ok := x.(*ast.Ident)
	return ok && g.recv != "" && id.Name == g.recv && strings.HasPrefix(env.vars[g.recv], "ptr:")
}

func (g *pg) topExpr(env *pgEnv, x ast.Expr, binds *[]string) (pgVal, bool, error) {
	switch x := x.(type) {
	case *ast.BasicLit:
		if x.Kind == token.FLOAT { // an untyped floating-point constant with an integer value is also an integer constant
			r, ok := new(big.Rat).SetString(strings.ReplaceAll(x.Value, "_", ""))
			if !ok || !r.IsInt() {
				return pgVal{}, true, fmt.Errorf("unsupported float literal %s (only integer values)", x.Value)
			}
			z := new(big.Int).Set(r.Num())
			return pgVal{code: lgLit(z), ty: ltUntyped, c: z}, true, nil
		}
	case *ast.Ident:
		if g.topIsRecv(env, x) {
			return pgVal{code: g.topRecvCode(), ty: env.vars[g.recv]}, true, nil
		}
	case *ast.SelectorExpr:
		if g.topIsRecv(env, x.X) && g.stateOf(env, x) == "" { // a field the method does not assign: read from the receiver as passed
			v, err := g.field(pgVal{code: "v_" + g.recv, ty: env.vars[g.recv]}, x.Sel.Name)
			return v, true, err
		}
	case *ast.UnaryExpr:
		if x.Op == token.AND { // &x of a local struct variable (returned as the result)
			id, ok := x.X.(*ast.Ident)
			if !ok || !strings.HasPrefix(env.vars[id.Name], "struct:") {
				return pgVal{}, true, fmt.Errorf("unsupported & of %s", types.ExprString(x.X))
			}
			return pgVal{code: "(Some v_" + id.Name + ")", ty: "nptr:" + env.vars[id.Name][7:]}, true, nil
		}
	}
	return pgVal{}, false, nil
}

func (g *pg) topIndex(v, iv pgVal) (pgVal, bool, error) {
	if v.ty != ttFPt && v.ty != ttFLine {
		return pgVal{}, false, nil
	}
	if iv.c == nil || !(iv.ty == ltUntyped || iv.ty == ltInt) || !iv.c.IsInt64() || iv.c.Int64() < 0 || iv.c.Int64() > 1 {
		return pgVal{}, true, fmt.Errorf("unsupported index on %s", v.ty)
	}
	el := ttFloat
	if v.ty == ttFLine {
		el = ttFPt
	}
	return pgVal{code: "(" + []string{"fst", "snd"}[iv.c.Int64()] + " " + v.code + ")", ty: el}, true, nil
}

// err == nil / err != nil for a value of type error (or a nullable pointer)
func (g *pg) topNilTest(env *pgEnv, x *ast.BinaryExpr, binds *[]string) (pgVal, bool, error) {
	var other ast.Expr
	switch {
	case pgIsNil(env, x.Y):
		other = x.X
	case pgIsNil(env, x.X):
		other = x.Y
	default:
		return pgVal{}, false, nil
	}
	if _, isIx := other.(*ast.IndexExpr); isIx {
		return pgVal{}, false, nil
	}
	v, err := g.expr(env, other, binds)
	if err != nil {
		return pgVal{}, true, err
	}
	if v.ty != ttError && !strings.HasPrefix(v.ty, "nptr:") {
		return pgVal{}, true, fmt.Errorf("comparison of %s with nil", v.ty)
	}
	code := "(is_some " + v.code + ")"
	if x.Op == token.EQL {
		code = "(negb " + code + ")"
	}
	return pgVal{code: code, ty: ltBool}, true, nil
}

func (g *pg) topArith(op token.Token, a, b pgVal, binds *[]string) (pgVal, bool, error) {
	switch a.ty {
	case ttFloat:
		switch op {
		case token.MUL:
			return pgVal{code: "(f_mul v_fo " + a.code + " " + b.code + ")", ty: ttFloat}, true, nil
		case token.QUO:
			return pgVal{code: "(f_div v_fo " + a.code + " " + b.code + ")", ty: ttFloat}, true, nil
		}
		return pgVal{}, true, fmt.Errorf("operator %s on float64 is not supported", op)
	case ltInt64, ltInt: // two's complement, 64 bits
		switch op {
		case token.ADD:
			return pgVal{code: "(add64 " + a.code + " " + b.code + ")", ty: a.ty}, true, nil
		case token.SUB:
			return pgVal{code: "(sub64 " + a.code + " " + b.code + ")", ty: a.ty}, true, nil
		case token.MUL:
			return pgVal{code: "(mul64w " + a.code + " " + b.code + ")", ty: a.ty}, true, nil
		case token.QUO, token.REM: // division by zero panics
			t := g.fresh("t")
			f := "quot64"
			if op == token.REM {
				f = "rem64"
			}
			*binds = append(*binds, fmt.Sprintf("do %s <- %s %s %s;", t, f, a.code, b.code))
			return pgVal{code: t, ty: a.ty}, true, nil
		}
		return pgVal{}, true, fmt.Errorf("operator %s on %s is not supported", op, a.ty)
	}
	return pgVal{}, false, nil
}

// T{a, b} for the array types Point / Line / Extent of intgeom and [2]float64 / [2][2]float64
func (g *pg) topComposite(env *pgEnv, x *ast.CompositeLit, ty string, binds *[]string) (pgVal, bool, error) {
	var el string
	n := 2
	switch ty {
	case ltPt:
		el = ltInt64
	case ttFPt:
		el = ttFloat
	case ltLine:
		el = ltPt
	case ttFLine:
		el = ttFPt
	case ltExtent:
		el, n = ltInt64, 4
	default:
		return pgVal{}, false, nil
	}
	if len(x.Elts) != n {
		return pgVal{}, true, fmt.Errorf("literal of %s with %d of %d elements", ty, len(x.Elts), n)
	}
	var items []string
	for _, e := range x.Elts {
		if _, keyed := e.(*ast.KeyValueExpr); keyed {
			return pgVal{}, true, fmt.Errorf("keyed array literal")
		}
		var v pgVal
		var err error
		if cl, isLit := e.(*ast.CompositeLit); isLit && cl.Type == nil {
			v, err = g.composite(env, cl, el, binds)
		} else {
			v, err = g.expr(env, e, binds)
		}
		if err != nil {
			return pgVal{}, true, err
		}
		if v, err = g.conv(v, el); err != nil {
			return pgVal{}, true, err
		}
		items = append(items, v.code)
	}
	return pgVal{code: "(" + strings.Join(items, ", ") + ")", ty: ty}, true, nil
}

// a method of the receiver that is translated in the monad (with or without state)
func (g *pg) topMethodCall(env *pgEnv, name string, x *ast.CallExpr, wantResult bool, binds *[]string) (pgVal, error) {
	m := g.topState.methods[name]
	as, err := g.args(env, x.Args, m.params, name, binds)
	if err != nil {
		return pgVal{}, err
	}
	var pats []string
	for _, f := range m.state {
		sv, ok := g.stateVar[f]
		if !ok {
			return pgVal{}, fmt.Errorf("%s changes the field %s of the receiver, which is not a state field of the calling function", name, f)
		}
		pats = append(pats, "v_"+sv)
	}
	if (m.result != "") != wantResult {
		return pgVal{}, fmt.Errorf("call of %s: result used / not used", name)
	}
	t := ""
	if m.result != "" {
		t = g.fresh("t")
		pats = append(pats, t)
	}
	pat := pats[0]
	if len(pats) > 1 {
		pat = "(" + strings.Join(pats, ", ") + ")"
	}
	*binds = append(*binds, fmt.Sprintf("do %s <- %s %s;", pat, m.coq, strings.Join(append([]string{g.topRecvCode()}, as...), " ")))
	return pgVal{code: t, ty: m.result}, nil
}

func (g *pg) topCall(env *pgEnv, x *ast.CallExpr, binds *[]string) (pgVal, bool, error) {
	tc := g.topState
	switch f := x.Fun.(type) {
	case *ast.Ident:
		if _, shadow := env.vars[f.Name]; shadow {
			return pgVal{}, false, nil
		}
		switch f.Name {
		case "int", "int64", "float64", "uint":
			if len(x.Args) != 1 {
				return pgVal{}, true, fmt.Errorf("bad conversion")
			}
			var tmp []string
			v, err := g.expr(env, x.Args[0], &tmp)
			if err != nil {
				return pgVal{}, true, err
			}
			var out pgVal
			switch {
			case f.Name == "uint":
				if v.ty != ttFloat {
					return pgVal{}, false, nil // find.go
				}
				out = pgVal{code: "(f_to_uint64 v_fo " + v.code + ")", ty: ltUint}
			case f.Name == "float64":
				switch {
				case v.ty == ltUntyped && v.c != nil:
					out = pgVal{code: "(f_const v_fo " + lgLit(v.c) + ")", ty: ttFloat}
				case v.ty == ltInt64 || v.ty == ltInt:
					out = pgVal{code: "(f_of_int64 v_fo " + v.code + ")", ty: ttFloat}
				case v.ty == ltUint:
					out = pgVal{code: "(f_of_uint64 v_fo " + v.code + ")", ty: ttFloat}
				case v.ty == ttFloat:
					out = v
				default:
					return pgVal{}, true, fmt.Errorf("unsupported conversion float64(%s)", v.ty)
				}
			default: // int, int64: the same 64-bit two's complement values
				switch {
				case v.ty == ltUntyped && v.c != nil:
					c, err := g.conv(v, f.Name)
					if err != nil {
						return pgVal{}, true, err
					}
					out = c
				case v.ty == ltInt64 || v.ty == ltInt:
					out = pgVal{code: v.code, ty: f.Name}
				case v.ty == ltUint:
					out = pgVal{code: "(i64_of_N " + v.code + ")", ty: f.Name}
				case v.ty == ttFloat && f.Name == ltInt64:
					out = pgVal{code: "(f_to_int64 v_fo " + v.code + ")", ty: ltInt64}
				default:
					return pgVal{}, true, fmt.Errorf("unsupported conversion %s(%s)", f.Name, v.ty)
				}
			}
			*binds = append(*binds, tmp...)
			return out, true, nil
		case "make": // make([]T, n) with a length that is not the constant 0
			if len(x.Args) != 2 {
				return pgVal{}, false, nil
			}
			ty, err := g.goType(x.Args[0])
			if err != nil {
				return pgVal{}, false, nil
			}
			el, isSlice := pgSlice(ty)
			if !isSlice {
				return pgVal{}, false, nil
			}
			var tmp []string
			n, err := g.expr(env, x.Args[1], &tmp)
			if err != nil {
				return pgVal{}, true, err
			}
			if n.c != nil && n.c.Sign() == 0 {
				return pgVal{}, false, nil
			}
			if n, err = g.conv(n, ltInt); err != nil {
				return pgVal{}, true, fmt.Errorf("make: length: %v", err)
			}
			z, err := g.zero(el)
			if err != nil {
				return pgVal{}, true, err
			}
			*binds = append(*binds, tmp...)
			t := g.fresh("t")
			*binds = append(*binds, fmt.Sprintf("do %s <- make_slice %s %s;", t, z, n.code))
			return pgVal{code: t, ty: ty}, true, nil
		case "checkPointHits":
			return pgVal{}, true, fmt.Errorf("checkPointHits is only supported as a statement")
		}
		if ext, ok := g.externals[f.Name]; ok && ext.monad == "res" { // translated earlier in this file, in the monad
			as, err := g.args(env, x.Args, ext.params, f.Name, binds)
			if err != nil {
				return pgVal{}, true, err
			}
			t := g.fresh("t")
			*binds = append(*binds, fmt.Sprintf("do %s <- %s %s;", t, ext.coq, strings.Join(as, " ")))
			return pgVal{code: t, ty: ext.result}, true, nil
		}
	case *ast.SelectorExpr:
		if pkg, ok := f.X.(*ast.Ident); ok {
			if _, shadow := env.vars[pkg.Name]; !shadow {
				switch {
				case pkg.Name == tc.mathPkg && tc.mathPkg != "" && (f.Sel.Name == "Pow" || f.Sel.Name == "Log2"):
					n := map[string]int{"Pow": 2, "Log2": 1}[f.Sel.Name]
					ps := make([]string, n)
					for i := range ps {
						ps[i] = ttFloat
					}
					as, err := g.args(env, x.Args, ps, "math."+f.Sel.Name, binds)
					if err != nil {
						return pgVal{}, true, err
					}
					op := map[string]string{"Pow": "f_pow", "Log2": "f_log2"}[f.Sel.Name]
					return pgVal{code: "(" + op + " v_fo " + strings.Join(as, " ") + ")", ty: ttFloat}, true, nil
				case pkg.Name == tc.fmtPkg && tc.fmtPkg != "" && f.Sel.Name == "Errorf":
					// an error whose message is not modelled; the operands must be pure (variables, fields)
					for _, a := range x.Args {
						if bl, ok := a.(*ast.BasicLit); ok && bl.Kind == token.STRING {
							continue
						}
						var tmp []string
						if _, err := g.topPureOperand(env, a, &tmp); err != nil || len(tmp) != 0 {
							return pgVal{}, true, fmt.Errorf("fmt.Errorf: unsupported operand %s", types.ExprString(a))
						}
					}
					return pgVal{code: "(Some ErrOther)", ty: ttError}, true, nil
				}
			}
		}
		if g.topIsRecv(env, f.X) {
			if _, ok := tc.methods[f.Sel.Name]; ok {
				v, err := g.topMethodCall(env, f.Sel.Name, x, true, binds)
				return v, true, err
			}
		}
	}
	return pgVal{}, false, nil
}

// an operand of fmt.Errorf: a variable, or a field of the tile matrix set that the view does not carry (its ID)
func (g *pg) topPureOperand(env *pgEnv, a ast.Expr, binds *[]string) (pgVal, error) {
	if sel, ok := a.(*ast.SelectorExpr); ok {
		if id, ok := sel.X.(*ast.Ident); ok && env.vars[id.Name] == "struct:gotms" && sel.Sel.Name == "ID" {
			return pgVal{code: "tt", ty: "any"}, nil
		}
	}
	return g.expr(env, a, binds)
}

// ---- statements --------------------------------------------------------------

func (g *pg) topAssignedCall(n *ast.CallExpr, acc map[string]bool) {
	if g.recv == "" {
		return
	}
	switch f := n.Fun.(type) {
	case *ast.SelectorExpr:
		if id, ok := f.X.(*ast.Ident); ok && id.Name == g.recv {
			if m, ok := g.topState.methods[f.Sel.Name]; ok {
				for _, s := range m.state {
					acc[g.recv+"_"+s] = true
				}
			}
		}
	case *ast.Ident:
		if f.Name == "checkPointHits" {
			acc[g.recv+"_hitOnce"], acc[g.recv+"_hitMultiple"] = true, true
		}
	}
}

// the facts `m[k] was made` survive a loop whose body does not assign the variables of m[k]
func (g *pg) topKeepFacts(env *pgEnv, body []ast.Stmt) map[string]bool {
	asg := map[string]bool{}
	g.assigned(body, asg)
	keep := map[string]bool{}
	for k := range env.nonNil {
		ok := !asg["?"]
		for _, w := range strings.FieldsFunc(k, func(r rune) bool { return r == '.' || r == '[' || r == ']' }) {
			if asg[w] {
				ok = false
			}
		}
		if ok {
			keep[k] = true
		}
	}
	return keep
}

func (g *pg) topExprStmt(env *pgEnv, es *ast.ExprStmt, rest []ast.Stmt, k lcont, ctx *pgCtx) (string, error) {
	call, ok := es.X.(*ast.CallExpr)
	if !ok || call.Ellipsis != token.NoPos {
		return "", fmt.Errorf("unsupported expression statement at %s", g.fset.Position(es.Pos()))
	}
	var binds []string
	switch f := call.Fun.(type) {
	case *ast.SelectorExpr:
		if g.topIsRecv(env, f.X) {
			if _, ok := g.topState.methods[f.Sel.Name]; ok {
				if _, err := g.topMethodCall(env, f.Sel.Name, call, false, &binds); err != nil {
					return "", err
				}
				body, err := g.stmts(env, rest, k, ctx)
				if err != nil {
					return "", err
				}
				return pgJoin(binds, body), nil
			}
		}
	case *ast.Ident:
		if _, shadow := env.vars[f.Name]; !shadow && f.Name == "checkPointHits" {
			// checkPointHits(ix, vertex, ringID, level) reads the inner maps ix.hitOnce[level] and ix.hitMultiple[level] (its
			// first two statements, hits.go) and writes through them: gen_checkPointHits takes and returns their contents
			if len(call.Args) != 4 || !g.topIsRecv(env, call.Args[0]) {
				return "", fmt.Errorf("checkPointHits is not called on the receiver")
			}
			once, okO := g.stateVar["hitOnce"]
			multi, okM := g.stateVar["hitMultiple"]
			if !okO || !okM {
				return "", fmt.Errorf("checkPointHits: hitOnce / hitMultiple are not state fields of the calling function")
			}
			lv := types.ExprString(call.Args[3])
			for _, fld := range []string{"hitOnce", "hitMultiple"} {
				if !env.nonNil[g.recv+"."+fld+"["+lv+"]"] {
					return "", fmt.Errorf("checkPointHits: %s.%s[%s] is not known to have been made (a write to a nil map panics)", g.recv, fld, lv)
				}
			}
			as, err := g.args(env, call.Args[1:], []string{ltPt, ltInt, ltUint}, "checkPointHits", &binds)
			if err != nil {
				return "", err
			}
			h1, h2 := g.fresh("h"), g.fresh("h")
			binds = append(binds,
				fmt.Sprintf("do (%s, %s) <- gen_checkPointHits (gm_get_or N.eqb (@nil ((Z * Z)%%type * (list Z))) v_%s %s) (gm_get_or N.eqb (@nil ((Z * Z)%%type * (list Z))) v_%s %s) %s %s;",
					h1, h2, once, as[2], multi, as[2], as[0], as[1]),
				fmt.Sprintf("let v_%s := (gm_set N.eqb v_%s %s %s) in", once, once, as[2], h1),
				fmt.Sprintf("let v_%s := (gm_set N.eqb v_%s %s %s) in", multi, multi, as[2], h2))
			body, err := g.stmts(env, rest, k, ctx)
			if err != nil {
				return "", err
			}
			return pgJoin(binds, body), nil
		}
	}
	return "", fmt.Errorf("unsupported call statement %s", types.ExprString(call.Fun))
}

func (g *pg) topResults() []string {
	r := g.cur.result
	if r == "" {
		return nil
	}
	if strings.HasPrefix(r, "tuple:") {
		return strings.Split(r[6:], ",")
	}
	return []string{r}
}

// the value a return statement hands back: the final values of the state fields, then the result(s)
func (g *pg) topRetValue(vals []string) string {
	var parts []string
	for _, r := range g.cur.refs {
		parts = append(parts, "v_"+r)
	}
	parts = append(parts, vals...)
	if len(parts) == 1 {
		return parts[0]
	}
	return "(" + strings.Join(parts, ", ") + ")"
}

func (g *pg) topRet(env *pgEnv, s *ast.ReturnStmt, ctx *pgCtx) (string, error) {
	want := g.topResults()
	if len(s.Results) != len(want) {
		return "", fmt.Errorf("return of %d values from a function with %d results", len(s.Results), len(want))
	}
	var binds []string
	var vals []string
	for i, rx := range s.Results {
		v, err := g.expr(env, rx, &binds)
		if err != nil {
			return "", err
		}
		if v.ty == "nil" {
			if _, _, isMap := pgMap(want[i]); isMap {
				z, err := g.zero(want[i])
				if err != nil {
					return "", err
				}
				v = pgVal{code: z, ty: want[i]}
			}
		}
		if v, err = g.conv(v, want[i]); err != nil {
			return "", fmt.Errorf("return: %v", err)
		}
		vals = append(vals, v.code)
	}
	return pgJoin(binds, ctx.ret(g.topRetValue(vals))), nil
}

func (g *pg) topIncDec(env *pgEnv, s *ast.IncDecStmt, rest []ast.Stmt, k lcont, ctx *pgCtx) (string, bool, error) {
	id, ok := s.X.(*ast.Ident)
	if !ok || (env.vars[id.Name] != ltInt64 && env.vars[id.Name] != ltInt) {
		return "", false, nil
	}
	op := "add64"
	if s.Tok == token.DEC {
		op = "sub64"
	}
	env2 := env.clone()
	env2.forget(id.Name)
	body, err := g.stmts(env2, rest, k, ctx)
	if err != nil {
		return "", true, err
	}
	return fmt.Sprintf("let v_%s := (%s v_%s 1) in\n  %s", id.Name, op, id.Name, body), true, nil
}

func (g *pg) topAssign(env *pgEnv, s *ast.AssignStmt, rest []ast.Stmt, k lcont, ctx *pgCtx) (string, bool, error) {
	// x += e
	if s.Tok == token.ADD_ASSIGN || s.Tok == token.SUB_ASSIGN {
		if len(s.Lhs) != 1 || len(s.Rhs) != 1 {
			return "", true, fmt.Errorf("unsupported %s", s.Tok)
		}
		if _, ok := s.Lhs[0].(*ast.Ident); !ok {
			return "", true, fmt.Errorf("unsupported %s on %s", s.Tok, types.ExprString(s.Lhs[0]))
		}
		op := token.ADD
		if s.Tok == token.SUB_ASSIGN {
			op = token.SUB
		}
		plain := &ast.AssignStmt{Lhs: s.Lhs, TokPos: s.TokPos, Tok: token.ASSIGN,
			Rhs: []ast.Expr{&ast.BinaryExpr{X: s.Lhs[0], OpPos: s.TokPos, Op: op, Y: &ast.ParenExpr{X: s.Rhs[0]}}}}
		out, err := g.assign(env, plain, rest, k, ctx)
		return out, true, err
	}
	if s.Tok != token.DEFINE && s.Tok != token.ASSIGN {
		return "", false, nil
	}
	// s[i] = v on a slice variable
	if len(s.Lhs) == 1 && len(s.Rhs) == 1 && s.Tok == token.ASSIGN {
		if ix, ok := s.Lhs[0].(*ast.IndexExpr); ok {
			if id, ok := ix.X.(*ast.Ident); ok {
				if el, isSlice := pgSlice(env.vars[id.Name]); isSlice {
					var binds []string
					iv, err := g.expr(env, ix.Index, &binds)
					if err != nil {
						return "", true, err
					}
					if iv, err = g.conv(iv, ltInt); err != nil {
						return "", true, fmt.Errorf("index: %v", err)
					}
					v, err := g.expr(env, s.Rhs[0], &binds)
					if err != nil {
						return "", true, err
					}
					if v, err = g.conv(v, el); err != nil {
						return "", true, err
					}
					body, err := g.stmts(env, rest, k, ctx)
					if err != nil {
						return "", true, err
					}
					binds = append(binds, fmt.Sprintf("do v_%s <- setidx v_%s %s %s;", id.Name, id.Name, iv.code, v.code))
					return pgJoin(binds, body), true, nil
				}
			}
		}
		return "", false, nil
	}
	if len(s.Rhs) != 1 || len(s.Lhs) < 2 {
		return "", false, nil
	}
	if _, isIx := s.Rhs[0].(*ast.IndexExpr); isIx { // v, ok := m[k]
		return "", false, nil
	}
	// a, b [, c] := f(..)   /   _, x.f = f(..)   for a call with that many results
	var binds []string
	v, err := g.expr(env, s.Rhs[0], &binds)
	if err != nil {
		return "", true, err
	}
	if !strings.HasPrefix(v.ty, "tuple:") {
		return "", true, fmt.Errorf("assignment mismatch")
	}
	tys := strings.Split(v.ty[6:], ",")
	if len(tys) != len(s.Lhs) {
		return "", true, fmt.Errorf("assignment mismatch")
	}
	env2 := env.clone()
	var pats, lets []string
	for i, l := range s.Lhs {
		switch l := l.(type) {
		case *ast.Ident:
			if l.Name == "_" {
				pats = append(pats, "_")
				continue
			}
			if s.Tok == token.DEFINE {
				if _, exists := env.vars[l.Name]; exists {
					return "", true, fmt.Errorf(":= of the existing variable %s is not supported", l.Name)
				}
				if _, isConst := g.consts[l.Name]; isConst {
					return "", true, fmt.Errorf(":= shadows the constant %s", l.Name)
				}
				env2.declare(l.Name, tys[i])
			} else if env.vars[l.Name] != tys[i] || env.refs[l.Name] {
				return "", true, fmt.Errorf("unsupported assignment to %s", l.Name)
			}
			env2.forget(l.Name)
			pats = append(pats, "v_"+l.Name)
		case *ast.SelectorExpr: // x.f = .. for a local struct variable x (f may be a field of an embedded struct)
			id, ok := l.X.(*ast.Ident)
			if !ok || s.Tok != token.ASSIGN || !strings.HasPrefix(env.vars[id.Name], "struct:") {
				return "", true, fmt.Errorf("unsupported assignment target %s", types.ExprString(l))
			}
			t := g.fresh("t")
			set, fty, err := g.topSetField(env.vars[id.Name][7:], "v_"+id.Name, l.Sel.Name, t)
			if err != nil {
				return "", true, err
			}
			if fty != tys[i] {
				return "", true, fmt.Errorf("assignment of %s to %s", tys[i], types.ExprString(l))
			}
			pats = append(pats, t)
			lets = append(lets, fmt.Sprintf("let v_%s := %s in", id.Name, set))
		default:
			return "", true, fmt.Errorf("unsupported assignment target %s", types.ExprString(l))
		}
	}
	body, err := g.stmts(env2, rest, k, ctx)
	if err != nil {
		return "", true, err
	}
	return pgJoin(binds, fmt.Sprintf("let '(%s) := %s in\n  %s", strings.Join(pats, ", "), v.code, pgJoin(lets, body))), true, nil
}

// the record `rec` of struct sn with the field f (possibly promoted from an embedded struct) replaced by val
func (g *pg) topSetField(sn, rec, f, val string) (string, string, error) {
	for _, fl := range g.structs[sn] {
		if fl.name == f {
			return fmt.Sprintf("(%s_with_%s %s %s)", sn, f, rec, val), fl.ty, nil
		}
	}
	for _, fl := range g.structs[sn] {
		if strings.HasPrefix(fl.ty, "struct:") && fl.name == fl.ty[7:] {
			for _, f2 := range g.structs[fl.name] {
				if f2.name == f {
					return fmt.Sprintf("(%s_with_%s %s (%s_with_%s (%s_%s %s) %s))", sn, fl.name, rec, fl.name, f, sn, fl.name, rec, val), f2.ty, nil
				}
			}
		}
	}
	return "", "", fmt.Errorf("unknown field %s.%s", sn, f)
}

// for k, v := range m over a map: Go visits every entry once, in an order it does not define; the body must not assign m.
// Translated as range_loop over `v_ord n _ _ m` (n = number of the statement), v_ord being a parameter of the function.
func (g *pg) topRangeMap(env *pgEnv, s *ast.RangeStmt, xs pgVal, binds []string, after lcont, ctx *pgCtx) (string, error) {
	tc := g.topState
	if !tc.useOrd {
		return "", fmt.Errorf("range over a map: the iteration order is not defined")
	}
	if ctx.brk != nil || ctx.cont != nil {
		return "", fmt.Errorf("range over a map inside a loop is not supported")
	}
	mid, ok := s.X.(*ast.Ident)
	if !ok {
		return "", fmt.Errorf("range over a map that is not a variable")
	}
	kt, vt, _ := pgMap(xs.ty)
	key, ok1 := s.Key.(*ast.Ident)
	val, ok2 := s.Value.(*ast.Ident)
	if !ok1 || !ok2 || key.Name == "_" || val.Name == "_" || key.Name == val.Name {
		return "", fmt.Errorf("unsupported range over a map (key and element variables expected)")
	}
	for _, n := range []string{key.Name, val.Name} {
		if _, exists := env.vars[n]; exists {
			return "", fmt.Errorf("range variable %s shadows a variable", n)
		}
		if _, isConst := g.consts[n]; isConst {
			return "", fmt.Errorf("range variable %s shadows a constant", n)
		}
	}
	asg := map[string]bool{}
	g.assigned(s.Body.List, asg)
	if asg["?"] || asg[key.Name] || asg[val.Name] || asg[mid.Name] {
		return "", fmt.Errorf("range over a map: unsupported assignment target (the map itself, a range variable)")
	}
	var state, sty []string
	for _, v := range env.order {
		if asg[v] {
			ct, err := g.coqType(env.vars[v])
			if err != nil {
				return "", err
			}
			state = append(state, "v_"+v)
			sty = append(sty, ct)
		}
	}
	if len(state) == 0 {
		return "", fmt.Errorf("range loop that assigns nothing")
	}
	tuple, pattern := state[0], fmt.Sprintf("(%s : %s)", state[0], sty[0])
	if len(state) > 1 {
		tuple = "(" + strings.Join(state, ", ") + ")"
		pattern = fmt.Sprintf("'(%s : (%s)%%type)", tuple, strings.Join(sty, " * "))
	}
	bodyEnv := env.clone()
	bodyEnv.nonNil = g.topKeepFacts(env, s.Body.List)
	bodyEnv.declare(key.Name, kt)
	bodyEnv.declare(val.Name, vt)
	inner := &pgCtx{
		ret:  func(v string) string { return "Ok (RRet " + v + ")" },
		brk:  func() (string, error) { return "Ok (Brk " + tuple + ")", nil },
		cont: func() (string, error) { return "Ok (Cont " + tuple + ")", nil },
	}
	k := lcont{gen: func() (string, error) { return "Ok (Cont " + tuple + ")", nil }, cheap: true}
	body, err := g.stmts(bodyEnv, s.Body.List, k, inner)
	if err != nil {
		return "", err
	}
	rest, err := after.gen()
	if err != nil {
		return "", err
	}
	kct, err := g.coqType(kt)
	if err != nil {
		return "", err
	}
	vct, err := g.coqType(vt)
	if err != nil {
		return "", err
	}
	tc.ordN++
	out, r := g.fresh("out"), g.fresh("r")
	binds = append(binds, fmt.Sprintf("do %s <- range_loop (R := %s) (fun '((v_%s, v_%s) : (%s * %s)%%type) %s =>\n    %s) (v_ord %d%%nat _ _ %s) %s;",
		out, g.cur.retCoq, key.Name, val.Name, kct, vct, pattern, body, tc.ordN, xs.code, tuple))
	return pgJoin(binds, fmt.Sprintf("match %s with\n  | Ret %s => %s\n  | Next %s => %s\n  end", out, r, ctx.ret(r), tuple, rest)), nil
}

// ---- functions -----------------------------------------------------------------

type topSpec struct {
	name    string
	coqName string
	state   []string // fields of the receiver (maps) the method changes, itself or through the methods it calls
	ord     bool     // ranges over a map
}

// topFunction: pg.function for the entry points: v_fo (and v_ord) as first parameters, one or two results, a result
// beside the final values of the state fields.
func (g *pg) topFunction(spec topSpec) error {
	tc := g.topState
	fd, ok := g.funcs[spec.name]
	if !ok {
		return fmt.Errorf("function %s not found", spec.name)
	}
	if fd.Type.TypeParams != nil || fd.Body == nil {
		return fmt.Errorf("%s: unsupported declaration", spec.name)
	}
	sig := &pgSig{name: spec.name, coqName: spec.coqName}
	env := &pgEnv{vars: map[string]string{}, refs: map[string]bool{}, nonNil: map[string]bool{}}
	g.recv, g.stateVar = "", map[string]string{}
	g.okAppend, g.mapParams = map[*ast.CallExpr]bool{}, map[string]bool{}
	tc.state, tc.useOrd, tc.ordN = spec.state, spec.ord, 0
	env.declare("fo", "floatops")
	params := []string{"(v_fo : floatops)"}
	if spec.ord {
		env.declare("ord", "goorder")
		params = append(params, "(v_ord : goorder)")
	}
	if fd.Recv != nil {
		if len(fd.Recv.List) != 1 || len(fd.Recv.List[0].Names) != 1 || fd.Recv.List[0].Names[0].Name == "_" {
			return fmt.Errorf("%s: unsupported receiver", spec.name)
		}
		t, err := g.goType(fd.Recv.List[0].Type)
		if err != nil || !strings.HasPrefix(t, "ptr:") {
			return fmt.Errorf("%s: unsupported receiver type", spec.name)
		}
		g.recv = fd.Recv.List[0].Names[0].Name
		if _, dup := env.vars[g.recv]; dup {
			return fmt.Errorf("%s: unsupported receiver name %s", spec.name, g.recv)
		}
		env.declare(g.recv, t)
		sig.params = append(sig.params, lfield{g.recv, t})
	} else if len(spec.state) != 0 {
		return fmt.Errorf("%s: state fields without a receiver", spec.name)
	}
	for _, f := range fd.Type.Params.List {
		t, err := g.goType(f.Type)
		if err != nil {
			return fmt.Errorf("%s: parameter: %v", spec.name, err)
		}
		if len(f.Names) == 0 {
			return fmt.Errorf("%s: unnamed parameter", spec.name)
		}
		for _, n := range f.Names {
			if _, dup := env.vars[n.Name]; dup || n.Name == "_" {
				return fmt.Errorf("%s: unsupported parameter name %s", spec.name, n.Name)
			}
			env.declare(n.Name, t)
			sig.params = append(sig.params, lfield{n.Name, t})
			if _, _, isMap := pgMap(t); isMap {
				g.mapParams[n.Name] = true
			}
		}
	}
	var results []string
	if fd.Type.Results != nil {
		for _, f := range fd.Type.Results.List {
			if len(f.Names) != 0 {
				return fmt.Errorf("%s: named results are not supported", spec.name)
			}
			t, err := g.goType(f.Type)
			if err != nil {
				return fmt.Errorf("%s: result: %v", spec.name, err)
			}
			if strings.HasPrefix(t, "ptr:") { // a pointer that is returned may be nil
				t = "nptr:" + t[4:]
			}
			results = append(results, t)
		}
	}
	switch len(results) {
	case 0:
	case 1:
		sig.result = results[0]
	default:
		sig.result = "tuple:" + strings.Join(results, ",")
	}
	for _, p := range sig.params {
		ct, err := g.coqType(p.ty)
		if err != nil {
			return fmt.Errorf("%s: %v", spec.name, err)
		}
		params = append(params, fmt.Sprintf("(v_%s : %s)", p.name, ct))
	}
	var rcts []string
	var stateLets []string
	g.cur, g.n, g.loopN, g.pre = sig, 0, 0, nil
	for _, f := range spec.state {
		fv, err := g.field(pgVal{code: "v_" + g.recv, ty: env.vars[g.recv]}, f)
		if err != nil {
			return fmt.Errorf("%s: %v", spec.name, err)
		}
		if _, _, isMap := pgMap(fv.ty); !isMap {
			return fmt.Errorf("%s: the state field %s is not a map", spec.name, f)
		}
		name := g.recv + "_" + f
		if _, exists := env.vars[name]; exists {
			return fmt.Errorf("%s: the name %s is taken", spec.name, name)
		}
		env.declare(name, fv.ty)
		g.stateVar[f] = name
		sig.refs = append(sig.refs, name)
		stateLets = append(stateLets, fmt.Sprintf("let v_%s := %s in", name, fv.code))
		ct, err := g.coqType(fv.ty)
		if err != nil {
			return err
		}
		rcts = append(rcts, ct)
	}
	for _, r := range results {
		ct, err := g.coqType(r)
		if err != nil {
			return fmt.Errorf("%s: %v", spec.name, err)
		}
		rcts = append(rcts, ct)
	}
	switch len(rcts) {
	case 0:
		return fmt.Errorf("%s: a function without result and without effect", spec.name)
	case 1:
		sig.retCoq = rcts[0]
	default:
		sig.retCoq = "(" + strings.Join(rcts, " * ") + ")%type"
	}
	top := &pgCtx{ret: func(v string) string { return "Ok " + v }}
	fall := lcont{gen: func() (string, error) {
		if sig.result == "" {
			return top.ret(g.topRetValue(nil)), nil
		}
		return "", fmt.Errorf("control reaches the end of the function without a return")
	}, cheap: true}
	code, err := g.stmts(env, fd.Body.List, fall, top)
	if err != nil {
		return fmt.Errorf("%s: %v", spec.name, err)
	}
	code = pgJoin(stateLets, code)
	pos := g.fset.Position(fd.Pos())
	for _, p := range g.pre {
		g.out.WriteString(p)
	}
	fmt.Fprintf(&g.out, "(* %s:%d func %s *)\nDefinition %s %s : res %s :=\n  %s.\n\n",
		filepath.Base(pos.Filename), pos.Line, spec.name, spec.coqName, strings.Join(params, " "), sig.retCoq, code)
	// callable from the functions translated after it
	var ps []string
	for _, p := range sig.params {
		ps = append(ps, p.ty)
	}
	coq := spec.coqName + " v_fo"
	if spec.ord {
		coq += " v_ord"
	}
	if g.recv != "" {
		short := spec.name[strings.Index(spec.name, ".")+1:]
		tc.methods[short] = topMethod{coq: coq, params: ps[1:], result: sig.result, state: spec.state}
	} else {
		g.externals[spec.name] = pgExternal{params: ps, result: sig.result, coq: coq, monad: "res"}
	}
	return nil
}

// topPure: a function whose body is `return e`, possibly behind `if c { return e' }` and `x := e` statements, none of
// which can panic, as a plain Gallina definition; registered as an external of g and of every generator in `also`.
func (g *pg) topPure(key, coqName string, also ...*pg) error {
	fd, ok := g.funcs[key]
	if !ok {
		return fmt.Errorf("function %s not found", key)
	}
	if fd.Type.TypeParams != nil || fd.Body == nil {
		return fmt.Errorf("%s: unsupported declaration", key)
	}
	env := &pgEnv{vars: map[string]string{}, refs: map[string]bool{}, nonNil: map[string]bool{}}
	g.recv, g.stateVar = "", map[string]string{}
	g.okAppend, g.mapParams = map[*ast.CallExpr]bool{}, map[string]bool{}
	var ps []lfield
	recvTy := ""
	if fd.Recv != nil {
		if len(fd.Recv.List) != 1 || len(fd.Recv.List[0].Names) != 1 || fd.Recv.List[0].Names[0].Name == "_" {
			return fmt.Errorf("%s: unsupported receiver", key)
		}
		t, err := g.goType(fd.Recv.List[0].Type)
		if err != nil || (t != ltPt && t != ltLine && t != ltExtent) {
			return fmt.Errorf("%s: unsupported receiver type", key)
		}
		recvTy = t
		env.declare(fd.Recv.List[0].Names[0].Name, t)
		ps = append(ps, lfield{fd.Recv.List[0].Names[0].Name, t})
	}
	for _, f := range fd.Type.Params.List {
		t, err := g.goType(f.Type)
		if err != nil {
			return fmt.Errorf("%s: parameter: %v", key, err)
		}
		if len(f.Names) == 0 {
			return fmt.Errorf("%s: unnamed parameter", key)
		}
		for _, n := range f.Names {
			if _, dup := env.vars[n.Name]; dup || n.Name == "_" || n.Name == "fo" {
				return fmt.Errorf("%s: unsupported parameter name %s", key, n.Name)
			}
			env.declare(n.Name, t)
			ps = append(ps, lfield{n.Name, t})
		}
	}
	if fd.Type.Results == nil || len(fd.Type.Results.List) != 1 || len(fd.Type.Results.List[0].Names) != 0 {
		return fmt.Errorf("%s: exactly one unnamed result expected", key)
	}
	result, err := g.goType(fd.Type.Results.List[0].Type)
	if err != nil {
		return fmt.Errorf("%s: result: %v", key, err)
	}
	g.cur, g.n = &pgSig{name: key, coqName: coqName, result: result}, 0
	body, err := g.topPureStmts(env, fd.Body.List, result)
	if err != nil {
		return fmt.Errorf("%s: %v", key, err)
	}
	rct, err := g.coqType(result)
	if err != nil {
		return err
	}
	var params, ptys []string
	for _, p := range ps {
		ct, err := g.coqType(p.ty)
		if err != nil {
			return err
		}
		params = append(params, fmt.Sprintf("(v_%s : %s)", p.name, ct))
		ptys = append(ptys, p.ty)
	}
	coq := coqName
	if strings.Contains(strings.Join(params, " ")+rct+body, "v_fo") {
		params = append([]string{"(v_fo : floatops)"}, params...)
		coq += " v_fo"
	}
	pos := g.fset.Position(fd.Pos())
	fmt.Fprintf(&g.out, "(* %s:%d func %s *)\nDefinition %s %s : %s :=\n  %s.\n\n", filepath.Base(pos.Filename), pos.Line, key, coqName, strings.Join(params, " "), rct, body)
	ext := pgExternal{params: ptys, result: result, coq: coq}
	if recvTy != "" { // a method: called as v.m(..), methodCall looks it up by the type of v
		mk := recvTy + "." + fd.Name.Name
		g.externals[mk] = ext
		for _, o := range also {
			o.externals[mk] = ext
		}
		return nil
	}
	g.externals[fd.Name.Name] = ext
	for _, o := range also {
		o.externals[o.geomName+"."+fd.Name.Name] = ext
	}
	return nil
}

func (g *pg) topPureStmts(env *pgEnv, list []ast.Stmt, result string) (string, error) {
	if len(list) == 0 {
		return "", fmt.Errorf("control reaches the end of the function without a return")
	}
	var binds []string
	switch s := list[0].(type) {
	case *ast.ReturnStmt:
		if len(s.Results) != 1 || len(list) != 1 {
			return "", fmt.Errorf("unsupported return")
		}
		v, err := g.expr(env, s.Results[0], &binds)
		if err != nil {
			return "", err
		}
		if v, err = g.conv(v, result); err != nil {
			return "", fmt.Errorf("return: %v", err)
		}
		if len(binds) != 0 {
			return "", fmt.Errorf("an expression that can panic in a function translated as a pure definition")
		}
		return v.code, nil
	case *ast.IfStmt:
		if s.Init != nil || s.Else != nil || !pgTerminates(s.Body.List) {
			return "", fmt.Errorf("unsupported if statement (expected `if c { ..; return e }`)")
		}
		c, err := g.expr(env, s.Cond, &binds)
		if err != nil {
			return "", err
		}
		if c.ty != ltBool || len(binds) != 0 {
			return "", fmt.Errorf("unsupported condition")
		}
		a, err := g.topPureStmts(env.clone(), s.Body.List, result)
		if err != nil {
			return "", err
		}
		b, err := g.topPureStmts(env, list[1:], result)
		if err != nil {
			return "", err
		}
		return fmt.Sprintf("if %s then (%s)\n  else (%s)", c.code, a, b), nil
	case *ast.AssignStmt:
		if s.Tok != token.DEFINE || len(s.Lhs) != 1 || len(s.Rhs) != 1 {
			return "", fmt.Errorf("unsupported assignment")
		}
		id, ok := s.Lhs[0].(*ast.Ident)
		if !ok || id.Name == "_" {
			return "", fmt.Errorf("unsupported assignment target")
		}
		if _, exists := env.vars[id.Name]; exists {
			return "", fmt.Errorf(":= of the existing variable %s", id.Name)
		}
		if _, isConst := g.consts[id.Name]; isConst {
			return "", fmt.Errorf(":= shadows the constant %s", id.Name)
		}
		v, err := g.expr(env, s.Rhs[0], &binds)
		if err != nil {
			return "", err
		}
		if v.ty == ltUntyped || v.ty == "nil" || len(binds) != 0 {
			return "", fmt.Errorf("unsupported right-hand side")
		}
		env2 := env.clone()
		env2.declare(id.Name, v.ty)
		rest, err := g.topPureStmts(env2, list[1:], result)
		if err != nil {
			return "", err
		}
		return fmt.Sprintf("let v_%s := %s in\n  %s", id.Name, v.code, rest), nil
	}
	return "", fmt.Errorf("unsupported statement %T in a function translated as a pure definition", list[0])
}

// ---- loading -------------------------------------------------------------------

// package intgeom: all non-test files, the functions keyed by "f" / "T.m", the untyped integer constants
func topLoadIntgeom(repo string) (*pg, error) {
	if err := lgCheckGeom(repo); err != nil {
		return nil, err
	}
	g := &pg{fset: token.NewFileSet(), funcs: map[string]*ast.FuncDecl{}, structs: map[string][]lfield{},
		structPos: map[string]token.Pos{}, aliases: map[string]string{}, consts: map[string]*big.Int{},
		externals: map[string]pgExternal{}, sigs: map[string]*pgSig{}}
	g.top, g.topState = true, &topCtx{local: true, methods: map[string]topMethod{}}
	names, err := filepath.Glob(filepath.Join(repo, "intgeom", "*.go"))
	if err != nil {
		return nil, err
	}
	sort.Strings(names)
	for _, fn := range names {
		if strings.HasSuffix(fn, "_test.go") {
			continue
		}
		f, err := parser.ParseFile(g.fset, fn, nil, 0)
		if err != nil {
			return nil, err
		}
		if f.Name.Name != "intgeom" {
			return nil, fmt.Errorf("%s: package %s", fn, f.Name.Name)
		}
		for _, im := range f.Imports {
			path := strings.Trim(im.Path.Value, `"`)
			name := path[strings.LastIndex(path, "/")+1:]
			if im.Name != nil {
				name = im.Name.Name
			}
			switch path {
			case "github.com/go-spatial/geom":
				if g.topState.spatial != "" && g.topState.spatial != name {
					return nil, fmt.Errorf("intgeom: go-spatial/geom imported under two names")
				}
				g.topState.spatial = name
			case "math":
				if g.topState.mathPkg != "" && g.topState.mathPkg != name {
					return nil, fmt.Errorf("intgeom: math imported under two names")
				}
				g.topState.mathPkg = name
			}
		}
		for _, d := range f.Decls {
			switch d := d.(type) {
			case *ast.FuncDecl:
				key := d.Name.Name
				if d.Recv != nil && len(d.Recv.List) == 1 {
					rt := d.Recv.List[0].Type
					if st, ok := rt.(*ast.StarExpr); ok {
						rt = st.X
					}
					if id, ok := rt.(*ast.Ident); ok {
						key = id.Name + "." + key
					}
				}
				if _, dup := g.funcs[key]; dup {
					return nil, fmt.Errorf("intgeom: %s declared twice", key)
				}
				g.funcs[key] = d
			case *ast.GenDecl:
				if d.Tok != token.CONST {
					continue
				}
				for _, sp := range d.Specs {
					vs := sp.(*ast.ValueSpec)
					if vs.Type != nil {
						continue
					}
					for i, n := range vs.Names {
						if i < len(vs.Values) {
							if bl, ok := vs.Values[i].(*ast.BasicLit); ok && bl.Kind == token.INT {
								if z, err := parseIntLit(bl.Value); err == nil {
									g.consts[n.Name] = z
								}
							}
						}
					}
				}
			}
		}
	}
	g.geomName = "\x00" // no package is intgeom here: its types are local (topGoType)
	return g, nil
}

// the declarations of tms20 that FromTileMatrixSet relies on
func topCheckTms(repo string) error {
	fset := token.NewFileSet()
	f, err := parser.ParseFile(fset, filepath.Join(repo, "tms20/tms20.go"), nil, 0)
	if err != nil {
		return err
	}
	geom := ""
	for _, im := range f.Imports {
		if strings.Trim(im.Path.Value, `"`) == "github.com/go-spatial/geom" {
			geom = "geom"
			if im.Name != nil {
				geom = im.Name.Name
			}
		}
	}
	found := map[string]bool{}
	for _, d := range f.Decls {
		switch d := d.(type) {
		case *ast.GenDecl:
			if d.Tok != token.TYPE {
				continue
			}
			for _, sp := range d.Specs {
				ts := sp.(*ast.TypeSpec)
				switch ts.Name.Name {
				case "TMID":
					if ts.Assign != token.NoPos && types.ExprString(ts.Type) == "int" {
						found["TMID"] = true
					}
				case "TileMatrixSet", "TileMatrix":
					st, ok := ts.Type.(*ast.StructType)
					if !ok {
						continue
					}
					for _, fl := range st.Fields.List {
						for _, n := range fl.Names {
							found[ts.Name.Name+"."+n.Name+":"+types.ExprString(fl.Type)] = true
						}
					}
				}
			}
		case *ast.FuncDecl:
			if d.Name.Name == "MatrixBoundingBox" && d.Recv != nil && len(d.Recv.List) == 1 {
				found["MatrixBoundingBox:"+types.ExprString(d.Recv.List[0].Type)+":"+types.ExprString(d.Type)] = true
			}
		}
	}
	for _, w := range []string{"TMID", "TileMatrixSet.TileMatrices:map[TMID]TileMatrix", "TileMatrix.TileWidth:uint",
		"MatrixBoundingBox:*TileMatrixSet:func(tmID TMID) (bottomLeft " + geom + ".Point, topRight " + geom + ".Point, err error)"} {
		if !found[w] {
			return fmt.Errorf("tms20: expected declaration %q not found", w)
		}
	}
	return nil
}

// `with` functions of a record: the record with one field replaced
func (g *pg) topEmitSetters(name string, only map[string]bool) error {
	fields := g.structs[name]
	for i, fl := range fields {
		if only != nil && !only[fl.name] {
			continue
		}
		ct, err := g.coqType(fl.ty)
		if err != nil {
			return err
		}
		var args []string
		for j, f2 := range fields {
			if i == j {
				args = append(args, "v")
			} else {
				args = append(args, fmt.Sprintf("(%s_%s r)", name, f2.name))
			}
		}
		fmt.Fprintf(&g.out, "Definition %s_with_%s (r : gen_%s) (v : %s) : gen_%s := mk_gen_%s %s.\n", name, fl.name, name, ct, name, name, strings.Join(args, " "))
	}
	g.out.WriteString("\n")
	return nil
}

var topHeader = []string{
	"(* GENERATED by /verif/translator (G2, indextop.go; engine find.go) from intgeom/*.go and pointindex/pointindex.go on every run -- do not edit.",
	"   Package intgeom: ToGeomOrd, FromGeomOrd, Point.ToGeomPoint, FromGeomPoint, FromGeomLine, Point.X / Y, Extent.MinX / MinY / MaxX / MaxY / XSpan",
	"   (plain definitions).  pointindex.go: floorDiv, InsertCoord, InsertPoint, InsertPolygon, SnapClosestPoints, GetHitMultiple,",
	"   FromTileMatrixSet (whole bodies, statement by statement, in the error monad).",
	"   Called as regenerated elsewhere (signatures checked): insertCoord, snapClosestPoints (DescentGen.v, through the projection",
	"   gen_descent_ix of the receiver), checkPointHits (HitsGen.v), getQuadrantExtentAndCentroid and mathhelp.Pow2 (PointIndexGen.v,",
	"   through the adapters of DescentGen.v).",
	"   MAPPED to hand-written support (Index/GoTop.v, Index/MachineInt.v, Prelude/GoAssoc.v, Prelude/GoLoop.v) -- trusted readings:",
	"   - float64 = the abstract type F v_fo; every float operation is a field of the record v_fo : floatops that every function takes:",
	"     float64(i) = f_of_int64 / f_of_uint64, int64(f) = f_to_int64, uint(f) = f_to_uint64, * and / = f_mul / f_div, math.Pow = f_pow,",
	"     math.Log2 = f_log2, an integer-valued constant used as a float64 = f_const; [2]float64 = geom.Point = a pair, [2][2]float64 = geom.Line;",
	"   - int64 / int arithmetic wraps at 64 bits: + - = add64 / sub64, x / y and x % y = quot64 / rem64 (Err DivZero for y = 0), x-- = sub64 x 1,",
	"     int(u) / int64(u) of a uint = i64_of_N, int(x) of an int64 = x;  uint / Level / morton.Z = N modulo 2^64 (as in DescentGen.v);",
	"   - a value of type error = option (goerr gen_OutsideGridError): nil = None, an OutsideGridError value e = Some (ErrOf e),",
	"     fmt.Errorf(..) = Some ErrOther (the message is not modelled; its operands are checked to be plain variables / fields);",
	"   - a method with receiver ix *PointIndex that changes maps of ix returns the final values of those maps before its result;",
	"     a call passes the receiver rebuilt from the current values (PointIndexT_with_..);",
	"     checkPointHits(ix, v, r, level) = gen_checkPointHits on the inner maps ix.hitOnce[level], ix.hitMultiple[level], written back",
	"     (accepted only after `if ix.hitOnce[level] == nil { ix.hitOnce[level] = make(..) }` and the same for hitMultiple);",
	"   - make([]T, n) = make_slice (n zero values), s[i] = v = setidx (Err IndexOutOfRange), len = zlen;",
	"   - `for level, quadrants := range quadrantsPerLevel` over a MAP = range_loop over (v_ord 1 _ _ quadrantsPerLevel): the caller chooses the",
	"     order; the theorems hold for every v_ord that permutes (goorder_ok);",
	"   - geom.Polygon (go-spatial) = [][][2]float64 and polygon.LinearRings() = go_LinearRings = the polygon itself;",
	"   - tms20.TileMatrixSet = the record gotms: its TileMatrices (the TileWidth of each) and the result of its method",
	"     MatrixBoundingBox per id (declarations checked in tms20.go; the method itself is regenerated in TmsAddrGen.v over Q);",
	"   - the loop over the levels of InsertPolygon = a Fixpoint on fuel deepestLevel + 2 (OutOfFuel stands for non-termination). *)",
}

func genIndexTop(repo string) (string, error) {
	// ---- package intgeom
	ig, err := topLoadIntgeom(repo)
	if err != nil {
		return "", err
	}
	g, err := pgLoad(repo)
	if err != nil {
		return "", err
	}
	g.top, g.topState = true, &topCtx{methods: map[string]topMethod{}}
	for _, im := range g.file.Imports {
		path := strings.Trim(im.Path.Value, `"`)
		name := path[strings.LastIndex(path, "/")+1:]
		if im.Name != nil {
			name = im.Name.Name
		}
		switch {
		case path == "github.com/go-spatial/geom":
			g.topState.spatial = name
		case path == "math":
			g.topState.mathPkg = name
		case path == "fmt":
			g.topState.fmtPkg = name
		case strings.HasSuffix(path, "/texel/tms20"):
			g.topState.tmsPkg = name
		}
	}
	if g.topState.spatial == "" || g.topState.mathPkg == "" || g.topState.fmtPkg == "" || g.topState.tmsPkg == "" {
		return "", fmt.Errorf("pointindex.go: import of go-spatial/geom, math, fmt or tms20 not found")
	}
	if g.aliases["Level"] != ltUint {
		return "", fmt.Errorf("type Level = uint not found")
	}
	if g.mortonName == "" || g.mathName == "" {
		return "", fmt.Errorf("import of morton / mathhelp not found")
	}
	for _, p := range []struct{ key, coq string }{
		{"ToGeomOrd", "gen_ToGeomOrd"}, {"FromGeomOrd", "gen_FromGeomOrd"},
		{"Point.ToGeomPoint", "gen_Point_ToGeomPoint"}, {"FromGeomPoint", "gen_FromGeomPoint"}, {"FromGeomLine", "gen_FromGeomLine"},
		{"Point.X", "gen_Point_X"}, {"Point.Y", "gen_Point_Y"},
		{"Extent.MinX", "gen_Extent_MinX"}, {"Extent.MinY", "gen_Extent_MinY"}, {"Extent.MaxX", "gen_Extent_MaxX"}, {"Extent.MaxY", "gen_Extent_MaxY"},
		{"Extent.XSpan", "gen_Extent_XSpan"},
	} {
		if err := ig.topPure(p.key, p.coq, g); err != nil {
			return "", fmt.Errorf("intgeom: %v", err)
		}
	}

	// ---- pointindex.go
	if err := topCheckTms(repo); err != nil {
		return "", err
	}
	if err := pgCheckPow2(repo); err != nil {
		return "", err
	}
	for _, s := range []string{"Quadrant", "OutsideGridError"} {
		if err := g.loadStruct(s, nil); err != nil {
			return "", err
		}
	}
	if err := g.loadStruct("PointIndex", nil); err != nil {
		return "", err
	}
	g.structs["PointIndexT"], g.structPos["PointIndexT"] = g.structs["PointIndex"], g.structPos["PointIndex"]
	delete(g.structs, "PointIndex")
	hitTy := "map:" + ltUint + "|map:" + ltPt + "|slice:" + ltInt
	want := map[string]string{"Quadrant": "struct:Quadrant", "deepestLevel": ltUint, "deepestSize": ltUint, "deepestRes": ltInt64,
		"quadrants": "map:" + ltUint + "|map:" + ltUint + "|struct:Quadrant", "hitOnce": hitTy, "hitMultiple": hitTy}
	if len(g.structs["PointIndexT"]) != len(want) {
		return "", fmt.Errorf("PointIndex: %d fields, the translation assumes %d", len(g.structs["PointIndexT"]), len(want))
	}
	for _, f := range g.structs["PointIndexT"] {
		if f.ty != want[f.name] {
			return "", fmt.Errorf("PointIndex.%s has type %s, the translation assumes %s", f.name, f.ty, want[f.name])
		}
	}
	// OutsideGridError implements error
	if fd, ok := g.funcs["OutsideGridError.Error"]; !ok || types.ExprString(fd.Type) != "func() string" {
		return "", fmt.Errorf("OutsideGridError does not implement error")
	}
	// the view of a tile matrix set
	g.structs["gotms"] = []lfield{{"TileMatrices", "map:" + ltInt + "|struct:gotm"}}
	g.structs["gotm"] = []lfield{{"TileWidth", ltUint}}
	g.externals["gotms.MatrixBoundingBox"] = pgExternal{params: []string{"struct:gotms", ltInt}, result: "tuple:" + ttFPt + "," + ttFPt + "," + ttError, coq: "gotms_MatrixBoundingBox"}
	// go-spatial: Polygon.LinearRings
	g.externals["slice:"+ttFPt+".LinearRings"] = pgExternal{params: []string{"slice:slice:" + ttFPt}, result: "slice:slice:" + ttFPt, coq: "go_LinearRings"}
	// regenerated elsewhere
	if err := g.checkSig("PointIndex.getQuadrantExtentAndCentroid", []string{"ptr:PointIndexT", ltUint, ltUint, ltUint, ltExtent}, "tuple:"+ltExtent+","+ltPt); err != nil {
		return "", err
	}
	g.externals["PointIndexT.getQuadrantExtentAndCentroid"] = pgExternal{params: []string{"ptr:PointIndexT", ltUint, ltUint, ltUint, ltExtent},
		result: "tuple:" + ltExtent + "," + ltPt, coq: "gen_getQuadrantExtentAndCentroid_T"}
	g.externals[g.mathName+".Pow2"] = pgExternal{params: []string{ltUint}, result: ltUint, coq: "gen_Pow2_uint"}
	if err := g.checkSig("PointIndex.insertCoord", []string{"ptr:PointIndexT", ltInt, ltInt}, ""); err != nil {
		return "", err
	}
	g.topState.methods["insertCoord"] = topMethod{coq: "gen_insertCoord_T", params: []string{ltInt, ltInt}, state: []string{"quadrants"}}
	if err := g.checkSig("PointIndex.snapClosestPoints", []string{"ptr:PointIndexT", ltLine, "map:" + ltUint + "|any"}, "map:"+ltUint+"|slice:struct:Quadrant"); err != nil {
		return "", err
	}
	g.topState.methods["snapClosestPoints"] = topMethod{coq: "gen_snapClosestPoints_T", params: []string{ltLine, "map:" + ltUint + "|any"},
		result: "map:" + ltUint + "|slice:struct:Quadrant"}
	if err := g.checkSig("checkPointHits", []string{"ptr:PointIndexT", ltPt, ltInt, ltUint}, ""); err != nil {
		return "", err
	}
	g.fuel = map[string][]string{"PointIndex.InsertPolygon": {"(S (S (N.to_nat (PointIndexT_deepestLevel v_ix))))"}}

	var out strings.Builder
	out.WriteString(strings.Join(topHeader, "\n") + "\n")
	out.WriteString("From Coq Require Import ZArith NArith List Bool.\n")
	out.WriteString("From Texel Require Import Prelude.Base Prelude.GoLoop Prelude.GoAssoc Bits.Bexpr Bits.Morton Index.MachineInt Index.GoTop.\n")
	out.WriteString("From Texel.Gen Require Import PointIndexGen LineGen ChildrenGen FindGen HitsGen DescentGen.\nImport ListNotations.\nOpen Scope Z_scope.\n\n")
	out.WriteString("(* ---- package intgeom ---- *)\n\n")
	out.WriteString(ig.out.String())
	out.WriteString("(* ---- pointindex.go ---- *)\n\n")
	if err := g.emitStruct("OutsideGridError"); err != nil {
		return "", err
	}
	if err := g.emitStruct("PointIndexT"); err != nil {
		return "", err
	}
	if err := g.topEmitSetters("Quadrant", map[string]bool{"intCentroid": true}); err != nil {
		return "", err
	}
	if err := g.topEmitSetters("PointIndexT", nil); err != nil {
		return "", err
	}
	// the receiver of the functions of DescentGen.v: the same fields, in the order of the declaration
	var proj []string
	for _, f := range g.structs["PointIndexT"] {
		if topDescentFields[f.name] {
			proj = append(proj, fmt.Sprintf("(PointIndexT_%s ix)", f.name))
		}
	}
	g.out.WriteString("(* adapters to the functions of DescentGen.v, whose receiver record carries the fields they use *)\n")
	fmt.Fprintf(&g.out, "Definition gen_descent_ix (ix : gen_PointIndexT) : gen_PointIndex := mk_gen_PointIndex %s.\n", strings.Join(proj, " "))
	g.out.WriteString("Definition gen_insertCoord_T (ix : gen_PointIndexT) (x y : Z) := gen_insertCoord (gen_descent_ix ix) x y.\n")
	g.out.WriteString("Definition gen_snapClosestPoints_T (ix : gen_PointIndexT) (l : ((Z * Z) * (Z * Z))%type) (lm : gomap N unit) := gen_snapClosestPoints (gen_descent_ix ix) l lm.\n")
	g.out.WriteString("Definition gen_getQuadrantExtentAndCentroid_T (ix : gen_PointIndexT) (level x y : N) (e : gen_extent) := gen_getQuadrantExtentAndCentroid_uint (gen_descent_ix ix) level x y e.\n\n")
	if err := g.topFunction(topSpec{name: "floorDiv", coqName: "gen_floorDiv64"}); err != nil {
		return "", err
	}
	for _, sp := range []topSpec{
		{name: "PointIndex.InsertCoord", coqName: "gen_InsertCoord", state: []string{"quadrants"}},
		{name: "PointIndex.InsertPoint", coqName: "gen_InsertPoint", state: []string{"quadrants"}},
		{name: "PointIndex.InsertPolygon", coqName: "gen_InsertPolygon", state: []string{"quadrants"}},
		{name: "PointIndex.SnapClosestPoints", coqName: "gen_SnapClosestPoints", state: []string{"hitOnce", "hitMultiple"}, ord: true},
		{name: "PointIndex.GetHitMultiple", coqName: "gen_GetHitMultiple"},
		{name: "FromTileMatrixSet", coqName: "gen_FromTileMatrixSet"},
	} {
		if err := g.topFunction(sp); err != nil {
			return "", err
		}
	}
	out.WriteString(g.out.String())
	return out.String(), nil
}
