package main

import (
	"fmt"
	"go/ast"
	"go/parser"
	"go/token"
	"go/types"
	"math/big"
	"path/filepath"
	"sort"
	"strings"
)

// ---------------------------------------------------------------------------
// G2 (machine integers): cmpProducts, paramBound.leavesRoomBelow and
// lineIntersects of pointindex.go -> gen/LineGen.v
//
// A typed translation of the Go subset these functions are written in.
//
//	types        int64, uint64 (-> Z with explicit wrap-around), int (constants only), bool,
//	             struct paramBound (-> a Coq record generated from the type declaration),
//	             []paramBound (-> list), intgeom.Line / Point / Extent (-> pairs / 4-tuple)
//	expressions  literals and untyped constants (folded exactly, as Go does), unary - !,
//	             + - * on int64/uint64 (-> add64/sub64/... of Index/MachineInt.v),
//	             comparisons (exact), && || , constant indexing of arrays, field selection,
//	             uint64(x) / int64(x), bits.Mul64, make([]T, 0, n), append(s, x),
//	             T{...} literals, calls of the functions/methods translated here
//	statements   x := e, x = e, parallel tuple assignment, (hi, lo) := call,
//	             if / else, switch with or without tag, return,
//	             for i := c0; i <op> c1; i++ with constant bounds (unrolled),
//	             for _, x := range slice with early return (-> range_ret), no loop-carried state
//
// Branch statements followed by more code bind the code that follows as a local
// function of the variables the branches assign (let k_n := fun ... => ...), so
// nothing is joined by hand and nothing is duplicated.  Anything outside the
// subset is an error: the generated file then does not compile and every
// theorem that depends on it fails.
// ---------------------------------------------------------------------------

const (
	ltInt64   = "int64"
	ltUint64  = "uint64"
	ltInt     = "int"
	ltUint    = "uint" // 64-bit unsigned, a Coq N (the morton package is modelled over N)
	ltBool    = "bool"
	ltUntyped = "untyped"
	ltLine    = "Line"
	ltPt      = "Pt"
	ltExtent  = "Extent"
)

type lval struct {
	code string
	ty   string
	c    *big.Int // value when the expression is an integer constant
}

type lfield struct {
	name string
	ty   string
}

type lsig struct {
	panics bool
	decl   *ast.FuncDecl
	recvTy string
	recv   string
	params []lfield
	result string
}

type lenv struct {
	vars   map[string]string
	consts map[string]*big.Int // unrolled loop variables (type int)
}

func (e *lenv) clone() *lenv {
	c := &lenv{vars: map[string]string{}, consts: map[string]*big.Int{}}
	for k, v := range e.vars {
		c.vars[k] = v
	}
	for k, v := range e.consts {
		c.consts[k] = v
	}
	return c
}

type lcont struct {
	gen   func() (string, error)
	cheap bool
}

type lg struct {
	fset       *token.FileSet
	structs    map[string][]lfield
	consts     map[string]*big.Int // package level untyped integer constants
	sigs       map[string]*lsig    // "f" or "T.m"
	emitted    map[string]bool
	bitsName   string
	mortonName string
	panics     bool // the function being translated can panic: its result is an option
	geomName   string
	n          int
	cur        *lsig
	out        strings.Builder
}

func isIntTy(t string) bool { return t == ltInt64 || t == ltUint64 || t == ltInt || t == ltUint }

func lgRange(t string) (lo, hi *big.Int) {
	one := big.NewInt(1)
	switch t {
	case ltInt64, ltInt:
		hi = new(big.Int).Lsh(one, 63)
		lo = new(big.Int).Neg(hi)
		hi = new(big.Int).Sub(hi, one)
	case ltUint64, ltUint:
		lo = big.NewInt(0)
		hi = new(big.Int).Sub(new(big.Int).Lsh(one, 64), one)
	}
	return
}

func lgLit(z *big.Int) string {
	if z.Sign() < 0 {
		return "(" + z.String() + ")"
	}
	return z.String()
}

func lgTypedLit(z *big.Int, ty string) string {
	if ty == ltUint {
		return z.String() + "%N"
	}
	return lgLit(z)
}

func lgZero(ty string) (string, error) {
	switch {
	case ty == ltUint:
		return "0%N", nil
	case isIntTy(ty):
		return "0", nil
	case ty == ltBool:
		return "false", nil
	}
	return "", fmt.Errorf("no zero value for %s", ty)
}

// lgArr splits "arr:<n>:<elem>".
func lgArr(t string) (int, string, bool) {
	if !strings.HasPrefix(t, "arr:") {
		return 0, "", false
	}
	rest := t[4:]
	i := strings.Index(rest, ":")
	n := 0
	fmt.Sscan(rest[:i], &n)
	return n, rest[i+1:], true
}

func (g *lg) coqType(t string) (string, error) {
	if _, el, ok := lgArr(t); ok {
		ct, err := g.coqType(el)
		if err != nil {
			return "", err
		}
		return "(list " + ct + ")", nil
	}
	switch {
	case t == ltUint:
		return "N", nil
	case isIntTy(t):
		return "Z", nil
	case t == ltBool:
		return "bool", nil
	case t == ltLine:
		return "gl_line", nil
	case t == ltPt:
		return "(Z * Z)%type", nil
	case t == ltExtent:
		return "gl_extent", nil
	case strings.HasPrefix(t, "struct:"):
		return "gen_" + t[7:], nil
	case strings.HasPrefix(t, "slice:"):
		return "(list gen_" + t[6:] + ")", nil
	}
	return "", fmt.Errorf("no Coq type for %s", t)
}

func (g *lg) goType(x ast.Expr) (string, error) {
	switch t := x.(type) {
	case *ast.Ident:
		switch t.Name {
		case "int64", "uint64", "int", "bool", "uint":
			return t.Name, nil
		}
		if _, ok := g.structs[t.Name]; ok {
			return "struct:" + t.Name, nil
		}
	case *ast.SelectorExpr:
		if id, ok := t.X.(*ast.Ident); ok && id.Name == g.geomName {
			switch t.Sel.Name {
			case "Line":
				return ltLine, nil
			case "Point":
				return ltPt, nil
			case "Extent":
				return ltExtent, nil
			case "M":
				return ltInt64, nil
			}
		}
		if id, ok := t.X.(*ast.Ident); ok && id.Name == g.mortonName && g.mortonName != "" && t.Sel.Name == "Z" {
			return ltUint, nil // type Z = uint (checked by lgCheckMorton)
		}
	case *ast.ArrayType:
		if t.Len == nil {
			if id, ok := t.Elt.(*ast.Ident); ok {
				if _, ok := g.structs[id.Name]; ok {
					return "slice:" + id.Name, nil
				}
			}
		} else if bl, ok := t.Len.(*ast.BasicLit); ok && bl.Kind == token.INT {
			n, err := parseIntLit(bl.Value)
			if err != nil || !n.IsInt64() || n.Int64() < 1 || n.Int64() > 64 {
				return "", fmt.Errorf("unsupported array length %s", bl.Value)
			}
			el, err := g.goType(t.Elt)
			if err != nil {
				return "", err
			}
			if !isIntTy(el) && el != ltBool {
				return "", fmt.Errorf("unsupported array element type %s", el)
			}
			return fmt.Sprintf("arr:%d:%s", n.Int64(), el), nil
		}
	}
	return "", fmt.Errorf("unsupported type %s", types.ExprString(x))
}

// conv gives an untyped constant the type it is used at, and otherwise demands equal types.
func (g *lg) conv(v lval, ty string) (lval, error) {
	if v.ty == ty {
		return v, nil
	}
	if v.ty == ltUntyped && isIntTy(ty) {
		lo, hi := lgRange(ty)
		if v.c.Cmp(lo) < 0 || v.c.Cmp(hi) > 0 {
			return lval{}, fmt.Errorf("constant %s overflows %s", v.c, ty)
		}
		return lval{code: lgTypedLit(v.c, ty), ty: ty, c: v.c}, nil
	}
	return lval{}, fmt.Errorf("type mismatch: %s used as %s", v.ty, ty)
}

func (g *lg) constVal(z *big.Int, ty string) (lval, error) {
	if ty != ltUntyped {
		lo, hi := lgRange(ty)
		if z.Cmp(lo) < 0 || z.Cmp(hi) > 0 {
			return lval{}, fmt.Errorf("constant %s overflows %s", z, ty)
		}
	}
	return lval{code: lgTypedLit(z, ty), ty: ty, c: z}, nil
}

func (g *lg) expr(env *lenv, x ast.Expr) (lval, error) {
	switch x := x.(type) {
	case *ast.ParenExpr:
		return g.expr(env, x.X)
	case *ast.BasicLit:
		if x.Kind != token.INT {
			return lval{}, fmt.Errorf("unsupported literal %s", x.Value)
		}
		z, err := parseIntLit(x.Value)
		if err != nil {
			return lval{}, err
		}
		return g.constVal(z, ltUntyped)
	case *ast.Ident:
		switch x.Name {
		case "true", "false":
			return lval{code: x.Name, ty: ltBool}, nil
		}
		if z, ok := env.consts[x.Name]; ok {
			return g.constVal(z, ltInt)
		}
		if t, ok := env.vars[x.Name]; ok {
			return lval{code: "v_" + x.Name, ty: t}, nil
		}
		if z, ok := g.consts[x.Name]; ok {
			return g.constVal(z, ltUntyped)
		}
		return lval{}, fmt.Errorf("unknown identifier %s", x.Name)
	case *ast.UnaryExpr:
		v, err := g.expr(env, x.X)
		if err != nil {
			return lval{}, err
		}
		switch x.Op {
		case token.NOT:
			if v.ty != ltBool {
				return lval{}, fmt.Errorf("! on %s", v.ty)
			}
			return lval{code: "(negb " + v.code + ")", ty: ltBool}, nil
		case token.SUB:
			if v.c != nil {
				return g.constVal(new(big.Int).Neg(v.c), v.ty)
			}
			switch v.ty {
			case ltInt64:
				return lval{code: "(neg64 " + v.code + ")", ty: ltInt64}, nil
			case ltUint64:
				return lval{code: "(uneg64 " + v.code + ")", ty: ltUint64}, nil
			}
			return lval{}, fmt.Errorf("unary - on %s", v.ty)
		case token.ADD:
			if isIntTy(v.ty) || v.ty == ltUntyped {
				return v, nil
			}
		}
		return lval{}, fmt.Errorf("unsupported unary %s on %s", x.Op, v.ty)
	case *ast.BinaryExpr:
		return g.binary(env, x)
	case *ast.IndexExpr:
		v, err := g.expr(env, x.X)
		if err != nil {
			return lval{}, err
		}
		iv, err := g.expr(env, x.Index)
		if err != nil {
			return lval{}, err
		}
		if iv.c == nil || !(iv.ty == ltUntyped || iv.ty == ltInt) {
			return lval{}, fmt.Errorf("index %s is not an integer constant", types.ExprString(x.Index))
		}
		if !iv.c.IsInt64() {
			return lval{}, fmt.Errorf("index out of range")
		}
		i := iv.c.Int64()
		switch {
		case v.ty == ltLine && i == 0:
			return lval{code: "(fst " + v.code + ")", ty: ltPt}, nil
		case v.ty == ltLine && i == 1:
			return lval{code: "(snd " + v.code + ")", ty: ltPt}, nil
		case v.ty == ltPt && i == 0:
			return lval{code: "(fst " + v.code + ")", ty: ltInt64}, nil
		case v.ty == ltPt && i == 1:
			return lval{code: "(snd " + v.code + ")", ty: ltInt64}, nil
		case v.ty == ltExtent && 0 <= i && i < 4:
			return lval{code: fmt.Sprintf("(gl_ext%d %s)", i, v.code), ty: ltInt64}, nil
		}
		if n, el, ok := lgArr(v.ty); ok && 0 <= i && i < int64(n) {
			z, err := lgZero(el)
			if err != nil {
				return lval{}, err
			}
			return lval{code: fmt.Sprintf("(nth %d%%nat %s %s)", i, v.code, z), ty: el}, nil
		}
		return lval{}, fmt.Errorf("unsupported index [%d] on %s", i, v.ty)
	case *ast.SelectorExpr:
		v, err := g.expr(env, x.X)
		if err != nil {
			return lval{}, err
		}
		if strings.HasPrefix(v.ty, "struct:") {
			sn := v.ty[7:]
			for _, f := range g.structs[sn] {
				if f.name == x.Sel.Name {
					return lval{code: "(" + sn + "_" + f.name + " " + v.code + ")", ty: f.ty}, nil
				}
			}
		}
		return lval{}, fmt.Errorf("unsupported selector .%s on %s", x.Sel.Name, v.ty)
	case *ast.CallExpr:
		return g.call(env, x)
	case *ast.CompositeLit:
		return g.composite(env, x)
	}
	return lval{}, fmt.Errorf("unsupported expression %T", x)
}

func (g *lg) binary(env *lenv, x *ast.BinaryExpr) (lval, error) {
	a, err := g.expr(env, x.X)
	if err != nil {
		return lval{}, err
	}
	b, err := g.expr(env, x.Y)
	if err != nil {
		return lval{}, err
	}
	switch x.Op {
	case token.LAND, token.LOR:
		if a.ty != ltBool || b.ty != ltBool {
			return lval{}, fmt.Errorf("%s on %s, %s", x.Op, a.ty, b.ty)
		}
		op := "&&"
		if x.Op == token.LOR {
			op = "||"
		}
		// Gallina's && and || are total functions of pure operands: no evaluation order to preserve
		return lval{code: "(" + a.code + " " + op + " " + b.code + ")", ty: ltBool}, nil
	}
	// unify the operand types
	switch {
	case a.ty == ltUntyped && b.ty != ltUntyped:
		if a, err = g.conv(a, b.ty); err != nil {
			return lval{}, err
		}
	case b.ty == ltUntyped && a.ty != ltUntyped:
		if b, err = g.conv(b, a.ty); err != nil {
			return lval{}, err
		}
	}
	if a.ty != b.ty {
		return lval{}, fmt.Errorf("mismatched operand types %s %s %s", a.ty, x.Op, b.ty)
	}
	ty := a.ty
	bothConst := a.c != nil && b.c != nil
	switch x.Op {
	case token.EQL, token.NEQ:
		var eq string
		switch {
		case ty == ltBool:
			eq = "(Bool.eqb " + a.code + " " + b.code + ")"
		case isIntTy(ty) || ty == ltUntyped:
			if bothConst {
				r := (a.c.Cmp(b.c) == 0) == (x.Op == token.EQL)
				return lval{code: fmt.Sprint(r), ty: ltBool}, nil
			}
			eq = "(" + a.code + " =? " + b.code + ")"
			if ty == ltUint {
				eq += "%N"
			}
		default:
			return lval{}, fmt.Errorf("%s on %s", x.Op, ty)
		}
		if x.Op == token.NEQ {
			eq = "(negb " + eq + ")"
		}
		return lval{code: eq, ty: ltBool}, nil
	case token.LSS, token.LEQ, token.GTR, token.GEQ:
		if !(isIntTy(ty) || ty == ltUntyped) {
			return lval{}, fmt.Errorf("%s on %s", x.Op, ty)
		}
		if bothConst {
			c := a.c.Cmp(b.c)
			r := map[token.Token]bool{token.LSS: c < 0, token.LEQ: c <= 0, token.GTR: c > 0, token.GEQ: c >= 0}[x.Op]
			return lval{code: fmt.Sprint(r), ty: ltBool}, nil
		}
		var s string
		switch x.Op {
		case token.LSS:
			s = "(" + a.code + " <? " + b.code + ")"
		case token.LEQ:
			s = "(" + a.code + " <=? " + b.code + ")"
		case token.GTR:
			s = "(" + b.code + " <? " + a.code + ")"
		case token.GEQ:
			s = "(" + b.code + " <=? " + a.code + ")"
		}
		if ty == ltUint {
			s += "%N"
		}
		return lval{code: s, ty: ltBool}, nil
	case token.ADD, token.SUB, token.MUL:
		if !(isIntTy(ty) || ty == ltUntyped) {
			return lval{}, fmt.Errorf("%s on %s", x.Op, ty)
		}
		if bothConst {
			z := new(big.Int)
			switch x.Op {
			case token.ADD:
				z.Add(a.c, b.c)
			case token.SUB:
				z.Sub(a.c, b.c)
			case token.MUL:
				z.Mul(a.c, b.c)
			}
			return g.constVal(z, ty) // a typed constant expression that overflows is a compile error in Go
		}
		names := map[string]map[token.Token]string{
			ltInt64:  {token.ADD: "add64", token.SUB: "sub64", token.MUL: "mul64w"},
			ltUint64: {token.ADD: "uadd64", token.SUB: "usub64", token.MUL: "umul64w"},
		}
		if ty == ltUint && (x.Op == token.ADD || x.Op == token.MUL) { // uint arithmetic modulo 2^64 (Bits/Bexpr.v w64)
			return lval{code: "(w64 (" + a.code + " " + x.Op.String() + " " + b.code + ")%N)", ty: ty}, nil
		}
		f, ok := names[ty][x.Op]
		if !ok {
			return lval{}, fmt.Errorf("non-constant %s on %s is not supported", x.Op, ty)
		}
		return lval{code: "(" + f + " " + a.code + " " + b.code + ")", ty: ty}, nil
	}
	return lval{}, fmt.Errorf("unsupported operator %s", x.Op)
}

func (g *lg) composite(env *lenv, x *ast.CompositeLit) (lval, error) {
	ty, err := g.goType(x.Type)
	if err != nil {
		return lval{}, err
	}
	if n, el, ok := lgArr(ty); ok {
		if len(x.Elts) != 0 && len(x.Elts) != n {
			return lval{}, fmt.Errorf("array literal with %d of %d elements", len(x.Elts), n)
		}
		var items []string
		for _, e := range x.Elts {
			if _, keyed := e.(*ast.KeyValueExpr); keyed {
				return lval{}, fmt.Errorf("keyed array literal")
			}
			v, err := g.expr(env, e)
			if err != nil {
				return lval{}, err
			}
			if v, err = g.conv(v, el); err != nil {
				return lval{}, err
			}
			items = append(items, v.code)
		}
		for len(items) < n {
			z, err := lgZero(el)
			if err != nil {
				return lval{}, err
			}
			items = append(items, z)
		}
		return lval{code: "[" + strings.Join(items, "; ") + "]", ty: ty}, nil
	}
	if !strings.HasPrefix(ty, "struct:") {
		return lval{}, fmt.Errorf("unsupported composite literal of %s", ty)
	}
	sn := ty[7:]
	fields := g.structs[sn]
	vals := make([]string, len(fields))
	set := make([]bool, len(fields))
	for i, e := range x.Elts {
		idx := i
		ve := e
		if kv, ok := e.(*ast.KeyValueExpr); ok {
			id, ok := kv.Key.(*ast.Ident)
			if !ok {
				return lval{}, fmt.Errorf("unsupported literal key")
			}
			idx = -1
			for j, f := range fields {
				if f.name == id.Name {
					idx = j
				}
			}
			ve = kv.Value
		} else if len(x.Elts) != len(fields) {
			return lval{}, fmt.Errorf("positional literal of %s with %d of %d fields", sn, len(x.Elts), len(fields))
		}
		if idx < 0 || idx >= len(fields) || set[idx] {
			return lval{}, fmt.Errorf("bad field in literal of %s", sn)
		}
		v, err := g.expr(env, ve)
		if err != nil {
			return lval{}, err
		}
		if v, err = g.conv(v, fields[idx].ty); err != nil {
			return lval{}, fmt.Errorf("field %s.%s: %v", sn, fields[idx].name, err)
		}
		vals[idx], set[idx] = v.code, true
	}
	for i, f := range fields {
		if !set[i] {
			switch {
			case isIntTy(f.ty):
				vals[i] = "0"
			case f.ty == ltBool:
				vals[i] = "false"
			default:
				return lval{}, fmt.Errorf("no zero value for field %s.%s", sn, f.name)
			}
		}
	}
	return lval{code: "(mk_gen_" + sn + " " + strings.Join(vals, " ") + ")", ty: ty}, nil
}

func (g *lg) args(env *lenv, xs []ast.Expr, params []lfield, what string) ([]string, error) {
	if len(xs) != len(params) {
		return nil, fmt.Errorf("%s: %d arguments for %d parameters", what, len(xs), len(params))
	}
	var out []string
	for i, a := range xs {
		v, err := g.expr(env, a)
		if err != nil {
			return nil, err
		}
		if v, err = g.conv(v, params[i].ty); err != nil {
			return nil, fmt.Errorf("%s: argument %d: %v", what, i+1, err)
		}
		out = append(out, v.code)
	}
	return out, nil
}

func (g *lg) call(env *lenv, x *ast.CallExpr) (lval, error) {
	if x.Ellipsis != token.NoPos {
		return lval{}, fmt.Errorf("unsupported call with ...")
	}
	switch f := x.Fun.(type) {
	case *ast.Ident:
		if _, shadow := env.vars[f.Name]; shadow {
			return lval{}, fmt.Errorf("call of a variable %s", f.Name)
		}
		switch f.Name {
		case "uint64", "int64":
			if len(x.Args) != 1 {
				return lval{}, fmt.Errorf("bad conversion")
			}
			v, err := g.expr(env, x.Args[0])
			if err != nil {
				return lval{}, err
			}
			if v.c != nil { // constant conversion: must be representable
				return g.constVal(v.c, f.Name)
			}
			switch {
			case v.ty == f.Name:
				return v, nil
			case f.Name == ltUint64 && v.ty == ltInt64:
				return lval{code: "(u64 " + v.code + ")", ty: ltUint64}, nil
			case f.Name == ltInt64 && v.ty == ltUint64:
				return lval{code: "(wrap64 " + v.code + ")", ty: ltInt64}, nil
			}
			return lval{}, fmt.Errorf("unsupported conversion %s(%s)", f.Name, v.ty)
		case "uint":
			if len(x.Args) != 1 {
				return lval{}, fmt.Errorf("bad conversion")
			}
			v, err := g.expr(env, x.Args[0])
			if err != nil {
				return lval{}, err
			}
			if v.c != nil && v.ty == ltUntyped {
				return g.constVal(v.c, ltUint)
			}
			switch v.ty {
			case ltUint:
				return v, nil
			case ltInt, ltInt64: // two's complement: uint(x) = x mod 2^64
				return lval{code: "(Z.to_N (u64 (" + v.code + ")%Z))", ty: ltUint}, nil
			case ltUint64:
				return lval{code: "(Z.to_N (" + v.code + ")%Z)", ty: ltUint}, nil
			}
			return lval{}, fmt.Errorf("unsupported conversion uint(%s)", v.ty)
		case "append":
			if len(x.Args) != 2 {
				return lval{}, fmt.Errorf("append with %d arguments is not supported", len(x.Args))
			}
			s, err := g.expr(env, x.Args[0])
			if err != nil {
				return lval{}, err
			}
			if !strings.HasPrefix(s.ty, "slice:") {
				return lval{}, fmt.Errorf("append to %s", s.ty)
			}
			e, err := g.expr(env, x.Args[1])
			if err != nil {
				return lval{}, err
			}
			if e, err = g.conv(e, "struct:"+s.ty[6:]); err != nil {
				return lval{}, err
			}
			return lval{code: "(" + s.code + " ++ [" + e.code + "])", ty: s.ty}, nil
		case "make":
			if len(x.Args) < 2 || len(x.Args) > 3 {
				return lval{}, fmt.Errorf("unsupported make")
			}
			ty, err := g.goType(x.Args[0])
			if err != nil {
				return lval{}, err
			}
			if !strings.HasPrefix(ty, "slice:") {
				return lval{}, fmt.Errorf("make of %s", ty)
			}
			n, err := g.expr(env, x.Args[1])
			if err != nil {
				return lval{}, err
			}
			if n.c == nil || n.c.Sign() != 0 {
				return lval{}, fmt.Errorf("make with a length other than the constant 0")
			}
			if len(x.Args) == 3 { // the capacity does not influence the contents
				if _, err := g.expr(env, x.Args[2]); err != nil {
					return lval{}, err
				}
			}
			return lval{code: "(@nil gen_" + ty[6:] + ")", ty: ty}, nil
		}
		sig, ok := g.sigs[f.Name]
		if !ok || sig.recvTy != "" {
			return lval{}, fmt.Errorf("unsupported call %s", f.Name)
		}
		if !g.emitted[f.Name] {
			return lval{}, fmt.Errorf("call of %s before its translation", f.Name)
		}
		if sig.panics {
			return lval{}, fmt.Errorf("call of %s, which can panic, is not supported", f.Name)
		}
		as, err := g.args(env, x.Args, sig.params, f.Name)
		if err != nil {
			return lval{}, err
		}
		return lval{code: "(gen_" + f.Name + " " + strings.Join(as, " ") + ")", ty: sig.result}, nil
	case *ast.SelectorExpr:
		if pkg, ok := f.X.(*ast.Ident); ok && pkg.Name == g.bitsName && g.bitsName != "" {
			if _, shadow := env.vars[pkg.Name]; !shadow {
				if f.Sel.Name != "Mul64" {
					return lval{}, fmt.Errorf("unsupported call bits.%s", f.Sel.Name)
				}
				as, err := g.args(env, x.Args, []lfield{{"x", ltUint64}, {"y", ltUint64}}, "bits.Mul64")
				if err != nil {
					return lval{}, err
				}
				return lval{code: "(mul64 " + as[0] + " " + as[1] + ")", ty: "tuple:uint64,uint64"}, nil
			}
		}
		if pkg, ok := f.X.(*ast.Ident); ok && pkg.Name == g.mortonName && g.mortonName != "" {
			if _, shadow := env.vars[pkg.Name]; !shadow {
				// fromZ / toZ of Bits/Morton.v: the evaluation of the programs regenerated from morton.go (G1)
				switch f.Sel.Name {
				case "FromZ":
					as, err := g.args(env, x.Args, []lfield{{"z", ltUint}}, "morton.FromZ")
					if err != nil {
						return lval{}, err
					}
					return lval{code: "(fromZ " + as[0] + ")", ty: "tuple:uint,uint"}, nil
				case "ToZ":
					as, err := g.args(env, x.Args, []lfield{{"x", ltUint}, {"y", ltUint}}, "morton.ToZ")
					if err != nil {
						return lval{}, err
					}
					return lval{code: "(toZ " + as[0] + " " + as[1] + ")", ty: "tuple:uint,bool"}, nil
				case "MustToZ":
					return lval{}, fmt.Errorf("morton.MustToZ (can panic) is only supported as the whole right-hand side of an assignment")
				}
				return lval{}, fmt.Errorf("unsupported call morton.%s", f.Sel.Name)
			}
		}
		recv, err := g.expr(env, f.X)
		if err != nil {
			return lval{}, err
		}
		if strings.HasPrefix(recv.ty, "struct:") {
			key := recv.ty[7:] + "." + f.Sel.Name
			sig, ok := g.sigs[key]
			if !ok {
				return lval{}, fmt.Errorf("unsupported method %s", key)
			}
			if !g.emitted[key] {
				return lval{}, fmt.Errorf("call of %s before its translation", key)
			}
			as, err := g.args(env, x.Args, sig.params, key)
			if err != nil {
				return lval{}, err
			}
			return lval{code: "(gen_" + f.Sel.Name + " " + recv.code + " " + strings.Join(as, " ") + ")", ty: sig.result}, nil
		}
		return lval{}, fmt.Errorf("unsupported method call .%s on %s", f.Sel.Name, recv.ty)
	}
	return lval{}, fmt.Errorf("unsupported call %s", types.ExprString(x.Fun))
}

// lgAssigned collects the names assigned (not declared) anywhere in a statement list.
func lgAssigned(stmts []ast.Stmt, acc map[string]bool) {
	for _, s := range stmts {
		ast.Inspect(s, func(n ast.Node) bool {
			switch n := n.(type) {
			case *ast.AssignStmt:
				if n.Tok != token.DEFINE {
					for _, l := range n.Lhs {
						if ix, isIx := l.(*ast.IndexExpr); isIx {
							l = ix.X // a[i] = v assigns (part of) the array variable a
						}
						if id, ok := l.(*ast.Ident); ok {
							acc[id.Name] = true
						} else {
							acc["?"] = true
						}
					}
				}
			case *ast.IncDecStmt:
				if id, ok := n.X.(*ast.Ident); ok {
					acc[id.Name] = true
				} else {
					acc["?"] = true
				}
			case *ast.RangeStmt:
				if n.Tok == token.ASSIGN {
					acc["?"] = true
				}
			case *ast.FuncLit:
				acc["?"] = true
			}
			return true
		})
	}
}

func lgElse(s *ast.IfStmt) ([]ast.Stmt, error) {
	switch e := s.Else.(type) {
	case nil:
		return nil, nil
	case *ast.BlockStmt:
		return e.List, nil
	case *ast.IfStmt:
		return []ast.Stmt{e}, nil
	}
	return nil, fmt.Errorf("unsupported else")
}

// lgTerminates: every path through the list ends in a return.
func lgTerminates(stmts []ast.Stmt) bool {
	if len(stmts) == 0 {
		return false
	}
	switch s := stmts[len(stmts)-1].(type) {
	case *ast.ReturnStmt:
		return true
	case *ast.BlockStmt:
		return lgTerminates(s.List)
	case *ast.IfStmt:
		if s.Else == nil {
			return false
		}
		eb, err := lgElse(s)
		return err == nil && lgTerminates(s.Body.List) && lgTerminates(eb)
	case *ast.SwitchStmt:
		hasDefault := false
		for _, c := range s.Body.List {
			cc := c.(*ast.CaseClause)
			if cc.List == nil {
				hasDefault = true
			}
			if !lgTerminates(cc.Body) {
				return false
			}
		}
		return hasDefault
	}
	return false
}

func (g *lg) fresh(prefix string) string {
	g.n++
	return fmt.Sprintf("%s_%d", prefix, g.n)
}

// bind turns a continuation into a local function of the variables `names` (those the code in front of it may
// have assigned) and returns the let-prefix and the continuation that calls it.
func (g *lg) bind(env *lenv, names map[string]bool, k lcont) (string, lcont, error) {
	if k.cheap {
		return "", k, nil
	}
	var vs []string
	for n := range names {
		if _, ok := env.vars[n]; ok {
			vs = append(vs, n)
		}
	}
	sort.Strings(vs)
	body, err := k.gen()
	if err != nil {
		return "", lcont{}, err
	}
	name := g.fresh("k")
	var params, actuals string
	if len(vs) == 0 {
		params, actuals = " (_ : unit)", " tt"
	}
	for _, v := range vs {
		ct, err := g.coqType(env.vars[v])
		if err != nil {
			return "", lcont{}, err
		}
		params += fmt.Sprintf(" (v_%s : %s)", v, ct)
		actuals += " v_" + v
	}
	prefix := fmt.Sprintf("let %s := fun%s =>\n    (%s) in\n  ", name, params, body)
	call := "(" + name + actuals + ")"
	return prefix, lcont{gen: func() (string, error) { return call, nil }, cheap: true}, nil
}

// stmts translates a statement list; k produces the code for falling off its end; ret wraps a returned value.
func (g *lg) stmts(env *lenv, list []ast.Stmt, k lcont, ret func(string) string) (string, error) {
	if len(list) == 0 {
		return k.gen()
	}
	s, rest := list[0], list[1:]
	after := func(e *lenv) lcont { // the continuation "rest, then k" in environment e
		if len(rest) == 0 {
			return k
		}
		return lcont{gen: func() (string, error) { return g.stmts(e, rest, k, ret) }}
	}
	switch s := s.(type) {
	case *ast.ReturnStmt:
		if len(s.Results) != 1 {
			return "", fmt.Errorf("unsupported return of %d values", len(s.Results))
		}
		v, err := g.expr(env, s.Results[0])
		if err != nil {
			return "", err
		}
		if v, err = g.conv(v, g.cur.result); err != nil {
			return "", fmt.Errorf("return: %v", err)
		}
		return ret(v.code), nil
	case *ast.BlockStmt:
		// a nested block: its declarations are local, its assignments are not
		inner := lcont{gen: func() (string, error) { return g.stmts(env, rest, k, ret) }}
		if len(rest) == 0 {
			inner = k
		}
		return g.stmts(env.clone(), s.List, inner, ret)
	case *ast.AssignStmt:
		return g.assign(env, s, rest, k, ret)
	case *ast.IfStmt:
		if s.Init != nil {
			return "", fmt.Errorf("unsupported if with init")
		}
		c, err := g.expr(env, s.Cond)
		if err != nil {
			return "", err
		}
		if c.ty != ltBool {
			return "", fmt.Errorf("if condition of type %s", c.ty)
		}
		eb, err := lgElse(s)
		if err != nil {
			return "", err
		}
		return g.branch(env, "", []string{c.code}, [][]ast.Stmt{s.Body.List}, eb, after(env), ret)
	case *ast.SwitchStmt:
		if s.Init != nil {
			return "", fmt.Errorf("unsupported switch with init")
		}
		prefix := ""
		var tag lval
		if s.Tag != nil {
			t, err := g.expr(env, s.Tag)
			if err != nil {
				return "", err
			}
			if t.ty == ltUntyped {
				if t, err = g.conv(t, ltInt); err != nil {
					return "", err
				}
			}
			if !isIntTy(t.ty) {
				return "", fmt.Errorf("switch on %s", t.ty)
			}
			name := g.fresh("tag")
			prefix = fmt.Sprintf("let %s := %s in\n  ", name, t.code)
			tag = lval{code: name, ty: t.ty}
		}
		var conds []string
		var bodies [][]ast.Stmt
		var def []ast.Stmt
		seenDefault := false
		for _, c := range s.Body.List {
			cc := c.(*ast.CaseClause)
			if cc.List == nil {
				if seenDefault {
					return "", fmt.Errorf("two default clauses")
				}
				seenDefault = true
				def = cc.Body
				continue
			}
			var alts []string
			for _, ce := range cc.List {
				v, err := g.expr(env, ce)
				if err != nil {
					return "", err
				}
				if s.Tag == nil {
					if v.ty != ltBool {
						return "", fmt.Errorf("case of type %s in a tagless switch", v.ty)
					}
					alts = append(alts, v.code)
				} else {
					if v, err = g.conv(v, tag.ty); err != nil {
						return "", fmt.Errorf("case: %v", err)
					}
					alts = append(alts, "("+tag.code+" =? "+v.code+")")
				}
			}
			cond := alts[0]
			if len(alts) > 1 {
				cond = "(" + strings.Join(alts, " || ") + ")"
			}
			conds = append(conds, cond)
			bodies = append(bodies, cc.Body)
		}
		// cases are tried top to bottom, the default clause (wherever it is written) last
		return g.branch(env, prefix, conds, bodies, def, after(env), ret)
	case *ast.ForStmt:
		return g.forLoop(env, s, after(env), ret)
	case *ast.RangeStmt:
		return g.rangeLoop(env, s, after(env), ret)
	}
	return "", fmt.Errorf("unsupported statement %T at %s", s, g.fset.Position(s.Pos()))
}

func (g *lg) assign(env *lenv, s *ast.AssignStmt, rest []ast.Stmt, k lcont, ret func(string) string) (string, error) {
	if s.Tok != token.DEFINE && s.Tok != token.ASSIGN {
		return "", fmt.Errorf("unsupported assignment operator %s", s.Tok)
	}
	if len(s.Lhs) == 1 && len(s.Rhs) == 1 {
		if ix, ok := s.Lhs[0].(*ast.IndexExpr); ok {
			return g.assignIndex(env, s, ix, rest, k, ret)
		}
		if g.isMustToZ(env, s.Rhs[0]) {
			return g.assignMustToZ(env, s, rest, k, ret)
		}
	}
	var names []string
	seen := map[string]bool{}
	for _, l := range s.Lhs {
		id, ok := l.(*ast.Ident)
		if !ok {
			return "", fmt.Errorf("unsupported assignment target %s", types.ExprString(l))
		}
		if id.Name != "_" && seen[id.Name] {
			return "", fmt.Errorf("%s assigned twice in one statement", id.Name)
		}
		seen[id.Name] = true
		names = append(names, id.Name)
	}
	// right-hand sides, all evaluated in the environment BEFORE the assignment (Go's tuple assignment)
	var vals []lval
	switch {
	case len(s.Rhs) == len(s.Lhs):
		for _, r := range s.Rhs {
			v, err := g.expr(env, r)
			if err != nil {
				return "", err
			}
			if strings.HasPrefix(v.ty, "tuple:") {
				return "", fmt.Errorf("multi-value in single-value context")
			}
			vals = append(vals, v)
		}
	case len(s.Rhs) == 1:
		v, err := g.expr(env, s.Rhs[0])
		if err != nil {
			return "", err
		}
		if !strings.HasPrefix(v.ty, "tuple:") {
			return "", fmt.Errorf("assignment mismatch")
		}
		tys := strings.Split(v.ty[6:], ",")
		if len(tys) != len(names) {
			return "", fmt.Errorf("assignment mismatch: %d variables, %d values", len(names), len(tys))
		}
		for _, t := range tys {
			vals = append(vals, lval{ty: t})
		}
		vals[0].code = v.code // the whole tuple
	default:
		return "", fmt.Errorf("assignment mismatch")
	}
	env2 := env.clone()
	fresh := 0
	for i, n := range names {
		if n == "_" {
			if vals[i].ty == ltUntyped {
				vals[i].ty = ltInt
			}
			continue
		}
		if _, isConst := env.consts[n]; isConst {
			return "", fmt.Errorf("assignment to the unrolled loop variable %s", n)
		}
		old, exists := env.vars[n]
		if s.Tok == token.DEFINE {
			if exists {
				// Go allows redeclaration of same-scope variables in a multi-variable :=, and shadowing of
				// outer ones; the two cannot be told apart here, so neither is accepted
				return "", fmt.Errorf(":= of the existing variable %s is not supported", n)
			}
			if _, isPkg := g.consts[n]; isPkg {
				return "", fmt.Errorf(":= shadows the constant %s", n)
			}
			fresh++
			if vals[i].ty == ltUntyped {
				v, err := g.conv(vals[i], ltInt)
				if err != nil {
					return "", err
				}
				vals[i] = v
			}
			env2.vars[n] = vals[i].ty
		} else {
			if !exists {
				return "", fmt.Errorf("assignment to unknown variable %s", n)
			}
			if len(s.Rhs) == len(s.Lhs) {
				v, err := g.conv(vals[i], old)
				if err != nil {
					return "", fmt.Errorf("assignment to %s: %v", n, err)
				}
				vals[i] = v
			} else if vals[i].ty != old {
				return "", fmt.Errorf("assignment to %s: type mismatch", n)
			}
		}
	}
	pat := func(n string) string {
		if n == "_" {
			return "_"
		}
		return "v_" + n
	}
	var let string
	switch {
	case len(names) == 1:
		let = fmt.Sprintf("let %s := %s in\n  ", pat(names[0]), vals[0].code)
	case len(s.Rhs) == 1:
		var ps []string
		for _, n := range names {
			ps = append(ps, pat(n))
		}
		let = fmt.Sprintf("let '(%s) := %s in\n  ", strings.Join(ps, ", "), vals[0].code)
	default:
		var ps, es []string
		for i, n := range names {
			ps = append(ps, pat(n))
			es = append(es, vals[i].code)
		}
		let = fmt.Sprintf("let '(%s) := (%s) in\n  ", strings.Join(ps, ", "), strings.Join(es, ", "))
	}
	body, err := g.stmts(env2, rest, k, ret)
	if err != nil {
		return "", err
	}
	return let + body, nil
}

// a[i] = v for an array variable a and a constant index i
func (g *lg) assignIndex(env *lenv, s *ast.AssignStmt, ix *ast.IndexExpr, rest []ast.Stmt, k lcont, ret func(string) string) (string, error) {
	if s.Tok != token.ASSIGN {
		return "", fmt.Errorf("unsupported indexed assignment %s", s.Tok)
	}
	id, ok := ix.X.(*ast.Ident)
	if !ok {
		return "", fmt.Errorf("unsupported assignment target %s", types.ExprString(ix))
	}
	aty, ok := env.vars[id.Name]
	if !ok {
		return "", fmt.Errorf("assignment to unknown variable %s", id.Name)
	}
	n, el, isArr := lgArr(aty)
	if !isArr {
		return "", fmt.Errorf("indexed assignment to %s", aty)
	}
	iv, err := g.expr(env, ix.Index)
	if err != nil {
		return "", err
	}
	if iv.c == nil || !(iv.ty == ltUntyped || iv.ty == ltInt) || !iv.c.IsInt64() || iv.c.Int64() < 0 || iv.c.Int64() >= int64(n) {
		return "", fmt.Errorf("index %s is not a constant inside the array", types.ExprString(ix.Index))
	}
	v, err := g.expr(env, s.Rhs[0])
	if err != nil {
		return "", err
	}
	if v, err = g.conv(v, el); err != nil {
		return "", err
	}
	body, err := g.stmts(env, rest, k, ret)
	if err != nil {
		return "", err
	}
	return fmt.Sprintf("let v_%s := (arr_set %d%%nat %s v_%s) in\n  %s", id.Name, iv.c.Int64(), v.code, id.Name, body), nil
}

func (g *lg) isMustToZ(env *lenv, x ast.Expr) bool {
	c, ok := x.(*ast.CallExpr)
	if !ok {
		return false
	}
	sel, ok := c.Fun.(*ast.SelectorExpr)
	if !ok || sel.Sel.Name != "MustToZ" {
		return false
	}
	pkg, ok := sel.X.(*ast.Ident)
	if !ok || pkg.Name != g.mortonName || g.mortonName == "" {
		return false
	}
	_, shadow := env.vars[pkg.Name]
	return !shadow
}

// z := morton.MustToZ(x, y): mustToZ of Bits/Morton.v, None = the panic, which ends the function
func (g *lg) assignMustToZ(env *lenv, s *ast.AssignStmt, rest []ast.Stmt, k lcont, ret func(string) string) (string, error) {
	if !g.panics {
		return "", fmt.Errorf("panicking call in a function not translated with a panic result")
	}
	id, ok := s.Lhs[0].(*ast.Ident)
	if !ok {
		return "", fmt.Errorf("unsupported assignment target")
	}
	c := s.Rhs[0].(*ast.CallExpr)
	as, err := g.args(env, c.Args, []lfield{{"x", ltUint}, {"y", ltUint}}, "morton.MustToZ")
	if err != nil {
		return "", err
	}
	env2 := env.clone()
	pat := "_"
	if id.Name != "_" {
		if _, isConst := env.consts[id.Name]; isConst {
			return "", fmt.Errorf("assignment to the unrolled loop variable %s", id.Name)
		}
		old, exists := env.vars[id.Name]
		switch {
		case s.Tok == token.DEFINE && exists:
			return "", fmt.Errorf(":= of the existing variable %s is not supported", id.Name)
		case s.Tok == token.ASSIGN && (!exists || old != ltUint):
			return "", fmt.Errorf("assignment to %s: unknown variable or type mismatch", id.Name)
		case s.Tok != token.DEFINE && s.Tok != token.ASSIGN:
			return "", fmt.Errorf("unsupported assignment operator %s", s.Tok)
		}
		env2.vars[id.Name] = ltUint
		pat = "v_" + id.Name
	}
	body, err := g.stmts(env2, rest, k, ret)
	if err != nil {
		return "", err
	}
	return fmt.Sprintf("match (mustToZ %s %s) with\n  | None => None (* panic *)\n  | Some %s =>\n  %s\n  end", as[0], as[1], pat, body), nil
}

// branch: if c1 {b1} else if c2 {b2} ... else {def}, followed by `after`.
func (g *lg) branch(env *lenv, prefix string, conds []string, bodies [][]ast.Stmt, def []ast.Stmt, after lcont, ret func(string) string) (string, error) {
	falls := 0
	all := append(append([][]ast.Stmt{}, bodies...), def)
	asg := map[string]bool{}
	for _, b := range all {
		if !lgTerminates(b) {
			falls++
		}
		lgAssigned(b, asg)
	}
	if asg["?"] {
		return "", fmt.Errorf("unsupported assignment target inside a branch")
	}
	k := after
	if falls >= 2 {
		p, kb, err := g.bind(env, asg, after)
		if err != nil {
			return "", err
		}
		prefix += p
		k = kb
	}
	var sb strings.Builder
	sb.WriteString(prefix)
	for i, c := range conds {
		be, err := g.stmts(env.clone(), bodies[i], k, ret)
		if err != nil {
			return "", err
		}
		fmt.Fprintf(&sb, "if %s then (%s)\n  else ", c, be)
	}
	de, err := g.stmts(env.clone(), def, k, ret)
	if err != nil {
		return "", err
	}
	fmt.Fprintf(&sb, "(%s)", de)
	return sb.String(), nil
}

const lgMaxUnroll = 64

// forLoop: for i := c0; i <cmp> c; i++ / i-- with constant bounds, unrolled.
func (g *lg) forLoop(env *lenv, s *ast.ForStmt, after lcont, ret func(string) string) (string, error) {
	init, ok := s.Init.(*ast.AssignStmt)
	if !ok || init.Tok != token.DEFINE || len(init.Lhs) != 1 || len(init.Rhs) != 1 {
		return "", fmt.Errorf("unsupported for loop (init)")
	}
	iv, ok := init.Lhs[0].(*ast.Ident)
	if !ok || iv.Name == "_" {
		return "", fmt.Errorf("unsupported for loop (init)")
	}
	if _, exists := env.vars[iv.Name]; exists {
		return "", fmt.Errorf("loop variable %s shadows a variable", iv.Name)
	}
	if _, exists := env.consts[iv.Name]; exists {
		return "", fmt.Errorf("loop variable %s shadows a loop variable", iv.Name)
	}
	start, err := g.expr(env, init.Rhs[0])
	if err != nil {
		return "", err
	}
	if start.c == nil || !(start.ty == ltUntyped || start.ty == ltInt) {
		return "", fmt.Errorf("for loop: the start value is not an int constant")
	}
	post, ok := s.Post.(*ast.IncDecStmt)
	if !ok {
		return "", fmt.Errorf("unsupported for loop (post)")
	}
	if id, ok := post.X.(*ast.Ident); !ok || id.Name != iv.Name {
		return "", fmt.Errorf("unsupported for loop (post)")
	}
	step := big.NewInt(1)
	if post.Tok == token.DEC {
		step = big.NewInt(-1)
	}
	if s.Cond == nil {
		return "", fmt.Errorf("unsupported for loop (no condition)")
	}
	asg := map[string]bool{}
	lgAssigned(s.Body.List, asg)
	if asg[iv.Name] || asg["?"] {
		return "", fmt.Errorf("for loop: the body assigns the loop variable or an unsupported target")
	}
	var hasBranch bool
	ast.Inspect(s.Body, func(n ast.Node) bool {
		if _, ok := n.(*ast.BranchStmt); ok {
			hasBranch = true
		}
		return true
	})
	if hasBranch {
		return "", fmt.Errorf("for loop: break/continue/goto is not supported")
	}
	var iters []*big.Int
	i := new(big.Int).Set(start.c)
	for {
		e := env.clone()
		e.consts[iv.Name] = i
		c, err := g.expr(e, s.Cond)
		if err != nil {
			return "", err
		}
		if c.ty != ltBool || (c.code != "true" && c.code != "false") {
			return "", fmt.Errorf("for loop: the condition is not a constant")
		}
		if c.code == "false" {
			break
		}
		if len(iters) >= lgMaxUnroll {
			return "", fmt.Errorf("for loop: more than %d iterations", lgMaxUnroll)
		}
		iters = append(iters, i)
		i = new(big.Int).Add(i, step)
	}
	if len(iters) == 0 {
		return after.gen()
	}
	// lets, outermost first: the code after the loop, then the iterations from the last to the second;
	// the first iteration is the body of those lets
	prefix, k, err := g.bind(env, asg, after)
	if err != nil {
		return "", err
	}
	iter := func(val *big.Int, next lcont) lcont {
		return lcont{gen: func() (string, error) {
			e := env.clone()
			e.consts[iv.Name] = val
			b, err := g.stmts(e, s.Body.List, next, ret)
			if err != nil {
				return "", err
			}
			return fmt.Sprintf("(* %s = %s *) %s", iv.Name, val, b), nil
		}}
	}
	for j := len(iters) - 1; j >= 1; j-- {
		p, kb, err := g.bind(env, asg, iter(iters[j], k))
		if err != nil {
			return "", err
		}
		prefix += p
		k = kb
	}
	first, err := iter(iters[0], k).gen()
	if err != nil {
		return "", err
	}
	return prefix + first, nil
}

// rangeLoop: for _, x := range s { body } where the body assigns nothing that outlives an iteration;
// the only effect of the loop is an early return.
func (g *lg) rangeLoop(env *lenv, s *ast.RangeStmt, after lcont, ret func(string) string) (string, error) {
	if s.Tok != token.DEFINE {
		return "", fmt.Errorf("unsupported range loop (no :=)")
	}
	if g.panics {
		return "", fmt.Errorf("range loop in a function that can panic is not supported")
	}
	if s.Key != nil {
		if id, ok := s.Key.(*ast.Ident); !ok || id.Name != "_" {
			return "", fmt.Errorf("unsupported range loop (index variable)")
		}
	}
	vid, ok := s.Value.(*ast.Ident)
	if !ok {
		return "", fmt.Errorf("unsupported range loop (no element variable)")
	}
	xs, err := g.expr(env, s.X)
	if err != nil {
		return "", err
	}
	if !strings.HasPrefix(xs.ty, "slice:") {
		return "", fmt.Errorf("range over %s", xs.ty)
	}
	asg := map[string]bool{}
	lgAssigned(s.Body.List, asg)
	for n := range asg {
		if _, outer := env.vars[n]; outer || n == "?" || n == vid.Name {
			return "", fmt.Errorf("range loop with loop-carried state (%s) is not supported", n)
		}
	}
	var hasBranch bool
	ast.Inspect(s.Body, func(n ast.Node) bool {
		if _, ok := n.(*ast.BranchStmt); ok {
			hasBranch = true
		}
		return true
	})
	if hasBranch {
		return "", fmt.Errorf("range loop: break/continue/goto is not supported")
	}
	e := env.clone()
	elemTy := "struct:" + xs.ty[6:]
	param := "_"
	if vid.Name != "_" {
		if _, exists := env.vars[vid.Name]; exists {
			return "", fmt.Errorf("range variable %s shadows a variable", vid.Name)
		}
		if _, exists := env.consts[vid.Name]; exists {
			return "", fmt.Errorf("range variable %s shadows a loop variable", vid.Name)
		}
		e.vars[vid.Name] = elemTy
		param = "v_" + vid.Name
	}
	ct, err := g.coqType(elemTy)
	if err != nil {
		return "", err
	}
	none := lcont{gen: func() (string, error) { return "None", nil }, cheap: true}
	body, err := g.stmts(e, s.Body.List, none, func(v string) string { return "(Some " + v + ")" })
	if err != nil {
		return "", err
	}
	rest, err := after.gen()
	if err != nil {
		return "", err
	}
	r := g.fresh("r")
	return fmt.Sprintf("match range_ret (fun %s : %s =>\n      %s) %s with\n  | Some %s => %s\n  | None => %s\n  end",
		param, ct, body, xs.code, r, ret(r), rest), nil
}

func (g *lg) signature(fd *ast.FuncDecl) (*lsig, error) {
	sig := &lsig{decl: fd}
	if fd.Type.TypeParams != nil {
		return nil, fmt.Errorf("generic function")
	}
	if fd.Recv != nil {
		if len(fd.Recv.List) != 1 || len(fd.Recv.List[0].Names) != 1 {
			return nil, fmt.Errorf("unsupported receiver")
		}
		t, err := g.goType(fd.Recv.List[0].Type)
		if err != nil {
			return nil, err
		}
		if !strings.HasPrefix(t, "struct:") {
			return nil, fmt.Errorf("unsupported receiver type %s", t)
		}
		sig.recvTy, sig.recv = t, fd.Recv.List[0].Names[0].Name
	}
	for _, f := range fd.Type.Params.List {
		t, err := g.goType(f.Type)
		if err != nil {
			return nil, err
		}
		if len(f.Names) == 0 {
			return nil, fmt.Errorf("unnamed parameter")
		}
		for _, n := range f.Names {
			sig.params = append(sig.params, lfield{n.Name, t})
		}
	}
	if fd.Type.Results == nil || len(fd.Type.Results.List) != 1 || len(fd.Type.Results.List[0].Names) != 0 {
		return nil, fmt.Errorf("unsupported result list")
	}
	t, err := g.goType(fd.Type.Results.List[0].Type)
	if err != nil {
		return nil, err
	}
	sig.result = t
	return sig, nil
}

func (g *lg) function(key string) error {
	sig, ok := g.sigs[key]
	if !ok {
		return fmt.Errorf("function %s not found (or its signature is not supported)", key)
	}
	fd := sig.decl
	env := &lenv{vars: map[string]string{}, consts: map[string]*big.Int{}}
	var params []string
	add := func(name, ty string) error {
		if _, dup := env.vars[name]; dup && name != "_" {
			return fmt.Errorf("duplicate parameter %s", name)
		}
		ct, err := g.coqType(ty)
		if err != nil {
			return err
		}
		if name == "_" {
			params = append(params, fmt.Sprintf("(_ : %s)", ct))
			return nil
		}
		env.vars[name] = ty
		params = append(params, fmt.Sprintf("(v_%s : %s)", name, ct))
		return nil
	}
	if sig.recvTy != "" {
		if err := add(sig.recv, sig.recvTy); err != nil {
			return err
		}
	}
	for _, p := range sig.params {
		if err := add(p.name, p.ty); err != nil {
			return err
		}
	}
	if fd.Body == nil {
		return fmt.Errorf("%s has no body", key)
	}
	rt, err := g.coqType(sig.result)
	if err != nil {
		return err
	}
	g.cur = sig
	g.n = 0
	g.panics = false
	ast.Inspect(fd.Body, func(n ast.Node) bool {
		if e, ok := n.(ast.Expr); ok && g.isMustToZ(env, e) {
			g.panics = true
		}
		return true
	})
	wrap := func(v string) string { return v }
	sig.panics = g.panics
	if g.panics {
		rt = "(option " + rt + ")"
		wrap = func(v string) string { return "(Some " + v + ")" }
	}
	fall := lcont{gen: func() (string, error) {
		return "", fmt.Errorf("control reaches the end of the function without a return")
	}, cheap: true}
	body, err := g.stmts(env, fd.Body.List, fall, wrap)
	if err != nil {
		return fmt.Errorf("%s: %v", key, err)
	}
	pos := g.fset.Position(fd.Pos())
	fmt.Fprintf(&g.out, "(* %s:%d func %s *)\nDefinition gen_%s %s : %s :=\n  %s.\n\n",
		filepath.Base(pos.Filename), pos.Line, key, fd.Name.Name, strings.Join(params, " "), rt, body)
	g.emitted[key] = true
	return nil
}

// lgCheckGeom makes sure intgeom's types still have the shape the translation of indexing assumes.
func lgCheckGeom(repo string) error {
	fset := token.NewFileSet()
	pkgs, err := parser.ParseDir(fset, filepath.Join(repo, "intgeom"), nil, 0)
	if err != nil {
		return err
	}
	want := map[string]string{"M": "= int64", "Point": "[2]M", "Line": "[2][2]M", "Extent": "[4]M"}
	got := map[string]string{}
	for _, p := range pkgs {
		if strings.HasSuffix(p.Name, "_test") {
			continue
		}
		for fn, f := range p.Files {
			if strings.HasSuffix(fn, "_test.go") {
				continue
			}
			for _, d := range f.Decls {
				gd, ok := d.(*ast.GenDecl)
				if !ok || gd.Tok != token.TYPE {
					continue
				}
				for _, sp := range gd.Specs {
					ts := sp.(*ast.TypeSpec)
					s := types.ExprString(ts.Type)
					if ts.Assign != token.NoPos {
						s = "= " + s
					}
					got[ts.Name.Name] = s
				}
			}
		}
	}
	for n, w := range want {
		if got[n] != w {
			return fmt.Errorf("intgeom.%s is %q, the translation assumes %q", n, got[n], w)
		}
	}
	return nil
}

// lgLoad parses pointindex.go: imports, untyped constants, the struct paramBound, and the signatures of `wanted`.
func lgLoad(repo string, wanted map[string]bool) (*lg, *ast.TypeSpec, error) {
	g, ts, err := lgLoad0(repo, wanted)
	return g, ts, err
}

func lgLoad0(repo string, wanted map[string]bool) (*lg, *ast.TypeSpec, error) {
	g := &lg{fset: token.NewFileSet(), structs: map[string][]lfield{}, consts: map[string]*big.Int{},
		sigs: map[string]*lsig{}, emitted: map[string]bool{}}
	if err := lgCheckGeom(repo); err != nil {
		return nil, nil, err
	}
	f, err := parser.ParseFile(g.fset, filepath.Join(repo, "pointindex/pointindex.go"), nil, 0)
	if err != nil {
		return nil, nil, err
	}
	for _, im := range f.Imports {
		path := strings.Trim(im.Path.Value, `"`)
		name := path[strings.LastIndex(path, "/")+1:]
		if im.Name != nil {
			name = im.Name.Name
		}
		switch {
		case path == "math/bits":
			g.bitsName = name
		case strings.HasSuffix(path, "/texel/intgeom"):
			g.geomName = name
		case strings.HasSuffix(path, "/texel/morton"):
			g.mortonName = name
		}
	}
	if g.geomName == "" {
		return nil, nil, fmt.Errorf("import of intgeom not found")
	}
	// package-level untyped integer constants and the struct paramBound
	var funcs []*ast.FuncDecl
	var structDecl *ast.TypeSpec
	for _, d := range f.Decls {
		switch d := d.(type) {
		case *ast.FuncDecl:
			funcs = append(funcs, d)
		case *ast.GenDecl:
			switch d.Tok {
			case token.CONST:
				for _, sp := range d.Specs {
					vs := sp.(*ast.ValueSpec)
					if vs.Type != nil {
						continue
					}
					for i, n := range vs.Names {
						if i < len(vs.Values) {
							if bl, ok := vs.Values[i].(*ast.BasicLit); ok && bl.Kind == token.INT {
								if z, err := parseIntLit(bl.Value); err == nil {
									g.consts[n.Name] = z
								}
							}
						}
					}
				}
			case token.TYPE:
				for _, sp := range d.Specs {
					ts := sp.(*ast.TypeSpec)
					if ts.Name.Name == "paramBound" {
						structDecl = ts
					}
				}
			}
		}
	}
	if structDecl == nil {
		return nil, nil, fmt.Errorf("type paramBound not found")
	}
	st, ok := structDecl.Type.(*ast.StructType)
	if !ok || structDecl.Assign != token.NoPos || structDecl.TypeParams != nil {
		return nil, nil, fmt.Errorf("paramBound is not a plain struct")
	}
	var fields []lfield
	for _, fl := range st.Fields.List {
		t, err := g.goType(fl.Type)
		if err != nil {
			return nil, nil, fmt.Errorf("paramBound: %v", err)
		}
		if len(fl.Names) == 0 {
			return nil, nil, fmt.Errorf("paramBound: embedded field")
		}
		for _, n := range fl.Names {
			fields = append(fields, lfield{n.Name, t})
		}
	}
	g.structs["paramBound"] = fields
	for _, fd := range funcs {
		key := fd.Name.Name
		if fd.Recv != nil && len(fd.Recv.List) == 1 {
			if id, ok := fd.Recv.List[0].Type.(*ast.Ident); ok {
				key = id.Name + "." + key
			} else {
				continue
			}
		}
		if !wanted[key] {
			continue
		}
		sig, err := g.signature(fd)
		if err != nil {
			return nil, nil, fmt.Errorf("%s: %v", key, err)
		}
		g.sigs[key] = sig
	}
	return g, structDecl, nil
}

func genLine(repo string) (string, error) {
	g, structDecl, err := lgLoad(repo, map[string]bool{"cmpProducts": true, "paramBound.leavesRoomBelow": true, "lineIntersects": true})
	if err != nil {
		return "", err
	}
	fields := g.structs["paramBound"]
	g.out.WriteString("(* GENERATED by /verif/translator (G2, machine integers) from pointindex/pointindex.go on every run -- do not edit. *)\n")
	g.out.WriteString("From Coq Require Import ZArith List Bool.\nFrom Texel Require Import Index.MachineInt.\nImport ListNotations.\nOpen Scope Z_scope.\n\n")
	g.out.WriteString("(* intgeom.Line = [2][2]int64, intgeom.Extent = [4]int64 *)\n")
	g.out.WriteString("Definition gl_line := ((Z * Z) * (Z * Z))%type.\nDefinition gl_extent := (Z * Z * Z * Z)%type.\n")
	g.out.WriteString("Definition gl_ext0 (e : gl_extent) : Z := let '(a, _, _, _) := e in a.\nDefinition gl_ext1 (e : gl_extent) : Z := let '(_, b, _, _) := e in b.\n")
	g.out.WriteString("Definition gl_ext2 (e : gl_extent) : Z := let '(_, _, c, _) := e in c.\nDefinition gl_ext3 (e : gl_extent) : Z := let '(_, _, _, d) := e in d.\n\n")
	pos := g.fset.Position(structDecl.Pos())
	fmt.Fprintf(&g.out, "(* %s:%d type paramBound *)\nRecord gen_paramBound := mk_gen_paramBound {", filepath.Base(pos.Filename), pos.Line)
	for i, fl := range fields {
		ct, err := g.coqType(fl.ty)
		if err != nil {
			return "", err
		}
		if i > 0 {
			g.out.WriteString(";")
		}
		fmt.Fprintf(&g.out, " paramBound_%s : %s", fl.name, ct)
	}
	g.out.WriteString(" }.\n\n")
	for _, key := range []string{"cmpProducts", "paramBound.leavesRoomBelow", "lineIntersects"} {
		if err := g.function(key); err != nil {
			return "", err
		}
	}
	return g.out.String(), nil
}

// lgCheckMorton: morton.Z is an alias of uint and the three functions have the signatures the translation assumes.
func lgCheckMorton(repo string) error {
	fset := token.NewFileSet()
	f, err := parser.ParseFile(fset, filepath.Join(repo, "morton/morton.go"), nil, 0)
	if err != nil {
		return err
	}
	want := map[string]string{
		"type Z":       "= uint",
		"func ToZ":     "func(x, y uint) (z Z, ok bool)",
		"func MustToZ": "func(x, y uint) Z",
		"func FromZ":   "func(z Z) (x, y uint)",
	}
	got := map[string]string{}
	for _, d := range f.Decls {
		switch d := d.(type) {
		case *ast.FuncDecl:
			if d.Recv == nil {
				got["func "+d.Name.Name] = types.ExprString(d.Type)
			}
		case *ast.GenDecl:
			if d.Tok == token.TYPE {
				for _, sp := range d.Specs {
					ts := sp.(*ast.TypeSpec)
					t := types.ExprString(ts.Type)
					if ts.Assign != token.NoPos {
						t = "= " + t
					}
					got["type "+ts.Name.Name] = t
				}
			}
		}
	}
	for n, w := range want {
		if got[n] != w {
			return fmt.Errorf("morton: %s is %q, the translation assumes %q", n, got[n], w)
		}
	}
	return nil
}

// genChildren: pointindex.getQuadrantZs -> gen/ChildrenGen.v, over the fromZ / mustToZ of Bits/Morton.v (the
// evaluation of the programs regenerated from morton.go) and the gen_oneIfRight / gen_oneIfTop of PointIndexGen.v.
func genChildren(repo string) (string, error) {
	if err := lgCheckMorton(repo); err != nil {
		return "", err
	}
	g, _, err := lgLoad(repo, map[string]bool{"getQuadrantZs": true, "oneIfRight": true, "oneIfTop": true})
	if err != nil {
		return "", err
	}
	if g.mortonName == "" {
		return "", fmt.Errorf("import of morton not found")
	}
	for _, ext := range []string{"oneIfRight", "oneIfTop"} { // translated into PointIndexGen.v by genPointIndex
		sig, ok := g.sigs[ext]
		if !ok || sig.recvTy != "" || len(sig.params) != 1 || sig.params[0].ty != ltInt || sig.result != ltInt {
			return "", fmt.Errorf("%s is not func(int) int", ext)
		}
		g.emitted[ext] = true
	}
	g.out.WriteString("(* GENERATED by /verif/translator (G2, machine integers) from pointindex/pointindex.go on every run -- do not edit. *)\n")
	g.out.WriteString("From Coq Require Import ZArith NArith List Bool.\nFrom Texel Require Import Bits.Bexpr Bits.Morton Index.MachineInt.\nFrom Texel.Gen Require Import PointIndexGen.\nImport ListNotations.\nOpen Scope Z_scope.\n\n")
	g.out.WriteString("(* a[i] = v on a fixed-size array (i is inside the array: checked by the translator) *)\n")
	g.out.WriteString("Fixpoint arr_set {A : Type} (i : nat) (v : A) (a : list A) : list A :=\n  match a, i with\n  | [], _ => []\n  | _ :: r, O => v :: r\n  | x :: r, S j => x :: arr_set j v r\n  end.\n\n")
	if err := g.function("getQuadrantZs"); err != nil {
		return "", err
	}
	return g.out.String(), nil
}
